#!/bin/sh
# Offline build of the framework: regenerate the source-derived Lean data (C15, C19), then build
# every model, proof and the psidriver executable.
cd "$(dirname "$0")" || exit 2
export PYTHONPATH="$(pwd)${PYTHONPATH:+:$PYTHONPATH}"
export PYTHONDONTWRITEBYTECODE=1
for t in translate_names translate_locks; do
  if [ -f "harness/$t.py" ]; then
    /venv/bin/python -m "harness.$t" || echo "setup: $t failed (the check reports it)"
  fi
done
cd lean && lake build
