import PsiProofs.Helper.C03_Hist
/-!
C04 for histories that also `append` stimuli while the queue runs.

Histories are arbitrary lists over {pop n, pause m, pause(), resume m, resume(), append e}: a stimulus may
be appended at any point — before anything was played, mid-waveform, while paused, after the queue ran
dry. `conservation`, `final_counts` and `removed_once` carry over unchanged; the only extra facts needed
are that an appended stimulus has ≥ 1 sample and starts with `trials = requested_trials` (what `append`
does), and that every logged trial belongs to a stimulus already in the table (`KeysOK`, an invariant).
-/
namespace Psi.Queue

inductive OpA
  | op (o : Op)
  | append (e : Entry)

def stepOpA (s : QState) : OpA → Except Err QState
  | .op o => stepOp s o
  | .append e => .ok (append s e).1

def runOpsA : List OpA → QState → Except Err QState
  | [], s => .ok s
  | op :: ops, s =>
    match stepOpA s op with
    | .error e => .error e
    | .ok s' => runOpsA ops s'

/-- what `append(source, trials, …)` stores: a non-empty waveform, the counter at its requested value -/
def NewEntry (e : Entry) : Prop := 0 < e.len ∧ e.trials = e.requested

/-- every logged trial belongs to a stimulus in the table -/
def KeysOK (s : QState) : Prop := ∀ i ∈ s.generated, i.key < s.data.length

theorem nextTrial_length {s s1 : QState} (h : nextTrial s = .ok (some s1)) :
    s1.data.length = s.data.length := by
  obtain ⟨key, sa, sb, e, d, hk, hd, _, _, _, rfl⟩ := nextTrial_some h
  have f1 := nextKey_frame hk
  have f2 := decrementKey_frame hd
  simp only [List.length_modify]
  rw [f2]; simp only [setTrials, List.length_modify]; rw [f1]

theorem KeysOK_tick {s s' : QState} {c : Cell} (hi : KeysOK s) (h : tick s = .ok (c, s')) : KeysOK s' := by
  cases tick_cases h with
  | paused _ _ hs => subst hs; exact hi
  | play src _ _ _ he =>
    have h1 := emitSrc_same s src
    rw [← he] at h1
    intro i hi'; rw [h1.2.1] at hi'; rw [h1.1]; exact hi i hi'
  | gap _ _ _ _ hs => subst hs; exact hi
  | dry _ _ _ _ _ hs => subst hs; exact hi
  | start s1 src _ _ _ hn _ _ he =>
    have h1 := emitSrc_same s1 src
    rw [← he] at h1
    obtain ⟨info, e0, hd0, _, _, _, _, hg, _⟩ := nextTrial_info hn
    have hlen := nextTrial_length hn
    simp only [dropSrc] at hd0 hg hlen
    intro i hi'
    rw [h1.2.1, hg] at hi'
    rw [h1.1, hlen]
    rcases List.mem_append.mp hi' with h' | h'
    · exact hi i h'
    · simp only [List.mem_singleton] at h'; subst h'
      exact (List.getElem?_eq_some_iff.mp hd0).1

theorem foldl_setTrials_length (keys : List Nat) (d : List Entry) :
    (keys.foldl (fun d k => setTrials d k (· + 1)) d).length = d.length := by
  induction keys generalizing d with
  | nil => rfl
  | cons k ks ih => simp only [List.foldl_cons]; rw [ih]; simp [setTrials]

theorem KeysOK_pause (m : Option Int) {s : QState} (hi : KeysOK s) : KeysOK (pause m s).1 := by
  cases m with
  | none => exact hi
  | some m =>
    obtain ⟨hd, hg, _⟩ := requeue_fields m (cancel m { s with paused := true })
    obtain ⟨cd, cg, _⟩ := cancel_fields m { s with paused := true }
    have e2 : (pause (some m) s).1.generated = (requeue m (cancel m { s with paused := true })).generated := by
      unfold pause; simp only; split <;> rfl
    have e3 : (pause (some m) s).1.data = (requeue m (cancel m { s with paused := true })).data := by
      unfold pause; simp only; split <;> rfl
    intro i hi'
    rw [e2, hg, cg] at hi'
    rw [e3, hd, foldl_setTrials_length, cd]
    exact hi i (List.mem_filter.mp hi').1

theorem KeysOK_resume (m : Option Int) {s : QState} (hi : KeysOK s) : KeysOK (resume m s) := by
  cases m <;> exact hi

/-- `Good ∧ KeysOK` is preserved by every operation of the base language … -/
theorem GoodK_step {s s' : QState} {op : Op} (hg : Good s) (hk : KeysOK s) (h : stepOp s op = .ok s') :
    Good s' ∧ KeysOK s' := by
  refine ⟨Good_step hg h, ?_⟩
  cases op with
  | pop n =>
    simp only [stepOp] at h
    cases hp : popBuffer n s with
    | error e => simp [hp] at h
    | ok r =>
      obtain ⟨out, s1⟩ := r
      simp only [hp, Except.ok.injEq] at h
      subst h
      have hn : 0 < n := by
        rcases Nat.eq_zero_or_pos n with h0 | h0
        · subst h0; simp [popBuffer] at hp
        · exact h0
      rw [popBuffer_refines hg.wf hn] at hp
      exact runTicks_induct (I := KeysOK) (fun _ _ _ _ hi h => KeysOK_tick hi h) n hg.wf hk hp
  | pause m => simp only [stepOp, Except.ok.injEq] at h; subst h; exact KeysOK_pause m hk
  | resume m => simp only [stepOp, Except.ok.injEq] at h; subst h; exact KeysOK_resume m hk

/-- … and by `append` of a new stimulus. -/
theorem GoodK_append {s : QState} {e : Entry} (hg : Good s) (hk : KeysOK s) (he : NewEntry e) :
    Good (append s e).1 ∧ KeysOK (append s e).1 := by
  have hget : ∀ (i : Nat) (e' : Entry), (append s e).1.data[i]? = some e' →
      (i < s.data.length ∧ s.data[i]? = some e') ∨ (i = s.data.length ∧ e' = e) := by
    intro i e' hi
    simp only [append] at hi
    by_cases hlt : i < s.data.length
    · rw [List.getElem?_append_left hlt] at hi; exact Or.inl ⟨hlt, hi⟩
    · rw [List.getElem?_append_right (by omega)] at hi
      cases hsub : i - s.data.length with
      | zero => simp [hsub] at hi; exact Or.inr ⟨by omega, hi.symm⟩
      | succ m => simp [hsub] at hi
  refine ⟨⟨⟨?_, ?_⟩, ?_, ?_⟩, ?_⟩
  · intro i e' hi
    rcases hget i e' hi with ⟨_, h0⟩ | ⟨_, rfl⟩
    · exact hg.wf.data i e' h0
    · exact he.1
  · exact hg.wf.src
  · intro key e' hi
    have hkept : keptOf (append s e).1 key = keptOf s key := rfl
    rw [hkept]
    rcases hget key e' hi with ⟨_, h0⟩ | ⟨hkey, rfl⟩
    · exact hg.cons key e' h0
    · have : keptOf s key = 0 := by
        unfold keptOf
        have : s.generated.filter (fun i => i.key == key) = [] := by
          rw [List.filter_eq_nil_iff]
          intro i hi'
          have := hk i hi'
          simp only [beq_iff_eq]; omega
        rw [this]; rfl
      rw [this, he.2]; omega
  · exact Once_of_same (s := s) hg.once rfl rfl rfl
  · intro i hi'
    have : i.key < s.data.length := hk i hi'
    simp only [append, List.length_append, List.length_singleton]
    omega

theorem GoodK_run {ops : List OpA} {s s' : QState} (hg : Good s) (hk : KeysOK s)
    (hnew : ∀ e, OpA.append e ∈ ops → NewEntry e) (h : runOpsA ops s = .ok s') : Good s' ∧ KeysOK s' := by
  induction ops generalizing s with
  | nil => simp [runOpsA] at h; subst h; exact ⟨hg, hk⟩
  | cons op ops ih =>
    simp only [runOpsA] at h
    have hnew' : ∀ e, OpA.append e ∈ ops → NewEntry e := fun e he => hnew e (List.mem_cons_of_mem _ he)
    cases op with
    | op o =>
      cases hs : stepOp s o with
      | error e => simp [stepOpA, hs] at h
      | ok s1 =>
        simp only [stepOpA, hs] at h
        obtain ⟨g1, k1⟩ := GoodK_step hg hk hs
        exact ih g1 k1 hnew' h
    | append e =>
      simp only [stepOpA] at h
      obtain ⟨g1, k1⟩ := GoodK_append hg hk (hnew e (by simp))
      exact ih g1 k1 hnew' h

/-- a freshly built queue has nothing logged -/
theorem KeysOK_init {s : QState} (hg : s.generated = []) : KeysOK s := by
  intro i hi; rw [hg] at hi; simp at hi

/-- **Conservation with late appends.** After any history that also appends stimuli at arbitrary points,
for every stimulus in the table (appended before or during the run): non-cancelled presentations
logged + remaining trials = requested trials. -/
theorem conservation_append {ops : List OpA} {s s' : QState} (hg : Good s) (h0 : s.generated = [])
    (hnew : ∀ e, OpA.append e ∈ ops → NewEntry e) (h : runOpsA ops s = .ok s')
    (key : Nat) (e : Entry) (he : s'.data[key]? = some e) :
    keptOf s' key + e.trials = e.requested :=
  (GoodK_run hg (KeysOK_init h0) hnew h).1.cons key e he

/-- **Final counts with late appends.** A stimulus with no trials remaining has exactly its requested
number of non-cancelled presentations; with a negative counter (keep-completed policies) it has more. -/
theorem final_counts_append {ops : List OpA} {s s' : QState} (hg : Good s) (h0 : s.generated = [])
    (hnew : ∀ e, OpA.append e ∈ ops → NewEntry e) (h : runOpsA ops s = .ok s')
    (key : Nat) (e : Entry) (he : s'.data[key]? = some e) :
    (e.trials = 0 → keptOf s' key = e.requested) ∧ (e.trials ≤ 0 → keptOf s' key ≥ e.requested) := by
  have := conservation_append hg h0 hnew h key e he
  constructor <;> intro _ <;> omega

/-- **Removed exactly once, with late appends**, and every logged trial belongs to a stimulus of the
table. -/
theorem removed_once_append {ops : List OpA} {s s' : QState} (hg : Good s) (h0 : s.generated = [])
    (hnew : ∀ e, OpA.append e ∈ ops → NewEntry e) (h : runOpsA ops s = .ok s') :
    (s'.generated.map (·.uid) ++ s'.removed).Perm (List.range s'.added.length) ∧
    s'.removed.Nodup ∧ (∀ i ∈ s'.generated, i.key < s'.data.length) := by
  obtain ⟨g, k⟩ := GoodK_run hg (KeysOK_init h0) hnew h
  exact ⟨g.once, (Once_nodup g.once).1, k⟩

/-- a history without `append` is a C04 history -/
theorem runOpsA_op (ops : List Op) (s : QState) : runOpsA (ops.map OpA.op) s = runOps ops s := by
  induction ops generalizing s with
  | nil => rfl
  | cons o ops ih =>
    simp only [List.map_cons, runOpsA, runOps, stepOpA]
    cases stepOp s o with
    | error e => rfl
    | ok s1 => exact ih s1

/-! ### Non-vacuity -/

example : NewEntry ⟨4, true, 2, 2, [1], 0, 4⟩ := ⟨by decide, rfl⟩

/-- interleaved queue with one stimulus (3 trials); a second stimulus (2 trials) is appended mid-waveform,
the queue is paused at 12 (two trials cancelled), a third (1 trial) is appended while paused; after the
drain the counters are 0, 0, −1 (the round-robin keeps completed stimuli, the last one is presented twice)
and kept + trials = requested for all three -/
example : (runOpsA [.op (.pop 5), .append ⟨4, true, 2, 2, [1], 0, 4⟩, .op (.pop 20), .op (.pause (some 12)),
      .append ⟨2, false, 1, 1, [0], 0, 2⟩, .op (.resume (some 30)), .op (.pop 80)]
    (append { kind := .interleaved } ⟨10, false, 3, 3, [5], 0, 10⟩).1).toOption.map
    (fun s => (s.data.map (·.trials), [keptOf s 0, keptOf s 1, keptOf s 2], s.removed.length)) =
    some ([0, 0, -1], [3, 2, 2], 2) := by decide +kernel

end Psi.Queue
