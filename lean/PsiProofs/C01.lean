import PsiModel.Stim
namespace Psi.Stim
theorem c01_placeholder : (1 : Nat) = 1 := rfl
end Psi.Stim
