import PsiModel.Stim
import PsiProofs.Helper.C01_Chunk
import PsiProofs.Helper.C01_Env
import PsiProofs.Helper.C01_Gate
import PsiProofs.Helper.C01_Square
import PsiProofs.Helper.C01_Stim
import PsiProofs.Helper.C01_Repeat
/-!
# C01 — stimulus generators are chunk-invariant

Property theorems only (lemmas live in `PsiProofs/Helper/C01_*.lean`).
`drawAll g s ns` is the concatenation of `g.next` along the chunk list `ns`;
`ChunkInvariant g s` says `drawAll g s ns = (g.next s ns.sum).1` for every `ns` — no bound on
the number or size of chunks.
-/
set_option linter.dupNamespace false
namespace Psi.Stim
open Psi.Chunk

/-! ## Fragment theorems: the code's integer arithmetic returns the slice of a function of
the absolute sample index -/

/-- `envelope(window, fs, duration, rise_time, offset, start_time, samples)` returns exactly the
`[offset, offset+samples)` slice of the full envelope, for every offset and length. -/
theorem envelope_fragment_eq_slice {α : Type} [Sample α] (ramp : Nat → α) (p : EnvP)
    (h : p.riseN * 2 ≤ p.dur) (off n : Nat) :
    envelope ramp p off n = .ok (slice (envAt ramp p.start p.dur p.riseN) off n) := by
  unfold envelope
  rw [if_neg (by omega), envelopeFrag_eq_slice ramp p.start p.dur p.riseN off n (by omega)]

example : (⟨2, 10, some 3⟩ : EnvP).riseN * 2 ≤ (⟨2, 10, some 3⟩ : EnvP).dur := by decide
example : envelopeFrag (Cell.a .ramp 0) 2 10 3 3 9
    = [.a .ramp 0 1, .a .ramp 0 2, .o, .o, .o, .o, .a .ramp 0 3, .a .ramp 0 4, .a .ramp 0 5] := by decide

/-- `GateFactory.next` (with fix 1): the token sample at absolute index `k` passes iff
`start ≤ k < start + duration`, else it is forced to zero — including chunks that begin or end
past the end of the gate. -/
theorem gate_fragment_eq_slice {α : Type} [Sample α] (start dur off : Nat) (tok : List α) :
    gateMask start dur off tok = applyAt (gateAt start dur) off tok :=
  gateMask_eq_applyAt start dur off tok

example : gateMask 3 4 2 (slice (Cell.a .carrier 0) 2 6)
    = [.z, .a .carrier 0 3, .a .carrier 0 4, .a .carrier 0 5, .a .carrier 0 6, .z] := by decide

/-- The unchanged `GateFactory.next` lets the carrier through in a chunk that starts at the gate end. -/
theorem gate_legacy_counterexample :
    gateMaskLegacy 0 1 1 [Cell.a .carrier 0 1] ≠ applyAt (gateAt 0 1) 1 [Cell.a .carrier 0 1] := by decide

/-- `FixedWaveform.next`: the stored array read at the absolute index, zero past its end. -/
theorem fixed_fragment_eq_slice {α : Type} [Sample α] (w : List α) (off n : Nat) :
    fixedNext w off n = slice (fixedAt w) off n :=
  fixedNext_eq_slice w off n

example : fixedNext [Cell.a .carrier 0 0, .a .carrier 0 1, .a .carrier 0 2] 2 3
    = [.a .carrier 0 2, .z, .z] := by decide

/-- `_sam_envelope` (with fix 2): one during the delay, then the modulator at the time elapsed
since the modulation onset, for every split of the delay across calls. -/
theorem sam_fragment_eq_slice {α : Type} [Sample α] (sam : Int → α) (delay off n : Nat) :
    samEnvelope sam delay off n = slice (samAt sam delay) off n :=
  samEnvelope_eq_slice sam delay off n

example : samEnvelope (samCell 0) 3 2 3 = [.o, .a .sam 0 0, .a .sam 0 1] := by decide

/-- The unchanged `_sam_envelope` uses another time origin in the chunk that contains the delay end. -/
theorem sam_legacy_counterexample :
    samEnvelopeLegacy (samCell 0) 2 0 3 ≠ slice (samAt (samCell 0) 2) 0 3 := by decide

/-- `SquareWaveFactory.next` (with fix 3): high exactly where `k % cycle < on`. -/
theorem squarewave_fragment_eq_slice {α : Type} [Sample α] (cycle on : Nat) (hc : 0 < cycle) (high : α)
    (off n : Nat) : squareWaveNext cycle on high off n = slice (sqwAt cycle on high) off n :=
  squareWaveNext_eq_slice cycle on hc high off n

example : squareWaveNext 4 2 (Cell.c .high 1) 3 7
    = [.z, .c .high 1, .c .high 1, .z, .z, .c .high 1, .c .high 1] := by decide

/-- The modulation period in progress at absolute sample `k` (`SqP.periodAt`, the index used by the
specification `squareAt`) is *the* period `i` with `round(fm_samples·i) ≤ k < round(fm_samples·(i+1))`
(Python round-half-even of the exact product): it exists and is unique for every positive period. -/
theorem square_period_in_progress (p : SqP) (hp : 0 < p.period) (k : Nat) :
    p.startOf (p.periodAt k) ≤ (k : Int) ∧ (k : Int) < p.startOf (p.periodAt k + 1) ∧
      ∀ i : Int, p.startOf i ≤ (k : Int) → (k : Int) < p.startOf (i + 1) → i = p.periodAt k :=
  ⟨(periodAt_spec p hp k).1, (periodAt_spec p hp k).2, fun i h1 h2 => periodAt_unique p hp k i h1 h2⟩

example : (⟨7 / 2, 4⟩ : SqP).periodAt 7 = 2 ∧ (⟨7 / 2, 4⟩ : SqP).startOf 2 = 7
    ∧ (⟨7 / 2, 4⟩ : SqP).startOf 1 = 4 ∧ (⟨7 / 2, 4⟩ : SqP).startOf 3 = 10 := by decide +kernel

/-- **`square_wave(fs, offset, samples, depth, fm, duty_cycle, alpha)` (with fix 4)** returns exactly
the `[offset, offset+samples)` slice of `squareAt`: sample `k` is the Tukey-table entry
`k − start` when `k` lies in the first `duty_samples` samples of the period in progress at `k`, else
`1 − depth`.  For **every** positive rational period `fm_samples` (integer, non-integer, `< 1`,
exact `.5` ties), every `duty_samples` (also longer than a period: overlapping windows, the later
period wins in the code and in the spec), every offset and sample count — no bounds.  The model is
the code's control flow: `offset // fm_samples`, `int(np.round(fm_samples * i)) - offset`, both
branches with their `np.clip`s, the `while True` loop with its break test.

Scope: exact rational arithmetic on the exact value of the double `fs/fm`.  Where IEEE products
`fm_samples * i` or `offset // fm_samples` round differently from the exact ones (periods that are
not exactly representable) the harness sends the case to the direct oracle only; float conformance
of those two expressions is in the trusted base, not in this theorem. -/
theorem square_fragment_eq_slice {α : Type} (tukey : Nat → α) (low : α) (p : SqP) (hp : 0 < p.period)
    (off n : Nat) : squareWave tukey low p off n = slice (squareAt tukey low p) off n :=
  squareWave_eq_slice tukey low p hp off n

example : (0 : Rat) < (⟨7 / 2, 4⟩ : SqP).period := by decide +kernel
/-- period 3.5, duty 4: starts 0, 4, 7, 10 (3.5 → 4 and 10.5 → 10 by half-even); the windows
[4,8) and [7,11) overlap at sample 7, which shows table entry 0 of the later period. -/
example : squareWave (Cell.a .tukey 0) (Cell.c .low 0) ⟨7 / 2, 4⟩ 5 6
    = [.a .tukey 0 1, .a .tukey 0 2, .a .tukey 0 0, .a .tukey 0 1, .a .tukey 0 2, .a .tukey 0 0] := by
  decide +kernel

/-- **Termination of the stride loop**: for a positive period the break test
`fm_samples * i_period - offset > samples` is reached within the `squareFuel` passes the model
allots — any additional fuel leaves the result unchanged, i.e. the fuel-bounded `squareLoop` *is*
the `while True` loop. -/
theorem square_wave_fuel_sufficient {α : Type} (tbl env : List α) (p : SqP) (hp : 0 < p.period)
    (off n extra : Nat) :
    squareLoop tbl p off n (squareFuel p n + extra) ((off : Rat) / p.period).floor env
      = squareLoop tbl p off n (squareFuel p n) ((off : Rat) / p.period).floor env :=
  squareLoop_extra_fuel tbl p off n extra (squareFuel p n) _ env (by unfold squareFuel; omega)
    (squareFuel_sufficient p hp off n)

/-- The guard `fm_samples > 0` is *not* written in `square_wave`; it is what makes the loop stop.
For a negative period the break test is false at every pass (`fm < 0` is rejected by
`scipy.signal.windows.tukey` only when `duty_cycle > 0`; with `duty_cycle ≤ 0` the real
`square_wave` does not return — observed, see notes/C01.md §5). -/
theorem square_wave_negative_period_never_breaks (p : SqP) (hp : p.period < 0) (off n t : Nat) (ht : 1 ≤ t) :
    ¬ (p.period * ((((off : Rat) / p.period).floor + (t : Int) : Int) : Rat) - (off : Rat) > (n : Rat)) :=
  no_break_of_neg_period p hp off n t ht

example : ((⟨-10, 0⟩ : SqP).period < 0) := by decide +kernel

/-- `repeat()`: `(n + skip) * period` samples; sample `k` is waveform sample `k % period - delay`
inside the occupied part of every non-skipped period and zero elsewhere. -/
theorem repeat_eq_spec {α : Type} [Sample α] (p : RepP) (w l : List α) (h : repeatWave p w = .ok l) :
    l.length = (p.n + p.skip) * p.period ∧ ∀ k, fixedAt l k = repeatAt p w k :=
  repeatWave_spec p w l h

example : repeatWave ⟨2, 1, 4, 1⟩ [Cell.a .carrier 0 0, .a .carrier 0 1]
    = .ok [.z, .z, .z, .z, .z, .a .carrier 0 0, .a .carrier 0 1, .z, .z, .a .carrier 0 0, .a .carrier 0 1, .z] := rfl

/-- `repeat()` refuses exactly the waveforms that do not fit between the delay and the period end. -/
theorem repeat_rejects_iff {α : Type} [Sample α] (p : RepP) (w : List α) :
    repeatWave p w = .error .valueError ↔ p.period < w.length + p.delay := by
  unfold repeatWave
  constructor
  · intro h
    split at h
    · omega
    · cases h
  · intro h
    rw [if_pos (by omega)]

/-! ## Closure: the shapes of all factories are chunk-invariant -/

/-- Tone, SAMTone, Silence: a carrier whose sample `k` depends on `k` only. -/
theorem pointwise_chunk_invariant {α : Type} (f : Nat → α) (off : Nat) :
    ChunkInvariant (pointwise f) off :=
  (pointwise_additive f).chunkInvariant off

/-- Noise factories: RNG stream, affine map, up to two stateful filters, sign — for every draw
function, every filter step function and every state. -/
theorem noise_chunk_invariant {τ υ φ α : Type} (draw : τ → α × τ) (affine sign : α → α)
    (step₁ : υ → α → α × υ) (step₂ : φ → α → α × φ) (s : φ × υ × τ) :
    ChunkInvariant (mapG sign (mealy step₂ (mealy step₁ (mapG affine (stream draw))))) s :=
  (mapG_additive sign (mealy_additive step₂ (mealy_additive step₁
    (mapG_additive affine (stream_additive draw))))).chunkInvariant s

example : drawAll (mapG (· * 2) (mealy (fun (acc : Nat) x => (acc + x, acc + x)) (stream fun (t : Nat) => (t, t + 1))))
    (0, 5) [1, 2, 1] = [10, 22, 36, 52] := by decide

/-- Transform / Modulator over *any* chunk-invariant input: a stateful filter (`lfilter` with `zi`). -/
theorem mealy_chunk_invariant {σ τ α β : Type} (step : τ → α → β × τ) (g : Gen σ α) (hg : Additive g)
    (s : τ × σ) : ChunkInvariant (mealy step g) s :=
  (mealy_additive step hg).chunkInvariant s

/-- Gate, envelope and modulator factories over *any* chunk-invariant input. -/
theorem transform_chunk_invariant {σ α β : Type} (h : Nat → α → β) (g : Gen σ α) (hg : Additive g)
    (s : Nat × σ) : ChunkInvariant (transformAt h g) s :=
  (transformAt_additive h hg).chunkInvariant s

/-! ## Headline: every finite nesting of factories -/

/-- No `SquareWaveEnvelopeFactory` in the tree. -/
def Stim.SqFree : Stim → Prop
  | .leaf _ _ => True
  | .sqwave _ _ _ _ => True
  | .fixed _ _ => True
  | .gate _ _ _ inner => inner.SqFree
  | .env _ _ _ inner => inner.SqFree
  | .sam _ _ _ inner => inner.SqFree
  | .sqenv _ _ _ _ => False
  | .filt _ _ _ inner => inner.SqFree

theorem Stim.wfs_of_wf (g : Stim) (h : g.WF) (_hs : g.SqFree) : g.WFs := h.wfs

/-- **Chunk invariance of every finite nesting of factories — unconditional.**  Tone/SAMTone/Silence/
noise carriers, SquareWaveFactory, FixedWaveform (Click, Chirp, Repeat), GateFactory,
EnvelopeFactory (every window, rise `None` included), SAMEnvelopeFactory,
**SquareWaveEnvelopeFactory** (every positive rational period, every duty length) and filter
transforms, nested to any depth, from *any* state (in particular a freshly reset one), for every
list of chunk sizes, including chunks past the end of a finite stimulus: the concatenated chunks
equal the single request.  The only hypothesis is `WF`, the guard under which the constructors
work and `next` does not raise (`cycle > 0`, `2·rise ≤ duration`, `fm_samples > 0`).

`square_wave` is covered in exact rational arithmetic (see `square_fragment_eq_slice`); float
conformance of `fm_samples * i` / `offset // fm_samples` is in the trusted base. -/
theorem stim_chunk_invariant_all (g : Stim) (hwf : g.WF) : ChunkInvariant stimGen g :=
  fun ns => stim_drawAll g hwf.wfs ns

example : (Stim.gate 3 40 0 (.sqenv 4 ⟨7 / 2, 4⟩ 0 (.env 1 ⟨2, 10, some 3⟩ 0 (.sqenv 5 ⟨2 / 5, 1⟩ 0 (.leaf 0 0))))).WF := by
  refine ⟨by decide +kernel, by simp [EnvP.riseN], by decide +kernel, trivial⟩
example : drawAll stimGen (Stim.gate 3 40 0 (.sqenv 4 ⟨7 / 2, 4⟩ 0 (.leaf 0 0))) [2, 3, 1, 9, 5]
    = ((Stim.gate 3 40 0 (.sqenv 4 ⟨7 / 2, 4⟩ 0 (.leaf 0 0))).next 20).1 := by decide +kernel

/-- Per class: SquareWaveEnvelopeFactory over any well-formed input. -/
theorem squareenv_chunk_invariant (id : Nat) (p : SqP) (hp : 0 < p.period) (off : Nat) (inner : Stim)
    (hwf : inner.WF) : ChunkInvariant stimGen (.sqenv id p off inner) :=
  stim_chunk_invariant_all _ ⟨hp, hwf⟩

/-- The earlier headline, kept under its name: the fragment without SquareWaveEnvelopeFactory.
Now a corollary of `stim_chunk_invariant_all` (the hypothesis `SqFree` is no longer needed). -/
theorem stim_chunk_invariant (g : Stim) (hwf : g.WF) (_hsq : g.SqFree) : ChunkInvariant stimGen g :=
  stim_chunk_invariant_all g hwf

example : (Stim.gate 3 4 0 (.env 1 ⟨2, 10, some 3⟩ 0 (.sam 2 5 0 (.leaf 0 0)))).WF := by
  simp [Stim.WF, EnvP.riseN]
example : (Stim.gate 3 4 0 (.env 1 ⟨2, 10, some 3⟩ 0 (.sam 2 5 0 (.leaf 0 0)))).SqFree := by
  simp [Stim.SqFree]
example : drawAll stimGen (Stim.gate 3 4 0 (.env 1 ⟨2, 10, none⟩ 0 (.leaf 0 0))) [2, 3, 1, 9]
    = ((Stim.gate 3 4 0 (.env 1 ⟨2, 10, none⟩ 0 (.leaf 0 0))).next 15).1 := by decide

/-- Kept under its old name: chunk invariance under the hypothesis `WFs` (`SquareSliceLaw` at every
SquareWaveEnvelopeFactory node).  No longer the best result: `SquareSliceLaw p` is now proved for
every positive period (`squareSliceLaw_of_pos`, from `square_fragment_eq_slice`), so `WF → WFs`
(`Stim.WF.wfs`) and `stim_chunk_invariant_all` needs no such hypothesis. -/
theorem stim_chunk_invariant_partial (g : Stim) (h : g.WFs) : ChunkInvariant stimGen g :=
  fun ns => stim_drawAll g h ns

/-- Per class, as instances. -/
theorem gate_chunk_invariant (start dur off : Nat) (inner : Stim) (hwf : inner.WF) (hsq : inner.SqFree) :
    ChunkInvariant stimGen (.gate start dur off inner) :=
  stim_chunk_invariant _ hwf hsq

theorem envelope_chunk_invariant (id : Nat) (p : EnvP) (hp : p.riseN * 2 ≤ p.dur) (off : Nat) (inner : Stim)
    (hwf : inner.WF) (hsq : inner.SqFree) : ChunkInvariant stimGen (.env id p off inner) :=
  stim_chunk_invariant _ ⟨hp, hwf⟩ hsq

theorem sam_chunk_invariant (id delay off : Nat) (inner : Stim) (hwf : inner.WF) (hsq : inner.SqFree) :
    ChunkInvariant stimGen (.sam id delay off inner) :=
  stim_chunk_invariant _ hwf hsq

theorem squarewave_chunk_invariant (id cycle on off : Nat) (hc : 0 < cycle) :
    ChunkInvariant stimGen (.sqwave id cycle on off) :=
  stim_chunk_invariant _ hc trivial

theorem fixed_chunk_invariant (w : List Cell) (off : Nat) : ChunkInvariant stimGen (.fixed w off) :=
  stim_chunk_invariant _ trivial trivial

theorem filter_chunk_invariant (id j off : Nat) (inner : Stim) (hwf : inner.WF) (hsq : inner.SqFree) :
    ChunkInvariant stimGen (.filt id j off inner) :=
  stim_chunk_invariant _ hwf hsq

/-- RepeatFactory: whatever `repeat()` lays out is served as a FixedWaveform, hence chunk-invariant. -/
theorem repeat_chunk_invariant (p : RepP) (inner g : Stim) (h : mkRepeat p inner = .ok g) :
    ChunkInvariant stimGen g := by
  unfold mkRepeat at h
  split at h
  · split at h
    · cases h
    · split at h
      · cases h; exact fixed_chunk_invariant _ _
      · cases h
  · cases h

example : ∃ g, mkRepeat ⟨2, 1, 5, 1⟩ (.fixed [Cell.a .carrier 0 0, .a .carrier 0 1] 0) = .ok g := ⟨_, rfl⟩

end Psi.Stim
