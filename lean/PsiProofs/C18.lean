import PsiModel.Epochs
import PsiProofs.Helper.C18_Epochs
import PsiProofs.Helper.C18_Runs
import PsiProofs.Helper.C18_Debounce
import PsiProofs.Helper.C18_Smooth
/-! C18 — property theorems for the boolean-epoch utilities. -/
namespace Psi.Epochs

/-- `util.epochs` (code-faithful model, with its special cases and both boundary fix-ups)
never raises and returns exactly the maximal runs of `true`, for every boolean array. -/
theorem epochs_eq_runs : ∀ x : List Bool, epochs x = .ok (maximalRuns x) := by
  intro x
  cases x with
  | nil => rfl
  | cons b xs =>
    rw [epochs_eq_core]
    have hz := runsAux_eq_zip xs 1
    have hlen : (b :: xs).length = 1 + xs.length := by simp; omega
    have key := epochsCore_ok (b :: xs).length b (final b xs)
      (risingIdx 1 b xs) (fallingIdx 1 b xs) (length_rel xs 1 b)
      (by rw [hlen]; exact risingIdx_bounds xs 1 b)
      (by rw [hlen]; exact fallingIdx_bounds xs 1 b)
      (by intro hb; subst hb; exact head_true xs 1)
      (by intro hb; subst hb; exact head_false xs 1)
      (fun hf => fun f => last_true xs 1 b f hf)
      (fun hf => fun r => last_false xs 1 b r hf)
    simp only [List.head?_cons, tsRising, tsFalling]
    rw [key, hlen]
    cases b
    · simp [maximalRuns, runsAux, hz.1]
    · simp [maximalRuns, runsAux, hz.2]

example : epochs [true, true, false, true] = .ok [(0, 2), (3, 4)] := rfl

/-! ### What `maximalRuns` is, declaratively -/

/-- every returned pair is a maximal run: `s < e ≤ len`, all samples in `[s, e)` high,
the sample before `s` low (or `s = 0`), the sample at `e` low (or `e = len`). -/
theorem maximalRuns_sound : ∀ (x : List Bool) (p : Nat × Nat),
    p ∈ maximalRuns x → IsMaximalRun x p.1 p.2 := by
  intro x p hp
  exact runsAux_sound x x 0 none rfl (Nat.zero_le _) (Or.inl rfl) p hp

/-- the output is sorted and disjoint, consecutive runs separated by at least one sample. -/
theorem maximalRuns_sorted : ∀ x : List Bool,
    (maximalRuns x).Pairwise (fun p q => p.2 < q.1) :=
  fun x => (runsAux_sorted x 0).1

/-- every high sample lies in a returned run. -/
theorem maximalRuns_complete : ∀ (x : List Bool) (i : Nat), x[i]? = some true →
    ∃ p ∈ maximalRuns x, p.1 ≤ i ∧ i < p.2 := by
  intro x i hi
  simpa [maximalRuns] using (runsAux_complete x 0).1 i hi

/-- membership in `maximalRuns x` is exactly "is a maximal run of `x`". -/
theorem maximalRuns_mem_iff : ∀ (x : List Bool) (s e : Nat),
    (s, e) ∈ maximalRuns x ↔ IsMaximalRun x s e := by
  intro x s e
  constructor
  · exact maximalRuns_sound x (s, e)
  · intro ⟨h1, h2, h3, h4, h5⟩
    obtain ⟨⟨s', e'⟩, hp, hs1, hs2⟩ := maximalRuns_complete x s (h3 s (Nat.le_refl _) h1)
    obtain ⟨g1, g2, g3, g4, g5⟩ := maximalRuns_sound x _ hp
    simp only at hs1 hs2 g1 g2 g3 g4 g5
    have es : s' = s := by
      by_cases hlt : s' < s
      · have := g3 (s - 1) (by omega) (by omega)
        rcases h4 with h4 | h4
        · omega
        · rw [this] at h4; simp at h4
      · omega
    subst es
    have ee : e' = e := by
      rcases Nat.lt_trichotomy e' e with hlt | heq | hgt
      · have := h3 e' (by omega) hlt
        rcases g5 with g5 | g5
        · omega
        · rw [this] at g5; simp at g5
      · exact heq
      · have := g3 e (by omega) hgt
        rcases h5 with h5 | h5
        · omega
        · rw [this] at h5; simp at h5
    subst ee
    exact hp

example : IsMaximalRun [false, true, true, false] 1 3 := by
  refine ⟨by decide, by decide, ?_, Or.inr rfl, Or.inr rfl⟩
  intro i h1 h2
  have : i = 1 ∨ i = 2 := by omega
  rcases this with h | h <;> subst h <;> rfl

/-! ### smooth_epochs -/

/-- `util.smooth_epochs` (sort each column independently, sweep with `ub := next.ub`) returns the
sorted disjoint cover (pair-sort, join when overlapping or touching, keep the maximum end) of every
list of intervals with `lb ≤ ub` — no hypothesis on order, overlap or nesting. -/
theorem smooth_eq_cover : ∀ I : List (Int × Int),
    (∀ p ∈ I, p.1 ≤ p.2) → smoothEpochs I = sortedDisjointCover I :=
  smooth_eq_cover_aux

-- nested and unordered intervals: the column sort pairs (1,4),(2,3),(6,7) as (1,3),(2,4),(6,7)
example : (∀ p ∈ [((6 : Int), (7 : Int)), (2, 3), (1, 4)], p.1 ≤ p.2) ∧
    smoothEpochs [(6, 7), (2, 3), (1, 4)] = [(1, 4), (6, 7)] := by
  refine ⟨by decide, by decide⟩

/-! ### debounce_epochs -/

/-- `util.debounce_epochs` = drop the runs shorter than `d`, then join survivors whose gap is `≤ d`
(for every run list that is sorted and disjoint, i.e. everything `epochs` returns). The hypothesis
`0 ≤ d` is not needed by the proof; it is kept because the property only speaks of such limits. -/
theorem debounce_spec : ∀ (e : List (Int × Int)) (d : Int),
    SortedDisjoint e → 0 ≤ d → debounceEpochs e d = debounceSpec e d :=
  fun _ d h _ => debounce_of_colSorted d h.colSorted

/-- the same under the weaker hypothesis that each column is non-decreasing, any `d`. -/
theorem debounce_spec_colSorted : ∀ (e : List (Int × Int)) (d : Int),
    ColSorted e → debounceEpochs e d = debounceSpec e d :=
  fun _ d h => debounce_of_colSorted d h

/-- what `epochs` returns always satisfies the hypothesis of `debounce_spec`. -/
theorem maximalRuns_sortedDisjoint : ∀ x : List Bool,
    SortedDisjoint ((maximalRuns x).map (fun p => ((p.1 : Int), (p.2 : Int)))) := by
  intro x
  refine ⟨?_, ?_⟩
  · intro p hp
    obtain ⟨q, hq, rfl⟩ := List.mem_map.mp hp
    have := (maximalRuns_sound x q hq).1
    simp only; omega
  · refine List.Pairwise.map _ ?_ (maximalRuns_sorted x)
    intro a b hab
    simp only; omega

example : SortedDisjoint [(0, 2), (3, 4), (9, 12)] ∧ (0 : Int) ≤ 2 ∧
    debounceEpochs [(0, 2), (3, 4), (9, 12)] 2 = [(0, 2), (9, 12)] := by
  refine ⟨⟨by decide, by decide⟩, by decide, by decide⟩

end Psi.Epochs
