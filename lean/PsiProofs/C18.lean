import PsiModel.Epochs
import PsiProofs.Helper.C18_Epochs
/-! C18 — property theorems for the boolean-epoch utilities. -/
namespace Psi.Epochs

/-- `util.epochs` (code-faithful model, with its special cases and both boundary fix-ups)
never raises and returns exactly the maximal runs of `true`, for every boolean array. -/
theorem epochs_eq_runs : ∀ x : List Bool, epochs x = .ok (maximalRuns x) := by
  intro x
  cases x with
  | nil => rfl
  | cons b xs =>
    rw [epochs_eq_core]
    have hz := runsAux_eq_zip xs 1
    have hlen : (b :: xs).length = 1 + xs.length := by simp; omega
    have key := epochsCore_ok (b :: xs).length b (final b xs)
      (risingIdx 1 b xs) (fallingIdx 1 b xs) (length_rel xs 1 b)
      (by rw [hlen]; exact risingIdx_bounds xs 1 b)
      (by rw [hlen]; exact fallingIdx_bounds xs 1 b)
      (by intro hb; subst hb; exact head_true xs 1)
      (by intro hb; subst hb; exact head_false xs 1)
      (fun hf => fun f => last_true xs 1 b f hf)
      (fun hf => fun r => last_false xs 1 b r hf)
    simp only [List.head?_cons, tsRising, tsFalling]
    rw [key, hlen]
    cases b
    · simp [maximalRuns, runsAux, hz.1]
    · simp [maximalRuns, runsAux, hz.2]

example : epochs [true, true, false, true] = .ok [(0, 2), (3, 4)] := rfl

end Psi.Epochs
