import PsiModel.Epochs
namespace Psi.Epochs
theorem placeholder : maximalRuns [] = [] := rfl
end Psi.Epochs
