import PsiProofs.Helper.C12Ext_Acc
/-!
# EXT12 — stages of psiaudio/pipeline.py that property C12 does not name

`delay`, `average`, `accumulate`, `mc_select`, `detrend`, `broadcast` (model: `PsiModel/StagesExt.lean`).
Every theorem quantifies over **every list of chunks** (any number, any sizes incl. empty ones).
These theorems are registered in `lean/registry/EXT12.txt`, not in `C12.txt`: they are not part of the verdict
of property C12.  Theorems named `…_partial` hold under the spelled-out guard that excludes a behaviour of the
unchanged library recorded in notes/EXT12.md; the excluded input is an `example` right after them.
-/
namespace Psi.StagesExt
open Psi.Stages
variable {α β ε ρ χ μ σ I O B : Type}

/-! ## delay -/

/-- `delay(n)`: whatever the chunking, `target` receives one plain block of `n` NaNs (already when the stage is
created) and then the chunks themselves, untouched and in order; the concatenated samples are `n` NaNs followed by
the whole input. -/
theorem delay_chunk_invariant (nan : α) (n : Nat) (cs : List (Arr α ρ χ μ)) :
    delayAll nan n cs = .ok (.plain (List.replicate n nan) :: cs) ∧
    (((Arr.plain (List.replicate n nan) : Arr α ρ χ μ) :: cs).map Arr.data).flatten
      = List.replicate n nan ++ (cs.map Arr.data).flatten := by
  constructor
  · have h := run_stateless (E := XErr) (delayStep (α := α) (ρ := ρ) (χ := χ) (μ := μ)) (fun c => [c]) (fun _ => rfl) cs
    simp [delayAll, h, delayCreate, List.flatMap_singleton']
  · simp [Arr.data]

example : delayAll (ρ := Unit) (χ := Unit) (μ := Unit) 0 2 [.plain [5], .plain [], .plain [6, 7]]
    = .ok [.plain [0, 0], .plain [5], .plain [], .plain [6, 7]] := (delay_chunk_invariant 0 2 _).1

/-- plain stream: what `delay` emits can be concatenated, giving `n` NaNs followed by the whole signal -/
theorem delay_plain_stream_concat (nan : α) (n : Nat) (cs : List (List α)) :
    concatArr ((Arr.plain (List.replicate n nan) : Arr α ρ χ μ) :: cs.map Arr.plain)
      = .ok (.plain (List.replicate n nan ++ cs.flatten)) := by
  have hall : ∀ l : List (List α), (l.map (Arr.plain (ρ := ρ) (χ := χ) (μ := μ))).all (fun a => !a.isPd) = true := by
    intro l; induction l <;> simp_all [Arr.isPd]
  have hdata : ∀ l : List (List α), (l.map (Arr.plain (ρ := ρ) (χ := χ) (μ := μ))).map Arr.data = l := by
    intro l; induction l <;> simp_all [Arr.data]
  simp only [concatArr, List.all_cons, List.isEmpty_cons, List.map_cons, hdata, Arr.data, List.flatten_cons]
  rw [hall cs]
  simp [Arr.isPd]

example : concatArr ((Arr.plain [0, 0] : Arr Nat Unit Unit Unit) :: [[5], [], [6, 7]].map Arr.plain)
    = .ok (.plain [0, 0, 5, 6, 7]) := delay_plain_stream_concat 0 2 [[5], [], [6, 7]]

/-- annotated stream (recorded behaviour, notes/EXT12.md): the forwarded blocks keep the time base of the input —
they are contiguous **from the input's `s0`**, not from `s0 + n` — and, the NaN block being a plain `ndarray`,
`concat` of everything emitted raises `ValueError`. -/
theorem delay_annotated_time_base_not_shifted (nan : α) (n : Nat) (ann : Ann ρ χ μ) (s : Int) (cs : List (List α))
    (hne : cs ≠ []) :
    delayAll nan n ((stream ann s cs).map Arr.pd)
      = .ok (.plain (List.replicate n nan) :: (stream ann s cs).map Arr.pd) ∧
    Emits (stream ann s cs) cs.flatten 1 s ann ∧
    concatArr (Arr.plain (List.replicate n nan) :: (stream ann s cs).map Arr.pd) = .error .valueError := by
  refine ⟨(delay_chunk_invariant nan n _).1, stream_emits ann cs s, ?_⟩
  cases cs with
  | nil => exact absurd rfl hne
  | cons c cs => simp [concatArr, stream, Arr.isPd]

example : concatArr (Arr.plain [0, 0] :: (stream (⟨(), (), ()⟩ : Ann Unit Unit Unit) 5 [[1], [2, 3]]).map Arr.pd)
    = .error .valueError :=
  (delay_annotated_time_base_not_shifted 0 2 ⟨(), (), ()⟩ 5 [[1], [2, 3]] (by simp)).2.2

/-! ## average -/

theorem run_average_none (n : Nat) (cs : List (List α)) :
    outs (run (averageStep (β := β) n) none cs) = outs (run (averageStep (β := β) n) (some []) cs) := by
  cases cs with
  | nil => simp [run, outs]
  | cons c cs => simp only [run, averageStep_none]

theorem run_averageFixed_none (mean : List α → β) (n : Nat) (cs : List (List α)) :
    outs (run (averageFixedStep mean n) none cs) = outs (run (averageFixedStep mean n) (some []) cs) := by
  cases cs with
  | nil => simp [run, outs]
  | cons c cs => simp only [run, averageFixedStep_none]

/-- `average(n)` **as it is** obeys its law (k-th emission = mean of the k-th group of `n` rows, remainder held
back) only while there is no complete group: guard `total rows < n` (then nothing is emitted, for every chunking). -/
theorem average_chunk_invariant_partial (mean : List α → β) (n : Nat) (cs : List (List α))
    (guard : cs.flatten.length < n) :
    outs (run (averageStep n) none cs) = .ok ((blocksOf n cs.flatten).map mean) := by
  rw [run_average_none, averageAsIs_run_short n cs [] (by simpa using guard), blocksOf_short n _ guard]
  rfl

example : outs (run (averageStep 3) none [[1], [], [2]]) = .ok ((blocksOf 3 [1, 2]).map List.sum) :=
  average_chunk_invariant_partial List.sum 3 [[1], [], [2]] (by decide)

/-- … and outside the guard the unchanged stage dies: as soon as `n` rows have arrived (in whatever chunking)
the send raises `IndexError`, nothing having been passed to `target`. -/
theorem average_raises_at_first_complete_group (n : Nat) (hn : 0 < n) (cs : List (List α))
    (h : n ≤ cs.flatten.length) :
    outs (run (averageStep (β := β) n) none cs) = .error .indexError := by
  rw [run_average_none]
  exact averageAsIs_run_full n cs [] (by simpa using hn) (by simpa using h)

/-- the counterexample to the unguarded law: `average(2)` sent two rows in two chunks -/
example : outs (run (averageStep (β := Nat) 2) none [[1], [3]]) = .error .indexError ∧
    (blocksOf 2 [1, 3]).map List.sum = [4] := ⟨rfl, rfl⟩

/-- the repaired `average(n)` (notes/EXT12_fix_1.diff), `n ≥ 1`: for every chunking it never raises and emits the
means of the consecutive complete groups of `n` rows of the whole input; the incomplete last group is held back. -/
theorem averageFixed_chunk_invariant (mean : List α → β) (n : Nat) (hn : 0 < n) (cs : List (List α)) :
    outs (run (averageFixedStep mean n) none cs) = .ok ((blocksOf n cs.flatten).map mean) := by
  rw [run_averageFixed_none mean n, averageFixed_run mean n hn cs [] (by simpa using hn)]
  rfl

example : outs (run (averageFixedStep List.sum 2) none [[1], [], [3, 5, 7], [9]]) = .ok [4, 12] := by
  rw [averageFixed_chunk_invariant List.sum 2 (by decide)]; rfl

/-! ## accumulate -/

/-- `accumulate(n)`, `n ≥ 1`, on any sequence of blocks (no `Ellipsis`): the k-th object passed to `target` is the
`concat` of the k-th group of `n` consecutive blocks (after `[np.newaxis]` when asked for), in arrival order; the
incomplete last group stays buffered; `status_cb` sees the buffered count after every block (`0` after an emission);
no `Ellipsis` is made up. -/
theorem accumulate_groups (n : Nat) (hn : 0 < n) (nx : B → B) (join : List B → Except XErr O) (j : List B → O)
    (cb : Bool) (bs : List B) (hj : ∀ g ∈ blocksOf n (bs.map nx), join g = .ok (j g)) :
    ∃ evs, run (accumulateStep n nx join cb) [] (bs.map Sig.data)
        = .ok (evs, (bs.map nx).drop (bs.length / n * n)) ∧
      emitted evs = (blocksOf n (bs.map nx)).map j ∧
      statuses evs = (if cb then (List.range bs.length).map (fun i => (i + 1) % n) else []) ∧
      restarts evs = 0 := by
  obtain ⟨evs, h1, h2, h3, h4⟩ := accumulate_run n hn nx join j cb bs [] (by simpa using hn) (by simpa using hj)
  refine ⟨evs, ?_, by simpa using h2, ?_, h4⟩
  · simpa using h1
  · rw [h3]; simp [statusSpec]

example : ∃ evs, run (accumulateStep 2 id (fun l => Except.ok l) true) [] ([10, 11, 12, 13, 14].map Sig.data)
      = .ok (evs, [14]) ∧ emitted evs = [[10, 11], [12, 13]] ∧ statuses evs = [1, 0, 1, 0, 1] ∧ restarts evs = 0 := by
  obtain ⟨evs, h1, h2, h3, h4⟩ := accumulate_groups 2 (by decide) id (fun l => Except.ok l) id true [10, 11, 12, 13, 14]
    (fun _ _ => rfl)
  exact ⟨evs, h1, by rw [h2]; decide, by rw [h3]; decide, h4⟩

/-- the restart signal: after any history that did not raise, `Ellipsis` is passed on exactly once, the incomplete
group is dropped and what follows is processed exactly as by a freshly created `accumulate`. -/
theorem accumulate_restart_like_fresh (n : Nat) (nx : B → B) (join : List B → Except XErr O) (cb : Bool)
    (st sx : List B) (xs ys : List (Sig B)) (ex : List (AccEv O))
    (hx : run (accumulateStep n nx join cb) st xs = .ok (ex, sx)) :
    run (accumulateStep n nx join cb) st (xs ++ Sig.restart :: ys)
      = (match run (accumulateStep n nx join cb) [] ys with
         | .ok (ey, sy) => .ok (ex ++ AccEv.restart :: ey, sy)
         | .error e => .error e) := by
  rw [run_append _ xs _ st sx ex hx]
  simp only [run, accumulateStep]
  cases run (accumulateStep n nx join cb) [] ys with
  | error e => rfl
  | ok p => rfl

example : run (accumulateStep 2 id (fun l => Except.ok l) false) [] [.data 1, .restart, .data 2, .data 3]
    = .ok ([.restart, .emit [2, 3]], []) := rfl

/-- `accumulate(n, axis=-1, newaxis=False)`, `n ≥ 1`, on an annotated 1-D stream in **any** chunking: `concat` never
raises; the emitted blocks are the joins of the consecutive complete groups of `n` chunks — concatenated: the first
`⌊k/n⌋·n` chunks of the stream —, contiguous from the stream's `s0`, annotations kept; the incomplete last group is
held back.  (How much is held back depends on the chunking: the stage groups *chunks*, not samples.) -/
theorem accumulate_time_chunk_invariant (n : Nat) (hn : 0 < n) (cb : Bool) (ann : Ann ρ χ μ) (s : Int)
    (cs : List (List α)) :
    ∃ evs st, run (accumulateStep n id joinTime cb) [] ((stream ann s cs).map Sig.data) = .ok (evs, st) ∧
      Emits (emitted evs) (cs.take (cs.length / n * n)).flatten 1 s ann ∧
      (emitted evs).map (·.data) = (blocksOf n cs).map List.flatten ∧
      st.length = cs.length % n ∧ restarts evs = 0 := by
  obtain ⟨hj, hem⟩ := groupStreams_spec ann n hn cs.length cs s (Nat.le_refl _)
  have hb := blocksOf_stream ann n hn cs.length cs s (Nat.le_refl _)
  obtain ⟨evs, h1, h2, h3, h4⟩ := accumulate_groups n hn id joinTime (jt ann) cb (stream ann s cs)
    (by rw [List.map_id, hb]; exact hj)
  rw [List.map_id, hb] at h2
  refine ⟨evs, _, h1, by rw [h2]; exact hem, ?_, ?_, h4⟩
  · rw [h2]
    clear h1 h2 h3 hj hem hb
    induction cs using blocks_induction n hn generalizing s with
    | short l hlt =>
      cases hl : l.length with
      | zero => simp [groupStreams, blocksOf_short n l hlt]
      | succ k => simp only [groupStreams]; rw [if_neg (by omega)]; simp [blocksOf_short n l hlt]
    | step l hge ih =>
      have hne : l.take n ≠ [] := by
        intro h0; have := congrArg List.length h0; rw [List.length_take, List.length_nil] at this; omega
      rw [← blocksOf_stream ann n hn l.length l s (Nat.le_refl _), blocksOf_step n hn l hge,
        blocksOf_stream ann n hn (l.length) l s (Nat.le_refl _)]
      cases hl : l.length with
      | zero => omega
      | succ k =>
        simp only [groupStreams]
        rw [if_pos (by omega), List.map_cons, List.map_cons, jt_stream ann _ s hne, List.map_cons]
        congr 1
        have := ih (s + (l.take n).flatten.length)
        rw [← blocksOf_stream ann n hn k (l.drop n) _ (by simp; omega),
          blocksOf_stream ann n hn (l.drop n).length (l.drop n) _ (Nat.le_refl _)]
        exact this
  · rw [List.map_id, List.length_drop, stream_length]
    have h1 := Nat.div_add_mod cs.length n
    have h3 : n * (cs.length / n) = cs.length / n * n := Nat.mul_comm _ _
    omega

example : ∃ evs st, run (accumulateStep 2 id joinTime true) []
      ((stream (⟨(), (), ()⟩ : Ann Unit Unit Unit) 5 [[1], [], [2, 3], [4], [6]]).map Sig.data) = .ok (evs, st) ∧
    Emits (emitted evs) [1, 2, 3, 4] 1 5 ⟨(), (), ()⟩ ∧
    (emitted evs).map (·.data) = [[1], [2, 3, 4]] ∧ st.length = 1 ∧ restarts evs = 0 :=
  accumulate_time_chunk_invariant 2 (by decide) true ⟨(), (), ()⟩ 5 [[1], [], [2, 3], [4], [6]]

/-! ## mc_select -/

/-- Python's index normalisation: position selected by the integer `i` in a sequence of length `len` -/
def pyIdx (i : Int) (len : Nat) : Option Nat :=
  if 0 ≤ i then (if i.toNat < len then some i.toNat else none)
  else if -(len : Int) ≤ i then some (i + len).toNat
  else none

theorem pyGet_eq (l : List β) (i : Int) (r : Nat) (h : pyIdx i l.length = some r) : pyGet l i = l[r]? := by
  unfold pyIdx at h
  unfold pyGet
  split at h
  · rename_i h0
    split at h
    · simp only [Option.some.injEq] at h; subst h; simp [h0]
    · cases h
  · rename_i h0
    split at h
    · rename_i h1
      simp only [Option.some.injEq] at h; subst h; simp [h0, h1]
    · cases h

/-- a stream of `nch × w` annotated chunks: `(w, rows)` -/
def stream2 (fs : ρ) (ch : List χ) (md : μ) : Int → List (Nat × List (List α)) → List (In2 α ρ χ μ)
  | _, [] => []
  | s, (w, rows) :: cs =>
    .pd { rows := rows, s0 := s, fs := fs, channel := ch, metadata := md } :: stream2 fs ch md (s + w) cs

/-- `np.concatenate(chunks, axis=-1)` of `nch`-row chunks: row by row -/
def hcat2 (nch : Nat) (cs : List (List (List α))) : List (List α) :=
  cs.foldr (fun c acc => List.zipWith (· ++ ·) c acc) (List.replicate nch [])

/-- row `r` of each chunk -/
def selRows (r : Nat) : List (Nat × List (List α)) → Option (List (List α))
  | [] => some []
  | (_, rows) :: cs =>
    match rows[r]?, selRows r cs with
    | some row, some rest => some (row :: rest)
    | _, _ => none

theorem hcat2_row (nch r : Nat) (hr : r < nch) : ∀ (cs : List (Nat × List (List α))) (sel : List (List α)),
    (∀ c ∈ cs, c.2.length = nch) → selRows r cs = some sel →
    (hcat2 nch (cs.map (·.2)))[r]? = some sel.flatten := by
  intro cs
  induction cs with
  | nil => intro sel _ h; simp [selRows] at h; subst h; simp [hcat2, hr]
  | cons c cs ih =>
    intro sel hlen h
    obtain ⟨w, rows⟩ := c
    simp only [selRows] at h
    cases hrow : rows[r]? with
    | none => simp [hrow] at h
    | some row =>
      cases hrest : selRows r cs with
      | none => simp [hrow, hrest] at h
      | some rest =>
        simp only [hrow, hrest, Option.some.injEq] at h
        subst h
        have := ih rest (fun c hc => hlen c (by simp [hc])) hrest
        simp only [hcat2, List.map_cons, List.foldr_cons] at this ⊢
        rw [List.getElem?_zipWith, hrow, this]
        simp

/-- `mc_select(channel, labels)` whose `channel` resolves to position `r` (an `int`, possibly negative, or a label
found in `labels`), on an annotated `nch × time` stream in any chunking: never raises; the emitted 1-D blocks carry
row `r` of each chunk — concatenated: **row `r` of the time-concatenated input** —, are contiguous from the stream's
`s0`, keep `fs` and `metadata`, and are labelled `channel[r]` of the data. -/
theorem mc_select_chunk_invariant (i : Int) (nch r : Nat) (hi : pyIdx i nch = some r)
    (fs : ρ) (ch : List χ) (lab : χ) (md : μ) (hch : ch.length = nch) (hlab : ch[r]? = some lab)
    (s : Int) (cs : List (Nat × List (List α)))
    (hrect : ∀ c ∈ cs, c.2.length = nch ∧ ∀ row ∈ c.2, row.length = c.1) :
    ∃ sel, selRows r cs = some sel ∧
      outs (run (mcSelectStep i) () (stream2 fs ch md s cs))
        = .ok ((stream ⟨fs, lab, md⟩ s sel).map Arr.pd) ∧
      Emits (stream ⟨fs, lab, md⟩ s sel) sel.flatten 1 s ⟨fs, lab, md⟩ ∧
      (hcat2 nch (cs.map (·.2)))[r]? = some sel.flatten := by
  have hr : r < nch := by
    unfold pyIdx at hi
    split at hi
    · split at hi
      · simp only [Option.some.injEq] at hi; omega
      · cases hi
    · split at hi
      · simp only [Option.some.injEq] at hi; omega
      · cases hi
  have key : ∀ (cs : List (Nat × List (List α))) (s : Int),
      (∀ c ∈ cs, c.2.length = nch ∧ ∀ row ∈ c.2, row.length = c.1) →
      ∃ sel, selRows r cs = some sel ∧
        outs (run (mcSelectStep i) () (stream2 fs ch md s cs)) = .ok ((stream ⟨fs, lab, md⟩ s sel).map Arr.pd) := by
    intro cs
    induction cs with
    | nil => intro s _; exact ⟨[], rfl, rfl⟩
    | cons c cs ih =>
      intro s hrect
      obtain ⟨w, rows⟩ := c
      obtain ⟨hlen, hw⟩ := hrect (w, rows) (by simp)
      simp only at hlen hw
      have hlt : r < rows.length := by omega
      obtain ⟨sel, hsel, hrun⟩ := ih (s + w) (fun c hc => hrect c (by simp [hc]))
      have hrowlen : (rows[r]).length = w := hw _ (List.getElem_mem hlt)
      refine ⟨rows[r] :: sel, by simp [selRows, hsel, hlt], ?_⟩
      have hstep : mcSelectStep i () (.pd { rows := rows, s0 := s, fs := fs, channel := ch, metadata := md })
          = .ok ([Arr.pd { data := rows[r], s0 := s, ann := ⟨fs, lab, md⟩ }], ()) := by
        simp only [mcSelectStep]
        rw [pyGet_eq rows i r (by rw [hlen]; exact hi), pyGet_eq ch i r (by rw [hch]; exact hi), hlab,
          List.getElem?_eq_getElem hlt]
      simp only [stream2, run, hstep]
      cases hrun' : run (mcSelectStep i) () (stream2 fs ch md (s + w) cs) with
      | error e => rw [hrun'] at hrun; simp [outs] at hrun
      | ok p =>
        obtain ⟨os, u⟩ := p
        rw [hrun'] at hrun
        simp only [outs, Except.ok.injEq] at hrun ⊢
        simp [stream, hrun, hrowlen]
  obtain ⟨sel, hsel, hrun⟩ := key cs s hrect
  exact ⟨sel, hsel, hrun, stream_emits _ sel s, hcat2_row nch r hr cs sel (fun c hc => (hrect c hc).1) hsel⟩

example : ∃ sel, selRows 1 [(2, [[1, 2], [3, 4]]), (0, [[], []]), (1, [[5], [6]])] = some sel ∧
    outs (run (mcSelectStep (-1)) () (stream2 () ["a", "b"] () 10 [(2, [[1, 2], [3, 4]]), (0, [[], []]), (1, [[5], [6]])]))
      = .ok ((stream ⟨(), "b", ()⟩ 10 sel).map Arr.pd) ∧
    Emits (stream ⟨(), "b", ()⟩ 10 sel) sel.flatten 1 10 ⟨(), "b", ()⟩ ∧
    (hcat2 2 ([(2, [[1, 2], [3, 4]]), (0, [[], []]), (1, [[5], [6]])].map (·.2)))[1]? = some sel.flatten :=
  mc_select_chunk_invariant (-1) 2 1 (by decide) () ["a", "b"] "b" () rfl rfl 10 _ (by decide)

/-- how `channel` is resolved when the stage is created: an `int` is taken as it is; a label is looked up in the
`labels` argument (first occurrence); a label that is absent, or no `labels`, raises `ValueError`. -/
theorem mc_select_resolution [DecidableEq χ] (c : χ) (ls : List χ) (i : Int) :
    mcSelectCreate (.idx i) (some ls) = .ok i ∧ mcSelectCreate (χ := χ) (.idx i) none = .ok i ∧
    (∀ k, ls.idxOf? c = some k → mcSelectCreate (.label c) (some ls) = .ok (k : Int)) ∧
    (ls.idxOf? c = none → mcSelectCreate (.label c) (some ls) = .error .valueError) ∧
    mcSelectCreate (.label c) none = .error .valueError := by
  refine ⟨rfl, rfl, ?_, ?_, rfl⟩
  · intro k hk; simp [mcSelectCreate, hk]
  · intro hk; simp [mcSelectCreate, hk]

example : mcSelectCreate (.label "b") (some ["a", "b", "b"]) = .ok 1 := rfl

/-! ## detrend -/

namespace EIn
def epochs : EIn ε ρ χ μ → List ε
  | .plain es => es
  | .pd _ x => x.data
/-- same array kind, `s0`, `fs`, `channel`, per-epoch `metadata`; every epoch replaced by `f epoch` -/
def mapEpochs (f : ε → ε) : EIn ε ρ χ μ → EIn ε ρ χ μ
  | .plain es => .plain (es.map f)
  | .pd nd x => .pd nd { x with data := x.data.map f }
/-- a `PipelineData` batch must be `epoch × channel × time` -/
def legal : EIn ε ρ χ μ → Prop
  | .plain _ => True
  | .pd nd _ => nd = 3
end EIn

/-- the per-epoch function of a mode -/
def detrendFn (mode : Mode) (dt : ε → ε) : ε → ε := if mode = .none then id else dt

/-- `detrend(mode)` on batches of epochs, under the guard `mode ≠ 'linear' ∨ no batch is empty` (see the
counterexample below): never raises; each batch comes out as the same kind of array with the same `s0`, `fs`,
`channel` and per-epoch `metadata`, every epoch detrended on its own — so the epochs emitted, in order, are the
per-epoch function mapped over the epochs of the whole input, whatever the batching. -/
theorem detrend_chunk_invariant_partial (mode : Mode) (dt : ε → ε) (xs : List (EIn ε ρ χ μ))
    (hlegal : ∀ x ∈ xs, x.legal) (guard : mode ≠ .linear ∨ ∀ x ∈ xs, x.epochs ≠ []) :
    outs (run (detrendStep mode dt) () xs) = .ok (xs.map (EIn.mapEpochs (detrendFn mode dt))) ∧
    ((xs.map (EIn.mapEpochs (detrendFn mode dt))).map EIn.epochs).flatten
      = ((xs.map EIn.epochs).flatten).map (detrendFn mode dt) := by
  have hstep : ∀ x ∈ xs, detrendStep mode dt () x = .ok ([x.mapEpochs (detrendFn mode dt)], ()) := by
    intro x hx
    have hk : mode ≠ .none → detrendKernel mode dt x.epochs = .ok (x.epochs.map dt) := by
      intro _
      simp only [detrendKernel]
      rw [if_neg]
      rintro ⟨hl, he⟩
      rcases guard with g | g
      · exact g hl
      · exact g x hx (by simpa using he)
    cases x with
    | plain es =>
      by_cases hm : mode = .none
      · simp [detrendStep, hm, EIn.mapEpochs, detrendFn]
      · have := hk hm
        simp only [EIn.epochs] at this
        simp [detrendStep, hm, this, EIn.mapEpochs, detrendFn]
    | pd nd x =>
      have hnd : nd = 3 := hlegal _ hx
      subst hnd
      by_cases hm : mode = .none
      · simp [detrendStep, hm, EIn.mapEpochs, detrendFn]
      · have := hk hm
        simp only [EIn.epochs] at this
        simp [detrendStep, hm, this, EIn.mapEpochs, detrendFn]
  constructor
  · clear hlegal guard
    induction xs with
    | nil => rfl
    | cons x xs ih =>
      have := ih (fun y hy => hstep y (by simp [hy]))
      simp only [run, hstep x (by simp)]
      cases hrun : run (detrendStep mode dt) () xs with
      | error e => rw [hrun] at this; simp [outs] at this
      | ok p => obtain ⟨os, u⟩ := p; rw [hrun] at this; simp only [outs, Except.ok.injEq] at this ⊢; simp [this]
  · clear hstep hlegal guard
    induction xs with
    | nil => rfl
    | cons x xs ih =>
      simp only [List.map_cons, List.flatten_cons, List.map_append, ih]
      congr 1
      cases x <;> simp [EIn.mapEpochs, EIn.epochs]

example : outs (run (detrendStep (ρ := Unit) (χ := Unit) (μ := String) .linear (· + 100)) ()
      [.plain [1, 2], .pd 3 ⟨[3], 7, ⟨(), (), ["m"]⟩⟩])
    = .ok [.plain [101, 102], .pd 3 ⟨[103], 7, ⟨(), (), ["m"]⟩⟩] :=
  (detrend_chunk_invariant_partial .linear (· + 100) _ (by simp [EIn.legal]) (Or.inr (by simp [EIn.epochs]))).1

/-- the input the guard excludes: `detrend('linear')` sent a batch without any epoch raises `ValueError`
(for `'constant'` and `None` the same batch passes) -/
example : outs (run (detrendStep (ρ := Unit) (χ := Unit) (μ := Unit) .linear (· + 100)) () [.plain [1], .plain []])
      = .error .valueError ∧
    outs (run (detrendStep (ρ := Unit) (χ := Unit) (μ := Unit) .constant (· + 100)) () [.plain [1], .plain []])
      = .ok [.plain [101], .plain []] := ⟨rfl, rfl⟩

/-- an annotated batch that is not 3-D is refused, whatever the mode -/
theorem detrend_refuses_non_epoch_pipeline_data (mode : Mode) (dt : ε → ε) (nd : Nat) (x : PD ε ρ χ (List μ))
    (h : nd ≠ 3) : detrendStep mode dt () (.pd nd x) = .error .valueError := by
  simp [detrendStep, h]

example : detrendStep (ρ := Unit) (χ := Unit) (μ := Unit) .none (fun x : Nat => x) () (.pd 2 ⟨[1], 0, ⟨(), (), []⟩⟩)
    = .error .valueError := detrend_refuses_non_epoch_pipeline_data _ _ 2 _ (by decide)

/-! ## broadcast -/

theorem filter_range_eq (k j : Nat) (h : j < k) : (List.range k).filter (· = j) = [j] := by
  induction k with
  | zero => omega
  | succ k ih =>
    rw [List.range_succ, List.filter_append]
    rcases Nat.lt_or_ge j k with hlt | hge
    · have : k ≠ j := by omega
      simp [ih hlt, this]
    · have hjk : j = k := by omega
      subst hjk
      have : (List.range j).filter (· = j) = [] := by
        simp only [List.filter_eq_nil_iff, List.mem_range]
        intro a ha; simp; omega
      simp [this]

/-- `broadcast(t₀, …, t_{k-1})`: every target receives every object sent, in the order sent — each target sees
exactly the input stream, whatever the chunking. -/
theorem broadcast_every_target_gets_the_stream (k : Nat) (cs : List I) :
    ∃ evs, outs (run (broadcastStep k) () cs) = .ok evs ∧
      ∀ j, j < k → (evs.filter (fun p => p.1 = j)).map (·.2) = cs := by
  have h := run_stateless (E := XErr) (broadcastStep (I := I) k) (fun d => (List.range k).map (fun j => (j, d)))
    (fun _ => rfl) cs
  refine ⟨_, by rw [h]; rfl, ?_⟩
  intro j hj
  induction cs with
  | nil => rfl
  | cons c cs ih =>
    simp only [List.flatMap_cons, List.filter_append, List.map_append]
    rw [ih (run_stateless _ _ (fun _ => rfl) cs)]
    simp only [List.filter_map, Function.comp_def]
    rw [filter_range_eq k j hj]
    rfl

example : ∃ evs, outs (run (broadcastStep 2) () [7, 8]) = .ok evs ∧
    ∀ j, j < 2 → (evs.filter (fun p => p.1 = j)).map (·.2) = [7, 8] :=
  broadcast_every_target_gets_the_stream 2 [7, 8]

end Psi.StagesExt
