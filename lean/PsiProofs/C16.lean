import PsiProofs.Helper.C07_Lemmas
import PsiProofs.Helper.C16_Window
/-!
# C16 — spectral and level utilities satisfy their defining identities

Part 1 (this section): the dB helpers of `psiaudio/util.py` over ℝ.
Part 2: the DFT identities (`Helper/C16_*.lean`), re-exported at the end, including the windowed tone law for
every cosine-sum window (`Helper/C16_Window.lean`).
Round-off is not bounded by any theorem here; the `Float` instance of the same definitions is compared
with the implementation on every run.
-/
namespace Psi.Db

/-- `db` is `20·log10` of the ratio. -/
theorem db_def (x r : ℝ) : db x r = 20 * Real.logb 10 (x / r) := db_real x r

/-- `db(dbi(d, r), r) = d` for a positive reference. -/
theorem db_dbi (d r : ℝ) (hr : 0 < r) : db (dbi d r) r = d := by
  rw [db_real, dbi_real, mul_div_assoc, div_self hr.ne', mul_one, log10_exp10]; ring

/-- `dbi(db(x, r), r) = x` for positive `x` and reference. -/
theorem dbi_db (x r : ℝ) (hx : 0 < x) (hr : 0 < r) : dbi (db x r) r = x := by
  rw [dbi_real, db_real]
  have : 20 * Real.logb 10 (x / r) / 20 = Real.logb 10 (x / r) := by ring
  rw [this, exp10_log10 (div_pos hx hr)]
  field_simp

/-- dB SPL → Pa → dB SPL (reference 20 µPa). -/
theorem patodb_dbtopa (d : ℝ) : patodb (dbtopa d) = d := db_dbi d pRef pRef_pos

/-- Pa → dB SPL → Pa. -/
theorem dbtopa_patodb (p : ℝ) (hp : 0 < p) : dbtopa (patodb p) = p := dbi_db p pRef hp pRef_pos

/-- the SPL reference: 20 µPa is 0 dB SPL. -/
theorem patodb_ref : patodb (pRef : ℝ) = 0 := by
  rw [patodb, db_real, div_self pRef_pos.ne']; simp

theorem pRef_value : (pRef : ℝ) = 20 / 1000000 := pRef_real

/-- +20 dB ⇔ ×10. -/
theorem dbi_plus20 (d r : ℝ) : dbi (d + 20) r = 10 * dbi d r := by
  rw [dbi_real, dbi_real]
  have : (d + 20) / 20 = d / 20 + 1 := by ring
  rw [this, Real.rpow_add ten_pos, Real.rpow_one]; ring

/-- band level = spectrum level + 10·log10(n). -/
theorem spectrumToBand_def (L n : ℝ) : spectrumToBand L n = L + 10 * Real.logb 10 n := by
  simp [spectrumToBand]

/-- …which is the level of `n` bands of equal power `p` added together. -/
theorem band_level_power (p n : ℝ) (hp : 0 < p) (hn : 0 < n) :
    spectrumToBand (10 * Real.logb 10 p) n = 10 * Real.logb 10 (n * p) := by
  rw [spectrumToBand_def, Real.logb_mul hn.ne' hp.ne']; ring

theorem bandToSpectrum_spectrumToBand (L n : ℝ) : bandToSpectrum (spectrumToBand L n) n = L := by
  simp [bandToSpectrum, spectrumToBand]

theorem spectrumToBand_bandToSpectrum (L n : ℝ) : spectrumToBand (bandToSpectrum L n) n = L := by
  simp [bandToSpectrum, spectrumToBand]

/-! non-vacuity -/
example : patodb (dbtopa (94 : ℝ)) = 94 := patodb_dbtopa 94
example : dbtopa (patodb (2 : ℝ)) = 2 := dbtopa_patodb 2 (by norm_num)
example : spectrumToBand (10 * Real.logb 10 (3 : ℝ)) 100 = 10 * Real.logb 10 (100 * 3) :=
  band_level_power 3 100 (by norm_num) (by norm_num)

end Psi.Db

/-!
## Part 2 — DFT identities (proved in `Helper/C16_RootSum`, `C16_Bridge`, `C16_Kernel`, `C16_DftThms`)

`csd n s k` is bin `k` of `util.csd(s, window=None, detrend=None)` for a signal of `n` samples
(`(2/(n√2)) · Σ_j s_j e^{-2πi jk/n}`), `toneSig n k A p` the sinusoid `√2·A·cos(2π jk/n + p)`.
-/
namespace Psi.C16
open Psi.Db

/-- **Tone law, no window**: a sinusoid of RMS amplitude `A` and phase `p` at analysis frequency `k`
(`0 < k < n/2`) reads `A·e^{ip}` at bin `k` and exactly `0` at every other bin of the one-sided spectrum. -/
theorem csd_tone (n k : ℕ) (A p : ℝ) (hk : 0 < k) (hkn : 2 * k < n) :
    ((csd n (toneSig n k A p) k).re = A * Real.cos p ∧ (csd n (toneSig n k A p) k).im = A * Real.sin p) ∧
    ∀ m, 2 * m ≤ n → m ≠ k → (csd n (toneSig n k A p) m).re = 0 ∧ (csd n (toneSig n k A p) m).im = 0 :=
  ⟨csd_tone_bin n k A p hk hkn, fun m hm hmk => csd_tone_other n k m A p hk hkn hm hmk⟩

/-- **Tone law, any cosine-sum window.**  `cosWin a (M+1) n` is the periodic cosine-sum window
`Σ_{m ≤ M} a_m cos(m·(-π + 2πj/n)) = Σ_m (-1)^m a_m cos(2π m j/n)` exactly as
`scipy.signal.get_window(name, n)` (`fftbins=True`) builds it; `util.csd` normalises it by its mean.
For *any* coefficients with `a_0 ≠ 0` the tone reads `A·e^{ip}` at its bin `k` whenever `M < k < n/2 - M`
(half the main lobe away from DC and Nyquist — the property only asks for the full main-lobe width `2(M+1)`). -/
theorem csd_cosine_window_tone (a : ℕ → ℝ) (M n k : ℕ) (A p : ℝ) (ha : a 0 ≠ 0) (hk : M < k)
    (hkn : 2 * (k + M) < n) :
    (csdW n (cosWin a (M + 1) n) (toneSig n k A p) k).re = A * Real.cos p ∧
    (csdW n (cosWin a (M + 1) n) (toneSig n k A p) k).im = A * Real.sin p :=
  csdW_cosWin_tone_bin a M n k A p ha hk hkn

/-- …and there the windowed spectrum equals the unwindowed one, bin for bin. -/
theorem csd_cosine_window_eq_csd (a : ℕ → ℝ) (M n k : ℕ) (A p : ℝ) (ha : a 0 ≠ 0) (hk : M < k)
    (hkn : 2 * (k + M) < n) :
    csdW n (cosWin a (M + 1) n) (toneSig n k A p) k = csd n (toneSig n k A p) k :=
  csdW_cosWin_tone_eq a M n k A p ha hk hkn

/-- **Tone law for SciPy's `hann`, `hamming`, `blackman`, `flattop`, `nuttall`, `blackmanharris`** (coefficient
tables of `scipy.signal.windows`, `w.terms` = 2, 2, 3, 5, 4, 4 coefficients; `w.window n` is compared with
`get_window(name, n)` on every windowed case of the harness): `A·e^{ip}` at every bin `k` with
`w.terms - 1 < k` and `2(k + w.terms - 1) < n`. -/
theorem csd_window_tone (w : CosWindow) (n k : ℕ) (A p : ℝ) (hk : w.terms - 1 < k)
    (hkn : 2 * (k + (w.terms - 1)) < n) :
    (csdW n (w.window n) (toneSig n k A p) k).re = A * Real.cos p ∧
    (csdW n (w.window n) (toneSig n k A p) k).im = A * Real.sin p := by
  rw [w.window_eq]
  exact csdW_cosWin_tone_bin w.coef (w.terms - 1) n k A p w.coef_zero_ne hk hkn

/-- The property's wording: *every bin farther than the window's main-lobe width from DC and Nyquist*.
The full (null-to-null) main lobe of a cosine-sum window with `w.terms` coefficients is `2·w.terms` bins wide
(hann / hamming 4, blackman 6, flattop 10, nuttall / blackmanharris 8 — the widths the oracle uses). -/
theorem csd_window_tone_mainlobe (w : CosWindow) (n k : ℕ) (A p : ℝ) (hk : 2 * w.terms < k)
    (hkn : 2 * (k + 2 * w.terms) < n) :
    (csdW n (w.window n) (toneSig n k A p) k).re = A * Real.cos p ∧
    (csdW n (w.window n) (toneSig n k A p) k).im = A * Real.sin p :=
  csd_window_tone w n k A p (by omega) (by omega)

/-- **Tone law, Hann window**, on the closed form `hannW n j = 1/2 - 1/2 cos(2πj/n)` (which is
`CosWindow.hann.window n`, theorem `hann_window_eq`). -/
theorem csd_hann_tone (n k : ℕ) (A p : ℝ) (hk : 2 < k) (hkn : 2 * (k + 2) < n) :
    (csdW n (hannW n) (toneSig n k A p) k).re = A * Real.cos p ∧
    (csdW n (hannW n) (toneSig n k A p) k).im = A * Real.sin p :=
  csdW_hann_tone_bin n k A p hk hkn

/-- the closed forms of SciPy's windows that the model's `CosWindow.window` amounts to -/
theorem window_closed_forms (n j : ℕ) :
    (CosWindow.hann.window n : ℕ → ℝ) j = 1 / 2 - 1 / 2 * Real.cos (2 * Real.pi * j / n) ∧
    (CosWindow.hamming.window n : ℕ → ℝ) j = 54 / 100 - 46 / 100 * Real.cos (2 * Real.pi * j / n) ∧
    (CosWindow.blackman.window n : ℕ → ℝ) j
      = 42 / 100 - 50 / 100 * Real.cos (2 * Real.pi * j / n) + 8 / 100 * Real.cos (2 * Real.pi * 2 * j / n) :=
  ⟨hann_window_eq n j, hamming_window_eq n j, blackman_window_eq n j⟩

/-- **Any averaging count, any number of trimmed trailing samples**: a signal of `avg·n + e` samples, `e < avg`
(what `N mod avg` can be), whose first `avg` segments of `n` samples each hold the whole-cycle tone and whose
`e` trailing samples are arbitrary: `psd(…, waveform_averages=avg)` reads `|A|` at bin `k`. -/
theorem psd_tone (n k avg e : ℕ) (A p : ℝ) (he : e < avg) (hk : 0 < k) (hkn : 2 * k < n) (s : ℕ → ℝ)
    (hs : ∀ r j, r < avg → j < n → s (r * n + j) = toneSig n k A p j) : psd (avg * n + e) avg s k = |A| :=
  psd_tone_trim n k avg e A p he hk hkn s hs

/-- …the same through any cosine-sum window (built by `csd` for the segment length `n`). -/
theorem psd_cosine_window_tone (a : ℕ → ℝ) (M n k avg e : ℕ) (A p : ℝ) (ha : a 0 ≠ 0) (he : e < avg)
    (hk : M < k) (hkn : 2 * (k + M) < n) (s : ℕ → ℝ)
    (hs : ∀ r j, r < avg → j < n → s (r * n + j) = toneSig n k A p j) :
    psdW (avg * n + e) avg (cosWin a (M + 1) n) s k = |A| :=
  psdW_tone_trim a M n k avg e A p ha he hk hkn s hs

/-- …in particular through SciPy's six windows above. -/
theorem psd_window_tone (w : CosWindow) (n k avg e : ℕ) (A p : ℝ) (he : e < avg) (hk : w.terms - 1 < k)
    (hkn : 2 * (k + (w.terms - 1)) < n) (s : ℕ → ℝ)
    (hs : ∀ r j, r < avg → j < n → s (r * n + j) = toneSig n k A p j) :
    psdW (avg * n + e) avg (w.window n) s k = |A| := by
  rw [w.window_eq]
  exact psdW_tone_trim w.coef (w.terms - 1) n k avg e A p w.coef_zero_ne he hk hkn s hs

/-- **Trimming, any signal**: `psd` keeps `trimLen N avg = N - N mod avg` samples and its value does not depend
on the `N mod avg` trailing ones (with or without a window). -/
theorem psd_trim (N avg : ℕ) (w s s' : ℕ → ℝ) (k : ℕ) (h : ∀ i, i < N - N % avg → s i = s' i) :
    psd N avg s k = psd N avg s' k ∧ psdW N avg w s k = psdW N avg w s' k := by
  rw [← trimLen_eq] at h
  exact ⟨psd_congr N avg s s' k h, psdW_congr N avg w s s' k h⟩

/-- **spectrum → signal inverts signal → spectrum** for even lengths `n = 2m`. -/
theorem csdToSignal_csd (m : ℕ) (hm : 0 < m) (s : ℕ → ℝ) (j : ℕ) (hj : j < 2 * m) :
    csdToSignal m (fun k => csd (2 * m) s k) j = s j :=
  csd_roundtrip m hm s j hj

/-- **Single-frequency estimator** on a whole-cycle tone (`f = k·fs/n`): `tone_conv` returns `√2·A·e^{ip}`,
`tone_power_conv` returns `|A|`, `tone_phase_conv` returns `p` (for `A > 0`, `p ∈ (-π, π]`). -/
theorem toneConv_tone (n k : ℕ) (A p fs : ℝ) (hfs : fs ≠ 0) (hk : 0 < k) (hkn : 2 * k < n) :
    ((toneConv n (toneSig n k A p) fs (k * fs / n)).re = Real.sqrt 2 * A * Real.cos p ∧
     (toneConv n (toneSig n k A p) fs (k * fs / n)).im = Real.sqrt 2 * A * Real.sin p) ∧
    tonePower n (toneSig n k A p) fs (k * fs / n) = |A| ∧
    (0 < A → -Real.pi < p ∧ p ≤ Real.pi → tonePhase n (toneSig n k A p) fs (k * fs / n) = p) :=
  ⟨toneConv_whole_cycles n k A p fs hfs hk hkn, tonePower_whole_cycles n k A p fs hfs hk hkn,
   fun hA hp => tonePhase_whole_cycles n k A p fs hfs hk hkn hA hp⟩

/-- **Single-frequency estimator through a window**: with any of SciPy's cosine-sum windows `tone_conv`,
`tone_power_conv`, `tone_phase_conv` return exactly what they return without a window — `√2·A·e^{ip}`, `|A|`, `p` —
at every analysis frequency `k·fs/n` with `w.terms - 1 < k < n/2 - (w.terms - 1)`. -/
theorem toneConv_window_tone (w : CosWindow) (n k : ℕ) (A p fs : ℝ) (hfs : fs ≠ 0) (hk : w.terms - 1 < k)
    (hkn : 2 * (k + (w.terms - 1)) < n) :
    ((toneConvW n (w.window n) (toneSig n k A p) fs (k * fs / n)).re = Real.sqrt 2 * A * Real.cos p ∧
     (toneConvW n (w.window n) (toneSig n k A p) fs (k * fs / n)).im = Real.sqrt 2 * A * Real.sin p) ∧
    tonePowerW n (w.window n) (toneSig n k A p) fs (k * fs / n) = |A| ∧
    (0 < A → -Real.pi < p ∧ p ≤ Real.pi →
      tonePhaseW n (w.window n) (toneSig n k A p) fs (k * fs / n) = p) := by
  have e := toneConvW_cosWin_tone_eq w.coef (w.terms - 1) n k A p fs hfs w.coef_zero_ne hk hkn
  rw [← w.window_eq] at e
  have h := toneConv_tone n k A p fs hfs (by omega) (by omega)
  refine ⟨by rw [e]; exact h.1, ?_, ?_⟩
  · rw [tonePowerW, e]; exact h.2.1
  · rw [tonePhaseW, e]; exact h.2.2

/-- **Parseval, one-sided**: total power in the spectrum = mean square of the signal + the DC bin and (even `n`)
the Nyquist bin counted a second time at half weight — exactly. -/
theorem parseval (n : ℕ) (hn : 0 < n) (s : ℕ → ℝ) :
    sumTo (n / 2 + 1) (fun k => (csd n s k).normSq)
      = meanTo n (fun j => s j * s j) + (1 / 2) * (csd n s 0).normSq
        + (if n % 2 = 0 then (1 / 2) * (csd n s (n / 2)).normSq else 0) :=
  parseval_onesided n hn s

/-- RMS of a whole-cycle tone is its RMS amplitude. -/
theorem rms_tone (n k : ℕ) (A p : ℝ) (hk : 0 < k) (hkn : 2 * k < n) : rms n (toneSig n k A p) = |A| :=
  tone_rms n k A p hk hkn

/-! non-vacuity -/
example := csd_tone 8 1 3 (1/2) (by norm_num) (by norm_num)
example := csd_hann_tone 16 3 3 (1/2) (by norm_num) (by norm_num)
example := csd_cosine_window_tone (fun m => if m = 0 then 1 else 2) 3 32 5 3 (1/2) (by norm_num) (by norm_num)
  (by norm_num)
example := csd_window_tone .flattop 32 5 3 (1/2) (by decide) (by decide)
example := csd_window_tone .hamming 16 2 3 (1/2) (by decide) (by decide)
example := csd_window_tone .nuttall 32 4 3 (1/2) (by decide) (by decide)
example := csd_window_tone_mainlobe .blackman 64 7 3 (1/2) (by decide) (by decide)
example := psd_tone 8 1 4 3 3 (1/2) (by norm_num) (by norm_num) (by norm_num)
  (fun i => if i < 32 then toneSig 8 1 (3 : ℝ) (1/2) (i % 8) else 7)
  (fun r j hr hj => by
    have h1 : r * 8 + j < 32 := by omega
    simp only [h1, if_true, Nat.mul_add_mod_of_lt hj])
example := psd_window_tone .hann 16 3 2 1 3 (1/2) (by norm_num) (by decide) (by decide)
  (fun i => if i < 32 then toneSig 16 3 (3 : ℝ) (1/2) (i % 16) else 7)
  (fun r j hr hj => by
    have h1 : r * 16 + j < 32 := by omega
    simp only [h1, if_true, Nat.mul_add_mod_of_lt hj])
example (w s : ℕ → ℝ) := psd_trim 35 4 w s (fun i => if i < 32 then s i else 0) 1
  (fun i hi => by simp only [show 35 - 35 % 4 = 32 by norm_num] at hi; simp [hi])
example := toneConv_tone 8 1 3 (1/2) 100000 (by norm_num) (by norm_num) (by norm_num)
example := toneConv_window_tone .flattop 32 5 3 (1/2) 100000 (by norm_num) (by decide) (by decide)
example (s : ℕ → ℝ) := parseval 9 (by norm_num) s
example (s : ℕ → ℝ) := csdToSignal_csd 4 (by norm_num) s 7 (by norm_num)

end Psi.C16

