import PsiModel.DbField
namespace Psi.Db
theorem C16_placeholder : True := trivial
end Psi.Db
