import PsiProofs.Helper.C07_Lemmas
import PsiProofs.Helper.C16_DftThms
/-!
# C16 — spectral and level utilities satisfy their defining identities

Part 1 (this section): the dB helpers of `psiaudio/util.py` over ℝ.
Part 2: the DFT identities (`Helper/C16_*.lean`), re-exported at the end.
Round-off is not bounded by any theorem here; the `Float` instance of the same definitions is compared
with the implementation on every run.
-/
namespace Psi.Db

/-- `db` is `20·log10` of the ratio. -/
theorem db_def (x r : ℝ) : db x r = 20 * Real.logb 10 (x / r) := db_real x r

/-- `db(dbi(d, r), r) = d` for a positive reference. -/
theorem db_dbi (d r : ℝ) (hr : 0 < r) : db (dbi d r) r = d := by
  rw [db_real, dbi_real, mul_div_assoc, div_self hr.ne', mul_one, log10_exp10]; ring

/-- `dbi(db(x, r), r) = x` for positive `x` and reference. -/
theorem dbi_db (x r : ℝ) (hx : 0 < x) (hr : 0 < r) : dbi (db x r) r = x := by
  rw [dbi_real, db_real]
  have : 20 * Real.logb 10 (x / r) / 20 = Real.logb 10 (x / r) := by ring
  rw [this, exp10_log10 (div_pos hx hr)]
  field_simp

/-- dB SPL → Pa → dB SPL (reference 20 µPa). -/
theorem patodb_dbtopa (d : ℝ) : patodb (dbtopa d) = d := db_dbi d pRef pRef_pos

/-- Pa → dB SPL → Pa. -/
theorem dbtopa_patodb (p : ℝ) (hp : 0 < p) : dbtopa (patodb p) = p := dbi_db p pRef hp pRef_pos

/-- the SPL reference: 20 µPa is 0 dB SPL. -/
theorem patodb_ref : patodb (pRef : ℝ) = 0 := by
  rw [patodb, db_real, div_self pRef_pos.ne']; simp

theorem pRef_value : (pRef : ℝ) = 20 / 1000000 := pRef_real

/-- +20 dB ⇔ ×10. -/
theorem dbi_plus20 (d r : ℝ) : dbi (d + 20) r = 10 * dbi d r := by
  rw [dbi_real, dbi_real]
  have : (d + 20) / 20 = d / 20 + 1 := by ring
  rw [this, Real.rpow_add ten_pos, Real.rpow_one]; ring

/-- band level = spectrum level + 10·log10(n). -/
theorem spectrumToBand_def (L n : ℝ) : spectrumToBand L n = L + 10 * Real.logb 10 n := by
  simp [spectrumToBand]

/-- …which is the level of `n` bands of equal power `p` added together. -/
theorem band_level_power (p n : ℝ) (hp : 0 < p) (hn : 0 < n) :
    spectrumToBand (10 * Real.logb 10 p) n = 10 * Real.logb 10 (n * p) := by
  rw [spectrumToBand_def, Real.logb_mul hn.ne' hp.ne']; ring

theorem bandToSpectrum_spectrumToBand (L n : ℝ) : bandToSpectrum (spectrumToBand L n) n = L := by
  simp [bandToSpectrum, spectrumToBand]

theorem spectrumToBand_bandToSpectrum (L n : ℝ) : spectrumToBand (bandToSpectrum L n) n = L := by
  simp [bandToSpectrum, spectrumToBand]

/-! non-vacuity -/
example : patodb (dbtopa (94 : ℝ)) = 94 := patodb_dbtopa 94
example : dbtopa (patodb (2 : ℝ)) = 2 := dbtopa_patodb 2 (by norm_num)
example : spectrumToBand (10 * Real.logb 10 (3 : ℝ)) 100 = 10 * Real.logb 10 (100 * 3) :=
  band_level_power 3 100 (by norm_num) (by norm_num)

end Psi.Db

/-!
## Part 2 — DFT identities (proved in `Helper/C16_RootSum`, `C16_Bridge`, `C16_Kernel`, `C16_DftThms`)

`csd n s k` is bin `k` of `util.csd(s, window=None, detrend=None)` for a signal of `n` samples
(`(2/(n√2)) · Σ_j s_j e^{-2πi jk/n}`), `toneSig n k A p` the sinusoid `√2·A·cos(2π jk/n + p)`.
-/
namespace Psi.C16
open Psi.Db

/-- **Tone law, no window**: a sinusoid of RMS amplitude `A` and phase `p` at analysis frequency `k`
(`0 < k < n/2`) reads `A·e^{ip}` at bin `k` and exactly `0` at every other bin of the one-sided spectrum. -/
theorem csd_tone (n k : ℕ) (A p : ℝ) (hk : 0 < k) (hkn : 2 * k < n) :
    ((csd n (toneSig n k A p) k).re = A * Real.cos p ∧ (csd n (toneSig n k A p) k).im = A * Real.sin p) ∧
    ∀ m, 2 * m ≤ n → m ≠ k → (csd n (toneSig n k A p) m).re = 0 ∧ (csd n (toneSig n k A p) m).im = 0 :=
  ⟨csd_tone_bin n k A p hk hkn, fun m hm hmk => csd_tone_other n k m A p hk hkn hm hmk⟩

/-- **Tone law, Hann window** (SciPy's periodic `hann`, normalised by its mean as `util.csd` does): the tone
still reads `A·e^{ip}` at every bin farther than the main-lobe half-width from DC and Nyquist. -/
theorem csd_hann_tone (n k : ℕ) (A p : ℝ) (hk : 2 < k) (hkn : 2 * (k + 2) < n) :
    (csdW n (hannW n) (toneSig n k A p) k).re = A * Real.cos p ∧
    (csdW n (hannW n) (toneSig n k A p) k).im = A * Real.sin p :=
  csdW_hann_tone_bin n k A p hk hkn

/-- **Any averaging count**: `psd` over `avg` segments that each hold the whole-cycle tone reads `|A|` at bin `k`. -/
theorem psd_tone (n k avg : ℕ) (A p : ℝ) (havg : 0 < avg) (hk : 0 < k) (hkn : 2 * k < n) (s : ℕ → ℝ)
    (hs : ∀ r j, r < avg → j < n → s (r * n + j) = toneSig n k A p j) : psd (avg * n) avg s k = |A| :=
  psd_tone_averages n k avg A p havg hk hkn s hs

/-- **spectrum → signal inverts signal → spectrum** for even lengths `n = 2m`. -/
theorem csdToSignal_csd (m : ℕ) (hm : 0 < m) (s : ℕ → ℝ) (j : ℕ) (hj : j < 2 * m) :
    csdToSignal m (fun k => csd (2 * m) s k) j = s j :=
  csd_roundtrip m hm s j hj

/-- **Single-frequency estimator** on a whole-cycle tone (`f = k·fs/n`): `tone_conv` returns `√2·A·e^{ip}`,
`tone_power_conv` returns `|A|`, `tone_phase_conv` returns `p` (for `A > 0`, `p ∈ (-π, π]`). -/
theorem toneConv_tone (n k : ℕ) (A p fs : ℝ) (hfs : fs ≠ 0) (hk : 0 < k) (hkn : 2 * k < n) :
    ((toneConv n (toneSig n k A p) fs (k * fs / n)).re = Real.sqrt 2 * A * Real.cos p ∧
     (toneConv n (toneSig n k A p) fs (k * fs / n)).im = Real.sqrt 2 * A * Real.sin p) ∧
    tonePower n (toneSig n k A p) fs (k * fs / n) = |A| ∧
    (0 < A → -Real.pi < p ∧ p ≤ Real.pi → tonePhase n (toneSig n k A p) fs (k * fs / n) = p) :=
  ⟨toneConv_whole_cycles n k A p fs hfs hk hkn, tonePower_whole_cycles n k A p fs hfs hk hkn,
   fun hA hp => tonePhase_whole_cycles n k A p fs hfs hk hkn hA hp⟩

/-- **Parseval, one-sided**: total power in the spectrum = mean square of the signal + the DC bin and (even `n`)
the Nyquist bin counted a second time at half weight — exactly. -/
theorem parseval (n : ℕ) (hn : 0 < n) (s : ℕ → ℝ) :
    sumTo (n / 2 + 1) (fun k => (csd n s k).normSq)
      = meanTo n (fun j => s j * s j) + (1 / 2) * (csd n s 0).normSq
        + (if n % 2 = 0 then (1 / 2) * (csd n s (n / 2)).normSq else 0) :=
  parseval_onesided n hn s

/-- RMS of a whole-cycle tone is its RMS amplitude. -/
theorem rms_tone (n k : ℕ) (A p : ℝ) (hk : 0 < k) (hkn : 2 * k < n) : rms n (toneSig n k A p) = |A| :=
  tone_rms n k A p hk hkn

/-! non-vacuity -/
example := csd_tone 8 1 3 (1/2) (by norm_num) (by norm_num)
example := csd_hann_tone 16 3 3 (1/2) (by norm_num) (by norm_num)
example := toneConv_tone 8 1 3 (1/2) 100000 (by norm_num) (by norm_num) (by norm_num)
example (s : ℕ → ℝ) := parseval 9 (by norm_num) s
example (s : ℕ → ℝ) := csdToSignal_csd 4 (by norm_num) s 7 (by norm_num)

end Psi.C16

