import PsiProofs.Helper.C07_Interp
/-!
# C07 — calibration conversions are mutually inverse, additive in dB, and fail loudly

Theorems about the definitions of `PsiModel/DbField.lean` at `α := ℝ` (instance in
`Helper/C07_Real.lean`).  The same definitions are executed on `Float` by `psidriver calib`
and compared with `psiaudio/calibration.py` on every run.  Floating-point round-off is not
bounded by any theorem here.
-/
namespace Psi.Db

/-! ## inverse laws -/

/-- level → volts → level: the voltage `get_sf` returns for `(f, L, A)` reads `L + A` through `get_db`
(in particular `L` with no attenuation), for every calibration class. -/
theorem getDb_getSf (c : Cal ℝ) (f L A v : ℝ) (h : getSf c f L A = .val v) :
    getDb c f v = .val (L + A) := by
  obtain ⟨S, hS, hv⟩ := Res.map_eq_val h
  subst hv
  simp only [getDb, hS, Res.map_val, db1_sfOf]

/-- volts → level → volts, for a positive voltage. -/
theorem getSf_getDb (c : Cal ℝ) (f v L : ℝ) (hv : 0 < v) (h : getDb c f v = .val L) :
    getSf c f L 0 = .val v := by
  obtain ⟨S, hS, hL⟩ := Res.map_eq_val h
  subst hL
  simp only [getSf, hS, Res.map_val, sfOf_db1 S v hv]

/-! ## level, attenuation and fixed gain are pure dB offsets -/

theorem getSf_add_level (c : Cal ℝ) (f L A d x : ℝ) (h : getSf c f L A = .val x) :
    getSf c f (L + d) A = .val ((10 : ℝ) ^ (d / 20) * x) := by
  obtain ⟨S, hS, hx⟩ := Res.map_eq_val h
  subst hx
  simp only [getSf, hS, Res.map_val, sfOf_add_level]

theorem getSf_add_attenuation (c : Cal ℝ) (f L A d x : ℝ) (h : getSf c f L A = .val x) :
    getSf c f L (A + d) = .val ((10 : ℝ) ^ (d / 20) * x) := by
  obtain ⟨S, hS, hx⟩ := Res.map_eq_val h
  subst hx
  simp only [getSf, hS, Res.map_val, sfOf_add_att]

/-- `set_fixed_gain(fixed_gain + d)` -/
def Cal.addGain : Cal ℝ → ℝ → Cal ℝ
  | .flat s g, d => .flat s (g + d)
  | .interp t g, d => .interp t (g + d)
  | .point t g, d => .point t (g + d)

theorem getSens_addGain (c : Cal ℝ) (f d S : ℝ) (h : getSens c f = .val S) :
    getSens (c.addGain d) f = .val (S - d) := by
  cases c with
  | flat s g =>
    simp only [getSens, Cal.addGain] at h ⊢
    injection h with h; subst h; congr 1; ring
  | interp t g =>
    simp only [getSens, Cal.addGain] at h ⊢
    obtain ⟨y, hy, e⟩ := Res.map_eq_val h
    subst e; rw [hy]; simp only [Res.map_val]; congr 1; ring
  | point t g =>
    simp only [getSens, Cal.addGain] at h ⊢
    obtain ⟨y, hy, e⟩ := Res.map_eq_val h
    subst e; rw [hy]; simp only [Res.map_val]; congr 1; ring

theorem getSf_add_fixedGain (c : Cal ℝ) (f L A d x : ℝ) (h : getSf c f L A = .val x) :
    getSf (c.addGain d) f L A = .val ((10 : ℝ) ^ (d / 20) * x) := by
  obtain ⟨S, hS, hx⟩ := Res.map_eq_val h
  subst hx
  simp only [getSf, getSens_addGain c f d S hS, Res.map_val, sfOf_sub_gain]

/-- +20 dB ⇔ ×10 volts (level; the same holds for attenuation and fixed gain by the lemmas above). -/
theorem getSf_plus20 (c : Cal ℝ) (f L A x : ℝ) (h : getSf c f L A = .val x) :
    getSf c f (L + 20) A = .val (10 * x) := by
  have := getSf_add_level c f L A 20 x h
  rwa [exp10_one] at this

/-- conversely, a tenfold voltage is exactly 20 dB more. -/
theorem getDb_times10 (c : Cal ℝ) (f v D : ℝ) (hv : 0 < v) (h : getDb c f v = .val D) :
    getDb c f (10 * v) = .val (D + 20) := by
  obtain ⟨S, hS, hD⟩ := Res.map_eq_val h
  subst hD
  simp only [getDb, hS, Res.map_val]
  congr 1
  rw [db1_mul ten_pos hv]
  have : db1 (10 : ℝ) = 20 := by rw [db1_real]; simp
  rw [this]; ring

/-- `get_gain = db(get_sf) = level - sensitivity + attenuation` -/
theorem getGain_eq (c : Cal ℝ) (f L A S : ℝ) (h : getSens c f = .val S) :
    getGain c f L A = .val (L - S + A) := by
  simp only [getGain, getSf, h, Res.map_val]
  congr 1
  have := db1_sfOf S L A
  linarith

/-- `get_attenuation(f, v, L) = get_db(f, v) - L`; for the voltage of level `L'` it is `L' - L`. -/
theorem getAttenuation_eq (c : Cal ℝ) (f L L' v : ℝ) (h : getSf c f L' 0 = .val v) :
    getAttenuation c f v L = .val (L' - L) := by
  have := getDb_getSf c f L' 0 v h
  simp only [getAttenuation, this, Res.map_val]
  congr 1; ring

/-! ## mean scale factor with attenuation (fixed code, `C07_fix_1`) -/

/-- `get_mean_sf(flb, fub, L, A + d) = 10^(d/20) · get_mean_sf(flb, fub, L, A)`, errors unchanged. -/
theorem getMeanSf_attenuation (c : Cal ℝ) (flb : ℝ) (freqs : List ℝ) (L A d : ℝ) :
    getMeanSf c flb freqs L (A + d) = (getMeanSf c flb freqs L A).map ((10 : ℝ) ^ (d / 20) * ·) := by
  cases freqs with
  | nil =>
    cases c with
    | flat s g => exact getSf_att_map _ _ _ _ _
    | interp t g => rfl
    | point t g => rfl
  | cons f0 ft =>
    have e : ∀ c : Cal ℝ, ((f0 :: ft).map (getSf c · L (A + d)))
        = ((f0 :: ft).map (getSf c · L A)).map (Res.map ((10 : ℝ) ^ (d / 20) * ·)) := by
      intro c
      rw [List.map_map]; apply List.map_congr_left; intro f _; exact getSf_att_map c f L A d
    cases c with
    | flat s g => exact getSf_att_map _ _ _ _ _
    | interp t g =>
      simp only [getMeanSf, e, collect_scale]
      cases collect ((f0 :: ft).map (getSf (Cal.interp t g) · L A)) with
      | val l => simp only [Res.map_val, sumList_scale, List.length_map]; congr 1; ring
      | nan => rfl
      | calErr => rfl
      | valErr => rfl
    | point t g =>
      simp only [getMeanSf, e, collect_scale]
      cases collect ((f0 :: ft).map (getSf (Cal.point t g) · L A)) with
      | val l => simp only [Res.map_val, sumList_scale, List.length_map]; congr 1; ring
      | nan => rfl
      | calErr => rfl
      | valErr => rfl

/-- +20 dB of attenuation multiplies the mean scale factor by 10 (recon defect 11: the unfixed code gave ×1). -/
theorem getMeanSf_plus20 (c : Cal ℝ) (flb : ℝ) (freqs : List ℝ) (L A x : ℝ)
    (h : getMeanSf c flb freqs L A = .val x) : getMeanSf c flb freqs L (A + 20) = .val (10 * x) := by
  rw [getMeanSf_attenuation, h, Res.map_val, exp10_one]

/-! ## constructors describe the same device -/

theorem fromSpl_eq_fromDb (L v g : ℝ) : Cal.fromSpl L v g = Cal.fromDb L v g := rfl

/-- `from_pascals(dbtopa(L), vrms) = from_spl(L, vrms)` (fixed code, `C07_fix_2`). -/
theorem fromPascals_dbtopa (L v g : ℝ) : Cal.fromPascals (dbtopa L) v g = Cal.fromSpl L v g := by
  simp only [Cal.fromPascals, Cal.fromSpl, sensFromPascals, sensFromDb, dbtopa, dbi]
  congr 1
  rw [exp10_real, nat_real, db1_mul (exp10_pos _) pRef_pos]
  have : db1 ((10 : ℝ) ^ (L / ((20 : ℕ) : ℝ))) = L := by
    have := db1_exp10 L; simpa using this
  rw [this]; ring

/-- The device "`v` volts were measured as `L` dB" reads `L` at `v` volts (minus the fixed gain). -/
theorem fromSpl_reads (L v g f : ℝ) : getDb (Cal.fromSpl L v g) f v = .val (L - g) := by
  simp only [getDb, getSens, Cal.fromSpl, sensFromDb, Res.map_val]
  congr 1; ring

theorem fromPascals_reads (m v g f : ℝ) (hm : 0 < m) :
    getDb (Cal.fromPascals m v g) f v = .val (patodb m - g) := by
  simp only [getDb, getSens, Cal.fromPascals, sensFromPascals, Res.map_val, patodb]
  congr 1
  have : db m (pRef : ℝ) = db1 m - db1 pRef := by
    have := db1_div hm pRef_pos
    simpa [db1, db] using this
  rw [this]; ring

/-- mV/Pa round trip. -/
theorem toMvPa_fromMvPa (m : ℝ) (hm : 0 < m) : toMvPa (sensFromMvPa m) = m := by
  have h1 : (0 : ℝ) < 1 / (m * (1 / 1000)) := by positivity
  have e : sensFromMvPa m + db1 (pRef : ℝ) = db1 (1 / (m * (1 / 1000))) := by
    simp [sensFromMvPa]
  have e2 : dbi (db1 (1 / (m * (1 / 1000)))) (1 : ℝ) = 1 / (m * (1 / 1000)) := by
    rw [dbi_real, db1_real]
    have : 20 * Real.logb 10 (1 / (m * (1 / 1000))) / 20 = Real.logb 10 (1 / (m * (1 / 1000))) := by ring
    rw [this, exp10_log10 h1, mul_one]
  have e3 : toMvPa (sensFromMvPa m) = 1000 / dbi (sensFromMvPa m + db1 (pRef : ℝ)) (1 : ℝ) := by
    simp [toMvPa]
  rw [e3, e, e2]
  field_simp

/-- 1 Pa at the microphone (`m` mV) reads `patodb 1` ≈ 94 dB SPL. -/
theorem fromMvPa_reads (m f : ℝ) (hm : 0 < m) :
    getDb (Cal.fromMvPa m) f (m * (1 / 1000)) = .val (patodb 1) := by
  simp only [getDb, getSens, Cal.fromMvPa, sensFromMvPa, Res.map_val, patodb, nat_real]
  congr 1
  have hp : (0 : ℝ) < m * (1 / 1000) := by positivity
  have h1 : db1 (((1 : ℕ) : ℝ) / (m * (((1 : ℕ) : ℝ) / ((1000 : ℕ) : ℝ)))) = db1 (1 : ℝ) - db1 (m * (1 / 1000)) := by
    have := db1_div (x := (1 : ℝ)) (y := m * (1 / 1000)) one_pos hp
    simpa using this
  have h2 : db (1 : ℝ) (pRef : ℝ) = db1 (1 : ℝ) - db1 pRef := by
    have := db1_div (x := (1 : ℝ)) one_pos pRef_pos
    simp [db1, db]
  rw [h1, h2]; simp; ring

theorem unity_identity (f L : ℝ) : getSf Cal.unity f L 0 = .val ((10 : ℝ) ^ (L / 20)) := by
  simp [getSf, getSens, Cal.unity, sfOf_real]

/-! ## interpolated calibrations -/

/-- An interpolated calibration reproduces the table at its points. -/
theorem interp_at_knot (t : List (ℝ × ℝ)) (hs : SortedTbl t) (hlen : 2 ≤ t.length) (xi yi : ℝ)
    (hmem : (xi, yi) ∈ t) : interp t xi = .val yi := by
  rw [interp_inside t hs (xi, yi) (xi, yi) hmem hmem xi (le_refl _) (le_refl _)]
  obtain ⟨pre, post, rfl⟩ := List.append_of_mem hmem
  rcases List.eq_nil_or_concat pre with hnil | ⟨pre', p, hp⟩
  all_goals try rw [List.concat_eq_append] at hp
  · subst hnil
    cases post with
    | nil => simp at hlen
    | cons b post' =>
      obtain ⟨b1, b2⟩ := b
      have hlt : xi < b1 := (List.pairwise_cons.mp hs).1 (b1, b2) (by simp)
      cases post' with
      | nil => rw [List.nil_append, interpSeg_two]; simp [seg_at_lo hlt]
      | cons c r =>
        rw [List.nil_append, interpSeg_three]
        simp [not_lt.mpr hlt.le, seg_at_lo hlt]
  · subst hp
    obtain ⟨p1, p2⟩ := p
    have e : pre' ++ [(p1, p2)] ++ (xi, yi) :: post = pre' ++ (p1, p2) :: (xi, yi) :: post := by simp
    rw [e] at hs ⊢
    have hlt : p1 < xi := by
      have h1 : SortedTbl ((p1, p2) :: (xi, yi) :: post) := (List.pairwise_append.mp hs).2.1
      exact (List.pairwise_cons.mp h1).1 (xi, yi) (by simp)
    rw [interpSeg_pick pre' post p1 p2 xi yi xi hs hlt (le_refl _), seg_at_hi hlt]

/-- Between two adjacent table points the sensitivity is the straight line (in dB) through them. -/
theorem interp_linear_between (pre post : List (ℝ × ℝ)) (x0 y0 x1 y1 x : ℝ)
    (hs : SortedTbl (pre ++ (x0, y0) :: (x1, y1) :: post)) (hlo : x0 ≤ x) (hhi : x ≤ x1) :
    interp (pre ++ (x0, y0) :: (x1, y1) :: post) x = .val (y0 + (y1 - y0) * (x - x0) / (x1 - x0)) := by
  have h01 : x0 < x1 := by
    have h1 : SortedTbl ((x0, y0) :: (x1, y1) :: post) := (List.pairwise_append.mp hs).2.1
    exact (List.pairwise_cons.mp h1).1 (x1, y1) (by simp)
  rcases eq_or_lt_of_le hlo with heq | hlt
  · subst heq
    have := interp_at_knot _ hs (by simp; omega) x0 y0 (by simp)
    rw [this]; simp
  · rw [interp_inside _ hs (x0, y0) (x1, y1) (by simp) (by simp) x hlo hhi,
      interpSeg_pick pre post x0 y0 x1 y1 x hs hlt hhi, seg_eq_linear h01]

/-- Below the first or above the last table frequency the answer is NaN, never a level. -/
theorem interp_outside (h : ℝ × ℝ) (t : List (ℝ × ℝ)) (xn x : ℝ) (hl : lastX (h :: t) = some xn)
    (hx : x < h.1 ∨ xn < x) : interp (h :: t) x = .nan := by
  obtain ⟨h1, h2⟩ := h
  simp only [interp, hl]
  rcases hx with hx | hx <;> simp [hx]

/-- `get_sens` of an interpolated calibration at a table point: the tabulated value minus the fixed gain. -/
theorem getSens_interp_at_knot (t : List (ℝ × ℝ)) (g : ℝ) (hs : SortedTbl t) (hlen : 2 ≤ t.length) (xi yi : ℝ)
    (hmem : (xi, yi) ∈ t) : getSens (.interp t g) xi = .val (yi - g) := by
  simp [getSens, interp_at_knot t hs hlen xi yi hmem]

/-! ## point calibrations answer only at calibrated frequencies -/

theorem point_absent (t : List (ℝ × ℝ)) (g f : ℝ) (h : ∀ r ∈ t, r.1 ≠ f) :
    getSens (.point t g) f = .calErr := by
  simp [getSens, lookup_absent t f h]

theorem point_present (t : List (ℝ × ℝ)) (g f y : ℝ) (hd : (t.map (·.1)).Nodup) (hm : (f, y) ∈ t) :
    getSens (.point t g) f = .val (y - g) := by
  simp [getSens, lookup_present t f y hd hm]

/-! ## never a silently wrong level -/

/-- If the sensitivity is NaN (outside the interpolation range) every conversion is NaN. -/
theorem nan_propagates (c : Cal ℝ) (f L A v : ℝ) (h : getSens c f = .nan) :
    getSf c f L A = .nan ∧ getDb c f v = .nan ∧ getGain c f L A = .nan ∧ getAttenuation c f v L = .nan := by
  simp [getSf, getDb, getGain, getAttenuation, h]

/-- If `get_sens` raises `CalibrationError` every conversion raises it. -/
theorem calErr_propagates (c : Cal ℝ) (f L A v : ℝ) (h : getSens c f = .calErr) :
    getSf c f L A = .calErr ∧ getDb c f v = .calErr ∧ getGain c f L A = .calErr ∧
      getAttenuation c f v L = .calErr := by
  simp [getSf, getDb, getGain, getAttenuation, h]

/-- A number only ever comes out where the sensitivity is defined. -/
theorem val_needs_sens (c : Cal ℝ) (f L A x : ℝ) (h : getSf c f L A = .val x) : ∃ S, getSens c f = .val S := by
  obtain ⟨S, hS, _⟩ := Res.map_eq_val h; exact ⟨S, hS⟩

/-- `get_mean_sf` of a frequency-dependent calibration returns a number only if *every* frequency of the
requested range is calibrated (otherwise it raises). -/
theorem getMeanSf_val_all_calibrated (c : Cal ℝ) (flb : ℝ) (freqs : List ℝ) (L A x : ℝ)
    (hc : ∀ s g, c ≠ .flat s g) (h : getMeanSf c flb freqs L A = .val x) :
    ∀ f ∈ freqs, ∃ S, getSens c f = .val S := by
  intro f hf
  cases freqs with
  | nil => simp at hf
  | cons f0 ft =>
    cases c with
    | flat s g => exact absurd rfl (hc s g)
    | interp t g =>
      simp only [getMeanSf] at h
      split at h
      · rename_i l hl
        obtain ⟨v, hv⟩ := collect_val_all hl (getSf (.interp t g) f L A)
          (List.mem_map_of_mem (f := (getSf (.interp t g) · L A)) hf)
        exact val_needs_sens _ _ _ _ _ hv
      all_goals cases h
    | point t g =>
      simp only [getMeanSf] at h
      split at h
      · rename_i l hl
        obtain ⟨v, hv⟩ := collect_val_all hl (getSf (.point t g) f L A)
          (List.mem_map_of_mem (f := (getSf (.point t g) · L A)) hf)
        exact val_needs_sens _ _ _ _ _ hv
      all_goals cases h

/-! ## non-vacuity -/

/-- a concrete calibrated device: 94 dB SPL at 1 Vrms; 74 dB asks for 0.1 V and reads back 74 dB. -/
example : getSf (Cal.fromSpl (94 : ℝ) 1 0) 1000 74 0 = .val ((10 : ℝ) ^ ((74 - (94 - db1 (1 : ℝ)) + 0) / 20)) := by
  simp [getSf, getSens, Cal.fromSpl, sensFromDb, sfOf_real]

example : getDb (Cal.fromSpl (94 : ℝ) 1 0) 1000 ((10 : ℝ) ^ ((74 - (94 - db1 (1 : ℝ)) + 0) / 20)) = .val (74 + 0) :=
  getDb_getSf _ _ _ _ _ (by simp [getSf, getSens, Cal.fromSpl, sensFromDb, sfOf_real])

def demoTbl : List (ℝ × ℝ) := [(100, 90), (1000, 100), (10000, 80)]

theorem demoTbl_sorted : SortedTbl demoTbl := by
  simp [SortedTbl, demoTbl]; norm_num

example : interp demoTbl 550 = .val (90 + (100 - 90) * (550 - 100) / (1000 - 100)) :=
  interp_linear_between [] [(10000, 80)] 100 90 1000 100 550 demoTbl_sorted (by norm_num) (by norm_num)

example : interp demoTbl 1000 = .val 100 :=
  interp_at_knot demoTbl demoTbl_sorted (by simp [demoTbl]) 1000 100 (by simp [demoTbl])

example : getSens (.point [((1000 : ℝ), (90 : ℝ)), (2000, 100)] 0) 1500 = .calErr :=
  point_absent _ _ _ (by simp)

example : getSens (.interp demoTbl 0) 50 = .nan := by
  have h : interp demoTbl 50 = .nan :=
    interp_outside (100, 90) [(1000, 100), (10000, 80)] 10000 50 rfl (Or.inl (by norm_num))
  simp only [getSens, h, Res.map_nan]

example : getMeanSf (Cal.fromSpl (94 : ℝ) 1 0) 200 [200, 201] 70 (0 + 20)
    = (getMeanSf (Cal.fromSpl (94 : ℝ) 1 0) 200 [200, 201] 70 0).map ((10 : ℝ) ^ ((20 : ℝ) / 20) * ·) :=
  getMeanSf_attenuation _ _ _ _ _ _

end Psi.Db
