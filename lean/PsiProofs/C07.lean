import PsiModel.DbField
namespace Psi.Db
theorem C07_placeholder : True := trivial
end Psi.Db
