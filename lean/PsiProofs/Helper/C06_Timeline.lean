import PsiProofs.Helper.C06_Compose
/-!
Helper for C06 (composition): what the played timeline holds.

`Emb K0 gen added V`: on the committed view `V` (played timeline ++ what the queue is already
committed to play) every logged (= non-cancelled) trial has its waveform in full at its notified
position, and everything after that waveform is silence or a located sample of a trial that
starts later.  The view only changes by (a) appending silence, (b) appending a new trial's
waveform and delay at its notified position, (c) truncation at a pause position behind every
trial that stays logged.
-/
namespace Psi.E2E
open Psi.Queue Psi.Extract

/-- position `p` of `V` is silence, or sample `j'` of a notified trial that starts at or after `lo` -/
def Loc (K0 : Int) (added : List Info) (lo : Int) (V : List Cell) (p : Nat) : Prop :=
  V[p]? = some Cell.Z ∨
    ∃ i' ∈ added, ∃ j' : Nat, j' < i'.len ∧ lo ≤ K0 + i'.k ∧ K0 + i'.k + (j' : Int) = (p : Int) ∧
      V[p]? = some (Cell.W i'.key j')

structure Emb (K0 : Int) (gen added : List Info) (V : List Cell) : Prop where
  gensub : ∀ i ∈ gen, i ∈ added
  pos : ∀ i ∈ gen, 0 ≤ K0 + i.k ∧ K0 + i.k + (i.len : Int) ≤ (V.length : Int)
  kept : ∀ i ∈ gen, ∀ j : Nat, j < i.len → ∀ p : Nat, (p : Int) = K0 + i.k + (j : Int) →
    V[p]? = some (Cell.W i.key j)
  after : ∀ i ∈ gen, ∀ p : Nat, K0 + i.k + (i.len : Int) ≤ (p : Int) → p < V.length →
    Loc K0 added (K0 + i.k + (i.len : Int)) V p

theorem Loc_mono {K0 : Int} {added added' : List Info} {lo : Int} {V V' : List Cell} {p : Nat}
    (h : Loc K0 added lo V p) (hs : ∀ i ∈ added, i ∈ added') (hv : V'[p]? = V[p]?) :
    Loc K0 added' lo V' p := by
  rcases h with h | ⟨i', hi', j', h1, h2, h3, h4⟩
  · left; rw [hv]; exact h
  · right; exact ⟨i', hs i' hi', j', h1, h2, h3, by rw [hv]; exact h4⟩

theorem Emb_nil (K0 : Int) (added : List Info) (V : List Cell) : Emb K0 [] added V :=
  ⟨by simp, by simp, by simp, by simp⟩

/-- (a) more silence -/
theorem Emb_zeros {K0 : Int} {gen added : List Info} {V : List Cell} (h : Emb K0 gen added V) (z : Nat) :
    Emb K0 gen added (V ++ zeros z) := by
  refine ⟨h.gensub, ?_, ?_, ?_⟩
  · intro i hi
    have := h.pos i hi
    simp only [List.length_append]
    push_cast; omega
  · intro i hi j hj p hp
    have := h.pos i hi
    rw [List.getElem?_append_left (by omega)]
    exact h.kept i hi j hj p hp
  · intro i hi p hp hlt
    by_cases hpv : p < V.length
    · exact Loc_mono (h.after i hi p hp hpv) (fun _ h => h) (List.getElem?_append_left hpv)
    · left
      rw [List.getElem?_append_right (by omega)]
      apply zeros_getElem?
      simp only [List.length_append, zeros, List.length_replicate] at hlt
      omega

/-- (b) a new trial starts at the end of the view -/
theorem Emb_start {K0 : Int} {gen added : List Info} {V : List Cell} (h : Emb K0 gen added V)
    (info : Info) (hk : K0 + info.k = (V.length : Int)) :
    Emb K0 (gen ++ [info]) (added ++ [info]) (V ++ (wave info.key 0 info.len ++ zeros info.delay.toNat)) := by
  have hwl : (wave info.key 0 info.len).length = info.len := by simp [wave]
  have hzl : (zeros info.delay.toNat).length = info.delay.toNat := by simp [zeros]
  refine ⟨?_, ?_, ?_, ?_⟩
  · intro i hi
    rcases List.mem_append.1 hi with hi | hi
    · exact List.mem_append_left _ (h.gensub i hi)
    · exact List.mem_append_right _ hi
  · intro i hi
    simp only [List.length_append, hwl, hzl]
    rcases List.mem_append.1 hi with hi | hi
    · have := h.pos i hi; push_cast; omega
    · simp only [List.mem_singleton] at hi; subst hi; push_cast; omega
  · intro i hi j hj p hp
    rcases List.mem_append.1 hi with hi | hi
    · have := h.pos i hi
      rw [List.getElem?_append_left (by omega)]
      exact h.kept i hi j hj p hp
    · simp only [List.mem_singleton] at hi; subst hi
      rw [List.getElem?_append_right (by omega), List.getElem?_append_left (by rw [hwl]; omega)]
      have hpj : p - V.length = j := by omega
      rw [hpj]
      simpa using wave_getElem? i.key 0 i.len j hj
  · intro i hi p hp hlt
    simp only [List.length_append, hwl, hzl] at hlt
    by_cases hpv : p < V.length
    · rcases List.mem_append.1 hi with hi | hi
      · exact Loc_mono (h.after i hi p hp hpv) (fun _ h => List.mem_append_left _ h)
          (List.getElem?_append_left hpv)
      · simp only [List.mem_singleton] at hi; subst hi; omega
    · rw [Loc, List.getElem?_append_right (by omega)]
      by_cases hx : p - V.length < info.len
      · -- a sample of the new trial: it starts at the end of the old view
        rcases List.mem_append.1 hi with hi | hi
        · right
          refine ⟨info, List.mem_append_right _ (by simp), p - V.length, hx, ?_, by omega, ?_⟩
          · have := h.pos i hi; omega
          · rw [List.getElem?_append_left (by rw [hwl]; exact hx)]
            simpa using wave_getElem? info.key 0 info.len (p - V.length) hx
        · simp only [List.mem_singleton] at hi; subst hi; omega
      · left
        rw [List.getElem?_append_right (by rw [hwl]; omega)]
        apply zeros_getElem?
        rw [hwl]; omega

/-- (c) truncation behind every trial that stays logged -/
theorem Emb_trunc {K0 : Int} {gen gen' added : List Info} {V : List Cell} (h : Emb K0 gen added V) (M : Nat)
    (hsub : ∀ i ∈ gen', i ∈ gen ∧ K0 + i.k + (i.len : Int) ≤ (M : Int)) (hM : M ≤ V.length) :
    Emb K0 gen' added (V.take M) := by
  refine ⟨fun i hi => h.gensub i (hsub i hi).1, ?_, ?_, ?_⟩
  · intro i hi
    have := h.pos i (hsub i hi).1
    have := (hsub i hi).2
    simp only [List.length_take]
    omega
  · intro i hi j hj p hp
    have := (hsub i hi).2
    rw [List.getElem?_take_of_lt (by omega)]
    exact h.kept i (hsub i hi).1 j hj p hp
  · intro i hi p hp hlt
    simp only [List.length_take] at hlt
    have hpm : p < M := by omega
    exact Loc_mono (h.after i (hsub i hi).1 p hp (by omega)) (fun _ h => h)
      (List.getElem?_take_of_lt hpm)

/-! ### what one sample does to the logs and to the committed view -/

theorem rest_of_srcDone {s : QState} (h : srcDone s) : rest s = zeros s.delaySamples.toNat := by
  rw [← rest_dropSrc s h]; simp [rest, dropSrc]

theorem zeros_comm (a b : Nat) : zeros a ++ zeros b = zeros b ++ zeros a := by
  simp [zeros, List.replicate_append_replicate, Nat.add_comm]

theorem idle_iff (s : QState) : idle s = true ↔ srcDone s := by
  unfold idle srcDone
  cases h : s.source with
  | none => simp
  | some src => simp

/-- one tick either leaves the logs alone and appends `z ≤ 1` samples of silence to the committed
view, or notifies one trial and appends its waveform and delay at its notified position -/
inductive TickView (K0 : Int) (q q' : QState) (tl : List Cell) (c : Cell) : Prop
  | quiet (z : Nat) (hg : q'.generated = q.generated) (ha : q'.added = q.added)
      (hv : tl ++ [c] ++ rest q' = (tl ++ rest q) ++ zeros z)
  | start (info : Info) (hg : q'.generated = q.generated ++ [info]) (ha : q'.added = q.added ++ [info])
      (hk : K0 + info.k = ((tl ++ rest q).length : Int)) (hl : 0 < info.len) (hu : info.uid = q.added.length)
      (hv : tl ++ [c] ++ rest q' = (tl ++ rest q) ++ (wave info.key 0 info.len ++ zeros info.delay.toNat))

theorem tick_view {K0 : Int} {q q' : QState} {tl : List Cell} {c : Cell}
    (len : (tl.length : Int) = K0 + q.samples) (idl : q.paused = true → srcDone q)
    (h : tick q = .ok (c, q')) :
    TickView K0 q q' tl c ∧ q'.removed = q.removed ∧ (q'.paused = true → srcDone q') := by
  cases tick_cases h with
  | paused hp hc hs =>
    subst hs hc
    have hd := idl hp
    have hr : rest (bump q) = rest q := by simp [rest, bump]
    refine ⟨.quiet 1 (by simp [bump]) (by simp [bump]) ?_, by simp [bump],
      fun _ => by simpa [srcDone, bump] using hd⟩
    rw [hr, rest_of_srcDone hd]
    have := zeros_comm 1 q.delaySamples.toNat
    simp only [zeros, List.replicate_one] at this ⊢
    simp [this]
  | play src hp hsrc hlt he =>
    have hsame := emitSrc_same q src
    have hf := emitSrc_fields q src
    rw [← he] at hsame hf
    simp only at hsame hf
    have hr := rest_emit q src hsrc hlt
    rw [← he] at hr
    simp only at hr
    refine ⟨.quiet 0 hsame.2.1 hsame.2.2.2 ?_, hsame.2.2.1,
      fun hp' => absurd hp' (by rw [hf.2.1, hp]; simp)⟩
    rw [hr, hf.1]; simp [zeros]
  | gap hp hdone hd hc hs =>
    subst hs hc
    have hr : rest q = Cell.Z :: zeros (q.delaySamples - 1).toNat := by
      rw [rest_of_srcDone hdone]
      have : q.delaySamples.toNat = (q.delaySamples - 1).toNat + 1 := by omega
      rw [this, zeros_succ]
    refine ⟨.quiet 0 (by simp [bump, dropSrc]) (by simp [bump, dropSrc]) ?_, by simp [bump, dropSrc],
      fun hp' => by simp [bump, dropSrc, hp] at hp'⟩
    rw [hr]; simp [rest, bump, dropSrc, zeros]
  | dry hp hdone hd hk hc hs =>
    subst hs hc
    have hz : q.delaySamples.toNat = 0 := by omega
    have hr : rest q = [] := by rw [rest_of_srcDone hdone, hz]; rfl
    refine ⟨.quiet 1 (by simp [bump, dropSrc]) (by simp [bump, dropSrc]) ?_, by simp [bump, dropSrc],
      fun hp' => by simp [bump, dropSrc, hp] at hp'⟩
    rw [hr]; simp [rest, bump, dropSrc, hz, zeros]
  | start s1 src hp hdone hd hn hsrc hlt he =>
    have hz : q.delaySamples.toNat = 0 := by omega
    have hr : rest q = [] := by rw [rest_of_srcDone hdone, hz]; rfl
    obtain ⟨info, g, ha, hg, hk, hu, hs1, hdl, hd0, hsm, hpa, _, hrm, _⟩ := nextTrial_obs hn
    simp only [dropSrc] at ha hg hk hu hsm hpa hrm
    rw [hs1] at hsrc
    simp only [Option.some.injEq] at hsrc
    subst hsrc
    have hsame := emitSrc_same s1 { key := info.key, off := 0, len := info.len, gen := g }
    have hf := emitSrc_fields s1 { key := info.key, off := 0, len := info.len, gen := g }
    rw [← he] at hsame hf
    simp only at hsame hf
    have hr1 := rest_emit s1 _ hs1 hlt
    rw [← he] at hr1
    simp only at hr1
    have hrs1 : rest s1 = wave info.key 0 info.len ++ zeros info.delay.toNat := by
      simp [rest, hs1, hdl]
    refine ⟨.start info (by rw [hsame.2.1, hg]) (by rw [hsame.2.2.2, ha]) ?_ hlt hu ?_,
      by rw [hsame.2.2.1, hrm], fun hp' => absurd hp' (by rw [hf.2.1, hpa, hp]; simp)⟩
    · rw [hr, List.append_nil, hk, len]
    · rw [hr, List.append_nil, ← hrs1, hr1, hf.1]; simp

/-! ### the queue side of the joint invariant -/

structure QInv (K0 : Int) (q : QState) (tl : List Cell) : Prop where
  wf : WF q
  once : Once q
  len : (tl.length : Int) = K0 + q.samples
  idle : q.paused = true → srcDone q
  uid : q.added.map (·.uid) = List.range q.added.length
  lenpos : ∀ i ∈ q.generated, 0 < i.len
  sorted : q.generated.Pairwise (fun a b => a.k < b.k)
  emb : Emb K0 q.generated q.added (tl ++ rest q)

/-- one sample of the per-sample timeline keeps the invariant; the logs only grow -/
theorem QInv_tick {K0 : Int} {q q' : QState} {tl : List Cell} {c : Cell} (inv : QInv K0 q tl)
    (h : tick q = .ok (c, q')) :
    QInv K0 q' (tl ++ [c]) ∧ q.added <+: q'.added ∧ q'.removed = q.removed := by
  obtain ⟨wf, once, len, idl, uid, lenpos, sorted, emb⟩ := inv
  have wf' := tick_WF wf h
  have once' := Once_tick once h
  have len' : ((tl ++ [c]).length : Int) = K0 + q'.samples := by
    rw [tick_samples h]; simp only [List.length_append, List.length_singleton]; push_cast; omega
  obtain ⟨tv, hrm, idl'⟩ := tick_view len idl h
  cases tv with
  | quiet z hg ha hv =>
    refine ⟨⟨wf', once', len', idl', by rw [ha]; exact uid, by rw [hg]; exact lenpos,
      by rw [hg]; exact sorted, ?_⟩, by rw [ha]; exact List.prefix_refl _, hrm⟩
    rw [hv, hg, ha]; exact Emb_zeros emb z
  | start info hg ha hk hl hu hv =>
    refine ⟨⟨wf', once', len', idl', ?_, ?_, ?_, ?_⟩, by rw [ha]; exact List.prefix_append _ _, hrm⟩
    · rw [ha]
      simp only [List.map_append, List.map_cons, List.map_nil, List.length_append, List.length_cons,
        List.length_nil, List.range_succ, uid, hu]
    · intro i hi
      rw [hg] at hi
      rcases List.mem_append.1 hi with hi | hi
      · exact lenpos i hi
      · simp only [List.mem_singleton] at hi; subst hi; exact hl
    · rw [hg, List.pairwise_append]
      refine ⟨sorted, by simp, ?_⟩
      intro a ha' b hb
      simp only [List.mem_singleton] at hb; subst hb
      have := emb.pos a ha'
      have := lenpos a ha'
      omega
    · rw [hv, hg, ha]; exact Emb_start emb info hk

theorem QInv_runTicks {K0 : Int} (n : Nat) {q q' : QState} {tl cs : List Cell} (inv : QInv K0 q tl)
    (h : runTicks n q = .ok (cs, q')) :
    QInv K0 q' (tl ++ cs) ∧ q.added <+: q'.added ∧ q'.removed = q.removed := by
  induction n generalizing q tl cs with
  | zero =>
    simp [runTicks] at h; obtain ⟨rfl, rfl⟩ := h
    exact ⟨by simpa using inv, List.prefix_refl _, rfl⟩
  | succ n ih =>
    rw [runTicks] at h
    cases ht : tick q with
    | error e => simp [ht] at h
    | ok r =>
      obtain ⟨c, s1⟩ := r
      simp only [ht] at h
      cases hr : runTicks n s1 with
      | error e => simp [hr] at h
      | ok r2 =>
        obtain ⟨cs2, s2⟩ := r2
        simp only [hr, Except.ok.injEq, Prod.mk.injEq] at h
        obtain ⟨rfl, rfl⟩ := h
        obtain ⟨i1, p1, r1⟩ := QInv_tick inv ht
        obtain ⟨i2, p2, r2⟩ := ih i1 hr
        exact ⟨by simpa using i2, p1.trans p2, by rw [r2, r1]⟩

/-- `pop n` -/
theorem QInv_pop {K0 : Int} {n : Nat} {q q' : QState} {tl out : List Cell} (inv : QInv K0 q tl)
    (h : popBuffer n q = .ok (out, q')) :
    QInv K0 q' (tl ++ out) ∧ q.added <+: q'.added ∧ q'.removed = q.removed := by
  have hn : 0 < n := by
    rcases Nat.eq_zero_or_pos n with h0 | h0
    · subst h0; simp [popBuffer] at h
    · exact h0
  rw [popBuffer_refines inv.wf hn] at h
  exact QInv_runTicks n inv h

/-- everything `pause(m)` does, for a position not after the clock -/
theorem pause_some_fields (m : Int) (s : QState) (hm : m ≤ s.samples) :
    (pause (some m) s).1.added = s.added ∧
    (pause (some m) s).1.generated = s.generated.filter (fun i => !endsAfter m i) ∧
    (pause (some m) s).1.removed = s.removed ++ ((s.generated.reverse.filter (endsAfter m)).map (·.uid)) ∧
    (pause (some m) s).1.source = none ∧ (pause (some m) s).1.delaySamples = 0 ∧
    (pause (some m) s).1.paused = true ∧ (pause (some m) s).1.samples = m := by
  obtain ⟨h1, h2, _, _⟩ := pause_cancels_exactly m s
  obtain ⟨h3, h4, h5⟩ := pause_leaves_nothing_pending m s
  refine ⟨?_, h2, h1, h3, h4, h5, (pause_future_rejected m s).2 hm⟩
  obtain ⟨_, _, _, ha, _⟩ := requeue_fields m (cancel m { s with paused := true })
  obtain ⟨_, _, _, ca, _⟩ := cancel_fields m { s with paused := true }
  have : (pause (some m) s).1.added = (requeue m (cancel m { s with paused := true })).added := by
    unfold pause; simp only; split <;> rfl
  rw [this, ha, ca]

/-- `pause(m)`: the device truncates the timeline at `K0 + m`; the trials that stay logged end by `m` -/
theorem QInv_pause_some {K0 : Int} {q : QState} {tl : List Cell} (inv : QInv K0 q tl) (m : Int)
    (hm : m ≤ q.samples) (h0 : 0 ≤ K0 + m) (hdur : ∀ i ∈ q.added, (i.len : Int) ≤ i.dur) :
    QInv K0 (pause (some m) q).1 (tl.take (K0 + m).toNat) := by
  obtain ⟨ha, hg, hr, hs, hd, hp, hsm⟩ := pause_some_fields m q hm
  have hM : (K0 + m).toNat ≤ tl.length := by have := inv.len; omega
  refine ⟨WF_pause (some m) inv.wf, Once_pause (some m) inv.once, ?_, ?_, by rw [ha]; exact inv.uid,
    ?_, ?_, ?_⟩
  · rw [hsm]; simp only [List.length_take]; omega
  · intro _ src hsrc; rw [hs] at hsrc; cases hsrc
  · intro i hi; rw [hg] at hi; exact inv.lenpos i (List.mem_filter.1 hi).1
  · rw [hg]; exact inv.sorted.sublist List.filter_sublist
  · have hrest : rest (pause (some m) q).1 = [] := by simp [rest, hs, hd, zeros]
    rw [hrest, List.append_nil, hg, ha]
    have : tl.take (K0 + m).toNat = (tl ++ rest q).take (K0 + m).toNat := by
      rw [List.take_append_of_le_length hM]
    rw [this]
    apply Emb_trunc inv.emb
    · intro i hi
      simp only [List.mem_filter, endsAfter, Bool.not_eq_true', decide_eq_false_iff_not] at hi
      have := hdur i (inv.emb.gensub i hi.1)
      exact ⟨hi.1, by omega⟩
    · simp only [List.length_append]; omega

theorem QInv_pause_none {K0 : Int} {q : QState} {tl : List Cell} (inv : QInv K0 q tl)
    (hi : idle q = true) : QInv K0 (pause none q).1 tl := by
  have hd := (idle_iff q).1 hi
  exact ⟨WF_pause none inv.wf, Once_pause none inv.once, by simpa [pause] using inv.len,
    fun _ => by simpa [pause, srcDone] using hd, by simpa [pause] using inv.uid,
    by simpa [pause] using inv.lenpos, by simpa [pause] using inv.sorted,
    by simpa [pause, rest] using inv.emb⟩

theorem QInv_resume_none {K0 : Int} {q : QState} {tl : List Cell} (inv : QInv K0 q tl) :
    QInv K0 (resume none q) tl :=
  ⟨WF_resume none inv.wf, Once_resume none inv.once, by simpa [resume] using inv.len,
    fun h => by simp [resume] at h, by simpa [resume] using inv.uid,
    by simpa [resume] using inv.lenpos, by simpa [resume] using inv.sorted,
    by simpa [resume, rest] using inv.emb⟩

theorem QInv_resume_some {K0 : Int} {q : QState} {tl : List Cell} (inv : QInv K0 q tl) (m : Int)
    (hm : q.samples ≤ m) (hi : m = q.samples ∨ idle q = true) :
    QInv K0 (resume (some m) q) (tl ++ zeros (m - q.samples).toNat) := by
  refine ⟨WF_resume (some m) inv.wf, Once_resume (some m) inv.once, ?_, fun h => by simp [resume] at h,
    by simpa [resume] using inv.uid, by simpa [resume] using inv.lenpos,
    by simpa [resume] using inv.sorted, ?_⟩
  · have := inv.len
    simp only [resume, List.length_append, zeros, List.length_replicate]
    push_cast; omega
  · have hrest : rest (resume (some m) q) = rest q := by simp [rest, resume]
    have hview : tl ++ zeros (m - q.samples).toNat ++ rest (resume (some m) q) =
        (tl ++ rest q) ++ zeros (m - q.samples).toNat := by
      rw [hrest]
      rcases hi with hi | hi
      · have : (m - q.samples).toNat = 0 := by omega
        simp [this, zeros]
      · rw [rest_of_srcDone ((idle_iff q).1 hi), List.append_assoc, List.append_assoc, zeros_comm]
    rw [hview]
    simpa [resume] using Emb_zeros inv.emb _

end Psi.E2E
