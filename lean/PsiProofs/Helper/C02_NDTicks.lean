import PsiProofs.Helper.C02_NDFrame
/-! The development of `C02_Ticks` / `C02_Refine` for any `next_trial` variant `nt` meeting `NTOK`:
`popLoopG nt` (the code's while loop) = `runTicksG nt` (one sample at a time). The proofs are those of
the `decrement=True` files with `nextTrial` replaced by `nt` and its three interface lemmas. -/
namespace Psi.Queue

abbrev NT := QState → Except Err (Option QState)

/-- `popIter` with `nt` for `next_trial` -/
def popIterG (nt : NT) (n : Nat) (s : QState) : Except Err (List Cell × QState) :=
  if s.paused then
    .ok (zeros n, { s with samples := s.samples + n })
  else match s.source with
  | some src =>
    if src.gen then
      let j := min (src.len - src.off) n
      let off := src.off + j
      .ok (wave src.key src.off j,
           { s with source := if off ≥ src.len then none else some { src with off := off },
                    samples := s.samples + j })
    else
      let rem := src.len - src.off
      if n > rem then
        .ok (wave src.key src.off rem, { s with source := none, samples := s.samples + rem })
      else
        .ok (wave src.key src.off n,
             { s with source := some { src with off := src.off + n }, samples := s.samples + n })
  | none =>
    if s.delaySamples > 0 then
      let j := min s.delaySamples.toNat n
      .ok (zeros j, { s with delaySamples := s.delaySamples - j, samples := s.samples + j })
    else
      match nt s with
      | .error e => .error e
      | .ok none => .ok (zeros n, { s with empty := true, samples := s.samples + n })
      | .ok (some s') => .ok ([], s')

def popLoopG (nt : NT) : Nat → Nat → QState → Except Err (List Cell × QState)
  | _, 0, s => .ok ([], s)
  | 0, _ + 1, _ => .error .fuel
  | fuel + 1, n + 1, s =>
    match popIterG nt (n + 1) s with
    | .error e => .error e
    | .ok (w, s') =>
      match popLoopG nt fuel (n + 1 - w.length) s' with
      | .error e => .error e
      | .ok (ws, s'') => .ok (w ++ ws, s'')

def afterSourceG (nt : NT) (s : QState) : Except Err (Cell × QState) :=
  if s.delaySamples > 0 then .ok (Cell.Z, bump { s with delaySamples := s.delaySamples - 1 })
  else match nt s with
    | .error e => .error e
    | .ok none => .ok (Cell.Z, bump { s with empty := true })
    | .ok (some s') =>
      match s'.source with
      | some src => if src.off < src.len then .ok (emitSrc s' src) else .error .fuel
      | none => .error .fuel

def tickG (nt : NT) (s : QState) : Except Err (Cell × QState) :=
  if s.paused then .ok (Cell.Z, bump s)
  else match s.source with
    | some src => if src.off < src.len then .ok (emitSrc s src) else afterSourceG nt { s with source := none }
    | none => afterSourceG nt s

def runTicksG (nt : NT) : Nat → QState → Except Err (List Cell × QState)
  | 0, s => .ok ([], s)
  | n + 1, s =>
    match tickG nt s with
    | .error e => .error e
    | .ok (c, s') =>
      match runTicksG nt n s' with
      | .error e => .error e
      | .ok (cs, s'') => .ok (c :: cs, s'')

variable {nt : NT}

theorem runTicksG_add (j m : Nat) (s : QState) :
    runTicksG nt (j + m) s =
      match runTicksG nt j s with
      | .error e => .error e
      | .ok (c1, s1) =>
        match runTicksG nt m s1 with
        | .error e => .error e
        | .ok (c2, s2) => .ok (c1 ++ c2, s2) := by
  induction j generalizing s with
  | zero =>
    simp only [Nat.zero_add, runTicksG]
    cases runTicksG nt m s with
    | error e => rfl
    | ok r => cases r; simp
  | succ j ih =>
    rw [Nat.add_right_comm]
    simp only [runTicksG]
    cases tickG nt s with
    | error e => rfl
    | ok r =>
      obtain ⟨c, s1⟩ := r
      simp only [ih s1]
      cases runTicksG nt j s1 with
      | error e => rfl
      | ok r =>
        obtain ⟨c1, s2⟩ := r
        simp only
        cases runTicksG nt m s2 with
        | error e => rfl
        | ok r => obtain ⟨c2, s3⟩ := r; simp

theorem runTicksG_paused (j : Nat) (s : QState) (hp : s.paused = true) :
    runTicksG nt j s = .ok (zeros j, { s with samples := s.samples + j }) := by
  induction j generalizing s with
  | zero => simp [runTicksG]
  | succ j ih =>
    simp only [runTicksG, tickG, hp, if_true]
    rw [ih (bump s) (by simp [bump, hp])]
    simp only [zeros_succ, bump, Except.ok.injEq, Prod.mk.injEq, true_and]
    congr 1; push_cast; omega

theorem runTicksG_src (j : Nat) (s : QState) (src : Src) (hp : s.paused = false)
    (hs : s.source = some src) (hle : src.off + j + 1 ≤ src.len) :
    runTicksG nt (j + 1) s = .ok (wave src.key src.off (j + 1),
      { s with source := if src.gen && src.off + (j + 1) ≥ src.len then none
                         else some { src with off := src.off + (j + 1) },
               samples := s.samples + (j + 1 : Nat) }) := by
  induction j generalizing s src with
  | zero =>
    have : src.off < src.len := by omega
    simp [runTicksG, tickG, hp, hs, this, emitSrc, bump, wave_succ]
  | succ j ih =>
    have h1 : src.off < src.len := by omega
    have h2 : ¬ (src.off + 1 ≥ src.len) := by omega
    rw [runTicksG]
    simp only [tickG, hp, hs, h1, emitSrc, if_true, Bool.false_eq_true, if_false, h2, decide_false,
      Bool.and_false]
    rw [ih _ { src with off := src.off + 1 } (by simp [bump]) (by simp [bump]) (by simp; omega)]
    simp only [bump, wave_succ, Except.ok.injEq, Prod.mk.injEq, true_and]
    have e1 : src.off + 1 + (j + 1) = src.off + (j + 1 + 1) := by omega
    simp only [e1]
    congr 1; push_cast; omega

theorem runTicksG_delay (j : Nat) (s : QState) (hp : s.paused = false) (hs : s.source = none)
    (hd : (j : Int) ≤ s.delaySamples) :
    runTicksG nt j s =
      .ok (zeros j, { s with delaySamples := s.delaySamples - j, samples := s.samples + j }) := by
  induction j generalizing s with
  | zero => simp [runTicksG]
  | succ j ih =>
    have hpos : s.delaySamples > 0 := by omega
    simp only [runTicksG, tickG, hp, hs, afterSourceG, hpos, if_true, Bool.false_eq_true, if_false]
    rw [ih _ (by simp [bump]) (by simp [bump]) (by simp [bump]; omega)]
    simp only [bump, zeros_succ, Except.ok.injEq, Prod.mk.injEq, true_and]
    congr 1 <;> (push_cast; omega)

theorem runTicksG_empty (H : NTOK nt) (j : Nat) (s : QState) (hp : s.paused = false) (hs : s.source = none)
    (hd : s.delaySamples ≤ 0) (hk : nextKey s = .ok none) :
    runTicksG nt (j + 1) s = .ok (zeros (j + 1), { s with empty := true, samples := s.samples + (j + 1 : Nat) }) := by
  induction j generalizing s with
  | zero =>
    have : ¬ s.delaySamples > 0 := by omega
    simp [runTicksG, tickG, hp, hs, afterSourceG, this, H.none_iff.2 hk, bump, zeros_succ]
  | succ j ih =>
    have : ¬ s.delaySamples > 0 := by omega
    rw [runTicksG]
    simp only [tickG, hp, hs, afterSourceG, this, H.none_iff.2 hk, if_false, Bool.false_eq_true]
    rw [ih _ (by simp [bump]) (by simp [bump]) (by simp [bump]; omega)
      (by simpa [bump, hp, hs] using nextKey_none_indep true (s.samples + 1) hk)]
    simp only [bump, zeros_succ, Except.ok.injEq, Prod.mk.injEq, true_and]
    congr 1; push_cast; omega

theorem runTicksG_leftover (m : Nat) (s : QState) (src : Src) (hp : s.paused = false)
    (hs : s.source = some src) (hx : ¬ src.off < src.len) :
    runTicksG nt (m + 1) s = runTicksG nt (m + 1) { s with source := none } := by
  simp only [runTicksG, tickG, hp, hs, hx, if_false, Bool.false_eq_true]

theorem combineG {fuel n j : Nat} {s s' : QState} {w : List Cell} (hj : j ≤ n)
    (hrun : runTicksG nt j s = .ok (w, s')) (hlen : w.length = j)
    (hrest : popLoopG nt fuel (n - j) s' = runTicksG nt (n - j) s') :
    (match popLoopG nt fuel (n - w.length) s' with
      | .error e => .error e
      | .ok (ws, s'') => .ok (w ++ ws, s'')) = runTicksG nt n s := by
  have hn : n = j + (n - j) := by omega
  conv => rhs; rw [hn, runTicksG_add, hrun]
  simp only [hlen, hrest]

theorem combine_allG {fuel n : Nat} {s s' : QState} {w : List Cell}
    (hrun : runTicksG nt n s = .ok (w, s')) (hlen : w.length = n) :
    (match popLoopG nt fuel (n - w.length) s' with
      | .error e => .error e
      | .ok (ws, s'') => .ok (w ++ ws, s'')) = runTicksG nt n s := by
  refine combineG (Nat.le_refl n) hrun hlen ?_
  simp [popLoopG, runTicksG]

theorem silentG {fuel n : Nat} {s s' : QState}
    (hrest : popLoopG nt fuel n s' = runTicksG nt n s') (ht : runTicksG nt n s = runTicksG nt n s') :
    (match popLoopG nt fuel (n - ([] : List Cell).length) s' with
      | .error e => .error e
      | .ok (ws, s'') => .ok ([] ++ ws, s'')) = runTicksG nt n s := by
  simp only [List.length_nil, Nat.sub_zero, List.nil_append, hrest, ht]
  cases runTicksG nt n s' with
  | error e => rfl
  | ok r => rfl

theorem popLoopG_eq_runTicksG (H : NTOK nt) (fuel n : Nat) (s : QState) (hw : WF s) (hf : 3 * n + slack s ≤ fuel) :
    popLoopG nt fuel n s = runTicksG nt n s := by
  induction fuel generalizing n s with
  | zero =>
    cases n with
    | zero => simp [popLoopG, runTicksG]
    | succ n => omega
  | succ fuel ih =>
    cases n with
    | zero => simp [popLoopG, runTicksG]
    | succ n =>
      rw [popLoopG]
      have hdata := hw.data
      have hsrc := hw.src
      obtain ⟨kind, keep, gsize, auto, data, ordering, source, delaySamples, samples, paused, empty,
        generated, cursor, complete, block, draws, perms, added, removed⟩ := s
      simp only at hdata hsrc
      cases paused with
      | true =>
        simp only [popIterG, if_true]
        exact combine_allG (runTicksG_paused (n + 1) _ rfl) (by simp)
      | false =>
      cases source with
      | some src =>
        obtain ⟨hlen, hoff, hgen⟩ := hsrc src rfl
        obtain ⟨skey, soff, slen, sgen⟩ := src
        simp only at hlen hoff hgen
        cases sgen with
        | true =>
          have hlt := hgen rfl
          simp only [popIterG, if_true, Bool.false_eq_true, if_false]
          have hj1 : min (slen - soff) (n + 1) = (min (slen - soff) (n + 1) - 1) + 1 := by omega
          have hrun := runTicksG_src (nt := nt) (min (slen - soff) (n + 1) - 1) (⟨kind, keep, gsize, auto, data, ordering,
            some ⟨skey, soff, slen, true⟩, delaySamples, samples, false, empty, generated, cursor, complete, block,
            draws, perms, added, removed⟩) ⟨skey, soff, slen, true⟩ rfl rfl (by simp only; omega)
          rw [← hj1] at hrun
          simp only [Bool.true_and, ge_iff_le, decide_eq_true_eq] at hrun
          refine combineG (by omega) hrun (by simp) ?_
          apply ih
          · refine ⟨hdata, ?_⟩
            intro src' h'
            simp only at h'
            split at h'
            · simp at h'
            · simp only [Option.some.injEq] at h'; subst h'
              simp only; omega
          · simp only [slack, Bool.false_eq_true, if_false] at hf ⊢
            split <;> (try split) <;> omega
        | false =>
          simp only [popIterG, Bool.false_eq_true, if_false]
          by_cases hbig : n + 1 > slen - soff
          · simp only [hbig, if_true]
            by_cases hz : slen - soff = 0
            · -- exhausted leftover: a silentG iteration
              have hx : ¬ soff < slen := by omega
              simp only [hz, wave_zero, Int.natCast_zero, Int.add_zero]
              apply silentG
              · apply ih
                · exact ⟨hdata, by simp⟩
                · simp only [slack, Bool.false_eq_true, if_false, hx] at hf ⊢
                  split <;> omega
              · exact runTicksG_leftover n _ ⟨skey, soff, slen, false⟩ rfl rfl hx
            · have hj1 : slen - soff = (slen - soff - 1) + 1 := by omega
              have hrun := runTicksG_src (nt := nt) (slen - soff - 1) (⟨kind, keep, gsize, auto, data, ordering,
                some ⟨skey, soff, slen, false⟩, delaySamples, samples, false, empty, generated, cursor, complete,
                block, draws, perms, added, removed⟩) ⟨skey, soff, slen, false⟩ rfl rfl (by simp only; omega)
              rw [← hj1] at hrun
              simp only [Bool.false_and, Bool.false_eq_true, if_false] at hrun
              -- after the block the spec holds the exhausted leftover, the loop holds `None`
              have hm : n + 1 - (slen - soff) = (n + 1 - (slen - soff) - 1) + 1 := by omega
              have hn : n + 1 = (slen - soff) + (n + 1 - (slen - soff)) := by omega
              conv => rhs; rw [hn, runTicksG_add, hrun]
              simp only [wave_length]
              rw [hm, runTicksG_leftover _ _ ⟨skey, soff + (slen - soff), slen, false⟩ rfl rfl
                (by simp only; omega), ← hm]
              simp only
              rw [ih _ _ ⟨hdata, by simp⟩
                (by simp only [slack, Bool.false_eq_true, if_false] at hf ⊢; split <;> omega)]
          · simp only [hbig, if_false]
            have hrun := runTicksG_src (nt := nt) n (⟨kind, keep, gsize, auto, data, ordering,
              some ⟨skey, soff, slen, false⟩, delaySamples, samples, false, empty, generated, cursor, complete,
              block, draws, perms, added, removed⟩) ⟨skey, soff, slen, false⟩ rfl rfl (by simp only; omega)
            simp only [Bool.false_and, Bool.false_eq_true, if_false] at hrun
            exact combine_allG hrun (by simp)
      | none =>
        by_cases hd : delaySamples > 0
        · simp only [popIterG, hd, if_true, Bool.false_eq_true, if_false]
          have hjle : ((min delaySamples.toNat (n + 1) : Nat) : Int) ≤ delaySamples := by omega
          refine combineG (j := min delaySamples.toNat (n + 1)) (by omega)
            (runTicksG_delay _ _ rfl rfl hjle) (by simp) ?_
          apply ih
          · exact ⟨hdata, by simp⟩
          · simp only [slack, Bool.false_eq_true, if_false] at hf ⊢
            split <;> omega
        · simp only [popIterG, hd, if_false, Bool.false_eq_true]
          cases hnt : nt ⟨kind, keep, gsize, auto, data, ordering, none, delaySamples, samples, false,
              empty, generated, cursor, complete, block, draws, perms, added, removed⟩ with
          | error e =>
            simp only [runTicksG, tickG, afterSourceG, hd, hnt, if_false, Bool.false_eq_true]
          | ok r =>
            cases r with
            | none =>
              simp only
              exact combine_allG (runTicksG_empty H n _ rfl rfl (by simp only; omega) (H.none_iff.1 hnt)) (by simp)
            | some s' =>
              obtain ⟨hw', hpp, src, hsrc', hoff, hlen⟩ := H.wf hw hnt
              simp only at hpp
              have hlt : src.off < src.len := by omega
              simp only
              apply silentG
              · apply ih _ _ hw'
                have h0 : slack s' = 0 := by simp [slack, hpp, hsrc', hlt]
                simp only [slack, Bool.false_eq_true, if_false, hd] at hf
                omega
              · have ht : tickG nt ⟨kind, keep, gsize, auto, data, ordering, none, delaySamples, samples, false,
                    empty, generated, cursor, complete, block, draws, perms, added, removed⟩ = tickG nt s' := by
                  simp only [tickG, afterSourceG, hd, hnt, hsrc', hlt, hpp, if_true, if_false, Bool.false_eq_true]
                simp only [runTicksG, ht]

end Psi.Queue
