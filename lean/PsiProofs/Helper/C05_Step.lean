import PsiProofs.Helper.C05_Inv
/-! Helper for C05: one call of `extract_epochs` on a valid history — explicit form of the
new pending list and of the delivered batch, preservation of the invariant. -/
namespace Psi.Extract

theorem feedStop_done {α} (S : List α) (T n : Nat) (ch : List α) (c : Capture α)
    (hch : ch = slice S T n) (hn : ch.length = n) (hc : CapInv S T c)
    (h : c.req.s.toNat + c.req.len ≤ T + n) :
    feedStop T ch c = some (epochOf S c.req) ∧ feedMore T ch c = none := by
  have := (feed_spec S T n ch c hch hn hc).1 h
  simp [feedStop, feedMore, this]

theorem feedMore_cont {α} (S : List α) (T n : Nat) (ch : List α) (c : Capture α)
    (hch : ch = slice S T n) (hn : ch.length = n) (hc : CapInv S T c)
    (h : T + n < c.req.s.toNat + c.req.len) :
    feedStop T ch c = none ∧ ∃ c', feedMore T ch c = some c' ∧ c'.req = c.req ∧ CapInv S (T + n) c' := by
  obtain ⟨c', hf, hr, hi⟩ := (feed_spec S T n ch c hch hn hc).2 h
  exact ⟨by simp [feedStop, hf], c', by simp [feedMore, hf], hr, hi⟩

theorem intake_done {α} (S : List α) (a b : Nat) (prior : List (Nat × List α)) (r : Request) (s : Nat)
    (hne : prior ≠ []) (hp : Contig S a prior b) (hs : r.s = (s : Int)) (ha : a ≤ s)
    (h : s + r.len ≤ b) :
    intakeStop prior r = some (epochOf S r) ∧ intakeMore prior r = none := by
  have hc : CapInv S a (Capture.new r : Capture α) := capInv_new S a r s hs ha
  have := replay_stop S a b prior (Capture.new r) hne hp hc (by simp [Capture.new, hs]; exact h)
  unfold intakeStop intakeMore
  rw [this]
  exact ⟨rfl, rfl⟩

theorem intake_cont {α} (S : List α) (a b : Nat) (prior : List (Nat × List α)) (r : Request) (s : Nat)
    (hp : Contig S a prior b) (hs : r.s = (s : Int)) (ha : a ≤ s)
    (h : b < s + r.len) :
    intakeStop prior r = none ∧ ∃ c', intakeMore prior r = some c' ∧ c'.req = r ∧ CapInv S b c' := by
  have hc : CapInv S a (Capture.new r : Capture α) := capInv_new S a r s hs ha
  obtain ⟨c', hf, hr, hi⟩ := replay_more S a b prior (Capture.new r) hp hc (by simp [Capture.new, hs]; exact h)
  exact ⟨by simp [intakeStop, hf], c', by simp [intakeMore, hf], by simpa [Capture.new] using hr, hi⟩

theorem mergeOk_uniform {α} (L : Nat) (es : List (Epoch α))
    (h : ∀ e ∈ es, e.missed = false ∧ e.data.length = L) : mergeOk es = true := by
  cases es with
  | nil => rfl
  | cons e rest =>
    simp only [mergeOk, List.all_eq_true]
    intro e' he'
    have h1 := h e List.mem_cons_self
    have h2 := h e' (List.mem_cons_of_mem _ he')
    simp [h1.1, h1.2, h2.1, h2.2]

theorem map_key_filterMap_sublist {β γ} (l : List β) (g : β → Option γ) (kb : β → Nat) (kc : γ → Nat)
    (h : ∀ x ∈ l, ∀ y, g x = some y → kc y = kb x) :
    ((l.filterMap g).map kc).Sublist (l.map kb) := by
  induction l with
  | nil => exact List.Sublist.slnil
  | cons x xs ih =>
    have ih' := ih (fun x hx => h x (List.mem_cons_of_mem _ hx))
    simp only [List.filterMap_cons, List.map_cons]
    cases hg : g x with
    | none => exact List.Sublist.cons _ ih'
    | some y =>
      simp only [List.map_cons]
      rw [h x List.mem_cons_self y hg]
      exact List.Sublist.cons₂ _ ih'

/-! The pieces of one call, named. -/
def keptOf {α} (st : State α) (op : Op α) : Pending α :=
  st.pending.filter (fun c => !op.rems.contains c.req.key)
def skipOf {α} (st : State α) (op : Op α) : List Nat := (removeAll st.pending op.rems).2
def takenOf {α} (st : State α) (op : Op α) : List Request :=
  op.reqs.filter (fun r => !(skipOf st op).contains r.key)
def prior1Of {α} (st : State α) (op : Op α) : List (Nat × List α) := st.prior ++ [(st.tlb, op.chunk)]
def pendingOf {α} (st : State α) (op : Op α) : Pending α :=
  (keptOf st op).filterMap (feedMore st.tlb op.chunk) ++ (takenOf st op).filterMap (intakeMore (prior1Of st op))
def batchOf {α} (st : State α) (op : Op α) : List (Epoch α) :=
  (keptOf st op).filterMap (feedStop st.tlb op.chunk) ++ (takenOf st op).filterMap (intakeStop (prior1Of st op))
def fireOf {α} (st : State α) (op : Op α) : Bool :=
  op.complete && (pendingOf st op).isEmpty && !st.doneFired

def nextState {α} (B : Nat) (hist : List (Op α)) (st : State α) (op : Op α) : State α :=
  { st with tlb := st.tlb + op.chunk.length, pending := pendingOf st op,
            prior := prune B (total (hist ++ [op])) (withStarts 0 (hist ++ [op])),
            queue := [], doneFired := st.doneFired || fireOf st op }

/-- every delivered epoch is the exact epoch of its own request -/
def EpochOK {α} (S : List α) (L : Nat) (rs : List Request) (e : Epoch α) : Prop :=
  e = epochOf S e.req ∧ e.req ∈ rs ∧ e.data.length = L

theorem step_spec {α} (S : List α) (B L : Nat) (hist : List (Op α)) (st : State α) (op : Op α)
    (hinv : Inv S B L hist st) (hv : OpValid B L hist op)
    (hch : op.chunk = slice S (total hist) op.chunk.length)
    (hbound : total hist + op.chunk.length ≤ S.length) :
    step st op = (nextState B hist st op, .ok (batchOf st op) (fireOf st op)) ∧
    Inv S B L (hist ++ [op]) (step st op).1 ∧
    (∀ e ∈ batchOf st op, EpochOK S L (allReqs (hist ++ [op])) e) := by
  have hT := hinv.tlb
  -- contiguity of prior1
  have hcontig0 : Contig S (lookbackStart B hist) st.prior (total hist) := by
    rw [hinv.prior]
    have := contig_withStarts S 0 hist hinv.chunks
    simp only [Nat.zero_add] at this
    exact contig_dropWhile S 0 (total hist) _ _ this
  have hcontig : Contig S (lookbackStart B hist) (prior1Of st op) (total hist + op.chunk.length) := by
    apply contig_append S _ (total hist) _ _ _ hcontig0
    simp only [Contig, hT]
    exact ⟨trivial, hch, trivial⟩
  have hne : prior1Of st op ≠ [] := by simp [prior1Of]
  -- captures kept after the removals
  have hkept : ∀ c ∈ keptOf st op, CapInv S (total hist) c ∧ c.req.len = L ∧ c.req ∈ allReqs hist :=
    fun c hc => hinv.caps c (List.mem_filter.1 hc).1
  -- the fed captures
  have hfeedMore : ∀ c ∈ keptOf st op, ∀ c', feedMore st.tlb op.chunk c = some c' →
      c'.req = c.req ∧ CapInv S (total hist + op.chunk.length) c' := by
    intro c hc c' hf
    rw [hT] at hf
    by_cases hcase : c.req.s.toNat + c.req.len ≤ total hist + op.chunk.length
    · have := (feedStop_done S _ _ _ c hch rfl (hkept c hc).1 hcase).2
      rw [this] at hf; cases hf
    · obtain ⟨_, c'', h1, h2, h3⟩ := feedMore_cont S _ _ _ c hch rfl (hkept c hc).1 (by omega)
      rw [h1] at hf; cases hf; exact ⟨h2, h3⟩
  have hfeedStop : ∀ c ∈ keptOf st op, ∀ e, feedStop st.tlb op.chunk c = some e →
      e = epochOf S c.req ∧ c.req.s.toNat + c.req.len ≤ total hist + op.chunk.length := by
    intro c hc e hf
    rw [hT] at hf
    by_cases hcase : c.req.s.toNat + c.req.len ≤ total hist + op.chunk.length
    · have := (feedStop_done S _ _ _ c hch rfl (hkept c hc).1 hcase).1
      rw [this] at hf; cases hf; exact ⟨rfl, hcase⟩
    · have := (feedMore_cont S _ _ _ c hch rfl (hkept c hc).1 (by omega)).1
      rw [this] at hf; cases hf
  -- the requests taken in
  have htaken : ∀ r ∈ takenOf st op, r ∈ op.reqs := fun r hr => (List.mem_filter.1 hr).1
  have hvis : ∀ r ∈ op.reqs, ∃ s : Nat, r.s = (s : Int) ∧ lookbackStart B hist ≤ s := by
    intro r hr
    have := hv.visible r hr
    exact ⟨r.s.toNat, by omega, by omega⟩
  have hinMore : ∀ r ∈ takenOf st op, ∀ c', intakeMore (prior1Of st op) r = some c' →
      c'.req = r ∧ CapInv S (total hist + op.chunk.length) c' := by
    intro r hr c' hf
    obtain ⟨s, hs, hle⟩ := hvis r (htaken r hr)
    by_cases hcase : s + r.len ≤ total hist + op.chunk.length
    · have := (intake_done S _ _ _ r s hne hcontig hs hle hcase).2
      rw [this] at hf; cases hf
    · obtain ⟨_, c'', h1, h2, h3⟩ := intake_cont S _ _ _ r s hcontig hs hle (by omega)
      rw [h1] at hf; cases hf; exact ⟨h2, h3⟩
  have hinStop : ∀ r ∈ takenOf st op, ∀ e, intakeStop (prior1Of st op) r = some e →
      e = epochOf S r ∧ r.s.toNat + r.len ≤ total hist + op.chunk.length := by
    intro r hr e hf
    obtain ⟨s, hs, hle⟩ := hvis r (htaken r hr)
    by_cases hcase : s + r.len ≤ total hist + op.chunk.length
    · have := (intake_done S _ _ _ r s hne hcontig hs hle hcase).1
      rw [this] at hf; cases hf; exact ⟨rfl, by omega⟩
    · have := (intake_cont S _ _ _ r s hcontig hs hle (by omega)).1
      rw [this] at hf; cases hf
  -- freshness of the keys taken in with respect to the fed captures
  have hfreshFed : ∀ r ∈ op.reqs, hasKey ((keptOf st op).filterMap (feedMore st.tlb op.chunk)) r.key = false := by
    intro r hr
    rw [hasKey_false_iff]
    intro c' hc'
    obtain ⟨c, hc, hf⟩ := List.mem_filterMap.1 hc'
    rw [(hfeedMore c hc c' hf).1]
    exact hv.fresh r hr c.req (hkept c hc).2.2
  -- every epoch of the batch
  have hbatch : ∀ e ∈ batchOf st op, EpochOK S L (allReqs (hist ++ [op])) e := by
    intro e he
    rw [allReqs_append]
    rcases List.mem_append.1 he with h | h
    · obtain ⟨c, hc, hf⟩ := List.mem_filterMap.1 h
      obtain ⟨he1, he2⟩ := hfeedStop c hc e hf
      have hk := hkept c hc
      refine ⟨by rw [he1]; rfl, by rw [he1]; exact List.mem_append_left _ hk.2.2, ?_⟩
      rw [he1]; simp only [epochOf]
      rw [slice_length _ _ _ (by omega), hk.2.1]
    · obtain ⟨r, hr, hf⟩ := List.mem_filterMap.1 h
      obtain ⟨he1, he2⟩ := hinStop r hr e hf
      have hr' := htaken r hr
      refine ⟨by rw [he1]; rfl, ?_, ?_⟩
      · rw [he1]; apply List.mem_append_right; simp [allReqs, epochOf]; exact hr'
      · rw [he1]; simp only [epochOf]
        rw [slice_length _ _ _ (by omega), hv.len r hr']
  have hmerge : mergeOk (batchOf st op) = true :=
    mergeOk_uniform L _ (fun e he => ⟨by rw [(hbatch e he).1]; rfl, (hbatch e he).2.2⟩)
  -- the computation itself
  have hstep : step st op = (nextState B hist st op, .ok (batchOf st op) (fireOf st op)) := by
    unfold step call
    simp only [hinv.alive, hinv.queue, List.nil_append, List.isEmpty_nil, Bool.and_true,
      Bool.false_eq_true, if_false]
    rw [feedAll_eq, removeAll_pending]
    have hi := intakeAll_eq (prior1Of st op) ((keptOf st op).filterMap (feedMore st.tlb op.chunk))
      (skipOf st op) op.reqs hv.nodup hfreshFed
    simp only [prior1Of, keptOf, skipOf] at hi
    simp only [hi]
    have hm : mergeOk (List.filterMap (feedStop st.tlb op.chunk)
        (List.filter (fun c => !op.rems.contains c.req.key) st.pending) ++
        List.filterMap (intakeStop (st.prior ++ [(st.tlb, op.chunk)]))
          (List.filter (fun r => !(removeAll st.pending op.rems).snd.contains r.key) op.reqs)) = true := hmerge
    simp only [hm, Bool.not_true, Bool.false_eq_true, if_false]
    have hprior : prune st.bufferSamples (st.tlb + op.chunk.length) (st.prior ++ [(st.tlb, op.chunk)]) =
        prune B (total (hist ++ [op])) (withStarts 0 (hist ++ [op])) := by
      rw [hinv.buf, hinv.prior, hT, prune_prune B _ _ _ _ (Nat.le_add_right _ _), withStarts_append,
        total_append, total_single]
      simp [withStarts]
    rw [hprior]
    simp only [nextState, pendingOf, batchOf, fireOf, keptOf, takenOf, skipOf, prior1Of, hinv.alive]
  refine ⟨hstep, ?_, hbatch⟩
  rw [hstep]
  refine ⟨hinv.alive, ?_, hinv.buf, rfl, ?_, ?_, ?_, ?_, rfl⟩
  · simp [nextState, hT, total_append, total_single]
  · intro c' hc'
    simp only [total_append, total_single, allReqs_append]
    rcases List.mem_append.1 hc' with h | h
    · obtain ⟨c, hc, hf⟩ := List.mem_filterMap.1 h
      obtain ⟨h1, h2⟩ := hfeedMore c hc c' hf
      exact ⟨h2, by rw [h1]; exact (hkept c hc).2.1, by rw [h1]; exact List.mem_append_left _ (hkept c hc).2.2⟩
    · obtain ⟨r, hr, hf⟩ := List.mem_filterMap.1 h
      obtain ⟨h1, h2⟩ := hinMore r hr c' hf
      refine ⟨h2, by rw [h1]; exact hv.len r (htaken r hr), ?_⟩
      rw [h1]; apply List.mem_append_right; simp [allReqs]; exact htaken r hr
  · -- keys stay pairwise distinct
    show ((pendingOf st op).map (·.req.key)).Nodup
    simp only [pendingOf, List.map_append]
    have s1 : (((keptOf st op).filterMap (feedMore st.tlb op.chunk)).map (·.req.key)).Sublist
        (st.pending.map (·.req.key)) := by
      refine (map_key_filterMap_sublist (keptOf st op) _ (fun c : Capture α => c.req.key) (fun c : Capture α => c.req.key) ?_).trans ?_
      · intro c hc c' hf; rw [(hfeedMore c hc c' hf).1]
      · exact (List.filter_sublist).map _
    have s2 : (((takenOf st op).filterMap (intakeMore (prior1Of st op))).map (·.req.key)).Sublist
        (op.reqs.map (·.key)) := by
      refine (map_key_filterMap_sublist (takenOf st op) _ (fun r : Request => r.key) (fun c : Capture α => c.req.key) ?_).trans ?_
      · intro r hr c' hf; rw [(hinMore r hr c' hf).1]
      · exact (List.filter_sublist).map _
    rw [List.nodup_append]
    refine ⟨s1.nodup hinv.nodup, s2.nodup hv.nodup, ?_⟩
    intro a ha b hb hab
    obtain ⟨c, hc, hca⟩ := List.mem_map.1 (s1.subset ha)
    obtain ⟨r, hr, hrb⟩ := List.mem_map.1 (s2.subset hb)
    exact hv.fresh r hr c.req (hinv.caps c hc).2.2 (by rw [hca, hrb, hab])
  · exact chunksOf_append S 0 hist [op] hinv.chunks (by simp only [ChunksOf, Nat.zero_add]; exact ⟨hch, hbound, trivial⟩)
  · simp only [total_append, total_single]; exact hbound

end Psi.Extract
