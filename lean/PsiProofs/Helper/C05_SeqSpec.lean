import PsiProofs.Helper.C05_Seq
/-!
Helper for C05, per-request form: consequences of the per-key spec machine (pure list reasoning),
and `Valid → ValidSeq`.
-/
namespace Psi.Extract

instance {α} (κ : Nat) (live : Option Request) (op : Op α) : Decidable (KeyOK κ live op) := by
  unfold KeyOK; infer_instance

theorem keyOK_of_no_adds {α} (κ : Nat) (live : Option Request) (op : Op α) (h : addsK κ op = []) :
    KeyOK κ live op := by
  unfold KeyOK takenK; rw [h]; simp

theorem flatten_emit {β} (f : Request → β) (l : List (Option Request)) :
    (l.map (fun o => o.toList.map f)).flatten = (l.filterMap id).map f := by
  induction l with
  | nil => rfl
  | cons o os ih => cases o <;> simp [ih]

/-- calls that neither request nor remove key `κ` -/
def Quiet {α} (κ : Nat) (ops : List (Op α)) : Prop :=
  ∀ o ∈ ops, (∀ q ∈ o.reqs, q.key ≠ κ) ∧ κ ∉ o.rems

theorem addsK_nil_of {α} (κ : Nat) (o : Op α) (h : ∀ q ∈ o.reqs, q.key ≠ κ) : addsK κ o = [] := by
  unfold addsK
  rw [List.filter_eq_nil_iff]
  intro q hq hk
  exact h q hq (by simpa using hk)

theorem quiet_step {α} (κ T : Nat) (live : Option Request) (o : Op α)
    (h1 : ∀ q ∈ o.reqs, q.key ≠ κ) (h2 : κ ∉ o.rems) :
    keyNext κ T live o = live.filter (fun r => !doneAt r (T + o.chunk.length)) ∧
    keyEmit κ T live o = live.filter (fun r => doneAt r (T + o.chunk.length)) := by
  have ha := addsK_nil_of κ o h1
  simp [keyNext, keyEmit, takenK, keptK, ha, h2]

/-- nothing open, nothing requested: nothing delivered, nothing open -/
theorem spec_idle {α} (κ T : Nat) (ops : List (Op α)) (hq : ∀ o ∈ ops, ∀ q ∈ o.reqs, q.key ≠ κ) :
    (specReqs κ T none ops).filterMap id = [] ∧ openK κ T none ops = none := by
  induction ops generalizing T with
  | nil => simp [specReqs, openK]
  | cons o os ih =>
    have ha := addsK_nil_of κ o (hq o List.mem_cons_self)
    have h1 : keyNext κ T none o = none := by simp [keyNext, takenK, keptK, ha]
    have h2 : keyEmit κ T none o = none := by simp [keyEmit, takenK, keptK, ha]
    obtain ⟨i1, i2⟩ := ih (T + o.chunk.length) (fun o' ho' => hq o' (List.mem_cons_of_mem _ ho'))
    simp only [specReqs, openK, h1, h2, List.filterMap_cons, id]
    exact ⟨i1, i2⟩

/-- `r` open and not complete, quiet calls that do not reach its end: nothing, still open -/
theorem spec_waiting {α} (κ T : Nat) (r : Request) (ops : List (Op α)) (hq : Quiet κ ops)
    (hshort : T + total ops < r.s.toNat + r.len) :
    (specReqs κ T (some r) ops).filterMap id = [] ∧ openK κ T (some r) ops = some r := by
  induction ops generalizing T with
  | nil => simp [specReqs, openK]
  | cons o os ih =>
    obtain ⟨q1, q2⟩ := hq o List.mem_cons_self
    obtain ⟨h1, h2⟩ := quiet_step κ T (some r) o q1 q2
    have hd : doneAt r (T + o.chunk.length) = false := by
      simp only [doneAt, decide_eq_false_iff_not]; simp [total] at hshort; omega
    simp only [Option.filter, hd, Bool.not_false, if_true] at h1
    simp only [Option.filter, hd, Bool.false_eq_true, if_false] at h2
    obtain ⟨i1, i2⟩ := ih (T + o.chunk.length) (fun o' ho' => hq o' (List.mem_cons_of_mem _ ho'))
      (by simp [total] at hshort ⊢; omega)
    simp only [specReqs, openK, h1, h2, List.filterMap_cons, id]
    exact ⟨i1, i2⟩

/-- `r` open, quiet calls that reach its end: delivered exactly once, nothing open afterwards -/
theorem spec_open_once {α} (κ T : Nat) (r : Request) (ops : List (Op α)) (hq : Quiet κ ops)
    (hne : ops ≠ []) (hend : r.s.toNat + r.len ≤ T + total ops) :
    (specReqs κ T (some r) ops).filterMap id = [r] ∧ openK κ T (some r) ops = none := by
  induction ops generalizing T with
  | nil => exact absurd rfl hne
  | cons o os ih =>
    obtain ⟨q1, q2⟩ := hq o List.mem_cons_self
    obtain ⟨h1, h2⟩ := quiet_step κ T (some r) o q1 q2
    have hq' : ∀ o' ∈ os, ∀ q ∈ o'.reqs, q.key ≠ κ := fun o' ho' => (hq o' (List.mem_cons_of_mem _ ho')).1
    by_cases hd : r.s.toNat + r.len ≤ T + o.chunk.length
    · have hda : doneAt r (T + o.chunk.length) = true := by simpa [doneAt] using hd
      simp only [Option.filter, hda, Bool.not_true, Bool.false_eq_true, if_false] at h1
      simp only [Option.filter, hda, if_true] at h2
      obtain ⟨i1, i2⟩ := spec_idle κ (T + o.chunk.length) os hq'
      simp only [specReqs, openK, h1, h2, List.filterMap_cons, id, i1]
      exact ⟨trivial, i2⟩
    · have hda : doneAt r (T + o.chunk.length) = false := by simpa [doneAt] using hd
      simp only [Option.filter, hda, Bool.not_false, if_true] at h1
      simp only [Option.filter, hda, Bool.false_eq_true, if_false] at h2
      have hne' : os ≠ [] := by
        intro h; subst h; simp [total] at hend; omega
      obtain ⟨i1, i2⟩ := ih (T + o.chunk.length) (fun o' ho' => hq o' (List.mem_cons_of_mem _ ho')) hne'
        (by simp [total] at hend ⊢; omega)
      simp only [specReqs, openK, h1, h2, List.filterMap_cons, id]
      exact ⟨i1, i2⟩

/-- `r` is the request taken in by call `opj`, the following calls `mid` are quiet: the window
`opj :: mid` delivers `r` exactly once if it reaches its end, nothing and `r` stays open otherwise -/
theorem spec_window {α} (κ T : Nat) (live : Option Request) (r : Request) (opj : Op α)
    (mid : List (Op α)) (htk : takenK κ live opj = [r]) (hq : Quiet κ mid) :
    (r.s.toNat + r.len ≤ T + total (opj :: mid) →
      (specReqs κ T live (opj :: mid)).filterMap id = [r] ∧ openK κ T live (opj :: mid) = none) ∧
    (T + total (opj :: mid) < r.s.toNat + r.len →
      (specReqs κ T live (opj :: mid)).filterMap id = [] ∧ openK κ T live (opj :: mid) = some r) := by
  have hq' : ∀ o' ∈ mid, ∀ q ∈ o'.reqs, q.key ≠ κ := fun o' ho' => (hq o' ho').1
  have htot : total (opj :: mid) = opj.chunk.length + total mid := by simp [total]
  by_cases hd : r.s.toNat + r.len ≤ T + opj.chunk.length
  · have hda : doneAt r (T + opj.chunk.length) = true := by simpa [doneAt] using hd
    have h1 : keyNext κ T live opj = none := by simp [keyNext, htk, hda]
    have h2 : keyEmit κ T live opj = some r := by simp [keyEmit, htk, hda]
    obtain ⟨i1, i2⟩ := spec_idle κ (T + opj.chunk.length) mid hq'
    constructor
    · intro _
      simp only [specReqs, openK, h1, h2, List.filterMap_cons, id, i1]
      exact ⟨trivial, i2⟩
    · intro h; omega
  · have hda : doneAt r (T + opj.chunk.length) = false := by simpa [doneAt] using hd
    have h1 : keyNext κ T live opj = some r := by simp [keyNext, htk, hda]
    have h2 : keyEmit κ T live opj = none := by simp [keyEmit, htk, hda]
    constructor
    · intro hend
      have hne : mid ≠ [] := by
        intro h; subst h; simp [total] at hend; omega
      obtain ⟨i1, i2⟩ := spec_open_once κ (T + opj.chunk.length) r mid hq hne (by omega)
      simp only [specReqs, openK, h1, h2, List.filterMap_cons, id]
      exact ⟨i1, i2⟩
    · intro hshort
      obtain ⟨i1, i2⟩ := spec_waiting κ (T + opj.chunk.length) r mid hq (by omega)
      simp only [specReqs, openK, h1, h2, List.filterMap_cons, id]
      exact ⟨i1, i2⟩

/-- a removal naming `κ` discards whatever was pending under it: what the call delivers under `κ`
or leaves open is one of its own requests -/
theorem removal_discards {α} (κ T : Nat) (live : Option Request) (op : Op α) (hrem : κ ∈ op.rems)
    (q : Request) (h : keyEmit κ T live op = some q ∨ keyNext κ T live op = some q) :
    q ∈ takenK κ live op := by
  rcases h with h | h
  · rcases (keyEmit_cases κ T live op q h).2 with h1 | h1
    · exact absurd hrem h1.2.1
    · exact h1
  · rcases (keyNext_cases κ T live op q h).2 with h1 | h1
    · exact absurd hrem h1.2.1
    · exact h1

/-! ### distinct keys are a special case -/

theorem filter_le_one_of_nodup {β} (l : List β) (f : β → Nat) (κ : Nat) (h : (l.map f).Nodup) :
    (l.filter (fun x => f x == κ)).length ≤ 1 := by
  induction l with
  | nil => simp
  | cons x xs ih =>
    simp only [List.map_cons, List.nodup_cons] at h
    simp only [List.filter_cons]
    split
    · rename_i hx
      have : xs.filter (fun y => f y == κ) = [] := by
        rw [List.filter_eq_nil_iff]
        intro y hy hk
        apply h.1
        rw [beq_iff_eq.1 hx, ← beq_iff_eq.1 hk]
        exact List.mem_map_of_mem hy
      simp [this]
    · exact ih h.2

theorem opValidSeq_of_opValid {α} (B L : Nat) (hist : List (Op α)) (op : Op α) (h : OpValid B L hist op) :
    OpValidSeq B L hist op := by
  refine ⟨h.len, h.visible, ?_⟩
  intro κ
  have hlen : (addsK κ op).length ≤ 1 := filter_le_one_of_nodup op.reqs (·.key) κ h.nodup
  constructor
  · unfold takenK
    simp only [List.length_drop]; omega
  · intro hne
    obtain ⟨r, hr⟩ := List.exists_mem_of_ne_nil _ hne
    obtain ⟨hr1, hr2⟩ := takenK_sub κ _ op r hr
    have : openAfter κ hist = none := by
      cases ho : openAfter κ hist with
      | none => rfl
      | some r' =>
        obtain ⟨h1, h2⟩ := openAfter_mem κ hist r' ho
        exact absurd (by rw [h2, hr2]) (h.fresh r hr1 r' h1)
    unfold keptK
    rw [this]; simp

theorem allValidSeq_of_allValid {α} (B L : Nat) (hist ops : List (Op α)) (h : AllValid B L hist ops) :
    AllValidSeq B L hist ops := by
  induction ops generalizing hist with
  | nil => trivial
  | cons op rest ih =>
    simp only [AllValid] at h
    exact ⟨opValidSeq_of_opValid B L hist op h.1, ih _ h.2⟩

end Psi.Extract
