import PsiModel.Epochs
/-! Helper lemmas for `epochs_eq_runs`: alternation of rising / falling indices. -/
namespace Psi.Epochs

/-- the last sample of `xs`, or `prev` when `xs` is empty -/
def final : Bool → List Bool → Bool
  | prev, [] => prev
  | _, b :: xs => final b xs

theorem risingIdx_bounds : ∀ (xs : List Bool) (pos : Nat) (prev : Bool),
    ∀ r ∈ risingIdx pos prev xs, pos ≤ r ∧ r < pos + xs.length := by
  intro xs
  induction xs with
  | nil => intro pos prev r h; simp [risingIdx] at h
  | cons b xs ih =>
    intro pos prev r h
    simp only [risingIdx, List.mem_append] at h
    rcases h with h | h
    · split at h
      · simp at h; subst h; simp
      · simp at h
    · have := ih (pos + 1) b r h
      simp only [List.length_cons]; omega

theorem fallingIdx_bounds : ∀ (xs : List Bool) (pos : Nat) (prev : Bool),
    ∀ r ∈ fallingIdx pos prev xs, pos ≤ r ∧ r < pos + xs.length := by
  intro xs
  induction xs with
  | nil => intro pos prev r h; simp [fallingIdx] at h
  | cons b xs ih =>
    intro pos prev r h
    simp only [fallingIdx, List.mem_append] at h
    rcases h with h | h
    · split at h
      · simp at h; subst h; simp
      · simp at h
    · have := ih (pos + 1) b r h
      simp only [List.length_cons]; omega

theorem length_rel : ∀ (xs : List Bool) (pos : Nat) (prev : Bool),
    (risingIdx pos prev xs).length + prev.toNat
      = (fallingIdx pos prev xs).length + (final prev xs).toNat := by
  intro xs
  induction xs with
  | nil => intro pos prev; simp [risingIdx, fallingIdx, final]
  | cons b xs ih =>
    intro pos prev
    have := ih (pos + 1) b
    cases b <;> cases prev <;> simp [risingIdx, fallingIdx, final] at this ⊢ <;> omega

theorem head_true : ∀ (xs : List Bool) (pos r : Nat),
    (risingIdx pos true xs).head? = some r →
    ∃ f, (fallingIdx pos true xs).head? = some f ∧ f < r := by
  intro xs
  induction xs with
  | nil => intro pos r h; simp [risingIdx] at h
  | cons b xs ih =>
    intro pos r h
    cases b with
    | true =>
      simp only [risingIdx, fallingIdx, Bool.not_true, Bool.and_false, Bool.false_and,
        Bool.false_eq_true, if_false, List.nil_append] at h ⊢
      exact ih (pos + 1) r h
    | false =>
      simp only [risingIdx, Bool.false_and, Bool.false_eq_true, if_false, List.nil_append] at h
      have hm : r ∈ risingIdx (pos + 1) false xs := List.mem_of_mem_head? h
      have := risingIdx_bounds xs (pos + 1) false r hm
      refine ⟨pos, ?_, by omega⟩
      simp [fallingIdx]

theorem head_false : ∀ (xs : List Bool) (pos f : Nat),
    (fallingIdx pos false xs).head? = some f →
    ∃ r, (risingIdx pos false xs).head? = some r ∧ r < f := by
  intro xs
  induction xs with
  | nil => intro pos r h; simp [fallingIdx] at h
  | cons b xs ih =>
    intro pos f h
    cases b with
    | false =>
      simp only [risingIdx, fallingIdx, Bool.not_false, Bool.and_false, Bool.false_and,
        Bool.false_eq_true, if_false, List.nil_append] at h ⊢
      exact ih (pos + 1) f h
    | true =>
      simp only [fallingIdx, Bool.not_true, Bool.false_and, Bool.false_eq_true, if_false,
        List.nil_append] at h
      have hm : f ∈ fallingIdx (pos + 1) true xs := List.mem_of_mem_head? h
      have := fallingIdx_bounds xs (pos + 1) true f hm
      refine ⟨pos, ?_, by omega⟩
      simp [risingIdx]

theorem last_true : ∀ (xs : List Bool) (pos : Nat) (prev : Bool) (f : Nat),
    final prev xs = true → (fallingIdx pos prev xs).getLast? = some f →
    ∃ r, (risingIdx pos prev xs).getLast? = some r ∧ f < r := by
  intro xs
  induction xs with
  | nil => intro pos prev f _ h; simp [fallingIdx] at h
  | cons b xs ih =>
    intro pos prev f hf h
    simp only [final] at hf
    simp only [fallingIdx, risingIdx] at h ⊢
    cases hfs : fallingIdx (pos + 1) b xs with
    | cons f' fs' =>
      rw [hfs] at h
      have h' : (fallingIdx (pos + 1) b xs).getLast? = some f := by
        rw [hfs]; simpa [List.getLast?_append] using h
      obtain ⟨r, hr, hlt⟩ := ih (pos + 1) b f hf h'
      refine ⟨r, ?_, hlt⟩
      simp [List.getLast?_append, hr]
    | nil =>
      rw [hfs] at h
      have hl := length_rel xs (pos + 1) b
      rw [hfs, hf] at hl
      cases b <;> cases prev <;> simp at h hl
      subst h
      cases hrs : risingIdx (pos + 1) false xs with
      | nil => rw [hrs] at hl; simp at hl
      | cons r rs =>
        rw [hrs] at hl
        have : rs = [] := by simpa using hl
        subst this
        have := risingIdx_bounds xs (pos + 1) false r (by rw [hrs]; simp)
        exact ⟨r, by simp, by omega⟩

theorem last_false : ∀ (xs : List Bool) (pos : Nat) (prev : Bool) (r : Nat),
    final prev xs = false → (risingIdx pos prev xs).getLast? = some r →
    ∃ f, (fallingIdx pos prev xs).getLast? = some f ∧ r < f := by
  intro xs
  induction xs with
  | nil => intro pos prev f _ h; simp [risingIdx] at h
  | cons b xs ih =>
    intro pos prev r hf h
    simp only [final] at hf
    simp only [fallingIdx, risingIdx] at h ⊢
    cases hrs : risingIdx (pos + 1) b xs with
    | cons r' rs' =>
      rw [hrs] at h
      have h' : (risingIdx (pos + 1) b xs).getLast? = some r := by
        rw [hrs]; simpa [List.getLast?_append] using h
      obtain ⟨f, hf', hlt⟩ := ih (pos + 1) b r hf h'
      refine ⟨f, ?_, hlt⟩
      simp [List.getLast?_append, hf']
    | nil =>
      rw [hrs] at h
      have hl := length_rel xs (pos + 1) b
      rw [hrs, hf] at hl
      cases b <;> cases prev <;> simp at h hl
      subst h
      cases hfs : fallingIdx (pos + 1) true xs with
      | nil => rw [hfs] at hl; simp at hl
      | cons f fs =>
        rw [hfs] at hl
        have : fs = [] := by simpa using hl
        subst this
        have := fallingIdx_bounds xs (pos + 1) true f (by rw [hfs]; simp)
        exact ⟨f, by simp, by omega⟩

/-- `[n]` when the stream ends high, else `[]` -/
def closeTail (fin : Bool) (n : Nat) : List Nat := if fin then [n] else []

theorem runsAux_eq_zip : ∀ (xs : List Bool) (pos : Nat),
    (runsAux pos none xs
        = (risingIdx pos false xs).zip
            (fallingIdx pos false xs ++ closeTail (final false xs) (pos + xs.length))) ∧
    (∀ s, runsAux pos (some s) xs
        = (s :: risingIdx pos true xs).zip
            (fallingIdx pos true xs ++ closeTail (final true xs) (pos + xs.length))) := by
  intro xs
  induction xs with
  | nil => intro pos; simp [runsAux, risingIdx, fallingIdx, final, closeTail]
  | cons b xs ih =>
    intro pos
    obtain ⟨ih1, ih2⟩ := ih (pos + 1)
    have hlen : pos + (b :: xs).length = pos + 1 + xs.length := by simp; omega
    rw [hlen]
    cases b
    · constructor
      · simp [runsAux, risingIdx, fallingIdx, final, ih1]
      · intro s; simp [runsAux, risingIdx, fallingIdx, final, ih1]
    · constructor
      · simp [runsAux, risingIdx, fallingIdx, final, ih2]
      · intro s; simp [runsAux, risingIdx, fallingIdx, final, ih2]

/-- the body of `epochs` as a function of the array length, first sample and the two edge lists -/
def epochsCore (n : Nat) (hd : Option Bool) (start stop : List Nat) : Except Err (List (Nat × Nat)) :=
  if start.length == 0 && stop.length == 0 then
    if hd == some true then .ok [(0, n)] else .ok []
  else
    let (start, stop) :=
      if stop.length == 0 && start.length == 1 then (start, stop ++ [n])
      else if stop.length == 1 && start.length == 0 then (0 :: start, stop)
      else (start, stop)
    match start.head?, stop.head? with
    | some s0, some e0 =>
      let start := if e0 < s0 then 0 :: start else start
      match start.getLast?, stop.getLast? with
      | some sl, some el =>
        let stop := if el < sl then stop ++ [n] else stop
        if start.length == stop.length then .ok (start.zip stop) else .error .valueError
      | _, _ => .error .indexError
    | _, _ => .error .indexError

theorem epochs_eq_core (x : List Bool) :
    epochs x = epochsCore x.length x.head? (tsRising x) (tsFalling x) := rfl

theorem epochsCore_ok (n : Nat) (b fin : Bool) (rs fs : List Nat)
    (hL : rs.length + b.toNat = fs.length + fin.toNat)
    (hBr : ∀ r ∈ rs, 1 ≤ r ∧ r < n) (hBf : ∀ f ∈ fs, 1 ≤ f ∧ f < n)
    (hH : b = true → ∀ r, rs.head? = some r → ∃ f, fs.head? = some f ∧ f < r)
    (hH' : b = false → ∀ f, fs.head? = some f → ∃ r, rs.head? = some r ∧ r < f)
    (hT : fin = true → ∀ f, fs.getLast? = some f → ∃ r, rs.getLast? = some r ∧ f < r)
    (hT' : fin = false → ∀ r, rs.getLast? = some r → ∃ f, fs.getLast? = some f ∧ r < f) :
    epochsCore n (some b) rs fs
      = .ok ((if b then 0 :: rs else rs).zip (fs ++ closeTail fin n)) := by
  rcases rs with _ | ⟨r, rs'⟩ <;> rcases fs with _ | ⟨f, fs'⟩
  · -- no edge at all
    cases b <;> cases fin <;> simp [epochsCore, closeTail] at hL ⊢
  · -- only falling edges
    have h1 := hBf f (by simp)
    have h2 : ¬ f < 0 := by omega
    cases b <;> cases fin <;> simp at hL
    · subst hL
      simp [epochsCore, closeTail]
  · -- only rising edges
    have h1 := hBr r (by simp)
    have h2 : ¬ n < r := by omega
    cases b <;> cases fin <;> simp at hL
    · subst hL
      simp [epochsCore, closeTail, h2]
  · -- both kinds
    have hne : (r :: rs').getLast? = some ((r :: rs').getLast (by simp)) := List.getLast?_eq_some_getLast _
    have hnf : (f :: fs').getLast? = some ((f :: fs').getLast (by simp)) := List.getLast?_eq_some_getLast _
    generalize (r :: rs').getLast (by simp) = sl at hne
    generalize (f :: fs').getLast (by simp) = el at hnf
    have hlast0 : (0 :: r :: rs').getLast? = some sl := by
      rw [List.getLast?_cons_cons]; exact hne
    have hfr : f < r ↔ b = true := by
      cases b
      · obtain ⟨r0, h1, h2⟩ := hH' rfl f rfl
        simp at h1; subst h1; simp; omega
      · obtain ⟨f0, h1, h2⟩ := hH rfl r rfl
        simp at h1; subst h1; simpa using h2
    have hel : el < sl ↔ fin = true := by
      cases fin
      · obtain ⟨f0, h1, h2⟩ := hT' rfl sl hne
        rw [hnf] at h1; simp at h1; subst h1; simp; omega
      · obtain ⟨r0, h1, h2⟩ := hT rfl el hnf
        rw [hne] at h1; simp at h1; subst h1; simpa using h2
    cases b <;> cases fin <;> simp at hfr hel hL <;>
      simp [epochsCore, hfr, hel, hne, hnf, hlast0, closeTail, Nat.not_lt.mpr] <;> omega

end Psi.Epochs
