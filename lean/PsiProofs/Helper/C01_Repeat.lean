import PsiModel.Stim
import PsiProofs.Helper.C01_Gate
/-! `repeat()`: grid placement of the waveform. -/
namespace Psi.Stim
open Psi.Chunk

variable {α : Type}

theorem flatten_replicate_getElem? (row : List α) (m k : Nat) :
    ((List.replicate m row).flatten)[k]? = if k < m * row.length then row[k % row.length]? else none := by
  induction m generalizing k with
  | zero => simp
  | succ m ih =>
    rw [List.replicate_succ, List.flatten_cons, Nat.succ_mul]
    by_cases hk : k < row.length
    · rw [List.getElem?_append_left hk, if_pos (by omega), Nat.mod_eq_of_lt hk]
    · rw [List.getElem?_append_right (by omega), ih]
      have hmod : k % row.length = (k - row.length) % row.length := Nat.mod_eq_sub_mod (by omega)
      rw [hmod]
      by_cases c : k - row.length < m * row.length
      · rw [if_pos c, if_pos (by omega)]
      · rw [if_neg c, if_neg (by omega)]

theorem flatten_replicate_length (row : List α) (m : Nat) :
    ((List.replicate m row).flatten).length = m * row.length := by
  induction m with
  | zero => simp
  | succ m ih => rw [List.replicate_succ, List.flatten_cons, List.length_append, ih, Nat.succ_mul]; omega

/-- **`repeat()`**: the result has `(n + skip) * period` samples; sample `k` is the waveform
sample `k % period - delay` inside the occupied part of every non-skipped period, zero elsewhere. -/
theorem repeatWave_spec [Sample α] (p : RepP) (w l : List α) (h : repeatWave p w = .ok l) :
    l.length = (p.n + p.skip) * p.period ∧ ∀ k, fixedAt l k = repeatAt p w k := by
  unfold repeatWave at h
  split at h
  · cases h
  · rename_i hg
    have hfit : w.length + p.delay ≤ p.period := by omega
    simp only [Except.ok.injEq] at h
    subst h
    have hrow : (List.replicate p.delay (Sample.zero : α) ++ w
        ++ List.replicate (p.period - p.delay - w.length) Sample.zero).length = p.period := by
      simp; omega
    constructor
    · rw [List.length_append, flatten_replicate_length, flatten_replicate_length, hrow]
      simp only [List.length_replicate]
      rw [Nat.add_mul]; omega
    · intro k
      unfold fixedAt repeatAt
      by_cases hz : k < p.skip * p.period
      · -- inside the skipped periods
        rw [List.getElem?_append_left (by rw [flatten_replicate_length]; simpa using hz)]
        rw [flatten_replicate_getElem?]
        simp only [List.length_replicate]
        rw [if_pos hz]
        have hpos : 0 < p.period := by
          rcases Nat.eq_zero_or_pos p.period with h0 | h0
          · rw [h0] at hz; simp at hz
          · exact h0
        rw [List.getElem?_replicate, if_pos (Nat.mod_lt _ hpos)]
        have : ¬ (p.skip ≤ k / p.period) := by
          rw [Nat.le_div_iff_mul_le hpos]; omega
        rw [if_neg (by intro c; exact this c.2.1)]
      · rw [List.getElem?_append_right (by rw [flatten_replicate_length]; simpa using hz)]
        rw [flatten_replicate_length, flatten_replicate_getElem?, hrow]
        simp only [List.length_replicate]
        by_cases hk : k - p.skip * p.period < p.n * p.period
        · rw [if_pos hk]
          have hpos : 0 < p.period := by
            rcases Nat.eq_zero_or_pos p.period with h0 | h0
            · rw [h0] at hk; simp at hk
            · exact h0
          have hmod : (k - p.skip * p.period) % p.period = k % p.period := by
            rw [Nat.mul_comm]; exact Nat.sub_mul_mod (by rw [Nat.mul_comm]; omega)
          rw [hmod]
          have hj := Nat.mod_lt k hpos
          have hlt : k < (p.n + p.skip) * p.period := by rw [Nat.add_mul]; omega
          have hdiv : p.skip ≤ k / p.period := by rw [Nat.le_div_iff_mul_le hpos]; omega
          by_cases c1 : k % p.period < p.delay
          · rw [List.getElem?_append_left (by simp; omega), List.getElem?_append_left (by simp; omega)]
            rw [List.getElem?_replicate, if_pos c1, if_neg (by omega)]
          · rw [if_pos ⟨hlt, hdiv, by omega⟩]
            by_cases c2 : k % p.period < p.delay + w.length
            · rw [List.getElem?_append_left (by simp; omega), List.getElem?_append_right (by simp; omega)]
              simp only [List.length_replicate]
              rfl
            · rw [List.getElem?_append_right (by simp; omega)]
              rw [List.getElem?_replicate, if_pos (by simp; omega)]
              unfold fixedAt
              rw [List.getElem?_eq_none (by omega)]
        · rw [if_neg hk]
          have : ¬ k < (p.n + p.skip) * p.period := by rw [Nat.add_mul]; omega
          rw [if_neg (by intro c; exact this c.1)]

end Psi.Stim
