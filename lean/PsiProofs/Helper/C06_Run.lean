import PsiProofs.Helper.C06_Notes
/-!
Helper for C06 (composition): the joint invariant over whole histories, and what the extractor
has delivered under one dictionary key in terms of the notification stream (C05's per-request
refinement `extract_refines_spec_seq` read through the ghost of the joint invariant).
-/
namespace Psi.E2E
open Psi.Queue Psi.Extract

/-! ### the logs only grow -/

theorem tick_added_prefix {q q' : QState} {c : Cell} (h : tick q = .ok (c, q')) : q.added <+: q'.added := by
  cases tick_cases h with
  | paused _ _ hs => subst hs; exact List.prefix_refl _
  | play src _ _ _ he =>
    have := (emitSrc_same q src).2.2.2
    rw [← he] at this
    simp only at this
    rw [this]; exact List.prefix_refl _
  | gap _ _ _ _ hs => subst hs; exact List.prefix_refl _
  | dry _ _ _ _ _ hs => subst hs; exact List.prefix_refl _
  | start s1 src _ _ _ hn _ _ he =>
    obtain ⟨info, g, ha, _⟩ := nextTrial_obs hn
    have := (emitSrc_same s1 src).2.2.2
    rw [← he] at this
    simp only at this
    rw [this, ha]; exact List.prefix_append _ _

theorem runTicks_added_prefix (n : Nat) {q q' : QState} {cs : List Cell}
    (h : runTicks n q = .ok (cs, q')) : q.added <+: q'.added := by
  induction n generalizing q cs with
  | zero => simp [runTicks] at h; obtain ⟨_, rfl⟩ := h; exact List.prefix_refl _
  | succ n ih =>
    rw [runTicks] at h
    cases ht : tick q with
    | error e => simp [ht] at h
    | ok r =>
      obtain ⟨c, s1⟩ := r
      simp only [ht] at h
      cases hr : runTicks n s1 with
      | error e => simp [hr] at h
      | ok r2 =>
        obtain ⟨cs2, s2⟩ := r2
        simp only [hr, Except.ok.injEq, Prod.mk.injEq] at h
        obtain ⟨_, rfl⟩ := h
        exact (tick_added_prefix ht).trans (ih hr)

theorem jstep_mono (c : Cfg) {J J' : JState} {ev : Ev} (hw : WF J.q) (h : jstep c J ev = .ok J') :
    WF J'.q ∧ J.q.added <+: J'.q.added := by
  cases ev with
  | q op =>
    cases op with
    | pop n =>
      simp only [jstep] at h
      split at h
      · cases h
      · rename_i out q' hp
        simp only [Except.ok.injEq] at h; subst h
        have hn : 0 < n := by
          rcases Nat.eq_zero_or_pos n with h0 | h0
          · subst h0; simp [popBuffer] at hp
          · exact h0
        rw [popBuffer_refines hw hn] at hp
        exact ⟨(runTicks_inv n hw hp).1, runTicks_added_prefix n hp⟩
    | pause m =>
      cases m with
      | none =>
        simp only [jstep] at h
        split at h
        · simp only [Except.ok.injEq] at h; subst h
          exact ⟨WF_pause none hw, by simp [pause]⟩
        · cases h
      | some m =>
        simp only [jstep] at h
        split at h
        · cases h
        · split at h
          · cases h
          · rename_i hm _
            simp only [Except.ok.injEq] at h; subst h
            exact ⟨WF_pause (some m) hw, by
              simp only; rw [(pause_some_fields m J.q (by omega)).1]; exact List.prefix_refl _⟩
    | resume m =>
      cases m with
      | none =>
        simp only [jstep, Except.ok.injEq] at h; subst h
        exact ⟨WF_resume none hw, by simp [resume]⟩
      | some m =>
        simp only [jstep] at h
        split at h
        · cases h
        · split at h
          · cases h
          · simp only [Except.ok.injEq] at h; subst h
            exact ⟨WF_resume (some m) hw, by simp [resume]⟩
  | acq n vis complete =>
    simp only [jstep] at h
    split at h
    · cases h
    · split at h
      · cases h
      · split at h
        · cases h
        · simp only [Except.ok.injEq] at h; subst h
          exact ⟨hw, List.prefix_refl _⟩

theorem jrun_mono (c : Cfg) (evs : List Ev) {J J' : JState} (hw : WF J.q) (h : jrun c evs J = .ok J') :
    J.q.added <+: J'.q.added := by
  induction evs generalizing J with
  | nil => simp only [jrun, Except.ok.injEq] at h; subst h; exact List.prefix_refl _
  | cons ev evs ih =>
    simp only [jrun] at h
    split at h
    · cases h
    · rename_i J1 hs
      obtain ⟨hw1, p1⟩ := jstep_mono c hw hs
      exact p1.trans (ih hw1 h)

/-! ### the joint invariant over a history -/

/-- the property's side conditions on a notified trial, used where a `pause(m)` occurs: the
trial occupies at least its waveform on the grid, and the epoch covers the stimulus -/
def SideOK (c : Cfg) (added : List Info) : Prop :=
  ∀ i ∈ added, (i.len : Int) ≤ i.dur ∧ i.dur + (c.P : Int) ≤ (c.L : Int)

def isPause : Ev → Bool
  | .q (.pause (some _)) => true
  | _ => false

theorem SideOK_prefix {c : Cfg} {a b : List Info} (h : SideOK c b) (hp : a <+: b) : SideOK c a :=
  fun i hi => h i (hp.subset hi)

theorem JInv_step (c : Cfg) (henc : EncInj c) {J J' : JState} (ev : Ev) (inv : JInv c J)
    (h : jstep c J ev = .ok J') (hside : isPause ev = true → SideOK c J.q.added) : JInv c J' := by
  cases ev with
  | q op =>
    cases op with
    | pop n =>
      simp only [jstep] at h
      split at h
      · cases h
      · rename_i out q' hp
        simp only [Except.ok.injEq] at h; subst h
        exact (JInv_pop c henc inv hp).1
    | pause m =>
      cases m with
      | none =>
        simp only [jstep] at h
        split at h
        · rename_i hi
          simp only [Except.ok.injEq] at h; subst h
          exact JInv_quiet c inv (QInv_pause_none inv.q hi) (by simp [pause]) (by simp [pause])
            ⟨0, by simp [zeros]⟩
        · cases h
      | some m =>
        simp only [jstep] at h
        split at h
        · cases h
        · split at h
          · cases h
          · rename_i hm hacq
            simp only [Except.ok.injEq] at h; subst h
            exact (JInv_pause_some c henc m inv (by omega) (by omega) (hside rfl)).1
    | resume m =>
      cases m with
      | none =>
        simp only [jstep, Except.ok.injEq] at h; subst h
        exact JInv_quiet c inv (QInv_resume_none inv.q) (by simp [resume]) (by simp [resume])
          ⟨0, by simp [zeros]⟩
      | some m =>
        simp only [jstep] at h
        split at h
        · cases h
        · split at h
          · cases h
          · rename_i hm hg
            simp only [Except.ok.injEq] at h; subst h
            refine JInv_quiet c inv (QInv_resume_some inv.q m (by omega) ?_) (by simp [resume])
              (by simp [resume]) ⟨_, rfl⟩
            by_cases he : m = J.q.samples
            · exact Or.inl he
            · right
              cases hid : idle J.q with
              | true => rfl
              | false => exact absurd ⟨he, hid⟩ hg
  | acq n vis complete =>
    simp only [jstep] at h
    split at h
    · cases h
    · rename_i hn
      split at h
      · cases h
      · rename_i hvis
        split at h
        · cases h
        · rename_i hlate
          simp only [Except.ok.injEq] at h; subst h
          have hvis' : ((J.pend.take vis).filterMap (Note.req? c)).all
              (fun r => decide ((lookbackStart c.B J.eops : Int) ≤ r.s)) = true := by
            simpa using hvis
          have hlate' : (J.pend.drop vis).all (lateRemovalOk c (J.acq + n)) = true := by
            simpa using hlate
          rw [List.all_eq_true] at hvis' hlate'
          exact JInv_acq c n vis _ inv rfl rfl rfl (by omega)
            (fun r hr => by simpa using hvis' r hr)
            (fun r hr => by simpa [lateRemovalOk] using hlate' _ hr)

theorem JInv_run (c : Cfg) (henc : EncInj c) (evs : List Ev) {J J' : JState} (inv : JInv c J)
    (h : jrun c evs J = .ok J') (hside : (∃ ev ∈ evs, isPause ev = true) → SideOK c J'.q.added) :
    JInv c J' := by
  induction evs generalizing J with
  | nil => simp only [jrun, Except.ok.injEq] at h; subst h; exact inv
  | cons ev evs ih =>
    have hp := jrun_mono c (ev :: evs) inv.q.wf h
    simp only [jrun] at h
    split at h
    · cases h
    · rename_i J1 hs
      have inv1 : JInv c J1 := JInv_step c henc ev inv hs
        (fun hpz => SideOK_prefix (hside ⟨ev, List.mem_cons_self, hpz⟩) hp)
      exact ih inv1 h (fun ⟨e, he, hz⟩ => hside ⟨e, List.mem_cons_of_mem _ he, hz⟩)

/-! ### what was delivered under one key -/

/-- **Accounting.**  Under any dictionary key, the extractor has delivered exactly the epoch of the
outstanding trial of that key among the notifications it has seen — if the acquired stream has
reached its last sample —, and nothing else: every earlier trial with the same key was cancelled
and its removal seen in time. -/
theorem deliveries_key (c : Cfg) {J : JState} (inv : JInv c J) {seen : List Note} (g : GInv c J seen)
    (κ : Nat) : (deliveries c.B J.eops κ).flatten =
      (((altEnd none (onKey c κ seen)).filter (fun i => doneAt (reqOf c i) J.acq)).map
        (fun i => epochOf (streamOf J.eops) (reqOf c i))).toList := by
  rw [extract_refines_spec_seq c.B c.L J.eops inv.n.valid κ, flatten_emit, g.acc κ]
  cases (altEnd none (onKey c κ seen)).filter (fun i => doneAt (reqOf c i) J.acq) <;> rfl

end Psi.E2E
