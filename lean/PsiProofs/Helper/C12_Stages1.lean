import PsiProofs.Helper.C12_Run
/-! Generalised (any carry state) run lemmas of the stateless / simple-state stages. -/
namespace Psi.Stages
variable {α β ρ χ μ S τ : Type}

theorem stream_cons (ann : Ann ρ χ μ) (s : Int) (c : List α) (cs : List (List α)) :
    stream ann s (c :: cs) = { data := c, s0 := s, ann := ann } :: stream ann (s + c.length) cs := rfl

/-! ### discard -/
theorem discard_run (ann : Ann ρ χ μ) : ∀ (cs : List (List α)) (st : Nat) (s : Int),
    ∃ bs, outputs (runStage discardStep st (stream ann s cs)) = .ok bs
      ∧ Emits bs (cs.flatten.drop st) 1 (s + st) ann := by
  intro cs
  induction cs with
  | nil => intro st s; exact ⟨[], rfl, by simpa using Emits.nil _ _ _⟩
  | cons c cs ih =>
    intro st s
    rw [stream_cons]
    by_cases h0 : st = 0
    · subst h0
      refine run_emit_one (s' := 0) (t' := s + c.length + (0 : Nat)) { data := c, s0 := s, ann := ann }
        (by simp [discardStep]) (ih 0 _) ?_ rfl ?_ ?_
      · simp
      · simp [PD.len]
      · simp
    · by_cases hle : c.length ≤ st
      · refine run_emit_none (s' := st - c.length) (by simp [discardStep, h0, PD.len, hle]) ?_
        have := ih (st - c.length) (s + c.length)
        have e1 : s + (c.length : Int) + ((st - c.length : Nat) : Int) = s + st := by omega
        have e2 : (c :: cs).flatten.drop st = cs.flatten.drop (st - c.length) := by
          simp [List.drop_append, List.drop_eq_nil_of_le hle]
        rw [e1] at this; rw [e2]; exact this
      · refine run_emit_one (s' := 0) (t' := s + c.length + (0 : Nat))
          { data := c.drop st, s0 := s + st, ann := ann }
          (by simp [discardStep, h0, PD.len, hle, PD.dropN]) (ih 0 _) rfl rfl ?_ ?_
        · simp [PD.len]; omega
        · simp [List.drop_append_of_le_length (Nat.le_of_lt (Nat.lt_of_not_le hle))]

/-! ### transform with a pointwise function, mc_reference -/
theorem pointwise_run (g : α → β) (ann : Ann ρ χ μ) : ∀ (cs : List (List α)) (s : Int),
    ∃ bs, outputs (runStage (transformStep (pointwise g)) () (stream ann s cs)) = .ok bs
      ∧ Emits bs (cs.flatten.map g) 1 s ann := by
  intro cs
  induction cs with
  | nil => intro s; exact ⟨[], rfl, by simpa using Emits.nil _ _ _⟩
  | cons c cs ih =>
    intro s
    rw [stream_cons]
    refine run_emit_one (s' := ()) (t' := s + c.length) { data := c.map g, s0 := s, ann := ann }
      (by simp [transformStep, pointwise, PD.withData]) (ih _) rfl rfl ?_ ?_
    · simp [PD.len]
    · simp

/-! ### iirfilter -/
theorem iir_run (m : Mealy α β S) (lf : S → List α → List β × S) (hlf : LfilterIs lf m) (init : α → S)
    (ann : Ann ρ χ μ) :
    ∀ (cs : List (List α)) (st : S) (s : Int),
    ∃ bs, outputs (runStage (iirStep lf init) (some st) (stream ann s cs)) = .ok bs
      ∧ Emits bs (m.run st cs.flatten).1 1 s ann := by
  intro cs
  induction cs with
  | nil => intro st s; exact ⟨[], rfl, by simpa [Mealy.run] using Emits.nil _ _ _⟩
  | cons c cs ih =>
    intro st s
    rw [stream_cons]
    refine run_emit_one (s' := some (m.run st c).2) (t' := s + c.length)
      { data := (m.run st c).1, s0 := s, ann := ann }
      (by simp [iirStep, iirInit, PD.withData, lfGuard_eq hlf]) (ih _ _) rfl rfl ?_ ?_
    · simp [PD.len, Mealy.run_length]
    · simp [Mealy.run_append]

/-! ### derivative -/
theorem derivative_run (init : α) (d : α → α → β) (ann : Ann ρ χ μ) :
    ∀ (cs : List (List α)) (a : α) (s : Int),
    ∃ bs, outputs (runStage (derivativeStep init d) (some { data := [a], s0 := s - 1, ann := ann })
        (stream ann s cs)) = .ok bs
      ∧ Emits bs (diffs d (a :: cs.flatten)) 1 s ann := by
  intro cs
  induction cs with
  | nil => intro a s; exact ⟨[], rfl, by simpa [diffs] using Emits.nil _ _ _⟩
  | cons c cs ih =>
    intro a s
    rw [stream_cons]
    refine run_emit_one (s' := some { data := [lastOr a c], s0 := s + c.length - 1, ann := ann })
      (t' := s + c.length) { data := diffs d (a :: c), s0 := s, ann := ann }
      ?_ (ih _ _) rfl rfl ?_ ?_
    · have hcat : cat ({ data := [a], s0 := s - 1, ann := ann } : PD α ρ χ μ) { data := c, s0 := s, ann := ann }
          = .ok { data := a :: c, s0 := s - 1, ann := ann } := by
        simp [cat, PD.len]
      simp only [derivativeStep, hcat, PD.lastN, PD.len]
      have h1 : (a :: c).length - 1 = c.length := by simp
      rw [h1, drop_length_cons]
      have h2 : ((a :: c).length : Int) = c.length + 1 := by simp
      congr 3
      · congr 1; omega
      · rw [h2]; congr 1; omega
    · simp [PD.len, diffs_length]
    · simp [diffs_append]

end Psi.Stages
