import PsiModel.Stim
import PsiProofs.Helper.C01_Env
/-! `SquareWaveFactory.next` (with fix 3): the stride loop paints exactly the samples whose
absolute index `k` has `k % cycle < on`. -/
namespace Psi.Stim
open Psi.Chunk

variable {α : Type}

theorem setRange_length (l : List α) (a b : Nat) (v : α) : (setRange l a b v).length = l.length := by
  simp [setRange]; omega

theorem setRange_getElem? (l : List α) (a b : Nat) (v : α) (i : Nat) :
    (setRange l a b v)[i]? = (l[i]?).map fun x => if a ≤ i ∧ i < b then v else x := by
  by_cases hi : i < l.length
  · rw [List.getElem?_eq_getElem hi]
    unfold setRange
    by_cases h1 : i < a
    · rw [List.getElem?_append_left (by simp; omega), List.getElem?_append_left (by simp; omega)]
      rw [List.getElem?_take, if_pos h1, List.getElem?_eq_getElem hi]
      simp only [Option.map_some]
      rw [if_neg (by omega)]
    · by_cases h2 : i < min b l.length
      · rw [List.getElem?_append_left (by simp; omega), List.getElem?_append_right (by simp; omega)]
        rw [List.getElem?_replicate, if_pos (by simp; omega)]
        simp only [Option.map_some]
        rw [if_pos (by omega)]
      · rw [List.getElem?_append_right (by simp; omega)]
        rw [List.getElem?_drop]
        simp only [List.length_append, List.length_take, List.length_replicate, Option.map_some]
        have : max a (min b l.length) + (i - (min a l.length + (min b l.length - a))) = i := by omega
        rw [this, List.getElem?_eq_getElem hi, if_neg (by omega)]
  · rw [List.getElem?_eq_none (by omega : l.length ≤ i)]
    apply List.getElem?_eq_none
    rw [setRange_length]; omega

/-- Sample `i` of the chunk is painted by a cycle that starts at chunk-relative position `o + j*cycle`. -/
def painted (cycle on : Nat) (o : Int) (i : Nat) : Prop :=
  o ≤ (i : Int) ∧ ((i : Int) - o) % (cycle : Int) < (on : Int)

instance (cycle on : Nat) (o : Int) (i : Nat) : Decidable (painted cycle on o i) := by
  unfold painted; infer_instance

theorem painted_step (cycle on : Nat) (hc : 0 < cycle) (o : Int) (i : Nat) :
    painted cycle on o i ↔
      painted cycle on (o + cycle) i ∨ ((max o 0).toNat ≤ i ∧ i < (max (o + on) 0).toNat) := by
  unfold painted
  have hcz : (0 : Int) < cycle := by omega
  by_cases h1 : o + (cycle : Int) ≤ i
  · have e : ((i : Int) - (o + cycle)) % (cycle : Int) = ((i : Int) - o) % (cycle : Int) := by
      have : (i : Int) - (o + cycle) = ((i : Int) - o) - cycle := by omega
      rw [this, Int.sub_emod_right]
    rw [e]
    have hlt := Int.emod_lt_of_pos ((i : Int) - o) hcz
    have hnn := Int.emod_nonneg ((i : Int) - o) (by omega : (cycle : Int) ≠ 0)
    constructor
    · intro ⟨_, h⟩; exact Or.inl ⟨h1, h⟩
    · rintro (⟨_, h⟩ | ⟨h2, h3⟩)
      · exact ⟨by omega, h⟩
      · exact ⟨by omega, by omega⟩
  · by_cases h0 : o ≤ (i : Int)
    · have e : ((i : Int) - o) % (cycle : Int) = (i : Int) - o :=
        Int.emod_eq_of_lt (by omega) (by omega)
      rw [e]
      constructor
      · intro ⟨_, h⟩; exact Or.inr ⟨by omega, by omega⟩
      · rintro (⟨h, _⟩ | ⟨h2, h3⟩)
        · omega
        · exact ⟨h0, by omega⟩
    · constructor
      · intro ⟨h, _⟩; omega
      · rintro (⟨h, _⟩ | ⟨h2, h3⟩) <;> omega

theorem sqwLoop_getElem? (cycle on : Nat) (hc : 0 < cycle) (high : α) (n : Nat) :
    ∀ (fuel : Nat) (o : Int) (w : List α), w.length = n → (n : Int) ≤ o + (fuel : Int) * cycle →
      ∀ i, (sqwLoop cycle on high n fuel o w)[i]? =
        (w[i]?).map fun x => if painted cycle on o i then high else x := by
  intro fuel
  induction fuel with
  | zero =>
    intro o w hw hf i
    simp only [sqwLoop]
    by_cases hi : i < w.length
    · rw [List.getElem?_eq_getElem hi]
      simp only [Option.map_some]
      rw [if_neg]
      unfold painted
      omega
    · rw [List.getElem?_eq_none (by omega)]; rfl
  | succ fuel ih =>
    intro o w hw hf i
    simp only [sqwLoop]
    by_cases ho : o < (n : Int)
    · rw [if_pos ho]
      have hf' : (n : Int) ≤ (o + cycle) + (fuel : Int) * cycle := by
        have : ((fuel + 1 : Nat) : Int) * (cycle : Int) = (fuel : Int) * cycle + cycle := by
          rw [Int.natCast_add, Int.add_mul]; simp
        omega
      rw [ih (o + cycle) _ (by rw [setRange_length]; exact hw) hf' i, setRange_getElem?]
      cases w[i]? with
      | none => rfl
      | some x =>
        simp only [Option.map_some]
        have := painted_step cycle on hc o i
        by_cases p1 : painted cycle on (o + cycle) i <;>
          by_cases p2 : ((max o 0).toNat ≤ i ∧ i < (max (o + on) 0).toNat) <;>
          by_cases p0 : painted cycle on o i <;>
          simp only [p0, p1, p2, if_true, if_false] <;>
          first
            | rfl
            | exact absurd (this.mpr (Or.inl p1)) p0
            | exact absurd (this.mpr (Or.inr p2)) p0
            | exact ((this.mp p0).elim p1 p2).elim
    · rw [if_neg ho]
      by_cases hi : i < w.length
      · rw [List.getElem?_eq_getElem hi]
        simp only [Option.map_some]
        rw [if_neg]
        unfold painted
        omega
      · rw [List.getElem?_eq_none (by omega)]; rfl

/-- **Fragment theorem for `SquareWaveFactory.next`**. -/
theorem squareWaveNext_eq_slice [Sample α] (cycle on : Nat) (hc : 0 < cycle) (high : α) (off n : Nat) :
    squareWaveNext cycle on high off n = slice (sqwAt cycle on high) off n := by
  apply List.ext_getElem?
  intro i
  rw [slice_getElem?]
  unfold squareWaveNext
  simp only []
  have hcz : (0 : Int) < cycle := by omega
  have hm0 := Int.emod_nonneg (off : Int) (by omega : (cycle : Int) ≠ 0)
  have hm1 := Int.emod_lt_of_pos (off : Int) hcz
  have hfuel : (n : Int) ≤ -((off : Int) % cycle) + ((n + 1 : Nat) : Int) * cycle := by
    have h1 : ((n + 1 : Nat) : Int) * (cycle : Int) = (n : Int) * cycle + cycle := by
      rw [Int.natCast_add, Int.add_mul]; simp
    have h2 : (n : Int) ≤ (n : Int) * cycle := by
      have := Int.mul_le_mul_of_nonneg_left (show (1 : Int) ≤ cycle by omega) (show (0 : Int) ≤ n by omega)
      simpa using this
    omega
  rw [sqwLoop_getElem? cycle on hc high n (n + 1) _ _ (by simp) hfuel i]
  rw [List.getElem?_replicate]
  by_cases hi : i < n
  · rw [if_pos hi, if_pos hi]
    simp only [Option.map_some, sqwAt]
    have key : painted cycle on (-((off : Int) % cycle)) i ↔ (off + i) % cycle < on := by
      unfold painted
      have e : ((i : Int) - -((off : Int) % cycle)) % (cycle : Int) = (((off + i) % cycle : Nat) : Int) := by
        rw [Int.natCast_emod, Int.natCast_add]
        have : (i : Int) - -((off : Int) % cycle) = (i : Int) + (off : Int) % cycle := by omega
        rw [this, Int.add_emod_emod, Int.add_comm]
      rw [e]
      constructor
      · intro ⟨_, h⟩; omega
      · intro h; exact ⟨by omega, by omega⟩
    by_cases p : painted cycle on (-((off : Int) % cycle)) i
    · rw [if_pos p, if_pos (key.mp p)]
    · rw [if_neg p, if_neg (fun h => p (key.mpr h))]
  · rw [if_neg hi, if_neg hi]; rfl

end Psi.Stim
