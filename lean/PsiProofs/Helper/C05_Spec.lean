import PsiProofs.Helper.C05_Run
/-! Helper for C05: consequences of the per-request spec (pure list reasoning), the done flag. -/
namespace Psi.Extract

theorem emit_false_flatten {α} (S : List α) (r : Request) {β} (l : List β) :
    ((l.map (fun _ => false)).map (emit S r)).flatten = [] := by
  induction l with
  | nil => rfl
  | cons x xs ih => simpa [emit] using ih

theorem spec_once {α} (S : List α) (r : Request) (seg post : List (Op α)) (T : Nat)
    (hne : seg ≠ []) (hnorem : ∀ o ∈ seg, r.key ∉ o.rems)
    (hend : r.s.toNat + r.len ≤ T + total seg) :
    ((specDeliver r T (seg ++ post)).map (emit S r)).flatten = [epochOf S r] := by
  induction seg generalizing T with
  | nil => exact absurd rfl hne
  | cons o seg' ih =>
    have hk : r.key ∉ o.rems := hnorem o List.mem_cons_self
    simp only [List.cons_append, specDeliver, hk, if_false]
    by_cases hle : r.s.toNat + r.len ≤ T + o.chunk.length
    · simp only [hle, if_true, List.map_cons, List.flatten_cons, emit_false_flatten]
      simp [emit]
    · simp only [hle, if_false, List.map_cons, List.flatten_cons]
      have hne' : seg' ≠ [] := by
        intro h; subst h; simp [total] at hend; omega
      rw [ih (T + o.chunk.length) hne' (fun o' ho' => hnorem o' (List.mem_cons_of_mem _ ho'))
        (by simp [total] at hend ⊢; omega)]
      simp [emit]

theorem spec_never {α} (S : List α) (r : Request) (seg post : List (Op α)) (opi : Op α) (T : Nat)
    (hrem : r.key ∈ opi.rems) (hearly : seg = [] ∨ T + total seg < r.s.toNat + r.len) :
    ((specDeliver r T (seg ++ opi :: post)).map (emit S r)).flatten = [] := by
  induction seg generalizing T with
  | nil =>
    simp only [List.nil_append, specDeliver, hrem, if_true, List.map_cons, List.flatten_cons,
      emit_false_flatten]
    simp [emit]
  | cons o seg' ih =>
    have hlt : T + total (o :: seg') < r.s.toNat + r.len := by
      rcases hearly with h | h
      · cases h
      · exact h
    simp only [List.cons_append, specDeliver]
    by_cases hk : r.key ∈ o.rems
    · simp only [hk, if_true, List.map_cons, List.flatten_cons]
      have := emit_false_flatten S r (seg' ++ opi :: post)
      simp [emit, this]
    · have hle : ¬ r.s.toNat + r.len ≤ T + o.chunk.length := by simp [total] at hlt; omega
      simp only [hk, hle, if_false, List.map_cons, List.flatten_cons]
      rw [ih (T + o.chunk.length) (Or.inr (by simp [total] at hlt ⊢; omega))]
      simp [emit]

/-- after the delivery (or a removal) the spec no longer looks at the removal lists -/
theorem spec_tail_irrelevant {α} (r : Request) (seg post post' : List (Op α)) (T : Nat)
    (hne : seg ≠ []) (hnorem : ∀ o ∈ seg, r.key ∉ o.rems)
    (hend : r.s.toNat + r.len ≤ T + total seg) (hlen : post'.length = post.length) :
    specDeliver r T (seg ++ post') = specDeliver r T (seg ++ post) := by
  induction seg generalizing T with
  | nil => exact absurd rfl hne
  | cons o seg' ih =>
    have hk : r.key ∉ o.rems := hnorem o List.mem_cons_self
    simp only [List.cons_append, specDeliver, hk, if_false]
    by_cases hle : r.s.toNat + r.len ≤ T + o.chunk.length
    · simp only [hle, if_true]
      congr 1
      simp only [List.map_append]
      congr 1
      apply List.ext_getElem
      · simp [hlen]
      · intro i h1 h2; simp
    · simp only [hle, if_false]
      have hne' : seg' ≠ [] := by
        intro h; subst h; simp [total] at hend; omega
      rw [ih (T + o.chunk.length) hne' (fun o' ho' => hnorem o' (List.mem_cons_of_mem _ ho'))
        (by simp [total] at hend ⊢; omega)]

/-! ### the done callback -/

def Outcome.fired {α} : Outcome α → Bool
  | .ok _ f => f
  | _ => false

theorem call_done {α} (st : State α) (c : Call α) :
    ((call st c).2.fired = true →
        st.doneFired = false ∧ (call st c).1.doneFired = true ∧ c.complete = true ∧
        (call st c).1.pending = [] ∧ (call st c).1.queue = [] ∧ c.late = []) ∧
    (st.doneFired = true → (call st c).1.doneFired = true ∧ (call st c).2.fired = false) := by
  unfold call
  by_cases hd : st.dead = true
  · simp [hd, Outcome.fired]
  · simp only [hd, Bool.false_eq_true, if_false]
    split
    · simp [Outcome.fired]
    · split
      · simp [Outcome.fired]
      · simp only [Outcome.fired]
        constructor
        · intro h
          simp only [Bool.and_eq_true, Bool.not_eq_true', List.isEmpty_iff] at h
          simp [h.1.1.1, h.1.1.2, h.1.2, h.2]
        · intro h
          simp [h]

theorem step_done {α} (st : State α) (op : Op α) :
    ((step st op).2.fired = true →
        st.doneFired = false ∧ (step st op).1.doneFired = true ∧ op.complete = true ∧
        (step st op).1.pending = [] ∧ (step st op).1.queue = []) ∧
    (st.doneFired = true → (step st op).1.doneFired = true ∧ (step st op).2.fired = false) := by
  have h := call_done st { op with late := [] }
  exact ⟨fun hf => by obtain ⟨a, b, c, d, e, _⟩ := h.1 hf; exact ⟨a, b, c, d, e⟩, h.2⟩

theorem done_count {α} (st : State α) (ops : List (Op α)) :
    ((run st ops).2.filter Outcome.fired).length ≤ (if st.doneFired then 0 else 1) := by
  induction ops generalizing st with
  | nil => simp [run]
  | cons op rest ih =>
    simp only [run, List.filter_cons]
    have hs := step_done st op
    have ih' := ih (step st op).1
    by_cases hf : (step st op).2.fired = true
    · obtain ⟨h1, h2, _, _⟩ := hs.1 hf
      simp only [hf, if_true, List.length_cons, h1, Bool.false_eq_true, if_false]
      simp only [h2, if_true] at ih'
      omega
    · have hf' : (step st op).2.fired = false := by simpa using hf
      simp only [hf', Bool.false_eq_true, if_false]
      by_cases hdf : st.doneFired = true
      · simp only [(hs.2 hdf).1, if_true] at ih'
        simp only [hdf, if_true]; exact ih'
      · have hdf' : st.doneFired = false := by simpa using hdf
        simp only [hdf', Bool.false_eq_true, if_false]
        split at ih' <;> omega

end Psi.Extract
