import PsiProofs.Helper.C07_Lemmas
/-! Piecewise-linear interpolation over a frequency-sorted table (model of `interp1d`), over ℝ. -/
namespace Psi.Db

/-- strictly increasing frequencies -/
def SortedTbl (t : List (ℝ × ℝ)) : Prop := t.Pairwise (fun a b => a.1 < b.1)

theorem interpSeg_two (a b : ℝ × ℝ) (x : ℝ) :
    interpSeg [a, b] x = .val (seg a.1 a.2 b.1 b.2 x) := by
  obtain ⟨a1, a2⟩ := a; obtain ⟨b1, b2⟩ := b; simp [interpSeg]

theorem interpSeg_three (a b c : ℝ × ℝ) (r : List (ℝ × ℝ)) (x : ℝ) :
    interpSeg (a :: b :: c :: r) x =
      if b.1 < x then interpSeg (b :: c :: r) x else .val (seg a.1 a.2 b.1 b.2 x) := by
  obtain ⟨a1, a2⟩ := a; obtain ⟨b1, b2⟩ := b
  simp [interpSeg]

theorem seg_eq_linear {x0 y0 x1 y1 x : ℝ} (h : x0 < x1) :
    seg x0 y0 x1 y1 x = y0 + (y1 - y0) * (x - x0) / (x1 - x0) := by
  have : x1 - x0 ≠ 0 := sub_ne_zero.mpr h.ne'
  unfold seg; field_simp; ring

theorem seg_at_hi {x0 y0 x1 y1 : ℝ} (h : x0 < x1) : seg x0 y0 x1 y1 x1 = y1 := by
  rw [seg_eq_linear h]
  have : x1 - x0 ≠ 0 := sub_ne_zero.mpr h.ne'
  field_simp; ring

theorem seg_at_lo {x0 y0 x1 y1 : ℝ} (h : x0 < x1) : seg x0 y0 x1 y1 x0 = y0 := by
  rw [seg_eq_linear h]; simp

/-- The segment whose knots bracket `x` (`x0 < x ≤ x1`) is the one `searchsorted` + clip selects. -/
theorem interpSeg_pick (pre post : List (ℝ × ℝ)) (x0 y0 x1 y1 x : ℝ)
    (hs : SortedTbl (pre ++ (x0, y0) :: (x1, y1) :: post)) (hlo : x0 < x) (hhi : x ≤ x1) :
    interpSeg (pre ++ (x0, y0) :: (x1, y1) :: post) x = .val (seg x0 y0 x1 y1 x) := by
  induction pre with
  | nil =>
    cases post with
    | nil => simpa using interpSeg_two (x0, y0) (x1, y1) x
    | cons c r =>
      rw [List.nil_append, interpSeg_three]
      simp [not_lt.mpr hhi]
  | cons p pre ih =>
    have hs' : SortedTbl (pre ++ (x0, y0) :: (x1, y1) :: post) := (List.pairwise_cons.mp hs).2
    have hp := (List.pairwise_cons.mp hs).1
    cases pre with
    | nil =>
      rw [List.cons_append, List.nil_append, interpSeg_three]
      simp only [hlo, if_true]
      exact ih hs'
    | cons q pre' =>
      have hq : q.1 < x := by
        have h1 : q.1 < x0 := by
          have := (List.pairwise_cons.mp hs').1 (x0, y0) (by simp)
          exact this
        exact lt_trans h1 hlo
      obtain ⟨c, r, hcr⟩ : ∃ c r, pre' ++ (x0, y0) :: (x1, y1) :: post = c :: r := by
        cases pre' with
        | nil => exact ⟨_, _, rfl⟩
        | cons c r => exact ⟨_, _, rfl⟩
      have e : (p :: q :: pre') ++ (x0, y0) :: (x1, y1) :: post = p :: q :: c :: r := by
        simp [hcr]
      rw [e, interpSeg_three]
      simp only [hq, if_true]
      have e' : (q :: pre') ++ (x0, y0) :: (x1, y1) :: post = q :: c :: r := by simp [hcr]
      rw [← e']
      exact ih hs'

theorem lastX_ge (t : List (ℝ × ℝ)) (hs : SortedTbl t) (a : ℝ × ℝ) (ha : a ∈ t) :
    ∃ xn, lastX t = some xn ∧ a.1 ≤ xn := by
  induction t generalizing a with
  | nil => simp at ha
  | cons c t ih =>
    cases t with
    | nil =>
      simp at ha; subst ha
      obtain ⟨c1, c2⟩ := a
      exact ⟨c1, rfl, le_refl _⟩
    | cons d t' =>
      have hs' : SortedTbl (d :: t') := (List.pairwise_cons.mp hs).2
      have hl : lastX (c :: d :: t') = lastX (d :: t') := by
        obtain ⟨c1, c2⟩ := c; simp [lastX]
      rw [hl]
      rcases List.mem_cons.mp ha with h | h
      · subst h
        obtain ⟨xn, h1, h2⟩ := ih hs' d (by simp)
        have : a.1 < d.1 := (List.pairwise_cons.mp hs).1 d (by simp)
        exact ⟨xn, h1, le_trans this.le h2⟩
      · exact ih hs' a h

theorem head_le (h : ℝ × ℝ) (t : List (ℝ × ℝ)) (hs : SortedTbl (h :: t)) (a : ℝ × ℝ) (ha : a ∈ h :: t) :
    h.1 ≤ a.1 := by
  rcases List.mem_cons.mp ha with e | e
  · subst e; exact le_refl _
  · exact ((List.pairwise_cons.mp hs).1 a e).le

/-- inside the table's range the bounds check passes -/
theorem interp_inside (t : List (ℝ × ℝ)) (hs : SortedTbl t) (a b : ℝ × ℝ) (ha : a ∈ t) (hb : b ∈ t)
    (x : ℝ) (hax : a.1 ≤ x) (hxb : x ≤ b.1) : interp t x = interpSeg t x := by
  cases t with
  | nil => simp at ha
  | cons h t' =>
    obtain ⟨xn, hl, hbn⟩ := lastX_ge (h :: t') hs b hb
    have hh := head_le h t' hs a ha
    obtain ⟨h1, h2⟩ := h
    simp only [interp, hl]
    have n1 : ¬ x < h1 := not_lt.mpr (le_trans hh hax)
    have n2 : ¬ xn < x := not_lt.mpr (le_trans hxb hbn)
    simp [n1, n2]

/-! ### list plumbing used by C07 (mean scale factor, point lookup) -/

theorem collect_scale (g : ℝ) (l : List (Res ℝ)) :
    collect (l.map (Res.map (g * ·))) = (collect l).map (List.map (g * ·)) := by
  induction l with
  | nil => rfl
  | cons r t ih =>
    simp only [List.map_cons, collect, ih]
    cases r <;> cases collect t <;> simp [Res.map]

theorem sumList_scale (g : ℝ) (l : List ℝ) : sumList (l.map (g * ·)) = g * sumList l := by
  induction l with
  | nil => simp [sumList]
  | cons a t ih => simp only [List.map_cons, sumList, ih]; ring

theorem getSf_att_map (c : Cal ℝ) (f L A d : ℝ) :
    getSf c f L (A + d) = (getSf c f L A).map ((10 : ℝ) ^ (d / 20) * ·) := by
  simp only [getSf]
  cases getSens c f <;> simp [sfOf_add_att]


theorem lookup_absent (t : List (ℝ × ℝ)) (f : ℝ) (h : ∀ r ∈ t, r.1 ≠ f) : lookup t f = .calErr := by
  induction t with
  | nil => rfl
  | cons r t ih =>
    obtain ⟨x, y⟩ := r
    have hx : x ≠ f := h (x, y) (by simp)
    simp only [lookup, eqb_real, hx, decide_false, Bool.false_eq_true, if_false]
    exact ih (fun r hr => h r (by simp [hr]))

theorem lookup_present (t : List (ℝ × ℝ)) (f y : ℝ) (hd : (t.map (·.1)).Nodup) (hm : (f, y) ∈ t) :
    lookup t f = .val y := by
  induction t with
  | nil => simp at hm
  | cons r t ih =>
    obtain ⟨x, y'⟩ := r
    simp only [List.map_cons, List.nodup_cons] at hd
    rcases List.mem_cons.mp hm with e | e
    · injection e with e1 e2; subst e1; subst e2; simp [lookup]
    · have hx : x ≠ f := by
        intro hxf; subst hxf
        exact hd.1 (List.mem_map.mpr ⟨(x, y), e, rfl⟩)
      simp only [lookup, eqb_real, hx, decide_false, Bool.false_eq_true, if_false]
      exact ih hd.2 e


theorem collect_val_all {l : List (Res ℝ)} {vs : List ℝ} (h : collect l = .val vs) : ∀ r ∈ l, ∃ v, r = .val v := by
  induction l generalizing vs with
  | nil => simp
  | cons r t ih =>
    intro r' hr'
    simp only [collect] at h
    cases r <;> cases hc : collect t <;> simp [hc] at h
    rcases List.mem_cons.mp hr' with e | e
    · exact ⟨_, e⟩
    · exact ih hc r' e


end Psi.Db
