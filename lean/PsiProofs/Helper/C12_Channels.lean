import PsiProofs.Helper.C12_Lists
/-! Multi-channel (2-D) streams: a time column is a `Fin c → α`.  The whole-signal definitions of the stages commute
with the projection to a channel; `lfilter(axis=-1)` on `c` channels is `c` independent copies of the 1-D machine. -/
namespace Psi.Stages
variable {α β γ S : Type}

/-! ### selections commute with any per-column function (in particular with the projection to a channel) -/

theorem strideAux_map (f : α → γ) (q : Nat) : ∀ (k : Nat) (l : List α),
    strideAux q k (l.map f) = (strideAux q k l).map f
  | _, [] => by simp [strideAux]
  | 0, a :: l => by simp [strideAux, strideAux_map f q (q - 1) l]
  | k + 1, a :: l => by simp [strideAux, strideAux_map f q k l]

theorem stride_map (f : α → γ) (q : Nat) (l : List α) : stride q (l.map f) = (stride q l).map f :=
  strideAux_map f q 0 l

theorem chunksOf_map (f : α → γ) (n : Nat) : ∀ (fuel : Nat) (l : List α),
    chunksOf n fuel (l.map f) = (chunksOf n fuel l).map (List.map f)
  | 0, _ => rfl
  | fuel + 1, l => by
    simp only [chunksOf, List.length_map]
    split
    · rw [← List.map_drop, chunksOf_map f n fuel, ← List.map_take]; rfl
    · rfl

theorem blocksOf_map (f : α → γ) (n : Nat) (l : List α) : blocksOf n (l.map f) = (blocksOf n l).map (List.map f) := by
  simp [blocksOf, chunksOf_map]

theorem diffs_map (f : α → γ) (d : α → α → β) (d' : γ → γ → β) (h : ∀ a b, d' (f a) (f b) = d a b) :
    ∀ (l : List α), diffs d' (l.map f) = diffs d l
  | [] => rfl
  | [_] => rfl
  | a :: b :: l => by
    have := diffs_map f d d' h (b :: l)
    simp only [List.map_cons] at this ⊢
    simp only [diffs, h, this]

/-- `np.diff` on `c` channels is `np.diff` of every channel -/
theorem diffs_map_proj {c : Nat} (d : α → α → β) (r : Fin c) :
    ∀ (a : Fin c → α) (l : List (Fin c → α)),
    (diffs (fun (p x : Fin c → α) r => d (p r) (x r)) (a :: l)).map (· r) = diffs d (a r :: l.map (· r))
  | _, [] => rfl
  | a, b :: l => by
    have := diffs_map_proj d r b l
    simp only [List.map_cons, diffs] at this ⊢
    rw [this]

/-! ### `lfilter(..., axis=-1)` on `c` channels -/

/-- the 1-D machine `m` on every channel, each channel with its own state (SciPy filters the rows of a 2-D array
independently; `zi` has one state vector per row) -/
def Mealy.channels (m : Mealy α β S) (c : Nat) : Mealy (Fin c → α) (Fin c → β) (Fin c → S) where
  step z x := (fun r => (m.step (z r) (x r)).1, fun r => (m.step (z r) (x r)).2)

/-- channel `r` of the multi-channel run is the 1-D run on channel `r` of the input, from channel `r` of the state -/
theorem Mealy.channels_run (m : Mealy α β S) (c : Nat) (r : Fin c) : ∀ (cols : List (Fin c → α)) (z : Fin c → S),
    ((m.channels c).run z cols).1.map (· r) = (m.run (z r) (cols.map (· r))).1
    ∧ ((m.channels c).run z cols).2 r = (m.run (z r) (cols.map (· r))).2
  | [], z => ⟨rfl, rfl⟩
  | x :: cols, z => by
    have ih := Mealy.channels_run m c r cols ((m.channels c).step z x).2
    simp only [Mealy.run, List.map_cons]
    exact ⟨by rw [ih.1]; rfl, by rw [ih.2]; rfl⟩

end Psi.Stages
