import PsiModel.StagesExt
import PsiProofs.Helper.C12_Run
/-! Run lemmas for the extension stages (EXT12). -/
namespace Psi.StagesExt
open Psi.Stages
variable {α β ε ρ χ μ σ I O B E : Type}

/-! ### the generic runner -/

theorem run_append (step : σ → I → Except E (List O × σ)) : ∀ (xs ys : List I) (s s' : σ) (o : List O),
    run step s xs = .ok (o, s') →
    run step s (xs ++ ys) = (match run step s' ys with
      | .ok (o', s'') => .ok (o ++ o', s'')
      | .error e => .error e) := by
  intro xs
  induction xs with
  | nil =>
    intro ys s s' o h
    simp only [run, Except.ok.injEq, Prod.mk.injEq] at h
    obtain ⟨rfl, rfl⟩ := h
    simp only [List.nil_append]
    cases run step s ys with
    | error e => rfl
    | ok p => rfl
  | cons x xs ih =>
    intro ys s s' o h
    simp only [run, List.cons_append] at h ⊢
    cases hx : step s x with
    | error e => simp [hx] at h
    | ok p =>
      obtain ⟨o1, s1⟩ := p
      simp only [hx] at h ⊢
      cases hr : run step s1 xs with
      | error e => simp [hr] at h
      | ok q =>
        obtain ⟨o2, s2⟩ := q
        simp only [hr, Except.ok.injEq, Prod.mk.injEq] at h
        obtain ⟨rfl, rfl⟩ := h
        rw [ih ys s1 s2 o2 hr]
        cases run step s2 ys with
        | error e => rfl
        | ok r => simp [List.append_assoc]

/-- a stage without carried state that never raises: the outputs of the chunks, in order -/
theorem run_stateless (step : Unit → I → Except E (List O × Unit)) (f : I → List O)
    (h : ∀ c, step () c = .ok (f c, ())) : ∀ cs, run step () cs = .ok (cs.flatMap f, ()) := by
  intro cs
  induction cs with
  | nil => rfl
  | cons c cs ih => simp [run, h, ih]

/-! ### average -/

theorem avgLoop_spec (mean : List α → β) (n : Nat) (hn : 0 < n) : ∀ (fuel : Nat) (l : List α), l.length ≤ fuel →
    avgLoop mean n fuel l = ((blocksOf n l).map mean, l.drop (l.length / n * n)) := by
  intro fuel
  induction fuel with
  | zero =>
    intro l h
    have : l = [] := List.eq_nil_of_length_eq_zero (by omega)
    subst this
    simp [avgLoop, blocksOf_short n [] (by simpa using hn)]
  | succ fuel ih =>
    intro l h
    simp only [avgLoop]
    split
    · rename_i hge
      rw [ih (l.drop n) (by simp; omega), blocksOf_step n hn l hge, List.length_drop, List.drop_drop,
        div_mul_step n l.length hn hge]
      simp
    · rename_i hlt
      have hlt : l.length < n := by omega
      simp [blocksOf_short n l hlt, Nat.div_eq_of_lt hlt]

theorem drop_complete_lt (n : Nat) (hn : 0 < n) (l : List α) : (l.drop (l.length / n * n)).length < n := by
  rw [List.length_drop]
  have h1 := Nat.div_add_mod l.length n
  have h2 := Nat.mod_lt l.length hn
  have h3 : n * (l.length / n) = l.length / n * n := Nat.mul_comm _ _
  omega

/-- the repaired `average` from any buffered remainder `r` shorter than `n` -/
theorem averageFixed_run (mean : List α → β) (n : Nat) (hn : 0 < n) : ∀ (cs : List (List α)) (r : List α),
    r.length < n →
    outs (run (averageFixedStep mean n) (some r) cs) = .ok ((blocksOf n (r ++ cs.flatten)).map mean) := by
  intro cs
  induction cs with
  | nil => intro r hr; simp [run, outs, blocksOf_short n r hr]
  | cons c cs ih =>
    intro r hr
    generalize hrem : (r ++ c).drop ((r ++ c).length / n * n) = rem
    have hremlt : rem.length < n := hrem ▸ drop_complete_lt n hn _
    have hstep : averageFixedStep mean n (some r) c = .ok ((blocksOf n (r ++ c)).map mean, some rem) := by
      simp only [averageFixedStep, if_neg (Nat.pos_iff_ne_zero.mp hn)]
      rw [avgLoop_spec mean n hn _ _ (Nat.le_refl _), hrem]
    have := ih rem hremlt
    simp only [run, hstep]
    cases hrun : run (averageFixedStep mean n) (some rem) cs with
    | error e => rw [hrun] at this; simp [outs] at this
    | ok p =>
      obtain ⟨os, s''⟩ := p
      rw [hrun] at this
      simp only [outs, Except.ok.injEq] at this ⊢
      rw [this, List.flatten_cons, ← List.append_assoc, blocksOf_append n hn cs.flatten (r ++ c), List.map_append,
        hrem]

theorem averageFixedStep_none (mean : List α → β) (n : Nat) (d : List α) :
    averageFixedStep mean n none d = averageFixedStep mean n (some []) d := by
  simp [averageFixedStep]

theorem averageStep_none (n : Nat) (d : List α) :
    (averageStep n none d : Except XErr (List β × _)) = averageStep n (some []) d := by
  simp [averageStep]

/-- `average` as it is, from a buffered remainder: nothing is emitted while fewer than `n` rows are there -/
theorem averageAsIs_run_short (n : Nat) : ∀ (cs : List (List α)) (r : List α),
    r.length + cs.flatten.length < n →
    outs (run (averageStep (β := β) n) (some r) cs) = .ok [] := by
  intro cs
  induction cs with
  | nil => intro r _; rfl
  | cons c cs ih =>
    intro r h
    simp only [List.flatten_cons, List.length_append] at h
    have hstep : averageStep (β := β) n (some r) c = .ok ([], some (r ++ c)) := by
      simp only [averageStep]; rw [if_neg (by simp only [List.length_append]; omega)]
    have := ih (r ++ c) (by simp only [List.length_append]; omega)
    simp only [run, hstep]
    cases hrun : run (averageStep (β := β) n) (some (r ++ c)) cs with
    | error e => simp [hrun, outs] at this
    | ok p => obtain ⟨os, s''⟩ := p; simpa [hrun, outs] using this

/-- `average` as it is: the stage dies with `IndexError` as soon as `n` rows are there -/
theorem averageAsIs_run_full (n : Nat) : ∀ (cs : List (List α)) (r : List α),
    r.length < n → n ≤ r.length + cs.flatten.length →
    outs (run (averageStep (β := β) n) (some r) cs) = .error .indexError := by
  intro cs
  induction cs with
  | nil => intro r h1 h2; simp at h2; omega
  | cons c cs ih =>
    intro r h1 h2
    simp only [List.flatten_cons, List.length_append] at h2
    rcases Nat.lt_or_ge (r.length + c.length) n with hlt | hge
    · have hstep : averageStep (β := β) n (some r) c = .ok ([], some (r ++ c)) := by
        simp only [averageStep]; rw [if_neg (by simp only [List.length_append]; omega)]
      have := ih (r ++ c) (by simp only [List.length_append]; omega) (by simp only [List.length_append]; omega)
      simp only [run, hstep]
      cases hrun : run (averageStep (β := β) n) (some (r ++ c)) cs with
      | error e => simpa [hrun, outs] using this
      | ok p => simp [hrun, outs] at this
    · have hstep : averageStep (β := β) n (some r) c = .error .indexError := by
        simp only [averageStep]; rw [if_pos (by simp only [List.length_append]; omega)]
      simp [run, hstep, outs]

end Psi.StagesExt
