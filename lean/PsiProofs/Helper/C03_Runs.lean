import PsiProofs.Helper.C03_Skip
import PsiProofs.Helper.C03_Random
import PsiProofs.Helper.C03_Blocked
import PsiProofs.Helper.C03_Grouped
import PsiProofs.C02
/-! From a loaded queue, any number of ticks keeps the invariant of its policy and never raises;
any chunking of requests is that many ticks (C02). -/
namespace Psi.Queue

/-- The oracle streams hold enough entries for `N` samples (a sample starts at most one trial, a trial
uses at most one draw / one shuffle) and every shuffle is a permutation of all stimulus indices —
what `np.random.randint` / `RandomState.shuffle(arange(n))` deliver. Vacuous for the other policies. -/
structure OracleOK (N : Nat) (s : QState) : Prop where
  draws : s.kind = .random → N ≤ s.draws.length
  perms : s.kind = .blockedRandom →
    N ≤ s.perms.length ∧ ∀ p ∈ s.perms, p.Perm (List.range s.data.length)

/-- every chunking of positive requests is `sum` ticks of the per-sample spec -/
theorem popAll_ticks {ns : List Nat} {s : QState} (hw : WF s) (hpos : ∀ n ∈ ns, 0 < n) (hne : ns ≠ []) :
    popAll ns s = runTicks ns.sum s := by
  rw [popAll_eq_popBuffer_sum hw hpos hne]
  apply popBuffer_refines hw
  cases ns with
  | nil => exact absurd rfl hne
  | cons m ms => have := hpos m (by simp); simp; omega

abbrev reqAt (s : QState) : Nat → Int := fun k => trialsOf s k

theorem run_fifo (N : Nat) {s : QState} (h : Loaded s) (hk : s.kind = .fifo) :
    ∃ cs s', runTicks N s = .ok (cs, s') ∧ WF s' ∧ FifoNew s.data.length (reqAt s) (view s') :=
  run_inv' FifoNew_step N h.wf (FifoNew_init h hk)

theorem run_rr (N : Nat) {s : QState} (h : Loaded s) (hk : s.kind = .interleaved) (hkeep : s.keep = true) :
    ∃ cs s', runTicks N s = .ok (cs, s') ∧ WF s' ∧ RRInv s.data.length (reqAt s) (view s') :=
  run_inv' RRInv_step N h.wf (RRInv_init h hk hkeep)

theorem run_skip (N : Nat) {s : QState} (h : Loaded s) (hk : s.kind = .interleaved) (hkeep : s.keep = false) :
    ∃ cs s', runTicks N s = .ok (cs, s') ∧ WF s' ∧ SkipInv s.data.length (reqAt s) (view s') :=
  run_inv' SkipInv_step N h.wf (SkipInv_init h hk hkeep)

theorem run_grouped (N : Nat) {s : QState} (h : Loaded s) (hk : s.kind = .grouped) :
    ∃ cs s', runTicks N s = .ok (cs, s') ∧ WF s' ∧ GroupInv s.data.length (reqAt s) s.gsize (view s') :=
  run_inv' GroupInv_step N h.wf (GroupInv_init h hk)

theorem run_random (N : Nat) {s : QState} (h : Loaded s) (hk : s.kind = .random) (hN : N ≤ s.draws.length) :
    ∃ cs s', runTicks N s = .ok (cs, s') ∧ WF s' ∧ RandInv s.data.length (reqAt s) s.draws 0 (view s') := by
  have h0 := RandInv_init h hk
  have h1 : RandInv s.data.length (reqAt s) s.draws (0 + N) (view s) :=
    ⟨h0.core, h0.kind, h0.draws, by simpa [view] using hN, h0.pick⟩
  exact run_inv (I := fun m v => RandInv s.data.length (reqAt s) s.draws m v) RandInv_mono RandInv_step
    N 0 h.wf h1

theorem run_blocked (N : Nat) {s : QState} (h : Loaded s) (hk : s.kind = .blockedRandom)
    (hN : N ≤ s.perms.length) (hp : ∀ p ∈ s.perms, p.Perm (List.range s.data.length)) :
    ∃ cs s', runTicks N s = .ok (cs, s') ∧ WF s' ∧ BlockInv s.data.length (reqAt s) s.perms 0 (view s') := by
  have h0 := BlockInv_init h hk hp
  have h1 : BlockInv s.data.length (reqAt s) s.perms (0 + N) (view s) :=
    ⟨h0.base, h0.kind, h0.ord, h0.permsOK, h0.blocks, h0.blockLt, by simpa [view] using hN, h0.open_,
     h0.closed, h0.first⟩
  exact run_inv (I := fun m v => BlockInv s.data.length (reqAt s) s.perms m v) BlockInv_mono BlockInv_step
    N 0 h.wf h1

/-! ### "reports empty" implies the policy is done -/

theorem Done_view {s s' : QState} (h : view s' = view s) : Done s' ↔ Done s := by
  have h1 : s'.kind = s.kind := congrArg PView.kind h
  have h2 : s'.ordering = s.ordering := congrArg PView.ordering h
  have h3 : s'.complete = s.complete := congrArg PView.complete h
  unfold Done
  rw [h1, h2, h3]

def EmptyDone (s : QState) : Prop := s.empty = true → Done s

theorem tick_emptyDone {s s' : QState} {c : Cell} (hi : EmptyDone s) (h : tick s = .ok (c, s')) :
    EmptyDone s' := by
  cases tick_cases h with
  | paused _ _ hs => subst hs; exact hi
  | play src _ _ _ he =>
    have : s' = (emitSrc s src).2 := by rw [← he]
    subst this
    intro hE
    rw [Done_view (view_emitSrc s src)]
    exact hi (by simpa [emitSrc, bump] using hE)
  | gap _ _ _ _ hs => subst hs; exact hi
  | dry _ _ _ hk _ hs =>
    subst hs
    intro _
    exact (nextKey_none_iff (dropSrc s)).mp hk
  | start s1 src _ _ _ hn _ _ he =>
    have : s' = (emitSrc s1 src).2 := by rw [← he]
    subst this
    intro hE
    have hE1 : s1.empty = true := by simpa [emitSrc, bump] using hE
    obtain ⟨_, _, _, _, _, _, _, _, _, _, _, hemp, _⟩ := nextTrial_obs hn
    rw [hemp] at hE1
    have hd : Done (dropSrc s) := hi hE1
    rw [nextTrial_none_of ((nextKey_none_iff _).mpr hd)] at hn
    simp at hn

theorem runTicks_emptyDone (n : Nat) {s s' : QState} {cs : List Cell} (hi : EmptyDone s)
    (h : runTicks n s = .ok (cs, s')) : EmptyDone s' := by
  induction n generalizing s cs with
  | zero => simp [runTicks] at h; obtain ⟨_, rfl⟩ := h; exact hi
  | succ n ih =>
    rw [runTicks] at h
    cases ht : tick s with
    | error e => simp [ht] at h
    | ok r =>
      obtain ⟨c, s1⟩ := r
      simp only [ht] at h
      cases hr : runTicks n s1 with
      | error e => simp [hr] at h
      | ok r2 =>
        obtain ⟨cs2, s2⟩ := r2
        simp only [hr, Except.ok.injEq, Prod.mk.injEq] at h
        obtain ⟨_, rfl⟩ := h
        exact ih (tick_emptyDone hi ht) hr

/-! ### counters -/

theorem countTrials_zero {s : QState} (h : ∀ k, k < s.data.length → trialsOf s k ≤ 0) :
    countTrials s = 0 := by
  unfold countTrials
  have : ∀ (d : List Entry), (∀ e ∈ d, e.trials ≤ 0) → (d.map (fun e => max e.trials 0)).sum = 0 := by
    intro d
    induction d with
    | nil => intro _; rfl
    | cons a l ih =>
      intro hd
      have h1 := hd a (by simp)
      have h2 := ih (fun e he => hd e (by simp [he]))
      simp only [List.map_cons, List.sum_cons, h2]
      omega
  apply this
  intro e he
  obtain ⟨k, hk, rfl⟩ := List.getElem_of_mem he
  have := h k hk
  simpa [trialsOf, List.getElem?_eq_getElem hk] using this

end Psi.Queue
