import PsiProofs.Helper.C12_Stages3
/-! The restart signal (`Ellipsis`) of `blocked` / `discard`: a run over several streams separated by the
signal is the signal-separated sequence of the runs of a **freshly created** stage over each stream. -/
namespace Psi.Stages
variable {α β ρ χ μ S τ σ I O : Type}

/-! ### generic facts about `runStage` -/

theorem runStage_append (step : σ → I → Except Err (List O × σ)) : ∀ (xs ys : List I) (s : σ),
    runStage step s (xs ++ ys) =
      match runStage step s xs with
      | .error e => .error e
      | .ok (o, s') =>
        match runStage step s' ys with
        | .error e => .error e
        | .ok (o', s'') => .ok (o ++ o', s'') := by
  intro xs
  induction xs with
  | nil =>
    intro ys s
    simp only [List.nil_append, runStage]
    cases runStage step s ys with
    | error e => rfl
    | ok p => obtain ⟨o, s'⟩ := p; simp
  | cons x xs ih =>
    intro ys s
    simp only [List.cons_append, runStage]
    cases hx : step s x with
    | error e => rfl
    | ok p =>
      obtain ⟨o, s1⟩ := p
      simp only [ih ys s1]
      cases h1 : runStage step s1 xs with
      | error e => rfl
      | ok p1 =>
        obtain ⟨o1, s2⟩ := p1
        simp only []
        cases h2 : runStage step s2 ys with
        | error e => rfl
        | ok p2 => obtain ⟨o2, s3⟩ := p2; simp [List.append_assoc]

/-- arrays sent to a stage with a restart branch go through its ordinary body -/
theorem runStage_withRestart_data (step : σ → I → Except Err (List O × σ)) (onR : σ → σ) :
    ∀ (l : List I) (s : σ),
    runStage (withRestart step onR) s (l.map Sig.data) =
      match runStage step s l with
      | .error e => .error e
      | .ok (o, s') => .ok (o.map Sig.data, s') := by
  intro l
  induction l with
  | nil => intro s; rfl
  | cons x xs ih =>
    intro s
    simp only [List.map_cons, runStage, withRestart]
    cases hx : step s x with
    | error e => rfl
    | ok p =>
      obtain ⟨o, s1⟩ := p
      simp only [ih s1]
      cases h1 : runStage step s1 xs with
      | error e => rfl
      | ok p1 => obtain ⟨o1, s2⟩ := p1; simp

/-- an invariant of the carry state kept by every `send` holds after any run -/
theorem runStage_inv (step : σ → I → Except Err (List O × σ)) (Inv : σ → Prop)
    (hpres : ∀ st d o st', Inv st → step st d = .ok (o, st') → Inv st') :
    ∀ (l : List I) (s : σ) (o : List O) (s' : σ), Inv s → runStage step s l = .ok (o, s') → Inv s' := by
  intro l
  induction l with
  | nil => intro s o s' hs h; simp only [runStage] at h; cases h; exact hs
  | cons x xs ih =>
    intro s o s' hs h
    simp only [runStage] at h
    cases hx : step s x with
    | error e => rw [hx] at h; cases h
    | ok p =>
      obtain ⟨o1, s1⟩ := p
      rw [hx] at h
      simp only [] at h
      cases h1 : runStage step s1 xs with
      | error e => rw [h1] at h; cases h
      | ok p1 =>
        obtain ⟨o2, s2⟩ := p1
        rw [h1] at h
        simp only [] at h
        cases h
        exact ih s1 o2 _ (hpres s x o1 s1 hs hx) h1

theorem outputs_ok_iff {r : Except Err (List O × σ)} {bs : List O} :
    outputs r = .ok bs ↔ ∃ s', r = .ok (bs, s') := by
  cases r with
  | error e => simp [outputs]
  | ok p => obtain ⟨o, s'⟩ := p; simp [outputs]

/-! ### streams separated by the restart signal -/

/-- one input stream: its annotation record, first sample, chunking -/
structure Seg (α ρ χ μ : Type) where
  ann : Ann ρ χ μ
  s0 : Int
  chunks : List (List α)

def Seg.stream (sg : Seg α ρ χ μ) : List (PD α ρ χ μ) := Stages.stream sg.ann sg.s0 sg.chunks

/-- what is sent: the first stream, then for every further stream the signal followed by the stream -/
def restartInput (sg0 : Seg α ρ χ μ) (rest : List (Seg α ρ χ μ)) : List (Sig (PD α ρ χ μ)) :=
  sg0.stream.map Sig.data ++ rest.flatMap fun sg => Sig.restart :: sg.stream.map Sig.data

/-- what must come out: the blocks of the first stream, then for every further stream the signal (once)
followed by the blocks of that stream -/
def restartOutput (bs0 : List (PD β ρ χ μ)) (bss : List (List (PD β ρ χ μ))) : List (Sig (PD β ρ χ μ)) :=
  bs0.map Sig.data ++ bss.flatMap fun bs => Sig.restart :: bs.map Sig.data

/-- the two lists have the same length and `R` relates their entries position by position -/
def AllPairs {A B : Type} (R : A → B → Prop) : List A → List B → Prop
  | [], [] => True
  | a :: l, b :: l' => R a b ∧ AllPairs R l l'
  | _, _ => False

theorem AllPairs.imp {A B : Type} {R R' : A → B → Prop} (h : ∀ a b, R a b → R' a b) :
    ∀ {l : List A} {l' : List B}, AllPairs R l l' → AllPairs R' l l'
  | [], [], _ => trivial
  | _ :: _, _ :: _, ⟨h1, h2⟩ => ⟨h _ _ h1, AllPairs.imp h h2⟩
  | [], _ :: _, hf => hf.elim
  | _ :: _, [], hf => hf.elim

theorem AllPairs.length_eq {A B : Type} {R : A → B → Prop} :
    ∀ {l : List A} {l' : List B}, AllPairs R l l' → l.length = l'.length
  | [], [], _ => rfl
  | _ :: _, _ :: _, ⟨_, h2⟩ => by simp [AllPairs.length_eq h2]
  | [], _ :: _, hf => hf.elim
  | _ :: _, [], hf => hf.elim

theorem AllPairs.getElem {A B : Type} {R : A → B → Prop} :
    ∀ {l : List A} {l' : List B}, AllPairs R l l' → ∀ (i : Nat) (h : i < l.length) (h' : i < l'.length), R l[i] l'[i]
  | [], [], _, i, h, _ => by simp at h
  | _ :: _, _ :: _, ⟨h1, h2⟩, i, h, h' => by
    cases i with
    | zero => exact h1
    | succ i => exact AllPairs.getElem h2 i (by simpa using h) (by simpa using h')
  | [], _ :: _, hf, _, _, _ => hf.elim
  | _ :: _, [], hf, _, _, _ => hf.elim

/-- `bss` are the outputs of freshly created stages (state `init`) run over the streams `segs` -/
def FreshRuns (step : σ → PD α ρ χ μ → Except Err (List (PD β ρ χ μ) × σ)) (init : σ)
    (segs : List (Seg α ρ χ μ)) (bss : List (List (PD β ρ χ μ))) : Prop :=
  AllPairs (fun sg bs => outputs (runStage step init sg.stream) = .ok bs) segs bss

/-- Generic restart theorem.  `Inv` is an invariant of the carry state; after the restart branch the stage
emits on every stream exactly what a fresh stage emits (`hfresh`), and a fresh stage never raises on a
stream (`hok`).  Then any number of restarts from any invariant state is the signal-separated sequence of fresh
runs. -/
theorem restart_tail (step : σ → PD α ρ χ μ → Except Err (List (PD β ρ χ μ) × σ)) (onR : σ → σ) (init : σ)
    (Inv : σ → Prop)
    (hpres : ∀ st d o st', Inv st → step st d = .ok (o, st') → Inv st')
    (hR : ∀ st, Inv st → Inv (onR st))
    (hfresh : ∀ st, Inv st → ∀ sg : Seg α ρ χ μ,
      outputs (runStage step (onR st) sg.stream) = outputs (runStage step init sg.stream))
    (hok : ∀ sg : Seg α ρ χ μ, ∃ bs, outputs (runStage step init sg.stream) = .ok bs) :
    ∀ (rest : List (Seg α ρ χ μ)) (st : σ), Inv st →
    ∃ bss, FreshRuns step init rest bss ∧
      outputs (runStage (withRestart step onR) st
        (rest.flatMap fun sg => Sig.restart :: sg.stream.map Sig.data))
        = .ok (bss.flatMap fun bs => Sig.restart :: bs.map Sig.data) := by
  intro rest
  induction rest with
  | nil => intro st _; exact ⟨[], trivial, rfl⟩
  | cons sg rest ih =>
    intro st hst
    obtain ⟨bs, hbs⟩ := hok sg
    have hbs' : outputs (runStage step (onR st) sg.stream) = .ok bs := by rw [hfresh st hst sg]; exact hbs
    obtain ⟨s1, hrun⟩ := outputs_ok_iff.1 hbs'
    have hs1 : Inv s1 := runStage_inv step Inv hpres _ _ _ _ (hR st hst) hrun
    obtain ⟨bss, hF, hrest⟩ := ih s1 hs1
    obtain ⟨s2, hrest⟩ := outputs_ok_iff.1 hrest
    refine ⟨bs :: bss, ⟨hbs, hF⟩, ?_⟩
    apply outputs_ok_iff.2
    refine ⟨s2, ?_⟩
    simp only [List.flatMap_cons, List.cons_append]
    rw [runStage]
    simp only [withRestart]
    rw [runStage_append, runStage_withRestart_data, hrun]
    simp only [hrest]
    rfl

theorem restart_run (step : σ → PD α ρ χ μ → Except Err (List (PD β ρ χ μ) × σ)) (onR : σ → σ) (init : σ)
    (Inv : σ → Prop) (hinit : Inv init)
    (hpres : ∀ st d o st', Inv st → step st d = .ok (o, st') → Inv st')
    (hR : ∀ st, Inv st → Inv (onR st))
    (hfresh : ∀ st, Inv st → ∀ sg : Seg α ρ χ μ,
      outputs (runStage step (onR st) sg.stream) = outputs (runStage step init sg.stream))
    (hok : ∀ sg : Seg α ρ χ μ, ∃ bs, outputs (runStage step init sg.stream) = .ok bs)
    (sg0 : Seg α ρ χ μ) (rest : List (Seg α ρ χ μ)) :
    ∃ bs0 bss, FreshRuns step init (sg0 :: rest) (bs0 :: bss) ∧
      outputs (runStage (withRestart step onR) init (restartInput sg0 rest)) = .ok (restartOutput bs0 bss) := by
  obtain ⟨bs0, hbs0⟩ := hok sg0
  obtain ⟨s1, hrun⟩ := outputs_ok_iff.1 hbs0
  have hs1 : Inv s1 := runStage_inv step Inv hpres _ _ _ _ hinit hrun
  obtain ⟨bss, hF, hrest⟩ := restart_tail step onR init Inv hpres hR hfresh hok rest s1 hs1
  obtain ⟨s2, hrest⟩ := outputs_ok_iff.1 hrest
  refine ⟨bs0, bss, ⟨hbs0, hF⟩, ?_⟩
  apply outputs_ok_iff.2
  refine ⟨s2, ?_⟩
  unfold restartInput restartOutput
  rw [runStage_append, runStage_withRestart_data, hrun]
  simp only [hrest]

/-! ### `blocked`: blocks of exactly `b` are determined by what they carry -/

theorem Emits.unique_of_len {a : Ann ρ χ μ} (b : Nat) (hb : 0 < b) :
    ∀ {x : List β} {t : Int} {bs bs' : List (PD β ρ χ μ)}, Emits bs x 1 t a → Emits bs' x 1 t a →
      (∀ blk ∈ bs, blk.len = b) → (∀ blk ∈ bs', blk.len = b) → bs = bs' := by
  intro x t bs
  induction bs generalizing x t with
  | nil =>
    intro bs' h h' _ hl'
    cases bs' with
    | nil => rfl
    | cons c bs' =>
      exfalso
      have h1 := h.data
      have h2 := h'.data
      have hc := hl' c (by simp)
      simp only [outData, List.map_nil, List.flatten_nil] at h1
      rw [← h1] at h2
      simp only [outData, List.map_cons, List.flatten_cons, List.append_eq_nil_iff] at h2
      have : c.data.length = 0 := by rw [h2.1]; rfl
      simp only [PD.len] at hc
      omega
  | cons c bs ih =>
    intro bs' h h' hl hl'
    cases bs' with
    | nil =>
      exfalso
      have h1 := h.data
      have h2 := h'.data
      have hc := hl c (by simp)
      simp only [outData, List.map_nil, List.flatten_nil] at h2
      rw [← h2] at h1
      simp only [outData, List.map_cons, List.flatten_cons, List.append_eq_nil_iff] at h1
      have : c.data.length = 0 := by rw [h1.1]; rfl
      simp only [PD.len] at hc
      omega
    | cons c' bs' =>
      have hc := hl c (by simp)
      have hc' := hl' c' (by simp)
      have h1 := h.data
      have h2 := h'.data
      simp only [outData, List.map_cons, List.flatten_cons] at h1 h2
      simp only [PD.len] at hc hc'
      have hdata : c.data = c'.data ∧ (bs.map (·.data)).flatten = (bs'.map (·.data)).flatten :=
        List.append_inj (h1.trans h2.symm) (hc.trans hc'.symm)
      have hcc : c = c' := by
        obtain ⟨d1, s1, a1⟩ := c
        obtain ⟨d2, s2, a2⟩ := c'
        have e1 : s1 = t := h.contig.1
        have e2 : s2 = t := h'.contig.1
        have e3 : a1 = a := h.ann ⟨d1, s1, a1⟩ (by simp)
        have e4 : a2 = a := h'.ann ⟨d2, s2, a2⟩ (by simp)
        have e5 : d1 = d2 := hdata.1
        subst e1 e3 e5; rw [e2, e4]
      subst hcc
      congr 1
      refine ih (x := (bs.map (·.data)).flatten) (t := t + 1 * c.len) ⟨rfl, h.contig.2, fun d hd => h.ann d (by simp [hd])⟩
        ⟨hdata.2.symm, h'.contig.2, fun d hd => h'.ann d (by simp [hd])⟩
        (fun d hd => hl d (by simp [hd])) (fun d hd => hl' d (by simp [hd]))

/-- the counter of `blocked` stays below the block size -/
theorem blockedStep_inv (b : Nat) (hb : 0 < b) (st : BlockedSt α ρ χ μ) (d : PD α ρ χ μ)
    (o : List (PD α ρ χ μ)) (st' : BlockedSt α ρ χ μ) (_ : st.n < b)
    (h : blockedStep b st d = .ok (o, st')) : st'.n < b := by
  unfold blockedStep at h
  rw [if_neg (Nat.ne_of_gt hb)] at h
  simp only [] at h
  by_cases hge : b ≤ st.n + d.len
  · rw [if_pos hge] at h
    cases hm : catAll (st.data ++ [d]) with
    | error e => rw [hm] at h; cases h
    | ok merged =>
      rw [hm] at h
      simp only [Except.ok.injEq, Prod.mk.injEq] at h
      obtain ⟨_, h2⟩ := h
      subst h2
      simp only []
      rw [(blockLoop_spec b hb merged.len merged (Nat.le_refl _)).1]
      simp only [PD.dropN, PD.len]
      rw [length_drop_complete]
      exact Nat.mod_lt _ hb
  · rw [if_neg hge] at h
    simp only [Except.ok.injEq, Prod.mk.injEq] at h
    obtain ⟨_, h2⟩ := h
    subst h2
    simp only []
    omega

/-- after the restart branch (`data = []`, stale counter `n < b`) `blocked` emits on every stream exactly the
blocks a fresh `blocked` emits -/
theorem blocked_restart_fresh (b : Nat) (hb : 0 < b) (st : BlockedSt α ρ χ μ) (hst : st.n < b)
    (sg : Seg α ρ χ μ) :
    outputs (runStage (blockedStep b) { st with data := [] } sg.stream)
      = outputs (runStage (blockedStep b) {} sg.stream) := by
  obtain ⟨bs, h1, h2, h3⟩ := blocked_run b hb sg.ann sg.chunks [] sg.s0 { st with data := [] }
    (Or.inl ⟨rfl, rfl⟩) (Nat.zero_le _) hst
  obtain ⟨bs', h1', h2', h3'⟩ := blocked_run b hb sg.ann sg.chunks [] sg.s0 ({} : BlockedSt α ρ χ μ)
    (Or.inl ⟨rfl, rfl⟩) (Nat.le_refl _) hb
  unfold Seg.stream
  rw [h1, h1', Emits.unique_of_len b hb h2 h2' h3 h3']

/-! ### the samples that come out, with the position of every forwarded signal -/

/-- every emitted sample in order, `none` marking a forwarded restart signal -/
def sigSamples : List (Sig (PD β ρ χ μ)) → List (Option β)
  | [] => []
  | .restart :: l => none :: sigSamples l
  | .data b :: l => b.data.map some ++ sigSamples l

theorem sigSamples_append (l l' : List (Sig (PD β ρ χ μ))) :
    sigSamples (l ++ l') = sigSamples l ++ sigSamples l' := by
  induction l with
  | nil => rfl
  | cons x l ih => cases x <;> simp [sigSamples, ih]

theorem sigSamples_data (bs : List (PD β ρ χ μ)) : sigSamples (bs.map Sig.data) = (outData bs).map some := by
  induction bs with
  | nil => rfl
  | cons b bs ih => simp [sigSamples, ih, outData]

/-- whole-input definition for a restartable stage with whole-signal definition `spec`: `spec` of the first
stream, then for every further stream one signal mark and `spec` of that stream -/
def restartSpec (spec : List α → List β) (x0 : List α) (xs : List (List α)) : List (Option β) :=
  (spec x0).map some ++ xs.flatMap fun x => none :: (spec x).map some

theorem sigSamples_restartOutput (spec : List α → List β) :
    ∀ (rest : List (Seg α ρ χ μ)) (bss : List (List (PD β ρ χ μ))),
    AllPairs (fun sg bs => outData bs = spec sg.chunks.flatten) rest bss →
    sigSamples (bss.flatMap fun bs => Sig.restart :: bs.map Sig.data)
      = (rest.map (·.chunks.flatten)).flatMap fun x => none :: (spec x).map some
  | [], [], _ => rfl
  | sg :: rest, bs :: bss, ⟨h1, h2⟩ => by
    simp only [List.flatMap_cons, List.map_cons, List.cons_append, sigSamples, sigSamples_append,
      sigSamples_data, h1, sigSamples_restartOutput spec rest bss h2]
  | [], _ :: _, hf => hf.elim
  | _ :: _, [], hf => hf.elim

end Psi.Stages
