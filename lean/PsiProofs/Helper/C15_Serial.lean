import PsiModel.Conc
/-!
# C15 — lock discipline ⇒ serialisability, for every schedule

Invariant: every reachable configuration is either `Quiescent` (lock free, every thread between
operations) or `Held … t` (thread `t` is inside its operation's lock span, every other thread is
between operations and its next micro-step is an `acq`, which blocks).
-/
namespace Psi.Conc
variable {S L : Type}

def AllAtomic (c : Config S L) : Prop :=
  ∀ i, ∀ op ∈ (c.threads i).rest, atomicK (op.map MStep.kind) = true

/-- Lock free, every thread between operations, every pending operation atomic. -/
def Quiescent (c : Config S L) : Prop :=
  c.owner = none ∧ (∀ i, (c.threads i).cur = []) ∧ AllAtomic c

/-- Thread `t` holds the lock inside its operation; everybody else is between operations. -/
def Held (c : Config S L) (t : Nat) : Prop :=
  c.owner = some t ∧ insideK c.depth ((c.threads t).cur.map MStep.kind) = true ∧
  (∀ i, i ≠ t → (c.threads i).cur = []) ∧ AllAtomic c

/-- Thread `t`, running alone from `cs`, takes the free lock and `c'` is the first configuration in
    which the lock is free again: one whole operation of `t`, executed without interruption. -/
def OpRun (cs : Config S L) (t : Nat) (c' : Config S L) : Prop :=
  ∃ j, 0 < j ∧ c' = stepN t j cs ∧ c'.owner = none ∧ ∀ i, 0 < i → i < j → (stepN t i cs).owner = some t

/-- `SerialRun c₀ order c`: `c` is the result of executing, from `c₀`, one whole operation at a time,
    uninterrupted, of the threads listed in `order`. -/
inductive SerialRun (c0 : Config S L) : List Nat → Config S L → Prop
  | nil : SerialRun c0 [] c0
  | snoc {order cs t c'} : SerialRun c0 order cs → OpRun cs t c' → SerialRun c0 (order ++ [t]) c'

theorem insideK_pos {d : Nat} {l : List K} (h : insideK d l = true) : 0 < d := by
  cases d with
  | zero => cases l <;> simp [insideK] at h
  | succ d => omega

theorem atomic_shape {op : List (MStep S L)} (h : atomicK (op.map MStep.kind) = true) :
    ∃ body, op = .acq :: body ∧ insideK 1 (body.map MStep.kind) = true := by
  cases op with
  | nil => simp [atomicK] at h
  | cons s body =>
    cases s with
    | acq => exact ⟨body, rfl, by simpa [atomicK, MStep.kind] using h⟩
    | rel => simp [atomicK, MStep.kind] at h
    | act g => simp [atomicK, MStep.kind] at h

theorem allAtomic_setThread {c : Config S L} {t : Nat} {th : Thread S L}
    (h : AllAtomic c) (hr : ∀ op ∈ th.rest, op ∈ (c.threads t).rest) : AllAtomic (setThread c t th) := by
  intro i op hop
  simp only [setThread] at hop
  by_cases hi : i = t
  · simp only [hi, if_true] at hop; exact h t op (hr op hop)
  · simp only [hi, if_false] at hop; exact h i op hop

theorem step_cur {c : Config S L} {t : Nat} {s : MStep S L} {cur' : List (MStep S L)}
    (h : (c.threads t).cur = s :: cur') : step c t = exec c t { c.threads t with cur := cur' } s := by
  simp only [step, h]

theorem step_done {c : Config S L} {t : Nat} (h : (c.threads t).cur = []) (hr : (c.threads t).rest = []) :
    step c t = c := by
  simp only [step, h, hr]

theorem step_next {c : Config S L} {t : Nat} {s : MStep S L} {cur' : List (MStep S L)}
    {rest' : List (List (MStep S L))} (h : (c.threads t).cur = [])
    (hr : (c.threads t).rest = (s :: cur') :: rest') :
    step c t = exec c t { c.threads t with cur := cur', rest := rest' } s := by
  simp only [step, h, hr]

theorem allAtomic_congr {c c' : Config S L} (h : c'.threads = c.threads) (ha : AllAtomic c) : AllAtomic c' := by
  intro i op hop; rw [h] at hop; exact ha i op hop

/-- (A) From a quiescent configuration a step either changes nothing or takes the lock. -/
theorem step_quiescent {c : Config S L} (hq : Quiescent c) (u : Nat) :
    step c u = c ∨ (Held (step c u) u ∧ (step c u).log = c.log ++ [u]) := by
  obtain ⟨ho, hc, ha⟩ := hq
  have hcu := hc u
  cases hr : (c.threads u).rest with
  | nil => left; exact step_done hcu hr
  | cons op rest' =>
    obtain ⟨body, rfl, hb⟩ := atomic_shape (ha u op (by rw [hr]; exact List.mem_cons_self ..))
    right
    rw [step_next hcu hr]
    refine ⟨⟨?_, ?_, ?_, ?_⟩, ?_⟩
    · simp [exec, ho]
    · simpa [exec, ho, setThread] using hb
    · intro i hi; simp [exec, ho, setThread, hi, hc i]
    · have : AllAtomic (setThread c u { c.threads u with cur := body, rest := rest' }) := by
        apply allAtomic_setThread (c := c) ha
        intro op hop; rw [hr]; exact List.mem_cons_of_mem _ hop
      refine allAtomic_congr ?_ this
      simp [exec, ho]
    · simp [exec, ho, setThread]

/-- (B) While `t` holds the lock, a step of any other thread changes nothing. -/
theorem step_other {c : Config S L} {t : Nat} (hh : Held c t) {u : Nat} (hu : u ≠ t) : step c u = c := by
  obtain ⟨ho, _, hc, ha⟩ := hh
  have hcu := hc u hu
  cases hr : (c.threads u).rest with
  | nil => exact step_done hcu hr
  | cons op rest' =>
    obtain ⟨body, rfl, _⟩ := atomic_shape (ha u op (by rw [hr]; exact List.mem_cons_self ..))
    have : ¬ t = u := fun h => hu h.symm
    rw [step_next hcu hr]
    simp [exec, ho, this]

/-- (C) A step of the holder keeps it inside its span, or closes the span: quiescent again. -/
theorem step_holder {c : Config S L} {t : Nat} (hh : Held c t) :
    (Held (step c t) t ∨ Quiescent (step c t)) ∧ (step c t).log = c.log := by
  obtain ⟨ho, hin, hc, ha⟩ := hh
  have hd := insideK_pos hin
  obtain ⟨d, hd'⟩ : ∃ d, c.depth = d + 1 := ⟨c.depth - 1, by omega⟩
  cases hcur : (c.threads t).cur with
  | nil => rw [hcur] at hin; simp [insideK] at hin
  | cons s cur' =>
    rw [hcur, hd'] at hin
    rw [step_cur hcur]
    have hat : ∀ th : Thread S L, th.rest = (c.threads t).rest → AllAtomic (setThread c t th) :=
      fun th hth => allAtomic_setThread ha (by intro op hop; rw [← hth]; exact hop)
    have hoth : ∀ (th : Thread S L) (i : Nat), i ≠ t → ((setThread c t th).threads i).cur = [] := by
      intro th i hi; simp [setThread, hi, hc i hi]
    cases s with
    | act g =>
      simp only [List.map_cons, MStep.kind, insideK] at hin
      refine ⟨Or.inl ⟨ho, ?_, ?_, ?_⟩, rfl⟩
      · simpa [exec, setThread, hd'] using hin
      · intro i hi; exact hoth _ i hi
      · exact hat _ rfl
    | acq =>
      simp only [List.map_cons, MStep.kind, insideK] at hin
      refine ⟨Or.inl ⟨?_, ?_, ?_, ?_⟩, ?_⟩
      · simp [exec, ho, setThread]
      · simpa [exec, ho, setThread, hd'] using hin
      · intro i hi; simpa [exec, ho] using hoth _ i hi
      · exact allAtomic_congr (by simp [exec, ho]) (hat { c.threads t with cur := cur' } rfl)
      · simp [exec, ho, setThread]
    | rel =>
      simp only [List.map_cons, MStep.kind, insideK] at hin
      by_cases hd0 : d = 0
      · subst hd0
        simp only [if_true, List.isEmpty_iff, List.map_eq_nil_iff] at hin
        subst hin
        refine ⟨Or.inr ⟨?_, ?_, ?_⟩, ?_⟩
        · simp [exec, ho, hd', setThread]
        · intro i
          by_cases hi : i = t
          · simp [exec, ho, hd', setThread, hi]
          · simpa [exec, ho, hd'] using hoth _ i hi
        · exact allAtomic_congr (by simp [exec, ho, hd']) (hat { c.threads t with cur := [] } rfl)
        · simp [exec, ho, hd', setThread]
      · simp only [hd0, if_false] at hin
        have h1 : ¬ (d + 1 ≤ 1) := by omega
        refine ⟨Or.inl ⟨?_, ?_, ?_, ?_⟩, ?_⟩
        · simp [exec, ho, hd', h1, setThread]
        · simpa [exec, ho, hd', h1, setThread] using hin
        · intro i hi; simpa [exec, ho, hd', h1] using hoth _ i hi
        · exact allAtomic_congr (by simp [exec, ho, hd', h1]) (hat { c.threads t with cur := cur' } rfl)
        · simp [exec, ho, hd', h1, setThread]

/-- What is true of every reachable configuration: a serial prefix, plus the partial progress of
    the unique lock holder. -/
def Good (c0 c : Config S L) : Prop :=
  ∃ order cs, SerialRun c0 order cs ∧ Quiescent cs ∧ cs.log = c0.log ++ order ∧
    (c = cs ∨ ∃ t j, 0 < j ∧ c = stepN t j cs ∧ Held c t ∧ c.log = cs.log ++ [t] ∧
      ∀ i, 0 < i → i ≤ j → (stepN t i cs).owner = some t)

theorem good_step {c0 c : Config S L} (hg : Good c0 c) (u : Nat) : Good c0 (step c u) := by
  obtain ⟨order, cs, hs, hq, hl, hc⟩ := hg
  rcases hc with rfl | ⟨t, j, hj, hcj, hh, hlog, hown⟩
  · rcases step_quiescent hq u with h | ⟨h, hlg⟩
    · rw [h]; exact ⟨order, c, hs, hq, hl, Or.inl rfl⟩
    · refine ⟨order, c, hs, hq, hl, Or.inr ⟨u, 1, by omega, rfl, h, hlg, ?_⟩⟩
      intro i hi hi1
      obtain rfl : i = 1 := by omega
      exact h.1
  · by_cases hu : u = t
    · subst hu
      obtain ⟨hcase, hlg⟩ := step_holder hh
      have hstep : step c u = stepN u (j + 1) cs := by rw [hcj]; rfl
      rcases hcase with h | h
      · refine ⟨order, cs, hs, hq, hl, Or.inr ⟨u, j + 1, by omega, hstep, h, by rw [hlg, hlog], ?_⟩⟩
        intro i hi hij
        by_cases hij' : i ≤ j
        · exact hown i hi hij'
        · obtain rfl : i = j + 1 := by omega
          rw [← hstep]; exact h.1
      · refine ⟨order ++ [u], step c u, .snoc hs ⟨j + 1, by omega, hstep, h.1, ?_⟩, h, ?_, Or.inl rfl⟩
        · intro i hi hij; exact hown i hi (by omega)
        · rw [hlg, hlog, hl, List.append_assoc]
    · rw [step_other hh hu]
      exact ⟨order, cs, hs, hq, hl, Or.inr ⟨t, j, hj, hcj, hh, hlog, hown⟩⟩

theorem good_run {c0 : Config S L} (sch : List Nat) : ∀ c, Good c0 c → Good c0 (run sch c) := by
  induction sch with
  | nil => intro c h; exact h
  | cons u sch ih => intro c h; exact ih _ (good_step h u)

end Psi.Conc
