import PsiModel.Stim
import PsiProofs.Helper.C01_Chunk
/-! `envelope()` returns the `[offset, offset+samples)` slice of the full envelope.

Compositional proof: each `get_i`/`get_n` pair is "drop `offset - start_i`, then take what
is left of the request" on segment i (`code_replicate`, `code_slice`), and a window of a
concatenation splits segment by segment (`window_append`). -/
namespace Psi.Stim
open Psi.Chunk

variable {α : Type}

/-- What a request still wanting `rem` samples takes from a segment that starts `d` samples
before the request (`d < 0`: the segment starts after the request start). -/
def seg (l : List α) (d : Int) (rem : Nat) : List α := (l.drop d.toNat).take rem

theorem seg_length (l : List α) (d : Int) (rem : Nat) :
    (seg l d rem).length = min rem (l.length - d.toNat) := by
  simp [seg, List.length_take, List.length_drop]

theorem seg_nil (d : Int) (rem : Nat) : seg ([] : List α) d rem = [] := by simp [seg]

theorem window_append (l₁ rest : List α) (d : Int) (rem : Nat) :
    seg (l₁ ++ rest) d rem
      = seg l₁ d rem ++ seg rest (d - l₁.length) (rem - (seg l₁ d rem).length) := by
  simp only [seg, List.drop_append, List.take_append, List.length_take, List.length_drop]
  congr 1
  have h1 : (d - (l₁.length : Int)).toNat = d.toNat - l₁.length := by omega
  rw [h1]
  apply (List.take_eq_take_iff ..).mpr
  omega

theorem getI_toNat (off st : Int) : (getI off st).toNat = (off - st).toNat := by
  unfold getI; omega

theorem getI_nonneg (off st : Int) : 0 ≤ getI off st := by unfold getI; omega

theorem getN_eq (L rem : Nat) (off st : Int) :
    getN L off st rem = ((min rem (L - (off - st).toNat) : Nat) : Int) := by
  unfold getN clip; omega

theorem code_replicate (v : α) (L rem : Nat) (off st : Int) :
    List.replicate (getN L off st rem).toNat v = seg (List.replicate L v) (off - st) rem := by
  rw [getN_eq]
  simp [seg, List.drop_replicate, List.take_replicate]

theorem code_slice (tbl : List α) (base L rem : Nat) (off st : Int) :
    sliceNN tbl (base + getI off st) (base + getI off st + getN L off st rem)
      = seg ((tbl.drop base).take L) (off - st) rem := by
  have hI := getI_nonneg off st
  have hIt := getI_toNat off st
  rw [getN_eq]
  have e1 : ((base : Int) + getI off st).toNat = base + (off - st).toNat := by omega
  have e2 : ((base : Int) + getI off st + ((min rem (L - (off - st).toNat) : Nat) : Int)).toNat
      = base + (off - st).toNat + min rem (L - (off - st).toNat) := by omega
  simp only [sliceNN, seg, e1, e2]
  rw [List.drop_take, List.drop_take, List.take_take, List.drop_drop]
  congr 1
  omega

theorem getN_len (l : List α) (rem : Nat) (off st : Int) :
    getN l.length off st rem = ((seg l (off - st) rem).length : Int) := by
  rw [getN_eq, seg_length]


theorem getN_len' (l : List α) (L : Nat) (hl : l.length = L) (rem : Nat) (off st : Int) :
    getN L off st rem = ((seg l (off - st) rem).length : Int) := by
  rw [← hl]; exact getN_len l rem off st

theorem code_slice0 (tbl : List α) (L rem : Nat) (off st : Int) :
    sliceNN tbl (getI off st) (getI off st + getN L off st rem)
      = seg (tbl.take L) (off - st) rem := by
  have := code_slice tbl 0 L rem off st
  simpa using this

/-- The four finite segments of the full envelope, laid out from sample 0. -/
def envFull [Sample α] (ramp : Nat → α) (lb dur r : Nat) : List α :=
  List.replicate lb Sample.zero ++ ((rampTable ramp r).take r
    ++ (List.replicate (dur - 2 * r) Sample.one ++ ((rampTable ramp r).drop r).take r))

theorem rem_cast (n : Nat) (l : List α) (d : Int) :
    (n : Int) - ((seg l d n).length : Int) = ((n - (seg l d n).length : Nat) : Int) := by
  have := seg_length l d n
  omega

theorem envelopeFrag_eq_window [Sample α] (ramp : Nat → α) (lb dur r off n : Nat) (h : 2 * r ≤ dur) :
    envelopeFrag ramp lb dur r off n =
      seg (envFull ramp lb dur r) off n
        ++ List.replicate (n - (seg (envFull ramp lb dur r) off n).length) Sample.zero := by
  have hl1 : ((rampTable ramp r).take r).length = r := by simp [rampTable]; omega
  have hl3 : (((rampTable ramp r).drop r).take r).length = r := by simp [rampTable]; omega
  have hss : (dur : Int) - 2 * (r : Int) = ((dur - 2 * r : Nat) : Int) := by omega
  unfold envelopeFrag
  simp only []
  rw [hss]
  -- stage 0: leading zeros
  rw [code_replicate, getN_len' (List.replicate lb (Sample.zero : α)) lb (by simp), rem_cast]
  -- stage 1: onset ramp
  rw [code_slice0, getN_len' _ r hl1, rem_cast]
  -- stage 2: plateau
  rw [code_replicate, getN_len' (List.replicate (dur - 2 * r) (Sample.one : α)) (dur - 2 * r) (by simp), rem_cast]
  -- stage 3: offset ramp
  rw [code_slice, getN_len' _ r hl3, rem_cast]
  -- fold the window back
  unfold envFull
  rw [window_append, window_append, window_append]
  simp only [List.length_replicate, hl1, List.append_assoc]
  have d1 : (off : Int) - 0 - (lb : Int) = (off : Int) - lb := by omega
  have d2 : (off : Int) - lb - (r : Int) = (off : Int) - ((lb : Int) + r) := by omega
  have d3 : (off : Int) - ((lb : Int) + r) - ((dur - 2 * r : Nat) : Int) = (off : Int) - ((lb : Int) + dur - r) := by omega
  simp only [Int.sub_zero] at *
  rw [d2, d3]
  simp only [List.length_append, Nat.sub_sub, Int.toNat_natCast, Nat.add_assoc]


/-- A window of a finite list, padded with `z`, is the slice of the function that reads the
list and is `z` past its end. -/
theorem window_pad_eq_slice (full : List α) (z : α) (f : Nat → α)
    (hin : ∀ k, (hk : k < full.length) → f k = full[k])
    (hout : ∀ k, full.length ≤ k → f k = z) (off n : Nat) :
    seg full off n ++ List.replicate (n - (seg full off n).length) z = slice f off n := by
  apply List.ext_getElem?
  intro i
  rw [slice_getElem?]
  have hlen := seg_length full (off : Int) n
  simp only [Int.toNat_natCast] at hlen
  by_cases hi : i < n
  · simp only [hi, if_true]
    by_cases hk : off + i < full.length
    · rw [List.getElem?_append_left (by omega)]
      simp only [seg, Int.toNat_natCast, List.getElem?_take, hi, if_true, List.getElem?_drop]
      rw [List.getElem?_eq_getElem hk, hin _ hk]
    · rw [List.getElem?_append_right (by omega)]
      rw [List.getElem?_replicate]
      rw [if_pos (by omega), hout _ (by omega)]
  · simp only [hi, if_false]
    apply List.getElem?_eq_none
    simp only [List.length_append, List.length_replicate]
    omega

theorem rampTable_take_getElem? (ramp : Nat → α) (r i : Nat) :
    ((rampTable ramp r).take r)[i]? = if i < r then some (ramp i) else none := by
  simp only [rampTable, List.getElem?_take, List.getElem?_map]
  by_cases h : i < r
  · have : i < 2 * r := by omega
    simp [h, this]
  · simp [h]

theorem rampTable_drop_getElem? (ramp : Nat → α) (r i : Nat) :
    (((rampTable ramp r).drop r).take r)[i]? = if i < r then some (ramp (r + i)) else none := by
  simp only [rampTable, List.getElem?_take, List.getElem?_drop, List.getElem?_map]
  by_cases h : i < r
  · have : r + i < 2 * r := by omega
    simp [h, this]
  · simp [h]

theorem envFull_length [Sample α] (ramp : Nat → α) (lb dur r : Nat) (h : 2 * r ≤ dur) :
    (envFull ramp lb dur r).length = lb + dur := by
  simp [envFull, rampTable]; omega

theorem envFull_getElem? [Sample α] (ramp : Nat → α) (lb dur r : Nat) (h : 2 * r ≤ dur) (k : Nat)
    (hk : k < lb + dur) : (envFull ramp lb dur r)[k]? = some (envAt ramp lb dur r k) := by
  have hl1 : ((rampTable ramp r).take r).length = r := by simp [rampTable]; omega
  unfold envFull envAt
  by_cases c0 : k < lb
  · rw [List.getElem?_append_left (by simpa using c0)]
    simp [c0]
  · rw [List.getElem?_append_right (by simpa using c0)]
    simp only [List.length_replicate, c0, if_false]
    by_cases c1 : k < lb + r
    · rw [List.getElem?_append_left (by omega), rampTable_take_getElem?]
      simp only [c1, if_true]
      rw [if_pos (by omega)]
    · rw [List.getElem?_append_right (by omega)]
      simp only [hl1, c1, if_false]
      by_cases c2 : k < lb + dur - r
      · rw [List.getElem?_append_left (by simp; omega)]
        simp only [c2, if_true, List.getElem?_replicate]
        rw [if_pos (by omega)]
      · rw [List.getElem?_append_right (by simp; omega)]
        simp only [c2, if_false, hk, if_true, List.length_replicate, rampTable_drop_getElem?]
        rw [if_pos (by omega)]
        congr 2
        omega

/-- **Fragment theorem for `envelope()`**: the returned array is exactly the
`[offset, offset+samples)` slice of the full envelope. -/
theorem envelopeFrag_eq_slice [Sample α] (ramp : Nat → α) (lb dur r off n : Nat) (h : 2 * r ≤ dur) :
    envelopeFrag ramp lb dur r off n = slice (envAt ramp lb dur r) off n := by
  rw [envelopeFrag_eq_window ramp lb dur r off n h]
  apply window_pad_eq_slice
  · intro k hk
    rw [envFull_length ramp lb dur r h] at hk
    have := envFull_getElem? ramp lb dur r h k hk
    rw [List.getElem?_eq_getElem (by rw [envFull_length ramp lb dur r h]; exact hk)] at this
    exact (Option.some.inj this).symm
  · intro k hk
    rw [envFull_length ramp lb dur r h] at hk
    unfold envAt
    rw [if_neg (by omega), if_neg (by omega), if_neg (by omega), if_neg (by omega)]

end Psi.Stim
