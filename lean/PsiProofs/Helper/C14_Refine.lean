import PsiModel.Buffer
/-!
C14 helper: the simulation relation between the ring-buffer state and the logical stream,
and its preservation by every state-changing operation.
-/
namespace Psi.Buffer

variable {α : Type}

/-- `Refines s sp`: the storage `s` represents the retained window `[lo, hi)` of the logical
stream `sp.stream`, right-aligned, with `ilb` the index of sample `lo`. -/
structure Refines (s : State α) (sp : Spec α) : Prop where
  cap_eq : s.cap = sp.cap
  cap_pos : 0 < s.cap
  len : s.buf.length = s.cap
  ilb_le : s.ilb ≤ s.cap
  samples_eq : s.samples = sp.stream.length
  lo_le : sp.lo ≤ sp.stream.length
  lb_eq : s.samples + s.ilb = sp.lo + s.cap
  win : s.buf.drop s.ilb = sp.stream.drop sp.lo

theorem refines_init (cap : Nat) (hc : 0 < cap) (f n : α) :
    Refines (init cap f n) (Spec.init cap) := by
  refine ⟨rfl, hc, ?_, ?_, rfl, ?_, ?_, ?_⟩ <;> simp [init, Spec.init]

/-! ### spec arithmetic -/

theorem Spec.append_stream (sp : Spec α) (xs : List α) : (sp.append xs).stream = sp.stream ++ xs := rfl
theorem Spec.append_cap (sp : Spec α) (xs : List α) : (sp.append xs).cap = sp.cap := rfl
theorem Spec.append_lo (sp : Spec α) (xs : List α) (h : sp.lo ≤ sp.stream.length) :
    (sp.append xs).lo = max sp.lo (sp.stream.length + xs.length - sp.cap) := by
  simp only [Spec.append, Spec.retain, Spec.hi, List.length_append]
  omega

theorem Spec.invalidate_of_ge (sp : Spec α) (i : Nat) (h : sp.stream.length ≤ i) :
    sp.invalidate i = sp := by
  simp [Spec.invalidate, Spec.hi, h]

theorem Spec.invalidate_stream (sp : Spec α) (i : Nat) (h : i < sp.stream.length) :
    (sp.invalidate i).stream = sp.stream.take i := by
  have : ¬ i ≥ sp.hi := by simp [Spec.hi]; omega
  simp [Spec.invalidate, this, Spec.retain]
theorem Spec.invalidate_cap (sp : Spec α) (i : Nat) : (sp.invalidate i).cap = sp.cap := by
  unfold Spec.invalidate; split <;> rfl
theorem Spec.invalidate_lo (sp : Spec α) (i : Nat) (h : i < sp.stream.length)
    (hc : sp.stream.length - sp.lo ≤ sp.cap) :
    (sp.invalidate i).lo = min sp.lo i := by
  have : ¬ i ≥ sp.hi := by simp [Spec.hi]; omega
  simp only [Spec.invalidate, this, Spec.retain, if_false, List.length_take]
  omega

theorem Spec.resize_stream (sp : Spec α) (c : Nat) : (sp.resize c).stream = sp.stream := rfl
theorem Spec.resize_cap (sp : Spec α) (c : Nat) : (sp.resize c).cap = c := rfl
theorem Spec.resize_lo (sp : Spec α) (c : Nat) (h : sp.lo ≤ sp.stream.length) :
    (sp.resize c).lo = max sp.lo (sp.stream.length - c) := by
  simp only [Spec.resize, Spec.retain, Spec.hi]
  omega

/-- In a state that refines a spec the window is never longer than the capacity. -/
theorem Refines.window_le {s : State α} {sp : Spec α} (r : Refines s sp) :
    sp.stream.length - sp.lo ≤ sp.cap := by
  have := r.lb_eq; have := r.samples_eq; have := r.cap_eq; have := r.ilb_le
  omega

/-! ### append -/

theorem refines_append {s : State α} {sp : Spec α} (r : Refines s sp) (xs : List α) :
    Refines (append s xs) (sp.append xs) := by
  obtain ⟨hcap, hpos, hlen, hilb, hsam, hlo, hlb, hwin⟩ := r
  have hlo' := Spec.append_lo sp xs hlo
  by_cases hn : xs.length > s.cap
  · -- the chunk alone overfills the buffer
    have e : append s xs = { s with buf := xs.drop (xs.length - s.cap), ilb := 0,
                                    samples := s.samples + xs.length } := by
      simp [append, hn]
    rw [e]
    refine ⟨hcap, hpos, ?_, Nat.zero_le _, ?_, ?_, ?_, ?_⟩
    · simp only [List.length_drop]; omega
    · simp [Spec.append_stream, hsam]
    · rw [hlo', Spec.append_stream, List.length_append]; omega
    · simp only; rw [hlo']; omega
    · simp only [List.drop_zero]
      rw [hlo', Spec.append_stream]
      have : max sp.lo (sp.stream.length + xs.length - sp.cap)
          = sp.stream.length + (xs.length - s.cap) := by omega
      rw [this, List.drop_append]
      simp
  · have e : append s xs = { s with buf := s.buf.drop xs.length ++ xs, ilb := s.ilb - xs.length,
                                    samples := s.samples + xs.length } := by
      simp [append, hn]
    rw [e]
    refine ⟨hcap, hpos, ?_, ?_, ?_, ?_, ?_, ?_⟩
    · simp only [List.length_append, List.length_drop]; omega
    · simp only; omega
    · simp [Spec.append_stream, hsam]
    · rw [hlo', Spec.append_stream, List.length_append]; omega
    · simp only; rw [hlo']; omega
    · simp only
      rw [hlo', Spec.append_stream]
      by_cases hk : xs.length ≤ s.ilb
      · -- the window still fits: nothing is dropped
        have h1 : max sp.lo (sp.stream.length + xs.length - sp.cap) = sp.lo := by omega
        rw [h1, List.drop_append_of_le_length (by simp only [List.length_drop]; omega),
            List.drop_append_of_le_length hlo, List.drop_drop]
        have : xs.length + (s.ilb - xs.length) = s.ilb := by omega
        rw [this, hwin]
      · -- the oldest `n - ilb` samples of the window fall out
        have h1 : max sp.lo (sp.stream.length + xs.length - sp.cap)
            = sp.lo + (xs.length - s.ilb) := by omega
        have h2 : s.ilb - xs.length = 0 := by omega
        rw [h1, h2, List.drop_zero,
            List.drop_append_of_le_length (by omega)]
        have : xs.length = s.ilb + (xs.length - s.ilb) := by omega
        rw [this, ← List.drop_drop, hwin, List.drop_drop]
        congr 2
        omega

/-! ### invalidate -/

theorem refines_invalidate {s : State α} {sp : Spec α} (r : Refines s sp) (i : Nat) :
    Refines (invalidateSamples s i) (sp.invalidate i) := by
  have hwle := r.window_le
  obtain ⟨hcap, hpos, hlen, hilb, hsam, hlo, hlb, hwin⟩ := r
  by_cases hi : i ≥ s.samples
  · have : invalidateSamples s i = s := by simp [invalidateSamples, hi]
    rw [this, Spec.invalidate_of_ge sp i (by omega)]
    exact ⟨hcap, hpos, hlen, hilb, hsam, hlo, hlb, hwin⟩
  · have hi' : i < sp.stream.length := by omega
    have hst := Spec.invalidate_stream sp i hi'
    have hlo' := Spec.invalidate_lo sp i hi' hwle
    have hc' := Spec.invalidate_cap sp i
    by_cases hb : toIndex s i ≤ s.ilb
    · -- at or before the lower bound: everything is dropped
      have e : invalidateSamples s i =
          { s with buf := List.replicate s.buf.length s.fillv, ilb := s.cap, samples := s.samples - (s.samples - i) } := by
        simp [invalidateSamples, hi, invalidateIdx, hb]
      have hile : i ≤ sp.lo := by simp only [toIndex] at hb; omega
      rw [e]
      refine ⟨by rw [hc']; exact hcap, hpos, ?_, Nat.le_refl _, ?_, ?_, ?_, ?_⟩
      · simp [hlen]
      · simp only; rw [hst, List.length_take]; omega
      · rw [hlo', hst, List.length_take]; omega
      · simp only; rw [hlo']; omega
      · simp only
        rw [hlo', hst]
        have : min sp.lo i = i := by omega
        rw [this, List.drop_of_length_le (by simp [hlen]),
            List.drop_of_length_le (by simp only [List.length_take]; omega)]
    · -- strictly inside the window: the surviving prefix is shifted to the right end
      have hb' : s.ilb < (toIndex s i).toNat := by omega
      have hk : (toIndex s i).toNat = i - sp.lo + s.ilb := by simp only [toIndex] at hb ⊢; omega
      have hgt : sp.lo < i := by simp only [toIndex] at hb; omega
      have e : invalidateSamples s i =
          { s with buf := List.replicate (s.buf.length - (toIndex s i).toNat) s.nanv
                            ++ s.buf.take (toIndex s i).toNat,
                   ilb := s.ilb + s.cap - (toIndex s i).toNat,
                   samples := s.samples - (s.samples - i) } := by
        simp [invalidateSamples, hi, invalidateIdx, hb]
      rw [e, hk]
      refine ⟨by rw [hc']; exact hcap, hpos, ?_, ?_, ?_, ?_, ?_, ?_⟩
      · simp only [List.length_append, List.length_replicate, List.length_take]; omega
      · simp only; omega
      · simp only; rw [hst, List.length_take]; omega
      · rw [hlo', hst, List.length_take]; omega
      · simp only; rw [hlo']; omega
      · simp only
        rw [hlo', hst]
        have h1 : min sp.lo i = sp.lo := by omega
        have h2 : s.ilb + s.cap - (i - sp.lo + s.ilb)
            = (s.buf.length - (i - sp.lo + s.ilb)) + s.ilb := by omega
        rw [h1, h2, ← List.drop_drop, List.drop_left' (by simp), List.drop_take, List.drop_take, hwin]
        congr 1
        omega

end Psi.Buffer
