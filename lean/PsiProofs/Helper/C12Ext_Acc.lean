import PsiProofs.Helper.C12Ext_Lemmas
/-! `accumulate`: run lemma from any buffered state (EXT12). -/
namespace Psi.StagesExt
open Psi.Stages
variable {α β ρ χ μ σ I O B E : Type}

/-- what `target` received, in order (the `Ellipsis` signals left out) -/
def emitted : List (AccEv O) → List O
  | [] => []
  | .emit o :: l => o :: emitted l
  | _ :: l => emitted l

/-- what `status_cb` received, in order -/
def statuses : List (AccEv O) → List Nat
  | [] => []
  | .status k :: l => k :: statuses l
  | _ :: l => statuses l

/-- number of `Ellipsis` signals passed on -/
def restarts : List (AccEv O) → Nat
  | [] => 0
  | .restart :: l => restarts l + 1
  | _ :: l => restarts l

theorem emitted_append (a b : List (AccEv O)) : emitted (a ++ b) = emitted a ++ emitted b := by
  induction a with
  | nil => rfl
  | cons x a ih => cases x <;> simp [emitted, ih]

theorem statuses_append (a b : List (AccEv O)) : statuses (a ++ b) = statuses a ++ statuses b := by
  induction a with
  | nil => rfl
  | cons x a ih => cases x <;> simp [statuses, ih]

theorem restarts_append (a b : List (AccEv O)) : restarts (a ++ b) = restarts a + restarts b := by
  induction a with
  | nil => simp [restarts]
  | cons x a ih => cases x <;> simp [restarts, ih] <;> omega

/-- the status values: buffered count after each block, `0` right after an emission -/
def statusSpec (n len m : Nat) : List Nat := (List.range m).map (fun i => (len + i + 1) % n)

theorem statusSpec_succ (n len m : Nat) :
    statusSpec n len (m + 1) = (len + 1) % n :: statusSpec n (len + 1) m := by
  simp only [statusSpec, List.range_succ_eq_map, List.map_cons, List.map_map]
  congr 1
  apply List.map_congr_left
  intro i _
  simp only [Function.comp]
  congr 1
  omega

theorem statusSpec_mod (n len m : Nat) (_hn : 0 < n) : statusSpec n (len + n) m = statusSpec n len m := by
  simp only [statusSpec]
  apply List.map_congr_left
  intro i _
  have : len + n + i + 1 = len + i + 1 + n := by omega
  rw [this, Nat.add_mod_right]

theorem drop_full_group (n : Nat) (hn : 0 < n) (d r : List B) (hd : d.length = n) :
    (d ++ r).drop ((d ++ r).length / n * n) = r.drop (r.length / n * n) := by
  rw [List.length_append, hd, div_mul_step n (n + r.length) hn (by omega)]
  have : n + r.length - n = r.length := by omega
  rw [this, ← List.drop_drop, List.drop_append_of_le_length (by omega)]
  have : d.drop n = [] := by rw [← hd]; exact List.drop_length
  rw [this, List.nil_append]

/-- `accumulate` over blocks only, from a buffer `st` shorter than `n`: one emission per complete group of `n`
(in the order of arrival), the incomplete group stays buffered, the status callback sees the buffered count. -/
theorem accumulate_run (n : Nat) (hn : 0 < n) (nx : B → B) (join : List B → Except XErr O) (j : List B → O)
    (cb : Bool) : ∀ (bs : List B) (st : List B), st.length < n →
    (∀ g ∈ blocksOf n (st ++ bs.map nx), join g = .ok (j g)) →
    ∃ evs, run (accumulateStep n nx join cb) st (bs.map Sig.data)
        = .ok (evs, (st ++ bs.map nx).drop ((st ++ bs.map nx).length / n * n)) ∧
      emitted evs = (blocksOf n (st ++ bs.map nx)).map j ∧
      statuses evs = (if cb then statusSpec n st.length bs.length else []) ∧
      restarts evs = 0 := by
  intro bs
  induction bs with
  | nil =>
    intro st hst _
    refine ⟨[], ?_, ?_, ?_, rfl⟩
    · simp [run, Nat.div_eq_of_lt hst]
    · simp [emitted, blocksOf_short n st hst]
    · cases cb <;> simp [statuses, statusSpec]
  | cons b bs ih =>
    intro st hst hj
    simp only [List.map_cons, List.length_cons] at hj ⊢
    have hassoc : st ++ nx b :: bs.map nx = (st ++ [nx b]) ++ bs.map nx := by simp
    rcases Nat.lt_or_ge (st.length + 1) n with hlt | hge
    · -- the group is still incomplete
      have hstep : accumulateStep n nx join cb st (.data b)
          = .ok (if cb then [.status (st.length + 1)] else [], st ++ [nx b]) := by
        simp only [accumulateStep, List.length_append, List.length_cons, List.length_nil]
        rw [if_neg (by omega)]
      obtain ⟨evs, hrun, hem, hstat, hres⟩ := ih (st ++ [nx b]) (by simp; omega) (by rw [← hassoc]; exact hj)
      refine ⟨(if cb then [.status (st.length + 1)] else []) ++ evs, ?_, ?_, ?_, ?_⟩
      · simp only [run, hstep, hrun]; rw [hassoc]
      · rw [emitted_append, hem, hassoc]; cases cb <;> simp [emitted]
      · rw [statuses_append, hstat]
        cases cb
        · simp [statuses]
        · simp only [if_true, statuses, List.length_cons, statusSpec_succ, List.length_append, List.length_nil]
          rw [Nat.mod_eq_of_lt hlt]; rfl
      · rw [restarts_append, hres]; cases cb <;> simp [restarts]
    · -- this block completes a group
      have hlen : (st ++ [nx b]).length = n := by simp; omega
      have hblocks : blocksOf n (st ++ nx b :: bs.map nx) = (st ++ [nx b]) :: blocksOf n (bs.map nx) := by
        rw [hassoc, blocksOf_step n hn _ (by simp; omega), List.take_append_of_le_length (by omega),
          List.drop_append_of_le_length (by omega), ← hlen, List.take_length, List.drop_length, List.nil_append]
      have hjoin : join (st ++ [nx b]) = .ok (j (st ++ [nx b])) := hj _ (by rw [hblocks]; simp)
      have hstep : accumulateStep n nx join cb st (.data b)
          = .ok (.emit (j (st ++ [nx b])) :: (if cb then [.status 0] else []), []) := by
        simp only [accumulateStep]
        rw [if_pos hlen, hjoin]
      obtain ⟨evs, hrun, hem, hstat, hres⟩ := ih [] (by simpa using hn) (by
        intro g hg; apply hj; rw [hblocks]; simp only [List.nil_append] at hg; simp [hg])
      simp only [List.nil_append] at hrun hem hstat
      refine ⟨(.emit (j (st ++ [nx b])) :: (if cb then [.status 0] else [])) ++ evs, ?_, ?_, ?_, ?_⟩
      · simp only [run, hstep, hrun]
        rw [hassoc, drop_full_group n hn _ _ hlen]
      · rw [emitted_append, hem, hblocks]; cases cb <;> simp [emitted]
      · rw [statuses_append, hstat]
        cases cb
        · simp [statuses]
        · have h1 : st.length + 1 = n := by omega
          simp only [if_true, statuses, statusSpec_succ, List.length_nil, h1, Nat.mod_self]
          have := statusSpec_mod n 0 bs.length hn
          simp only [Nat.zero_add] at this
          rw [this]; rfl
      · rw [restarts_append, hres]; cases cb <;> simp [restarts]

/-! ### `accumulate` along time on an annotated stream -/

theorem stream_length (ann : Ann ρ χ μ) : ∀ (cs : List (List α)) (s : Int), (stream ann s cs).length = cs.length := by
  intro cs
  induction cs with
  | nil => intro s; rfl
  | cons c cs ih => intro s; simp [stream, ih]

theorem stream_append (ann : Ann ρ χ μ) : ∀ (xs ys : List (List α)) (s : Int),
    stream ann s (xs ++ ys) = stream ann s xs ++ stream ann (s + xs.flatten.length) ys := by
  intro xs
  induction xs with
  | nil => intro ys s; simp [stream]
  | cons x xs ih =>
    intro ys s
    simp only [List.cons_append, stream, ih, List.flatten_cons, List.length_append]
    congr 3
    omega

theorem stream_emits (ann : Ann ρ χ μ) : ∀ (cs : List (List α)) (s : Int),
    Emits (stream ann s cs) cs.flatten 1 s ann := by
  intro cs
  induction cs with
  | nil => intro s; exact Emits.nil 1 s ann
  | cons c cs ih =>
    intro s
    exact Emits.cons _ (ih (s + c.length)) rfl rfl (by simp [PD.len]) (by simp)

/-- `concat` of the annotated chunks of a contiguous stream -/
theorem joinTime_stream (ann : Ann ρ χ μ) (g : List (List α)) (s : Int) (hg : g ≠ []) :
    joinTime (stream ann s g) = .ok { data := g.flatten, s0 := s, ann := ann } := by
  have hne : stream ann s g ≠ [] := by
    intro h; have := stream_length ann g s; rw [h] at this; cases g <;> simp_all
  simp [joinTime, (stream_emits ann g s).catAll_ok hne]

/-- the complete groups of `n` chunks of a stream, each with the `s0` where it starts -/
def groupStreams (ann : Ann ρ χ μ) (n : Nat) : Nat → Int → List (List α) → List (List (PD α ρ χ μ))
  | 0, _, _ => []
  | fuel + 1, s, cs =>
    if n ≤ cs.length then
      stream ann s (cs.take n) :: groupStreams ann n fuel (s + (cs.take n).flatten.length) (cs.drop n)
    else []

theorem blocksOf_stream (ann : Ann ρ χ μ) (n : Nat) (hn : 0 < n) : ∀ (fuel : Nat) (cs : List (List α)) (s : Int),
    cs.length ≤ fuel → blocksOf n (stream ann s cs) = groupStreams ann n fuel s cs := by
  intro fuel
  induction fuel with
  | zero =>
    intro cs s h
    have : cs = [] := List.eq_nil_of_length_eq_zero (by omega)
    subst this
    simp [groupStreams, stream, blocksOf_short n ([] : List (PD α ρ χ μ)) (by simpa using hn)]
  | succ fuel ih =>
    intro cs s h
    simp only [groupStreams]
    split
    · rename_i hge
      have hsplit : stream ann s cs
          = stream ann s (cs.take n) ++ stream ann (s + (cs.take n).flatten.length) (cs.drop n) := by
        rw [← stream_append, List.take_append_drop]
      have hl : (stream ann s (cs.take n)).length = n := by
        rw [stream_length, List.length_take]; omega
      rw [blocksOf_step n hn _ (by rw [stream_length]; exact hge)]
      conv => lhs; rw [hsplit]
      have htake : (stream ann s (cs.take n)).take n = stream ann s (cs.take n) :=
        List.take_of_length_le (by omega)
      have hdrop : (stream ann s (cs.take n)).drop n = [] := List.drop_eq_nil_of_le (by omega)
      rw [List.take_append_of_le_length (by omega), List.drop_append_of_le_length (by omega), htake, hdrop,
        List.nil_append, ih _ _ (by simp; omega)]
    · rename_i hlt
      exact blocksOf_short n _ (by rw [stream_length]; omega)

/-- what `concat(group, axis=-1)` returns for a group of chunks of the stream -/
def jt (ann : Ann ρ χ μ) (g : List (PD α ρ χ μ)) : PD α ρ χ μ :=
  match g with
  | [] => { data := [], s0 := 0, ann := ann }
  | a :: _ => { data := outData g, s0 := a.s0, ann := ann }

theorem jt_stream (ann : Ann ρ χ μ) (g : List (List α)) (s : Int) (hg : g ≠ []) :
    jt ann (stream ann s g) = { data := g.flatten, s0 := s, ann := ann } := by
  cases g with
  | nil => exact absurd rfl hg
  | cons c g =>
    have := (stream_emits ann (c :: g) s).data
    simp only [stream] at this ⊢
    simp only [jt, this]

theorem groupStreams_spec (ann : Ann ρ χ μ) (n : Nat) (hn : 0 < n) : ∀ (fuel : Nat) (cs : List (List α)) (s : Int),
    cs.length ≤ fuel →
    (∀ g ∈ groupStreams ann n fuel s cs, joinTime g = .ok (jt ann g)) ∧
    Emits ((groupStreams ann n fuel s cs).map (jt ann)) (cs.take (cs.length / n * n)).flatten 1 s ann := by
  intro fuel
  induction fuel with
  | zero =>
    intro cs s h
    have : cs = [] := List.eq_nil_of_length_eq_zero (by omega)
    subst this
    exact ⟨by simp [groupStreams], by simpa [groupStreams] using Emits.nil 1 s ann⟩
  | succ fuel ih =>
    intro cs s h
    simp only [groupStreams]
    split
    · rename_i hge
      have hne : cs.take n ≠ [] := by
        intro h0; have := congrArg List.length h0; rw [List.length_take, List.length_nil] at this; omega
      obtain ⟨ih1, ih2⟩ := ih (cs.drop n) (s + (cs.take n).flatten.length) (by simp; omega)
      have hj0 : joinTime (stream ann s (cs.take n)) = .ok (jt ann (stream ann s (cs.take n))) := by
        rw [joinTime_stream ann _ s hne, jt_stream ann _ s hne]
      constructor
      · intro g hg
        rcases List.mem_cons.mp hg with rfl | hg
        · exact hj0
        · exact ih1 g hg
      · rw [List.map_cons, jt_stream ann _ s hne]
        refine Emits.cons _ ih2 rfl rfl (by simp [PD.len]) ?_
        rw [List.length_drop, div_mul_step n cs.length hn hge, List.take_add, List.flatten_append]
    · rename_i hlt
      have hlt : cs.length < n := by omega
      exact ⟨by simp, by simpa [Nat.div_eq_of_lt hlt] using Emits.nil 1 s ann⟩

end Psi.StagesExt
