import PsiModel.Chunk
/-! Generic chunk algebra: additivity implies chunk invariance; closure under the combinators. -/
namespace Psi.Chunk

/-- A generator is *additive* when a request for `m + n` samples is a request for `m`
followed by a request for `n`, and every request is served in full. -/
structure Additive {σ α : Type} (g : Gen σ α) : Prop where
  len : ∀ s n, (g.next s n).1.length = n
  add : ∀ s m n, (g.next s (m + n)).1 = (g.next s m).1 ++ (g.next (g.next s m).2 n).1
  addState : ∀ s m n, (g.next s (m + n)).2 = (g.next (g.next s m).2 n).2

theorem Additive.chunkInvariant {σ α : Type} {g : Gen σ α} (h : Additive g) (s : σ) :
    ChunkInvariant g s := by
  intro ns
  induction ns generalizing s with
  | nil =>
    have := h.len s 0
    simp only [drawAll, List.sum_nil]
    exact (List.eq_nil_of_length_eq_zero this).symm
  | cons n ns ih =>
    simp only [drawAll, List.sum_cons]
    rw [ih, h.add]

/-- State reached by a history = state reached by the single request. -/
theorem Additive.stateAfter_eq {σ α : Type} {g : Gen σ α} (h : Additive g)
    (hz : ∀ s, (g.next s 0).2 = s) (s : σ) (ns : List Nat) :
    stateAfter g s ns = (g.next s ns.sum).2 := by
  induction ns generalizing s with
  | nil => simp [stateAfter, hz]
  | cons n ns ih => simp only [stateAfter, List.sum_cons]; rw [ih, h.addState]

/-! ### slices -/

theorem slice_length {α : Type} (f : Nat → α) (off n : Nat) : (slice f off n).length = n := by
  simp [slice]

theorem slice_add {α : Type} (f : Nat → α) (off m n : Nat) :
    slice f off (m + n) = slice f off m ++ slice f (off + m) n := by
  simp only [slice, List.range_add, List.map_append, List.map_map]
  congr 1
  apply List.map_congr_left
  intro i _
  simp [Nat.add_assoc]

theorem slice_getElem? {α : Type} (f : Nat → α) (off n i : Nat) :
    (slice f off n)[i]? = if i < n then some (f (off + i)) else none := by
  simp only [slice, List.getElem?_map]
  split <;> simp_all

theorem pointwise_additive {α : Type} (f : Nat → α) : Additive (pointwise f) where
  len s n := by simp [pointwise, slice_length]
  add s m n := by simp [pointwise, slice_add]
  addState s m n := by simp [pointwise, Nat.add_assoc]

/-! ### streams -/

theorem drawN_length {τ α : Type} (draw : τ → α × τ) (t : τ) (n : Nat) :
    (drawN draw t n).1.length = n := by
  induction n generalizing t with
  | zero => simp [drawN]
  | succ n ih => simp [drawN, ih]

theorem drawN_add {τ α : Type} (draw : τ → α × τ) (t : τ) (m n : Nat) :
    drawN draw t (m + n) =
      ((drawN draw t m).1 ++ (drawN draw (drawN draw t m).2 n).1, (drawN draw (drawN draw t m).2 n).2) := by
  induction m generalizing t with
  | zero => simp [drawN]
  | succ m ih =>
    have : m + 1 + n = (m + n) + 1 := by omega
    rw [this]
    simp only [drawN, ih, List.cons_append]

theorem stream_additive {τ α : Type} (draw : τ → α × τ) : Additive (stream draw) where
  len s n := drawN_length draw s n
  add s m n := by simp [stream, drawN_add]
  addState s m n := by simp [stream, drawN_add]

/-! ### map -/

theorem mapG_additive {σ α β : Type} (f : α → β) {g : Gen σ α} (h : Additive g) : Additive (mapG f g) where
  len s n := by simp [mapG, h.len]
  add s m n := by simp [mapG, h.add]
  addState s m n := by simp [mapG, h.addState]

/-! ### Mealy machines -/

theorem runMealy_length {τ α β : Type} (step : τ → α → β × τ) (t : τ) (l : List α) :
    (runMealy step t l).1.length = l.length := by
  induction l generalizing t with
  | nil => simp [runMealy]
  | cons x xs ih => simp [runMealy, ih]

theorem runMealy_append {τ α β : Type} (step : τ → α → β × τ) (t : τ) (l₁ l₂ : List α) :
    runMealy step t (l₁ ++ l₂) =
      ((runMealy step t l₁).1 ++ (runMealy step (runMealy step t l₁).2 l₂).1,
        (runMealy step (runMealy step t l₁).2 l₂).2) := by
  induction l₁ generalizing t with
  | nil => simp [runMealy]
  | cons x xs ih => simp only [List.cons_append, runMealy, ih]

theorem mealy_additive {σ τ α β : Type} (step : τ → α → β × τ) {g : Gen σ α} (h : Additive g) :
    Additive (mealy step g) where
  len s n := by simp [mealy, runMealy_length, h.len]
  add s m n := by simp [mealy, h.add, h.addState, runMealy_append]
  addState s m n := by simp [mealy, h.add, h.addState, runMealy_append]

/-! ### position-dependent transforms -/

theorem applyAt_length {α β : Type} (h : Nat → α → β) (off : Nat) (l : List α) :
    (applyAt h off l).length = l.length := by
  induction l generalizing off with
  | nil => simp [applyAt]
  | cons x xs ih => simp [applyAt, ih]

theorem applyAt_append {α β : Type} (h : Nat → α → β) (off : Nat) (l₁ l₂ : List α) :
    applyAt h off (l₁ ++ l₂) = applyAt h off l₁ ++ applyAt h (off + l₁.length) l₂ := by
  induction l₁ generalizing off with
  | nil => simp [applyAt]
  | cons x xs ih =>
    simp only [List.cons_append, applyAt, ih, List.length_cons]
    congr 3
    omega

theorem applyAt_getElem? {α β : Type} (h : Nat → α → β) (off : Nat) (l : List α) (i : Nat) :
    (applyAt h off l)[i]? = (l[i]?).map (h (off + i)) := by
  induction l generalizing off i with
  | nil => simp [applyAt]
  | cons x xs ih =>
    cases i with
    | zero => simp [applyAt]
    | succ i =>
      simp only [applyAt, List.getElem?_cons_succ, ih]
      congr 2
      omega

theorem transformAt_additive {σ α β : Type} (f : Nat → α → β) {g : Gen σ α} (h : Additive g) :
    Additive (transformAt f g) where
  len s n := by simp [transformAt, applyAt_length, h.len]
  add s m n := by simp [transformAt, h.add, h.addState, applyAt_append]
  addState s m n := by simp [transformAt, h.add, h.addState, h.len, Nat.add_assoc]

/-- Modulation by a fragment function that is the slice of a pointwise function. -/
theorem zipWith_slice_eq_applyAt {α β γ : Type} (mul : α → β → γ) (f : Nat → α) (off : Nat) (l : List β) :
    List.zipWith mul (slice f off l.length) l = applyAt (fun k x => mul (f k) x) off l := by
  induction l generalizing off with
  | nil => simp [applyAt, slice]
  | cons x xs ih =>
    have h1 : slice f off (xs.length + 1) = f off :: slice f (off + 1) xs.length := by
      have := slice_add f off 1 xs.length
      rw [Nat.add_comm] at this
      rw [this]
      simp [slice]
    simp only [List.length_cons, h1, List.zipWith_cons_cons, applyAt, ih]

end Psi.Chunk
