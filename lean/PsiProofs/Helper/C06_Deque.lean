import PsiProofs.Helper.C06_NoPause
/-!
Helper for C06 (composition): the code's own schedule is admissible.  `extract_epochs` drains both
deques in every call; the queue notifies at generation time, i.e. before the trial's samples are
played, hence before they are acquired.  So a pending `added` notification always names a trial
that starts at or after the acquisition position, and `visible_of_recent` (C05) puts it inside the
look-back window as soon as the buffer covers the pre-stimulus time.
-/
namespace Psi.E2E
open Psi.Queue Psi.Extract

/-- pending `added` notifications were issued before their samples were acquired -/
def DInv (c : Cfg) (J : JState) : Prop := ∀ i, Note.add i ∈ J.pend → (J.acq : Int) ≤ (c.K0 : Int) + i.k

theorem tick_new_late {K0 : Int} {q q' : QState} {tl : List Cell} {c : Cell} (inv : QInv K0 q tl)
    (h : tick q = .ok (c, q')) : ∀ i ∈ q'.added, i ∈ q.added ∨ (tl.length : Int) ≤ K0 + i.k := by
  obtain ⟨tv, _, _⟩ := tick_view inv.len inv.idle h
  cases tv with
  | quiet z hg ha hv => intro i hi; rw [ha] at hi; exact Or.inl hi
  | start info hg ha hk hl hu hv =>
    intro i hi
    rw [ha] at hi
    rcases List.mem_append.1 hi with hi | hi
    · exact Or.inl hi
    · simp only [List.mem_singleton] at hi; subst hi
      right
      simp only [List.length_append] at hk
      omega

theorem runTicks_new_late {K0 : Int} (n : Nat) {q q' : QState} {tl cs : List Cell} (inv : QInv K0 q tl)
    (h : runTicks n q = .ok (cs, q')) : ∀ i ∈ q'.added, i ∈ q.added ∨ (tl.length : Int) ≤ K0 + i.k := by
  induction n generalizing q tl cs with
  | zero => simp [runTicks] at h; obtain ⟨_, rfl⟩ := h; exact fun i hi => Or.inl hi
  | succ n ih =>
    rw [runTicks] at h
    cases ht : tick q with
    | error e => simp [ht] at h
    | ok r =>
      obtain ⟨c, s1⟩ := r
      simp only [ht] at h
      cases hr : runTicks n s1 with
      | error e => simp [hr] at h
      | ok r2 =>
        obtain ⟨cs2, s2⟩ := r2
        simp only [hr, Except.ok.injEq, Prod.mk.injEq] at h
        obtain ⟨_, rfl⟩ := h
        intro i hi
        rcases ih (QInv_tick inv ht).1 hr i hi with h1 | h1
        · exact tick_new_late inv ht i h1
        · right; simp only [List.length_append, List.length_singleton] at h1; omega

theorem DInv_step (c : Cfg) {J J' : JState} (ev : Ev) (inv : JInv c J) (d : DInv c J)
    (h : jstep c J ev = .ok J') (hdrain : ∀ n vis cpl, ev = .acq n vis cpl → J.pend.length ≤ vis) :
    DInv c J' := by
  cases ev with
  | q op =>
    cases op with
    | pop n =>
      simp only [jstep] at h
      split at h
      · cases h
      · rename_i out q' hp
        simp only [Except.ok.injEq] at h; subst h
        obtain ⟨qi, hpre, _⟩ := QInv_pop inv.q hp
        have hadd : q'.added = J.q.added ++ q'.added.drop J.q.added.length :=
          (List.prefix_iff_eq_append.1 hpre).symm
        have hnd : (J.q.added ++ q'.added.drop J.q.added.length).Nodup := by
          have : (q'.added.map (·.uid)).Nodup := by rw [qi.uid]; exact List.nodup_range
          rw [← hadd]; exact (nodup_of_map _ _ this).1
        have hn : 0 < n := by
          rcases Nat.eq_zero_or_pos n with h0 | h0
          · subst h0; simp [popBuffer] at hp
          · exact h0
        rw [popBuffer_refines inv.q.wf hn] at hp
        have hlate := runTicks_new_late n inv.q hp
        intro i hi
        rcases List.mem_append.1 hi with hi | hi
        · exact d i hi
        · simp only [List.mem_map, Note.add.injEq] at hi
          obtain ⟨a, ha, rfl⟩ := hi
          rcases hlate a (by rw [hadd]; exact List.mem_append_right _ ha) with h1 | h1
          · exact absurd rfl ((List.nodup_append.1 hnd).2.2 a h1 a ha)
          · have := inv.acq; simp only; omega
    | pause m =>
      cases m with
      | none =>
        simp only [jstep] at h
        split at h
        · simp only [Except.ok.injEq] at h; subst h; exact d
        · cases h
      | some m =>
        simp only [jstep] at h
        split at h
        · cases h
        · split at h
          · cases h
          · simp only [Except.ok.injEq] at h; subst h
            intro i hi
            rcases List.mem_append.1 hi with hi | hi
            · exact d i hi
            · simp at hi
    | resume m =>
      cases m with
      | none => simp only [jstep, Except.ok.injEq] at h; subst h; exact d
      | some m =>
        simp only [jstep] at h
        split at h
        · cases h
        · split at h
          · cases h
          · simp only [Except.ok.injEq] at h; subst h; exact d
  | acq n vis complete =>
    simp only [jstep] at h
    split at h
    · cases h
    · split at h
      · cases h
      · split at h
        · cases h
        · simp only [Except.ok.injEq] at h; subst h
          intro i hi
          have : J.pend.drop vis = [] := List.drop_eq_nil_of_le (hdrain n vis complete rfl)
          simp only [this] at hi
          cases hi

/-- a draining acquisition call (any size within what was played) is never late -/
theorem deque_step_ok (c : Cfg) {J : JState} (inv : JInv c J) (d : DInv c J) (hPB : c.P ≤ c.B)
    (hpre : ∀ i, Note.add i ∈ J.pend → (c.P : Int) ≤ (c.K0 : Int) + i.k)
    (n vis : Nat) (complete : Bool) (hn : J.acq + n ≤ J.tl.length) (hvis : J.pend.length ≤ vis) :
    ∃ J', jstep c J (.acq n vis complete) = .ok J' := by
  have h1 : ¬ J.tl.length < J.acq + n := by omega
  have h2 : ¬ ((J.pend.take vis).filterMap (Note.req? c)).all
      (fun r => decide ((lookbackStart c.B J.eops : Int) ≤ r.s)) = false := by
    rw [Bool.not_eq_false, List.all_eq_true]
    intro r hr
    obtain ⟨nt, hnt, he⟩ := List.mem_filterMap.1 hr
    cases nt with
    | rem i => simp [Note.req?] at he
    | add i =>
      simp only [Note.req?, Option.some.injEq] at he
      subst he
      have hi := List.mem_of_mem_take hnt
      have ha := d i hi
      have hp := hpre i hi
      have hvr := visible_of_recent c.B J.eops (reqOf c i).s.toNat (by
        rw [inv.tot]; simp only [reqOf]; omega)
      simp only [decide_eq_true_eq]
      have : ((reqOf c i).s.toNat : Int) = (reqOf c i).s := by
        simp only [reqOf]; omega
      omega
  have h3 : ¬ (J.pend.drop vis).all (lateRemovalOk c (J.acq + n)) = false := by
    rw [List.drop_eq_nil_of_le hvis]; simp
  simp only [jstep, if_neg h1, if_neg h2, if_neg h3]
  exact ⟨_, rfl⟩

/-- every acquisition call of the history drains the notification FIFO: the code's deques -/
def drains (c : Cfg) : List Ev → JState → Bool
  | [], _ => true
  | ev :: evs, J =>
    (match ev with
     | .acq _ vis _ => decide (J.pend.length ≤ vis)
     | .q _ => true) &&
    (match jstep c J ev with
     | .ok J' => drains c evs J'
     | .error _ => true)

theorem DInv_run (c : Cfg) (henc : EncInj c) (evs : List Ev) {J J' : JState} (inv : JInv c J) (d : DInv c J)
    (hdr : drains c evs J = true) (h : jrun c evs J = .ok J')
    (hside : SideOK c J'.q.added) : DInv c J' := by
  induction evs generalizing J with
  | nil => simp only [jrun, Except.ok.injEq] at h; subst h; exact d
  | cons ev evs ih =>
    have hp := jrun_mono c (ev :: evs) inv.q.wf h
    simp only [jrun] at h
    split at h
    · cases h
    · rename_i J1 hs
      simp only [drains, hs, Bool.and_eq_true] at hdr
      have inv1 : JInv c J1 := JInv_step c henc ev inv hs (fun _ => SideOK_prefix hside hp)
      refine ih inv1 (DInv_step c ev inv d hs ?_) hdr.2 h
      intro n vis cpl he
      subst he
      simpa using hdr.1

end Psi.E2E
