import PsiModel.Epochs
/-! Insertion sorts of the model: sorted permutations; identity on sorted input. -/
namespace Psi.Epochs

theorem insertSorted_perm (a : Int) : ∀ l : List Int, (insertSorted a l).Perm (a :: l) := by
  intro l
  induction l with
  | nil => exact List.Perm.refl _
  | cons b bs ih =>
    simp only [insertSorted]
    split
    · exact List.Perm.refl _
    · exact ((List.perm_cons b).mpr ih).trans (List.Perm.swap a b bs)

theorem sortInts_perm : ∀ l : List Int, (sortInts l).Perm l := by
  intro l
  induction l with
  | nil => exact List.Perm.refl _
  | cons a as ih =>
    exact (insertSorted_perm a (sortInts as)).trans ((List.perm_cons a).mpr ih)

theorem insertSorted_sorted (a : Int) : ∀ l : List Int, l.Pairwise (· ≤ ·) →
    (insertSorted a l).Pairwise (· ≤ ·) := by
  intro l
  induction l with
  | nil => intro _; simp [insertSorted]
  | cons b bs ih =>
    intro h
    simp only [insertSorted]
    split
    · rename_i hab
      refine List.pairwise_cons.mpr ⟨?_, h⟩
      intro x hx
      rcases List.mem_cons.mp hx with hx | hx
      · subst hx; exact hab
      · exact Int.le_trans hab (List.rel_of_pairwise_cons h hx)
    · rename_i hab
      refine List.pairwise_cons.mpr ⟨?_, ih h.tail⟩
      intro x hx
      have := (insertSorted_perm a bs).mem_iff.mp hx
      rcases List.mem_cons.mp this with hx | hx
      · subst hx; omega
      · exact List.rel_of_pairwise_cons h hx

theorem sortInts_sorted : ∀ l : List Int, (sortInts l).Pairwise (· ≤ ·) := by
  intro l
  induction l with
  | nil => simp [sortInts]
  | cons a as ih => exact insertSorted_sorted a _ ih

theorem sortInts_eq_of_sorted_perm {l s : List Int} (hs : s.Pairwise (· ≤ ·)) (hp : s.Perm l) :
    sortInts l = s :=
  List.Perm.eq_of_pairwise (le := (· ≤ ·)) (fun _ _ _ _ h1 h2 => Int.le_antisymm h1 h2)
    (sortInts_sorted l) hs ((sortInts_perm l).trans hp.symm)

theorem sortInts_id {l : List Int} (h : l.Pairwise (· ≤ ·)) : sortInts l = l :=
  sortInts_eq_of_sorted_perm h (List.Perm.refl _)

theorem insertPair_perm (p : Int × Int) : ∀ l, (insertPair p l).Perm (p :: l) := by
  intro l
  induction l with
  | nil => exact List.Perm.refl _
  | cons q qs ih =>
    simp only [insertPair]
    split
    · exact List.Perm.refl _
    · exact ((List.perm_cons q).mpr ih).trans (List.Perm.swap p q qs)

theorem sortPairs_perm : ∀ l, (sortPairs l).Perm l := by
  intro l
  induction l with
  | nil => exact List.Perm.refl _
  | cons a as ih =>
    exact (insertPair_perm a (sortPairs as)).trans ((List.perm_cons a).mpr ih)

theorem insertPair_sorted (p : Int × Int) : ∀ l : List (Int × Int),
    l.Pairwise (fun x y => x.1 ≤ y.1) → (insertPair p l).Pairwise (fun x y => x.1 ≤ y.1) := by
  intro l
  induction l with
  | nil => intro _; simp [insertPair]
  | cons q qs ih =>
    intro h
    simp only [insertPair]
    split
    · rename_i hpq
      have hpq' : p.1 ≤ q.1 := by omega
      refine List.pairwise_cons.mpr ⟨?_, h⟩
      intro x hx
      rcases List.mem_cons.mp hx with hx | hx
      · subst hx; exact hpq'
      · exact Int.le_trans hpq' (List.rel_of_pairwise_cons h hx)
    · rename_i hpq
      refine List.pairwise_cons.mpr ⟨?_, ih h.tail⟩
      intro x hx
      have := (insertPair_perm p qs).mem_iff.mp hx
      rcases List.mem_cons.mp this with hx | hx
      · subst hx; omega
      · exact List.rel_of_pairwise_cons h hx

theorem sortPairs_sorted : ∀ l, (sortPairs l).Pairwise (fun x y => x.1 ≤ y.1) := by
  intro l
  induction l with
  | nil => simp [sortPairs]
  | cons a as ih => exact insertPair_sorted a _ ih

/-- the first column of the pair-sorted list is the sorted first column -/
theorem sortPairs_map_fst (l : List (Int × Int)) :
    sortInts (l.map (·.1)) = (sortPairs l).map (·.1) :=
  sortInts_eq_of_sorted_perm (List.pairwise_map.mpr (sortPairs_sorted l))
    ((sortPairs_perm l).map _)

end Psi.Epochs
