import PsiProofs.Helper.C08_Superpose
/-!
FIR filters (`a = [1]`, i.e. every entry of `atl` is `0`) over ℝ:

* the initial state is *flushed*: after as many samples as the state is long, the output of `lfilter` no
  longer depends on the state it was started from (`lfilter_fir_flush`) — `ShapedNoiseFactory` and
  `BandlimitedFIRNoiseFactory` start from `lfilter_zi(taps)`, which does not scale with the level, and discard
  exactly `len(zi) = ntaps - 1` samples;
* `lfilter` is linear in the numerator coefficients (`lfilter_scale_b`, any filter): `BandlimitedFIRNoiseFactory`
  puts the level into the taps (`firwin2(gain=sf)`), not into the noise bounds.
-/
namespace Psi.Db

/-! ## linearity in the numerator -/

theorem zipStep_scale_b (c x y : ℝ) (zs bs as : List ℝ) :
    zipStep x (c * y) (zs.map (c * ·)) (bs.map (c * ·)) as = (zipStep x y zs bs as).map (c * ·) := by
  induction zs generalizing bs as with
  | nil => simp [zipStep]
  | cons z zs ih =>
    cases bs with
    | nil => simp [zipStep]
    | cons b bs =>
      cases as with
      | nil => simp [zipStep]
      | cons a as =>
        simp only [List.map_cons, zipStep, ih]
        congr 1; ring

theorem stateHead_scale_b (c : ℝ) (z : List ℝ) (x : ℝ) :
    stateHead (z.map (c * ·)) x = c * stateHead z x := by
  cases z with
  | nil => simp [stateHead]
  | cons z0 zt => simp [stateHead]

theorem lfilterStep_scale_b (c b0 : ℝ) (bt atl z : List ℝ) (x : ℝ) :
    lfilterStep (c * b0) (bt.map (c * ·)) atl (z.map (c * ·)) x =
      (c * (lfilterStep b0 bt atl z x).1, (lfilterStep b0 bt atl z x).2.map (c * ·)) := by
  have hy : stateHead (z.map (c * ·)) x + c * b0 * x = c * (stateHead z x + b0 * x) := by
    rw [stateHead_scale_b]; ring
  simp only [lfilterStep_eq, hy, shiftState_scale, zipStep_scale_b]

/-- scaling the numerator `b` and the initial state by `c` scales every output sample and the final state -/
theorem lfilter_scale_b (c b0 : ℝ) (bt atl : List ℝ) (z xs : List ℝ) :
    lfilter (c * b0) (bt.map (c * ·)) atl (z.map (c * ·)) xs =
      ((lfilter b0 bt atl z xs).1.map (c * ·), (lfilter b0 bt atl z xs).2.map (c * ·)) := by
  induction xs generalizing z with
  | nil => simp [lfilter]
  | cons x xs ih =>
    simp only [lfilter, lfilterStep_scale_b, ih, List.map_cons]

/-! ## an FIR filter forgets its initial state -/

/-- without feedback the state update does not look at the output sample -/
theorem zipStep_fir_indep (x y y' : ℝ) (zs bs as : List ℝ) (ha : ∀ a ∈ as, a = 0) :
    zipStep x y zs bs as = zipStep x y' zs bs as := by
  induction zs generalizing bs as with
  | nil => simp [zipStep]
  | cons z zs ih =>
    cases bs with
    | nil => simp [zipStep]
    | cons b bs =>
      cases as with
      | nil => simp [zipStep]
      | cons a as =>
        have h0 : a = 0 := ha a (by simp)
        simp only [zipStep, ih bs as (fun a' h => ha a' (by simp [h])), h0, zero_mul]

theorem zipStep_drop (x y : ℝ) (i : ℕ) (zs bs as : List ℝ) :
    (zipStep x y zs bs as).drop i = zipStep x y (zs.drop i) (bs.drop i) (as.drop i) := by
  induction i generalizing zs bs as with
  | zero => simp
  | succ i ih =>
    cases zs with
    | nil => simp [zipStep]
    | cons z zs =>
      cases bs with
      | nil => cases zs <;> simp [zipStep]
      | cons b bs =>
        cases as with
        | nil => cases zs <;> cases bs <;> simp [zipStep]
        | cons a as => simp only [zipStep, List.drop_succ_cons, ih]

theorem shiftState_drop (z : List ℝ) (i : ℕ) (h : i + 1 ≤ z.length) :
    (shiftState z).drop i = z.drop (i + 1) ++ [0] := by
  simp only [shiftState, nat_real, Nat.cast_zero]
  rw [List.drop_append_of_le_length (by simp; omega), List.drop_drop, Nat.add_comm]

/-- **Flush**: if the states `z`, `z'` agree from position `i` on, the outputs agree from sample `i` on. -/
theorem lfilter_fir_flush_aux (b0 : ℝ) (bt atl : List ℝ) (ha : ∀ a ∈ atl, a = 0) (x z z' : List ℝ) (i : ℕ)
    (hb : bt.length = z.length) (hal : atl.length = z.length) (hlen : z'.length = z.length)
    (hi : i ≤ z.length) (h : z.drop i = z'.drop i) :
    (lfilter b0 bt atl z x).1.drop i = (lfilter b0 bt atl z' x).1.drop i := by
  induction x generalizing z z' i with
  | nil => simp [lfilter]
  | cons a xs ih =>
    cases i with
    | zero =>
      have : z = z' := by simpa using h
      subst this
      rfl
    | succ i =>
      simp only [lfilter, List.drop_succ_cons]
      have hl1 : (lfilterStep b0 bt atl z a).2.length = z.length := by
        simp only [lfilterStep_eq, zipStep_length, shiftState_length]; omega
      have hl2 : (lfilterStep b0 bt atl z' a).2.length = z.length := by
        simp only [lfilterStep_eq, zipStep_length, shiftState_length]; omega
      apply ih
      · rw [hl1]; exact hb
      · rw [hl1]; exact hal
      · rw [hl1, hl2]
      · rw [hl1]; omega
      · simp only [lfilterStep_eq, zipStep_drop]
        rw [shiftState_drop z i hi, shiftState_drop z' i (by omega), h]
        exact zipStep_fir_indep _ _ _ _ _ _ (fun a' h' => ha a' (List.mem_of_mem_drop h'))

/-- an FIR filter's output after `len(state)` samples does not depend on the state it was started from -/
theorem lfilter_fir_flush (b0 : ℝ) (bt atl : List ℝ) (ha : ∀ a ∈ atl, a = 0) (x z z' : List ℝ)
    (hb : bt.length = z.length) (hal : atl.length = z.length) (hlen : z'.length = z.length)
    (d : ℕ) (hd : z.length ≤ d) :
    (lfilter b0 bt atl z x).1.drop d = (lfilter b0 bt atl z' x).1.drop d := by
  have h := lfilter_fir_flush_aux b0 bt atl ha x z z' z.length hb hal hlen le_rfl
    (by rw [List.drop_length, List.drop_eq_nil_of_le (by omega)])
  have e : d = z.length + (d - z.length) := by omega
  rw [e, ← List.drop_drop, ← List.drop_drop, h]

end Psi.Db
