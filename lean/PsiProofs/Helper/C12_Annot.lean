import PsiProofs.Helper.C12_Run
/-! Annotation bookkeeping of `rms` (`result.s0 /= n`, a true division) and `auto_th` (`metadata['auto_th'] = th`)
spelled out: the true `s0` of the `rms` blocks, a concrete key/value model of the metadata dict. -/
namespace Psi.Stages
variable {α β ρ χ μ : Type}

/-! ### rms: from numerators to the true `s0` -/

/-- the block with its true first-sample index `s0 / n` (exact when `n ∣ s0`, see `Emits.divS0`) -/
def PD.divS0 (n : Nat) (b : PD β ρ χ μ) : PD β ρ χ μ := { b with s0 := b.s0 / (n : Int) }

theorem Contig.divS0 (n : Nat) (hn : 0 < n) : ∀ (bs : List (PD β ρ χ μ)) (k : Int), Contig (n : Int) (n * k) bs →
    Contig 1 k (bs.map (PD.divS0 n)) ∧ ∀ b ∈ bs, b.s0 = (n : Int) * (b.s0 / (n : Int)) := by
  intro bs
  induction bs with
  | nil => intro k _; exact ⟨trivial, by simp⟩
  | cons b bs ih =>
    intro k h
    obtain ⟨h1, h2⟩ := h
    have hn0 : (n : Int) ≠ 0 := by omega
    have hdiv : b.s0 / (n : Int) = k := by rw [h1]; exact Int.mul_ediv_cancel_left k hn0
    have e : (n : Int) * k + (n : Int) * (b.len : Nat) = (n : Int) * (k + 1 * ((PD.divS0 n b).len : Nat)) := by
      simp only [PD.divS0, PD.len, Int.one_mul]; rw [Int.mul_add]
    rw [e] at h2
    obtain ⟨ih1, ih2⟩ := ih _ h2
    refine ⟨⟨hdiv, ih1⟩, ?_⟩
    intro c hc
    rcases List.mem_cons.mp hc with rfl | hc
    · rw [hdiv]; exact h1
    · exact ih2 c hc

/-- numerators over `n` contiguous from `n·k` ⇒ the true `s0` values are integers, contiguous in **output samples**
from `k` -/
theorem Emits.divS0 {bs : List (PD β ρ χ μ)} {x : List β} {n : Nat} (hn : 0 < n) {k : Int} {a : Ann ρ χ μ}
    (h : Emits bs x (n : Int) (n * k) a) :
    Emits (bs.map (PD.divS0 n)) x 1 k a ∧ ∀ b ∈ bs, b.s0 = (n : Int) * (b.s0 / (n : Int)) := by
  obtain ⟨hc1, hc2⟩ := Contig.divS0 n hn bs k h.contig
  refine ⟨⟨?_, hc1, ?_⟩, hc2⟩
  · rw [← h.data]; simp [outData, PD.divS0, List.map_map, Function.comp_def]
  · intro b hb
    simp only [List.mem_map] at hb
    obtain ⟨c, hc, rfl⟩ := hb
    exact h.ann c hc

/-- contiguity of rational first-sample indices: `(s0, length)` pairs -/
def RContig : Rat → List (Rat × Nat) → Prop
  | _, [] => True
  | t, (s, l) :: rest => s = t ∧ RContig (t + (l : Rat)) rest

theorem rat_step (t : Int) (n l : Nat) (hn : 0 < n) :
    (((t + (n : Int) * (l : Nat) : Int) : Rat)) / (n : Rat) = (t : Rat) / n + (l : Rat) := by
  have h : (n : Rat) ≠ 0 := by
    intro h
    have : ((n : Rat)) = ((0 : Nat) : Rat) := by simpa using h
    have := Rat.natCast_inj.mp this; omega
  rw [Rat.intCast_add, Rat.intCast_mul, Rat.div_def, Rat.div_def, Rat.add_mul, Rat.intCast_natCast,
    Rat.intCast_natCast]
  congr 1
  rw [Rat.mul_comm, ← Rat.mul_assoc, Rat.inv_mul_cancel _ h, Rat.one_mul]

/-- numerators over `n` contiguous from any `t` ⇒ the true (rational) `s0 = numerator / n` are contiguous in output
samples from `t / n` — no divisibility needed -/
theorem Contig.rat (n : Nat) (hn : 0 < n) : ∀ (bs : List (PD β ρ χ μ)) (t : Int), Contig (n : Int) t bs →
    RContig ((t : Rat) / n) (bs.map fun b => ((b.s0 : Rat) / n, b.len)) := by
  intro bs
  induction bs with
  | nil => intro t _; trivial
  | cons b bs ih =>
    intro t h
    obtain ⟨h1, h2⟩ := h
    refine ⟨by rw [h1], ?_⟩
    have := ih _ h2
    rw [rat_step t n b.len hn] at this
    exact this

/-! ### auto_th: the metadata dict as a key/value map -/

/-- `m[key] = v` on a dict modelled as a partial function -/
def setKey {κ ν : Type} [DecidableEq κ] (key : κ) (v : ν) (m : κ → Option ν) : κ → Option ν :=
  fun k => if k = key then some v else m k

theorem setKey_same {κ ν : Type} [DecidableEq κ] (key : κ) (v : ν) (m : κ → Option ν) : setKey key v m key = some v := by
  simp [setKey]

theorem setKey_other {κ ν : Type} [DecidableEq κ] (key : κ) (v : ν) (m : κ → Option ν) (k : κ) (h : k ≠ key) :
    setKey key v m k = m k := by
  simp [setKey, h]

end Psi.Stages
