import PsiProofs.Helper.C02_Ticks
/-! `popLoop` (the code's while loop, any request size) = `runTicks` (one sample at a time). -/
namespace Psi.Queue

theorem nextKey_none_indep {s : QState} (b : Bool) (m : Int) (h : nextKey s = .ok none) :
    nextKey { s with empty := b, samples := m } = .ok none := by
  unfold nextKey at h ⊢
  split at h <;> rename_i hk <;> simp only [hk] <;> (crack h; simp_all)

theorem runTicks_empty (j : Nat) (s : QState) (hp : s.paused = false) (hs : s.source = none)
    (hd : s.delaySamples ≤ 0) (hk : nextKey s = .ok none) :
    runTicks (j + 1) s = .ok (zeros (j + 1), { s with empty := true, samples := s.samples + (j + 1 : Nat) }) := by
  induction j generalizing s with
  | zero =>
    have : ¬ s.delaySamples > 0 := by omega
    simp [runTicks, tick, hp, hs, afterSource, this, nextTrial_none_of hk, bump, zeros_succ]
  | succ j ih =>
    have : ¬ s.delaySamples > 0 := by omega
    rw [runTicks]
    simp only [tick, hp, hs, afterSource, this, nextTrial_none_of hk, if_false, Bool.false_eq_true]
    rw [ih _ (by simp [bump, hp]) (by simp [bump, hs]) (by simp [bump]; omega)
      (by simpa [bump, hp, hs] using nextKey_none_indep true (s.samples + 1) hk)]
    simp only [bump, zeros_succ, Except.ok.injEq, Prod.mk.injEq, true_and]
    congr 1; push_cast; omega

/-- waveforms are non-empty; the current source is consistent -/
structure WF (s : QState) : Prop where
  data : ∀ (i : Nat) (e : Entry), s.data[i]? = some e → 0 < e.len
  src : ∀ src, s.source = some src → 0 < src.len ∧ src.off ≤ src.len ∧ (src.gen = true → src.off < src.len)

/-- number of zero-sample loop iterations possible before the next emission -/
def slack (s : QState) : Nat :=
  if s.paused then 0 else
  match s.source with
  | some src => if src.off < src.len then 0 else 2
  | none => if s.delaySamples > 0 then 0 else 1

theorem setTrials_len {d : List Entry} {key : Nat} {f : Int → Int}
    (h : ∀ (i : Nat) (e : Entry), d[i]? = some e → 0 < e.len) :
    ∀ (i : Nat) (e : Entry), (setTrials d key f)[i]? = some e → 0 < e.len := by
  intro i e he
  unfold setTrials at he
  rw [List.getElem?_modify] at he
  cases hd : d[i]? with
  | none => simp [hd] at he
  | some e0 =>
    simp only [hd, Option.map_eq_map, Option.map_some, Option.some.injEq] at he
    subst he
    have := h i e0 hd
    split <;> simpa using this

theorem nextTrial_WF {s s' : QState} (hw : WF s) (h : nextTrial s = .ok (some s')) :
    WF s' ∧ s'.paused = s.paused ∧ ∃ src, s'.source = some src ∧ src.off = 0 ∧ 0 < src.len := by
  obtain ⟨key, s1, s2, e, d, hk, hd, he, _, _, rfl⟩ := nextTrial_some h
  have f1 := nextKey_frame hk
  have f2 := decrementKey_frame hd
  have hdata : ∀ (i : Nat) (e : Entry), s2.data[i]? = some e → 0 < e.len := by
    rw [f2]; simp only; rw [f1]; simp only; exact setTrials_len hw.data
  have hlen : 0 < e.len := hdata key e he
  refine ⟨⟨?_, ?_⟩, ?_, ⟨_, rfl, rfl, hlen⟩⟩
  · intro i e' he'
    simp only at he'
    rw [List.getElem?_modify] at he'
    cases hd' : s2.data[i]? with
    | none => simp [hd'] at he'
    | some e0 =>
      simp only [hd', Option.map_eq_map, Option.map_some, Option.some.injEq] at he'
      subst he'
      have := hdata i e0 hd'
      split <;> simpa using this
  · intro src hsrc
    simp only [Option.some.injEq] at hsrc
    subst hsrc
    exact ⟨hlen, Nat.zero_le _, fun _ => hlen⟩
  · simp only; rw [f2]; simp only; rw [f1]


theorem runTicks_leftover (m : Nat) (s : QState) (src : Src) (hp : s.paused = false)
    (hs : s.source = some src) (hx : ¬ src.off < src.len) :
    runTicks (m + 1) s = runTicks (m + 1) { s with source := none } := by
  simp only [runTicks, tick, hp, hs, hx, if_false, Bool.false_eq_true]

theorem combine {fuel n j : Nat} {s s' : QState} {w : List Cell} (hj : j ≤ n)
    (hrun : runTicks j s = .ok (w, s')) (hlen : w.length = j)
    (hrest : popLoop fuel (n - j) s' = runTicks (n - j) s') :
    (match popLoop fuel (n - w.length) s' with
      | .error e => .error e
      | .ok (ws, s'') => .ok (w ++ ws, s'')) = runTicks n s := by
  have hn : n = j + (n - j) := by omega
  conv => rhs; rw [hn, runTicks_add, hrun]
  simp only [hlen, hrest]
  cases runTicks (n - j) s' with
  | error e => rfl
  | ok r => rfl

theorem combine_all {fuel n : Nat} {s s' : QState} {w : List Cell}
    (hrun : runTicks n s = .ok (w, s')) (hlen : w.length = n) :
    (match popLoop fuel (n - w.length) s' with
      | .error e => .error e
      | .ok (ws, s'') => .ok (w ++ ws, s'')) = runTicks n s := by
  refine combine (Nat.le_refl n) hrun hlen ?_
  simp [popLoop, runTicks]

theorem silent {fuel n : Nat} {s s' : QState}
    (hrest : popLoop fuel n s' = runTicks n s') (ht : runTicks n s = runTicks n s') :
    (match popLoop fuel (n - ([] : List Cell).length) s' with
      | .error e => .error e
      | .ok (ws, s'') => .ok ([] ++ ws, s'')) = runTicks n s := by
  simp only [List.length_nil, Nat.sub_zero, List.nil_append, hrest, ht]
  cases runTicks n s' with
  | error e => rfl
  | ok r => rfl

theorem popLoop_eq_runTicks (fuel n : Nat) (s : QState) (hw : WF s) (hf : 3 * n + slack s ≤ fuel) :
    popLoop fuel n s = runTicks n s := by
  induction fuel generalizing n s with
  | zero =>
    cases n with
    | zero => simp [popLoop, runTicks]
    | succ n => omega
  | succ fuel ih =>
    cases n with
    | zero => simp [popLoop, runTicks]
    | succ n =>
      rw [popLoop]
      have hdata := hw.data
      have hsrc := hw.src
      obtain ⟨kind, keep, gsize, auto, data, ordering, source, delaySamples, samples, paused, empty,
        generated, cursor, complete, block, draws, perms, added, removed⟩ := s
      simp only at hdata hsrc
      cases paused with
      | true =>
        simp only [popIter, if_true]
        exact combine_all (runTicks_paused (n + 1) _ rfl) (by simp)
      | false =>
      cases source with
      | some src =>
        obtain ⟨hlen, hoff, hgen⟩ := hsrc src rfl
        obtain ⟨skey, soff, slen, sgen⟩ := src
        simp only at hlen hoff hgen
        cases sgen with
        | true =>
          have hlt := hgen rfl
          simp only [popIter, if_true, Bool.false_eq_true, if_false]
          have hj1 : min (slen - soff) (n + 1) = (min (slen - soff) (n + 1) - 1) + 1 := by omega
          have hrun := runTicks_src (min (slen - soff) (n + 1) - 1) (⟨kind, keep, gsize, auto, data, ordering,
            some ⟨skey, soff, slen, true⟩, delaySamples, samples, false, empty, generated, cursor, complete, block,
            draws, perms, added, removed⟩) ⟨skey, soff, slen, true⟩ rfl rfl (by simp only; omega)
          rw [← hj1] at hrun
          simp only [Bool.true_and, ge_iff_le, decide_eq_true_eq] at hrun
          refine combine (by omega) hrun (by simp) ?_
          apply ih
          · refine ⟨hdata, ?_⟩
            intro src' h'
            simp only at h'
            split at h'
            · simp at h'
            · simp only [Option.some.injEq] at h'; subst h'
              simp only; omega
          · simp only [slack, Bool.false_eq_true, if_false] at hf ⊢
            split <;> (try split) <;> omega
        | false =>
          simp only [popIter, Bool.false_eq_true, if_false]
          by_cases hbig : n + 1 > slen - soff
          · simp only [hbig, if_true]
            by_cases hz : slen - soff = 0
            · -- exhausted leftover: a silent iteration
              have hx : ¬ soff < slen := by omega
              simp only [hz, wave_zero, Int.natCast_zero, Int.add_zero]
              apply silent
              · apply ih
                · exact ⟨hdata, by simp⟩
                · simp only [slack, Bool.false_eq_true, if_false, hx] at hf ⊢
                  split <;> omega
              · exact runTicks_leftover n _ ⟨skey, soff, slen, false⟩ rfl rfl hx
            · have hj1 : slen - soff = (slen - soff - 1) + 1 := by omega
              have hrun := runTicks_src (slen - soff - 1) (⟨kind, keep, gsize, auto, data, ordering,
                some ⟨skey, soff, slen, false⟩, delaySamples, samples, false, empty, generated, cursor, complete,
                block, draws, perms, added, removed⟩) ⟨skey, soff, slen, false⟩ rfl rfl (by simp only; omega)
              rw [← hj1] at hrun
              simp only [Bool.false_and, Bool.false_eq_true, if_false] at hrun
              -- after the block the spec holds the exhausted leftover, the loop holds `None`
              have hm : n + 1 - (slen - soff) = (n + 1 - (slen - soff) - 1) + 1 := by omega
              have hn : n + 1 = (slen - soff) + (n + 1 - (slen - soff)) := by omega
              conv => rhs; rw [hn, runTicks_add, hrun]
              simp only [wave_length]
              rw [hm, runTicks_leftover _ _ ⟨skey, soff + (slen - soff), slen, false⟩ rfl rfl
                (by simp only; omega), ← hm]
              simp only
              rw [ih _ _ ⟨hdata, by simp⟩
                (by simp only [slack, Bool.false_eq_true, if_false] at hf ⊢; split <;> omega)]
              cases runTicks (n + 1 - (slen - soff)) _ with
              | error e => rfl
              | ok r => rfl
          · simp only [hbig, if_false]
            have hrun := runTicks_src n (⟨kind, keep, gsize, auto, data, ordering,
              some ⟨skey, soff, slen, false⟩, delaySamples, samples, false, empty, generated, cursor, complete,
              block, draws, perms, added, removed⟩) ⟨skey, soff, slen, false⟩ rfl rfl (by simp only; omega)
            simp only [Bool.false_and, Bool.false_eq_true, if_false] at hrun
            exact combine_all hrun (by simp)
      | none =>
        by_cases hd : delaySamples > 0
        · simp only [popIter, hd, if_true, Bool.false_eq_true, if_false]
          have hjle : ((min delaySamples.toNat (n + 1) : Nat) : Int) ≤ delaySamples := by omega
          refine combine (j := min delaySamples.toNat (n + 1)) (by omega)
            (runTicks_delay _ _ rfl rfl hjle) (by simp) ?_
          apply ih
          · exact ⟨hdata, by simp⟩
          · simp only [slack, Bool.false_eq_true, if_false] at hf ⊢
            split <;> omega
        · simp only [popIter, hd, if_false, Bool.false_eq_true]
          cases hnt : nextTrial ⟨kind, keep, gsize, auto, data, ordering, none, delaySamples, samples, false,
              empty, generated, cursor, complete, block, draws, perms, added, removed⟩ with
          | error e =>
            simp only [runTicks, tick, afterSource, hd, hnt, if_false, Bool.false_eq_true]
          | ok r =>
            cases r with
            | none =>
              simp only
              exact combine_all (runTicks_empty n _ rfl rfl (by simp only; omega) (nextTrial_none hnt)) (by simp)
            | some s' =>
              obtain ⟨hw', hpp, src, hsrc', hoff, hlen⟩ := nextTrial_WF hw hnt
              simp only at hpp
              have hlt : src.off < src.len := by omega
              simp only
              apply silent
              · apply ih _ _ hw'
                have h0 : slack s' = 0 := by simp [slack, hpp, hsrc', hlt]
                simp only [slack, Bool.false_eq_true, if_false, hd] at hf
                omega
              · have ht : tick ⟨kind, keep, gsize, auto, data, ordering, none, delaySamples, samples, false,
                    empty, generated, cursor, complete, block, draws, perms, added, removed⟩ = tick s' := by
                  simp only [tick, afterSource, hd, hnt, hsrc', hlt, hpp, if_true, if_false, Bool.false_eq_true]
                simp only [runTicks, ht]

end Psi.Queue
