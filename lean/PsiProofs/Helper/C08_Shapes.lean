import PsiProofs.Helper.C08_Fir
import PsiProofs.Helper.C07_Interp
import PsiProofs.Helper.C16_Bridge
/-!
Lemmas for the stimulus shapes of `psiaudio/stim.py` that are not a bare `polarity·sf·proto`:
envelope × carrier, wav playback with peak / RMS normalisation, the band-limited click (inverse real DFT of a
flat band), and the mean scale factor `get_mean_sf` as a function of the level.
-/
open Finset

namespace Psi.Db

/-! ## `get_mean_sf` and the level -/

theorem getSf_level_map (c : Cal ℝ) (f L A d : ℝ) :
    getSf c f (L + d) A = (getSf c f L A).map ((10 : ℝ) ^ (d / 20) * ·) := by
  simp only [getSf]
  cases getSens c f <;> simp [sfOf_add_level]

/-- `get_mean_sf(flb, fub, L + d) = 10^(d/20) · get_mean_sf(flb, fub, L)`, errors unchanged -/
theorem getMeanSf_level_map (c : Cal ℝ) (flb : ℝ) (freqs : List ℝ) (L A d : ℝ) :
    getMeanSf c flb freqs (L + d) A = (getMeanSf c flb freqs L A).map ((10 : ℝ) ^ (d / 20) * ·) := by
  cases freqs with
  | nil =>
    cases c with
    | flat s g => exact getSf_level_map _ _ _ _ _
    | interp t g => rfl
    | point t g => rfl
  | cons f0 ft =>
    have e : ∀ c : Cal ℝ, ((f0 :: ft).map (getSf c · (L + d) A))
        = ((f0 :: ft).map (getSf c · L A)).map (Res.map ((10 : ℝ) ^ (d / 20) * ·)) := by
      intro c
      rw [List.map_map]; apply List.map_congr_left; intro f _; exact getSf_level_map c f L A d
    cases c with
    | flat s g => exact getSf_level_map _ _ _ _ _
    | interp t g =>
      simp only [getMeanSf, e, collect_scale]
      cases collect ((f0 :: ft).map (getSf (Cal.interp t g) · L A)) with
      | val l => simp only [Res.map_val, sumList_scale, List.length_map]; congr 1; ring
      | nan => rfl
      | calErr => rfl
      | valErr => rfl
    | point t g =>
      simp only [getMeanSf, e, collect_scale]
      cases collect ((f0 :: ft).map (getSf (Cal.point t g) · L A)) with
      | val l => simp only [Res.map_val, sumList_scale, List.length_map]; congr 1; ring
      | nan => rfl
      | calErr => rfl
      | valErr => rfl

/-! ## envelope × carrier -/

theorem modulate_scale (g : ℝ) (env tok : List ℝ) :
    modulate env (tok.map (g * ·)) = (modulate env tok).map (g * ·) := by
  simp only [modulate, List.zipWith_map_right, List.map_zipWith]
  congr 1
  funext a b
  ring

theorem tone_scale (g pol sf fs f ph : ℝ) (off j : ℕ) :
    tone pol (g * sf) fs f ph off j = g * tone pol sf fs f ph off j := by
  simp only [tone]; ring

section Polarity
variable {α : Type} [TrigField α] [SignSymm α]

theorem modulate_neg (env tok : List α) :
    modulate env (tok.map (- ·)) = (modulate env tok).map (- ·) := by
  simp only [modulate, List.zipWith_map_right, List.map_zipWith]
  congr 1
  funext a b
  exact SignSymm.mul_neg a b

theorem tone_neg (sf fs f ph : α) (off j : ℕ) :
    tone (-(nat 1)) sf fs f ph off j = -(tone (nat 1) sf fs f ph off j) := by
  simp only [tone, SignSymm.neg_mul]

end Polarity

/-! ## wav playback -/

theorem sumList_eq_sum (l : List ℝ) : sumList l = l.sum := by
  induction l with
  | nil => simp [sumList]
  | cons a t ih => simp [sumList, ih]

theorem rmsL_real (x : List ℝ) : rmsL x = Real.sqrt ((x.map fun v => v * v).sum / x.length) := by
  simp only [rmsL, sqrt_real, sumList_eq_sum, nat_real]

theorem sum_sq_scale (c : ℝ) (x : List ℝ) :
    ((x.map (c * ·)).map fun v => v * v).sum = c ^ 2 * (x.map fun v => v * v).sum := by
  induction x with
  | nil => simp
  | cons a t ih =>
    simp only [List.map_cons, List.sum_cons] at ih ⊢
    rw [ih]; ring

/-- RMS is absolutely homogeneous -/
theorem rmsL_scale (c : ℝ) (x : List ℝ) : rmsL (x.map (c * ·)) = |c| * rmsL x := by
  rw [rmsL_real, rmsL_real, sum_sq_scale, List.length_map, mul_div_assoc,
    Real.sqrt_mul (sq_nonneg c), Real.sqrt_sq_eq_abs]

theorem lmaxFrom_real (m : ℝ) (l : List ℝ) :
    lmaxFrom m l = l.foldl (fun m x => if m < x then x else m) m := by
  induction l generalizing m with
  | nil => rfl
  | cons x t ih => simp only [lmaxFrom, ltb_real, decide_eq_true_eq, List.foldl_cons, ih]

/-- the maximum commutes with a non-negative scaling -/
theorem lmaxFrom_scale (c : ℝ) (hc : 0 ≤ c) (m : ℝ) (l : List ℝ) :
    lmaxFrom (c * m) (l.map (c * ·)) = c * lmaxFrom m l := by
  induction l generalizing m with
  | nil => rfl
  | cons x t ih =>
    simp only [List.map_cons, lmaxFrom, ltb_real, decide_eq_true_eq]
    by_cases h : m < x
    · by_cases h' : c * m < c * x
      · rw [if_pos h', if_pos h, ih]
      · have : c * m = c * x := le_antisymm (mul_le_mul_of_nonneg_left h.le hc) (not_lt.1 h')
        rw [if_neg h', if_pos h, this, ih]
    · have h' : ¬ c * m < c * x := not_lt.2 (mul_le_mul_of_nonneg_left (not_lt.1 h) hc)
      rw [if_neg h', if_neg h, ih]

/-! ## chirp -/

theorem chirp_scale (g fs f0 f1 sf : ℝ) (w : List ℝ) :
    chirp fs f0 f1 (g * sf) w = (chirp fs f0 f1 sf w).map (g * ·) := by
  simp only [chirp, List.map_zipWith]
  congr 1
  funext a b
  ring

/-- `w /= util.rms(w)`: the chirp's envelope has RMS exactly 1 -/
theorem rmsL_normalized (w : List ℝ) (hw : rmsL w ≠ 0) : rmsL (w.map (· / rmsL w)) = 1 := by
  have hr : 0 < rmsL w := lt_of_le_of_ne (by rw [rmsL_real]; exact Real.sqrt_nonneg _) (Ne.symm hw)
  have e : w.map (· / rmsL w) = w.map ((1 / rmsL w) * ·) := by
    apply List.map_congr_left; intro v _; ring
  rw [e, rmsL_scale, abs_of_pos (by positivity)]
  field_simp

/-! ## band-limited click -/

theorem csdToSignal_smul (g : ℝ) (m : ℕ) (c : ℕ → Cx ℝ) (j : ℕ) :
    csdToSignal m (fun k => Cx.smul g (c k)) j = g * csdToSignal m c j := by
  simp only [csdToSignal, Cx.smul, sumTo_eq]
  have h : ∀ i : ℕ,
      g * (c (i + 1)).re / csdScale (2 * m) * cos (ang (2 * m) j (i + 1))
        - g * (c (i + 1)).im / csdScale (2 * m) * sin (ang (2 * m) j (i + 1))
      = g * ((c (i + 1)).re / csdScale (2 * m) * cos (ang (2 * m) j (i + 1))
        - (c (i + 1)).im / csdScale (2 * m) * sin (ang (2 * m) j (i + 1))) := by
    intro i; ring
  simp_rw [h]
  rw [← Finset.mul_sum]
  ring

theorem clickSpec_scale (g : ℝ) (n : ℕ) (fs sf : ℝ) (klo khi k : ℕ) :
    clickSpec n fs (g * sf) klo khi k = Cx.smul g (clickSpec n fs sf klo khi k) := by
  simp only [clickSpec, Cx.smul]
  split_ifs <;> simp only [nat_real, Nat.cast_zero, Cx.mk.injEq] <;> constructor <;> ring

end Psi.Db
