import PsiProofs.Helper.C05_Spec
/-! Helper for C05: histories of `Call`s, i.e. with requests appended to `queue` *during* a call
(after its intake loop, before its done test).  Such a request is taken in by the next call,
ahead of that call's own requests: as far as captures and deliveries go, a history of calls
behaves like the late-free history `effective [] calls` (simulation `runCalls_sim`); only the
done test differs — it sees the queue. -/
namespace Psi.Extract

/-- the calls without their late requests -/
def plain {α} (cs : List (Call α)) : List (Op α) := cs.map (·.toOp)

/-- What the intake loops find in `queue`, call by call, when it held `q` before the first
call: what the previous call left there, then the call's own requests. -/
def effective {α} : List Request → List (Call α) → List (Op α)
  | _, [] => []
  | q, c :: cs => { c.toOp with reqs := q ++ c.reqs } :: effective c.late cs

/-- what `queue` holds after the calls `cs` when it held `q` before them -/
def queueAfter {α} : List Request → List (Call α) → List Request
  | q, [] => q
  | _, c :: cs => queueAfter c.late cs

/-- every request made during a history of calls, in the caller's turn or during a call -/
def allMade {α} (cs : List (Call α)) : List Request := cs.flatMap (fun c => c.reqs ++ c.late)

theorem effective_append {α} (q : List Request) (a b : List (Call α)) :
    effective q (a ++ b) = effective q a ++ effective (queueAfter q a) b := by
  induction a generalizing q with
  | nil => rfl
  | cons c cs ih => simp [effective, queueAfter, ih]

theorem effective_length {α} (q : List Request) (cs : List (Call α)) :
    (effective q cs).length = cs.length := by
  induction cs generalizing q with
  | nil => rfl
  | cons c cs ih => simp [effective, ih]

theorem effective_map_const {α β} (q : List Request) (cs : List (Call α)) (b : β) :
    (effective q cs).map (fun _ => b) = cs.map (fun _ => b) := by
  induction cs generalizing q with
  | nil => rfl
  | cons c cs ih => simp [effective, ih]

theorem plain_map_const {α β} (cs : List (Call α)) (b : β) :
    (plain cs).map (fun _ => b) = cs.map (fun _ => b) := by
  simp [plain]

theorem total_effective {α} (q : List Request) (cs : List (Call α)) :
    total (effective q cs) = total (plain cs) := by
  induction cs generalizing q with
  | nil => rfl
  | cons c cs ih =>
    have := ih c.late
    simp only [total] at this
    simp [effective, total, plain, this]

theorem streamOf_effective {α} (q : List Request) (cs : List (Call α)) :
    streamOf (effective q cs) = streamOf (plain cs) := by
  induction cs generalizing q with
  | nil => rfl
  | cons c cs ih =>
    have := ih c.late
    simp only [streamOf] at this
    simp [effective, streamOf, plain, this]

theorem specDeliver_effective {α} (r : Request) (T : Nat) (q : List Request) (cs : List (Call α)) :
    specDeliver r T (effective q cs) = specDeliver r T (plain cs) := by
  induction cs generalizing q T with
  | nil => rfl
  | cons c cs ih =>
    simp only [effective, plain, List.map_cons, specDeliver]
    rw [effective_map_const, ← plain, ih, plain_map_const]

theorem specPending_effective {α} (r : Request) (T : Nat) (q : List Request) (cs : List (Call α)) :
    specPending r T (effective q cs) = specPending r T (plain cs) := by
  induction cs generalizing q T with
  | nil => rfl
  | cons c cs ih =>
    simp only [effective, plain, List.map_cons, specPending]
    rw [← plain, ih]

theorem allReqs_effective_sub {α} (q : List Request) (cs : List (Call α)) (r : Request)
    (h : r ∈ allReqs (effective q cs)) : r ∈ q ∨ r ∈ allMade cs := by
  induction cs generalizing q with
  | nil => simp [effective, allReqs] at h
  | cons c cs ih =>
    simp only [effective, allReqs, List.flatMap_cons, List.mem_append] at h
    simp only [allMade, List.flatMap_cons, List.mem_append]
    rcases h with (h | h) | h
    · exact Or.inl h
    · exact Or.inr (Or.inl (Or.inl h))
    · rcases ih c.late h with h | h
      · exact Or.inr (Or.inl (Or.inr h))
      · exact Or.inr (Or.inr h)

/-- Once the queue is empty, every request made was taken in by the intake loop of some call. -/
theorem made_taken {α} (q : List Request) (cs : List (Call α)) (r : Request)
    (h : r ∈ q ∨ r ∈ allMade cs) (hq : queueAfter q cs = []) :
    ∃ pre c rest, cs = pre ++ c :: rest ∧ r ∈ queueAfter q pre ++ c.reqs := by
  induction cs generalizing q with
  | nil =>
    simp only [queueAfter] at hq
    subst hq
    simp [allMade] at h
  | cons c cs ih =>
    simp only [allMade, List.flatMap_cons, List.mem_append] at h
    have take : r ∈ q ∨ r ∈ c.reqs → ∃ pre c' rest, c :: cs = pre ++ c' :: rest ∧
        r ∈ queueAfter q pre ++ c'.reqs := fun h' =>
      ⟨[], c, cs, rfl, by simpa [queueAfter] using h'⟩
    have later : r ∈ c.late ∨ r ∈ allMade cs → ∃ pre c' rest, c :: cs = pre ++ c' :: rest ∧
        r ∈ queueAfter q pre ++ c'.reqs := by
      intro h'
      obtain ⟨pre, c', rest, e, hr⟩ := ih c.late h' (by simpa [queueAfter] using hq)
      exact ⟨c :: pre, c', rest, by rw [e]; rfl, by simpa [queueAfter] using hr⟩
    rcases h with h | (h | h) | h
    · exact take (Or.inl h)
    · exact take (Or.inr h)
    · exact later (Or.inl h)
    · exact later (Or.inr h)

/-! ### simulation -/

/-- the two states agree on everything the captures and deliveries depend on -/
def Sim {α} (a b : State α) : Prop :=
  a.tlb = b.tlb ∧ a.pending = b.pending ∧ a.prior = b.prior ∧ a.bufferSamples = b.bufferSamples ∧
    a.dead = b.dead

/-- an outcome without the information whether the callback fired -/
def Outcome.unfire {α} : Outcome α → Outcome α
  | .ok b _ => .ok b false
  | o => o

theorem delivK_unfire {α} (k : Nat) (o : Outcome α) : delivK k o.unfire = delivK k o := by
  cases o <;> rfl

theorem unfire_eq_ok {α} (o : Outcome α) (b : List (Epoch α)) (f : Bool)
    (h : o.unfire = (Outcome.ok b f).unfire) : ∃ f', o = .ok b f' := by
  cases o with
  | ok b' f' => simp only [Outcome.unfire, Outcome.ok.injEq] at h; exact ⟨f', by rw [h.1]⟩
  | valueError => simp [Outcome.unfire] at h
  | dead => simp [Outcome.unfire] at h

theorem call_dead {α} (st : State α) (c : Call α) (h : st.dead = true) : call st c = (st, .dead) := by
  simp [call, h]

theorem step_dead {α} (st : State α) (op : Op α) (h : st.dead = true) : step st op = (st, .dead) :=
  call_dead st _ h

theorem call_sim {α} (a b : State α) (h : Sim a b) (hq : b.queue = []) (c : Call α) :
    Sim (call a c).1 (step b { c.toOp with reqs := a.queue ++ c.reqs }).1 ∧
    (step b { c.toOp with reqs := a.queue ++ c.reqs }).1.queue = [] ∧
    ((call a c).1.dead = false → (call a c).1.queue = c.late) ∧
    (call a c).2.unfire = (step b { c.toOp with reqs := a.queue ++ c.reqs }).2.unfire := by
  obtain ⟨h1, h2, h3, h4, h5⟩ := h
  unfold step call
  simp only [← h1, ← h2, ← h3, ← h4, ← h5, hq, List.nil_append]
  by_cases hd : a.dead = true
  · simp only [hd, if_true]
    refine ⟨⟨h1, h2, h3, h4, h5⟩, hq, ?_, trivial⟩
    intro h; cases h
  · simp only [hd, Bool.false_eq_true, if_false]
    generalize intakeAll _ _ _ _ = res
    cases res with
    | none =>
      dsimp only
      refine ⟨⟨rfl, rfl, rfl, rfl, rfl⟩, rfl, ?_, rfl⟩
      intro h; cases h
    | some pe =>
      obtain ⟨p, es⟩ := pe
      dsimp only
      by_cases hm : mergeOk ((feedAll (removeAll a.pending c.rems).1 a.tlb c.chunk).2 ++ es) = true
      · simp only [hm, Bool.not_true, Bool.false_eq_true, if_false, Sim]
        and_intros <;> first | trivial | rfl | (intro _; rfl)
      · simp only [hm, Bool.not_false, if_true, Sim]
        and_intros <;> first | trivial | rfl | (intro h; cases h)

theorem runCalls_append {α} (st : State α) (a b : List (Call α)) :
    runCalls st (a ++ b) =
      ((runCalls (runCalls st a).1 b).1, (runCalls st a).2 ++ (runCalls (runCalls st a).1 b).2) := by
  induction a generalizing st with
  | nil => simp [runCalls]
  | cons c cs ih => simp [runCalls, ih]

/-- **Simulation.**  A history of calls delivers what the late-free history `effective q calls`
delivers, and leaves the same captures pending; `q` is what `queue` holds before the first call. -/
theorem runCalls_sim {α} (cs : List (Call α)) (a b : State α) (q : List Request)
    (h : Sim a b) (hq : b.queue = []) (hqa : a.dead = false → a.queue = q) :
    Sim (runCalls a cs).1 (run b (effective q cs)).1 ∧
    (runCalls a cs).2.map Outcome.unfire = (run b (effective q cs)).2.map Outcome.unfire := by
  induction cs generalizing a b q with
  | nil => exact ⟨h, rfl⟩
  | cons c cs ih =>
    simp only [runCalls, effective, run, List.map_cons]
    by_cases hd : a.dead = true
    · have hb : b.dead = true := by rw [← h.2.2.2.2]; exact hd
      rw [call_dead a c hd, step_dead b _ hb]
      obtain ⟨i1, i2⟩ := ih a b c.late h hq (fun h' => by rw [hd] at h'; cases h')
      exact ⟨i1, by rw [i2]⟩
    · have hq' : a.queue = q := hqa (by simpa using hd)
      obtain ⟨s1, s2, s3, s4⟩ := call_sim a b h hq c
      rw [hq'] at s1 s2 s4
      obtain ⟨i1, i2⟩ := ih (call a c).1 _ c.late s1 s2 s3
      exact ⟨i1, by rw [i2, s4]⟩

theorem run_eq_runCalls {α} (st : State α) (ops : List (Op α)) :
    run st ops = runCalls st (ops.map (fun op => { op with late := [] })) := by
  induction ops generalizing st with
  | nil => rfl
  | cons op ops ih => simp only [run, runCalls, List.map_cons, ih]; rfl

/-! ### the done callback, for calls -/

theorem calls_done_count {α} (st : State α) (cs : List (Call α)) :
    ((runCalls st cs).2.filter Outcome.fired).length ≤ (if st.doneFired then 0 else 1) := by
  induction cs generalizing st with
  | nil => simp [runCalls]
  | cons c rest ih =>
    simp only [runCalls, List.filter_cons]
    have hs := call_done st c
    have ih' := ih (call st c).1
    by_cases hf : (call st c).2.fired = true
    · obtain ⟨h1, h2, _⟩ := hs.1 hf
      simp only [hf, if_true, List.length_cons, h1, Bool.false_eq_true, if_false]
      simp only [h2, if_true] at ih'
      omega
    · have hf' : (call st c).2.fired = false := by simpa using hf
      simp only [hf', Bool.false_eq_true, if_false]
      by_cases hdf : st.doneFired = true
      · simp only [(hs.2 hdf).1, if_true] at ih'
        simp only [hdf, if_true]; exact ih'
      · have hdf' : st.doneFired = false := by simpa using hdf
        simp only [hdf', Bool.false_eq_true, if_false]
        split at ih' <;> omega

/-- a call that does not raise updates the flag by the done test of the source -/
theorem call_ok_doneFired {α} (st : State α) (c : Call α) (b : List (Epoch α)) (f : Bool)
    (h : (call st c).2 = .ok b f) :
    (call st c).1.doneFired =
      (st.doneFired || (c.complete && (call st c).1.queue.isEmpty && (call st c).1.pending.isEmpty
        && !st.doneFired)) ∧ (call st c).1.queue = c.late := by
  unfold call at h ⊢
  by_cases hd : st.dead = true
  · simp [hd] at h
  · simp only [hd, Bool.false_eq_true, if_false] at h ⊢
    split
    · rename_i hi; simp [hi] at h
    · rename_i pending es2 hi
      simp only [hi] at h
      split
      · rename_i hm; simp [hm] at h
      · exact ⟨rfl, rfl⟩

end Psi.Extract
