import PsiModel.Epochs
import PsiProofs.Helper.C18_Sort
/-!
`smooth_epochs` sorts each COLUMN independently and sweeps with `ub := next.ub` (not a maximum).
This file proves that this equals the interval cover computed on the pair-sorted list with a
running maximum.  Key counting fact (`sweep_decision`): with `B` the sorted ends and `P` the
pair-sorted intervals (`lb ≤ ub` each), `B[i] < P[i+1].lb` iff the maximum end of `P[0..i]` is
`< P[i+1].lb`, and then `B[i]` *is* that maximum.
-/
namespace Psi.Epochs

theorem le_last_of_sorted {B : List Int} {u : Int} (hs : B.Pairwise (· ≤ ·))
    (hl : B.getLast? = some u) : u ∈ B ∧ ∀ x ∈ B, x ≤ u := by
  obtain ⟨ys, rfl⟩ := List.getLast?_eq_some_iff.mp hl
  refine ⟨by simp, ?_⟩
  intro x hx
  rcases List.mem_append.mp hx with hx | hx
  · exact (List.pairwise_append.mp hs).2.2 x hx u (by simp)
  · simp at hx; omega

theorem sweep_decision {B1 B2 S1 S2 : List Int} {a ub M : Int}
    (hB : (B1 ++ B2).Pairwise (· ≤ ·))
    (hperm : (B1 ++ B2).Perm (S1 ++ S2))
    (hlen : B1.length = S1.length)
    (hub : B1.getLast? = some ub)
    (hM1 : ∀ x ∈ S1, x ≤ M) (hM2 : M ∈ S1)
    (hS2 : ∀ x ∈ S2, a ≤ x) :
    (ub < a ↔ M < a) ∧ (ub < a → ub = M) := by
  have hc : List.countP (fun x => decide (x < a)) B1 + List.countP (fun x => decide (x < a)) B2
      = List.countP (fun x => decide (x < a)) S1 + List.countP (fun x => decide (x < a)) S2 := by
    rw [← List.countP_append, ← List.countP_append]; exact hperm.countP_eq _
  have hS2c : List.countP (fun x => decide (x < a)) S2 = 0 :=
    List.countP_eq_zero.mpr (fun x hx => by have := hS2 x hx; simp; omega)
  obtain ⟨hBs1, hBs2, hB12⟩ := List.pairwise_append.mp hB
  obtain ⟨hubmem, hle⟩ := le_last_of_sorted hBs1 hub
  have hB1le := @List.countP_le_length _ (fun x => decide (x < a)) B1
  have hS1le := @List.countP_le_length _ (fun x => decide (x < a)) S1
  have dir1 : ub < a → (∀ x ∈ S1, x < a) ∧ (∀ y ∈ B2, ¬ y < a) := by
    intro h
    have h1 : List.countP (fun x => decide (x < a)) B1 = B1.length :=
      List.countP_eq_length.mpr (fun x hx => by have := hle x hx; simp; omega)
    have h2 : List.countP (fun x => decide (x < a)) S1 = S1.length := by omega
    have h3 : List.countP (fun x => decide (x < a)) B2 = 0 := by omega
    refine ⟨fun x hx => ?_, fun y hy => ?_⟩
    · simpa using List.countP_eq_length.mp h2 x hx
    · simpa using List.countP_eq_zero.mp h3 y hy
  have dir2 : M < a → ub < a := by
    intro h
    apply Classical.byContradiction
    intro hn
    have h2 : List.countP (fun x => decide (x < a)) S1 = S1.length :=
      List.countP_eq_length.mpr (fun x hx => by have := hM1 x hx; simp; omega)
    have h3 : List.countP (fun x => decide (x < a)) B2 = 0 :=
      List.countP_eq_zero.mpr (fun y hy => by have := hB12 ub hubmem y hy; simp; omega)
    have h1 : List.countP (fun x => decide (x < a)) B1 = B1.length := by omega
    have := List.countP_eq_length.mp h1 ub hubmem
    simp at this; omega
  refine ⟨⟨fun h => ?_, dir2⟩, fun h => ?_⟩
  · exact (dir1 h).1 M hM2
  · obtain ⟨d1, d2⟩ := dir1 h
    have hMlt := d1 M hM2
    have hMB : M ∈ B1 := by
      have : M ∈ B1 ++ B2 := hperm.mem_iff.mpr (List.mem_append.mpr (Or.inl hM2))
      rcases List.mem_append.mp this with h' | h'
      · exact h'
      · exact absurd hMlt (d2 M h')
    have hubS : ub ∈ S1 := by
      have : ub ∈ S1 ++ S2 := hperm.mem_iff.mp (List.mem_append.mpr (Or.inl hubmem))
      rcases List.mem_append.mp this with h' | h'
      · exact h'
      · have := hS2 ub h'; omega
    have := hle M hMB
    have := hM1 ub hubS
    omega

/-- joint induction: the sweep over (sorted starts) zip (sorted ends) and the running-max cover of
the pair-sorted list take the same decisions and close groups with the same upper bound. -/
theorem sweepGo_eq_coverGo : ∀ (P2 P1 : List (Int × Int)) (B1 B2 : List Int) (lb ub M : Int),
    (P1 ++ P2).Pairwise (fun p q => p.1 ≤ q.1) →
    (∀ p ∈ P1 ++ P2, p.1 ≤ p.2) →
    (B1 ++ B2).Pairwise (· ≤ ·) →
    (B1 ++ B2).Perm ((P1 ++ P2).map (·.2)) →
    B1.length = P1.length →
    B1.getLast? = some ub →
    (∀ p ∈ P1, p.2 ≤ M) → (∃ p ∈ P1, p.2 = M) →
    sweepGo lb ub ((P2.map (·.1)).zip B2) = coverGo lb M P2 := by
  intro P2
  induction P2 with
  | nil =>
    intro P1 B1 B2 lb ub M hP hle hB hperm hlen hub hM1 hM2
    have hB2 : B2 = [] := by
      have := hperm.length_eq
      simp at this
      exact List.eq_nil_of_length_eq_zero (by omega)
    subst hB2
    simp only [List.append_nil] at hperm hB
    obtain ⟨hubmem, hub_le⟩ := le_last_of_sorted hB hub
    obtain ⟨pM, hpM, hpM2⟩ := hM2
    have h1 : M ∈ B1 := hperm.mem_iff.mpr (List.mem_map.mpr ⟨pM, hpM, hpM2⟩)
    have h2 : ub ∈ P1.map (·.2) := hperm.mem_iff.mp hubmem
    obtain ⟨q, hq, hq2⟩ := List.mem_map.mp h2
    have := hub_le M h1
    have := hM1 q hq
    have : ub = M := by omega
    subst this
    simp [sweepGo, coverGo]
  | cons p P2 ih =>
    intro P1 B1 B2 lb ub M hP hle hB hperm hlen hub hM1 hM2
    obtain ⟨a, c⟩ := p
    cases B2 with
    | nil =>
      have := hperm.length_eq
      simp at this; omega
    | cons b' B2 =>
      -- all ends in the unread part are ≥ a
      have hS2 : ∀ x ∈ ((a, c) :: P2).map (·.2), a ≤ x := by
        intro x hx
        obtain ⟨q, hq, rfl⟩ := List.mem_map.mp hx
        have hq1 : a ≤ q.1 := by
          rcases List.mem_cons.mp hq with hq | hq
          · subst hq; exact Int.le_refl _
          · exact List.rel_of_pairwise_cons (List.pairwise_append.mp hP).2.1 hq
        have := hle q (List.mem_append.mpr (Or.inr hq))
        omega
      have hM2' : M ∈ P1.map (·.2) := by
        obtain ⟨pM, hpM, hpM2⟩ := hM2
        exact List.mem_map.mpr ⟨pM, hpM, hpM2⟩
      have hperm' : (B1 ++ b' :: B2).Perm (P1.map (·.2) ++ ((a, c) :: P2).map (·.2)) := by
        simpa using hperm
      obtain ⟨hdec, heq⟩ := sweep_decision hB hperm' (by simpa using hlen) hub
        (fun x hx => by obtain ⟨q, hq, rfl⟩ := List.mem_map.mp hx; exact hM1 q hq) hM2' hS2
      have hac : a ≤ c := hle (a, c) (List.mem_append.mpr (Or.inr List.mem_cons_self))
      -- the invariant for the next step
      have step := ih (P1 ++ [(a, c)]) (B1 ++ [b']) B2
      have e1 : P1 ++ [(a, c)] ++ P2 = P1 ++ (a, c) :: P2 := by simp
      have e2 : B1 ++ [b'] ++ B2 = B1 ++ b' :: B2 := by simp
      rw [e1, e2] at step
      simp only [List.map_cons, List.zip_cons_cons, sweepGo, coverGo]
      by_cases hlt : ub < a
      · have hMlt : M < a := hdec.mp hlt
        have hub' : ¬ (ub ≥ a) := by omega
        have hM' : ¬ (a ≤ M) := by omega
        simp only [hub', hM', if_false]
        rw [heq hlt]
        congr 1
        refine step a b' c hP hle hB hperm (by simp [hlen]) (by simp) ?_ ⟨(a, c), by simp, rfl⟩
        intro q hq
        rcases List.mem_append.mp hq with hq | hq
        · have := hM1 q hq; omega
        · simp at hq; subst hq; exact Int.le_refl _
      · have hMge : a ≤ M := by
          apply Classical.byContradiction; intro hn
          exact hlt (hdec.mpr (by omega))
        have hub' : ub ≥ a := by omega
        simp only [hub', hMge, if_true]
        refine step lb b' (max M c) hP hle hB hperm (by simp [hlen]) (by simp) ?_ ?_
        · intro q hq
          rcases List.mem_append.mp hq with hq | hq
          · have := hM1 q hq; omega
          · simp at hq; subst hq; simp only; omega
        · by_cases hmc : M ≤ c
          · exact ⟨(a, c), by simp, by simp only; omega⟩
          · obtain ⟨pM, hpM, hpM2⟩ := hM2
            exact ⟨pM, by simp [hpM], by omega⟩

theorem smooth_eq_cover_aux (I : List (Int × Int)) (h : ∀ p ∈ I, p.1 ≤ p.2) :
    smoothEpochs I = sortedDisjointCover I := by
  unfold smoothEpochs sortedDisjointCover
  rw [sortPairs_map_fst]
  have hperm : (sortInts (I.map (·.2))).Perm ((sortPairs I).map (·.2)) :=
    (sortInts_perm _).trans ((sortPairs_perm I).symm.map _)
  have hsorted := sortPairs_sorted I
  have hle : ∀ p ∈ sortPairs I, p.1 ≤ p.2 := fun p hp => h p ((sortPairs_perm I).mem_iff.mp hp)
  have hB := sortInts_sorted (I.map (·.2))
  generalize sortInts (I.map (·.2)) = B at hperm hB
  generalize sortPairs I = P at hperm hsorted hle
  cases P with
  | nil => simp [sweep]
  | cons p P =>
    obtain ⟨a, c⟩ := p
    cases B with
    | nil => have := hperm.length_eq; simp at this
    | cons b B =>
      simp only [List.map_cons, List.zip_cons_cons, sweep]
      exact sweepGo_eq_coverGo P [(a, c)] [b] B a b c hsorted hle hB hperm rfl rfl
        (by intro q hq; simp at hq; subst hq; exact Int.le_refl _) ⟨(a, c), by simp, rfl⟩

end Psi.Epochs
