import PsiProofs.Helper.C06_Timeline
/-!
Helper for C06 (composition): the notification stream of one dictionary key.

A FIFO queue paused exactly on a trial's start and resumed presents the same stimulus at the same
start sample again: the dictionary key `(t0, key)` is re-used.  What the queue model guarantees is
**alternation**: restricted to one key, the stream of notifications in issue order reads
`add i₁, rem i₁, add i₂, rem i₂, …, add iₙ [, rem iₙ]` — a trial with the same (start, key) is
presented only after the earlier one was cancelled (the clock must rewind to its start, and
`pause(m)` cancels every logged trial ending after `m`: C04 `pause_cancels_exactly`), and a removal
names the latest trial of its key.  `AltM` is this shape, `altEnd` the outstanding trial (notified,
not cancelled) at the end of a stream.  The list lemmas below turn the shape of the batch of
notifications one acquisition call sees into the extractor's per-key discipline (`KeyOK`, C05).
-/
namespace Psi.E2E
open Psi.Queue Psi.Extract

/-- the dictionary key `(t0, key)` is an injective function of the start sample and the stimulus -/
def EncInj (c : Cfg) : Prop := ∀ a b a' b', c.enc a b = c.enc a' b' → a = a' ∧ b = b'

def Note.info : Note → Info
  | .add i => i
  | .rem i => i

def Note.add? : Note → Option Info
  | .add i => some i
  | .rem _ => none

/-- the dictionary key a notification is about -/
def noteKey (c : Cfg) (n : Note) : Nat := (reqOf c n.info).key

/-- the notifications about key `κ`, in order -/
def onKey (c : Cfg) (κ : Nat) (l : List Note) : List Note := l.filter (fun n => noteKey c n == κ)

theorem onKey_append (c : Cfg) (κ : Nat) (a b : List Note) :
    onKey c κ (a ++ b) = onKey c κ a ++ onKey c κ b := by simp [onKey]

theorem mem_onKey {c : Cfg} {κ : Nat} {l : List Note} {n : Note} :
    n ∈ onKey c κ l ↔ n ∈ l ∧ noteKey c n = κ := by simp [onKey]

/-- alternation of the notifications of one key; the state is the outstanding trial -/
def AltM : Option Info → List Note → Prop
  | _, [] => True
  | none, .add i :: l => AltM (some i) l
  | some i, .rem j :: l => j = i ∧ AltM none l
  | some _, .add _ :: _ => False
  | none, .rem _ :: _ => False

/-- the outstanding trial after a stream -/
def altEnd : Option Info → List Note → Option Info
  | o, [] => o
  | _, .add i :: l => altEnd (some i) l
  | _, .rem _ :: l => altEnd none l

theorem altEnd_append (o : Option Info) (a b : List Note) :
    altEnd o (a ++ b) = altEnd (altEnd o a) b := by
  induction a generalizing o with
  | nil => rfl
  | cons x xs ih => cases x <;> simp [altEnd, ih]

theorem AltM_append (o : Option Info) (a b : List Note) :
    AltM o (a ++ b) ↔ AltM o a ∧ AltM (altEnd o a) b := by
  induction a generalizing o with
  | nil => simp [AltM, altEnd]
  | cons x xs ih =>
    cases x with
    | add i =>
      cases o with
      | none => simp only [List.cons_append, AltM, altEnd, ih]
      | some j => simp [AltM]
    | rem i =>
      cases o with
      | none => simp [AltM]
      | some j => simp only [List.cons_append, AltM, altEnd, ih, and_assoc]

/-- an outstanding trial can only be followed by its own removal -/
theorem AltM_head {i : Info} {l : List Note} (h : AltM (some i) l) (hne : l ≠ []) :
    ∃ l', l = .rem i :: l' ∧ AltM none l' := by
  cases l with
  | nil => exact absurd rfl hne
  | cons x xs =>
    cases x with
    | add j => simp [AltM] at h
    | rem j => simp only [AltM] at h; exact ⟨xs, by rw [h.1], h.2⟩

theorem altEnd_mem {o : Option Info} {l : List Note} {i : Info} (h : altEnd o l = some i) :
    o = some i ∨ Note.add i ∈ l := by
  induction l generalizing o with
  | nil => exact Or.inl h
  | cons x xs ih =>
    cases x with
    | add j =>
      simp only [altEnd] at h
      rcases ih h with h1 | h1
      · right; cases h1; exact List.mem_cons_self
      · right; exact List.mem_cons_of_mem _ h1
    | rem j =>
      simp only [altEnd] at h
      rcases ih h with h1 | h1
      · cases h1
      · right; exact List.mem_cons_of_mem _ h1

/-- a notified trial is either cancelled later in the stream or is the outstanding one -/
theorem AltM_add_mem {o : Option Info} {l : List Note} {j : Info} (h : AltM o l) (hj : Note.add j ∈ l) :
    Note.rem j ∈ l ∨ altEnd o l = some j := by
  induction l generalizing o with
  | nil => cases hj
  | cons x xs ih =>
    cases x with
    | add i =>
      cases o with
      | some _ => simp [AltM] at h
      | none =>
        simp only [AltM] at h
        simp only [altEnd]
        rcases List.mem_cons.1 hj with hj | hj
        · cases hj
          cases xs with
          | nil => right; rfl
          | cons y ys =>
            obtain ⟨l', hl, _⟩ := AltM_head h (by simp)
            left; rw [hl]; simp
        · rcases ih h hj with h1 | h1
          · left; exact List.mem_cons_of_mem _ h1
          · right; exact h1
    | rem i =>
      cases o with
      | none => simp [AltM] at h
      | some k =>
        simp only [AltM] at h
        simp only [altEnd]
        rcases List.mem_cons.1 hj with hj | hj
        · cases hj
        · rcases ih h.2 hj with h1 | h1
          · left; exact List.mem_cons_of_mem _ h1
          · right; exact h1

/-- **Counting.**  After `#removals` entries are dropped from (outstanding trial ++ the requests of
the batch), exactly the outstanding trial of the end of the batch is left: every removal of the
batch cancels the trial notified just before it. -/
theorem AltM_drop (c : Cfg) {o : Option Info} {seg : List Note} (h : AltM o seg) :
    ((o.map (reqOf c)).toList ++ seg.filterMap (Note.req? c)).drop (seg.filterMap (Note.rem? c)).length =
      ((altEnd o seg).map (reqOf c)).toList := by
  induction seg generalizing o with
  | nil => simp [altEnd]
  | cons x xs ih =>
    cases x with
    | add i =>
      cases o with
      | some _ => simp [AltM] at h
      | none =>
        simp only [AltM] at h
        have e1 : (Note.add i :: xs).filterMap (Note.rem? c) = xs.filterMap (Note.rem? c) := rfl
        have e2 : (Note.add i :: xs).filterMap (Note.req? c) = reqOf c i :: xs.filterMap (Note.req? c) := rfl
        rw [e1, e2]
        simpa [altEnd] using ih h
    | rem j =>
      cases o with
      | none => simp [AltM] at h
      | some k =>
        simp only [AltM] at h
        have e1 : (Note.rem j :: xs).filterMap (Note.rem? c) = (reqOf c j).key :: xs.filterMap (Note.rem? c) := rfl
        have e2 : (Note.rem j :: xs).filterMap (Note.req? c) = xs.filterMap (Note.req? c) := rfl
        rw [e1, e2]
        simpa [altEnd] using ih h.2

/-! ### a batch of notifications, projected on one key -/

theorem onKey_cons (c : Cfg) (κ : Nat) (x : Note) (l : List Note) :
    onKey c κ (x :: l) = if noteKey c x = κ then x :: onKey c κ l else onKey c κ l := by
  simp only [onKey, List.filter_cons]
  by_cases h : noteKey c x = κ <;> simp [h]

theorem onKey_reqs (c : Cfg) (κ : Nat) (l : List Note) :
    (l.filterMap (Note.req? c)).filter (fun q => q.key == κ) = (onKey c κ l).filterMap (Note.req? c) := by
  induction l with
  | nil => rfl
  | cons x xs ih =>
    rw [onKey_cons]
    cases x with
    | add i =>
      have e : ∀ l, (Note.add i :: l).filterMap (Note.req? c) = reqOf c i :: l.filterMap (Note.req? c) :=
        fun _ => rfl
      have hk : noteKey c (Note.add i) = (reqOf c i).key := rfl
      rw [e, hk, List.filter_cons]
      by_cases h : (reqOf c i).key = κ
      · simp only [h, beq_self_eq_true, if_true, e, ih]
      · have : ((reqOf c i).key == κ) = false := by simpa using h
        simp only [this, Bool.false_eq_true, if_false, h, ih]
    | rem i =>
      have e : ∀ l, (Note.rem i :: l).filterMap (Note.req? c) = l.filterMap (Note.req? c) := fun _ => rfl
      rw [e]
      split
      · rw [e, ih]
      · exact ih

theorem onKey_rems (c : Cfg) (κ : Nat) (l : List Note) :
    (l.filterMap (Note.rem? c)).count κ = ((onKey c κ l).filterMap (Note.rem? c)).length := by
  induction l with
  | nil => rfl
  | cons x xs ih =>
    rw [onKey_cons]
    cases x with
    | add i =>
      have e : ∀ l, (Note.add i :: l).filterMap (Note.rem? c) = l.filterMap (Note.rem? c) := fun _ => rfl
      rw [e]
      split
      · rw [e, ih]
      · exact ih
    | rem i =>
      have e : ∀ l, (Note.rem i :: l).filterMap (Note.rem? c) = (reqOf c i).key :: l.filterMap (Note.rem? c) :=
        fun _ => rfl
      have hk : noteKey c (Note.rem i) = (reqOf c i).key := rfl
      rw [e, hk]
      by_cases h : (reqOf c i).key = κ
      · simp only [h, if_true, e, List.count_cons_self, List.length_cons, ih]
      · simp only [h, if_false, List.count_cons_of_ne h, ih]

theorem mem_add? {l : List Note} {i : Info} : i ∈ l.filterMap Note.add? ↔ Note.add i ∈ l := by
  induction l with
  | nil => simp
  | cons x xs ih =>
    cases x with
    | add j =>
      have e : (Note.add j :: xs).filterMap Note.add? = j :: xs.filterMap Note.add? := rfl
      rw [e]
      simp only [List.mem_cons, ih, Note.add.injEq]
    | rem j =>
      have e : (Note.rem j :: xs).filterMap Note.add? = xs.filterMap Note.add? := rfl
      rw [e, ih]
      simp

theorem filterMap_add?_adds (is : List Info) : (is.map Note.add).filterMap Note.add? = is := by
  induction is with
  | nil => rfl
  | cons i is ih => simp [Note.add?, ih]

theorem filterMap_add?_rems (rs : List Info) : (rs.map Note.rem).filterMap Note.add? = [] := by
  induction rs with
  | nil => rfl
  | cons i is ih => exact ih

theorem req?_eq_add? (c : Cfg) (l : List Note) :
    l.filterMap (Note.req? c) = (l.filterMap Note.add?).map (reqOf c) := by
  induction l with
  | nil => rfl
  | cons x xs ih =>
    cases x with
    | add i =>
      have e1 : (Note.add i :: xs).filterMap (Note.req? c) = reqOf c i :: xs.filterMap (Note.req? c) := rfl
      have e2 : (Note.add i :: xs).filterMap Note.add? = i :: xs.filterMap Note.add? := rfl
      rw [e1, e2, ih]; rfl
    | rem i => exact ih

/-! ### one acquisition call, one key -/

/-- completion is monotone in the number of samples acquired -/
theorem doneAt_mono {r : Request} {T T' : Nat} (h : doneAt r T = true) (hle : T ≤ T') : doneAt r T' = true := by
  simp only [doneAt, decide_eq_true_eq] at h ⊢; omega

/-- **The extractor's key discipline holds for a batch of an alternating stream**, and the spec
machine of C05 follows the outstanding trial: `o1` is the outstanding trial of key `κ` among the
notifications seen before the call (`T` samples acquired), `seg` the notifications about `κ` this
call sees.  A removal is never seen after its trial was completed (`hlate`: admissibility). -/
theorem acq_key (c : Cfg) (κ : Nat) (o1 : Option Info) (seg : List Note) (op : Extract.Op Cell) (T : Nat)
    (halt : AltM o1 seg)
    (hadds : addsK κ op = seg.filterMap (Note.req? c))
    (hrems : op.rems.count κ = (seg.filterMap (Note.rem? c)).length)
    (hlate : ∀ i, o1 = some i → seg ≠ [] → doneAt (reqOf c i) T = false) :
    KeyOK κ ((o1.filter (fun i => !doneAt (reqOf c i) T)).map (reqOf c)) op ∧
    keyNext κ T ((o1.filter (fun i => !doneAt (reqOf c i) T)).map (reqOf c)) op =
      ((altEnd o1 seg).filter (fun i => !doneAt (reqOf c i) (T + op.chunk.length))).map (reqOf c) ∧
    ((o1.filter (fun i => doneAt (reqOf c i) T)).map (reqOf c)).toList ++
        (keyEmit κ T ((o1.filter (fun i => !doneAt (reqOf c i) T)).map (reqOf c)) op).toList =
      (((altEnd o1 seg).filter (fun i => doneAt (reqOf c i) (T + op.chunk.length))).map (reqOf c)).toList := by
  cases seg with
  | nil =>
    -- nothing about this key in the call: only the chunk matters
    simp only [List.filterMap_nil, List.length_nil] at hadds hrems
    have hk : κ ∉ op.rems := by rw [← List.count_eq_zero]; exact hrems
    have htk : ∀ live, takenK κ live op = [] := by intro live; simp [takenK, hadds]
    have hkp : ∀ live, keptK κ live op = live := by intro live; simp [keptK, hk]
    refine ⟨keyOK_of_no_adds κ _ op hadds, ?_, ?_⟩
    · simp only [keyNext, htk, hkp, altEnd]
      cases o1 with
      | none => rfl
      | some i =>
        simp only [Option.filter]
        by_cases hd : doneAt (reqOf c i) T = true
        · have := doneAt_mono hd (Nat.le_add_right T op.chunk.length)
          simp [hd, this]
        · have hd' : doneAt (reqOf c i) T = false := by simpa using hd
          simp only [hd', Bool.not_false, if_true, Option.map_some]
          by_cases hd2 : doneAt (reqOf c i) (T + op.chunk.length) = true <;> simp [hd2]
    · simp only [keyEmit, htk, hkp, altEnd]
      cases o1 with
      | none => rfl
      | some i =>
        simp only [Option.filter]
        by_cases hd : doneAt (reqOf c i) T = true
        · have := doneAt_mono hd (Nat.le_add_right T op.chunk.length)
          simp [hd, this]
        · have hd' : doneAt (reqOf c i) T = false := by simpa using hd
          simp only [hd', Bool.not_false, if_true, Option.map_some, Bool.false_eq_true, if_false]
          by_cases hd2 : doneAt (reqOf c i) (T + op.chunk.length) = true <;> simp [hd2]
  | cons x xs =>
    -- the key is touched: what was outstanding is not complete, and is cancelled first
    have hdrop := AltM_drop c halt
    have hlive : (o1.filter (fun i => !doneAt (reqOf c i) T)).map (reqOf c) = o1.map (reqOf c) := by
      cases o1 with
      | none => rfl
      | some i => simp [Option.filter, hlate i rfl (by simp)]
    have hacc0 : ((o1.filter (fun i => doneAt (reqOf c i) T)).map (reqOf c)).toList = [] := by
      cases o1 with
      | none => rfl
      | some i => simp [Option.filter, hlate i rfl (by simp)]
    rw [hlive, hacc0]
    -- the requests taken in: the outstanding trial of the end of the batch
    have htk : takenK κ (o1.map (reqOf c)) op = ((altEnd o1 (x :: xs)).map (reqOf c)).toList := by
      rw [← hdrop]
      unfold takenK skipCount
      rw [hadds, hrems]
      cases o1 with
      | none => simp
      | some i =>
        obtain ⟨l', hl, _⟩ := AltM_head halt (by simp)
        rw [hl]
        simp [Note.rem?]
    have hkp : keptK κ (o1.map (reqOf c)) op = none := by
      cases o1 with
      | none => simp [keptK]
      | some i =>
        obtain ⟨l', hl, _⟩ := AltM_head halt (by simp)
        have : κ ∈ op.rems := by
          rw [← List.count_pos_iff, hrems, hl]; simp [Note.rem?]
        simp [keptK, this]
    refine ⟨⟨?_, fun _ => hkp⟩, ?_, ?_⟩
    · rw [htk]; cases altEnd o1 (x :: xs) <;> simp
    · simp only [keyNext, htk]
      cases altEnd o1 (x :: xs) with
      | none => simp [hkp]
      | some i2 =>
        simp only [Option.map_some, Option.toList, Option.filter]
        by_cases hd2 : doneAt (reqOf c i2) (T + op.chunk.length) = true <;> simp [hd2]
    · simp only [keyEmit, htk, List.nil_append]
      cases altEnd o1 (x :: xs) with
      | none => simp [hkp]
      | some i2 =>
        simp only [Option.map_some, Option.toList, Option.filter]
        by_cases hd2 : doneAt (reqOf c i2) (T + op.chunk.length) = true <;> simp [hd2]

/-! ### small facts about the queue's logs -/

theorem sorted_inj {l : List Info} (h : l.Pairwise (fun a b => a.k < b.k)) {a b : Info}
    (ha : a ∈ l) (hb : b ∈ l) (he : a.k = b.k) : a = b := by
  induction l with
  | nil => cases ha
  | cons x xs ih =>
    simp only [List.pairwise_cons] at h
    rcases List.mem_cons.1 ha with ha1 | ha1
    · rcases List.mem_cons.1 hb with hb1 | hb1
      · rw [ha1, hb1]
      · have := h.1 b hb1; rw [← ha1] at this; omega
    · rcases List.mem_cons.1 hb with hb1 | hb1
      · have := h.1 a ha1; rw [← hb1] at this; omega
      · exact ih h.2 ha1 hb1

theorem nodup_map_on {β γ} [DecidableEq γ] (f : β → γ) (l : List β) (hn : l.Nodup)
    (hinj : ∀ a ∈ l, ∀ b ∈ l, f a = f b → a = b) : (l.map f).Nodup := by
  induction l with
  | nil => simp
  | cons x xs ih =>
    simp only [List.nodup_cons] at hn
    simp only [List.map_cons, List.nodup_cons]
    refine ⟨?_, ih hn.2 (fun a ha b hb => hinj a (List.mem_cons_of_mem _ ha) b (List.mem_cons_of_mem _ hb))⟩
    intro hx
    obtain ⟨y, hy, he⟩ := List.mem_map.1 hx
    have := hinj y (List.mem_cons_of_mem _ hy) x List.mem_cons_self he
    subst this
    exact hn.1 hy

/-- trials with pairwise different starts: at most one notification of a batch is about key `κ` -/
theorem onKey_le_one (c : Cfg) (henc : EncInj c) (κ : Nat) (l : List Info) (f : Info → Note)
    (hf : ∀ i, (f i).info = i) (hn : l.Nodup)
    (hk : ∀ a ∈ l, ∀ b ∈ l, a.k = b.k → a = b) :
    onKey c κ (l.map f) = [] ∨ ∃ i ∈ l, (reqOf c i).key = κ ∧ onKey c κ (l.map f) = [f i] := by
  have hnd : (l.map (fun i => (reqOf c i).key)).Nodup := by
    apply nodup_map_on _ _ hn
    intro a ha b hb he
    exact hk a ha b hb (henc _ _ _ _ he).1
  have hmap : onKey c κ (l.map f) = (l.filter (fun i => (reqOf c i).key == κ)).map f := by
    simp only [onKey, List.filter_map]
    congr 1
    apply List.filter_congr
    intro i _
    simp [noteKey, hf]
  have hle := filter_le_one_of_nodup l (fun i => (reqOf c i).key) κ hnd
  rw [hmap]
  cases hfl : l.filter (fun i => (reqOf c i).key == κ) with
  | nil => left; rfl
  | cons i rest =>
    rw [hfl] at hle
    have : rest = [] := List.length_eq_zero_iff.1 (by simp only [List.length_cons] at hle; omega)
    subst this
    have hi : i ∈ l.filter (fun i => (reqOf c i).key == κ) := by rw [hfl]; exact List.mem_cons_self
    right
    exact ⟨i, (List.mem_filter.1 hi).1, by simpa using (List.mem_filter.1 hi).2, rfl⟩

end Psi.E2E
