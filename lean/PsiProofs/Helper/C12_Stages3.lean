import PsiProofs.Helper.C12_Stages2
/-! Run lemmas of the accumulating stages `blocked` and `rms`. -/
namespace Psi.Stages
variable {α β ρ χ μ S τ σ I : Type}

theorem take_split (b : Nat) (hb : 0 < b) (m rest : List α) :
    (m ++ rest).take ((m.length + rest.length) / b * b)
      = m.take (m.length / b * b) ++ (m.drop (m.length / b * b) ++ rest).take ((m.length % b + rest.length) / b * b) := by
  have htot : (m.length + rest.length) / b * b = m.length / b * b + (m.length % b + rest.length) / b * b := by
    have h1 : m.length + rest.length = (m.length % b + rest.length) + b * (m.length / b) := by
      have := Nat.div_add_mod m.length b; omega
    rw [h1, Nat.add_mul_div_left _ _ hb, Nat.add_mul]; omega
  have e : m ++ rest = m.take (m.length / b * b) ++ (m.drop (m.length / b * b) ++ rest) := by
    rw [← List.append_assoc, List.take_append_drop]
  have hl : (m.take (m.length / b * b)).length = m.length / b * b := by
    rw [List.length_take, Nat.min_eq_left (Nat.div_mul_le_self _ _)]
  rw [htot, e, take_add_append _ _ _ _ hl]

theorem length_drop_complete (b : Nat) (m : List α) : (m.drop (m.length / b * b)).length = m.length % b := by
  have := Nat.div_add_mod m.length b
  have h3 : b * (m.length / b) = m.length / b * b := Nat.mul_comm _ _
  rw [List.length_drop]; omega

/-! ### several blocks at once -/

theorem Contig.append {u : Int} : ∀ (o bs : List (PD β ρ χ μ)) (t : Int),
    Contig u t o → Contig u (t + u * (outData o).length) bs → Contig u t (o ++ bs) := by
  intro o
  induction o with
  | nil => intro bs t _ h; simpa [outData] using h
  | cons b o ih =>
    intro bs t h1 h2
    obtain ⟨hb, h1⟩ := h1
    refine ⟨hb, ih bs _ h1 ?_⟩
    have e : t + u * ((outData (b :: o)).length : Nat) = t + u * (b.len : Nat) + u * ((outData o).length : Nat) := by
      simp only [outData, List.map_cons, List.flatten_cons, List.length_append, PD.len]
      rw [Int.natCast_add, Int.mul_add, Int.add_assoc]
    rw [e] at h2; exact h2

theorem Emits.append {o bs : List (PD β ρ χ μ)} {x1 x' : List β} {u t : Int} {a : Ann ρ χ μ}
    (h1 : Emits o x1 u t a) (h2 : Emits bs x' u (t + u * x1.length) a) : Emits (o ++ bs) (x1 ++ x') u t a := by
  refine ⟨?_, Contig.append o bs t h1.contig (by rw [h1.data]; exact h2.contig), ?_⟩
  · simp [outData, ← h1.data, ← h2.data]
  · intro b hb
    rcases List.mem_append.mp hb with hb | hb
    · exact h1.ann b hb
    · exact h2.ann b hb

theorem run_emit_many {step : σ → I → Except Err (List (PD β ρ χ μ) × σ)} {s s' : σ} {c : I} {cs : List I}
    {x1 x' : List β} {u t : Int} {a : Ann ρ χ μ} {P : PD β ρ χ μ → Prop} (o : List (PD β ρ χ μ))
    (hstep : step s c = .ok (o, s')) (ho : Emits o x1 u t a) (hoP : ∀ b ∈ o, P b)
    (ih : ∃ bs, outputs (runStage step s' cs) = .ok bs ∧ Emits bs x' u (t + u * x1.length) a ∧ ∀ b ∈ bs, P b) :
    ∃ bs, outputs (runStage step s (c :: cs)) = .ok bs ∧ Emits bs (x1 ++ x') u t a ∧ ∀ b ∈ bs, P b := by
  obtain ⟨bs, hr, he, hP⟩ := ih
  refine ⟨o ++ bs, ?_, ho.append he, ?_⟩
  · simp only [runStage, hstep]
    cases hrun : runStage step s' cs with
    | error e => simp [hrun, outputs] at hr
    | ok p => obtain ⟨os, s''⟩ := p; simp [hrun, outputs] at hr ⊢; exact hr
  · intro b hb
    rcases List.mem_append.mp hb with hb | hb
    · exact hoP b hb
    · exact hP b hb

/-! ### the buffered pieces -/

/-- the list of buffered arrays concatenates to the samples `b` that end just before `s` -/
def BufIs (pieces : List (PD α ρ χ μ)) (b : List α) (s : Int) (ann : Ann ρ χ μ) : Prop :=
  (pieces = [] ∧ b = []) ∨ catAll pieces = .ok { data := b, s0 := s - b.length, ann := ann }

theorem catAll_snoc (a : PD α ρ χ μ) (rest : List (PD α ρ χ μ)) (d : PD α ρ χ μ) :
    catAll ((a :: rest) ++ [d]) = (match catAll (a :: rest) with | .ok m => cat m d | .error e => .error e) := by
  simp only [catAll, List.cons_append, List.foldlM_append]
  cases h : List.foldlM cat a rest with
  | error e => simp [bind, Except.bind]
  | ok m =>
    simp only [bind, Except.bind, List.foldlM_cons, List.foldlM_nil]
    cases cat m d <;> rfl

theorem BufIs.snoc {pieces : List (PD α ρ χ μ)} {b : List α} {s : Int} {ann : Ann ρ χ μ}
    (h : BufIs pieces b s ann) (c : List α) :
    catAll (pieces ++ [{ data := c, s0 := s, ann := ann }])
      = .ok { data := b ++ c, s0 := s - b.length, ann := ann } := by
  rcases h with ⟨hp, hb⟩ | h
  · subst hp hb; simp [catAll, List.foldlM, pure, Except.pure]
  · cases pieces with
    | nil => simp [catAll] at h
    | cons a rest =>
      rw [catAll_snoc, h]
      simp [cat, PD.len]

/-! ### blocked -/

theorem PD.dropN_dropN (m : PD α ρ χ μ) (i j : Nat) : (m.dropN i).dropN j = m.dropN (i + j) := by
  simp only [PD.dropN, List.drop_drop]
  congr 1
  rw [Int.natCast_add, Int.add_assoc]

theorem blockLoop_spec (b : Nat) (hb : 0 < b) : ∀ (fuel : Nat) (m : PD α ρ χ μ), m.len ≤ fuel →
    (blockLoop b fuel m).2 = m.dropN (m.len / b * b)
    ∧ Emits (blockLoop b fuel m).1 (m.data.take (m.len / b * b)) 1 m.s0 m.ann
    ∧ ∀ blk ∈ (blockLoop b fuel m).1, blk.len = b := by
  intro fuel
  induction fuel with
  | zero =>
    intro m hm
    have h0 : m.len = 0 := by omega
    simp only [blockLoop, h0, Nat.zero_div, Nat.zero_mul, List.take_zero]
    refine ⟨by simp [PD.dropN], Emits.nil _ _ _, by simp⟩
  | succ fuel ih =>
    intro m hm
    by_cases hle : b ≤ m.len
    · simp only [blockLoop, if_pos hle]
      have hlen : (m.dropN b).len = m.len - b := by simp [PD.dropN, PD.len]
      obtain ⟨h2, he, hP⟩ := ih (m.dropN b) (by rw [hlen]; omega)
      rw [hlen] at h2 he
      have hk := div_mul_step b m.len hb hle
      refine ⟨?_, ?_, ?_⟩
      · rw [h2, PD.dropN_dropN, hk]
      · refine Emits.cons (m.takeN b) he rfl rfl ?_ ?_
        · have hle' : b ≤ m.data.length := hle
          simp only [PD.dropN, PD.takeN, PD.len, List.length_take]
          rw [Nat.min_eq_left hle']; omega
        · rw [hk, List.take_add]; rfl
      · intro blk hblk
        rcases List.mem_cons.mp hblk with rfl | hblk
        · simp only [PD.takeN, PD.len, List.length_take]; exact Nat.min_eq_left hle
        · exact hP blk hblk
    · have hlt : m.len < b := Nat.lt_of_not_le hle
      simp only [blockLoop, if_neg hle, Nat.div_eq_of_lt hlt, Nat.zero_mul, List.take_zero]
      refine ⟨by simp [PD.dropN], Emits.nil _ _ _, by simp⟩

theorem blocked_run (b : Nat) (hb : 0 < b) (ann : Ann ρ χ μ) :
    ∀ (cs : List (List α)) (buf : List α) (s : Int) (st : BlockedSt α ρ χ μ),
    BufIs st.data buf s ann → buf.length ≤ st.n → st.n < b →
    ∃ bs, outputs (runStage (blockedStep b) st (stream ann s cs)) = .ok bs
      ∧ Emits bs ((buf ++ cs.flatten).take ((buf.length + cs.flatten.length) / b * b)) 1 (s - buf.length) ann
      ∧ ∀ blk ∈ bs, blk.len = b := by
  intro cs
  induction cs with
  | nil =>
    intro buf s st _ hle0 hlt0
    have hlt : buf.length < b := Nat.lt_of_le_of_lt hle0 hlt0
    refine ⟨[], rfl, ?_, by simp⟩
    have : (buf ++ ([] : List (List α)).flatten).take
        ((buf.length + ([] : List (List α)).flatten.length) / b * b) = [] := by
      simp [Nat.div_eq_of_lt hlt]
    rw [this]; exact Emits.nil _ _ _
  | cons c cs ih =>
    intro buf s st hbuf hn hlt0
    have hlt : buf.length < b := Nat.lt_of_le_of_lt hn hlt0
    rw [stream_cons]
    have hmerged := hbuf.snoc c
    have hassoc : buf ++ (c :: cs).flatten = (buf ++ c) ++ cs.flatten := by simp
    have hlen : buf.length + (c :: cs).flatten.length = (buf ++ c).length + cs.flatten.length := by
      simp; omega
    rw [hassoc, hlen]
    by_cases hge : b ≤ st.n + c.length
    · -- enough for at least one block
      have hstep : blockedStep b st { data := c, s0 := s, ann := ann }
          = .ok ((blockLoop b (buf ++ c).length { data := buf ++ c, s0 := s - buf.length, ann := ann }).1,
                 { data := [(blockLoop b (buf ++ c).length { data := buf ++ c, s0 := s - buf.length, ann := ann }).2],
                   n := (blockLoop b (buf ++ c).length { data := buf ++ c, s0 := s - buf.length, ann := ann }).2.len }) := by
        have hge' : b ≤ st.n + ({ data := c, s0 := s, ann := ann } : PD α ρ χ μ).len := hge
        unfold blockedStep
        rw [if_neg (Nat.ne_of_gt hb)]
        simp only []
        rw [if_pos hge', hmerged]
        rfl
      obtain ⟨h2, he, hP⟩ := blockLoop_spec b hb (buf ++ c).length
        { data := buf ++ c, s0 := s - buf.length, ann := ann } (Nat.le_refl _)
      rw [h2] at hstep
      simp only [PD.len] at h2 he hP hstep
      rw [take_split b hb (buf ++ c) cs.flatten]
      refine run_emit_many _ hstep he hP ?_
      have hrl := length_drop_complete b (buf ++ c)
      have := ih ((buf ++ c).drop ((buf ++ c).length / b * b)) (s + c.length)
        { data := [({ data := buf ++ c, s0 := s - buf.length, ann := ann } : PD α ρ χ μ).dropN
            ((buf ++ c).length / b * b)],
          n := (({ data := buf ++ c, s0 := s - buf.length, ann := ann } : PD α ρ χ μ).dropN
            ((buf ++ c).length / b * b)).data.length }
        (Or.inr ?_) (by simp [PD.dropN]) (by simp only [PD.dropN]; rw [hrl]; exact Nat.mod_lt _ hb)
      · rw [hrl] at this
        have hle := Nat.div_mul_le_self (buf ++ c).length b
        have e : s + (c.length : Int) - (((buf ++ c).length % b : Nat) : Int)
            = s - buf.length + 1 * ((List.take ((buf ++ c).length / b * b) (buf ++ c)).length : Nat) := by
          rw [List.length_take, Nat.min_eq_left hle]
          have := Nat.div_add_mod (buf ++ c).length b
          have h3 : b * ((buf ++ c).length / b) = (buf ++ c).length / b * b := Nat.mul_comm _ _
          simp only [List.length_append] at *
          omega
        rw [e] at this
        exact this
      · simp only [catAll, List.foldlM_nil, pure, Except.pure, PD.dropN]
        congr 2
        have hle := Nat.div_mul_le_self (buf ++ c).length b
        rw [List.length_drop]
        simp only [List.length_append] at *
        omega
    · -- keep accumulating
      have hstep : blockedStep b st { data := c, s0 := s, ann := ann }
          = .ok ([], { data := st.data ++ [{ data := c, s0 := s, ann := ann }], n := st.n + c.length }) := by
        have hge' : ¬ b ≤ st.n + ({ data := c, s0 := s, ann := ann } : PD α ρ χ μ).len := hge
        unfold blockedStep
        rw [if_neg (Nat.ne_of_gt hb)]
        simp only []
        rw [if_neg hge']
        rfl
      refine run_emit_many (x1 := []) [] hstep (Emits.nil _ _ _) (by simp) ?_
      have e0 : s - (buf.length : Int) + 1 * (([] : List α).length : Nat) = s - buf.length := by simp
      rw [e0]
      have := ih (buf ++ c) (s + c.length)
        { data := st.data ++ [{ data := c, s0 := s, ann := ann }], n := st.n + c.length }
        (Or.inr ?_) (by simp; omega) (by simp; omega)
      · have e : s + (c.length : Int) - ((buf ++ c).length : Int) = s - buf.length := by
          simp only [List.length_append]; omega
        rw [e] at this
        exact this
      · rw [hmerged]
        congr 2
        simp only [List.length_append]; omega

/-! ### rms -/

theorem chunksOf_take_complete (n : Nat) (hn : 0 < n) (m : List α) :
    chunksOf n m.length (m.take (m.length / n * n)) = blocksOf n m := by
  rw [chunksOf_fuel n hn m.length (m.take (m.length / n * n)).length _
    (by rw [List.length_take]; exact Nat.min_le_right _ _) (Nat.le_refl _)]
  exact blocksOf_take n hn m

theorem rms_run (blockFn : List α → β) (divFs : ρ → Nat → ρ) (n : Nat) (hn : 0 < n) (ann : Ann ρ χ μ) :
    ∀ (cs : List (List α)) (buf : List α) (s : Int) (st : RmsSt α ρ χ μ),
    BufIs st.data buf s ann → st.samples = buf.length → buf.length < n →
    ∃ bs, outputs (runStage (rmsStep blockFn divFs n) st (stream ann s cs)) = .ok bs
      ∧ Emits bs ((blocksOf n (buf ++ cs.flatten)).map blockFn) n (s - buf.length)
          { ann with fs := divFs ann.fs n } := by
  intro cs
  induction cs with
  | nil =>
    intro buf s st _ _ hlt
    refine ⟨[], rfl, ?_⟩
    have : (blocksOf n (buf ++ ([] : List (List α)).flatten)).map blockFn = [] := by
      simp [blocksOf_short n buf hlt]
    rw [this]; exact Emits.nil _ _ _
  | cons c cs ih =>
    intro buf s st hbuf hsamp hlt
    rw [stream_cons]
    have hmerged := hbuf.snoc c
    have hassoc : buf ++ (c :: cs).flatten = (buf ++ c) ++ cs.flatten := by simp
    rw [hassoc]
    by_cases hge : n ≤ st.samples + c.length
    · have hge' : n ≤ st.samples + ({ data := c, s0 := s, ann := ann } : PD α ρ χ μ).len := hge
      have hstep : rmsStep blockFn divFs n st { data := c, s0 := s, ann := ann }
          = .ok ([{ data := (blocksOf n (buf ++ c)).map blockFn, s0 := s - buf.length,
                    ann := { ann with fs := divFs ann.fs n } }],
                 { data := [({ data := buf ++ c, s0 := s - buf.length, ann := ann } : PD α ρ χ μ).dropN
                      ((buf ++ c).length / n * n)],
                   samples := (({ data := buf ++ c, s0 := s - buf.length, ann := ann } : PD α ρ χ μ).dropN
                      ((buf ++ c).length / n * n)).len }) := by
        unfold rmsStep
        rw [if_neg (Nat.ne_of_gt hn)]
        simp only []
        rw [if_pos hge', hmerged]
        simp only [PD.len, chunksOf_take_complete n hn (buf ++ c)]
      rw [blocksOf_append n hn cs.flatten (buf ++ c), List.map_append]
      have hrl := length_drop_complete n (buf ++ c)
      have hle := Nat.div_mul_le_self (buf ++ c).length n
      have := ih ((buf ++ c).drop ((buf ++ c).length / n * n)) (s + c.length)
        { data := [({ data := buf ++ c, s0 := s - buf.length, ann := ann } : PD α ρ χ μ).dropN
                      ((buf ++ c).length / n * n)],
          samples := (({ data := buf ++ c, s0 := s - buf.length, ann := ann } : PD α ρ χ μ).dropN
                      ((buf ++ c).length / n * n)).len }
        (Or.inr ?_) (by simp [PD.dropN, PD.len]) (by rw [hrl]; exact Nat.mod_lt _ hn)
      · refine run_emit_one _ hstep this rfl rfl ?_ rfl
        simp only [PD.len, List.length_map, blocksOf_count n hn, hrl]
        have h1 := Nat.div_add_mod (buf ++ c).length n
        rw [← Int.natCast_mul, Nat.mul_comm n]
        have h3 : n * ((buf ++ c).length / n) = (buf ++ c).length / n * n := Nat.mul_comm _ _
        simp only [List.length_append] at *
        omega
      · simp only [catAll, List.foldlM_nil, pure, Except.pure, PD.dropN]
        congr 2
        rw [List.length_drop]
        simp only [List.length_append] at *
        omega
    · have hge' : ¬ n ≤ st.samples + ({ data := c, s0 := s, ann := ann } : PD α ρ χ μ).len := hge
      have hstep : rmsStep blockFn divFs n st { data := c, s0 := s, ann := ann }
          = .ok ([], { data := st.data ++ [{ data := c, s0 := s, ann := ann }],
                       samples := st.samples + c.length }) := by
        unfold rmsStep
        rw [if_neg (Nat.ne_of_gt hn)]
        simp only []
        rw [if_neg hge']
        rfl
      refine run_emit_none hstep ?_
      have := ih (buf ++ c) (s + c.length)
        { data := st.data ++ [{ data := c, s0 := s, ann := ann }], samples := st.samples + c.length }
        (Or.inr ?_) (by simp [hsamp]) (by simp; omega)
      · have e : s + (c.length : Int) - ((buf ++ c).length : Int) = s - buf.length := by
          simp only [List.length_append]; omega
        rw [e] at this
        exact this
      · rw [hmerged]
        congr 2
        simp only [List.length_append]; omega

end Psi.Stages
