import PsiProofs.Helper.C11_Getitem
/-! Channel / epoch selection: the labels picked by `getitem` are those at the positions NumPy selects. -/
set_option linter.unusedSimpArgs false
namespace Psi.PData

theorem wrapIndex_lt {i : Int} {n p : Nat} (h : wrapIndex i n = .ok p) : p < n := by
  unfold wrapIndex at h
  split at h
  · cases h
  · simp only [Except.ok.injEq] at h
    subst h
    split <;> omega

/-- channel annotation selected by `sel` from the label list `l`. -/
def selChan (l : List Label) : Sel → Chan
  | .idx p => .one (l.getD p none)
  | .basic ps => .many (listTake l ps)
  | .fancy ps => .many (listTake l ps)
  | .new => .many [default]

/-- metadata annotation selected by `sel` from the list `l`. -/
def selMeta (l : List Md) : Sel → Meta
  | .idx p => .one (l.getD p 0)
  | .basic ps => .many (listTake l ps)
  | .fancy ps => .many (listTake l ps)
  | .new => .many [default]

/-- output axes contributed by a selection. -/
def selShape : Sel → List Nat
  | .idx _ => []
  | .basic ps => [ps.length]
  | .fancy ps => [ps.length]
  | .new => [1]

theorem fixTime_all (a obj : PD) (fx : Bool) : fixTime fx a obj (.slice .all) = .ok obj := by
  simp [fixTime, PySlice.all]

theorem trueIdx_all (m : List Bool) (h : m.all id = true) (pos : Nat) : trueIdx pos m = List.range' pos m.length := by
  induction m generalizing pos with
  | nil => simp [trueIdx]
  | cons b bs ih =>
    simp at h
    simp [trueIdx, h.1, ih (by simpa using h.2), List.range'_succ]

theorem listTake_trueIdx_all {α} (l : List α) (m : List Bool) (h : m.all id = true) (hl : m.length = l.length) :
    listTake l (trueIdx 0 m) = l := by
  rw [trueIdx_all m h 0, hl, ← List.range_eq_range']
  exact listTake_range l

theorem maskPositions_all {m : List Bool} {n : Nat} {ps : List Nat} (h : m.all id = true)
    (hp : maskPositions m n = .ok ps) : ps = List.range n := by
  unfold maskPositions at hp
  split at hp
  · cases hp
    rename_i hlen
    rw [trueIdx_all m h 0, hlen, List.range_eq_range']
  · cases hp

theorem filterMap_getElem_range {α} (l : List α) : List.filterMap (fun x => l[x]?) (List.range l.length) = l :=
  listTake_range l

macro "eval_getitem" : tactic => `(tactic|
  simp [getitem, getitemG, Index.items, npGetitem, Item.isEllipsis, Item.consumes, expandEllipsis, assignAxes,
    strides, itemSel, slicePositions_all, Sel.isFancy, Sel.isAdvanced, advOffset, plainAxis, Except.map, List.filter,
    isScalarResult, normalizeIndexG, normTuple, normLoop, Item.isNewaxis, fullSlices, PD.ndim, fixups, splitNorm,
    Fixes.all, finalize, NPSel.shape, fixTime_all, fixChannel, fixEpoch, listGet, listSlice, selShape, selChan, selMeta,
    broadcastLen, itemsAdjacent, Item.isAdv, axesInPlace, List.filterMap, List.dropWhile, listTake, listSlice_all, filterMap_getElem_range, *])

/-- 2-D array, selection on the (leading) channel axis: `x[it]`. -/
theorem getitem_chan_2d (c n : Nat) (data : List Nat) (s0 : Int) (fs : Rat) (l : List Label) (m : Md)
    (hl : l.length = c) (it : Item) (hit : it ≠ .newaxis ∧ it ≠ .ellipsis) (sel : Sel) (h : itemSel it c = .ok sel) :
    ∃ d, getitem ⟨[c, n], data, s0, fs, .many l, .one m⟩ (.one it) =
      .ok (.arr ⟨selShape sel ++ [n], d, s0, fs, selChan l sel, .one m⟩) := by
  subst hl
  cases it with
  | newaxis => exact absurd rfl hit.1
  | ellipsis => exact absurd rfl hit.2
  | int i =>
    simp [itemSel, Except.map] at h
    split at h
    · cases h
    · rename_i p hp
      cases h
      have hlt := wrapIndex_lt hp
      have : l[p]? = some l[p] := List.getElem?_eq_getElem hlt
      eval_getitem
  | slice s =>
    simp [itemSel, Except.map] at h
    split at h
    · cases h
    · rename_i ps hp
      cases h
      eval_getitem
  | ilist idx =>
    by_cases he : idx = []
    · subst he
      simp [itemSel] at h
      cases h
      have : wrapAll [] l.length = .ok [] := rfl
      eval_getitem
    · simp [itemSel, he, Except.map] at h
      split at h
      · cases h
      · rename_i ps hp
        cases h
        eval_getitem
  | iarr idx =>
    simp [itemSel, Except.map] at h
    split at h
    · cases h
    · rename_i ps hp
      cases h
      eval_getitem
  | blist mk =>
    by_cases he : mk = []
    · subst he
      simp [itemSel] at h
      cases h
      eval_getitem
    · simp [itemSel, he, Except.map] at h
      split at h
      · cases h
      · rename_i ps hp
        cases h
        eval_getitem
  | barr mk =>
    simp [itemSel, Except.map] at h
    split at h
    · cases h
    · rename_i ps hp
      cases h
      by_cases hall : mk.all id = true
      · have := maskPositions_all hall hp
        subst this
        eval_getitem
      · have hne : mk ≠ [] := by rintro rfl; simp at hall
        eval_getitem

/-- 3-D array, selection on the (leading) epoch axis: `x[it]`. -/
theorem getitem_epoch_3d (e c n : Nat) (data : List Nat) (s0 : Int) (fs : Rat) (lc : List Label) (l : List Md)
    (hl : l.length = e) (it : Item) (hit : it ≠ .newaxis ∧ it ≠ .ellipsis) (sel : Sel) (h : itemSel it e = .ok sel) :
    ∃ d, getitem ⟨[e, c, n], data, s0, fs, .many lc, .many l⟩ (.one it) =
      .ok (.arr ⟨selShape sel ++ [c, n], d, s0, fs, .many lc, selMeta l sel⟩) := by
  subst hl
  cases it with
  | newaxis => exact absurd rfl hit.1
  | ellipsis => exact absurd rfl hit.2
  | int i =>
    simp [itemSel, Except.map] at h
    split at h
    · cases h
    · rename_i p hp
      cases h
      have hlt := wrapIndex_lt hp
      have : l[p]? = some l[p] := List.getElem?_eq_getElem hlt
      eval_getitem
  | slice s =>
    simp [itemSel, Except.map] at h
    split at h
    · cases h
    · rename_i ps hp
      cases h
      eval_getitem
  | ilist idx =>
    by_cases he : idx = []
    · subst he
      simp [itemSel] at h
      cases h
      have : wrapAll [] l.length = .ok [] := rfl
      eval_getitem
    · simp [itemSel, he, Except.map] at h
      split at h
      · cases h
      · rename_i ps hp
        cases h
        eval_getitem
  | iarr idx =>
    simp [itemSel, Except.map] at h
    split at h
    · cases h
    · rename_i ps hp
      cases h
      by_cases he : idx = []
      · subst he
        change Except.ok [] = Except.ok ps at hp
        cases hp
        have : wrapAll [] l.length = .ok [] := rfl
        eval_getitem
      · eval_getitem
  | blist mk =>
    by_cases he : mk = []
    · subst he
      simp [itemSel] at h
      cases h
      eval_getitem
    · simp [itemSel, he, Except.map] at h
      split at h
      · cases h
      · rename_i ps hp
        cases h
        eval_getitem
  | barr mk =>
    simp [itemSel, Except.map] at h
    split at h
    · cases h
    · rename_i ps hp
      cases h
      by_cases hall : mk.all id = true
      · have := maskPositions_all hall hp
        subst this
        eval_getitem
      · have hne : mk ≠ [] := by rintro rfl; simp at hall
        eval_getitem

/-- 3-D array, selection on the channel axis: `x[:, it]` (arrays inside a tuple are refused by
`normalize_index` with a `ValueError`, so `it` is an int, a slice or a list here). -/
theorem getitem_chan_3d (e c n : Nat) (data : List Nat) (s0 : Int) (fs : Rat) (l : List Label) (ms : List Md)
    (hl : l.length = c) (it : Item) (hit : it ≠ .newaxis ∧ it ≠ .ellipsis ∧ (∀ x, it ≠ .iarr x) ∧ (∀ x, it ≠ .barr x))
    (sel : Sel) (h : itemSel it c = .ok sel) :
    ∃ d, getitem ⟨[e, c, n], data, s0, fs, .many l, .many ms⟩ (.tuple [.slice .all, it]) =
      .ok (.arr ⟨[e] ++ selShape sel ++ [n], d, s0, fs, selChan l sel, .many ms⟩) := by
  subst hl
  cases it with
  | newaxis => exact absurd rfl hit.1
  | ellipsis => exact absurd rfl hit.2.1
  | int i =>
    simp [itemSel, Except.map] at h
    split at h
    · cases h
    · rename_i p hp
      cases h
      have hlt := wrapIndex_lt hp
      have : l[p]? = some l[p] := List.getElem?_eq_getElem hlt
      eval_getitem
  | slice s =>
    simp [itemSel, Except.map] at h
    split at h
    · cases h
    · rename_i ps hp
      cases h
      eval_getitem
  | ilist idx =>
    by_cases he : idx = []
    · subst he
      simp [itemSel] at h
      cases h
      have : wrapAll [] l.length = .ok [] := rfl
      eval_getitem
    · simp [itemSel, he, Except.map] at h
      split at h
      · cases h
      · rename_i ps hp
        cases h
        eval_getitem
  | iarr idx => exact absurd rfl (hit.2.2.1 idx)
  | blist mk =>
    by_cases he : mk = []
    · subst he
      simp [itemSel] at h
      cases h
      eval_getitem
    · simp [itemSel, he, Except.map] at h
      split at h
      · cases h
      · rename_i ps hp
        cases h
        eval_getitem
  | barr mk => exact absurd rfl (hit.2.2.2 mk)



/-- the positions a selection steps through. -/
def Sel.positions : Sel → List Nat
  | .idx p => [p]
  | .basic ps => ps
  | .fancy ps => ps
  | .new => []

theorem wrapAll_lt {l : List Int} {n : Nat} {ps : List Nat} (h : wrapAll l n = .ok ps) : ∀ p ∈ ps, p < n := by
  induction l generalizing ps with
  | nil => cases h; simp
  | cons x xs ih =>
    simp only [wrapAll, List.mapM_cons, bind, Except.bind] at h
    split at h
    · cases h
    · rename_i p hp
      split at h
      · cases h
      · rename_i qs hq
        cases h
        intro q hq'
        simp only [List.mem_cons] at hq'
        rcases hq' with rfl | hq'
        · exact wrapIndex_lt hp
        · exact ih hq q hq'

theorem trueIdx_lt (m : List Bool) (pos : Nat) : ∀ p ∈ trueIdx pos m, p < pos + m.length := by
  induction m generalizing pos with
  | nil => simp [trueIdx]
  | cons b bs ih =>
    intro p hp
    simp only [trueIdx, List.mem_append] at hp
    rcases hp with hp | hp
    · split at hp <;> simp at hp; subst hp; simp
    · have := ih (pos + 1) p hp; simp; omega

theorem maskPositions_lt {m : List Bool} {n : Nat} {ps : List Nat} (h : maskPositions m n = .ok ps) : ∀ p ∈ ps, p < n := by
  unfold maskPositions at h
  split at h
  · cases h; rename_i hl; intro p hp; have := trueIdx_lt m 0 p hp; omega
  · cases h

theorem slicePositions_pos_lt {s : PySlice} {n : Nat} {ps : List Nat} (k : Int) (hk : 0 < k) (hs : s.step.getD 1 = k)
    (h : slicePositions s n = .ok ps) : ∀ p ∈ ps, p < n := by
  rw [slicePositions_pos s n k hk hs] at h
  cases h
  intro p hp
  simp only [List.mem_map, List.mem_range] at hp
  obtain ⟨j, hj, rfl⟩ := hp
  have hb := stopNat_le s n
  unfold sliceLen at hj
  simp only [hk, ↓reduceIte] at hj
  split at hj
  · rename_i hlt
    have h1 : (j : Int) ≤ ((stopNat s n : Int) - (startNat s n : Int) - 1) / k := by omega
    have h2 : ((stopNat s n : Int) - (startNat s n : Int) - 1) / k * k ≤ (stopNat s n : Int) - (startNat s n : Int) - 1 :=
      Int.ediv_mul_le _ (by omega)
    have h3 : (j : Int) * k ≤ ((stopNat s n : Int) - (startNat s n : Int) - 1) / k * k :=
      Int.mul_le_mul_of_nonneg_right h1 (by omega)
    omega
  · omega

theorem listTake_length {α} (l : List α) (ps : List Nat) (h : ∀ p ∈ ps, p < l.length) : (listTake l ps).length = ps.length := by
  induction ps with
  | nil => simp [listTake]
  | cons p ps ih =>
    have hp : p < l.length := h p (by simp)
    simp only [listTake, List.filterMap_cons, List.getElem?_eq_getElem hp, List.length_cons]
    exact congrArg (· + 1) (ih fun q hq => h q (by simp [hq]))

end Psi.PData
