import PsiProofs.Helper.C05_Lists
/-! Helper for C05: histories, the look-back window, validity of a history, the state invariant. -/
namespace Psi.Extract

/-- number of samples acquired by a history -/
def total {α} (ops : List (Op α)) : Nat := (ops.map (·.chunk.length)).sum

/-- the stream a history delivers -/
def streamOf {α} (ops : List (Op α)) : List α := (ops.map (·.chunk)).flatten

/-- every request made visible during a history -/
def allReqs {α} (ops : List (Op α)) : List Request := ops.flatMap (·.reqs)

/-- the chunks of a history, each with its start position -/
def withStarts {α} : Nat → List (Op α) → List (Nat × List α)
  | _, [] => []
  | a, op :: ops => (a, op.chunk) :: withStarts (a + op.chunk.length) ops

/-- the chunks of `ops` are consecutive slices of `S` starting at `a` -/
def ChunksOf {α} (S : List α) : Nat → List (Op α) → Prop
  | _, [] => True
  | a, op :: ops => op.chunk = slice S a op.chunk.length ∧ a + op.chunk.length ≤ S.length ∧
      ChunksOf S (a + op.chunk.length) ops

def headStart {α} (l : List (Nat × List α)) (b : Nat) : Nat :=
  match l with
  | [] => b
  | x :: _ => x.1

/-- Start of the oldest chunk that `prior_samples` still holds when the call following
`hist` takes in its requests: the prune rule (pipeline.py 852-858) applied to the chunk
list of `hist`; the new chunk itself starts at `total hist`. -/
def lookbackStart {α} (B : Nat) (hist : List (Op α)) : Nat :=
  headStart (prune B (total hist) (withStarts 0 hist)) (total hist)

theorem total_append {α} (a b : List (Op α)) : total (a ++ b) = total a + total b := by
  simp [total]

theorem total_single {α} (op : Op α) : total [op] = op.chunk.length := by simp [total]

theorem allReqs_append {α} (a b : List (Op α)) : allReqs (a ++ b) = allReqs a ++ allReqs b := by
  simp [allReqs]

theorem withStarts_append {α} (a : Nat) (l m : List (Op α)) :
    withStarts a (l ++ m) = withStarts a l ++ withStarts (a + total l) m := by
  induction l generalizing a with
  | nil => simp [withStarts, total]
  | cons op ops ih =>
    simp only [List.cons_append, withStarts, ih]
    simp [total, Nat.add_assoc]

theorem chunksOf_append {α} (S : List α) (a : Nat) (l m : List (Op α))
    (h1 : ChunksOf S a l) (h2 : ChunksOf S (a + total l) m) : ChunksOf S a (l ++ m) := by
  induction l generalizing a with
  | nil => simpa [total] using h2
  | cons op ops ih =>
    simp only [List.cons_append, ChunksOf] at h1 ⊢
    refine ⟨h1.1, h1.2.1, ih _ h1.2.2 ?_⟩
    simpa [total, Nat.add_assoc] using h2

theorem contig_withStarts {α} (S : List α) (a : Nat) (ops : List (Op α)) (h : ChunksOf S a ops) :
    Contig S a (withStarts a ops) (a + total ops) := by
  induction ops generalizing a with
  | nil => simp [withStarts, Contig, total]
  | cons op ops ih =>
    simp only [ChunksOf] at h
    simp only [withStarts, Contig]
    refine ⟨trivial, h.1, ?_⟩
    have := ih _ h.2.2
    simpa [total, Nat.add_assoc] using this

theorem contig_dropWhile {α} (S : List α) (a b : Nat) (l : List (Nat × List α)) (p : Nat × List α → Bool)
    (h : Contig S a l b) : Contig S (headStart (l.dropWhile p) b) (l.dropWhile p) b := by
  induction l generalizing a with
  | nil => simp [headStart, Contig]
  | cons x xs ih =>
    obtain ⟨st, ch⟩ := x
    simp only [Contig] at h
    simp only [List.dropWhile_cons]
    split
    · exact ih _ h.2.2
    · simp only [headStart, Contig]
      exact ⟨trivial, h.1 ▸ h.2.1, h.1 ▸ h.2.2⟩

theorem dropWhile_dropWhile_append {β} (p q : β → Bool) (l m : List β) (h : ∀ x, p x = true → q x = true) :
    (l.dropWhile p ++ m).dropWhile q = (l ++ m).dropWhile q := by
  induction l with
  | nil => rfl
  | cons x xs ih =>
    simp only [List.dropWhile_cons]
    by_cases hp : p x = true
    · simp only [hp, if_true, List.cons_append, List.dropWhile_cons, h x hp, ih]
    · simp only [hp]; rfl

theorem prune_prune {α} (B T T' : Nat) (l m : List (Nat × List α)) (h : T ≤ T') :
    prune B T' (prune B T l ++ m) = prune B T' (l ++ m) := by
  unfold prune
  apply dropWhile_dropWhile_append
  intro x hx
  simp only [decide_eq_true_eq] at hx ⊢
  omega

/-- Sufficient, chunking-independent condition for visibility: the request becomes visible
before more than `B` samples past its first sample have been acquired. -/
theorem lookbackStart_le {α} (B : Nat) (hist : List (Op α)) (s : Nat) (h : total hist ≤ s + B) :
    lookbackStart B hist ≤ s := by
  unfold lookbackStart prune
  have key : ∀ (a : Nat) (l : List (Op α)) (T : Nat), a ≤ s → a + total l = T → T ≤ s + B →
      headStart ((withStarts a l).dropWhile (fun x => decide (x.1 + x.2.length + B < T))) T ≤ s := by
    intro a l
    induction l generalizing a with
    | nil => intro T ha hT hs; simp only [withStarts, List.dropWhile_nil, headStart]; simp [total] at hT; omega
    | cons op ops ih =>
      intro T ha hT hs
      simp only [withStarts, List.dropWhile_cons]
      split
      · rename_i hdrop
        simp only [decide_eq_true_eq] at hdrop
        apply ih (a + op.chunk.length) T
        · omega
        · simp [total] at hT ⊢; omega
        · exact hs
      · simp only [headStart]; exact ha
  exact key 0 hist (total hist) (Nat.zero_le _) (by simp) h

/-- What one call may bring: fresh, pairwise distinct keys, the extractor's single epoch
length `L`, and every request still inside the look-back window. -/
structure OpValid {α} (B L : Nat) (hist : List (Op α)) (op : Op α) : Prop where
  nodup : (op.reqs.map (·.key)).Nodup
  fresh : ∀ r ∈ op.reqs, ∀ r' ∈ allReqs hist, r'.key ≠ r.key
  len : ∀ r ∈ op.reqs, r.len = L
  visible : ∀ r ∈ op.reqs, ((lookbackStart B hist : Nat) : Int) ≤ r.s

/-- `ops` is a valid continuation of `hist`. -/
def AllValid {α} (B L : Nat) : List (Op α) → List (Op α) → Prop
  | _, [] => True
  | hist, op :: rest => OpValid B L hist op ∧ AllValid B L (hist ++ [op]) rest

/-- State invariant of `extract_epochs` after the history `hist` of a stream `S`. -/
structure Inv {α} (S : List α) (B L : Nat) (hist : List (Op α)) (st : State α) : Prop where
  alive : st.dead = false
  tlb : st.tlb = total hist
  buf : st.bufferSamples = B
  prior : st.prior = prune B (total hist) (withStarts 0 hist)
  caps : ∀ c ∈ st.pending, CapInv S (total hist) c ∧ c.req.len = L ∧ c.req ∈ allReqs hist
  nodup : (st.pending.map (·.req.key)).Nodup
  chunks : ChunksOf S 0 hist
  bound : total hist ≤ S.length
  queue : st.queue = []

theorem inv_init {α} (S : List α) (B L : Nat) : Inv S B L [] (State.init B : State α) := by
  refine ⟨rfl, rfl, rfl, ?_, ?_, ?_, trivial, Nat.zero_le _, rfl⟩
  · simp [State.init, withStarts, prune]
  · intro c hc; simp [State.init] at hc
  · simp [State.init]

theorem allValid_fresh {α} (B L : Nat) (hist ops : List (Op α)) (k : Nat)
    (hv : AllValid B L hist ops) (hk : ∃ r ∈ allReqs hist, r.key = k) :
    ∀ op ∈ ops, ∀ r ∈ op.reqs, r.key ≠ k := by
  induction ops generalizing hist with
  | nil => intro op hop; cases hop
  | cons o os ih =>
    simp only [AllValid] at hv
    intro op hop r hr
    rcases List.mem_cons.1 hop with h | h
    · subst h
      obtain ⟨r0, hr0, hk0⟩ := hk
      intro heq
      exact hv.1.fresh r hr r0 hr0 (by rw [hk0, heq])
    · apply ih (hist ++ [o]) hv.2 ?_ op h r hr
      obtain ⟨r0, hr0, hk0⟩ := hk
      exact ⟨r0, by rw [allReqs_append]; exact List.mem_append_left _ hr0, hk0⟩

end Psi.Extract
