import PsiProofs.Helper.C16_Bridge
/-!
C16 helper: orthogonality kernel `Σ_i cos(2π i (a-b)/n) = n·[a = b]`, conjugate symmetry of the
DFT of a real signal, folding a symmetric sum onto its first half, and the full Parseval identity.
-/
open Finset

namespace Psi.Db

/-! ### folding a symmetric sum -/

/-- even length `n = 2(m'+1)`: `Σ_{i<n} g i = g 0 + g (n/2) + 2 Σ_{0<i<n/2} g i` when `g (n-i) = g i` -/
theorem sum_fold_even (n m' : ℕ) (hn : n = 2 * (m' + 1)) (g : ℕ → ℝ)
    (h : ∀ i, i < m' → g (n - (i + 1)) = g (i + 1)) :
    ∑ i ∈ range n, g i = g 0 + g (m' + 1) + 2 * ∑ i ∈ range m', g (i + 1) := by
  have e : n = (m' + 2) + m' := by omega
  rw [e, Finset.sum_range_add, Finset.sum_range_succ, Finset.sum_range_succ']
  have r := Finset.sum_range_reflect (fun i => g (m' + 2 + i)) m'
  rw [← r]
  have : ∑ j ∈ range m', (fun i => g (m' + 2 + i)) (m' - 1 - j) = ∑ i ∈ range m', g (i + 1) := by
    refine Finset.sum_congr rfl fun i hi => ?_
    have hi' := Finset.mem_range.1 hi
    rw [← h i hi']
    show g _ = g _
    congr 1
    omega
  rw [this]
  ring

/-- odd length `n = 2m+1`: `Σ_{i<n} g i = g 0 + 2 Σ_{0<i≤m} g i` when `g (n-i) = g i` -/
theorem sum_fold_odd (n m : ℕ) (hn : n = 2 * m + 1) (g : ℕ → ℝ)
    (h : ∀ i, i < m → g (n - (i + 1)) = g (i + 1)) :
    ∑ i ∈ range n, g i = g 0 + 2 * ∑ i ∈ range m, g (i + 1) := by
  have e : n = (m + 1) + m := by omega
  rw [e, Finset.sum_range_add, Finset.sum_range_succ']
  have r := Finset.sum_range_reflect (fun i => g (m + 1 + i)) m
  rw [← r]
  have : ∑ j ∈ range m, (fun i => g (m + 1 + i)) (m - 1 - j) = ∑ i ∈ range m, g (i + 1) := by
    refine Finset.sum_congr rfl fun i hi => ?_
    have hi' := Finset.mem_range.1 hi
    rw [← h i hi']
    show g _ = g _
    congr 1
    omega
  rw [this]
  ring

/-! ### orthogonality kernel -/

theorem kernel_sum (n : ℕ) (hn : 0 < n) (a b : ℕ) (ha : a < n) (hb : b < n) :
    ∑ i ∈ range n, Real.cos (2 * Real.pi * i * a / n - 2 * Real.pi * i * b / n)
      = if a = b then (n : ℝ) else 0 := by
  have e : ∀ i : ℕ, Real.cos (2 * Real.pi * i * a / n - 2 * Real.pi * i * b / n)
      = Real.cos (2 * Real.pi * (((a : ℤ) - (b : ℤ) : ℤ) : ℝ) * i / n + 0) := by
    intro i
    congr 1
    push_cast
    ring
  simp_rw [e]
  rw [C16.sum_cos_shift n hn]
  by_cases hab : a = b
  · subst hab
    simp
  · rw [if_neg hab, if_neg]
    exact C16.not_dvd_of_abs_lt n _ (by omega) (by omega) (by omega)

/-! ### conjugate symmetry of the DFT of a real signal -/

theorem angle_reflect (n k j : ℕ) (hn : 0 < n) (hk : k ≤ n) :
    2 * Real.pi * ((n - k : ℕ) : ℝ) * j / n = (j : ℝ) * (2 * Real.pi) - 2 * Real.pi * k * j / n := by
  have hn' : (n : ℝ) ≠ 0 := Nat.cast_ne_zero.2 hn.ne'
  rw [Nat.cast_sub hk]
  field_simp

theorem cos_reflect (n k j : ℕ) (hn : 0 < n) (hk : k ≤ n) :
    Real.cos (2 * Real.pi * ((n - k : ℕ) : ℝ) * j / n) = Real.cos (2 * Real.pi * k * j / n) := by
  rw [angle_reflect n k j hn hk, Real.cos_nat_mul_two_pi_sub]

theorem sin_reflect (n k j : ℕ) (hn : 0 < n) (hk : k ≤ n) :
    Real.sin (2 * Real.pi * ((n - k : ℕ) : ℝ) * j / n) = -Real.sin (2 * Real.pi * k * j / n) := by
  rw [angle_reflect n k j hn hk, Real.sin_nat_mul_two_pi_sub]

theorem dftBin_re_reflect (n : ℕ) (s : ℕ → ℝ) (k : ℕ) (hn : 0 < n) (hk : k ≤ n) :
    (dftBin n s (n - k)).re = (dftBin n s k).re := by
  rw [dftBin_re, dftBin_re]
  exact Finset.sum_congr rfl fun j _ => by rw [cos_reflect n k j hn hk]

theorem dftBin_im_reflect (n : ℕ) (s : ℕ → ℝ) (k : ℕ) (hn : 0 < n) (hk : k ≤ n) :
    (dftBin n s (n - k)).im = -(dftBin n s k).im := by
  rw [dftBin_im, dftBin_im, neg_neg, ← Finset.sum_neg_distrib]
  exact Finset.sum_congr rfl fun j _ => by rw [sin_reflect n k j hn hk, mul_neg, neg_neg]

theorem dftBin_normSq_reflect (n : ℕ) (s : ℕ → ℝ) (k : ℕ) (hn : 0 < n) (hk : k ≤ n) :
    (dftBin n s (n - k)).normSq = (dftBin n s k).normSq := by
  rw [Cx.normSq, Cx.normSq, dftBin_re_reflect n s k hn hk, dftBin_im_reflect n s k hn hk]
  ring

/-! ### Parseval for the full DFT -/

theorem dftBin_normSq (n : ℕ) (s : ℕ → ℝ) (k : ℕ) :
    (dftBin n s k).normSq = ∑ j ∈ range n, ∑ l ∈ range n,
      s j * s l * Real.cos (2 * Real.pi * k * j / n - 2 * Real.pi * k * l / n) := by
  rw [Cx.normSq, dftBin_re, dftBin_im, neg_mul_neg, Finset.sum_mul_sum, Finset.sum_mul_sum,
    ← Finset.sum_add_distrib]
  refine Finset.sum_congr rfl fun j _ => ?_
  rw [← Finset.sum_add_distrib]
  refine Finset.sum_congr rfl fun l _ => ?_
  rw [Real.cos_sub]
  ring

theorem parseval_full (n : ℕ) (hn : 0 < n) (s : ℕ → ℝ) :
    ∑ k ∈ range n, (dftBin n s k).normSq = n * ∑ j ∈ range n, s j * s j := by
  simp_rw [dftBin_normSq]
  rw [Finset.sum_comm, Finset.mul_sum]
  refine Finset.sum_congr rfl fun j hj => ?_
  rw [Finset.sum_comm]
  have hj' := Finset.mem_range.1 hj
  have : ∀ l ∈ range n, ∑ k ∈ range n,
      s j * s l * Real.cos (2 * Real.pi * k * j / n - 2 * Real.pi * k * l / n)
      = if j = l then s j * s l * n else 0 := by
    intro l hl
    rw [← Finset.mul_sum, kernel_sum n hn j l hj' (Finset.mem_range.1 hl)]
    split_ifs <;> simp
  rw [Finset.sum_congr rfl this, Finset.sum_ite_eq, if_pos hj]
  ring

/-! ### one inverse-DFT term -/

/-- `Re(X_i e^{2πi·ij/n}) = Σ_l s_l cos(2π i (l-j)/n)` -/
theorem idft_term (n : ℕ) (s : ℕ → ℝ) (i j : ℕ) :
    (dftBin n s i).re * Real.cos (2 * Real.pi * i * j / n)
      - (dftBin n s i).im * Real.sin (2 * Real.pi * i * j / n)
      = ∑ l ∈ range n, s l * Real.cos (2 * Real.pi * i * l / n - 2 * Real.pi * i * j / n) := by
  rw [dftBin_re, dftBin_im, Finset.sum_mul, neg_mul, sub_neg_eq_add, Finset.sum_mul,
    ← Finset.sum_add_distrib]
  refine Finset.sum_congr rfl fun l _ => ?_
  rw [Real.cos_sub]
  ring

theorem idft_term_reflect (n : ℕ) (s : ℕ → ℝ) (i j : ℕ) (hn : 0 < n) (hi : i ≤ n) :
    (dftBin n s (n - i)).re * Real.cos (2 * Real.pi * ((n - i : ℕ) : ℝ) * j / n)
      - (dftBin n s (n - i)).im * Real.sin (2 * Real.pi * ((n - i : ℕ) : ℝ) * j / n)
      = (dftBin n s i).re * Real.cos (2 * Real.pi * i * j / n)
        - (dftBin n s i).im * Real.sin (2 * Real.pi * i * j / n) := by
  rw [dftBin_re_reflect n s i hn hi, dftBin_im_reflect n s i hn hi, cos_reflect n i j hn hi,
    sin_reflect n i j hn hi]
  ring

/-- the inverse DFT recovers the signal: `Σ_i Re(X_i e^{2πi·ij/n}) = n·s_j` -/
theorem idft_sum (n : ℕ) (hn : 0 < n) (s : ℕ → ℝ) (j : ℕ) (hj : j < n) :
    ∑ i ∈ range n, ((dftBin n s i).re * Real.cos (2 * Real.pi * i * j / n)
      - (dftBin n s i).im * Real.sin (2 * Real.pi * i * j / n)) = n * s j := by
  simp_rw [idft_term]
  rw [Finset.sum_comm]
  have : ∀ l ∈ range n, ∑ i ∈ range n,
      s l * Real.cos (2 * Real.pi * i * l / n - 2 * Real.pi * i * j / n)
      = if j = l then s l * n else 0 := by
    intro l hl
    rw [← Finset.mul_sum, kernel_sum n hn l j (Finset.mem_range.1 hl) hj]
    by_cases h : j = l
    · rw [if_pos h, if_pos h.symm]
    · rw [if_neg h, if_neg (Ne.symm h), mul_zero]
  rw [Finset.sum_congr rfl this, Finset.sum_ite_eq, if_pos (Finset.mem_range.2 hj)]
  ring

end Psi.Db
