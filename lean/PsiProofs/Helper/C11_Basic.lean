import PsiModel.PData
namespace Psi.PData

theorem clampPos_nonneg (v : Int) (n : Nat) : 0 ≤ clampPos v n := by
  unfold clampPos; split <;> split <;> omega

theorem clampPos_le (v : Int) (n : Nat) : clampPos v n ≤ n := by
  unfold clampPos; split <;> split <;> omega

theorem sliceLen_one (a b : Int) : sliceLen a b 1 = (b - a).toNat := by
  unfold sliceLen
  simp only [Int.one_pos, ↓reduceIte, Int.ediv_one]
  split <;> omega

/-- start bound (as a natural number) of a positive-step slice. -/
def startNat (s : PySlice) (n : Nat) : Nat :=
  match s.start with | none => 0 | some v => (clampPos v n).toNat

/-- stop bound of a positive-step slice. -/
def stopNat (s : PySlice) (n : Nat) : Nat :=
  match s.stop with | none => n | some v => (clampPos v n).toNat

theorem startNat_le (s : PySlice) (n : Nat) : startNat s n ≤ n := by
  unfold startNat; split
  · omega
  · have := clampPos_le ‹_› n; have := clampPos_nonneg ‹_› n; omega

theorem stopNat_le (s : PySlice) (n : Nat) : stopNat s n ≤ n := by
  unfold stopNat; split
  · omega
  · have := clampPos_le ‹_› n; have := clampPos_nonneg ‹_› n; omega

theorem sliceIndices_pos (s : PySlice) (n : Nat) (k : Int) (hk : 0 < k) (hs : s.step.getD 1 = k) :
    sliceIndices s n = .ok ((startNat s n : Int), (stopNat s n : Int), k) := by
  obtain ⟨st, sp, step⟩ := s
  have h0 : ¬ k = 0 := by omega
  cases st <;> cases sp <;>
    simp only [sliceIndices, startNat, stopNat, hs, h0, ↓reduceIte, hk, Int.natCast_zero] <;>
    (try rename_i v; have := clampPos_nonneg v n) <;> (try rename_i w; have := clampPos_nonneg w n) <;>
    simp only [Int.toNat_of_nonneg, *]

/-- unit-step slices select the contiguous block `[start, stop)`. -/
theorem slicePositions_unit (s : PySlice) (n : Nat) (hs : s.step.getD 1 = 1) :
    slicePositions s n = .ok (List.range' (startNat s n) (stopNat s n - startNat s n)) := by
  unfold slicePositions
  rw [sliceIndices_pos s n 1 (by omega) hs]
  simp only [sliceLen_one]
  congr 1
  apply List.ext_getElem
  · simp
  · intro i h1 h2
    simp at h1 h2 ⊢
    omega

/-- positive-step slices: `start, start+k, …` while below `stop`. -/
theorem slicePositions_pos (s : PySlice) (n : Nat) (k : Int) (hk : 0 < k) (hs : s.step.getD 1 = k) :
    slicePositions s n = .ok ((List.range (sliceLen (startNat s n) (stopNat s n) k)).map
      fun (j : Nat) => ((startNat s n : Int) + (j : Int) * k).toNat) := by
  unfold slicePositions
  rw [sliceIndices_pos s n k hk hs]

theorem slicePositions_all (n : Nat) : slicePositions .all n = .ok (List.range n) := by
  rw [slicePositions_unit _ _ (by rfl)]
  simp [startNat, stopNat, PySlice.all, List.range_eq_range']

end Psi.PData
