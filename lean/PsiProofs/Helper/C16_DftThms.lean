import PsiProofs.Helper.C16_Kernel
/-!
C16: what the spectrum helpers of `psiaudio.util` (`csd`, `psd`, `tone_conv`, `rms`,
`csd_to_signal`) compute, proved about the model `PsiModel/DbField.lean` at `α := ℝ`.
-/
open Finset

namespace Psi.Db

/-! ### DFT of a whole-cycle tone -/

theorem tone_term_re (n k m j : ℕ) (A p : ℝ) :
    toneSig n k A p j * Real.cos (2 * Real.pi * m * j / n)
      = Real.sqrt 2 * A / 2 *
        (Real.cos (2 * Real.pi * (((k : ℤ) + (m : ℤ) : ℤ) : ℝ) * j / n + p)
          + Real.cos (2 * Real.pi * (((k : ℤ) - (m : ℤ) : ℤ) : ℝ) * j / n + p)) := by
  rw [toneSig_eq]
  have e1 : 2 * Real.pi * (((k : ℤ) + (m : ℤ) : ℤ) : ℝ) * j / n + p
      = (2 * Real.pi * k * j / n + p) + 2 * Real.pi * m * j / n := by push_cast; ring
  have e2 : 2 * Real.pi * (((k : ℤ) - (m : ℤ) : ℤ) : ℝ) * j / n + p
      = (2 * Real.pi * k * j / n + p) - 2 * Real.pi * m * j / n := by push_cast; ring
  rw [e1, e2]
  generalize 2 * Real.pi * k * j / n + p = x
  generalize 2 * Real.pi * m * j / n = y
  rw [Real.cos_add, Real.cos_sub]
  ring

theorem tone_term_im (n k m j : ℕ) (A p : ℝ) :
    toneSig n k A p j * Real.sin (2 * Real.pi * m * j / n)
      = Real.sqrt 2 * A / 2 *
        (Real.sin (2 * Real.pi * (((k : ℤ) + (m : ℤ) : ℤ) : ℝ) * j / n + p)
          - Real.sin (2 * Real.pi * (((k : ℤ) - (m : ℤ) : ℤ) : ℝ) * j / n + p)) := by
  rw [toneSig_eq]
  have e1 : 2 * Real.pi * (((k : ℤ) + (m : ℤ) : ℤ) : ℝ) * j / n + p
      = (2 * Real.pi * k * j / n + p) + 2 * Real.pi * m * j / n := by push_cast; ring
  have e2 : 2 * Real.pi * (((k : ℤ) - (m : ℤ) : ℤ) : ℝ) * j / n + p
      = (2 * Real.pi * k * j / n + p) - 2 * Real.pi * m * j / n := by push_cast; ring
  rw [e1, e2]
  generalize 2 * Real.pi * k * j / n + p = x
  generalize 2 * Real.pi * m * j / n = y
  rw [Real.sin_add, Real.sin_sub]
  ring

/-- real part of bin `m` of the DFT of a tone with `k` whole cycles -/
theorem dft_tone_re (n k m : ℕ) (hn : 0 < n) (A p : ℝ) :
    (dftBin n (toneSig n k A p) m).re
      = Real.sqrt 2 * A / 2 *
        ((if (n : ℤ) ∣ (k : ℤ) + (m : ℤ) then (n : ℝ) * Real.cos p else 0)
          + (if (n : ℤ) ∣ (k : ℤ) - (m : ℤ) then (n : ℝ) * Real.cos p else 0)) := by
  rw [dftBin_re]
  simp_rw [tone_term_re]
  rw [← Finset.mul_sum, Finset.sum_add_distrib, C16.sum_cos_shift n hn, C16.sum_cos_shift n hn]

/-- imaginary part of bin `m` of the DFT of a tone with `k` whole cycles -/
theorem dft_tone_im (n k m : ℕ) (hn : 0 < n) (A p : ℝ) :
    (dftBin n (toneSig n k A p) m).im
      = -(Real.sqrt 2 * A / 2 *
        ((if (n : ℤ) ∣ (k : ℤ) + (m : ℤ) then (n : ℝ) * Real.sin p else 0)
          - (if (n : ℤ) ∣ (k : ℤ) - (m : ℤ) then (n : ℝ) * Real.sin p else 0))) := by
  rw [dftBin_im]
  simp_rw [tone_term_im]
  rw [← Finset.mul_sum, Finset.sum_sub_distrib, C16.sum_sin_shift n hn, C16.sum_sin_shift n hn]

theorem not_dvd_add (n k m : ℕ) (hk : 0 < k) (hkn : 2 * k < n) (hm : 2 * m ≤ n) :
    ¬ (n : ℤ) ∣ (k : ℤ) + (m : ℤ) :=
  C16.not_dvd_of_abs_lt n _ (by omega) (by omega) (by omega)

theorem not_dvd_sub (n k m : ℕ) (hkn : 2 * k < n) (hm : 2 * m ≤ n) (hmk : m ≠ k) :
    ¬ (n : ℤ) ∣ (k : ℤ) - (m : ℤ) :=
  C16.not_dvd_of_abs_lt n _ (by omega) (by omega) (by omega)

theorem dftBin_tone_bin (n k : ℕ) (A p : ℝ) (hk : 0 < k) (hkn : 2 * k < n) :
    (dftBin n (toneSig n k A p) k).re = Real.sqrt 2 * A / 2 * (n * Real.cos p)
    ∧ (dftBin n (toneSig n k A p) k).im = Real.sqrt 2 * A / 2 * (n * Real.sin p) := by
  have hn : 0 < n := by omega
  rw [dft_tone_re n k k hn, dft_tone_im n k k hn,
    if_neg (not_dvd_add n k k hk hkn hkn.le), if_neg (not_dvd_add n k k hk hkn hkn.le),
    sub_self, if_pos (dvd_zero _), if_pos (dvd_zero _)]
  constructor <;> ring

theorem dftBin_tone_other (n k m : ℕ) (A p : ℝ) (hk : 0 < k) (hkn : 2 * k < n)
    (hm : 2 * m ≤ n) (hmk : m ≠ k) :
    (dftBin n (toneSig n k A p) m).re = 0 ∧ (dftBin n (toneSig n k A p) m).im = 0 := by
  have hn : 0 < n := by omega
  rw [dft_tone_re n k m hn, dft_tone_im n k m hn,
    if_neg (not_dvd_add n k m hk hkn hm), if_neg (not_dvd_add n k m hk hkn hm),
    if_neg (not_dvd_sub n k m hkn hm hmk), if_neg (not_dvd_sub n k m hkn hm hmk)]
  constructor <;> ring

/-! ### Target 1, 2: `csd` of a tone -/

/-- A sinusoid of RMS amplitude `A` and phase `p` with `k` whole cycles in `n` samples reads
`A·e^{ip}` at bin `k` of `util.csd`. -/
theorem csd_tone_bin (n k : ℕ) (A p : ℝ) (hk : 0 < k) (hkn : 2 * k < n) :
    (csd n (toneSig n k A p) k).re = A * Real.cos p
    ∧ (csd n (toneSig n k A p) k).im = A * Real.sin p := by
  have hn : (n : ℝ) ≠ 0 := Nat.cast_ne_zero.2 (by omega)
  have h2 := sqrt_two_ne_zero
  obtain ⟨hre, him⟩ := dftBin_tone_bin n k A p hk hkn
  rw [csd_re, csd_im, hre, him]
  constructor <;> field_simp

example : (csd 8 (toneSig 8 1 (3 : ℝ) (1/2)) 1).re = 3 * Real.cos (1/2)
    ∧ (csd 8 (toneSig 8 1 (3 : ℝ) (1/2)) 1).im = 3 * Real.sin (1/2) :=
  csd_tone_bin 8 1 3 (1/2) (by norm_num) (by norm_num)

/-- … and reads exactly `0` at every other bin of the one-sided spectrum. -/
theorem csd_tone_other (n k m : ℕ) (A p : ℝ) (hk : 0 < k) (hkn : 2 * k < n)
    (hm : 2 * m ≤ n) (hmk : m ≠ k) :
    (csd n (toneSig n k A p) m).re = 0 ∧ (csd n (toneSig n k A p) m).im = 0 := by
  obtain ⟨hre, him⟩ := dftBin_tone_other n k m A p hk hkn hm hmk
  rw [csd_re, csd_im, hre, him]
  constructor <;> ring

example : (csd 8 (toneSig 8 1 (3 : ℝ) (1/2)) 4).re = 0 ∧ (csd 8 (toneSig 8 1 (3 : ℝ) (1/2)) 4).im = 0 :=
  csd_tone_other 8 1 4 3 (1/2) (by norm_num) (by norm_num) (by norm_num) (by norm_num)

example : (csd 8 (toneSig 8 1 (3 : ℝ) (1/2)) 0).re = 0 ∧ (csd 8 (toneSig 8 1 (3 : ℝ) (1/2)) 0).im = 0 :=
  csd_tone_other 8 1 0 3 (1/2) (by norm_num) (by norm_num) (by norm_num) (by norm_num)

/-! ### Target 3: mean square / RMS of a tone -/

theorem tone_sq_term (n k j : ℕ) (A p : ℝ) :
    toneSig n k A p j * toneSig n k A p j
      = A ^ 2 + A ^ 2 *
          Real.cos (2 * Real.pi * (((k : ℤ) + (k : ℤ) : ℤ) : ℝ) * j / n + 2 * p) := by
  rw [toneSig_eq]
  have e1 : 2 * Real.pi * (((k : ℤ) + (k : ℤ) : ℤ) : ℝ) * j / n + 2 * p
      = 2 * (2 * Real.pi * k * j / n + p) := by push_cast; ring
  rw [e1]
  generalize 2 * Real.pi * k * j / n + p = x
  rw [Real.cos_two_mul]
  linear_combination (A ^ 2 * Real.cos x ^ 2) * sqrt_two_mul_self

/-- the mean square of a whole-cycle tone of RMS amplitude `A` is `A²` -/
theorem tone_mean_square (n k : ℕ) (A p : ℝ) (hk : 0 < k) (hkn : 2 * k < n) :
    meanTo n (fun j => toneSig n k A p j * toneSig n k A p j) = A ^ 2 := by
  have hn : 0 < n := by omega
  have hn' : (n : ℝ) ≠ 0 := Nat.cast_ne_zero.2 hn.ne'
  rw [meanTo_eq]
  simp_rw [tone_sq_term]
  rw [Finset.sum_add_distrib, ← Finset.mul_sum,
    C16.sum_cos_shift_of_not_dvd n hn _ _ (not_dvd_add n k k hk hkn hkn.le),
    Finset.sum_const, Finset.card_range, nsmul_eq_mul]
  field_simp
  ring

example : meanTo 8 (fun j => toneSig 8 1 (3 : ℝ) (1/2) j * toneSig 8 1 (3 : ℝ) (1/2) j)
    = (3 : ℝ) ^ 2 :=
  tone_mean_square 8 1 3 (1/2) (by norm_num) (by norm_num)

/-- `util.rms` of a whole-cycle tone of RMS amplitude `A` is `|A|` -/
theorem tone_rms (n k : ℕ) (A p : ℝ) (hk : 0 < k) (hkn : 2 * k < n) :
    rms n (toneSig n k A p) = |A| := by
  rw [rms, tone_mean_square n k A p hk hkn, sqrt_real, Real.sqrt_sq_eq_abs]

example : rms 8 (toneSig 8 1 (-3 : ℝ) (1/2)) = |(-3 : ℝ)| :=
  tone_rms 8 1 (-3) (1/2) (by norm_num) (by norm_num)

/-! ### Target 4: `tone_conv` at a whole-cycle frequency -/

theorem toneConv_angle (n k j : ℕ) (fs : ℝ) (hfs : fs ≠ 0) (hn : 0 < n) :
    2 * Real.pi * ((j : ℝ) / fs) * ((k : ℝ) * fs / n) = 2 * Real.pi * k * j / n := by
  have hn' : (n : ℝ) ≠ 0 := Nat.cast_ne_zero.2 hn.ne'
  field_simp

/-- `tone_conv` at `f = k·fs/n` is `2/n` times DFT bin `k` -/
theorem toneConv_re_eq (n k : ℕ) (s : ℕ → ℝ) (fs : ℝ) (hfs : fs ≠ 0) (hn : 0 < n) :
    (toneConv n s fs (k * fs / n)).re = 2 * (dftBin n s k).re / n := by
  show (csumTo n _).re / nat n = _
  rw [csumTo_re, dftBin_re, Finset.mul_sum, nat_real]
  congr 1
  refine Finset.sum_congr rfl fun j _ => ?_
  simp only [Cx.smul, cis, cos_real, Real.cos_neg, nat_real, pi_real, Nat.cast_ofNat]
  rw [toneConv_angle n k j fs hfs hn]
  ring

theorem toneConv_im_eq (n k : ℕ) (s : ℕ → ℝ) (fs : ℝ) (hfs : fs ≠ 0) (hn : 0 < n) :
    (toneConv n s fs (k * fs / n)).im = 2 * (dftBin n s k).im / n := by
  show (csumTo n _).im / nat n = _
  rw [csumTo_im, dftBin_im, ← Finset.sum_neg_distrib, Finset.mul_sum, nat_real]
  congr 1
  refine Finset.sum_congr rfl fun j _ => ?_
  simp only [Cx.smul, cis, sin_real, Real.sin_neg, nat_real, pi_real, Nat.cast_ofNat]
  rw [toneConv_angle n k j fs hfs hn]
  ring

/-- `util.tone_conv` of a whole-cycle tone at its own frequency `k·fs/n` is `√2·A·e^{ip}`. -/
theorem toneConv_whole_cycles (n k : ℕ) (A p fs : ℝ) (hfs : fs ≠ 0) (hk : 0 < k)
    (hkn : 2 * k < n) :
    (toneConv n (toneSig n k A p) fs (k * fs / n)).re = Real.sqrt 2 * A * Real.cos p
    ∧ (toneConv n (toneSig n k A p) fs (k * fs / n)).im = Real.sqrt 2 * A * Real.sin p := by
  have hn : 0 < n := by omega
  have hn' : (n : ℝ) ≠ 0 := Nat.cast_ne_zero.2 hn.ne'
  obtain ⟨hre, him⟩ := dftBin_tone_bin n k A p hk hkn
  rw [toneConv_re_eq n k _ fs hfs hn, toneConv_im_eq n k _ fs hfs hn, hre, him]
  constructor <;> field_simp

example : (toneConv 8 (toneSig 8 1 (3 : ℝ) (1/2)) 100000 ((1 : ℕ) * 100000 / (8 : ℕ))).re
      = Real.sqrt 2 * 3 * Real.cos (1/2)
    ∧ (toneConv 8 (toneSig 8 1 (3 : ℝ) (1/2)) 100000 ((1 : ℕ) * 100000 / (8 : ℕ))).im
      = Real.sqrt 2 * 3 * Real.sin (1/2) :=
  toneConv_whole_cycles 8 1 3 (1/2) 100000 (by norm_num) (by norm_num) (by norm_num)

/-- `util.tone_power_conv` of a whole-cycle tone is its RMS amplitude -/
theorem tonePower_whole_cycles (n k : ℕ) (A p fs : ℝ) (hfs : fs ≠ 0) (hk : 0 < k)
    (hkn : 2 * k < n) :
    tonePower n (toneSig n k A p) fs (k * fs / n) = |A| := by
  obtain ⟨hre, him⟩ := toneConv_whole_cycles n k A p fs hfs hk hkn
  rw [tonePower, Cx.abs, hre, him, sqrt_real, sqrt_real, nat_real]
  have e : Real.sqrt 2 * A * Real.cos p * (Real.sqrt 2 * A * Real.cos p)
      + Real.sqrt 2 * A * Real.sin p * (Real.sqrt 2 * A * Real.sin p) = 2 * A ^ 2 := by
    linear_combination (A ^ 2 * (Real.cos p ^ 2 + Real.sin p ^ 2)) * sqrt_two_mul_self
      + (2 * A ^ 2) * Real.cos_sq_add_sin_sq p
  rw [e, Real.sqrt_mul (by norm_num), Real.sqrt_sq_eq_abs]
  push_cast
  field_simp [sqrt_two_ne_zero]

example : tonePower 8 (toneSig 8 1 (-3 : ℝ) (1/2)) 100000 ((1 : ℕ) * 100000 / (8 : ℕ))
    = |(-3 : ℝ)| :=
  tonePower_whole_cycles 8 1 (-3) (1/2) 100000 (by norm_num) (by norm_num) (by norm_num)

/-- `util.tone_phase_conv` of a whole-cycle tone is its phase (principal value) -/
theorem tonePhase_whole_cycles (n k : ℕ) (A p fs : ℝ) (hfs : fs ≠ 0) (hk : 0 < k)
    (hkn : 2 * k < n) (hA : 0 < A) (hp : -Real.pi < p ∧ p ≤ Real.pi) :
    tonePhase n (toneSig n k A p) fs (k * fs / n) = p := by
  obtain ⟨hre, him⟩ := toneConv_whole_cycles n k A p fs hfs hk hkn
  rw [tonePhase, Cx.arg, atan2_real, hre, him]
  have hr : 0 < Real.sqrt 2 * A := mul_pos (Real.sqrt_pos.2 (by norm_num)) hA
  have e : (⟨Real.sqrt 2 * A * Real.cos p, Real.sqrt 2 * A * Real.sin p⟩ : ℂ)
      = ((Real.sqrt 2 * A : ℝ) : ℂ) * (Complex.cos p + Complex.sin p * Complex.I) := by
    apply Complex.ext
    · rw [Complex.re_ofReal_mul, Complex.cos_add_sin_I, Complex.exp_ofReal_mul_I_re]
    · rw [Complex.im_ofReal_mul, Complex.cos_add_sin_I, Complex.exp_ofReal_mul_I_im]
  rw [e, Complex.arg_mul_cos_add_sin_mul_I hr ⟨hp.1, hp.2⟩]

example : tonePhase 8 (toneSig 8 1 (3 : ℝ) (1/2)) 100000 ((1 : ℕ) * 100000 / (8 : ℕ)) = 1/2 :=
  tonePhase_whole_cycles 8 1 3 (1/2) 100000 (by norm_num) (by norm_num) (by norm_num)
    (by norm_num) ⟨by linarith [Real.pi_pos], by linarith [Real.two_le_pi]⟩

/-! ### Target 5: `csd_to_signal ∘ csd = id` (even length) -/

theorem csd_div_scale_re (n : ℕ) (hn : 0 < n) (s : ℕ → ℝ) (k : ℕ) :
    (csd n s k).re / csdScale n = (dftBin n s k).re := by
  rw [csd, Cx.smul]
  exact mul_div_cancel_left₀ _ (csdScale_ne_zero n hn)

theorem csd_div_scale_im (n : ℕ) (hn : 0 < n) (s : ℕ → ℝ) (k : ℕ) :
    (csd n s k).im / csdScale n = (dftBin n s k).im := by
  rw [csd, Cx.smul]
  exact mul_div_cancel_left₀ _ (csdScale_ne_zero n hn)

theorem sin_nyquist (n m' j : ℕ) (hn2 : n = 2 * (m' + 1)) :
    Real.sin (2 * Real.pi * ((m' + 1 : ℕ) : ℝ) * j / n) = 0 := by
  have e : 2 * Real.pi * ((m' + 1 : ℕ) : ℝ) * j / n = (j : ℝ) * Real.pi := by
    have h1 : ((m' + 1 : ℕ) : ℝ) ≠ 0 := Nat.cast_ne_zero.2 (by omega)
    rw [hn2]
    push_cast
    push_cast at h1
    field_simp
  rw [e, Real.sin_nat_mul_pi]

theorem irfft_aux (n m' : ℕ) (hn2 : n = 2 * (m' + 1)) (s : ℕ → ℝ) (j : ℕ) (hj : j < n) :
    ((dftBin n s 0).re + (dftBin n s (m' + 1)).re * Real.cos (2 * Real.pi * ((m' + 1 : ℕ) : ℝ) * j / n)
      + 2 * ∑ i ∈ range m', ((dftBin n s (i + 1)).re * Real.cos (2 * Real.pi * ((i + 1 : ℕ) : ℝ) * j / n)
          - (dftBin n s (i + 1)).im * Real.sin (2 * Real.pi * ((i + 1 : ℕ) : ℝ) * j / n))) / n
      = s j := by
  have hn : 0 < n := by omega
  have hn' : (n : ℝ) ≠ 0 := Nat.cast_ne_zero.2 hn.ne'
  have key := sum_fold_even n m' hn2
    (fun i => (dftBin n s i).re * Real.cos (2 * Real.pi * i * j / n)
      - (dftBin n s i).im * Real.sin (2 * Real.pi * i * j / n))
    (fun i hi => idft_term_reflect n s (i + 1) j hn (by omega))
  rw [idft_sum n hn s j hj] at key
  simp only [sin_nyquist n m' j hn2, Nat.cast_zero, mul_zero, zero_mul, zero_div, Real.cos_zero,
    Real.sin_zero, mul_one, sub_zero] at key
  rw [div_eq_iff hn']
  linear_combination -key

theorem csd_roundtrip (m : ℕ) (hm : 0 < m) (s : ℕ → ℝ) (j : ℕ) (hj : j < 2 * m) :
    csdToSignal m (fun k => csd (2 * m) s k) j = s j := by
  obtain ⟨m', rfl⟩ := Nat.exists_eq_succ_of_ne_zero hm.ne'
  have hn : 0 < 2 * (m' + 1) := by omega
  unfold csdToSignal
  simp only [csd_div_scale_re _ hn, csd_div_scale_im _ hn, sumTo_eq, ang_eq, cos_real, sin_real,
    nat_real, Nat.cast_ofNat]
  exact irfft_aux (2 * (m' + 1)) m' rfl s j hj

example (s : ℕ → ℝ) : csdToSignal 4 (fun k => csd (2 * 4) s k) 5 = s 5 :=
  csd_roundtrip 4 (by norm_num) s 5 (by norm_num)


/-! ### Target 6: one-sided Parseval -/

theorem csd_normSq (n : ℕ) (hn : 0 < n) (s : ℕ → ℝ) (k : ℕ) :
    (csd n s k).normSq = 2 / (n : ℝ) ^ 2 * (dftBin n s k).normSq := by
  have hn' : (n : ℝ) ≠ 0 := Nat.cast_ne_zero.2 hn.ne'
  have h2 := sqrt_two_ne_zero
  rw [Cx.normSq, Cx.normSq, csd_re, csd_im]
  field_simp
  linear_combination (-((dftBin n s k).re ^ 2 + (dftBin n s k).im ^ 2)) * sqrt_two_mul_self

theorem parseval_even (n m' : ℕ) (hn2 : n = 2 * (m' + 1)) (s : ℕ → ℝ) :
    ∑ k ∈ range (m' + 2), (csd n s k).normSq
      = (∑ j ∈ range n, s j * s j) / n + (1 / 2) * (csd n s 0).normSq
        + (1 / 2) * (csd n s (m' + 1)).normSq := by
  have hn : 0 < n := by omega
  have hn' : (n : ℝ) ≠ 0 := Nat.cast_ne_zero.2 hn.ne'
  have P := parseval_full n hn s
  rw [sum_fold_even n m' hn2 (fun k => (dftBin n s k).normSq)
    (fun i _ => dftBin_normSq_reflect n s (i + 1) hn (by omega))] at P
  have hS : ∑ j ∈ range n, s j * s j
      = ((dftBin n s 0).normSq + (dftBin n s (m' + 1)).normSq
          + 2 * ∑ i ∈ range m', (dftBin n s (i + 1)).normSq) / n := by
    rw [eq_div_iff hn']
    linear_combination -P
  simp_rw [csd_normSq n hn]
  rw [← Finset.mul_sum, Finset.sum_range_succ, Finset.sum_range_succ', hS]
  field_simp
  ring

theorem parseval_odd (n m : ℕ) (hn2 : n = 2 * m + 1) (s : ℕ → ℝ) :
    ∑ k ∈ range (m + 1), (csd n s k).normSq
      = (∑ j ∈ range n, s j * s j) / n + (1 / 2) * (csd n s 0).normSq := by
  have hn : 0 < n := by omega
  have hn' : (n : ℝ) ≠ 0 := Nat.cast_ne_zero.2 hn.ne'
  have P := parseval_full n hn s
  rw [sum_fold_odd n m hn2 (fun k => (dftBin n s k).normSq)
    (fun i _ => dftBin_normSq_reflect n s (i + 1) hn (by omega))] at P
  have hS : ∑ j ∈ range n, s j * s j
      = ((dftBin n s 0).normSq + 2 * ∑ i ∈ range m, (dftBin n s (i + 1)).normSq) / n := by
    rw [eq_div_iff hn']
    linear_combination -P
  simp_rw [csd_normSq n hn]
  rw [← Finset.mul_sum, Finset.sum_range_succ', hS]
  field_simp
  ring

/-- One-sided Parseval: the total power of the `util.csd` spectrum is the mean square of the
signal plus the DC bin and (even `n`) the Nyquist bin counted a second time at half weight. -/
theorem parseval_onesided (n : ℕ) (hn : 0 < n) (s : ℕ → ℝ) :
    sumTo (n / 2 + 1) (fun k => (csd n s k).normSq)
      = meanTo n (fun j => s j * s j) + (1 / 2) * (csd n s 0).normSq
        + (if n % 2 = 0 then (1 / 2) * (csd n s (n / 2)).normSq else 0) := by
  rw [sumTo_eq, meanTo_eq]
  rcases Nat.even_or_odd' n with ⟨m, h | h⟩
  · obtain ⟨m', rfl⟩ := Nat.exists_eq_succ_of_ne_zero (show m ≠ 0 by omega)
    have h1 : n / 2 = m' + 1 := by omega
    have h2 : n % 2 = 0 := by omega
    rw [h1, if_pos h2]
    exact parseval_even n m' h s
  · have h1 : n / 2 = m := by omega
    have h2 : ¬ n % 2 = 0 := by omega
    rw [h1, if_neg h2, add_zero]
    exact parseval_odd n m h s

example (s : ℕ → ℝ) : sumTo (8 / 2 + 1) (fun k => (csd 8 s k).normSq)
      = meanTo 8 (fun j => s j * s j) + (1 / 2) * (csd 8 s 0).normSq
        + (if 8 % 2 = 0 then (1 / 2) * (csd 8 s (8 / 2)).normSq else 0) :=
  parseval_onesided 8 (by norm_num) s

example (s : ℕ → ℝ) : sumTo (7 / 2 + 1) (fun k => (csd 7 s k).normSq)
      = meanTo 7 (fun j => s j * s j) + (1 / 2) * (csd 7 s 0).normSq
        + (if 7 % 2 = 0 then (1 / 2) * (csd 7 s (7 / 2)).normSq else 0) :=
  parseval_onesided 7 (by norm_num) s


/-! ### Target 7: `psd` with waveform averaging of a repeated tone -/

theorem csd_tone_abs (n k : ℕ) (A p : ℝ) (hk : 0 < k) (hkn : 2 * k < n) :
    (csd n (toneSig n k A p) k).abs = |A| := by
  obtain ⟨hre, him⟩ := csd_tone_bin n k A p hk hkn
  rw [Cx.abs, hre, him, sqrt_real]
  have e : A * Real.cos p * (A * Real.cos p) + A * Real.sin p * (A * Real.sin p) = A ^ 2 := by
    linear_combination (A ^ 2) * Real.cos_sq_add_sin_sq p
  rw [e, Real.sqrt_sq_eq_abs]

/-- `util.psd(s, fs, waveform_averages=avg)` of `avg` repetitions of a whole-cycle tone reads the
RMS amplitude at the tone's bin. -/
theorem psd_tone_averages (n k avg : ℕ) (A p : ℝ) (havg : 0 < avg) (hk : 0 < k)
    (hkn : 2 * k < n) (s : ℕ → ℝ)
    (hs : ∀ r j, r < avg → j < n → s (r * n + j) = toneSig n k A p j) :
    psd (avg * n) avg s k = |A| := by
  have hm : trimLen (avg * n) avg / avg = n := by
    rw [trimLen, Nat.mul_div_cancel_left n havg, Nat.mul_div_cancel n havg]
  have havg' : (avg : ℝ) ≠ 0 := Nat.cast_ne_zero.2 havg.ne'
  unfold psd
  simp only [hm]
  rw [meanTo_eq]
  have h : ∀ r ∈ range avg, (csd n (fun j => s (r * n + j)) k).abs = |A| := by
    intro r hr
    rw [csd_congr n _ (toneSig n k A p) k (fun j hj => hs r j (Finset.mem_range.1 hr) hj)]
    exact csd_tone_abs n k A p hk hkn
  rw [Finset.sum_congr rfl h, Finset.sum_const, Finset.card_range, nsmul_eq_mul]
  field_simp

example : psd (4 * 8) 4 (fun i => toneSig 8 1 (3 : ℝ) (1/2) (i % 8)) 1 = |(3 : ℝ)| :=
  psd_tone_averages 8 1 4 3 (1/2) (by norm_num) (by norm_num) (by norm_num) _
    (fun r j _ hj => by
      show toneSig 8 1 (3 : ℝ) (1/2) ((r * 8 + j) % 8) = _
      rw [Nat.mul_add_mod_of_lt hj])

/-! ### Target 8: Hann-windowed `csd` of a tone -/

/-- SciPy's periodic Hann window `get_window('hann', n)` -/
noncomputable def hannW (n : ℕ) : ℕ → ℝ := fun j => 1 / 2 - 1 / 2 * Real.cos (2 * Real.pi * j / n)

theorem hannW_apply (n j : ℕ) :
    hannW n j = 1 / 2 - 1 / 2 * Real.cos (2 * Real.pi * j / n) := rfl

theorem hann_mean (n : ℕ) (hn : 1 < n) : meanTo n (hannW n) = 1 / 2 := by
  have hn0 : 0 < n := by omega
  have hn' : (n : ℝ) ≠ 0 := Nat.cast_ne_zero.2 hn0.ne'
  have e : ∀ j : ℕ, Real.cos (2 * Real.pi * j / n)
      = Real.cos (2 * Real.pi * ((1 : ℤ) : ℝ) * j / n + 0) := by
    intro j
    congr 1
    push_cast
    ring
  have h0 : ∑ j ∈ range n, Real.cos (2 * Real.pi * j / n) = 0 := by
    simp_rw [e]
    exact C16.sum_cos_shift_of_not_dvd n hn0 1 0
      (C16.not_dvd_of_abs_lt n 1 (by norm_num) (by omega) (by omega))
  rw [meanTo_eq]
  unfold hannW
  rw [Finset.sum_sub_distrib, ← Finset.mul_sum, h0, Finset.sum_const, Finset.card_range,
    nsmul_eq_mul]
  field_simp
  ring

/-- a Hann-windowed tone is the tone minus half the tones one bin above and below -/
theorem hann_tone (n k : ℕ) (A p : ℝ) (hk : 0 < k) (hn : 1 < n) (j : ℕ) :
    applyWindow (meanTo n (hannW n)) (hannW n) (toneSig n k A p) j
      = toneSig n k A p j - 1 / 2 * toneSig n (k + 1) A p j - 1 / 2 * toneSig n (k - 1) A p j := by
  rw [applyWindow, hann_mean n hn, toneSig_eq, toneSig_eq, toneSig_eq, Nat.cast_sub hk]
  unfold hannW
  have e1 : 2 * Real.pi * ((k + 1 : ℕ) : ℝ) * j / n + p
      = (2 * Real.pi * k * j / n + p) + 2 * Real.pi * j / n := by push_cast; ring
  have e2 : 2 * Real.pi * ((k : ℝ) - ((1 : ℕ) : ℝ)) * j / n + p
      = (2 * Real.pi * k * j / n + p) - 2 * Real.pi * j / n := by push_cast; ring
  rw [e1, e2]
  generalize 2 * Real.pi * k * j / n + p = x
  generalize 2 * Real.pi * j / n = y
  rw [Real.cos_add, Real.cos_sub]
  ring

theorem dftBin_re_lin3 (n : ℕ) (a b c : ℕ → ℝ) (k : ℕ) :
    (dftBin n (fun j => a j - 1 / 2 * b j - 1 / 2 * c j) k).re
      = (dftBin n a k).re - 1 / 2 * (dftBin n b k).re - 1 / 2 * (dftBin n c k).re := by
  simp only [dftBin_re]
  rw [Finset.mul_sum, Finset.mul_sum, ← Finset.sum_sub_distrib, ← Finset.sum_sub_distrib]
  exact Finset.sum_congr rfl fun j _ => by ring

theorem dftBin_im_lin3 (n : ℕ) (a b c : ℕ → ℝ) (k : ℕ) :
    (dftBin n (fun j => a j - 1 / 2 * b j - 1 / 2 * c j) k).im
      = (dftBin n a k).im - 1 / 2 * (dftBin n b k).im - 1 / 2 * (dftBin n c k).im := by
  simp only [dftBin_im]
  rw [← Finset.sum_neg_distrib, ← Finset.sum_neg_distrib, ← Finset.sum_neg_distrib,
    ← Finset.sum_neg_distrib, Finset.mul_sum, Finset.mul_sum, ← Finset.sum_sub_distrib,
    ← Finset.sum_sub_distrib]
  exact Finset.sum_congr rfl fun j _ => by ring

/-- `util.csd(s, window='hann')` of a whole-cycle tone still reads `A·e^{ip}` at the tone's bin
(the window is normalised by its mean; the side lobes fall on bins `k ± 1`). -/
theorem csdW_hann_tone_bin' (n k : ℕ) (A p : ℝ) (hk : 1 < k) (hkn : 2 * (k + 1) < n) :
    (csdW n (hannW n) (toneSig n k A p) k).re = A * Real.cos p
    ∧ (csdW n (hannW n) (toneSig n k A p) k).im = A * Real.sin p := by
  have hn1 : 1 < n := by omega
  have hn' : (n : ℝ) ≠ 0 := Nat.cast_ne_zero.2 (by omega)
  have h2 := sqrt_two_ne_zero
  have hc : csdW n (hannW n) (toneSig n k A p) k
      = csd n (fun j => toneSig n k A p j - 1 / 2 * toneSig n (k + 1) A p j
          - 1 / 2 * toneSig n (k - 1) A p j) k :=
    csd_congr n _ _ k fun j _ => hann_tone n k A p (by omega) hn1 j
  obtain ⟨r0, i0⟩ := dftBin_tone_bin n k A p (by omega) (by omega)
  obtain ⟨r1, i1⟩ := dftBin_tone_other n (k + 1) k A p (by omega) hkn (by omega) (by omega)
  obtain ⟨r2, i2⟩ := dftBin_tone_other n (k - 1) k A p (by omega) (by omega) (by omega) (by omega)
  rw [hc, csd_re, csd_im, dftBin_re_lin3, dftBin_im_lin3, r0, i0, r1, i1, r2, i2]
  constructor <;> field_simp <;> ring

theorem csdW_hann_tone_bin (n k : ℕ) (A p : ℝ) (hk : 2 < k) (hkn : 2 * (k + 2) < n) :
    (csdW n (hannW n) (toneSig n k A p) k).re = A * Real.cos p
    ∧ (csdW n (hannW n) (toneSig n k A p) k).im = A * Real.sin p :=
  csdW_hann_tone_bin' n k A p (by omega) (by omega)

example : (csdW 16 (hannW 16) (toneSig 16 3 (3 : ℝ) (1/2)) 3).re = 3 * Real.cos (1/2)
    ∧ (csdW 16 (hannW 16) (toneSig 16 3 (3 : ℝ) (1/2)) 3).im = 3 * Real.sin (1/2) :=
  csdW_hann_tone_bin 16 3 3 (1/2) (by norm_num) (by norm_num)


end Psi.Db
