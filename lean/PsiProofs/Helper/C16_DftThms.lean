import PsiProofs.Helper.C16_Bridge
/-!
C16: what the spectrum helpers of `psiaudio.util` (`csd`, `psd`, `tone_conv`, `rms`,
`csd_to_signal`) compute, proved about the model `PsiModel/DbField.lean` at `α := ℝ`.
-/
open Finset

namespace Psi.Db

/-! ### DFT of a whole-cycle tone -/

theorem tone_term_re (n k m j : ℕ) (A p : ℝ) :
    toneSig n k A p j * Real.cos (2 * Real.pi * m * j / n)
      = Real.sqrt 2 * A / 2 *
        (Real.cos (2 * Real.pi * (((k : ℤ) + (m : ℤ) : ℤ) : ℝ) * j / n + p)
          + Real.cos (2 * Real.pi * (((k : ℤ) - (m : ℤ) : ℤ) : ℝ) * j / n + p)) := by
  rw [toneSig_eq]
  have e1 : 2 * Real.pi * (((k : ℤ) + (m : ℤ) : ℤ) : ℝ) * j / n + p
      = (2 * Real.pi * k * j / n + p) + 2 * Real.pi * m * j / n := by push_cast; ring
  have e2 : 2 * Real.pi * (((k : ℤ) - (m : ℤ) : ℤ) : ℝ) * j / n + p
      = (2 * Real.pi * k * j / n + p) - 2 * Real.pi * m * j / n := by push_cast; ring
  rw [e1, e2]
  generalize 2 * Real.pi * k * j / n + p = x
  generalize 2 * Real.pi * m * j / n = y
  rw [Real.cos_add, Real.cos_sub]
  ring

theorem tone_term_im (n k m j : ℕ) (A p : ℝ) :
    toneSig n k A p j * Real.sin (2 * Real.pi * m * j / n)
      = Real.sqrt 2 * A / 2 *
        (Real.sin (2 * Real.pi * (((k : ℤ) + (m : ℤ) : ℤ) : ℝ) * j / n + p)
          - Real.sin (2 * Real.pi * (((k : ℤ) - (m : ℤ) : ℤ) : ℝ) * j / n + p)) := by
  rw [toneSig_eq]
  have e1 : 2 * Real.pi * (((k : ℤ) + (m : ℤ) : ℤ) : ℝ) * j / n + p
      = (2 * Real.pi * k * j / n + p) + 2 * Real.pi * m * j / n := by push_cast; ring
  have e2 : 2 * Real.pi * (((k : ℤ) - (m : ℤ) : ℤ) : ℝ) * j / n + p
      = (2 * Real.pi * k * j / n + p) - 2 * Real.pi * m * j / n := by push_cast; ring
  rw [e1, e2]
  generalize 2 * Real.pi * k * j / n + p = x
  generalize 2 * Real.pi * m * j / n = y
  rw [Real.sin_add, Real.sin_sub]
  ring

/-- real part of bin `m` of the DFT of a tone with `k` whole cycles -/
theorem dft_tone_re (n k m : ℕ) (hn : 0 < n) (A p : ℝ) :
    (dftBin n (toneSig n k A p) m).re
      = Real.sqrt 2 * A / 2 *
        ((if (n : ℤ) ∣ (k : ℤ) + (m : ℤ) then (n : ℝ) * Real.cos p else 0)
          + (if (n : ℤ) ∣ (k : ℤ) - (m : ℤ) then (n : ℝ) * Real.cos p else 0)) := by
  rw [dftBin_re]
  simp_rw [tone_term_re]
  rw [← Finset.mul_sum, Finset.sum_add_distrib, C16.sum_cos_shift n hn, C16.sum_cos_shift n hn]

/-- imaginary part of bin `m` of the DFT of a tone with `k` whole cycles -/
theorem dft_tone_im (n k m : ℕ) (hn : 0 < n) (A p : ℝ) :
    (dftBin n (toneSig n k A p) m).im
      = -(Real.sqrt 2 * A / 2 *
        ((if (n : ℤ) ∣ (k : ℤ) + (m : ℤ) then (n : ℝ) * Real.sin p else 0)
          - (if (n : ℤ) ∣ (k : ℤ) - (m : ℤ) then (n : ℝ) * Real.sin p else 0))) := by
  rw [dftBin_im]
  simp_rw [tone_term_im]
  rw [← Finset.mul_sum, Finset.sum_sub_distrib, C16.sum_sin_shift n hn, C16.sum_sin_shift n hn]

theorem not_dvd_add (n k m : ℕ) (hk : 0 < k) (hkn : 2 * k < n) (hm : 2 * m ≤ n) :
    ¬ (n : ℤ) ∣ (k : ℤ) + (m : ℤ) :=
  C16.not_dvd_of_abs_lt n _ (by omega) (by omega) (by omega)

theorem not_dvd_sub (n k m : ℕ) (hkn : 2 * k < n) (hm : 2 * m ≤ n) (hmk : m ≠ k) :
    ¬ (n : ℤ) ∣ (k : ℤ) - (m : ℤ) :=
  C16.not_dvd_of_abs_lt n _ (by omega) (by omega) (by omega)

theorem dftBin_tone_bin (n k : ℕ) (A p : ℝ) (hk : 0 < k) (hkn : 2 * k < n) :
    (dftBin n (toneSig n k A p) k).re = Real.sqrt 2 * A / 2 * (n * Real.cos p)
    ∧ (dftBin n (toneSig n k A p) k).im = Real.sqrt 2 * A / 2 * (n * Real.sin p) := by
  have hn : 0 < n := by omega
  rw [dft_tone_re n k k hn, dft_tone_im n k k hn,
    if_neg (not_dvd_add n k k hk hkn hkn.le), if_neg (not_dvd_add n k k hk hkn hkn.le),
    sub_self, if_pos (dvd_zero _), if_pos (dvd_zero _)]
  constructor <;> ring

theorem dftBin_tone_other (n k m : ℕ) (A p : ℝ) (hk : 0 < k) (hkn : 2 * k < n)
    (hm : 2 * m ≤ n) (hmk : m ≠ k) :
    (dftBin n (toneSig n k A p) m).re = 0 ∧ (dftBin n (toneSig n k A p) m).im = 0 := by
  have hn : 0 < n := by omega
  rw [dft_tone_re n k m hn, dft_tone_im n k m hn,
    if_neg (not_dvd_add n k m hk hkn hm), if_neg (not_dvd_add n k m hk hkn hm),
    if_neg (not_dvd_sub n k m hkn hm hmk), if_neg (not_dvd_sub n k m hkn hm hmk)]
  constructor <;> ring

/-! ### Target 1, 2: `csd` of a tone -/

/-- A sinusoid of RMS amplitude `A` and phase `p` with `k` whole cycles in `n` samples reads
`A·e^{ip}` at bin `k` of `util.csd`. -/
theorem csd_tone_bin (n k : ℕ) (A p : ℝ) (hk : 0 < k) (hkn : 2 * k < n) :
    (csd n (toneSig n k A p) k).re = A * Real.cos p
    ∧ (csd n (toneSig n k A p) k).im = A * Real.sin p := by
  have hn : (n : ℝ) ≠ 0 := Nat.cast_ne_zero.2 (by omega)
  have h2 := sqrt_two_ne_zero
  obtain ⟨hre, him⟩ := dftBin_tone_bin n k A p hk hkn
  rw [csd_re, csd_im, hre, him]
  constructor <;> field_simp

example : (csd 8 (toneSig 8 1 (3 : ℝ) (1/2)) 1).re = 3 * Real.cos (1/2)
    ∧ (csd 8 (toneSig 8 1 (3 : ℝ) (1/2)) 1).im = 3 * Real.sin (1/2) :=
  csd_tone_bin 8 1 3 (1/2) (by norm_num) (by norm_num)

/-- … and reads exactly `0` at every other bin of the one-sided spectrum. -/
theorem csd_tone_other (n k m : ℕ) (A p : ℝ) (hk : 0 < k) (hkn : 2 * k < n)
    (hm : 2 * m ≤ n) (hmk : m ≠ k) :
    (csd n (toneSig n k A p) m).re = 0 ∧ (csd n (toneSig n k A p) m).im = 0 := by
  obtain ⟨hre, him⟩ := dftBin_tone_other n k m A p hk hkn hm hmk
  rw [csd_re, csd_im, hre, him]
  constructor <;> ring

example : (csd 8 (toneSig 8 1 (3 : ℝ) (1/2)) 4).re = 0 ∧ (csd 8 (toneSig 8 1 (3 : ℝ) (1/2)) 4).im = 0 :=
  csd_tone_other 8 1 4 3 (1/2) (by norm_num) (by norm_num) (by norm_num) (by norm_num)

example : (csd 8 (toneSig 8 1 (3 : ℝ) (1/2)) 0).re = 0 ∧ (csd 8 (toneSig 8 1 (3 : ℝ) (1/2)) 0).im = 0 :=
  csd_tone_other 8 1 0 3 (1/2) (by norm_num) (by norm_num) (by norm_num) (by norm_num)

/-! ### Target 3: mean square / RMS of a tone -/

theorem tone_sq_term (n k j : ℕ) (A p : ℝ) :
    toneSig n k A p j * toneSig n k A p j
      = A ^ 2 + A ^ 2 *
          Real.cos (2 * Real.pi * (((k : ℤ) + (k : ℤ) : ℤ) : ℝ) * j / n + 2 * p) := by
  rw [toneSig_eq]
  have e1 : 2 * Real.pi * (((k : ℤ) + (k : ℤ) : ℤ) : ℝ) * j / n + 2 * p
      = 2 * (2 * Real.pi * k * j / n + p) := by push_cast; ring
  rw [e1]
  generalize 2 * Real.pi * k * j / n + p = x
  rw [Real.cos_two_mul]
  linear_combination (A ^ 2 * Real.cos x ^ 2) * sqrt_two_mul_self

/-- the mean square of a whole-cycle tone of RMS amplitude `A` is `A²` -/
theorem tone_mean_square (n k : ℕ) (A p : ℝ) (hk : 0 < k) (hkn : 2 * k < n) :
    meanTo n (fun j => toneSig n k A p j * toneSig n k A p j) = A ^ 2 := by
  have hn : 0 < n := by omega
  have hn' : (n : ℝ) ≠ 0 := Nat.cast_ne_zero.2 hn.ne'
  rw [meanTo_eq]
  simp_rw [tone_sq_term]
  rw [Finset.sum_add_distrib, ← Finset.mul_sum,
    C16.sum_cos_shift_of_not_dvd n hn _ _ (not_dvd_add n k k hk hkn hkn.le),
    Finset.sum_const, Finset.card_range, nsmul_eq_mul]
  field_simp
  ring

example : meanTo 8 (fun j => toneSig 8 1 (3 : ℝ) (1/2) j * toneSig 8 1 (3 : ℝ) (1/2) j)
    = (3 : ℝ) ^ 2 :=
  tone_mean_square 8 1 3 (1/2) (by norm_num) (by norm_num)

/-- `util.rms` of a whole-cycle tone of RMS amplitude `A` is `|A|` -/
theorem tone_rms (n k : ℕ) (A p : ℝ) (hk : 0 < k) (hkn : 2 * k < n) :
    rms n (toneSig n k A p) = |A| := by
  rw [rms, tone_mean_square n k A p hk hkn, sqrt_real, Real.sqrt_sq_eq_abs]

example : rms 8 (toneSig 8 1 (-3 : ℝ) (1/2)) = |(-3 : ℝ)| :=
  tone_rms 8 1 (-3) (1/2) (by norm_num) (by norm_num)

/-! ### Target 4: `tone_conv` at a whole-cycle frequency -/

theorem toneConv_angle (n k j : ℕ) (fs : ℝ) (hfs : fs ≠ 0) (hn : 0 < n) :
    2 * Real.pi * ((j : ℝ) / fs) * ((k : ℝ) * fs / n) = 2 * Real.pi * k * j / n := by
  have hn' : (n : ℝ) ≠ 0 := Nat.cast_ne_zero.2 hn.ne'
  field_simp

/-- `tone_conv` at `f = k·fs/n` is `2/n` times DFT bin `k` -/
theorem toneConv_re_eq (n k : ℕ) (s : ℕ → ℝ) (fs : ℝ) (hfs : fs ≠ 0) (hn : 0 < n) :
    (toneConv n s fs (k * fs / n)).re = 2 * (dftBin n s k).re / n := by
  show (csumTo n _).re / nat n = _
  rw [csumTo_re, dftBin_re, Finset.mul_sum, nat_real]
  congr 1
  refine Finset.sum_congr rfl fun j _ => ?_
  simp only [Cx.smul, cis, cos_real, Real.cos_neg, nat_real, pi_real, Nat.cast_ofNat]
  rw [toneConv_angle n k j fs hfs hn]
  ring

theorem toneConv_im_eq (n k : ℕ) (s : ℕ → ℝ) (fs : ℝ) (hfs : fs ≠ 0) (hn : 0 < n) :
    (toneConv n s fs (k * fs / n)).im = 2 * (dftBin n s k).im / n := by
  show (csumTo n _).im / nat n = _
  rw [csumTo_im, dftBin_im, ← Finset.sum_neg_distrib, Finset.mul_sum, nat_real]
  congr 1
  refine Finset.sum_congr rfl fun j _ => ?_
  simp only [Cx.smul, cis, sin_real, Real.sin_neg, nat_real, pi_real, Nat.cast_ofNat]
  rw [toneConv_angle n k j fs hfs hn]
  ring

/-- `util.tone_conv` of a whole-cycle tone at its own frequency `k·fs/n` is `√2·A·e^{ip}`. -/
theorem toneConv_whole_cycles (n k : ℕ) (A p fs : ℝ) (hfs : fs ≠ 0) (hk : 0 < k)
    (hkn : 2 * k < n) :
    (toneConv n (toneSig n k A p) fs (k * fs / n)).re = Real.sqrt 2 * A * Real.cos p
    ∧ (toneConv n (toneSig n k A p) fs (k * fs / n)).im = Real.sqrt 2 * A * Real.sin p := by
  have hn : 0 < n := by omega
  have hn' : (n : ℝ) ≠ 0 := Nat.cast_ne_zero.2 hn.ne'
  obtain ⟨hre, him⟩ := dftBin_tone_bin n k A p hk hkn
  rw [toneConv_re_eq n k _ fs hfs hn, toneConv_im_eq n k _ fs hfs hn, hre, him]
  constructor <;> field_simp

example : (toneConv 8 (toneSig 8 1 (3 : ℝ) (1/2)) 100000 ((1 : ℕ) * 100000 / (8 : ℕ))).re
      = Real.sqrt 2 * 3 * Real.cos (1/2)
    ∧ (toneConv 8 (toneSig 8 1 (3 : ℝ) (1/2)) 100000 ((1 : ℕ) * 100000 / (8 : ℕ))).im
      = Real.sqrt 2 * 3 * Real.sin (1/2) :=
  toneConv_whole_cycles 8 1 3 (1/2) 100000 (by norm_num) (by norm_num) (by norm_num)

/-- `util.tone_power_conv` of a whole-cycle tone is its RMS amplitude -/
theorem tonePower_whole_cycles (n k : ℕ) (A p fs : ℝ) (hfs : fs ≠ 0) (hk : 0 < k)
    (hkn : 2 * k < n) :
    tonePower n (toneSig n k A p) fs (k * fs / n) = |A| := by
  obtain ⟨hre, him⟩ := toneConv_whole_cycles n k A p fs hfs hk hkn
  rw [tonePower, Cx.abs, hre, him, sqrt_real, sqrt_real, nat_real]
  have e : Real.sqrt 2 * A * Real.cos p * (Real.sqrt 2 * A * Real.cos p)
      + Real.sqrt 2 * A * Real.sin p * (Real.sqrt 2 * A * Real.sin p) = 2 * A ^ 2 := by
    linear_combination (A ^ 2 * (Real.cos p ^ 2 + Real.sin p ^ 2)) * sqrt_two_mul_self
      + (2 * A ^ 2) * Real.cos_sq_add_sin_sq p
  rw [e, Real.sqrt_mul (by norm_num), Real.sqrt_sq_eq_abs]
  push_cast
  field_simp [sqrt_two_ne_zero]

example : tonePower 8 (toneSig 8 1 (-3 : ℝ) (1/2)) 100000 ((1 : ℕ) * 100000 / (8 : ℕ))
    = |(-3 : ℝ)| :=
  tonePower_whole_cycles 8 1 (-3) (1/2) 100000 (by norm_num) (by norm_num) (by norm_num)

/-- `util.tone_phase_conv` of a whole-cycle tone is its phase (principal value) -/
theorem tonePhase_whole_cycles (n k : ℕ) (A p fs : ℝ) (hfs : fs ≠ 0) (hk : 0 < k)
    (hkn : 2 * k < n) (hA : 0 < A) (hp : -Real.pi < p ∧ p ≤ Real.pi) :
    tonePhase n (toneSig n k A p) fs (k * fs / n) = p := by
  obtain ⟨hre, him⟩ := toneConv_whole_cycles n k A p fs hfs hk hkn
  rw [tonePhase, Cx.arg, atan2_real, hre, him]
  have hr : 0 < Real.sqrt 2 * A := mul_pos (Real.sqrt_pos.2 (by norm_num)) hA
  have e : (⟨Real.sqrt 2 * A * Real.cos p, Real.sqrt 2 * A * Real.sin p⟩ : ℂ)
      = ((Real.sqrt 2 * A : ℝ) : ℂ) * (Complex.cos p + Complex.sin p * Complex.I) := by
    apply Complex.ext
    · rw [Complex.re_ofReal_mul, Complex.cos_add_sin_I, Complex.exp_ofReal_mul_I_re]
    · rw [Complex.im_ofReal_mul, Complex.cos_add_sin_I, Complex.exp_ofReal_mul_I_im]
  rw [e, Complex.arg_mul_cos_add_sin_mul_I hr ⟨hp.1, hp.2⟩]

example : tonePhase 8 (toneSig 8 1 (3 : ℝ) (1/2)) 100000 ((1 : ℕ) * 100000 / (8 : ℕ)) = 1/2 :=
  tonePhase_whole_cycles 8 1 3 (1/2) 100000 (by norm_num) (by norm_num) (by norm_num)
    (by norm_num) ⟨by linarith [Real.pi_pos], by linarith [Real.two_le_pi]⟩

end Psi.Db
