import PsiProofs.Helper.C14_Refine
/-!
C14 helper: what the read operations return in a state that refines a spec, and
preservation of the refinement by `resize` (which re-reads the latest samples with fill).
-/
namespace Psi.Buffer

variable {α : Type}

theorem pyNorm_nonneg (n : Nat) (a : Int) (h0 : 0 ≤ a) (h1 : a ≤ n) : pyNorm n a = a.toNat := by
  unfold pyNorm
  have : ¬ a < 0 := by omega
  simp only [this, if_false]
  omega

/-- Python slice with both bounds inside `[0, len]`. -/
theorem pySlice_inside (l : List α) (a b : Int) (h0 : 0 ≤ a) (hab : a ≤ b) (hb : b ≤ l.length) :
    pySlice l a b = (l.drop a.toNat).take (b.toNat - a.toNat) := by
  unfold pySlice
  rw [pyNorm_nonneg _ a h0 (by omega), pyNorm_nonneg _ b (by omega) hb, List.drop_take]

theorem Refines.samplesLb_eq {s : State α} {sp : Spec α} (r : Refines s sp) :
    samplesLb s = sp.lo := by
  have := r.lb_eq
  simp only [samplesLb]; omega

theorem Refines.samplesUb_eq {s : State α} {sp : Spec α} (r : Refines s sp) :
    samplesUb s = sp.hi := by
  simp [samplesUb, Spec.hi, r.samples_eq]

/-- A read inside the window returns exactly those samples of the logical stream. -/
theorem Refines.rangeSamples_inside {s : State α} {sp : Spec α} (r : Refines s sp)
    (lb ub : Int) (h1 : (sp.lo : Int) ≤ lb) (h2 : lb ≤ ub) (h3 : ub ≤ sp.hi) :
    rangeSamples s lb ub = .ok (sp.slice lb.toNat ub.toNat) := by
  obtain ⟨hcap, hpos, hlen, hilb, hsam, hlo, hlb, hwin⟩ := r
  simp only [Spec.hi] at h3
  have c1 : ¬ toIndex s lb < s.ilb := by simp only [toIndex]; omega
  have c2 : ¬ toIndex s ub > s.cap := by simp only [toIndex]; omega
  simp only [rangeSamples, c1, c2, if_false]
  rw [pySlice_inside _ _ _ (by simp only [toIndex]; omega) (by simp only [toIndex]; omega)
        (by simp only [toIndex]; omega)]
  have e1 : (toIndex s lb).toNat = s.ilb + (lb.toNat - sp.lo) := by simp only [toIndex]; omega
  have e2 : (toIndex s ub).toNat - (toIndex s lb).toNat = ub.toNat - lb.toNat := by
    simp only [toIndex]; omega
  rw [e2, e1, ← List.drop_drop, hwin, List.drop_drop]
  have : sp.lo + (lb.toNat - sp.lo) = lb.toNat := by omega
  rw [this]; rfl

/-- A read reaching outside the window raises `IndexError`. -/
theorem Refines.rangeSamples_outside {s : State α} {sp : Spec α} (r : Refines s sp)
    (lb ub : Int) (h : lb < sp.lo ∨ (sp.hi : Int) < ub) :
    rangeSamples s lb ub = .error .indexError := by
  obtain ⟨hcap, hpos, hlen, hilb, hsam, hlo, hlb, hwin⟩ := r
  simp only [Spec.hi] at h
  by_cases c1 : toIndex s lb < s.ilb
  · simp [rangeSamples, c1]
  · have c2 : toIndex s ub > s.cap := by simp only [toIndex] at c1 ⊢; omega
    simp [rangeSamples, c1, c2]

theorem Refines.rangeSamples_eq {s : State α} {sp : Spec α} (r : Refines s sp)
    (lb ub : Int) (h : lb ≤ ub) : rangeSamples s lb ub = sp.read lb ub := by
  unfold Spec.read
  by_cases c : lb < sp.lo ∨ (sp.hi : Int) < ub
  · simp only [c, if_true]; exact r.rangeSamples_outside lb ub c
  · simp only [c, if_false]; exact r.rangeSamples_inside lb ub (by omega) h (by omega)

/-- The filled read pads precisely the missing part (for every request, also one that is
disjoint from the window or reversed). -/
theorem Refines.rangeFilled_eq {s : State α} {sp : Spec α} (r : Refines s sp)
    (a b : Int) (fill : α) : rangeFilled s a b fill = .ok (sp.filled a b fill) := by
  have hlo : (sp.lo : Int) ≤ sp.hi := by have := r.lo_le; simp only [Spec.hi]; omega
  simp only [rangeFilled, r.samplesLb_eq, r.samplesUb_eq]
  rw [r.rangeSamples_inside _ _ (by omega) (by omega) (by omega)]
  simp only [Spec.filled, Spec.clip]
  by_cases hab : a ≤ b
  · have : max (min (sp.hi : Int) b) (min (max (sp.lo : Int) a) sp.hi) = min (max (sp.lo : Int) b) sp.hi := by omega
    rw [this]
    have e1 : max (min (sp.lo : Int) b - a) 0 = min (sp.lo : Int) b - a ∨ (min (sp.lo : Int) b - a) < 0 := by omega
    have l1 : (max (min (sp.lo : Int) b - a) 0).toNat = (min (sp.lo : Int) b - a).toNat := by omega
    have l2 : (max (b - max (sp.hi : Int) a) 0).toNat = (b - max (sp.hi : Int) a).toNat := by omega
    rw [l1, l2]
  · have l1 : (max (min (sp.lo : Int) b - a) 0).toNat = (min (sp.lo : Int) b - a).toNat := by omega
    have l2 : (max (b - max (sp.hi : Int) a) 0).toNat = (b - max (sp.hi : Int) a).toNat := by omega
    rw [l1, l2]
    have s1 : ∀ x y : Nat, y ≤ x → sp.slice x y = [] := by
      intro x y h; simp [Spec.slice]; omega
    rw [s1 _ _ (by omega), s1 _ _ (by omega)]

theorem Refines.latest_none {s : State α} {sp : Spec α} (r : Refines s sp) (lb ub : Int)
    (h : lb ≤ ub) : latest s lb ub none = sp.read (lb + sp.hi) (ub + sp.hi) := by
  simp only [latest, r.samplesUb_eq]
  exact r.rangeSamples_eq _ _ (by omega)

theorem Refines.latest_some {s : State α} {sp : Spec α} (r : Refines s sp) (lb ub : Int) (fill : α) :
    latest s lb ub (some fill) = .ok (sp.filled (lb + sp.hi) (ub + sp.hi) fill) := by
  simp only [latest, r.samplesUb_eq]
  exact r.rangeFilled_eq _ _ _

theorem Refines.window_eq {s : State α} {sp : Spec α} (r : Refines s sp) :
    window s = .ok sp.window := by
  have hlo := r.lo_le
  simp only [window, r.samplesLb_eq, r.samplesUb_eq]
  rw [r.rangeSamples_inside _ _ (by omega) (by simp only [Spec.hi]; omega) (by omega)]
  simp only [Spec.slice, Spec.window, Spec.hi, Int.toNat_natCast]
  rw [List.take_of_length_le (by simp)]

/-! ### resize -/

theorem Spec.slice_to_end (sp : Spec α) (e : Nat) : sp.slice e sp.hi = sp.stream.drop e := by
  simp only [Spec.slice, Spec.hi]
  rw [List.take_of_length_le (by simp)]

/-- What `get_latest(-c, fill)` amounts to: `c - window` fill cells, then the retained samples
from `max lo (hi - c)` on. -/
theorem Spec.filled_latest (sp : Spec α) (hlo : sp.lo ≤ sp.stream.length) (c : Nat) (fill : α) :
    sp.filled (-(c : Int) + sp.hi) (0 + sp.hi) fill
      = List.replicate (c - (sp.stream.length - sp.lo)) fill
          ++ sp.stream.drop (max sp.lo (sp.stream.length - c)) := by
  have hclipb : sp.clip (0 + (sp.hi : Int)) = sp.hi := by simp only [Spec.clip, Spec.hi]; omega
  have hclipa : sp.clip (-(c : Int) + sp.hi) = max sp.lo (sp.stream.length - c) := by
    simp only [Spec.clip, Spec.hi]; omega
  have hr : (0 + (sp.hi : Int) - max (sp.hi : Int) (-(c : Int) + sp.hi)).toNat = 0 := by omega
  have hl : (min (sp.lo : Int) (0 + sp.hi) - (-(c : Int) + sp.hi)).toNat
      = c - (sp.stream.length - sp.lo) := by simp only [Spec.hi]; omega
  simp only [Spec.filled, hclipa, hclipb, hr, hl, Spec.slice_to_end, List.replicate_zero,
    List.append_nil]

theorem refines_resizeE {s : State α} {sp : Spec α} (r : Refines s sp) (c : Nat) (hc : 0 < c) :
    ∃ s', resizeE s c = .ok s' ∧ Refines s' (sp.resize c) := by
  have hlo' := Spec.resize_lo sp c r.lo_le
  have hrd := r.latest_some (-(c : Int)) 0 s.fillv
  obtain ⟨hcap, hpos, hlen, hilb, hsam, hlo, hlb, hwin⟩ := r
  rw [Spec.filled_latest sp hlo] at hrd
  unfold resizeE
  rw [hrd]
  refine ⟨_, rfl, ?_⟩
  generalize hb : List.replicate (c - (sp.stream.length - sp.lo)) s.fillv
      ++ sp.stream.drop (max sp.lo (sp.stream.length - c)) = b
  have hlenf : b.length = c := by
    rw [← hb]; simp only [List.length_append, List.length_replicate, List.length_drop]; omega
  have hilb' : ((s.ilb : Int) + ((b.length : Int) - s.cap)).toNat
      = c - (sp.stream.length - sp.lo) := by
    rw [hlenf]; omega
  refine ⟨?_, ?_, rfl, ?_, ?_, ?_, ?_, ?_⟩
  · show b.length = c; exact hlenf
  · show 0 < b.length; omega
  · show ((s.ilb : Int) + ((b.length : Int) - s.cap)).toNat ≤ b.length; omega
  · exact hsam
  · rw [hlo', Spec.resize_stream]; omega
  · show s.samples + ((s.ilb : Int) + ((b.length : Int) - s.cap)).toNat = (sp.resize c).lo + b.length
    rw [hlo', hilb', hlenf]; omega
  · show b.drop ((s.ilb : Int) + ((b.length : Int) - s.cap)).toNat = (sp.resize c).stream.drop (sp.resize c).lo
    rw [hilb', ← hb, hlo', Spec.resize_stream, List.drop_left' (by simp)]

theorem refines_resize {s : State α} {sp : Spec α} (r : Refines s sp) (c : Nat) (hc : 0 < c) :
    Refines (resize s c) (sp.resize c) := by
  obtain ⟨s', h, r'⟩ := refines_resizeE r c hc
  have e : resize s c = s' := by unfold resize; rw [h]
  rw [e]; exact r'

end Psi.Buffer
