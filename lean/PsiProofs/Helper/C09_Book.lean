import PsiModel.Stim
import PsiProofs.Helper.C01_Stim
/-! Sample bookkeeping of finite stimuli and the shape of the full envelope (C09). -/
set_option linter.dupNamespace false
namespace Psi.Stim
open Psi.Chunk

/-- Gate / envelope / fixed-waveform at the top: the stimuli with a sample count. -/
def Stim.total : Stim → Option Nat
  | .fixed w _ => some w.length
  | .gate start dur _ _ => some (start + dur)
  | .env _ p _ _ => some (p.start + p.dur)
  | _ => none

/-- Running offset of the top-level factory (samples drawn since reset). -/
def Stim.drawn : Stim → Nat
  | .leaf _ off => off
  | .sqwave _ _ _ off => off
  | .fixed _ off => off
  | .gate _ _ off _ => off
  | .env _ _ off _ => off
  | .sam _ _ off _ => off
  | .sqenv _ _ off _ => off
  | .filt _ _ off _ => off

theorem total_next (g : Stim) (n : Nat) : (g.next n).2.total = g.total := by
  cases g with
  | env id p off inner =>
    simp only [Stim.next]
    split <;> rfl
  | _ => rfl

theorem drawn_next (g : Stim) (h : g.WFs) (n : Nat) : (g.next n).2.drawn = g.drawn + n := by
  cases g with
  | env id p off inner =>
    simp only [Stim.next]
    rw [envelope_ok _ p h.1]
    rfl
  | sam id delay off inner =>
    simp only [Stim.next, Stim.drawn, Stim.next_length inner h n]
  | sqenv id p off inner =>
    simp only [Stim.next, Stim.drawn, Stim.next_length inner h.2 n]
  | filt id j off inner =>
    simp only [Stim.next, Stim.drawn, Stim.next_length inner h n]
  | _ => rfl

theorem remaining_of_total (g : Stim) (T : Nat) (h : g.total = some T) :
    g.remaining = .fin (T - g.drawn) ∧ g.complete = decide (T ≤ g.drawn) ∧ g.nSamples = .fin T := by
  cases g <;> first
    | (simp only [Stim.total, Option.some.injEq] at h; subst h; exact ⟨rfl, rfl, rfl⟩)
    | (simp [Stim.total] at h)

theorem drawn_stateAfter (g : Stim) (h : g.WFs) (ns : List Nat) :
    (stateAfter stimGen g ns).drawn = g.drawn + ns.sum ∧ (stateAfter stimGen g ns).total = g.total := by
  induction ns generalizing g with
  | nil => simp [stateAfter]
  | cons n ns ih =>
    simp only [stateAfter, stimGen, List.sum_cons]
    have := ih (g.next n).2 (Stim.next_wfs g h n)
    simp only [stimGen] at this
    rw [this.1, this.2, drawn_next g h, total_next]
    exact ⟨by omega, rfl⟩

/-- The full envelope drawn from offset 0: zeros, the first half of the window, ones, the
second half of the window. -/
theorem envelopeFrag_full {α : Type} [Sample α] (ramp : Nat → α) (lb dur r : Nat) (h : 2 * r ≤ dur) :
    envelopeFrag ramp lb dur r 0 (lb + dur)
      = List.replicate lb Sample.zero ++ ((List.range r).map ramp
        ++ (List.replicate (dur - 2 * r) Sample.one ++ (List.range r).map fun i => ramp (r + i))) := by
  rw [envelopeFrag_eq_window ramp lb dur r 0 (lb + dur) h]
  have hlen := envFull_length ramp lb dur r h
  have hseg : seg (envFull ramp lb dur r) ((0 : Nat) : Int) (lb + dur) = envFull ramp lb dur r := by
    simp only [seg, Int.toNat_natCast, List.drop_zero]
    rw [← hlen, List.take_length]
  rw [hseg, hlen, Nat.sub_self]
  simp only [List.replicate_zero, List.append_nil, envFull]
  have t1 : (rampTable ramp r).take r = (List.range r).map ramp := by
    apply List.ext_getElem?
    intro i
    rw [rampTable_take_getElem?]
    by_cases hi : i < r <;> simp [hi]
  have t2 : ((rampTable ramp r).drop r).take r = (List.range r).map fun i => ramp (r + i) := by
    apply List.ext_getElem?
    intro i
    rw [rampTable_drop_getElem?]
    by_cases hi : i < r <;> simp [hi]
  rw [t1, t2]

/-- Sample `i` of any draw history from a factory tree is sample `i` of the single request. -/
theorem drawAll_getElem? (g : Stim) (h : g.WFs) (ns : List Nat) (i : Nat) :
    (drawAll stimGen g ns)[i]? = ((g.next ns.sum).1)[i]? := by
  rw [stim_drawAll g h ns]

end Psi.Stim
