import PsiProofs.Helper.C02_Timeline
/-! Index lemmas about `render`, WF preservation, clock. -/
namespace Psi.Queue

def seg (i : Info) : List Cell := wave i.key 0 i.len ++ zeros i.delay.toNat

theorem render_cons (a : Info) (l : List Info) : render (a :: l) = seg a ++ render l := by
  simp [render, seg]

theorem wave_getElem? (key off n i : Nat) (h : i < n) : (wave key off n)[i]? = some (Cell.W key (off + i)) := by
  simp [wave, h]

theorem zeros_getElem? (n i : Nat) (h : i < n) : (zeros n)[i]? = some Cell.Z := by
  simp [zeros, h]

/-- sample `i` of trial `j` sits at offset |render (take j)| + i -/
theorem render_wave (infos : List Info) (j : Nat) (hj : j < infos.length) (i : Nat) (hi : i < infos[j].len) :
    (render infos)[(render (infos.take j)).length + i]? = some (Cell.W infos[j].key i) := by
  induction infos generalizing j with
  | nil => simp at hj
  | cons a l ih =>
    cases j with
    | zero =>
      simp only [List.take_zero, render, List.flatMap_nil, List.length_nil, Nat.zero_add,
        List.getElem_cons_zero] at hi ⊢
      simp only [List.flatMap_cons]
      rw [List.getElem?_append_left (by simp; omega), List.getElem?_append_left (by simpa using hi)]
      simpa using wave_getElem? a.key 0 a.len i hi
    | succ j =>
      simp only [List.take_succ_cons, render_cons, List.length_append, List.getElem_cons_succ] at hi ⊢
      rw [Nat.add_assoc, List.getElem?_append_right (by omega)]
      simp only [Nat.add_sub_cancel_left]
      exact ih j (by simpa using hj) hi

/-- every cell of a rendering is a zero or a located waveform sample -/
theorem render_classify (infos : List Info) (p : Nat) (hp : p < (render infos).length) :
    (render infos)[p]? = some Cell.Z ∨
    ∃ j, ∃ hj : j < infos.length, ∃ i, i < infos[j].len ∧ p = (render (infos.take j)).length + i ∧
      (render infos)[p]? = some (Cell.W infos[j].key i) := by
  induction infos generalizing p with
  | nil => simp [render] at hp
  | cons a l ih =>
    rw [render_cons] at hp ⊢
    by_cases h1 : p < (seg a).length
    · rw [List.getElem?_append_left h1]
      by_cases h2 : p < a.len
      · right
        refine ⟨0, by simp, p, by simpa using h2, by simp [render], ?_⟩
        simp only [seg, List.getElem_cons_zero]
        rw [List.getElem?_append_left (by simpa using h2)]
        simpa using wave_getElem? a.key 0 a.len p h2
      · left
        simp only [seg] at h1 ⊢
        rw [List.getElem?_append_right (by simp; omega)]
        apply zeros_getElem?
        simp at h1 ⊢; omega
    · rw [List.getElem?_append_right (by omega)]
      have hp' : p - (seg a).length < (render l).length := by simp at hp; omega
      rcases ih (p - (seg a).length) hp' with hz | ⟨j, hj, i, hi, hpe, hw⟩
      · left; exact hz
      · right
        refine ⟨j + 1, by simpa using hj, i, by simpa using hi, ?_, by simpa using hw⟩
        simp only [List.take_succ_cons, render_cons, List.length_append]
        omega

end Psi.Queue
