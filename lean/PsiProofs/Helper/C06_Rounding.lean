import Mathlib.Algebra.Order.Round
import Mathlib.Algebra.Order.Archimedean.Real.Basic
import Mathlib.Tactic.Linarith
import Mathlib.Tactic.Positivity
import Mathlib.Tactic.Ring
import Mathlib.Tactic.NormNum
/-!
Helper for C06: error analysis of the seconds <-> samples round trip

  queue      : t0' = fl(T + fl(k / fs))                  (queue.py 386: `self._t0 + (self._samples/self._fs)`)
  extractor  : round(fl(fl(t0' - p) * fs))               (pipeline.py 817: `round((info['t0'] - prestim_time) * fs)`)

in the standard model of floating-point arithmetic: `fl` is any function with
`|fl x - x| ≤ u * |x|` (IEEE-754 binary64 round-to-nearest in the normal range has u = 2⁻⁵³).
-/
namespace Psi.Rounding

/-- a real function that rounds with relative error at most `u` -/
def IsFl (u : ℝ) (fl : ℝ → ℝ) : Prop := ∀ x, |fl x - x| ≤ u * |x|

theorem fl_err {u : ℝ} {fl : ℝ → ℝ} (hu : 0 ≤ u) (h : IsFl u fl) (x B : ℝ) (hB : |x| ≤ B) :
    |fl x - x| ≤ u * B :=
  (h x).trans (mul_le_mul_of_nonneg_left hB hu)

/-- the value the queue publishes -/
noncomputable def queueT0 (fl : ℝ → ℝ) (T fs : ℝ) (k : ℕ) : ℝ := fl (T + fl ((k : ℝ) / fs))

/-- the value the extractor rounds -/
noncomputable def extractorArg (fl : ℝ → ℝ) (T fs p : ℝ) (k : ℕ) : ℝ :=
  fl (fl (queueT0 fl T fs k - p) * fs)

/-- **Forward error bound.** The computed argument of `round` differs from the exact
`(T + k/fs - p)·fs` by at most `6u·(T + k/fs + p)·fs`. -/
theorem extractorArg_error {u : ℝ} {fl : ℝ → ℝ} (hu0 : 0 ≤ u) (hu1 : u ≤ 1 / 100) (hfl : IsFl u fl)
    (T fs p : ℝ) (k : ℕ) (hfs : 0 < fs) (hT : 0 ≤ T) (hp : 0 ≤ p) :
    |extractorArg fl T fs p k - (T + (k : ℝ) / fs - p) * fs| ≤ 6 * u * ((T + (k : ℝ) / fs + p) * fs) := by
  have hq0 : 0 ≤ (k : ℝ) / fs := by positivity
  unfold extractorArg queueT0
  generalize (k : ℝ) / fs = q at hq0 ⊢
  have ht0 : 0 ≤ T + q := by positivity
  have hW0 : 0 ≤ T + q + p := by positivity
  have huW : 0 ≤ u * (T + q + p) := mul_nonneg hu0 hW0
  have huW_le : u * (T + q + p) ≤ (1 / 100) * (T + q + p) := mul_le_mul_of_nonneg_right hu1 hW0
  have huq0 : 0 ≤ u * q := mul_nonneg hu0 hq0
  have huq : u * q ≤ u * (T + q + p) := mul_le_mul_of_nonneg_left (by linarith) hu0
  -- a = fl q
  have e1 := abs_le.1 (fl_err hu0 hfl q q (by rw [abs_of_nonneg hq0]))
  generalize fl q = a at e1 ⊢
  -- b = fl (T + a)
  have hTa : |T + a| ≤ T + q + u * q := by
    rw [abs_le]; constructor <;> linarith [e1.1, e1.2]
  have e2 := abs_le.1 (fl_err hu0 hfl _ _ hTa)
  generalize fl (T + a) = b at e2 ⊢
  have hE2 : u * (T + q + u * q) ≤ (101 / 100) * (u * (T + q + p)) := by
    have : T + q + u * q ≤ (101 / 100) * (T + q + p) := by linarith
    calc u * (T + q + u * q) ≤ u * ((101 / 100) * (T + q + p)) := mul_le_mul_of_nonneg_left this hu0
      _ = (101 / 100) * (u * (T + q + p)) := by ring
  have hE2_0 : 0 ≤ u * (T + q + u * q) := mul_nonneg hu0 (by linarith)
  -- c = fl (b - p)
  have hbp : |b - p| ≤ T + q + p + u * q + u * (T + q + u * q) := by
    rw [abs_le]; constructor <;> linarith [e1.1, e1.2, e2.1, e2.2]
  have e3 := abs_le.1 (fl_err hu0 hfl _ _ hbp)
  generalize fl (b - p) = c at e3 ⊢
  have hE3 : u * (T + q + p + u * q + u * (T + q + u * q)) ≤ (103 / 100) * (u * (T + q + p)) := by
    have : T + q + p + u * q + u * (T + q + u * q) ≤ (103 / 100) * (T + q + p) := by linarith
    calc u * (T + q + p + u * q + u * (T + q + u * q)) ≤ u * ((103 / 100) * (T + q + p)) :=
          mul_le_mul_of_nonneg_left this hu0
      _ = (103 / 100) * (u * (T + q + p)) := by ring
  -- c is close to T + q - p
  have hcE : |c - (T + q - p)| ≤ (31 / 10) * (u * (T + q + p)) := by
    rw [abs_le]; constructor <;> linarith [e1.1, e1.2, e2.1, e2.2, e3.1, e3.2]
  have hcE' := abs_le.1 hcE
  have hcabs : |c * fs| ≤ (T + q + p + (31 / 10) * (u * (T + q + p))) * fs := by
    rw [abs_mul, abs_of_pos hfs]
    apply mul_le_mul_of_nonneg_right _ hfs.le
    rw [abs_le]; constructor <;> linarith [hcE'.1, hcE'.2]
  have e4 := abs_le.1 (fl_err hu0 hfl _ _ hcabs)
  have hM0 : 0 ≤ (T + q + p) * fs := mul_nonneg hW0 hfs.le
  have huM : 0 ≤ u * ((T + q + p) * fs) := mul_nonneg hu0 hM0
  have hE4 : u * ((T + q + p + (31 / 10) * (u * (T + q + p))) * fs) ≤
      (1031 / 1000) * (u * ((T + q + p) * fs)) := by
    have h1 : (T + q + p + (31 / 10) * (u * (T + q + p))) ≤ (1031 / 1000) * (T + q + p) := by linarith
    have : (T + q + p + (31 / 10) * (u * (T + q + p))) * fs ≤ (1031 / 1000) * (T + q + p) * fs :=
      mul_le_mul_of_nonneg_right h1 hfs.le
    calc u * ((T + q + p + (31 / 10) * (u * (T + q + p))) * fs)
          ≤ u * ((1031 / 1000) * (T + q + p) * fs) := mul_le_mul_of_nonneg_left this hu0
      _ = (1031 / 1000) * (u * ((T + q + p) * fs)) := by ring
  have hcfs : |c * fs - (T + q - p) * fs| ≤ (31 / 10) * (u * ((T + q + p) * fs)) := by
    have : c * fs - (T + q - p) * fs = (c - (T + q - p)) * fs := by ring
    rw [this, abs_mul, abs_of_pos hfs]
    calc |c - (T + q - p)| * fs ≤ (31 / 10) * (u * (T + q + p)) * fs := mul_le_mul_of_nonneg_right hcE hfs.le
      _ = (31 / 10) * (u * ((T + q + p) * fs)) := by ring
  have hcfs' := abs_le.1 hcfs
  have hgoal : 6 * u * ((T + q + p) * fs) = 6 * (u * ((T + q + p) * fs)) := by ring
  rw [hgoal, abs_le]
  constructor <;> linarith [e4.1, e4.2, hcfs'.1, hcfs'.2]

/-- every round-to-nearest function returns `n` on `x` when `|x - n| < 1/2`; Mathlib's `round` does -/
theorem round_eq_of_close (x : ℝ) (n : ℤ) (h : |x - n| < 1 / 2) : round x = n := by
  rw [round_eq, Int.floor_eq_iff]
  rw [abs_sub_lt_iff] at h
  constructor <;> linarith [h.1, h.2]

end Psi.Rounding
