import PsiModel.Reject
import PsiProofs.Helper.C11_Data
/-! Rows of a row-major batch, `keep` by a mask, and the samples a mask on the epoch axis selects. -/
set_option linter.unusedSimpArgs false
namespace Psi.Reject
open Psi.PData

theorem rows_flatMap {α} (nt : Nat) (f : α → List Int) : ∀ (l : List α), (∀ x ∈ l, (f x).length = nt) →
    rows nt l.length (l.flatMap f) = l.map f
  | [], _ => rfl
  | x :: xs, h => by
    have hx := h x (by simp)
    simp only [List.length_cons, rows, List.flatMap_cons, List.map_cons]
    rw [List.take_left' hx, List.drop_left' hx, rows_flatMap nt f xs (fun y hy => h y (by simp [hy]))]

/-- row `p` of a row-major value list. -/
def rowAt (values : List Int) (nt p : Nat) : List Int := (List.range nt).map fun t => values.getD (p * nt + t) 0

theorem map_getD_range_int (values : List Int) : (List.range values.length).map (fun o => values.getD o 0) = values := by
  apply List.ext_getElem
  · simp
  · intro i h1 h2; simp at h1 ⊢; simp [List.getElem?_eq_getElem h1]

theorem rows_eq (nt ne : Nat) (values : List Int) (hv : values.length = ne * nt) :
    rows nt ne values = (List.range ne).map (rowAt values nt) := by
  have h1 : values = (List.range ne).flatMap (rowAt values nt) := by
    conv => lhs; rw [← map_getD_range_int values, hv, ← range_flatMap_block ne nt, List.map_flatMap]
    simp only [Function.comp_def, List.map_map]
    rfl
  conv => lhs; rw [h1]
  have := rows_flatMap nt (rowAt values nt) (List.range ne) (by intro x _; simp [rowAt])
  simpa using this

theorem keep_map {α β} (f : α → β) : ∀ (l : List α) (m : List Bool), keep (l.map f) m = (keep l m).map f
  | [], m => by cases m <;> simp [keep]
  | x :: xs, [] => by simp [keep]
  | x :: xs, true :: bs => by simp [keep, keep_map f xs bs]
  | x :: xs, false :: bs => by simp [keep, keep_map f xs bs]

theorem keep_range' : ∀ (m : List Bool) (pos : Nat), keep (List.range' pos m.length) m = trueIdx pos m
  | [], _ => by simp [keep, trueIdx]
  | true :: bs, pos => by simp [keep, trueIdx, List.range'_succ, keep_range' bs (pos + 1)]
  | false :: bs, pos => by simp [keep, trueIdx, List.range'_succ, keep_range' bs (pos + 1)]

/-- keeping rows by a mask = the rows at the mask's `True` positions. -/
theorem keep_rows (nt ne : Nat) (values : List Int) (hv : values.length = ne * nt) (mask : List Bool)
    (hlen : mask.length = ne) :
    keep (rows nt ne values) mask = (trueIdx 0 mask).map (rowAt values nt) := by
  rw [rows_eq nt ne values hv, keep_map, List.range_eq_range', ← hlen, keep_range']

theorem offset_lt {p t ne nt : Nat} (hp : p < ne) (ht : t < nt) : p * nt + t < ne * nt := by
  have : (p + 1) * nt ≤ ne * nt := Nat.mul_le_mul_right nt hp
  rw [Nat.succ_mul] at this
  omega


theorem flatMap_congr' {α β} {f g : α → List β} : ∀ (l : List α), (∀ x ∈ l, f x = g x) → l.flatMap f = l.flatMap g
  | [], _ => rfl
  | x :: xs, h => by
    simp only [List.flatMap_cons, h x (by simp), flatMap_congr' xs (fun y hy => h y (by simp [hy]))]

/-- the samples a boolean mask on the epoch axis of an `(ne, 1, nt)` index-valued array selects. -/
theorem mask_offsets (ne nt : Nat) (mask : List Bool) (hlen : mask.length = ne) :
    pick (List.range (prod [ne, 1, nt])) (cart [(trueIdx 0 mask).map (· * (1 * nt)), axis 1 nt, axis nt 1]) =
      (trueIdx 0 mask).flatMap fun p => (List.range nt).map (p * nt + ·) := by
  have hc : cart [axis 1 nt, axis nt 1] = List.range nt := by rw [cart_std2]; simp
  rw [cart_cons, hc]
  simp only [pick, List.flatMap_map, List.map_flatMap, List.map_map, Nat.one_mul]
  apply flatMap_congr'
  intro p hp
  apply List.map_congr_left
  intro t ht
  have hp' : p < ne := by have := trueIdx_lt mask 0 p hp; omega
  have := offset_lt hp' (List.mem_range.1 ht)
  simp [prod, List.getD, List.getElem?_range, this]

end Psi.Reject
