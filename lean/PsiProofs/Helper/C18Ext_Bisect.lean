import PsiModel.EpochsExt
/-! EXT18 helper: on a sorted column the binary search returns the number of entries `< t`. -/
namespace Psi.EpochsExt

theorem countLt_of_split (l : List Int) (t : Int) (r : Nat) (hr : r ≤ l.length)
    (h1 : ∀ i (h : i < l.length), i < r → l[i] < t)
    (h2 : ∀ i (h : i < l.length), r ≤ i → ¬ l[i] < t) : countLt l t = r := by
  unfold countLt
  have hsplit : List.countP (fun v => decide (v < t)) l =
      List.countP (fun v => decide (v < t)) (l.take r ++ l.drop r) := by rw [List.take_append_drop]
  rw [hsplit, List.countP_append]
  have ha : (l.take r).countP (fun v => decide (v < t)) = (l.take r).length := by
    rw [List.countP_eq_length]
    intro a ha
    obtain ⟨i, hi, rfl⟩ := List.mem_iff_getElem.mp ha
    rw [List.getElem_take]
    simp only [List.length_take] at hi
    simpa using h1 i (by omega) (by omega)
  have hb : (l.drop r).countP (fun v => decide (v < t)) = 0 := by
    rw [List.countP_eq_zero]
    intro a ha
    obtain ⟨i, hi, rfl⟩ := List.mem_iff_getElem.mp ha
    rw [List.getElem_drop]
    simp only [List.length_drop] at hi
    simpa using h2 (r + i) (by omega) (by omega)
  rw [ha, hb, List.length_take]
  omega

theorem bisectGo_spec (l : List Int) (t : Int) (hs : l.Pairwise (· ≤ ·)) :
    ∀ (fuel lo hi : Nat), lo ≤ hi → hi ≤ l.length → hi - lo < fuel →
      (∀ i (h : i < l.length), i < lo → l[i] < t) →
      (∀ i (h : i < l.length), hi ≤ i → ¬ l[i] < t) →
      (∀ i (h : i < l.length), i < bisectGo l.toArray t fuel lo hi → l[i] < t) ∧
      (∀ i (h : i < l.length), bisectGo l.toArray t fuel lo hi ≤ i → ¬ l[i] < t) ∧
      bisectGo l.toArray t fuel lo hi ≤ l.length := by
  have hsort := List.pairwise_iff_getElem.mp hs
  intro fuel
  induction fuel with
  | zero => intro lo hi _ _ h; omega
  | succ fuel ih =>
    intro lo hi hle hhi hf hlo hhi'
    unfold bisectGo
    by_cases hlt : lo < hi
    · simp only [hlt, if_true]
      have hmid : lo + (hi - lo) / 2 < l.length := by omega
      have hget : l.toArray[lo + (hi - lo) / 2]? = some l[lo + (hi - lo) / 2] := by
        simp [List.getElem?_eq_getElem hmid]
      simp only [hget]
      by_cases hv : l[lo + (hi - lo) / 2] < t
      · simp only [hv, if_true]
        apply ih (lo + (hi - lo) / 2 + 1) hi (by omega) hhi (by omega) _ hhi'
        intro i h hi'
        rcases Nat.lt_or_ge i (lo + (hi - lo) / 2) with h' | h'
        · have := hsort i (lo + (hi - lo) / 2) h hmid h'
          omega
        · have : i = lo + (hi - lo) / 2 := by omega
          subst this
          exact hv
      · simp only [hv, if_false]
        apply ih lo (lo + (hi - lo) / 2) (by omega) (by omega) (by omega) hlo
        intro i h hi'
        rcases Nat.lt_or_ge (lo + (hi - lo) / 2) i with h' | h'
        · have := hsort (lo + (hi - lo) / 2) i hmid h h'
          omega
        · have : i = lo + (hi - lo) / 2 := by omega
          subst this
          exact hv
    · simp only [hlt, if_false]
      have : lo = hi := by omega
      subst this
      exact ⟨hlo, hhi', by omega⟩

theorem bisectLeft_eq_countLt' (l : List Int) (t : Int) (hs : l.Pairwise (· ≤ ·)) :
    bisectLeft l t = countLt l t := by
  have h := bisectGo_spec l t hs (l.length + 1) 0 l.length (by omega) (by omega) (by omega)
    (by intro i _ h; omega) (by intro i h h'; omega)
  exact (countLt_of_split l t _ h.2.2 h.1 h.2.1).symm

end Psi.EpochsExt
