import PsiProofs.Helper.C02_Frame
/-! Block lemmas: what `j` consecutive ticks do in each phase (paused, inside a source, inside a
delay, exhausted queue). -/
namespace Psi.Queue

theorem zeros_succ (n : Nat) : zeros (n + 1) = Cell.Z :: zeros n := by
  simp [zeros, List.replicate_succ]

theorem wave_succ (key off n : Nat) : wave key off (n + 1) = Cell.W key off :: wave key (off + 1) n := by
  simp [wave, List.range_succ_eq_map, List.map_map, Function.comp_def]
  intro a _; omega

@[simp] theorem wave_zero (key off : Nat) : wave key off 0 = [] := by simp [wave]
@[simp] theorem zeros_zero : zeros 0 = [] := rfl
@[simp] theorem wave_length (key off n : Nat) : (wave key off n).length = n := by simp [wave]
@[simp] theorem zeros_length (n : Nat) : (zeros n).length = n := by simp [zeros]

theorem runTicks_add (j m : Nat) (s : QState) :
    runTicks (j + m) s =
      match runTicks j s with
      | .error e => .error e
      | .ok (c1, s1) =>
        match runTicks m s1 with
        | .error e => .error e
        | .ok (c2, s2) => .ok (c1 ++ c2, s2) := by
  induction j generalizing s with
  | zero =>
    simp only [Nat.zero_add, runTicks]
    cases runTicks m s with
    | error e => rfl
    | ok r => cases r; simp
  | succ j ih =>
    rw [Nat.add_right_comm]
    simp only [runTicks]
    cases tick s with
    | error e => rfl
    | ok r =>
      obtain ⟨c, s1⟩ := r
      simp only [ih s1]
      cases runTicks j s1 with
      | error e => rfl
      | ok r =>
        obtain ⟨c1, s2⟩ := r
        simp only
        cases runTicks m s2 with
        | error e => rfl
        | ok r => obtain ⟨c2, s3⟩ := r; simp

theorem runTicks_paused (j : Nat) (s : QState) (hp : s.paused = true) :
    runTicks j s = .ok (zeros j, { s with samples := s.samples + j }) := by
  induction j generalizing s with
  | zero => simp [runTicks]
  | succ j ih =>
    simp only [runTicks, tick, hp, if_true]
    rw [ih (bump s) (by simp [bump, hp])]
    simp only [zeros_succ, bump, Except.ok.injEq, Prod.mk.injEq, true_and]
    congr 1; push_cast; omega

theorem runTicks_src (j : Nat) (s : QState) (src : Src) (hp : s.paused = false)
    (hs : s.source = some src) (hle : src.off + j + 1 ≤ src.len) :
    runTicks (j + 1) s = .ok (wave src.key src.off (j + 1),
      { s with source := if src.gen && src.off + (j + 1) ≥ src.len then none
                         else some { src with off := src.off + (j + 1) },
               samples := s.samples + (j + 1 : Nat) }) := by
  induction j generalizing s src with
  | zero =>
    have : src.off < src.len := by omega
    simp [runTicks, tick, hp, hs, this, emitSrc, bump, wave_succ]
  | succ j ih =>
    have h1 : src.off < src.len := by omega
    have h2 : ¬ (src.off + 1 ≥ src.len) := by omega
    rw [runTicks]
    simp only [tick, hp, hs, h1, emitSrc, if_true, Bool.false_eq_true, if_false, h2, decide_false,
      Bool.and_false]
    rw [ih _ { src with off := src.off + 1 } (by simp [bump]) (by simp [bump]) (by simp; omega)]
    simp only [bump, wave_succ, Except.ok.injEq, Prod.mk.injEq, true_and]
    have e1 : src.off + 1 + (j + 1) = src.off + (j + 1 + 1) := by omega
    simp only [e1]
    congr 1; push_cast; omega

theorem runTicks_delay (j : Nat) (s : QState) (hp : s.paused = false) (hs : s.source = none)
    (hd : (j : Int) ≤ s.delaySamples) :
    runTicks j s = .ok (zeros j, { s with delaySamples := s.delaySamples - j,
                                          samples := s.samples + j }) := by
  induction j generalizing s with
  | zero => simp [runTicks]
  | succ j ih =>
    have hpos : s.delaySamples > 0 := by omega
    simp only [runTicks, tick, hp, hs, afterSource, hpos, if_true, Bool.false_eq_true, if_false]
    rw [ih _ (by simp [bump]) (by simp [bump]) (by simp [bump]; omega)]
    simp only [bump, zeros_succ, Except.ok.injEq, Prod.mk.injEq, true_and]
    congr 1 <;> (push_cast; omega)

end Psi.Queue
