import PsiProofs.Helper.C05_Track
/-! Helper for C05: whole runs — the per-request delivery spec and the refinement induction. -/
namespace Psi.Extract

/-- **Spec.**  `r` is live (pending, or becoming visible) at the first call of `ops`, `T` samples
have been acquired before it.  For each call: is `r`'s epoch delivered there?  Removal wins over
data of the same call; the epoch is delivered in the first call that brings its last sample. -/
def specDeliver {α} (r : Request) : Nat → List (Op α) → List Bool
  | _, [] => []
  | T, op :: ops =>
    if r.key ∈ op.rems then false :: ops.map (fun _ => false)
    else if r.s.toNat + r.len ≤ T + op.chunk.length then true :: ops.map (fun _ => false)
    else false :: specDeliver r (T + op.chunk.length) ops

/-- **Spec.**  Is `r` still being captured after the calls `ops`? -/
def specPending {α} (r : Request) : Nat → List (Op α) → Bool
  | _, [] => true
  | T, op :: ops =>
    if r.key ∈ op.rems then false
    else if r.s.toNat + r.len ≤ T + op.chunk.length then false
    else specPending r (T + op.chunk.length) ops

def emit {α} (S : List α) (r : Request) (b : Bool) : List (Epoch α) := if b then [epochOf S r] else []

theorem run_append {α} (st : State α) (a b : List (Op α)) :
    run st (a ++ b) = ((run (run st a).1 b).1, (run st a).2 ++ (run (run st a).1 b).2) := by
  induction a generalizing st with
  | nil => simp [run]
  | cons op ops ih => simp [run, ih]

theorem run_length {α} (st : State α) (ops : List (Op α)) : (run st ops).2.length = ops.length := by
  induction ops generalizing st with
  | nil => rfl
  | cons op ops ih => simp [run, ih]

theorem allValid_append {α} (B L : Nat) (hist a b : List (Op α)) :
    AllValid B L hist (a ++ b) ↔ AllValid B L hist a ∧ AllValid B L (hist ++ a) b := by
  induction a generalizing hist with
  | nil => simp [AllValid]
  | cons op ops ih =>
    simp only [List.cons_append, AllValid, ih, and_assoc]
    have : hist ++ [op] ++ ops = hist ++ op :: ops := by simp
    rw [this]

theorem chunksOf_split {α} (S : List α) (a : Nat) (l m : List (Op α)) (h : ChunksOf S a (l ++ m)) :
    ChunksOf S a l ∧ ChunksOf S (a + total l) m := by
  induction l generalizing a with
  | nil => simpa [ChunksOf, total] using h
  | cons op ops ih =>
    simp only [List.cons_append, ChunksOf] at h ⊢
    obtain ⟨h1, h2⟩ := ih _ h.2.2
    refine ⟨⟨h.1, h.2.1, h1⟩, ?_⟩
    simpa [total, Nat.add_assoc] using h2

theorem chunksOf_streamOf {α} (P : List α) (ops : List (Op α)) :
    ChunksOf (P ++ streamOf ops) P.length ops := by
  induction ops generalizing P with
  | nil => trivial
  | cons op ops ih =>
    simp only [ChunksOf, streamOf, List.map_cons, List.flatten_cons]
    refine ⟨?_, by simp, ?_⟩
    · simp [slice]
    · have := ih (P ++ op.chunk)
      simpa [streamOf, List.append_assoc] using this

/-- a run over a valid continuation keeps the invariant and delivers only exact epochs -/
theorem run_inv {α} (S : List α) (B L : Nat) (ops hist : List (Op α)) (st : State α)
    (hinv : Inv S B L hist st) (hv : AllValid B L hist ops) (hc : ChunksOf S (total hist) ops) :
    Inv S B L (hist ++ ops) (run st ops).1 ∧
    (∀ out ∈ (run st ops).2, ∃ batch fired, out = .ok batch fired ∧
        ∀ e ∈ batch, EpochOK S L (allReqs (hist ++ ops)) e) := by
  induction ops generalizing hist st with
  | nil => simp [run]; exact hinv
  | cons op rest ih =>
    simp only [AllValid] at hv
    simp only [ChunksOf] at hc
    obtain ⟨hstep, hinv', hb⟩ := step_spec S B L hist st op hinv hv.1 hc.1 hc.2.1
    have hc' : ChunksOf S (total (hist ++ [op])) rest := by
      rw [total_append, total_single]; exact hc.2.2
    obtain ⟨i1, i2⟩ := ih (hist ++ [op]) (step st op).1 hinv' hv.2 hc'
    have happ : hist ++ [op] ++ rest = hist ++ op :: rest := by simp
    simp only [run]
    refine ⟨by rw [← happ]; exact i1, ?_⟩
    intro out hout
    rcases List.mem_cons.1 hout with h | h
    · refine ⟨batchOf st op, fireOf st op, by rw [h, hstep], ?_⟩
      intro e he
      obtain ⟨e1, e2, e3⟩ := hb e he
      refine ⟨e1, ?_, e3⟩
      rw [← happ, allReqs_append]; exact List.mem_append_left _ e2
    · obtain ⟨batch, fired, ho, hall⟩ := i2 out h
      exact ⟨batch, fired, ho, by rw [← happ]; exact hall⟩

/-- a key that is not pending and never requested stays silent -/
theorem run_idle {α} (S : List α) (B L : Nat) (k : Nat) (ops hist : List (Op α)) (st : State α)
    (hinv : Inv S B L hist st) (hv : AllValid B L hist ops) (hc : ChunksOf S (total hist) ops)
    (hpk : pendK st k = []) (hno : ∀ op ∈ ops, ∀ q ∈ op.reqs, q.key ≠ k) :
    (run st ops).2.map (delivK k) = ops.map (fun _ => []) ∧ pendK (run st ops).1 k = [] := by
  induction ops generalizing hist st with
  | nil => simp [run, hpk]
  | cons op rest ih =>
    simp only [AllValid] at hv
    simp only [ChunksOf] at hc
    obtain ⟨_, hinv', _⟩ := step_spec S B L hist st op hinv hv.1 hc.1 hc.2.1
    obtain ⟨h1, h2⟩ := step_idle S B L hist st op k hinv hv.1 hc.1 hc.2.1 hpk (hno op List.mem_cons_self)
    have hc' : ChunksOf S (total (hist ++ [op])) rest := by
      rw [total_append, total_single]; exact hc.2.2
    obtain ⟨i1, i2⟩ := ih (hist ++ [op]) (step st op).1 hinv' hv.2 hc' h2
      (fun o ho => hno o (List.mem_cons_of_mem _ ho))
    simp only [run, List.map_cons, h1, i1]
    exact ⟨trivial, i2⟩

/-- **Refinement, one request.**  From the call in which `r` is live onwards, the epochs delivered
under `r`'s key are exactly those of the spec. -/
theorem run_live {α} (S : List α) (B L : Nat) (r : Request) (rest hist : List (Op α)) (op : Op α) (st : State α)
    (hinv : Inv S B L hist st) (hv : AllValid B L hist (op :: rest))
    (hc : ChunksOf S (total hist) (op :: rest))
    (hlive : Live st op r) (hno : ∀ o ∈ rest, ∀ q ∈ o.reqs, q.key ≠ r.key) :
    (run st (op :: rest)).2.map (delivK r.key) =
      (specDeliver r (total hist) (op :: rest)).map (emit S r) ∧
    (pendK (run st (op :: rest)).1 r.key = [] ↔ specPending r (total hist) (op :: rest) = false) := by
  induction rest generalizing hist st op with
  | nil =>
    simp only [AllValid] at hv
    simp only [ChunksOf] at hc
    obtain ⟨l1, l2, l3⟩ := step_live S B L hist st op r hinv hv.1 hc.1 hc.2.1 hlive
    simp only [run, specDeliver, specPending, List.map_cons, List.map_nil]
    by_cases hk : r.key ∈ op.rems
    · obtain ⟨a, b⟩ := l1 hk
      simp [hk, a, b, emit]
    · by_cases hle : r.s.toNat + r.len ≤ total hist + op.chunk.length
      · obtain ⟨a, b⟩ := l2 hk hle
        simp [hk, hle, a, b, emit]
      · obtain ⟨a, c', b, _⟩ := l3 hk (by omega)
        simp [hk, hle, a, b, emit]
  | cons op2 rest2 ih =>
    simp only [AllValid] at hv
    simp only [ChunksOf] at hc
    obtain ⟨_, hinv', _⟩ := step_spec S B L hist st op hinv hv.1 hc.1 hc.2.1
    obtain ⟨l1, l2, l3⟩ := step_live S B L hist st op r hinv hv.1 hc.1 hc.2.1 hlive
    have hv' : AllValid B L (hist ++ [op]) (op2 :: rest2) := by simp only [AllValid]; exact hv.2
    have hc' : ChunksOf S (total (hist ++ [op])) (op2 :: rest2) := by
      rw [total_append, total_single]; simp only [ChunksOf]; exact hc.2.2
    have hT : total (hist ++ [op]) = total hist + op.chunk.length := by rw [total_append, total_single]
    by_cases hk : r.key ∈ op.rems
    · obtain ⟨a, b⟩ := l1 hk
      obtain ⟨i1, i2⟩ := run_idle S B L r.key (op2 :: rest2) (hist ++ [op]) (step st op).1 hinv' hv' hc' b hno
      rw [show run st (op :: op2 :: rest2) = ((run (step st op).1 (op2 :: rest2)).1,
            (step st op).2 :: (run (step st op).1 (op2 :: rest2)).2) from rfl]
      simp only [List.map_cons, a, i1, i2]
      simp [specDeliver, specPending, hk, emit]
    · by_cases hle : r.s.toNat + r.len ≤ total hist + op.chunk.length
      · obtain ⟨a, b⟩ := l2 hk hle
        obtain ⟨i1, i2⟩ := run_idle S B L r.key (op2 :: rest2) (hist ++ [op]) (step st op).1 hinv' hv' hc' b hno
        rw [show run st (op :: op2 :: rest2) = ((run (step st op).1 (op2 :: rest2)).1,
              (step st op).2 :: (run (step st op).1 (op2 :: rest2)).2) from rfl]
        simp only [List.map_cons, a, i1, i2]
        simp [specDeliver, specPending, hk, hle, emit]
      · obtain ⟨a, c', b, hb⟩ := l3 hk (by omega)
        have hlive' : Live (step st op).1 op2 r := Or.inl ⟨c', b, hb⟩
        obtain ⟨i1, i2⟩ := ih (hist ++ [op]) op2 (step st op).1 hinv' hv' hc' hlive'
          (fun o ho => hno o (List.mem_cons_of_mem _ ho))
        rw [show run st (op :: op2 :: rest2) = ((run (step st op).1 (op2 :: rest2)).1,
              (step st op).2 :: (run (step st op).1 (op2 :: rest2)).2) from rfl]
        rw [hT] at i1 i2
        constructor
        · simp only [List.map_cons, a, i1]
          conv => rhs; rw [specDeliver]
          simp [hk, hle, emit]
        · rw [i2]
          conv => rhs; rw [specPending]
          simp [hk, hle]

end Psi.Extract
