import PsiProofs.Helper.C05_SeqDefs
/-!
Helper for C05, per-request form: one call and whole runs of `extract_epochs` on a history whose
keys may be re-used (`OpValidSeq`), projected on one key.
-/
namespace Psi.Extract

/-- the model's captures pending under each key are the spec's open requests -/
def OpenLink {α} (hist : List (Op α)) (st : State α) : Prop :=
  ∀ κ, (pendK st κ).map (·.req) = (openAfter κ hist).toList

def takenSeq {α} (st : State α) (op : Op α) : List Request := takeSkip (skipOf st op) op.reqs
def pendingSeq {α} (st : State α) (op : Op α) : Pending α :=
  (keptOf st op).filterMap (feedMore st.tlb op.chunk) ++ (takenSeq st op).filterMap (intakeMore (prior1Of st op))
def batchSeq {α} (st : State α) (op : Op α) : List (Epoch α) :=
  (keptOf st op).filterMap (feedStop st.tlb op.chunk) ++ (takenSeq st op).filterMap (intakeStop (prior1Of st op))
def fireSeq {α} (st : State α) (op : Op α) : Bool :=
  op.complete && (pendingSeq st op).isEmpty && !st.doneFired
def nextSeq {α} (B : Nat) (hist : List (Op α)) (st : State α) (op : Op α) : State α :=
  { st with tlb := st.tlb + op.chunk.length, pending := pendingSeq st op,
            prior := prune B (total (hist ++ [op])) (withStarts 0 (hist ++ [op])),
            queue := [], doneFired := st.doneFired || fireSeq st op }

theorem intake_facts_vis {α} (S : List α) (B L : Nat) (hist : List (Op α)) (st : State α) (op : Op α)
    (hinv : Inv S B L hist st)
    (hch : op.chunk = slice S (total hist) op.chunk.length) (r : Request)
    (hvis : ((lookbackStart B hist : Nat) : Int) ≤ r.s) :
      (r.s.toNat + r.len ≤ total hist + op.chunk.length →
        intakeStop (prior1Of st op) r = some (epochOf S r) ∧ intakeMore (prior1Of st op) r = none) ∧
      (total hist + op.chunk.length < r.s.toNat + r.len →
        intakeStop (prior1Of st op) r = none ∧
          ∃ c', intakeMore (prior1Of st op) r = some c' ∧ c'.req = r ∧
            CapInv S (total hist + op.chunk.length) c') := by
  have hT := hinv.tlb
  have hcontig0 : Contig S (lookbackStart B hist) st.prior (total hist) := by
    rw [hinv.prior]
    have := contig_withStarts S 0 hist hinv.chunks
    simp only [Nat.zero_add] at this
    exact contig_dropWhile S 0 (total hist) _ _ this
  have hcontig : Contig S (lookbackStart B hist) (prior1Of st op) (total hist + op.chunk.length) := by
    apply contig_append S _ (total hist) _ _ _ hcontig0
    simp only [Contig, hT]
    exact ⟨trivial, hch, trivial⟩
  have hne : prior1Of st op ≠ [] := by simp [prior1Of]
  have hs : r.s = ((r.s.toNat : Nat) : Int) := by omega
  have hle : lookbackStart B hist ≤ r.s.toNat := by omega
  constructor
  · intro h
    exact intake_done S _ _ _ r _ hne hcontig hs hle h
  · intro h
    exact intake_cont S _ _ _ r _ hcontig hs hle h

/-- projection of the candidate pending list and batch of one call on one key -/
theorem seq_project {α} (st : State α) (op : Op α) (κ : Nat) :
    (pendingSeq st op).filter (fun c => c.req.key == κ) =
      ((if (!op.rems.contains κ) then pendK st κ else []).filterMap (feedMore st.tlb op.chunk)) ++
      (((addsK κ op).drop ((skipOf st op).count κ)).filterMap (intakeMore (prior1Of st op))) ∧
    (batchSeq st op).filter (fun e => e.req.key == κ) =
      ((if (!op.rems.contains κ) then pendK st κ else []).filterMap (feedStop st.tlb op.chunk)) ++
      (((addsK κ op).drop ((skipOf st op).count κ)).filterMap (intakeStop (prior1Of st op))) := by
  have e1 : ((keptOf st op).filterMap (feedMore st.tlb op.chunk)).filter (fun c => c.req.key == κ) =
      ((keptOf st op).filter (fun c => c.req.key == κ)).filterMap (feedMore st.tlb op.chunk) :=
    filter_key_filterMap _ _ (fun c : Capture α => c.req.key) (fun c : Capture α => c.req.key) _
      (fun c _ c' hf => by rw [feedMore_req _ _ _ _ hf])
  have e2 : ((keptOf st op).filterMap (feedStop st.tlb op.chunk)).filter (fun e => e.req.key == κ) =
      ((keptOf st op).filter (fun c => c.req.key == κ)).filterMap (feedStop st.tlb op.chunk) :=
    filter_key_filterMap _ _ (fun c : Capture α => c.req.key) (fun e : Epoch α => e.req.key) _
      (fun c _ e hf => by rw [feedStop_req _ _ _ _ hf])
  have e3 : ((takenSeq st op).filterMap (intakeMore (prior1Of st op))).filter (fun c => c.req.key == κ) =
      ((takenSeq st op).filter (fun q => q.key == κ)).filterMap (intakeMore (prior1Of st op)) :=
    filter_key_filterMap _ _ (fun q : Request => q.key) (fun c : Capture α => c.req.key) _
      (fun q _ c' hf => by rw [intakeMore_req _ _ _ hf])
  have e4 : ((takenSeq st op).filterMap (intakeStop (prior1Of st op))).filter (fun e => e.req.key == κ) =
      ((takenSeq st op).filter (fun q => q.key == κ)).filterMap (intakeStop (prior1Of st op)) :=
    filter_key_filterMap _ _ (fun q : Request => q.key) (fun e : Epoch α => e.req.key) _
      (fun q _ e hf => by rw [intakeStop_req _ _ _ hf])
  have k1 : (keptOf st op).filter (fun c => c.req.key == κ) =
      if (!op.rems.contains κ) then pendK st κ else [] :=
    filter_filter_key st.pending (fun c : Capture α => c.req.key) (fun k => !op.rems.contains k) κ
  have k2 : (takenSeq st op).filter (fun q => q.key == κ) = (addsK κ op).drop ((skipOf st op).count κ) :=
    takeSkip_filter _ _ κ
  simp only [pendingSeq, batchSeq, List.filter_append, e1, e2, e3, e4, k1, k2]
  exact ⟨trivial, trivial⟩

/-- **one call, one key**: what the candidate pending list and batch hold under `κ` -/
theorem seq_key {α} (S : List α) (B L : Nat) (hist : List (Op α)) (st : State α) (op : Op α)
    (hinv : Inv S B L hist st) (hopen : OpenLink hist st) (hv : OpValidSeq B L hist op)
    (hch : op.chunk = slice S (total hist) op.chunk.length) (κ : Nat) :
    ((pendingSeq st op).filter (fun c => c.req.key == κ)).map (·.req) =
        (keyNext κ (total hist) (openAfter κ hist) op).toList ∧
    (batchSeq st op).filter (fun e => e.req.key == κ) =
        (keyEmit κ (total hist) (openAfter κ hist) op).toList.map (epochOf S) ∧
    (∀ c' ∈ (pendingSeq st op).filter (fun c => c.req.key == κ),
        CapInv S (total hist + op.chunk.length) c') := by
  obtain ⟨p1, p2⟩ := seq_project st op κ
  have hlink := hopen κ
  -- the skip count is the spec's
  have hhas : hasKey st.pending κ = (openAfter κ hist).isSome := by
    cases ho : openAfter κ hist with
    | none =>
      rw [ho] at hlink
      have : pendK st κ = [] := by simpa using hlink
      simp only [Option.isSome_none]
      rw [hasKey_false_iff]
      intro c hc he
      have : c ∈ pendK st κ := List.mem_filter.2 ⟨hc, by simpa using he⟩
      rw [‹pendK st κ = []›] at this; cases this
    | some r0 =>
      rw [ho] at hlink
      simp only [Option.isSome_some]
      cases hp : pendK st κ with
      | nil => rw [hp] at hlink; simp at hlink
      | cons c cs =>
        have hc : c ∈ pendK st κ := by rw [hp]; exact List.mem_cons_self
        have := List.mem_filter.1 hc
        simp only [hasKey, List.any_eq_true]
        exact ⟨c, this.1, this.2⟩
  have hskip : (skipOf st op).count κ = skipCount κ (openAfter κ hist) op := by
    simp only [skipOf, skipCount, removeAll_skip_count, hhas]
  have hdrop : (addsK κ op).drop ((skipOf st op).count κ) = takenK κ (openAfter κ hist) op := by
    rw [hskip]; rfl
  rw [hdrop] at p1 p2
  obtain ⟨hle1, hkeptnone⟩ := hv.reuse κ
  have hT := hinv.tlb
  cases htk : takenK κ (openAfter κ hist) op with
  | nil =>
    rw [htk] at p1 p2
    simp only [List.filterMap_nil, List.append_nil] at p1 p2
    rw [p1, p2]
    simp only [keyNext, keyEmit, htk, keptK]
    by_cases hk : κ ∈ op.rems
    · have : (!op.rems.contains κ) = false := by simpa using hk
      simp only [this, Bool.false_eq_true, if_false, List.filterMap_nil, hk, if_true]
      exact ⟨rfl, rfl, by intro c' hc'; cases hc'⟩
    · have : (!op.rems.contains κ) = true := by simpa using hk
      simp only [this, if_true, hk, if_false]
      cases ho : openAfter κ hist with
      | none =>
        rw [ho] at hlink
        have hp : pendK st κ = [] := by simpa using hlink
        simp only [hp, List.filterMap_nil]
        exact ⟨rfl, rfl, by intro c' hc'; cases hc'⟩
      | some r0 =>
        rw [ho] at hlink
        obtain ⟨c, hp, hcr⟩ : ∃ c, pendK st κ = [c] ∧ c.req = r0 := by
          cases hp : pendK st κ with
          | nil => rw [hp] at hlink; simp at hlink
          | cons c cs =>
            rw [hp] at hlink
            simp only [List.map_cons, Option.toList] at hlink
            have h1 := List.cons.inj hlink
            have : cs = [] := by simpa using h1.2
            exact ⟨c, by rw [this], h1.1⟩
        have hcmem : c ∈ st.pending := by
          have : c ∈ pendK st κ := by rw [hp]; exact List.mem_singleton_self c
          exact (List.mem_filter.1 this).1
        have hcap := hinv.caps c hcmem
        simp only [hp, List.filterMap_cons, List.filterMap_nil, hT, Option.filter]
        by_cases hd : r0.s.toNat + r0.len ≤ total hist + op.chunk.length
        · have hd' := feedStop_done S (total hist) _ op.chunk c hch rfl hcap.1 (by rw [hcr]; exact hd)
          have hda : doneAt r0 (total hist + op.chunk.length) = true := by simpa [doneAt] using hd
          simp only [hd'.1, hd'.2, hda, hcr]
          exact ⟨rfl, rfl, by intro c' hc'; cases hc'⟩
        · obtain ⟨h1, c', h2, h3, h4⟩ := feedMore_cont S (total hist) _ op.chunk c hch rfl hcap.1
            (by rw [hcr]; omega)
          have hda : doneAt r0 (total hist + op.chunk.length) = false := by simpa [doneAt] using hd
          simp only [h1, h2, hda]
          refine ⟨by simp [h3, hcr], rfl, ?_⟩
          intro c'' hc''
          simp only [List.mem_singleton] at hc''
          rw [hc'']; exact h4
  | cons r rest =>
    have hrest : rest = [] := by
      rw [htk] at hle1
      simp only [List.length_cons] at hle1
      exact List.length_eq_zero_iff.1 (by omega)
    subst hrest
    have hkn := hkeptnone (by rw [htk]; simp)
    -- nothing is left under the key after the removals
    have hkeptnil : (if (!op.rems.contains κ) = true then pendK st κ else []) = [] := by
      unfold keptK at hkn
      by_cases hk : κ ∈ op.rems
      · have : (!op.rems.contains κ) = false := by simpa using hk
        simp only [this, Bool.false_eq_true, if_false]
      · simp only [hk, if_false] at hkn
        rw [hkn] at hlink
        have hp : pendK st κ = [] := by simpa using hlink
        simp [hp]
    rw [htk, hkeptnil] at p1 p2
    simp only [List.filterMap_nil, List.nil_append, List.filterMap_cons] at p1 p2
    rw [p1, p2]
    have hrmem : r ∈ op.reqs := (takenK_sub κ _ op r (by rw [htk]; exact List.mem_cons_self)).1
    have hfacts := intake_facts_vis S B L hist st op hinv hch r (hv.visible r hrmem)
    simp only [keyNext, keyEmit, htk]
    by_cases hd : r.s.toNat + r.len ≤ total hist + op.chunk.length
    · obtain ⟨h1, h2⟩ := hfacts.1 hd
      have hda : doneAt r (total hist + op.chunk.length) = true := by simpa [doneAt] using hd
      simp only [h1, h2, hda, if_true]
      exact ⟨rfl, rfl, by intro c' hc'; cases hc'⟩
    · obtain ⟨h1, c', h2, h3, h4⟩ := hfacts.2 (by omega)
      have hda : doneAt r (total hist + op.chunk.length) = false := by simpa [doneAt] using hd
      simp only [h1, h2, hda]
      refine ⟨by simp [h3], rfl, ?_⟩
      intro c'' hc''
      simp only [List.mem_singleton] at hc''
      rw [hc'']; exact h4

/-- **one call** on a history with re-usable keys: explicit result, invariants, per-key batch -/
theorem step_seq {α} (S : List α) (B L : Nat) (hist : List (Op α)) (st : State α) (op : Op α)
    (hinv : Inv S B L hist st) (hopen : OpenLink hist st) (hv : OpValidSeq B L hist op)
    (hch : op.chunk = slice S (total hist) op.chunk.length)
    (hbound : total hist + op.chunk.length ≤ S.length) :
    step st op = (nextSeq B hist st op, .ok (batchSeq st op) (fireSeq st op)) ∧
    Inv S B L (hist ++ [op]) (step st op).1 ∧ OpenLink (hist ++ [op]) (step st op).1 ∧
    (∀ e ∈ batchSeq st op, EpochOK S L (allReqs (hist ++ [op])) e) ∧
    (∀ κ, delivK κ (step st op).2 =
      (keyEmit κ (total hist) (openAfter κ hist) op).toList.map (epochOf S)) := by
  have hT := hinv.tlb
  have hkey := seq_key S B L hist st op hinv hopen hv hch
  have hkept : ∀ c ∈ keptOf st op, CapInv S (total hist) c ∧ c.req.len = L ∧ c.req ∈ allReqs hist :=
    fun c hc => hinv.caps c (List.mem_filter.1 hc).1
  have hfeedMore : ∀ c ∈ keptOf st op, ∀ c', feedMore st.tlb op.chunk c = some c' → c'.req = c.req := by
    intro c _ c' hf; exact feedMore_req _ _ _ _ hf
  have hfeedStop : ∀ c ∈ keptOf st op, ∀ e, feedStop st.tlb op.chunk c = some e →
      e = epochOf S c.req ∧ c.req.s.toNat + c.req.len ≤ total hist + op.chunk.length := by
    intro c hc e hf
    rw [hT] at hf
    by_cases hcase : c.req.s.toNat + c.req.len ≤ total hist + op.chunk.length
    · have := (feedStop_done S _ _ _ c hch rfl (hkept c hc).1 hcase).1
      rw [this] at hf; cases hf; exact ⟨rfl, hcase⟩
    · have := (feedMore_cont S _ _ _ c hch rfl (hkept c hc).1 (by omega)).1
      rw [this] at hf; cases hf
  have htaken : ∀ r ∈ takenSeq st op, r ∈ op.reqs := fun r hr => takeSkip_sub _ _ r hr
  have hinStop : ∀ r ∈ takenSeq st op, ∀ e, intakeStop (prior1Of st op) r = some e →
      e = epochOf S r ∧ r.s.toNat + r.len ≤ total hist + op.chunk.length := by
    intro r hr e hf
    have hfacts := intake_facts_vis S B L hist st op hinv hch r (hv.visible r (htaken r hr))
    by_cases hcase : r.s.toNat + r.len ≤ total hist + op.chunk.length
    · rw [(hfacts.1 hcase).1] at hf; cases hf; exact ⟨rfl, hcase⟩
    · rw [(hfacts.2 (by omega)).1] at hf; cases hf
  -- every epoch of the batch
  have hbatch : ∀ e ∈ batchSeq st op, EpochOK S L (allReqs (hist ++ [op])) e := by
    intro e he
    rw [allReqs_append]
    rcases List.mem_append.1 he with h | h
    · obtain ⟨c, hc, hf⟩ := List.mem_filterMap.1 h
      obtain ⟨he1, he2⟩ := hfeedStop c hc e hf
      have hk := hkept c hc
      refine ⟨by rw [he1]; rfl, by rw [he1]; exact List.mem_append_left _ hk.2.2, ?_⟩
      rw [he1]; simp only [epochOf]
      rw [slice_length _ _ _ (by omega), hk.2.1]
    · obtain ⟨r, hr, hf⟩ := List.mem_filterMap.1 h
      obtain ⟨he1, he2⟩ := hinStop r hr e hf
      have hr' := htaken r hr
      refine ⟨by rw [he1]; rfl, ?_, ?_⟩
      · rw [he1]; apply List.mem_append_right; simp [allReqs, epochOf]; exact hr'
      · rw [he1]; simp only [epochOf]
        rw [slice_length _ _ _ (by omega), hv.len r hr']
  have hmerge : mergeOk (batchSeq st op) = true :=
    mergeOk_uniform L _ (fun e he => ⟨by rw [(hbatch e he).1]; rfl, (hbatch e he).2.2⟩)
  -- keys of the new pending list are pairwise distinct
  have hnd : ((pendingSeq st op).map (·.req.key)).Nodup := by
    apply nodup_of_filter_le_one _ (fun c : Capture α => c.req.key)
    intro κ
    have := congrArg List.length (hkey κ).1
    simp only [List.length_map] at this
    rw [this]
    cases keyNext κ (total hist) (openAfter κ hist) op <;> simp
  have hstep : step st op = (nextSeq B hist st op, .ok (batchSeq st op) (fireSeq st op)) := by
    unfold step call
    simp only [hinv.alive, hinv.queue, List.nil_append, List.isEmpty_nil, Bool.and_true,
      Bool.false_eq_true, if_false]
    rw [feedAll_eq, removeAll_pending]
    have hi := intakeAll_seq (prior1Of st op) ((keptOf st op).filterMap (feedMore st.tlb op.chunk))
      (skipOf st op) op.reqs hnd
    simp only [prior1Of, keptOf, skipOf] at hi
    simp only [hi]
    have hm : mergeOk (List.filterMap (feedStop st.tlb op.chunk)
        (List.filter (fun c => !op.rems.contains c.req.key) st.pending) ++
        List.filterMap (intakeStop (st.prior ++ [(st.tlb, op.chunk)]))
          (takeSkip (removeAll st.pending op.rems).snd op.reqs)) = true := hmerge
    simp only [hm, Bool.not_true, Bool.false_eq_true, if_false]
    have hprior : prune st.bufferSamples (st.tlb + op.chunk.length) (st.prior ++ [(st.tlb, op.chunk)]) =
        prune B (total (hist ++ [op])) (withStarts 0 (hist ++ [op])) := by
      rw [hinv.buf, hinv.prior, hT, prune_prune B _ _ _ _ (Nat.le_add_right _ _), withStarts_append,
        total_append, total_single]
      simp [withStarts]
    rw [hprior]
    simp only [nextSeq, pendingSeq, batchSeq, fireSeq, takenSeq, keptOf, skipOf, prior1Of, hinv.alive]
  refine ⟨hstep, ?_, ?_, hbatch, ?_⟩
  · rw [hstep]
    refine ⟨hinv.alive, ?_, hinv.buf, rfl, ?_, hnd, ?_, ?_, rfl⟩
    · simp [nextSeq, hT, total_append, total_single]
    · intro c' hc'
      simp only [total_append, total_single, allReqs_append]
      have hcap : CapInv S (total hist + op.chunk.length) c' :=
        (hkey c'.req.key).2.2 c' (List.mem_filter.2 ⟨hc', by simp⟩)
      refine ⟨hcap, ?_⟩
      rcases List.mem_append.1 hc' with h | h
      · obtain ⟨c, hc, hf⟩ := List.mem_filterMap.1 h
        have h1 := hfeedMore c hc c' hf
        exact ⟨by rw [h1]; exact (hkept c hc).2.1, by rw [h1]; exact List.mem_append_left _ (hkept c hc).2.2⟩
      · obtain ⟨r, hr, hf⟩ := List.mem_filterMap.1 h
        have h1 := intakeMore_req _ _ _ hf
        refine ⟨by rw [h1]; exact hv.len r (htaken r hr), ?_⟩
        rw [h1]; apply List.mem_append_right; simp [allReqs]; exact htaken r hr
    · exact chunksOf_append S 0 hist [op] hinv.chunks
        (by simp only [ChunksOf, Nat.zero_add]; exact ⟨hch, hbound, trivial⟩)
    · simp only [total_append, total_single]; exact hbound
  · intro κ
    rw [hstep, openAfter_snoc]
    exact (hkey κ).1
  · intro κ
    rw [hstep]
    exact (hkey κ).2.1

theorem openLink_init {α} (B : Nat) : OpenLink ([] : List (Op α)) (State.init B) := by
  intro κ; simp [pendK, State.init, openAfter, openK]

/-- a run over a valid continuation (keys re-usable): invariants, exact epochs, and the per-key
refinement of the spec machine -/
theorem run_seq {α} (S : List α) (B L : Nat) (ops hist : List (Op α)) (st : State α)
    (hinv : Inv S B L hist st) (hopen : OpenLink hist st) (hv : AllValidSeq B L hist ops)
    (hc : ChunksOf S (total hist) ops) :
    Inv S B L (hist ++ ops) (run st ops).1 ∧ OpenLink (hist ++ ops) (run st ops).1 ∧
    (∀ out ∈ (run st ops).2, ∃ batch fired, out = .ok batch fired ∧
        ∀ e ∈ batch, EpochOK S L (allReqs (hist ++ ops)) e) ∧
    (∀ κ, (run st ops).2.map (delivK κ) =
      (specReqs κ (total hist) (openAfter κ hist) ops).map (fun o => o.toList.map (epochOf S))) := by
  induction ops generalizing hist st with
  | nil => simp [run, specReqs]; exact ⟨hinv, hopen⟩
  | cons op rest ih =>
    simp only [AllValidSeq] at hv
    simp only [ChunksOf] at hc
    obtain ⟨hstep, hinv', hopen', hb, hk⟩ := step_seq S B L hist st op hinv hopen hv.1 hc.1 hc.2.1
    have hc' : ChunksOf S (total (hist ++ [op])) rest := by
      rw [total_append, total_single]; exact hc.2.2
    obtain ⟨i1, i2, i3, i4⟩ := ih (hist ++ [op]) (step st op).1 hinv' hopen' hv.2 hc'
    have happ : hist ++ [op] ++ rest = hist ++ op :: rest := by simp
    simp only [run]
    refine ⟨by rw [← happ]; exact i1, by rw [← happ]; exact i2, ?_, ?_⟩
    · intro out hout
      rcases List.mem_cons.1 hout with h | h
      · refine ⟨batchSeq st op, fireSeq st op, by rw [h, hstep], ?_⟩
        intro e he
        obtain ⟨e1, e2, e3⟩ := hb e he
        refine ⟨e1, ?_, e3⟩
        rw [← happ, allReqs_append]; exact List.mem_append_left _ e2
      · obtain ⟨batch, fired, ho, hall⟩ := i3 out h
        exact ⟨batch, fired, ho, by rw [← happ]; exact hall⟩
    · intro κ
      simp only [List.map_cons, specReqs, hk κ, i4 κ, openAfter_snoc, total_append, total_single]

end Psi.Extract
