import PsiProofs.Helper.C10_Inv
/-! Distinct results handed out by the repaired wrapper share no storage. -/
namespace Psi.Cache
set_option linter.unusedSectionVars false
variable {κ ω α : Type} [DecidableEq κ] [DecidableEq ω]

/-- Every result is a list of distinct addresses and two different results are disjoint. -/
def Disj (s : State κ ω α) : Prop :=
  (∀ h ∈ s.handles, h.Nodup) ∧ s.handles.Pairwise (fun a b => ∀ x ∈ a, x ∉ b)

theorem copyOut_range {s : State κ ω α} {as : List Nat} {vs : List (List α)}
    (h : readAll s.heap as = some vs) : (copyOut s as).2 = List.range' s.heap.length vs.length := by
  unfold copyOut; rw [h]; rfl

theorem copyOut_nodup (s : State κ ω α) (as : List Nat) : (copyOut s as).2.Nodup := by
  unfold copyOut
  split
  · exact List.nodup_range'
  · exact List.nodup_nil

theorem callRaw_copy_nodup (sg : Sig κ ω α) (s : State κ ω α) (key : Key κ ω) :
    (callRaw .copy sg s key).2.Nodup := by
  cases key with
  | leaf k => exact copyOut_nodup _ _
  | wrap w => simp only [callRaw]; exact copyOut_nodup _ _

theorem call_copy_disj {sg : Sig κ ω α} {s : State κ ω α} (hi : Inv sg s) (hd : Disj s) (key : Key κ ω) :
    Disj (call .copy sg s key) := by
  have c := callRaw_copy_spec hi key
  unfold call
  refine ⟨?_, ?_⟩
  · intro h hh
    simp only [c.ext.handles] at hh
    rcases List.mem_append.mp hh with h1 | h1
    · exact hd.1 h h1
    · rw [List.mem_singleton] at h1; subst h1
      exact callRaw_copy_nodup sg s key
  · simp only [c.ext.handles]
    rw [List.pairwise_append]
    refine ⟨hd.2, List.pairwise_singleton _ _, ?_⟩
    intro a ha b hb x hx hxb
    rw [List.mem_singleton] at hb; subst hb
    have h1 := hi.valid a ha x hx
    have h2 := c.fresh x hxb
    omega

theorem mutate_handles {s s' : State κ ω α} {h c i : Nat} {x : α} (hm : mutate s h c i x = .ok s') :
    s'.handles = s.handles := by
  unfold mutate at hm
  repeat' split at hm
  all_goals first | (cases hm; done) | (cases hm; rfl)

theorem step_copy_disj {sg : Sig κ ω α} {s : State κ ω α} (hi : Inv sg s) (hd : Disj s) (op : Op κ ω α) :
    Disj (step .copy sg s op) := by
  cases op with
  | call k => exact call_copy_disj hi hd k
  | mutate h c i x =>
    simp only [step]
    split
    · rename_i s' hm
      unfold Disj; rw [mutate_handles hm]; exact hd
    · exact hd
  | scribble x => exact hd

theorem run_copy_disj {sg : Sig κ ω α} (ops : List (Op κ ω α)) {s : State κ ω α} (hi : Inv sg s)
    (hd : Disj s) : Disj (run .copy sg ops s) := by
  induction ops generalizing s with
  | nil => exact hd
  | cons op ops ih =>
    unfold run; rw [List.foldl_cons]
    exact ih (step_copy_inv hi op) (step_copy_disj hi hd op)

theorem Disj.init : Disj (State.init : State κ ω α) := by
  refine ⟨?_, ?_⟩
  · intro h hh; simp [State.init] at hh
  · simp [State.init]

theorem Disj.apart {s : State κ ω α} (hd : Disj s) {h h' : Nat} {as bs : List Nat} (hne : h ≠ h')
    (ha : s.handles[h]? = some as) (hb : s.handles[h']? = some bs) : ∀ x ∈ as, x ∉ bs := by
  obtain ⟨h1, e1⟩ := List.getElem?_eq_some_iff.mp ha
  obtain ⟨h2, e2⟩ := List.getElem?_eq_some_iff.mp hb
  have hp := List.pairwise_iff_getElem.mp hd.2
  rcases Nat.lt_or_gt_of_ne hne with hlt | hgt
  · have := hp h h' h1 h2 hlt
    rw [e1, e2] at this; exact this
  · have := hp h' h h2 h1 hgt
    rw [e1, e2] at this
    intro x hx hxb; exact this x hxb hx

/-- A write through one result leaves every other result as it was. -/
theorem mutate_other_handle {s s' : State κ ω α} (hd : Disj s) {h c i : Nat} {x : α}
    (hm : mutate s h c i x = .ok s') {h' : Nat} (hne : h' ≠ h) : readHandle s' h' = readHandle s h' := by
  have hh := mutate_handles hm
  unfold readHandle
  rw [hh]
  cases hb : s.handles[h']? with
  | none => rfl
  | some bs =>
    simp only
    unfold mutate at hm
    split at hm
    · cases hm
    · rename_i as has
      split at hm
      · cases hm
      · rename_i a hac
        split at hm
        · cases hm
        · split at hm
          · cases hm
            have : a ∉ bs := by
              intro hab
              exact hd.apart (Ne.symm hne) has hb a (List.mem_of_getElem? hac) hab
            exact readAll_setCell _ _ this
          · cases hm

end Psi.Cache
