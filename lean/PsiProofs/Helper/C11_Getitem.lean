import PsiProofs.Helper.C11_Basic
/-! Symbolic evaluation of `getitem` on well-formed arrays (one, two, three dimensions) for time slices. -/
set_option linter.unusedSimpArgs false
namespace Psi.PData

theorem listTake_range {α} (l : List α) : listTake l (List.range l.length) = l := by
  unfold listTake
  apply List.ext_getElem?
  intro i
  induction l generalizing i with
  | nil => simp
  | cons x xs ih =>
    simp [List.range_succ_eq_map, List.filterMap_map, Function.comp_def]
    cases i with
    | zero => simp
    | succ j => simpa using ih j

theorem listSlice_all {α} (l : List α) : listSlice l .all = .ok l := by
  simp [listSlice, slicePositions_all]
  exact listTake_range l

/-- `s0` after a positive-step time slice on `n` samples (repaired code). -/
def timeS0 (s0 : Int) (s : PySlice) (n : Nat) : Int := s0 + startNat s n
/-- `fs` after a time slice. -/
def timeFs (fs : Rat) (s : PySlice) : Rat := match s.step with | none => fs | some st => fs / (st : Rat)

theorem fixTime_pos (a obj : PD) (s : PySlice) (k : Int) (hk : 0 < k) (hs : s.step.getD 1 = k) (h0 : obj.s0 = a.s0) :
    fixTime true a obj (.slice s) = .ok { obj with s0 := timeS0 a.s0 s a.nTime, fs := timeFs obj.fs s } := by
  obtain ⟨st, sp, step⟩ := s
  have hk' : ¬ k < 0 := by omega
  have hk0 : ¬ k = 0 := by omega
  cases st with
  | none => cases step <;> simp_all [fixTime, timeS0, timeFs, startNat]
  | some v =>
    have := clampPos_nonneg v a.nTime
    cases step <;> simp_all [fixTime, timeS0, timeFs, startNat] <;> omega

/-- data of an indexing result. -/
def selData (data : List Nat) (sel : NPSel) : List Nat := sel.offsets.map fun o => data.getD o 0

/-- well-formed annotated arrays: what `PipelineData.__new__` builds for 1-, 2- and 3-D data. -/
inductive WF : PD → Prop
  | d1 (n : Nat) (data : List Nat) (s0 : Int) (fs : Rat) (lab : Label) (m : Md) (hd : data.length = n) :
      WF ⟨[n], data, s0, fs, .one lab, .one m⟩
  | d2 (c n : Nat) (data : List Nat) (s0 : Int) (fs : Rat) (l : List Label) (m : Md)
      (hd : data.length = c * n) (hl : l.length = c) :
      WF ⟨[c, n], data, s0, fs, .many l, .one m⟩
  | d3 (e c n : Nat) (data : List Nat) (s0 : Int) (fs : Rat) (l : List Label) (ms : List Md)
      (hd : data.length = e * (c * n)) (hl : l.length = c) (hm : ms.length = e) :
      WF ⟨[e, c, n], data, s0, fs, .many l, .many ms⟩

section
variable (data : List Nat) (s0 : Int) (fs : Rat) (s : PySlice) (k : Int) (ps : List Nat)

theorem getitem_tslice_1d (n : Nat) (lab : Label) (m : Md) (hk : 0 < k) (hs : s.step.getD 1 = k)
    (h : slicePositions s n = .ok ps) :
    ∃ d, getitem ⟨[n], data, s0, fs, .one lab, .one m⟩ (.tuple [.ellipsis, .slice s]) =
      .ok (.arr ⟨[ps.length], d, timeS0 s0 s n, timeFs fs s, .one lab, .one m⟩) := by
  simp [getitem, getitemG, Index.items, npGetitem, Item.isEllipsis, Item.consumes, expandEllipsis, assignAxes,
    strides, itemSel, h, Sel.isFancy, advOffset, plainAxis, Except.map, List.filter, isScalarResult,
    normalizeIndexG, normTuple, normLoop, Item.isNewaxis, fullSlices, PD.ndim, fixups, splitNorm, Fixes.all,
    finalize, NPSel.shape]
  cases lab <;> simp [fixTime_pos (k := k) (hk := hk) (hs := hs), fixChannel, fixEpoch, PD.nTime]

theorem getitem_tslice_1d_bare (n : Nat) (lab : Label) (m : Md) (hk : 0 < k) (hs : s.step.getD 1 = k)
    (h : slicePositions s n = .ok ps) :
    ∃ d, getitem ⟨[n], data, s0, fs, .one lab, .one m⟩ (.one (.slice s)) =
      .ok (.arr ⟨[ps.length], d, timeS0 s0 s n, timeFs fs s, .one lab, .one m⟩) := by
  simp [getitem, getitemG, Index.items, npGetitem, Item.isEllipsis, Item.consumes, expandEllipsis, assignAxes,
    strides, itemSel, h, Sel.isFancy, advOffset, plainAxis, Except.map, List.filter, isScalarResult,
    normalizeIndexG, normTuple, normLoop, Item.isNewaxis, fullSlices, PD.ndim, fixups, splitNorm, Fixes.all,
    finalize, NPSel.shape]
  cases lab <;> simp [fixTime_pos (k := k) (hk := hk) (hs := hs), fixChannel, fixEpoch, PD.nTime]

theorem getitem_tslice_2d (c n : Nat) (l : List Label) (m : Md) (hk : 0 < k) (hs : s.step.getD 1 = k)
    (h : slicePositions s n = .ok ps) :
    ∃ d, getitem ⟨[c, n], data, s0, fs, .many l, .one m⟩ (.tuple [.ellipsis, .slice s]) =
      .ok (.arr ⟨[c, ps.length], d, timeS0 s0 s n, timeFs fs s, .many l, .one m⟩) := by
  simp [getitem, getitemG, Index.items, npGetitem, Item.isEllipsis, Item.consumes, expandEllipsis, assignAxes,
    strides, itemSel, slicePositions_all, h, Sel.isFancy, advOffset, plainAxis, Except.map, List.filter,
    isScalarResult, normalizeIndexG, normTuple, normLoop, Item.isNewaxis, fullSlices, PD.ndim, fixups, splitNorm,
    Fixes.all, finalize, NPSel.shape]
  simp [fixTime_pos (k := k) (hk := hk) (hs := hs), fixChannel, fixEpoch, PD.nTime, listSlice_all]

theorem getitem_tslice_3d (e c n : Nat) (l : List Label) (ms : List Md) (hk : 0 < k) (hs : s.step.getD 1 = k)
    (h : slicePositions s n = .ok ps) :
    ∃ d, getitem ⟨[e, c, n], data, s0, fs, .many l, .many ms⟩ (.tuple [.ellipsis, .slice s]) =
      .ok (.arr ⟨[e, c, ps.length], d, timeS0 s0 s n, timeFs fs s, .many l, .many ms⟩) := by
  simp [getitem, getitemG, Index.items, npGetitem, Item.isEllipsis, Item.consumes, expandEllipsis, assignAxes,
    strides, itemSel, slicePositions_all, h, Sel.isFancy, advOffset, plainAxis, Except.map, List.filter,
    isScalarResult, normalizeIndexG, normTuple, normLoop, Item.isNewaxis, fullSlices, PD.ndim, fixups, splitNorm,
    Fixes.all, finalize, NPSel.shape]
  simp [fixTime_pos (k := k) (hk := hk) (hs := hs), fixChannel, fixEpoch, PD.nTime, listSlice_all]
end

end Psi.PData
