import PsiProofs.Helper.C11_SplitCases
/-! Data placement of any successful `getitem` (the fix-ups never touch data or shape) and the offsets a boolean
mask on the epoch axis selects. -/
set_option linter.unusedSimpArgs false
namespace Psi.PData

theorem fixTime_data {c : Bool} {self obj o : PD} {ts : NItem} (h : fixTime c self obj ts = .ok o) :
    o.data = obj.data ∧ o.shape = obj.shape := by
  unfold fixTime at h
  repeat' split at h
  all_goals first | (cases h; done) | (cases h; exact ⟨rfl, rfl⟩)

theorem fixChannel_data {c : Bool} {obj o : PD} {cs : Option NItem} (h : fixChannel c obj cs = .ok o) :
    o.data = obj.data ∧ o.shape = obj.shape := by
  unfold fixChannel at h
  repeat' split at h
  all_goals first | (cases h; done) | (cases h; exact ⟨rfl, rfl⟩)

theorem fixEpoch_data {obj o : PD} {es : Option NItem} (h : fixEpoch obj es = .ok o) :
    o.data = obj.data ∧ o.shape = obj.shape := by
  unfold fixEpoch at h
  repeat' split at h
  all_goals first | (cases h; done) | (cases h; exact ⟨rfl, rfl⟩)

theorem fixups_data {fx : Fixes} {self obj o : PD} {norm : List NItem} (h : fixups fx self obj norm = .ok o) :
    o.data = obj.data ∧ o.shape = obj.shape := by
  unfold fixups at h
  split at h
  · cases h
  · split at h
    · cases h
    · rename_i o1 h1
      split at h
      · cases h
      · rename_i o2 h2
        have a1 := fixTime_data h1
        have a2 := fixChannel_data h2
        have a3 := fixEpoch_data h
        exact ⟨by rw [a3.1, a2.1, a1.1], by rw [a3.2, a2.2, a1.2]⟩

/-- **Data placement of any successful indexing**: the samples of `a[index]` are those NumPy's selection picks; the annotation
fix-ups never touch data or shape. -/
theorem getitem_data {a : PD} {index : Index} {r : PD} (h : getitem a index = .ok (.arr r)) :
    ∃ sel, npGetitem a.shape index.items = .ok sel ∧ r.data = pick a.data sel.offsets ∧ r.shape = sel.shape := by
  unfold getitem getitemG at h
  split at h
  · cases h
  · rename_i sel hsel
    refine ⟨sel, hsel, ?_⟩
    simp only at h
    split at h
    · cases h
    · split at h
      · cases h
      · rename_i norm hn
        simp only [Except.map] at h
        split at h
        · cases h
        · rename_i o ho
          cases h
          have := fixups_data ho
          simpa [finalize, pick] using this


theorem advGroup_single (ps : List Nat) (st : Nat) :
    (List.range ps.length).map (fun j => (if ps.length = 1 then ps.head?.getD 0 else ps[j]?.getD 0) * st) = ps.map (· * st) := by
  apply List.ext_getElem
  · simp
  · intro i h1 h2
    simp at h1 ⊢
    split
    · rename_i h; have : i = 0 := by omega
      subst this
      cases ps with
      | nil => simp at h1
      | cons x xs => simp
    · simp [List.getElem?_eq_getElem h1]

theorem npGetitem_mask_3d (e c n : Nat) (mask : List Bool) (hlen : mask.length = e) :
    (npGetitem [e, c, n] [.barr mask]).map NPSel.offsets =
      .ok (cart [(trueIdx 0 mask).map (· * (c * n)), axis c n, axis n 1]) := by
  simp [npGetitem, Item.isEllipsis, Item.consumes, expandEllipsis, assignAxes, strides, itemSel, maskPositions, hlen,
    slicePositions_all, Sel.isFancy, Except.map, broadcastLen, itemsAdjacent, Item.isAdv, axesInPlace, plainAxis,
    advOffset, NPSel.offsets, List.filter, List.replicate, List.filterMap]
  rw [advGroup_single]
  simp [axis]
end Psi.PData
