import PsiProofs.Helper.C11_ConcatG
/-! Cut lists, the pieces they produce, and `concat` of slabs cut from one array. -/
set_option linter.unusedSimpArgs false
namespace Psi.PData

/-- the unit-step slices `[:k₁], [k₁:k₂], …, [kₘ:]` produced by a list of cuts. -/
def cutSlicesFrom (start : Option Int) : List Int → List PySlice
  | [] => [⟨start, none, none⟩]
  | k :: ks => ⟨start, some k, none⟩ :: cutSlicesFrom (some k) ks

def cutSlices (ks : List Int) : List PySlice := cutSlicesFrom none ks

/-- a cut position as `slice.indices` clamps it on an axis of length `n`. -/
def cutNat (n : Nat) (k : Int) : Nat := (clampPos k n).toNat

theorem cutNat_le (n : Nat) (k : Int) : cutNat n k ≤ n := by
  have := clampPos_le k n; have := clampPos_nonneg k n; unfold cutNat; omega

/-- half-open bounds of the pieces between consecutive cuts `lo ≤ b₁ ≤ … ≤ n`. -/
def pieceBounds (lo : Nat) : List Nat → Nat → List (Nat × Nat)
  | [], n => [(lo, n)]
  | b :: bs, n => (lo, b) :: pieceBounds b bs n

def chainOK (lo : Nat) : List Nat → Nat → Prop
  | [], n => lo ≤ n
  | b :: bs, n => lo ≤ b ∧ chainOK b bs n

theorem chainOK_le : ∀ (bs : List Nat) (lo n : Nat), chainOK lo bs n → lo ≤ n
  | [], _, _, h => h
  | b :: bs, _, n, h => Nat.le_trans h.1 (chainOK_le bs b n h.2)

theorem cutSlices_bounds (n : Nat) : ∀ (ks : List Int) (st : Option Int),
    (cutSlicesFrom st ks).map (fun s => (startNat s n, stopNat s n)) =
      pieceBounds (match st with | none => 0 | some v => cutNat n v) (ks.map (cutNat n)) n
  | [], st => by cases st <;> simp [cutSlicesFrom, pieceBounds, startNat, stopNat, cutNat]
  | k :: ks, st => by
    simp only [cutSlicesFrom, List.map_cons, pieceBounds, cutSlices_bounds n ks (some k)]
    cases st <;> simp [startNat, stopNat, cutNat]

theorem cutSlices_step : ∀ (ks : List Int) (st : Option Int), ∀ s ∈ cutSlicesFrom st ks, s.step = none
  | [], st, s, h => by simp [cutSlicesFrom] at h; subst h; rfl
  | k :: ks, st, s, h => by
    simp only [cutSlicesFrom, List.mem_cons] at h
    rcases h with rfl | h
    · rfl
    · exact cutSlices_step ks _ s h

/-- nondecreasing (clamped) cuts give a chain of bounds. -/
theorem chainOK_of_sorted (n : Nat) : ∀ (ks : List Int) (lo : Nat), lo ≤ n → (∀ k ∈ ks, lo ≤ cutNat n k) →
    (ks.map (clampPos · n)).Pairwise (· ≤ ·) → chainOK lo (ks.map (cutNat n)) n
  | [], _, h, _, _ => h
  | k :: ks, lo, _, hlo, hs => by
    simp only [List.map_cons, List.pairwise_cons, List.mem_map, forall_exists_index, and_imp,
      forall_apply_eq_imp_iff₂] at hs
    refine ⟨hlo k (by simp), chainOK_of_sorted n ks _ (cutNat_le n k) ?_ hs.2⟩
    intro k' hk'
    have := hs.1 k' hk'
    unfold cutNat; omega

/-- the pieces' position runs tile `[lo, n)`. -/
theorem pieceBounds_tile : ∀ (bs : List Nat) (lo n : Nat), chainOK lo bs n →
    ((pieceBounds lo bs n).map fun p => List.range' p.1 (p.2 - p.1)).flatten = List.range' lo (n - lo)
  | [], _, _, _ => by simp [pieceBounds]
  | b :: bs, lo, n, h => by
    have hb := chainOK_le bs b n h.2
    have h1 := h.1
    simp only [pieceBounds, List.map_cons, List.flatten_cons, pieceBounds_tile bs b n h.2]
    have : b = lo + (b - lo) := by omega
    conv => lhs; arg 2; rw [this]
    rw [List.range'_append_1]
    congr 1; omega

theorem pieceBounds_ne_nil (lo : Nat) (bs : List Nat) (n : Nat) : pieceBounds lo bs n ≠ [] := by
  cases bs <;> simp [pieceBounds]

/-- adjacency of time pieces: piece `(x, y)` starts at `s0 + x` and has `y − x` samples. -/
theorem checkS0_pieces (s0 : Int) (mk : Nat × Nat → PD) (hs : ∀ p, (mk p).s0 = s0 + p.1)
    (hn : ∀ p, (mk p).nTime = p.2 - p.1) : ∀ (bs : List Nat) (lo n : Nat), chainOK lo bs n →
    checkS0 (s0 + lo) ((pieceBounds lo bs n).map mk) = true
  | [], lo, n, _ => by simp [pieceBounds, checkS0, hs]
  | b :: bs, lo, n, h => by
    have := checkS0_pieces s0 mk hs hn bs b n h.2
    have h1 := h.1
    simp only [pieceBounds, List.map_cons, checkS0, hs, hn, beq_self_eq_true, Bool.true_and]
    have e : s0 + (lo : Int) + ((b - lo : Nat) : Int) = s0 + (b : Int) := by omega
    rw [e]; exact this

theorem listTake_flatten {α} (l : List α) (pss : List (List Nat)) :
    listTake l pss.flatten = (pss.map (listTake l)).flatten := by
  simp only [listTake, List.filterMap_flatten]
  rfl

theorem listTake_range'_all {α} (l : List α) : listTake l (List.range' 0 (l.length - 0)) = l := by
  rw [Nat.sub_zero, ← List.range_eq_range']; exact listTake_range l

/-- an array cut out of `a` along one axis: rows `ps` of the axis with stride `st`, outer axes `P`, inner axes `Q`. -/
def slab (pre post : List Nat) (P Q : List (List Nat)) (st : Nat) (a : PD) (ps : List Nat) (s0 : Int) (ch : Chan)
    (md : Meta) : PD :=
  ⟨pre ++ [ps.length] ++ post, pick a.data (cart (P ++ ps.map (· * st) :: Q)), s0, a.fs, ch, md⟩

/-- `concat` of slabs of one array: the slab of the joined rows, if the annotations are accepted. -/
theorem concat_slabs (dim : Dim) (d : Nat) (pre post : List Nat) (P Q : List (List Nat)) (st : Nat) (a : PD)
    (hP : P.map List.length = pre) (hQ : Q.map List.length = post) (hk : dim.k = post.length + 1) (hkd : dim.k ≤ d)
    (base : PD) (rest : List PD) (ps0 : List Nat) (psr : List (List Nat))
    (hsd : (base :: rest).map (fun b => (b.shape, b.data)) =
      (ps0 :: psr).map fun ps => (pre ++ [ps.length] ++ post, pick a.data (cart (P ++ ps.map (· * st) :: Q))))
    (hwf : ∀ b ∈ base :: rest, WF b) (hnd : ∀ b ∈ base :: rest, b.ndim = d) (hj : Joinable dim base rest) :
    concat (base :: rest) dim =
      construct (pre ++ [(ps0 :: psr).flatten.length] ++ post)
        (pick a.data (cart (P ++ (ps0 :: psr).flatten.map (· * st) :: Q))) base.fs base.s0
        (joinChan dim base (base :: rest)) (joinMeta dim base (base :: rest)) := by
  apply concat_eval dim base rest d hwf hnd hkd hj
  rw [hsd, hk]
  have := npConcat_slabs pre post P Q hP hQ (fun o => a.data.getD o 0) (ps0.map (· * st)) (psr.map (List.map (· * st)))
  simp only [List.map_cons, List.map_map, Function.comp_def, List.length_map, pick, List.length_flatten] at this ⊢
  rw [this]
  simp [List.map_flatten, Function.comp_def]

theorem mapM_eq_map {α β} (f : α → Except Err β) (F : α → β) : ∀ (l : List α), (∀ x ∈ l, f x = .ok (F x)) →
    l.mapM f = .ok (l.map F)
  | [], _ => rfl
  | x :: xs, h => by
    rw [List.mapM_cons, h x (by simp), mapM_eq_map f F xs (fun y hy => h y (by simp [hy]))]; rfl

theorem pieceBounds_mem : ∀ (bs : List Nat) (lo n : Nat), chainOK lo bs n →
    ∀ p ∈ pieceBounds lo bs n, lo ≤ p.1 ∧ p.1 ≤ p.2 ∧ p.2 ≤ n
  | [], lo, n, h, p, hp => by simp [pieceBounds] at hp; subst hp; exact ⟨Nat.le_refl _, h, Nat.le_refl _⟩
  | b :: bs, lo, n, h, p, hp => by
    simp only [pieceBounds, List.mem_cons] at hp
    rcases hp with rfl | hp
    · exact ⟨Nat.le_refl _, h.1, chainOK_le bs b n h.2⟩
    · have := pieceBounds_mem bs b n h.2 p hp
      exact ⟨Nat.le_trans h.1 this.1, this.2⟩

theorem pieceBounds_cons (lo : Nat) (bs : List Nat) (n : Nat) :
    ∃ hi rest, pieceBounds lo bs n = (lo, hi) :: rest := by
  cases bs <;> simp [pieceBounds]

/-- cut `a` along an axis at a chain of bounds and `concat` the pieces: the slab of the whole axis. -/
theorem split_concat_core (dim : Dim) (d : Nat) (pre post : List Nat) (P Q : List (List Nat)) (st : Nat) (a : PD)
    (hP : P.map List.length = pre) (hQ : Q.map List.length = post) (hk : dim.k = post.length + 1) (hkd : dim.k ≤ d)
    (n : Nat) (s0F : Nat → Int) (chF : List Nat → Chan) (mdF : List Nat → Meta)
    (hwf : ∀ p : Nat × Nat, p.1 ≤ p.2 → p.2 ≤ n →
      WF (slab pre post P Q st a (List.range' p.1 (p.2 - p.1)) (s0F p.1) (chF (List.range' p.1 (p.2 - p.1)))
        (mdF (List.range' p.1 (p.2 - p.1)))))
    (hd : (pre ++ [0] ++ post).length = d)
    (hs0 : dim = .time → ∀ x, s0F x = s0F 0 + x)
    (hch : dim ≠ .channel → ∀ ps, chF ps = chF [])
    (hmd : dim ≠ .epoch → ∀ ps, mdF ps = mdF [])
    (bs : List Nat) (hc : chainOK 0 bs n) :
    let mk := fun p : Nat × Nat => slab pre post P Q st a (List.range' p.1 (p.2 - p.1)) (s0F p.1)
      (chF (List.range' p.1 (p.2 - p.1))) (mdF (List.range' p.1 (p.2 - p.1)))
    concat ((pieceBounds 0 bs n).map mk) dim =
      construct (pre ++ [n] ++ post) (pick a.data (cart (P ++ (List.range n).map (· * st) :: Q))) a.fs (s0F 0)
        (if dim = .channel then .many (((pieceBounds 0 bs n).map mk).map chanList).flatten else chF [])
        (if dim = .epoch then .many (((pieceBounds 0 bs n).map mk).map metaList).flatten else mdF []) := by
  intro mk
  obtain ⟨hi, pr, hp⟩ := pieceBounds_cons 0 bs n
  have hmem := pieceBounds_mem bs 0 n hc
  have htile := pieceBounds_tile bs 0 n hc
  rw [hp] at hmem htile
  have hwf' : ∀ b ∈ ((0, hi) :: pr).map mk, WF b := by
    intro b hb
    simp only [List.mem_map] at hb
    obtain ⟨p, hp', rfl⟩ := hb
    exact hwf p (hmem p hp').2.1 (hmem p hp').2.2
  have hnd : ∀ b ∈ ((0, hi) :: pr).map mk, b.ndim = d := by
    intro b hb
    simp only [List.mem_map] at hb
    obtain ⟨p, _, rfl⟩ := hb
    simp only [mk, slab, PD.ndim] at hd ⊢
    simpa using hd
  have hj : Joinable dim (mk (0, hi)) (pr.map mk) := by
    refine ⟨?_, ?_, ?_, ?_⟩
    · intro b hb; simp only [List.mem_map] at hb; obtain ⟨p, _, rfl⟩ := hb; rfl
    · intro hdt
      have hpost : post = [] := by
        subst hdt; have h' := hk; simp only [Dim.k] at h'; exact List.eq_nil_of_length_eq_zero (by omega)
      have := checkS0_pieces (s0F 0) mk (fun p => hs0 hdt p.1) (fun p => by simp [mk, slab, PD.nTime, hpost]) bs 0 n hc
      rw [hp] at this
      simp only [List.map_cons, checkS0, Bool.and_eq_true] at this
      have h2 := this.2
      have e : (mk (0, hi)).s0 = s0F 0 + ((0 : Nat) : Int) := by simp [mk, slab]
      rw [e]; exact h2
    · intro hdc b hb; simp only [List.mem_map] at hb; obtain ⟨p, _, rfl⟩ := hb
      simp only [mk, slab]; rw [hch hdc, hch hdc (List.range' _ _)]
    · intro hde b hb; simp only [List.mem_map] at hb; obtain ⟨p, _, rfl⟩ := hb
      simp only [mk, slab]; rw [hmd hde, hmd hde (List.range' _ _)]
  rw [hp]
  simp only [List.map_cons]
  have hcs := concat_slabs dim d pre post P Q st a hP hQ hk hkd (mk (0, hi)) (pr.map mk)
    (List.range' 0 (hi - 0)) (pr.map fun p => List.range' p.1 (p.2 - p.1))
    (by simp [mk, slab, List.map_map, Function.comp_def]) (by simpa using hwf') (by simpa using hnd) hj
  rw [hcs]
  simp only [List.map_cons] at htile
  rw [htile]
  have e1 : (mk (0, hi)).fs = a.fs := rfl
  have e2 : (mk (0, hi)).s0 = s0F 0 := rfl
  have e3 : dim ≠ .channel → (mk (0, hi)).channel = chF [] := fun h => hch h _
  have e4 : dim ≠ .epoch → (mk (0, hi)).metadata = mdF [] := fun h => hmd h _
  rw [e1, e2, List.length_range', Nat.sub_zero, ← List.range_eq_range']
  congr 1
  · unfold joinChan; split
    · rfl
    · rename_i h; exact e3 h
  · unfold joinMeta; split
    · rfl
    · rename_i h; exact e4 h

/-- the label runs of the pieces tile the label list. -/
theorem tile_listTake {α} (l : List α) (f : Nat × Nat → List α)
    (hf : ∀ p, f p = listTake l (List.range' p.1 (p.2 - p.1))) (bs : List Nat) (n : Nat) (hc : chainOK 0 bs n) :
    ((pieceBounds 0 bs n).map f).flatten = listTake l (List.range' 0 (n - 0)) := by
  have : f = fun p => listTake l (List.range' p.1 (p.2 - p.1)) := funext hf
  rw [this, ← pieceBounds_tile bs 0 n hc, listTake_flatten, List.map_map]
  rfl

theorem mapM_ok_length {α β} (f : α → Except Err β) : ∀ (l : List α) (r : List β), l.mapM f = .ok r → r.length = l.length
  | [], r, h => by cases h; rfl
  | x :: xs, r, h => by
    rw [List.mapM_cons] at h
    cases hx : f x with
    | error e => rw [hx] at h; cases h
    | ok y =>
      cases hxs : xs.mapM f with
      | error e => rw [hx, hxs] at h; cases h
      | ok ys =>
        rw [hx, hxs] at h
        cases h
        simp [mapM_ok_length f xs ys hxs]

theorem cutSlices_length : ∀ (ks : List Int) (st : Option Int), (cutSlicesFrom st ks).length = ks.length + 1
  | [], _ => rfl
  | k :: ks, _ => by simp [cutSlicesFrom, cutSlices_length ks]

end Psi.PData
