import PsiProofs.Helper.C03_View
/-!
What is common to the per-policy invariants: a loaded queue, the ledger
"remaining = requested − presented", and closed forms of `decrement_key`.
-/
namespace Psi.Queue

/-- A queue as it is after `append`ing ≥ 1 stimuli (trial counts ≥ 1, waveforms of ≥ 1 sample,
non-empty cycles of delays ≥ 0) and before anything was requested. Keys are insertion indices,
so the ordering is `0, 1, …, n-1`. -/
structure Loaded (s : QState) : Prop where
  npos : s.data ≠ []
  ordering : s.ordering = List.range s.data.length
  entries : ∀ (i : Nat) (e : Entry), s.data[i]? = some e →
    0 < e.len ∧ 1 ≤ e.trials ∧ e.delays ≠ [] ∧ ∀ d ∈ e.delays, 0 ≤ d
  cursor : s.cursor = -1
  complete : s.complete = false
  block : s.block = []
  added : s.added = []
  source : s.source = none
  empty : s.empty = false
  gsize : s.kind = .grouped → 1 ≤ s.gsize

theorem Loaded.wf {s : QState} (h : Loaded s) : WF s :=
  ⟨fun i e he => (h.entries i e he).1, by simp [h.source]⟩

theorem Loaded.delays {s : QState} (h : Loaded s) : DelaysOK s.data :=
  fun i e he => (h.entries i e he).2.2

theorem Loaded.pos {s : QState} (h : Loaded s) : 0 < s.data.length :=
  List.length_pos_iff.mpr h.npos

theorem Loaded.trials {s : QState} (h : Loaded s) {k : Nat} (hk : k < s.data.length) :
    1 ≤ trialsOf s k := by
  have := (h.entries k s.data[k] (List.getElem?_eq_getElem hk)).2.1
  simpa [trialsOf, List.getElem?_eq_getElem hk] using this

/-- Common part of every policy invariant, relative to the table at load time: `n` stimuli with
requested counts `req`; `led` is the ledger remaining(k) = requested(k) − presented(k). -/
structure Base (n : Nat) (req : Nat → Int) (v : PView) : Prop where
  len : v.data.length = n
  npos : 0 < n
  delays : DelaysOK v.data
  led : ∀ k, k < n → trv v.data k = req k - ((v.keys.count k : Nat) : Int)
  keysLt : ∀ k ∈ v.keys, k < n

theorem Base_init {s : QState} (h : Loaded s) :
    Base s.data.length (fun k => trialsOf s k) (view s) :=
  ⟨rfl, h.pos, h.delays, by intro k _; simp [view, h.added, trialsOf_eq], by simp [view, h.added]⟩

theorem Base_step {n : Nat} {req : Nat → Int} {v v' : PView} (hb : Base n req v) {k : Nat}
    (hk : k < n) (hd : v'.data = dataStep v.data k) (hkeys : v'.keys = v.keys ++ [k]) :
    Base n req v' := by
  refine ⟨by rw [hd, dataStep_length, hb.len], hb.npos, by rw [hd]; exact DelaysOK_dataStep hb.delays k,
    ?_, ?_⟩
  · intro k' hk'
    rw [hd, hkeys, trv_dataStep _ _ _ (by rw [hb.len]; exact hk), hb.led k' hk', List.count_append,
      List.count_singleton]
    by_cases h : k' = k
    · subst h; simp; omega
    · have : ¬ k = k' := fun h' => h h'.symm
      simp [h, this]
  · intro k' hk'
    rw [hkeys] at hk'
    rcases List.mem_append.mp hk' with h | h
    · exact hb.keysLt k' h
    · simp only [List.mem_singleton] at h; subst h; exact hk

/-- presented(k) < requested(k) ⇔ remaining(k) > 0 -/
theorem Base.unsat_iff {n : Nat} {req : Nat → Int} {v : PView} (hb : Base n req v) {k : Nat}
    (hk : k < n) : 0 < trv v.data k ↔ ((v.keys.count k : Nat) : Int) < req k := by
  rw [hb.led k hk]; omega

/-! ### `all(trials <= 0)` -/

theorem all_le_iff (d : List Entry) :
    d.all (fun e => decide (e.trials ≤ 0)) = true ↔ ∀ k, k < d.length → trv d k ≤ 0 := by
  rw [List.all_eq_true]
  constructor
  · intro h k hk
    have := h d[k] (List.getElem_mem hk)
    simpa [trv, List.getElem?_eq_getElem hk] using this
  · intro h e he
    obtain ⟨k, hk, rfl⟩ := List.getElem_of_mem he
    have := h k hk
    simpa [trv, List.getElem?_eq_getElem hk] using this

theorem trv_setTrials_eq_dataStep (d : List Entry) (k k' : Nat) (hk : k < d.length) :
    trv (setTrials d k (· - 1)) k' = trv (dataStep d k) k' := by
  rw [trv_setTrials _ _ _ hk, trv_dataStep _ _ _ hk]

theorem setTrials_length (d : List Entry) (k : Nat) (f : Int → Int) :
    (setTrials d k f).length = d.length := by simp [setTrials]

/-! ### closed forms of `decrement_key` -/

/-- Interleaved / BlockedRandom: decrement, then set `_complete` when no counter is positive. -/
theorem decrementKey_complete {s : QState} {k : Nat}
    (hk : s.kind = .interleaved ∨ s.kind = .blockedRandom) (hm : k ∈ s.ordering) :
    decrementKey s k = .ok { s with
      data := setTrials s.data k (· - 1),
      complete := if (setTrials s.data k (· - 1)).all (fun e => decide (e.trials ≤ 0))
                  then true else s.complete } := by
  have hc : s.ordering.contains k = true := by simpa using hm
  unfold decrementKey
  simp only [hc, not_true_eq_false, if_false]
  rcases hk with hk | hk <;> simp only [hk] <;> split <;> simp_all

/-- FIFO / Random: decrement, remove the key at zero. -/
theorem decrementKey_erase {s : QState} {k : Nat}
    (hk : s.kind = .fifo ∨ s.kind = .random) (hm : k ∈ s.ordering) :
    decrementKey s k = .ok { s with
      data := setTrials s.data k (· - 1),
      ordering := if trv (setTrials s.data k (· - 1)) k ≤ 0 then s.ordering.erase k else s.ordering } := by
  have hc : s.ordering.contains k = true := by simpa using hm
  unfold decrementKey
  simp only [hc, not_true_eq_false, if_false]
  rcases hk with hk | hk <;> simp only [hk, trialsOf_eq] <;> split <;> rfl

/-- Grouped: decrement, remove the whole group once none of its counters is positive. -/
theorem decrementKey_grouped {s : QState} {k : Nat} (hk : s.kind = .grouped) (hm : k ∈ s.ordering) :
    decrementKey s k = .ok { s with
      data := setTrials s.data k (· - 1),
      ordering := if (s.ordering.take s.gsize).all
                      (fun k' => decide (trv (setTrials s.data k (· - 1)) k' ≤ 0))
                  then (s.ordering.take s.gsize).foldl (fun o k => o.erase k) s.ordering
                  else s.ordering } := by
  have hc : s.ordering.contains k = true := by simpa using hm
  unfold decrementKey
  simp only [hc, not_true_eq_false, if_false, hk, trialsOf_eq]
  split <;> rfl

/-- removing the first `g` keys of a duplicate-free ordering one by one drops them -/
theorem foldl_erase_take (l : List Nat) (g : Nat) (hn : l.Nodup) :
    (l.take g).foldl (fun o k => o.erase k) l = l.drop g := by
  induction g generalizing l with
  | zero => simp
  | succ g ih =>
    cases l with
    | nil => simp
    | cons a l =>
      simp only [List.take_succ_cons, List.foldl_cons, List.erase_cons_head, List.drop_succ_cons]
      exact ih l (List.nodup_cons.mp hn).2

/-! ### `Loaded` is what `append` builds -/

/-- a stimulus as `append` accepts it for this property: ≥ 1 sample, ≥ 1 trial, a non-empty cycle of
delays ≥ 0 -/
def GoodEntry (e : Entry) : Prop :=
  0 < e.len ∧ 1 ≤ e.trials ∧ e.delays ≠ [] ∧ ∀ d ∈ e.delays, 0 ≤ d

/-- `queue.append(...)` once per entry -/
def loadAll (s : QState) (es : List Entry) : QState := es.foldl (fun s e => (append s e).1) s

structure PreLoaded (s : QState) : Prop where
  ordering : s.ordering = List.range s.data.length
  entries : ∀ (i : Nat) (e : Entry), s.data[i]? = some e → GoodEntry e
  cursor : s.cursor = -1
  complete : s.complete = false
  block : s.block = []
  added : s.added = []
  source : s.source = none
  empty : s.empty = false
  gsize : s.kind = .grouped → (s.auto = true ∧ s.gsize = s.data.length) ∨ (s.auto = false ∧ 1 ≤ s.gsize)

theorem PreLoaded_append {s : QState} (h : PreLoaded s) {e : Entry} (he : GoodEntry e) :
    PreLoaded (append s e).1 := by
  refine ⟨?_, ?_, h.cursor, h.complete, h.block, h.added, h.source, h.empty, ?_⟩
  · simp [append, h.ordering, List.range_succ]
  · intro i e' hi
    simp only [append] at hi
    by_cases hlt : i < s.data.length
    · rw [List.getElem?_append_left hlt] at hi; exact h.entries i e' hi
    · rw [List.getElem?_append_right (by omega)] at hi
      cases hsub : i - s.data.length with
      | zero => simp [hsub] at hi; rw [← hi]; exact he
      | succ m => simp [hsub] at hi
  · intro hk
    rcases h.gsize hk with ⟨ha, hg⟩ | ⟨ha, hg⟩
    · left; simp [append, ha, hg]
    · right; simp [append, ha, hg]

theorem PreLoaded_loadAll {s : QState} (h : PreLoaded s) (es : List Entry) (hes : ∀ e ∈ es, GoodEntry e) :
    PreLoaded (loadAll s es) := by
  induction es generalizing s with
  | nil => exact h
  | cons e es ih =>
    exact ih (PreLoaded_append h (hes e (by simp))) (fun e' he' => hes e' (by simp [he']))

theorem loadAll_data (s : QState) (es : List Entry) : (loadAll s es).data = s.data ++ es := by
  induction es generalizing s with
  | nil => simp [loadAll]
  | cons e es ih =>
    have := ih (append s e).1
    simp only [loadAll, List.foldl_cons] at this ⊢
    rw [this]; simp [append]

theorem loadAll_oracle (s : QState) (es : List Entry) :
    (loadAll s es).draws = s.draws ∧ (loadAll s es).perms = s.perms := by
  induction es generalizing s with
  | nil => simp [loadAll]
  | cons e es ih =>
    have := ih (append s e).1
    simp only [loadAll, List.foldl_cons] at this ⊢
    rw [this.1, this.2]; simp [append]

/-- the queue object right after its constructor (BlockedFIFO: `auto`, group size starts at 0) -/
def newQueue (kind : Kind) (keep : Bool) (gsize : Nat) (auto : Bool) (draws : List Nat)
    (perms : List (List Nat)) : QState :=
  { kind := kind, keep := keep, gsize := if auto then 0 else gsize, auto := auto, draws := draws,
    perms := perms }

/-- **Every queue built by the constructor and ≥ 1 `append`s is `Loaded`**: any policy, option and
group size ≥ 1 (BlockedFIFO: `auto`, the group size counts the appends), any oracle streams. -/
theorem Loaded_loadAll (kind : Kind) (keep : Bool) (gsize : Nat) (auto : Bool) (draws : List Nat)
    (perms : List (List Nat)) (es : List Entry) (hne : es ≠ []) (hes : ∀ e ∈ es, GoodEntry e)
    (hg : kind = .grouped → auto = false → 1 ≤ gsize) :
    Loaded (loadAll (newQueue kind keep gsize auto draws perms) es) := by
  have h0 : PreLoaded (newQueue kind keep gsize auto draws perms) := by
    refine ⟨rfl, by intro i e h; simp [newQueue] at h, rfl, rfl, rfl, rfl, rfl, rfl, ?_⟩
    intro hk
    cases auto with
    | true => left; simp [newQueue]
    | false => right; exact ⟨rfl, by simpa [newQueue] using hg hk rfl⟩
  have h := PreLoaded_loadAll h0 es hes
  have hd := loadAll_data (newQueue kind keep gsize auto draws perms) es
  have hdne : (loadAll (newQueue kind keep gsize auto draws perms) es).data ≠ [] := by
    rw [hd]; simpa [newQueue] using hne
  refine ⟨hdne, h.ordering, h.entries, h.cursor, h.complete, h.block, h.added, h.source, h.empty, ?_⟩
  intro hk
  rcases h.gsize hk with ⟨_, hgs⟩ | ⟨_, hgs⟩
  · rw [hgs]; exact List.length_pos_iff.mpr hdne
  · exact hgs

end Psi.Queue
