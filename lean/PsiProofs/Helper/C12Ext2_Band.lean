import PsiModel.StagesExt2
import PsiProofs.Helper.C12Ext_Lemmas
/-! `rms_band` simulates `rms` (same block loop, other block function, other annotations) — EXT12, second extension. -/
namespace Psi.StagesExt2
open Psi.Stages Psi.StagesExt
variable {α β ρ χ μ τ κ ι : Type}

/-- `concat` of annotated arrays only: `Stages.catAll` -/
theorem concatArr_pd (a : PD α ρ χ μ) (l : List (PD α ρ χ μ)) :
    concatArr ((a :: l).map Arr.pd)
      = (match catAll (a :: l) with | .ok x => .ok (.pd x) | .error _ => .error .valueError) := by
  have h2 : ∀ l : List (PD α ρ χ μ), (l.map Arr.pd).all Arr.isPd = true := by
    intro l; induction l <;> simp_all [Arr.isPd]
  have h3 : ∀ l : List (PD α ρ χ μ), (l.map Arr.pd).filterMap Arr.pd? = l := by
    intro l; induction l <;> simp_all [Arr.pd?]
  unfold concatArr
  rw [h2, h3]
  cases catAll (a :: l) <;> simp [Arr.isPd]

theorem renumber_append (a : Ann ρ χ μ) : ∀ (o os : List (PD β ρ χ μ)) (k : Nat),
    renumber a k (o ++ os) = renumber a k o ++ renumber a (k + (outData o).length) os := by
  intro o
  induction o with
  | nil => intro os k; simp [renumber, outData]
  | cons b o ih =>
    intro os k
    simp only [List.cons_append, renumber, ih, outData, List.map_cons, List.flatten_cons, List.length_append]
    simp [Nat.add_assoc]

/-- renumbered blocks carry the same values, contiguously from `k` in **output** samples, annotated `a` -/
theorem emits_renumber {bs : List (PD β ρ χ μ)} {x : List β} {u t : Int} {a0 : Ann ρ χ μ}
    (h : Emits bs x u t a0) (a : Ann ρ χ μ) (k : Nat) : Emits (renumber a k bs) x 1 (k : Int) a := by
  have key : ∀ (bs : List (PD β ρ χ μ)) (k : Nat), Emits (renumber a k bs) (outData bs) 1 (k : Int) a := by
    intro bs
    induction bs with
    | nil => intro k; simpa [renumber, outData] using Emits.nil _ _ _
    | cons b bs ih =>
      intro k
      refine Emits.cons _ (ih (k + b.data.length)) rfl rfl ?_ ?_
      · simp [PD.len]
      · simp [outData]
  rw [← h.data]
  exact key bs k

theorem band_step_sim (band : List α → β) (divFs : ρ → Nat → ρ) (chDef : χ) (mdEmpty : μ) (n : Nat) (hn : 0 < n)
    (f : ρ) (rst : RmsSt α ρ χ μ) (bst : BandSt α ρ χ μ) (y : PD α ρ χ μ)
    (hd : bst.data = rst.data.map Arr.pd) (hs : bst.samples = rst.samples)
    (hf : bst.fs = some f ∨ (bst.fs = none ∧ y.ann.fs = f)) :
    match rmsStep band divFs n rst y with
    | .error _ => rmsBandStep band divFs chDef mdEmpty n bst (.pd y) = .error .valueError
    | .ok (bs, rst') => ∃ bst', rmsBandStep band divFs chDef mdEmpty n bst (.pd y)
          = .ok (renumber ⟨divFs f n, chDef, mdEmpty⟩ bst.s0 bs, bst')
        ∧ bst'.data = rst'.data.map Arr.pd ∧ bst'.samples = rst'.samples ∧ bst'.fs = some f
        ∧ bst'.s0 = bst.s0 + (outData bs).length := by
  have hn0 : n ≠ 0 := Nat.ne_of_gt hn
  have hfs : bandFs n bst (.pd y) = .ok f := by
    rcases hf with h | ⟨h, h'⟩
    · simp [bandFs, h]
    · simp [bandFs, h, h', hn0]
  unfold rmsStep rmsBandStep
  simp only [hfs, hn0, if_false, hd, hs, Arr.data, PD.len]
  by_cases hge : n ≤ rst.samples + y.data.length
  · simp only [hge, if_true]
    have e : rst.data.map Arr.pd ++ [Arr.pd y] = (rst.data ++ [y]).map Arr.pd := by simp
    rw [e]
    obtain ⟨a, l, hal⟩ : ∃ a l, rst.data ++ [y] = a :: l := by cases rst.data <;> simp
    rw [hal, concatArr_pd]
    cases catAll (a :: l) with
    | error e => simp
    | ok m => simp [renumber, dropArr, PD.dropN, outData]
  · simp [hge, renumber, outData]

theorem band_sim (band : List α → β) (divFs : ρ → Nat → ρ) (chDef : χ) (mdEmpty : μ) (n : Nat) (hn : 0 < n) (f : ρ) :
    ∀ (ys : List (PD α ρ χ μ)) (rst : RmsSt α ρ χ μ) (bst : BandSt α ρ χ μ),
    bst.data = rst.data.map Arr.pd → bst.samples = rst.samples → (bst.fs = some f ∨ bst.fs = none) →
    (∀ y ∈ ys, y.ann.fs = f) →
    match runStage (rmsStep band divFs n) rst ys with
    | .error _ => run (rmsBandStep band divFs chDef mdEmpty n) bst (ys.map Arr.pd) = .error .valueError
    | .ok (bs, _) => ∃ bst', run (rmsBandStep band divFs chDef mdEmpty n) bst (ys.map Arr.pd)
          = .ok (renumber ⟨divFs f n, chDef, mdEmpty⟩ bst.s0 bs, bst') := by
  intro ys
  induction ys with
  | nil => intro rst bst _ _ _ _; exact ⟨bst, rfl⟩
  | cons y ys ih =>
    intro rst bst hd hs hf hall
    have hstep := band_step_sim band divFs chDef mdEmpty n hn f rst bst y hd hs
      (hf.imp id (fun h => ⟨h, hall y (by simp)⟩))
    simp only [runStage, List.map_cons, run]
    cases h1 : rmsStep band divFs n rst y with
    | error e => rw [h1] at hstep; simp only at hstep; simp [hstep]
    | ok p =>
      obtain ⟨o1, rst1⟩ := p
      rw [h1] at hstep
      obtain ⟨bst1, hb, hd1, hs1, hf1, hk1⟩ := hstep
      have hrec := ih rst1 bst1 hd1 hs1 (Or.inl hf1) (fun z hz => hall z (by simp [hz]))
      simp only [hb]
      cases h2 : runStage (rmsStep band divFs n) rst1 ys with
      | error e => rw [h2] at hrec; simp only at hrec; simp [hrec]
      | ok q =>
        obtain ⟨o2, rst2⟩ := q
        rw [h2] at hrec
        obtain ⟨bst2, hb2⟩ := hrec
        refine ⟨bst2, ?_⟩
        simp only [hb2, renumber_append, hk1]

end Psi.StagesExt2
