import PsiProofs.Helper.C06_Alt
/-!
Helper for C06 (composition): the flow of notifications from the queue's logs to the extractor,
and the joint invariant of the composed system.

The invariant carries a ghost: `seen`, the notifications already handed to the extractor, in issue
order (`seen ++ J.pend` is everything the queue ever issued).  Per dictionary key the issued stream
alternates (`AltM`, Helper/C06_Alt) — proved here from the queue model: a `pop` notifies a trial
under a key only when no trial with that key is still logged, a `pause(m)` cancels only logged
trials — and the C05 spec machine of every key follows the outstanding trial of the seen stream.
From this the extractor history is in C05's `ValidSeq` for **every** run; no hypothesis on keys.
-/
namespace Psi.E2E
open Psi.Queue Psi.Extract

theorem filterMap_adds (c : Cfg) (is : List Info) :
    (is.map Note.add).filterMap (Note.req? c) = is.map (reqOf c) := by
  induction is with
  | nil => rfl
  | cons i is ih => simp [Note.req?, ih]

theorem filterMap_rems (c : Cfg) (rs : List Info) :
    (rs.map Note.rem).filterMap (Note.req? c) = [] := by
  induction rs with
  | nil => rfl
  | cons i is ih => simp [Note.req?]

/-! ### the joint invariant -/

structure NInv (c : Cfg) (J : JState) : Prop where
  reqs : allReqs J.eops ++ J.pend.filterMap (Note.req? c) = J.q.added.map (reqOf c)
  addsPend : ∀ i, Note.add i ∈ J.pend → i ∈ J.q.added
  remsPend : ∀ r, Note.rem r ∈ J.pend →
    r ∈ J.q.added ∧ r.uid ∈ J.q.removed ∧ J.acq < (reqOf c r).s.toNat + c.L
  valid : ValidSeq c.B c.L J.eops

/-- the ghost part: `seen` = the notifications handed to the extractor so far, in issue order -/
structure GInv (c : Cfg) (J : JState) (seen : List Note) : Prop where
  adds : (seen ++ J.pend).filterMap Note.add? = J.q.added
  seenReqs : allReqs J.eops = seen.filterMap (Note.req? c)
  rems : ∀ r, Note.rem r ∈ seen ++ J.pend → r.uid ∈ J.q.removed
  alt : ∀ κ, AltM none (onKey c κ (seen ++ J.pend))
  last : ∀ κ i, altEnd none (onKey c κ (seen ++ J.pend)) = some i → i.uid ∉ J.q.removed
  opn : ∀ κ, openAfter κ J.eops =
    ((altEnd none (onKey c κ seen)).filter (fun i => !doneAt (reqOf c i) J.acq)).map (reqOf c)
  acc : ∀ κ, (specReqs κ 0 none J.eops).filterMap id =
    (((altEnd none (onKey c κ seen)).filter (fun i => doneAt (reqOf c i) J.acq)).map (reqOf c)).toList

structure JInv (c : Cfg) (J : JState) : Prop where
  q : QInv c.K0 J.q J.tl
  acq : J.acq ≤ J.tl.length
  stream : streamOf J.eops = J.tl.take J.acq
  tot : total J.eops = J.acq
  n : NInv c J
  g : ∃ seen, GInv c J seen

/-- what a queue must look like before anything was played -/
structure Start (q0 : QState) : Prop where
  data : ∀ (i : Nat) (e : Entry), q0.data[i]? = some e → 0 < e.len
  generated : q0.generated = []
  added : q0.added = []
  removed : q0.removed = []
  source : q0.source = none
  samples : q0.samples = 0

theorem JInv_init (c : Cfg) (q0 : QState) (h : Start q0) : JInv c (JState.init c q0) := by
  have hv : ValidSeq c.B c.L ([] : List (Op Cell)) := trivial
  have hq : (JState.init c q0).q = q0 := rfl
  have htl : (JState.init c q0).tl = zeros c.K0 := rfl
  refine ⟨⟨by rw [hq]; exact ⟨h.data, by simp [h.source]⟩,
      by rw [hq]; simp [Once, h.generated, h.added, h.removed], ?_, ?_, ?_,
      by simp [JState.init, h.generated], by simp [JState.init, h.generated], ?_⟩,
    Nat.zero_le _, by simp [JState.init, streamOf], by simp [JState.init, total], ?_, ?_⟩
  · simp [JState.init, zeros, h.samples]
  · intro _ src hs; simp [JState.init, h.source] at hs
  · simp [JState.init, h.added]
  · simp only [JState.init, h.generated]; exact Emb_nil _ _ _
  · exact ⟨by simp [JState.init, allReqs, h.added], by simp [JState.init], by simp [JState.init], hv⟩
  · refine ⟨[], by simp [JState.init, h.added], by simp [JState.init, allReqs], by simp [JState.init],
      by simp [JState.init, onKey, AltM], by simp [JState.init, onKey, altEnd], ?_, ?_⟩
    · intro κ; simp [JState.init, onKey, altEnd, openAfter, openK]
    · intro κ; simp [JState.init, onKey, altEnd, specReqs]

theorem nodup_of_map {α β} (f : α → β) (l : List α) (h : (l.map f).Nodup) :
    l.Nodup ∧ ∀ a ∈ l, ∀ b ∈ l, f a = f b → a = b := by
  induction l with
  | nil => simp
  | cons x xs ih =>
    simp only [List.map_cons, List.nodup_cons] at h
    obtain ⟨i1, i2⟩ := ih h.2
    refine ⟨List.nodup_cons.2 ⟨fun hx => h.1 (List.mem_map.2 ⟨x, hx, rfl⟩), i1⟩, ?_⟩
    intro a ha b hb he
    rcases List.mem_cons.1 ha with ha | ha <;> rcases List.mem_cons.1 hb with hb | hb
    · rw [ha, hb]
    · rw [ha] at he; exact absurd (List.mem_map.2 ⟨b, hb, he.symm⟩) h.1
    · rw [hb] at he; exact absurd (List.mem_map.2 ⟨a, ha, he⟩) h.1
    · exact i2 a ha b hb he

theorem nodup_reverse' {β} {l : List β} (h : l.Nodup) : l.reverse.Nodup := by
  unfold List.Nodup at *
  rw [List.pairwise_reverse]
  exact h.imp (fun h => h.symm)

theorem uid_exists {added : List Info} (hu : added.map (·.uid) = List.range added.length) {u : Nat}
    (h : u < added.length) : ∃ r ∈ added, r.uid = u := by
  have : u ∈ added.map (·.uid) := by rw [hu]; exact List.mem_range.2 h
  obtain ⟨r, hr, he⟩ := List.mem_map.1 this
  exact ⟨r, hr, he⟩

theorem uid_inj {added : List Info} (hu : added.map (·.uid) = List.range added.length) {a b : Info}
    (ha : a ∈ added) (hb : b ∈ added) (h : a.uid = b.uid) : a = b := by
  have hn : (added.map (·.uid)).Nodup := by rw [hu]; exact List.nodup_range
  exact (nodup_of_map _ _ hn).2 a ha b hb h

/-- a notified trial that was not cancelled is still logged -/
theorem logged_of_not_removed {K0 : Int} {q : QState} {tl : List Cell} (qi : QInv K0 q tl) {i : Info}
    (hi : i ∈ q.added) (hu : i.uid ∉ q.removed) : i ∈ q.generated := by
  have hlt : i.uid < q.added.length := by
    have : i.uid ∈ q.added.map (·.uid) := List.mem_map.2 ⟨i, hi, rfl⟩
    rw [qi.uid] at this
    exact List.mem_range.1 this
  rcases ((Once_nodup qi.once).2.2.2 i.uid).1 hlt with h | h
  · obtain ⟨g, hg, he⟩ := List.mem_map.1 h
    have : g = i := uid_inj qi.uid (qi.emb.gensub g hg) hi he
    rw [← this]; exact hg
  · exact absurd h hu

/-- the notifications about one key that an issued stream holds name notified trials -/
theorem outstanding_added {c : Cfg} {J : JState} {seen : List Note} (g : GInv c J seen) {κ : Nat}
    {l : List Note} (hl : ∀ n ∈ l, n ∈ seen ++ J.pend) {i : Info}
    (h : altEnd none (onKey c κ l) = some i) : i ∈ J.q.added ∧ (reqOf c i).key = κ ∧ Note.add i ∈ l := by
  rcases altEnd_mem h with h1 | h1
  · cases h1
  · obtain ⟨h2, h3⟩ := mem_onKey.1 h1
    exact ⟨by rw [← g.adds]; exact mem_add?.2 (hl _ h2), h3, h2⟩

/-! ### queue events -/

theorem JInv_pop (c : Cfg) (henc : EncInj c) {J : JState} {n : Nat} {out : List Cell} {q' : QState}
    (inv : JInv c J) (h : popBuffer n J.q = .ok (out, q')) :
    JInv c { J with q := q', tl := J.tl ++ out,
                    pend := J.pend ++ (q'.added.drop J.q.added.length).map Note.add } ∧
      J.q.added <+: q'.added := by
  obtain ⟨qi, hpre, hrem⟩ := QInv_pop inv.q h
  have hadd : q'.added = J.q.added ++ q'.added.drop J.q.added.length := (List.prefix_iff_eq_append.1 hpre).symm
  generalize q'.added.drop J.q.added.length = new at hadd ⊢
  have hnd : (J.q.added ++ new).Nodup := by
    have : (q'.added.map (·.uid)).Nodup := by rw [qi.uid]; exact List.nodup_range
    rw [← hadd]; exact (nodup_of_map _ _ this).1
  have hsub : ∀ i ∈ J.q.added, i ∈ q'.added := fun i hi => by rw [hadd]; exact List.mem_append_left _ hi
  have hnew : ∀ i ∈ new, i ∈ q'.added := fun i hi => by rw [hadd]; exact List.mem_append_right _ hi
  -- the new trials were not cancelled, hence are logged
  have hnewrem : ∀ i ∈ new, i.uid ∉ J.q.removed := by
    intro i hi hu
    have hlt : i.uid < J.q.added.length := ((Once_nodup inv.q.once).2.2.2 i.uid).2 (Or.inr hu)
    obtain ⟨r0, hr0, he⟩ := uid_exists inv.q.uid hlt
    have : r0 = i := uid_inj qi.uid (hsub r0 hr0) (hnew i hi) he
    subst this
    exact (List.nodup_append.1 hnd).2.2 r0 hr0 r0 hi rfl
  have hlogged : ∀ i ∈ q'.added, i.uid ∉ J.q.removed → i ∈ q'.generated :=
    fun i hi hu => logged_of_not_removed qi hi (by rw [hrem]; exact hu)
  obtain ⟨seen, g⟩ := inv.g
  refine ⟨⟨qi, ?_, ?_, inv.tot, ?_, ?_⟩, hpre⟩
  · simp only [List.length_append]; have := inv.acq; omega
  · simp only; rw [List.take_append_of_le_length inv.acq]; exact inv.stream
  · refine ⟨?_, ?_, ?_, inv.n.valid⟩
    · simp only [List.filterMap_append, filterMap_adds, ← List.append_assoc, inv.n.reqs, hadd, List.map_append]
    · intro i hi
      rcases List.mem_append.1 hi with hi | hi
      · exact hsub i (inv.n.addsPend i hi)
      · simp only [List.mem_map, Note.add.injEq] at hi
        obtain ⟨a, ha, rfl⟩ := hi
        exact hnew a ha
    · intro r hr
      rcases List.mem_append.1 hr with hr | hr
      · obtain ⟨a, b, d⟩ := inv.n.remsPend r hr
        exact ⟨hsub r a, by rw [hrem]; exact b, d⟩
      · simp at hr
  · -- the ghost: the new `added` notifications keep every key alternating
    have hcase : ∀ κ, onKey c κ (new.map Note.add) = [] ∨
        ∃ i ∈ new, (reqOf c i).key = κ ∧ onKey c κ (new.map Note.add) = [Note.add i] :=
      fun κ => onKey_le_one c henc κ new Note.add (fun _ => rfl) (List.nodup_append.1 hnd).2.1
        (fun a ha b hb he => sorted_inj qi.sorted (hlogged a (hnew a ha) (hnewrem a ha))
          (hlogged b (hnew b hb) (hnewrem b hb)) he)
    have hfree : ∀ κ i', i' ∈ new → (reqOf c i').key = κ →
        altEnd none (onKey c κ (seen ++ J.pend)) = none := by
      intro κ i' hi' hk'
      cases ho : altEnd none (onKey c κ (seen ++ J.pend)) with
      | none => rfl
      | some i =>
        exfalso
        obtain ⟨h1, h2, _⟩ := outstanding_added g (fun _ hn => hn) ho
        have hg1 := hlogged i (hsub i h1) (g.last κ i ho)
        have hg2 := hlogged i' (hnew i' hi') (hnewrem i' hi')
        have hk : i.k = i'.k := (henc _ _ _ _ (by
          have : (reqOf c i).key = (reqOf c i').key := by rw [h2, hk']
          exact this)).1
        have : i = i' := sorted_inj qi.sorted hg1 hg2 hk
        subst this
        exact (List.nodup_append.1 hnd).2.2 i h1 i hi' rfl
    refine ⟨seen, ?_, g.seenReqs, ?_, ?_, ?_, g.opn, g.acc⟩
    · simp only [← List.append_assoc, List.filterMap_append, filterMap_add?_adds, g.adds, hadd]
    · intro r hr
      simp only [← List.append_assoc] at hr
      rcases List.mem_append.1 hr with hr | hr
      · rw [hrem]; exact g.rems r hr
      · simp at hr
    · intro κ
      simp only [← List.append_assoc]
      rw [onKey_append, AltM_append]
      refine ⟨g.alt κ, ?_⟩
      rcases hcase κ with h0 | ⟨i', hi', hk', h1⟩
      · rw [h0]; trivial
      · rw [h1, hfree κ i' hi' hk']; trivial
    · intro κ i hi
      simp only [← List.append_assoc] at hi
      rw [onKey_append, altEnd_append] at hi
      rw [hrem]
      rcases hcase κ with h0 | ⟨i', hi', hk', h1⟩
      · rw [h0] at hi; exact g.last κ i hi
      · rw [h1] at hi
        simp only [altEnd, Option.some.injEq] at hi
        rw [← hi]; exact hnewrem i' hi'

theorem JInv_pause_some (c : Cfg) (henc : EncInj c) {J : JState} (m : Int) (inv : JInv c J)
    (hm : m ≤ J.q.samples) (hacq : (J.acq : Int) ≤ (c.K0 : Int) + m)
    (hside : ∀ i ∈ J.q.added, (i.len : Int) ≤ i.dur ∧ i.dur + (c.P : Int) ≤ (c.L : Int)) :
    JInv c { J with q := (pause (some m) J.q).1, tl := J.tl.take ((c.K0 : Int) + m).toNat,
                    pend := J.pend ++ ((J.q.generated.reverse.filter (endsAfter m)).map Note.rem) } ∧
      (pause (some m) J.q).1.added = J.q.added := by
  obtain ⟨ha, hg, hr, hs, hd, hp, hsm⟩ := pause_some_fields m J.q hm
  have qi := QInv_pause_some inv.q m hm (by omega) (fun i hi => (hside i hi).1)
  have hlen := inv.q.len
  have hmemrem : ∀ r, r ∈ J.q.generated.reverse.filter (endsAfter m) →
      r ∈ J.q.generated ∧ r ∈ J.q.added ∧ r.k + r.dur > m := by
    intro r hr
    simp only [List.mem_filter, List.mem_reverse, endsAfter, decide_eq_true_eq] at hr
    exact ⟨hr.1, inv.q.emb.gensub r hr.1, hr.2⟩
  obtain ⟨seen, g⟩ := inv.g
  refine ⟨⟨qi, ?_, ?_, inv.tot, ?_, ?_⟩, ha⟩
  · simp only [List.length_take]; have := inv.acq; omega
  · simp only; rw [List.take_take, Nat.min_eq_left (by omega)]; exact inv.stream
  · refine ⟨?_, ?_, ?_, inv.n.valid⟩
    · simp only [List.filterMap_append, filterMap_rems, List.append_nil, ha]; exact inv.n.reqs
    · intro i hi
      rcases List.mem_append.1 hi with hi | hi
      · rw [ha]; exact inv.n.addsPend i hi
      · simp at hi
    · intro r hr'
      rcases List.mem_append.1 hr' with h1 | h1
      · obtain ⟨a, b, d⟩ := inv.n.remsPend r h1
        exact ⟨by rw [ha]; exact a, by rw [hr]; exact List.mem_append_left _ b, d⟩
      · simp only [List.mem_map, Note.rem.injEq] at h1
        obtain ⟨a, ha', rfl⟩ := h1
        obtain ⟨_, h2, h3⟩ := hmemrem a ha'
        refine ⟨by rw [ha]; exact h2, ?_, ?_⟩
        · rw [hr]; exact List.mem_append_right _ (List.mem_map.2 ⟨a, ha', rfl⟩)
        · have := (hside a h2).2
          simp only [reqOf]
          omega
  · -- the ghost: every `removed` notification names the outstanding trial of its key
    generalize hR : J.q.generated.reverse.filter (endsAfter m) = R at hmemrem hr ⊢
    have hgn : J.q.generated.Nodup := (nodup_of_map _ _ (Once_nodup inv.q.once).2.1).1
    have hRn : R.Nodup := by rw [← hR]; exact (nodup_reverse' hgn).sublist List.filter_sublist
    have hcase : ∀ κ, onKey c κ (R.map Note.rem) = [] ∨
        ∃ j ∈ R, (reqOf c j).key = κ ∧ onKey c κ (R.map Note.rem) = [Note.rem j] :=
      fun κ => onKey_le_one c henc κ R Note.rem (fun _ => rfl) hRn
        (fun a ha b hb he => sorted_inj inv.q.sorted (hmemrem a ha).1 (hmemrem b hb).1 he)
    have hout : ∀ κ j, j ∈ R → (reqOf c j).key = κ →
        altEnd none (onKey c κ (seen ++ J.pend)) = some j := by
      intro κ j hj hk
      obtain ⟨hjg, hja, _⟩ := hmemrem j hj
      have h1 : Note.add j ∈ onKey c κ (seen ++ J.pend) :=
        mem_onKey.2 ⟨mem_add?.1 (by rw [g.adds]; exact hja), hk⟩
      rcases AltM_add_mem (g.alt κ) h1 with h2 | h2
      · exfalso
        have := g.rems j (mem_onKey.1 h2).1
        exact (Once_nodup inv.q.once).2.2.1 _ this (List.mem_map.2 ⟨j, hjg, rfl⟩)
      · exact h2
    refine ⟨seen, ?_, g.seenReqs, ?_, ?_, ?_, g.opn, g.acc⟩
    · rw [← List.append_assoc, List.filterMap_append, filterMap_add?_rems, List.append_nil, ha]
      exact g.adds
    · intro r hr'
      simp only [← List.append_assoc] at hr'
      rw [hr]
      rcases List.mem_append.1 hr' with h1 | h1
      · exact List.mem_append_left _ (g.rems r h1)
      · simp only [List.mem_map, Note.rem.injEq] at h1
        obtain ⟨a, ha', rfl⟩ := h1
        exact List.mem_append_right _ (List.mem_map.2 ⟨a, ha', rfl⟩)
    · intro κ
      simp only [← List.append_assoc]
      rw [onKey_append, AltM_append]
      refine ⟨g.alt κ, ?_⟩
      rcases hcase κ with h0 | ⟨j, hj, hk, h1⟩
      · rw [h0]; trivial
      · rw [h1, hout κ j hj hk]; exact ⟨rfl, trivial⟩
    · intro κ i hi
      simp only [← List.append_assoc] at hi
      rw [onKey_append, altEnd_append] at hi
      rcases hcase κ with h0 | ⟨j, hj, hk, h1⟩
      · rw [h0] at hi
        simp only [altEnd] at hi
        rw [hr]
        intro hu
        rcases List.mem_append.1 hu with hu | hu
        · exact g.last κ i hi hu
        · obtain ⟨j, hj, he⟩ := List.mem_map.1 hu
          obtain ⟨h1, h2, _⟩ := outstanding_added g (fun _ hn => hn) hi
          have : j = i := uid_inj inv.q.uid (hmemrem j hj).2.1 h1 he
          subst this
          have hmem : Note.rem j ∈ onKey c κ (R.map Note.rem) :=
            mem_onKey.2 ⟨List.mem_map.2 ⟨j, hj, rfl⟩, h2⟩
          rw [h0] at hmem; cases hmem
      · rw [h1] at hi; simp [altEnd] at hi

/-- a queue event that touches neither the logs nor what was acquired -/
theorem JInv_quiet (c : Cfg) {J : JState} {q' : QState} {tl' : List Cell} (inv : JInv c J)
    (qi : QInv c.K0 q' tl') (ha : q'.added = J.q.added) (hr : q'.removed = J.q.removed)
    (htl : ∃ z, tl' = J.tl ++ zeros z) : JInv c { J with q := q', tl := tl' } := by
  obtain ⟨z, rfl⟩ := htl
  obtain ⟨seen, g⟩ := inv.g
  refine ⟨qi, ?_, ?_, inv.tot, ?_, ?_⟩
  · simp only [List.length_append]; have := inv.acq; omega
  · simp only; rw [List.take_append_of_le_length inv.acq]; exact inv.stream
  · exact ⟨by simpa [ha] using inv.n.reqs, by simpa [ha] using inv.n.addsPend,
      by simpa [ha, hr] using inv.n.remsPend, inv.n.valid⟩
  · exact ⟨seen, by simpa [ha] using g.adds, g.seenReqs, by simpa [hr] using g.rems, g.alt,
      by simpa [hr] using g.last, g.opn, g.acc⟩

/-! ### an acquisition call -/

theorem JInv_acq (c : Cfg) {J : JState} (n vis : Nat) (op : Op Cell) (inv : JInv c J)
    (hchunk : op.chunk = (J.tl.drop J.acq).take n)
    (hreqs : op.reqs = (J.pend.take vis).filterMap (Note.req? c))
    (hrems : op.rems = (J.pend.take vis).filterMap (Note.rem? c))
    (hn : J.acq + n ≤ J.tl.length)
    (hvis : ∀ r ∈ op.reqs, ((lookbackStart c.B J.eops : Nat) : Int) ≤ r.s)
    (hlate : ∀ r, Note.rem r ∈ J.pend.drop vis → J.acq + n < (reqOf c r).s.toNat + c.L) :
    JInv c { J with acq := J.acq + n, pend := J.pend.drop vis, eops := J.eops ++ [op] } := by
  have hpend : J.pend = J.pend.take vis ++ J.pend.drop vis := (List.take_append_drop vis J.pend).symm
  have hreqsplit : allReqs J.eops ++ (op.reqs ++ (J.pend.drop vis).filterMap (Note.req? c)) =
      J.q.added.map (reqOf c) := by
    rw [hreqs, ← List.filterMap_append, ← hpend]; exact inv.n.reqs
  have hlen : op.chunk.length = n := by
    rw [hchunk]; simp only [List.length_take, List.length_drop]; omega
  obtain ⟨seen, g⟩ := inv.g
  have hissued : (seen ++ J.pend.take vis) ++ J.pend.drop vis = seen ++ J.pend := by
    rw [List.append_assoc, ← hpend]
  -- one key: the batch of this call
  have hkey := fun κ => acq_key c κ (altEnd none (onKey c κ seen)) (onKey c κ (J.pend.take vis)) op J.acq
    (by
      have := g.alt κ
      rw [← hissued, onKey_append, onKey_append, AltM_append, AltM_append] at this
      exact this.1.2)
    (by rw [addsK, hreqs]; exact onKey_reqs c κ _)
    (by rw [hrems]; exact onKey_rems c κ _)
    (by
      intro i ho hne
      have halt := g.alt κ
      rw [← hissued, onKey_append, onKey_append, AltM_append, AltM_append, ho] at halt
      obtain ⟨l', hl, _⟩ := AltM_head halt.1.2 hne
      have hmem : Note.rem i ∈ onKey c κ (J.pend.take vis) := by rw [hl]; exact List.mem_cons_self
      have := (inv.n.remsPend i (List.mem_of_mem_take (mem_onKey.1 hmem).1)).2.2
      simp only [doneAt, decide_eq_false_iff_not]
      have hL : (reqOf c i).len = c.L := rfl
      omega)
  refine ⟨inv.q, hn, ?_, ?_, ?_, ?_⟩
  · simp only [streamOf, List.map_append, List.flatten_append, List.map_cons, List.map_nil,
      List.flatten_cons, List.flatten_nil, List.append_nil]
    have := inv.stream
    simp only [streamOf] at this
    rw [this, hchunk, List.take_add]
  · rw [total_append, total_single, inv.tot, hlen]
  · refine ⟨?_, ?_, ?_, ?_⟩
    · simp only [allReqs_append]
      have : allReqs [op] = op.reqs := by simp [allReqs]
      rw [this, List.append_assoc]; exact hreqsplit
    · intro i hi; exact inv.n.addsPend i (List.mem_of_mem_drop hi)
    · intro r hr
      obtain ⟨a, b, _⟩ := inv.n.remsPend r (List.mem_of_mem_drop hr)
      exact ⟨a, b, hlate r hr⟩
    · -- the extended history is valid: the key discipline holds for every key
      have hov : OpValidSeq c.B c.L J.eops op := by
        refine ⟨?_, hvis, ?_⟩
        · intro r hr
          rw [hreqs] at hr
          obtain ⟨nt, _, he⟩ := List.mem_filterMap.1 hr
          cases nt with
          | rem i => simp [Note.req?] at he
          | add i => simp only [Note.req?, Option.some.injEq] at he; rw [← he]; rfl
        · intro κ
          rw [g.opn κ]
          exact (hkey κ).1
      have := (allValidSeq_append c.B c.L [] J.eops [op]).2 ⟨inv.n.valid, by simpa [AllValidSeq] using hov⟩
      exact this
  · refine ⟨seen ++ J.pend.take vis, ?_, ?_, ?_, ?_, ?_, ?_, ?_⟩
    · simp only [hissued]; exact g.adds
    · simp only [allReqs_append, List.filterMap_append, g.seenReqs]
      simp [allReqs, hreqs]
    · simp only [hissued]; exact g.rems
    · simp only [hissued]; exact g.alt
    · simp only [hissued]; exact g.last
    · intro κ
      simp only
      rw [openAfter_snoc, g.opn κ, inv.tot, onKey_append, altEnd_append, (hkey κ).2.1, hlen]
    · intro κ
      simp only
      have h3 := (hkey κ).2.2
      rw [hlen] at h3
      rw [specReqs_snoc, List.filterMap_append, g.acc κ, g.opn κ, inv.tot, onKey_append, altEnd_append, ← h3]
      cases keyEmit κ J.acq _ op <;> rfl

end Psi.E2E
