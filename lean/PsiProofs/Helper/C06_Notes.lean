import PsiProofs.Helper.C06_Timeline
/-!
Helper for C06 (composition): the flow of notifications from the queue's logs to the extractor,
and the joint invariant of the composed system.
-/
namespace Psi.E2E
open Psi.Queue Psi.Extract

/-! ### FIFO order: a trial's `added` is issued before its `removed` -/

def Ordered : List Note → Prop
  | [] => True
  | .add _ :: l => Ordered l
  | .rem r :: l => Note.add r ∉ l ∧ Ordered l

theorem Ordered_drop (l : List Note) (v : Nat) (h : Ordered l) : Ordered (l.drop v) := by
  induction l generalizing v with
  | nil => simpa using h
  | cons x xs ih =>
    cases v with
    | zero => simpa using h
    | succ v =>
      simp only [List.drop_succ_cons]
      cases x with
      | add i => exact ih v h
      | rem r => exact ih v h.2

theorem Ordered_append_rems (l : List Note) (rs : List Info) (h : Ordered l) :
    Ordered (l ++ rs.map Note.rem) := by
  induction l with
  | nil =>
    induction rs with
    | nil => trivial
    | cons r rs ih => exact ⟨by simp, ih⟩
  | cons x xs ih =>
    cases x with
    | add i => exact ih h
    | rem r =>
      refine ⟨?_, ih h.2⟩
      intro hm
      rcases List.mem_append.1 hm with hm | hm
      · exact h.1 hm
      · simp at hm

theorem Ordered_append_adds (l : List Note) (is : List Info) (h : Ordered l)
    (hd : ∀ r, Note.rem r ∈ l → r ∉ is) : Ordered (l ++ is.map Note.add) := by
  induction l with
  | nil =>
    induction is with
    | nil => trivial
    | cons i is ih => exact ih (by simp)
  | cons x xs ih =>
    cases x with
    | add i => exact ih h (fun r hr => hd r (List.mem_cons_of_mem _ hr))
    | rem r =>
      refine ⟨?_, ih h.2 (fun r' hr => hd r' (List.mem_cons_of_mem _ hr))⟩
      intro hm
      rcases List.mem_append.1 hm with hm | hm
      · exact h.1 hm
      · simp only [List.mem_map, Note.add.injEq] at hm
        obtain ⟨a, ha, rfl⟩ := hm
        exact hd a List.mem_cons_self ha

theorem Ordered_split (x y : List Note) (h : Ordered (x ++ y)) (r : Info) (hr : Note.rem r ∈ x) :
    Note.add r ∉ y := by
  induction x with
  | nil => cases hr
  | cons a xs ih =>
    cases a with
    | add i =>
      rcases List.mem_cons.1 hr with hr | hr
      · cases hr
      · exact ih h hr
    | rem r' =>
      rcases List.mem_cons.1 hr with hr | hr
      · cases hr
        intro hy
        exact h.1 (List.mem_append_right _ hy)
      · exact ih h.2 hr

theorem filterMap_adds (c : Cfg) (is : List Info) :
    (is.map Note.add).filterMap (Note.req? c) = is.map (reqOf c) := by
  induction is with
  | nil => rfl
  | cons i is ih => simp [Note.req?, ih]

theorem filterMap_rems (c : Cfg) (rs : List Info) :
    (rs.map Note.rem).filterMap (Note.req? c) = [] := by
  induction rs with
  | nil => rfl
  | cons i is ih => simp [Note.req?]

/-! ### where a request / its removal became visible -/

/-- the request became visible in some call -/
def ReqSeen (eops : List (Op Cell)) (rq : Request) : Prop :=
  ∃ pre0 o0 rest, eops = pre0 ++ o0 :: rest ∧ rq ∈ o0.reqs

/-- the request became visible in the first call of `seg ++ [opi]`, its removal in call `opi`,
before the stream reached its last sample: the hypotheses of `removed_never_delivered` -/
def Seen (eops : List (Op Cell)) (rq : Request) : Prop :=
  ∃ pre0 seg opi post o0 tl, eops = pre0 ++ (seg ++ opi :: post) ∧ seg ++ [opi] = o0 :: tl ∧
    rq ∈ o0.reqs ∧ rq.key ∈ opi.rems ∧ (seg = [] ∨ total pre0 + total seg < rq.s.toNat + rq.len)

theorem ReqSeen_of_mem {eops : List (Op Cell)} {rq : Request} (h : rq ∈ allReqs eops) : ReqSeen eops rq := by
  obtain ⟨o0, ho, hr⟩ := List.mem_flatMap.1 h
  obtain ⟨pre0, rest, rfl⟩ := List.append_of_mem ho
  exact ⟨pre0, o0, rest, rfl, hr⟩

theorem Seen_snoc {eops : List (Op Cell)} {rq : Request} (op : Op Cell) (h : Seen eops rq) :
    Seen (eops ++ [op]) rq := by
  obtain ⟨pre0, seg, opi, post, o0, tl, he, hs, h1, h2, h3⟩ := h
  exact ⟨pre0, seg, opi, post ++ [op], o0, tl, by rw [he]; simp, hs, h1, h2, h3⟩

theorem Seen_now {eops : List (Op Cell)} {rq : Request} (op : Op Cell) (h1 : rq ∈ op.reqs)
    (h2 : rq.key ∈ op.rems) : Seen (eops ++ [op]) rq :=
  ⟨eops, [], op, [], op, [], by simp, rfl, h1, h2, Or.inl rfl⟩

theorem Seen_later {eops : List (Op Cell)} {rq : Request} (op : Op Cell) (h1 : ReqSeen eops rq)
    (h2 : rq.key ∈ op.rems) (h3 : total eops < rq.s.toNat + rq.len) : Seen (eops ++ [op]) rq := by
  obtain ⟨pre0, o0, rest, he, hr⟩ := h1
  refine ⟨pre0, o0 :: rest, op, [], o0, rest ++ [op], by rw [he]; simp, by simp, hr, h2, Or.inr ?_⟩
  rw [he, total_append] at h3
  exact h3

/-! ### the joint invariant -/

structure NInv (c : Cfg) (J : JState) : Prop where
  reqs : allReqs J.eops ++ J.pend.filterMap (Note.req? c) = J.q.added.map (reqOf c)
  addsPend : ∀ i, Note.add i ∈ J.pend → i ∈ J.q.added
  remsSeen : ∀ o ∈ J.eops, ∀ κ ∈ o.rems, ∃ r ∈ J.q.added, r.uid ∈ J.q.removed ∧ κ = (reqOf c r).key
  remsPend : ∀ r, Note.rem r ∈ J.pend →
    r ∈ J.q.added ∧ r.uid ∈ J.q.removed ∧ J.acq < (reqOf c r).s.toNat + c.L
  ordered : Ordered J.pend
  canc : ∀ r ∈ J.q.added, r.uid ∈ J.q.removed → Note.rem r ∈ J.pend ∨ Seen J.eops (reqOf c r)
  valid : Valid c.B c.L J.eops

structure JInv (c : Cfg) (J : JState) : Prop where
  q : QInv c.K0 J.q J.tl
  acq : J.acq ≤ J.tl.length
  stream : streamOf J.eops = J.tl.take J.acq
  tot : total J.eops = J.acq
  n : NInv c J

/-- what a queue must look like before anything was played -/
structure Start (q0 : QState) : Prop where
  data : ∀ (i : Nat) (e : Entry), q0.data[i]? = some e → 0 < e.len
  generated : q0.generated = []
  added : q0.added = []
  removed : q0.removed = []
  source : q0.source = none
  samples : q0.samples = 0

theorem JInv_init (c : Cfg) (q0 : QState) (h : Start q0) : JInv c (JState.init c q0) := by
  have hv : Valid c.B c.L ([] : List (Op Cell)) := trivial
  have hq : (JState.init c q0).q = q0 := rfl
  have htl : (JState.init c q0).tl = zeros c.K0 := rfl
  refine ⟨⟨by rw [hq]; exact ⟨h.data, by simp [h.source]⟩,
      by rw [hq]; simp [Once, h.generated, h.added, h.removed], ?_, ?_, ?_,
      by simp [JState.init, h.generated], by simp [JState.init, h.generated], ?_⟩,
    Nat.zero_le _, by simp [JState.init, streamOf], by simp [JState.init, total], ?_⟩
  · simp [JState.init, zeros, h.samples]
  · intro _ src hs; simp [JState.init, h.source] at hs
  · simp [JState.init, h.added]
  · simp only [JState.init, h.generated]; exact Emb_nil _ _ _
  · refine ⟨by simp [JState.init, allReqs, h.added], by simp [JState.init], by simp [JState.init],
      by simp [JState.init], trivial, ?_, hv⟩
    intro r hr; simp [JState.init, h.added] at hr

theorem nodup_of_map {α β} (f : α → β) (l : List α) (h : (l.map f).Nodup) :
    l.Nodup ∧ ∀ a ∈ l, ∀ b ∈ l, f a = f b → a = b := by
  induction l with
  | nil => simp
  | cons x xs ih =>
    simp only [List.map_cons, List.nodup_cons] at h
    obtain ⟨i1, i2⟩ := ih h.2
    refine ⟨List.nodup_cons.2 ⟨fun hx => h.1 (List.mem_map.2 ⟨x, hx, rfl⟩), i1⟩, ?_⟩
    intro a ha b hb he
    rcases List.mem_cons.1 ha with ha | ha <;> rcases List.mem_cons.1 hb with hb | hb
    · rw [ha, hb]
    · rw [ha] at he; exact absurd (List.mem_map.2 ⟨b, hb, he.symm⟩) h.1
    · rw [hb] at he; exact absurd (List.mem_map.2 ⟨a, ha, he⟩) h.1
    · exact i2 a ha b hb he

theorem uid_exists {added : List Info} (hu : added.map (·.uid) = List.range added.length) {u : Nat}
    (h : u < added.length) : ∃ r ∈ added, r.uid = u := by
  have : u ∈ added.map (·.uid) := by rw [hu]; exact List.mem_range.2 h
  obtain ⟨r, hr, he⟩ := List.mem_map.1 this
  exact ⟨r, hr, he⟩

theorem uid_inj {added : List Info} (hu : added.map (·.uid) = List.range added.length) {a b : Info}
    (ha : a ∈ added) (hb : b ∈ added) (h : a.uid = b.uid) : a = b := by
  have hn : (added.map (·.uid)).Nodup := by rw [hu]; exact List.nodup_range
  exact (nodup_of_map _ _ hn).2 a ha b hb h

/-! ### queue events -/

theorem JInv_pop (c : Cfg) {J : JState} {n : Nat} {out : List Cell} {q' : QState} (inv : JInv c J)
    (h : popBuffer n J.q = .ok (out, q')) :
    JInv c { J with q := q', tl := J.tl ++ out,
                    pend := J.pend ++ (q'.added.drop J.q.added.length).map Note.add } ∧
      J.q.added <+: q'.added := by
  obtain ⟨qi, hpre, hrem⟩ := QInv_pop inv.q h
  have hadd : q'.added = J.q.added ++ q'.added.drop J.q.added.length := (List.prefix_iff_eq_append.1 hpre).symm
  generalize q'.added.drop J.q.added.length = new at hadd ⊢
  have hnd : (J.q.added ++ new).Nodup := by
    have : (q'.added.map (·.uid)).Nodup := by rw [qi.uid]; exact List.nodup_range
    rw [← hadd]; exact (nodup_of_map _ _ this).1
  have hsub : ∀ i ∈ J.q.added, i ∈ q'.added := fun i hi => by rw [hadd]; exact List.mem_append_left _ hi
  refine ⟨⟨qi, ?_, ?_, inv.tot, ?_⟩, hpre⟩
  · simp only [List.length_append]; have := inv.acq; omega
  · simp only; rw [List.take_append_of_le_length inv.acq]; exact inv.stream
  · refine ⟨?_, ?_, ?_, ?_, ?_, ?_, inv.n.valid⟩
    · simp only [List.filterMap_append, filterMap_adds, ← List.append_assoc, inv.n.reqs, hadd, List.map_append]
    · intro i hi
      rcases List.mem_append.1 hi with hi | hi
      · exact hsub i (inv.n.addsPend i hi)
      · simp only [List.mem_map, Note.add.injEq] at hi
        obtain ⟨a, ha, rfl⟩ := hi
        rw [hadd]; exact List.mem_append_right _ ha
    · intro o ho κ hκ
      obtain ⟨r, hr, hu, hk⟩ := inv.n.remsSeen o ho κ hκ
      exact ⟨r, hsub r hr, by rw [hrem]; exact hu, hk⟩
    · intro r hr
      rcases List.mem_append.1 hr with hr | hr
      · obtain ⟨a, b, d⟩ := inv.n.remsPend r hr
        exact ⟨hsub r a, by rw [hrem]; exact b, d⟩
      · simp at hr
    · apply Ordered_append_adds _ _ inv.n.ordered
      intro r hr hn
      have := (inv.n.remsPend r hr).1
      exact (List.nodup_append.1 hnd).2.2 r this r hn rfl
    · intro r hr hu
      simp only [hrem] at hu
      have hlt : r.uid < J.q.added.length :=
        ((Once_nodup inv.q.once).2.2.2 r.uid).2 (Or.inr hu)
      obtain ⟨r0, hr0, he⟩ := uid_exists inv.q.uid hlt
      have : r0 = r := uid_inj qi.uid (hsub r0 hr0) hr he
      subst this
      rcases inv.n.canc r0 hr0 hu with h1 | h1
      · exact Or.inl (List.mem_append_left _ h1)
      · exact Or.inr h1

theorem JInv_pause_some (c : Cfg) {J : JState} (m : Int) (inv : JInv c J) (hm : m ≤ J.q.samples)
    (hacq : (J.acq : Int) ≤ (c.K0 : Int) + m)
    (hside : ∀ i ∈ J.q.added, (i.len : Int) ≤ i.dur ∧ i.dur + (c.P : Int) ≤ (c.L : Int)) :
    JInv c { J with q := (pause (some m) J.q).1, tl := J.tl.take ((c.K0 : Int) + m).toNat,
                    pend := J.pend ++ ((J.q.generated.reverse.filter (endsAfter m)).map Note.rem) } ∧
      (pause (some m) J.q).1.added = J.q.added := by
  obtain ⟨ha, hg, hr, hs, hd, hp, hsm⟩ := pause_some_fields m J.q hm
  have qi := QInv_pause_some inv.q m hm (by omega) (fun i hi => (hside i hi).1)
  have hlen := inv.q.len
  refine ⟨⟨qi, ?_, ?_, inv.tot, ?_⟩, ha⟩
  · simp only [List.length_take]; have := inv.acq; omega
  · simp only; rw [List.take_take, Nat.min_eq_left (by omega)]; exact inv.stream
  · have hmemrem : ∀ r, r ∈ J.q.generated.reverse.filter (endsAfter m) →
        r ∈ J.q.added ∧ r.k + r.dur > m := by
      intro r hr
      simp only [List.mem_filter, List.mem_reverse, endsAfter, decide_eq_true_eq] at hr
      exact ⟨inv.q.emb.gensub r hr.1, hr.2⟩
    refine ⟨?_, ?_, ?_, ?_, Ordered_append_rems _ _ inv.n.ordered, ?_, inv.n.valid⟩
    · simp only [List.filterMap_append, filterMap_rems, List.append_nil, ha]; exact inv.n.reqs
    · intro i hi
      rcases List.mem_append.1 hi with hi | hi
      · rw [ha]; exact inv.n.addsPend i hi
      · simp at hi
    · intro o ho κ hκ
      obtain ⟨r, hr', hu, hk⟩ := inv.n.remsSeen o ho κ hκ
      exact ⟨r, by rw [ha]; exact hr', by rw [hr]; exact List.mem_append_left _ hu, hk⟩
    · intro r hr'
      rcases List.mem_append.1 hr' with h1 | h1
      · obtain ⟨a, b, d⟩ := inv.n.remsPend r h1
        exact ⟨by rw [ha]; exact a, by rw [hr]; exact List.mem_append_left _ b, d⟩
      · simp only [List.mem_map, Note.rem.injEq] at h1
        obtain ⟨a, ha', rfl⟩ := h1
        obtain ⟨h2, h3⟩ := hmemrem a ha'
        refine ⟨by rw [ha]; exact h2, ?_, ?_⟩
        · rw [hr]; exact List.mem_append_right _ (List.mem_map.2 ⟨a, ha', rfl⟩)
        · have := (hside a h2).2
          simp only [reqOf]
          omega
    · intro r hr' hu
      rw [ha] at hr'
      rw [hr] at hu
      rcases List.mem_append.1 hu with hu | hu
      · rcases inv.n.canc r hr' hu with h1 | h1
        · exact Or.inl (List.mem_append_left _ h1)
        · exact Or.inr h1
      · obtain ⟨r', hr2, he⟩ := List.mem_map.1 hu
        have : r' = r := uid_inj inv.q.uid (hmemrem r' hr2).1 hr' he
        subst this
        exact Or.inl (List.mem_append_right _ (List.mem_map.2 ⟨r', hr2, rfl⟩))

/-- a queue event that touches neither the logs nor what was acquired -/
theorem JInv_quiet (c : Cfg) {J : JState} {q' : QState} {tl' : List Cell} (inv : JInv c J)
    (qi : QInv c.K0 q' tl') (ha : q'.added = J.q.added) (hr : q'.removed = J.q.removed)
    (htl : ∃ z, tl' = J.tl ++ zeros z) : JInv c { J with q := q', tl := tl' } := by
  obtain ⟨z, rfl⟩ := htl
  refine ⟨qi, ?_, ?_, inv.tot, ?_⟩
  · simp only [List.length_append]; have := inv.acq; omega
  · simp only; rw [List.take_append_of_le_length inv.acq]; exact inv.stream
  · exact ⟨by simpa [ha] using inv.n.reqs, by simpa [ha] using inv.n.addsPend,
      by simpa [ha, hr] using inv.n.remsSeen, by simpa [ha, hr] using inv.n.remsPend, inv.n.ordered,
      by simpa [ha, hr] using inv.n.canc, inv.n.valid⟩

/-! ### an acquisition call -/

theorem JInv_acq (c : Cfg) {J : JState} (n vis : Nat) (op : Op Cell) (inv : JInv c J)
    (hchunk : op.chunk = (J.tl.drop J.acq).take n)
    (hreqs : op.reqs = (J.pend.take vis).filterMap (Note.req? c))
    (hrems : op.rems = (J.pend.take vis).filterMap (Note.rem? c))
    (hn : J.acq + n ≤ J.tl.length)
    (hvis : ∀ r ∈ op.reqs, ((lookbackStart c.B J.eops : Nat) : Int) ≤ r.s)
    (hlate : ∀ r, Note.rem r ∈ J.pend.drop vis → J.acq + n < (reqOf c r).s.toNat + c.L)
    (hkeys : ((J.q.added.map (reqOf c)).map (·.key)).Nodup) :
    JInv c { J with acq := J.acq + n, pend := J.pend.drop vis, eops := J.eops ++ [op] } := by
  have hpend : J.pend = J.pend.take vis ++ J.pend.drop vis := (List.take_append_drop vis J.pend).symm
  have hreqsplit : allReqs J.eops ++ (op.reqs ++ (J.pend.drop vis).filterMap (Note.req? c)) =
      J.q.added.map (reqOf c) := by
    rw [hreqs, ← List.filterMap_append, ← hpend]; exact inv.n.reqs
  have hinj : ∀ a ∈ J.q.added, ∀ b ∈ J.q.added, reqOf c a = reqOf c b → a = b := by
    intro a ha b hb he
    have h2 := (nodup_of_map _ _ hkeys).2 (reqOf c a) (List.mem_map.2 ⟨a, ha, rfl⟩) (reqOf c b)
      (List.mem_map.2 ⟨b, hb, rfl⟩) (by rw [he])
    exact (nodup_of_map _ _ (nodup_of_map _ _ hkeys).1).2 a ha b hb h2
  refine ⟨inv.q, hn, ?_, ?_, ?_⟩
  · simp only [streamOf, List.map_append, List.flatten_append, List.map_cons, List.map_nil,
      List.flatten_cons, List.flatten_nil, List.append_nil]
    have := inv.stream
    simp only [streamOf] at this
    rw [this, hchunk, List.take_add]
  · rw [total_append, total_single, inv.tot, hchunk]
    simp only [List.length_take, List.length_drop]
    omega
  · refine ⟨?_, ?_, ?_, ?_, Ordered_drop _ _ inv.n.ordered, ?_, ?_⟩
    · simp only [allReqs_append]
      have : allReqs [op] = op.reqs := by simp [allReqs]
      rw [this, List.append_assoc]; exact hreqsplit
    · intro i hi; exact inv.n.addsPend i (List.mem_of_mem_drop hi)
    · intro o ho κ hκ
      rcases List.mem_append.1 ho with ho | ho
      · exact inv.n.remsSeen o ho κ hκ
      · simp only [List.mem_singleton] at ho; subst ho
        rw [hrems] at hκ
        obtain ⟨nt, hnt, he⟩ := List.mem_filterMap.1 hκ
        cases nt with
        | add i => simp [Note.rem?] at he
        | rem r =>
          simp only [Note.rem?, Option.some.injEq] at he
          obtain ⟨a, b, _⟩ := inv.n.remsPend r (List.mem_of_mem_take hnt)
          exact ⟨r, a, b, he.symm⟩
    · intro r hr
      obtain ⟨a, b, _⟩ := inv.n.remsPend r (List.mem_of_mem_drop hr)
      exact ⟨a, b, hlate r hr⟩
    · intro r hr hu
      rcases inv.n.canc r hr hu with h1 | h1
      · rw [hpend] at h1
        rcases List.mem_append.1 h1 with h1 | h1
        · right
          have hkey : (reqOf c r).key ∈ op.rems := by
            rw [hrems]; exact List.mem_filterMap.2 ⟨Note.rem r, h1, rfl⟩
          have hmem : reqOf c r ∈ allReqs J.eops ++ J.pend.filterMap (Note.req? c) := by
            rw [inv.n.reqs]; exact List.mem_map.2 ⟨r, hr, rfl⟩
          rcases List.mem_append.1 hmem with h2 | h2
          · exact Seen_later op (ReqSeen_of_mem h2) hkey
              (by rw [inv.tot]; simpa [reqOf] using (inv.n.remsPend r (List.mem_of_mem_take h1)).2.2)
          · obtain ⟨nt, hnt, he⟩ := List.mem_filterMap.1 h2
            cases nt with
            | rem i => simp [Note.req?] at he
            | add i =>
              simp only [Note.req?, Option.some.injEq] at he
              have : i = r := hinj i (inv.n.addsPend i hnt) r hr he
              subst this
              rw [hpend] at hnt
              rcases List.mem_append.1 hnt with h3 | h3
              · exact Seen_now op (by rw [hreqs]; exact List.mem_filterMap.2 ⟨Note.add i, h3, rfl⟩) hkey
              · exact absurd h3 (Ordered_split _ _ (hpend ▸ inv.n.ordered) i h1)
        · exact Or.inl h1
      · exact Or.inr (Seen_snoc op h1)
    · -- the extended history is valid
      have hnd := hkeys
      rw [← hreqsplit] at hnd
      simp only [List.map_append] at hnd
      obtain ⟨_, hnd2, hdis⟩ := List.nodup_append.1 hnd
      obtain ⟨hnd3, _, _⟩ := List.nodup_append.1 hnd2
      have hov : OpValid c.B c.L J.eops op := by
        refine ⟨hnd3, ?_, ?_, ?_⟩
        · intro r hr r' hr' he
          exact hdis r'.key (List.mem_map.2 ⟨r', hr', rfl⟩) r.key
            (List.mem_append_left _ (List.mem_map.2 ⟨r, hr, rfl⟩)) he
        · intro r hr
          rw [hreqs] at hr
          obtain ⟨nt, _, he⟩ := List.mem_filterMap.1 hr
          cases nt with
          | rem i => simp [Note.req?] at he
          | add i => simp only [Note.req?, Option.some.injEq] at he; rw [← he]; rfl
        · exact hvis
      have := (allValid_append c.B c.L [] J.eops [op]).2 ⟨inv.n.valid, by simpa [AllValid] using hov⟩
      exact this

end Psi.E2E
