import PsiProofs.C11
import PsiProofs.Helper.C12_Run
/-!
Tie between the `concat` used inside the stage model (`Stages.cat` / `catAll`: only the contiguity check of `s0`)
and the full model of `pipeline.concat` of C11 (`Psi.PData.concat`: `ensure_dim`, `ndim`, `fs`, contiguity,
channel and metadata checks, `np.concatenate`, `PipelineData.__new__`).

A block of the stage model is embedded into the C11 array type:
* 1-D: samples are sample identities (`Nat`), `channel` one label, `metadata` one dict;
* 2-D with `c` channels: a time column is a `Fin c → Nat`; the C11 array has shape `[c, n]` and row-major data.
-/
namespace Psi.Stages
open Psi.PData (Label Md Chan Meta WF Dim)

/-- 1-D annotated block as a C11 array -/
def toPData1 (b : PD Nat Rat Label Md) : PData.PD :=
  ⟨[b.data.length], b.data, b.s0, b.ann.fs, .one b.ann.channel, .one b.ann.metadata⟩

/-- row `i` of a list of time columns (`i < c`; the `else` branch is never used) -/
def rowOf {c : Nat} (cols : List (Fin c → Nat)) (i : Nat) : List Nat :=
  cols.map fun col => if h : i < c then col ⟨i, h⟩ else 0

/-- row-major data of the `c × n` array whose time columns are `cols` -/
def rowMajor {c : Nat} (cols : List (Fin c → Nat)) : List Nat := (List.range c).flatMap (rowOf cols)

/-- 2-D annotated block (`c` channels, one label per channel) as a C11 array -/
def toPData2 {c : Nat} (b : PD (Fin c → Nat) Rat (List Label) Md) : PData.PD :=
  ⟨[c, b.data.length], rowMajor b.data, b.s0, b.ann.fs, .many b.ann.channel, .one b.ann.metadata⟩

variable {β ρ χ μ : Type}

/-- contiguous blocks pass the contiguity loop of `concat` -/
theorem checkS0_of_contig (emb : PD β ρ χ μ → PData.PD) (hs : ∀ b, (emb b).s0 = b.s0)
    (hn : ∀ b, (emb b).nTime = b.len) :
    ∀ (bs : List (PD β ρ χ μ)) (t : Int), Contig 1 t bs → PData.checkS0 t (bs.map emb) = true := by
  intro bs
  induction bs with
  | nil => intro t _; rfl
  | cons b bs ih =>
    intro t h
    obtain ⟨h1, h2⟩ := h
    simp only [List.map_cons, PData.checkS0, hs, hn, h1, beq_self_eq_true, Bool.true_and]
    have := ih _ h2
    simpa using this

theorem sum_len_outData (bs : List (PD β ρ χ μ)) : (bs.map fun b => b.data.length).sum = (outData bs).length := by
  induction bs with
  | nil => rfl
  | cons b bs ih => simp [outData] at *; omega

/-! ### 1-D -/

theorem toPData1_wf (b : PD Nat Rat Label Md) : WF (toPData1 b) := WF.d1 _ _ _ _ _ _ rfl

theorem joinData_1d (ps : List (PD Nat Rat Label Md)) :
    PData.joinData 0 1 (ps.map fun b => ((toPData1 b).shape, (toPData1 b).data)) = outData ps := by
  simp only [PData.joinData, List.range_one, List.flatMap_cons, List.flatMap_nil, List.append_nil, Nat.zero_mul,
    List.drop_zero]
  induction ps with
  | nil => rfl
  | cons b ps ih =>
    simp only [List.map_cons, List.flatMap_cons, ih, outData, List.flatten_cons]
    congr 1
    simp [toPData1, PData.blockLen, PData.prod_single]

/-- **the blocks a stage emits can be concatenated by the full `concat` of C11** (1-D): all its checks pass and
the result is the whole output with the first block's `s0` and the common rate, label and metadata -/
theorem Emits.concat_ok_1d {bs : List (PD Nat Rat Label Md)} {x : List Nat} {t : Int} {a : Ann Rat Label Md}
    (h : Emits bs x 1 t a) (hne : bs ≠ []) :
    PData.concat (bs.map toPData1) .time = .ok (toPData1 { data := x, s0 := t, ann := a }) := by
  cases bs with
  | nil => exact absurd rfl hne
  | cons b rest =>
    obtain ⟨hd, hc, ha⟩ := h
    have hb := ha b (by simp)
    have hr : ∀ d ∈ rest, d.ann = a := fun d hd => ha d (by simp [hd])
    rw [List.map_cons, PData.concat_adjacent_core .time (toPData1 b) (rest.map toPData1)]
    · have hjd := joinData_1d (b :: rest)
      simp only [List.map_cons] at hjd
      have hsum := sum_len_outData (b :: rest)
      simp only [List.map_cons, List.sum_cons] at hsum
      simp only [toPData1, PData.PD.ndim, List.length_singleton, PData.Dim.k, Nat.sub_self, List.take_zero,
        PData.prod_nil, List.map_cons, List.map_map, List.nil_append, List.drop_succ_cons, List.drop_nil,
        List.append_nil, PData.joinChan, PData.joinMeta, reduceCtorEq, if_false, List.sum_cons,
        PData.PD.mk.injEq, Except.ok.injEq] at hjd ⊢
      refine ⟨?_, ?_, hc.1, by rw [hb], by rw [hb], by rw [hb]⟩
      · rw [← hd, ← hsum]
        congr 2
      · rw [← hd, ← hjd]
        rfl
    · intro p hp
      simp only [List.mem_cons, List.mem_map] at hp
      rcases hp with rfl | ⟨d, _, rfl⟩ <;> exact toPData1_wf _
    · intro p hp
      simp only [List.mem_cons, List.mem_map] at hp
      rcases hp with rfl | ⟨d, _, rfl⟩ <;> rfl
    · simp [PData.Dim.k, PData.PD.ndim, toPData1]
    · refine ⟨?_, ?_, ?_, ?_⟩
      · intro p hp
        simp only [List.mem_map] at hp
        obtain ⟨d, hd', rfl⟩ := hp
        simp [toPData1, hr d hd', hb]
      · intro _
        have := checkS0_of_contig toPData1 (fun _ => rfl) (fun _ => rfl) rest _ hc.2
        simpa [toPData1, PData.PD.nTime, PD.len, hc.1] using this
      · intro _ p hp
        simp only [List.mem_map] at hp
        obtain ⟨d, hd', rfl⟩ := hp
        simp [toPData1, hr d hd', hb]
      · intro _ p hp
        simp only [List.mem_map] at hp
        obtain ⟨d, hd', rfl⟩ := hp
        simp [toPData1, hr d hd', hb]
    · intro p hp
      simp only [List.mem_map] at hp
      obtain ⟨d, _, rfl⟩ := hp
      simp [toPData1, PData.PD.ndim, PData.Dim.k]

/-- **the model's two-piece `cat` is the full `concat`** on pieces of one stream (same annotation record): it
succeeds exactly when `concat` does and gives the same array; when the second piece does not start where the
first ends both raise `ValueError` -/
theorem cat_is_concat_1d (p q : PD Nat Rat Label Md) (hann : q.ann = p.ann) :
    (q.s0 = p.s0 + p.len → ∃ r, cat p q = .ok r ∧ PData.concat [toPData1 p, toPData1 q] .time = .ok (toPData1 r))
    ∧ (q.s0 ≠ p.s0 + p.len → cat p q = .error .valueError
        ∧ PData.concat [toPData1 p, toPData1 q] .time = .error .valueError) := by
  constructor
  · intro hs
    refine ⟨{ p with data := p.data ++ q.data }, by simp [cat, hs], ?_⟩
    simp only [toPData1, hann, hs, PD.len]
    rw [PData.concat_adjacent_1d _ _ _ _ _ _ _ _ rfl rfl]
    simp
  · intro hs
    refine ⟨by simp [cat, hs], ?_⟩
    simp only [toPData1]
    exact PData.concat_rejects_1d _ _ _ _ _ _ _ _ _ _ _ _ rfl rfl (Or.inl hs)

/-- what the stage model leaves out: pieces with different rate, label or metadata are refused by `concat`
(a stream carries one annotation record, so this never happens inside a stage) -/
theorem concat_rejects_other_annotations_1d (p q : PD Nat Rat Label Md) (hann : q.ann ≠ p.ann) :
    PData.concat [toPData1 p, toPData1 q] .time = .error .valueError := by
  simp only [toPData1]
  apply PData.concat_rejects_1d _ _ _ _ _ _ _ _ _ _ _ _ rfl rfl
  obtain ⟨d1, s1, ⟨f1, c1, m1⟩⟩ := p
  obtain ⟨d2, s2, ⟨f2, c2, m2⟩⟩ := q
  simp only [ne_eq, Ann.mk.injEq, not_and] at hann
  by_cases h1 : f2 = f1
  · by_cases h2 : c2 = c1
    · exact Or.inr (Or.inr (Or.inr (hann h1 h2)))
    · exact Or.inr (Or.inr (Or.inl h2))
  · exact Or.inr (Or.inl h1)

/-! ### 2-D (`c` channels) -/

theorem flatMap_congr_mem {A B : Type} {f g : A → List B} : ∀ {l : List A}, (∀ a ∈ l, f a = g a) → l.flatMap f = l.flatMap g
  | [], _ => rfl
  | a :: l, h => by
    simp only [List.flatMap_cons, h a (by simp)]
    rw [flatMap_congr_mem (l := l) (fun b hb => h b (by simp [hb]))]

theorem length_range_flatMap (f : Nat → List Nat) (n : Nat) (hf : ∀ j, (f j).length = n) (c : Nat) :
    ((List.range c).flatMap f).length = c * n := by
  induction c with
  | zero => simp
  | succ c ih => rw [List.range_succ, List.flatMap_append, List.length_append, ih]; simp [hf, Nat.succ_mul]

/-- block `i` of `c` blocks of `n` entries laid end to end -/
theorem range_flatMap_block (f : Nat → List Nat) (n : Nat) (hf : ∀ j, (f j).length = n) :
    ∀ (c i : Nat), i < c → (((List.range c).flatMap f).drop (i * n)).take n = f i := by
  intro c
  induction c with
  | zero => intro i h; omega
  | succ c ih =>
    intro i hi
    have hlen := length_range_flatMap f n hf c
    rw [List.range_succ, List.flatMap_append]
    simp only [List.flatMap_cons, List.flatMap_nil, List.append_nil]
    by_cases hic : i < c
    · have hle : i * n + n ≤ c * n := by
        have : (i + 1) * n ≤ c * n := Nat.mul_le_mul_right n hic
        rw [Nat.succ_mul] at this; exact this
      rw [List.drop_append_of_le_length (by rw [hlen]; omega), List.take_append_of_le_length (by
        rw [List.length_drop, hlen]; omega)]
      exact ih i hic
    · have : i = c := by omega
      subst this
      rw [List.drop_append_of_le_length (by rw [hlen]; exact Nat.le_refl _), List.drop_of_length_le (by rw [hlen]; exact Nat.le_refl _)]
      simp only [List.nil_append]
      rw [List.take_of_length_le (by rw [hf]; exact Nat.le_refl _)]

theorem rowOf_length {c : Nat} (cols : List (Fin c → Nat)) (i : Nat) : (rowOf cols i).length = cols.length := by
  simp [rowOf]

theorem rowMajor_length {c : Nat} (cols : List (Fin c → Nat)) : (rowMajor cols).length = c * cols.length :=
  length_range_flatMap _ _ (rowOf_length cols) c

theorem rowOf_outData {c : Nat} (ps : List (PD (Fin c → Nat) Rat (List Label) Md)) (i : Nat) :
    rowOf (outData ps) i = ps.flatMap fun b => rowOf b.data i := by
  induction ps with
  | nil => rfl
  | cons b ps ih =>
    simp only [outData, List.map_cons, List.flatten_cons, List.flatMap_cons] at ih ⊢
    rw [← ih]
    simp [rowOf]

theorem toPData2_wf {c : Nat} (b : PD (Fin c → Nat) Rat (List Label) Md) (hl : b.ann.channel.length = c) :
    WF (toPData2 b) := WF.d2 _ _ _ _ _ _ _ (rowMajor_length _) hl

theorem joinData_2d {c : Nat} (ps : List (PD (Fin c → Nat) Rat (List Label) Md)) :
    PData.joinData 1 c (ps.map fun b => ((toPData2 b).shape, (toPData2 b).data)) = rowMajor (outData ps) := by
  unfold PData.joinData rowMajor
  apply flatMap_congr_mem
  intro i hi
  have hic : i < c := by simpa using hi
  rw [rowOf_outData, List.flatMap_map]
  apply flatMap_congr_mem
  intro b _
  have hbl : PData.blockLen 1 (toPData2 b).shape = b.data.length := by
    simp [toPData2, PData.blockLen, PData.prod_single]
  rw [hbl]
  exact range_flatMap_block (rowOf b.data) b.data.length (rowOf_length b.data) c i hic

/-- **the blocks a stage emits can be concatenated by the full `concat` of C11** (2-D, `c` channels with one label
each): all checks pass; the result is the `c × N` array of the whole output (row-major), with the first block's `s0`
and the common rate, labels and metadata -/
theorem Emits.concat_ok_2d {c : Nat} {bs : List (PD (Fin c → Nat) Rat (List Label) Md)} {x : List (Fin c → Nat)}
    {t : Int} {a : Ann Rat (List Label) Md} (h : Emits bs x 1 t a) (hl : a.channel.length = c) (hne : bs ≠ []) :
    PData.concat (bs.map toPData2) .time = .ok (toPData2 { data := x, s0 := t, ann := a }) := by
  cases bs with
  | nil => exact absurd rfl hne
  | cons b rest =>
    obtain ⟨hd, hc, ha⟩ := h
    have hb := ha b (by simp)
    have hr : ∀ d ∈ rest, d.ann = a := fun d hd => ha d (by simp [hd])
    rw [List.map_cons, PData.concat_adjacent_core .time (toPData2 b) (rest.map toPData2)]
    · have hjd := joinData_2d (b :: rest)
      simp only [List.map_cons] at hjd
      have hsum := sum_len_outData (b :: rest)
      simp only [List.map_cons, List.sum_cons] at hsum
      simp only [toPData2, PData.PD.ndim, List.length_cons, List.length_nil, PData.Dim.k, Nat.zero_add,
        Nat.reduceAdd, Nat.add_one_sub_one, List.take_succ_cons, List.take_zero, PData.prod_single,
        List.map_cons, List.map_map, List.drop_succ_cons, List.drop_nil,
        List.append_nil, PData.joinChan, PData.joinMeta, reduceCtorEq, if_false, List.sum_cons,
        PData.PD.mk.injEq, Except.ok.injEq, List.cons_append, List.nil_append] at hjd ⊢
      refine ⟨?_, ?_, hc.1, by rw [hb], by rw [hb], by rw [hb]⟩
      · rw [← hd, ← hsum]
        congr 3
      · rw [← hd, ← hjd]
        rfl
    · intro p hp
      simp only [List.mem_cons, List.mem_map] at hp
      rcases hp with rfl | ⟨d, hd', rfl⟩
      · exact toPData2_wf _ (by rw [hb]; exact hl)
      · exact toPData2_wf _ (by rw [hr d hd']; exact hl)
    · intro p hp
      simp only [List.mem_cons, List.mem_map] at hp
      rcases hp with rfl | ⟨d, _, rfl⟩ <;> rfl
    · simp [PData.Dim.k, PData.PD.ndim, toPData2]
    · refine ⟨?_, ?_, ?_, ?_⟩
      · intro p hp
        simp only [List.mem_map] at hp
        obtain ⟨d, hd', rfl⟩ := hp
        simp [toPData2, hr d hd', hb]
      · intro _
        have := checkS0_of_contig (toPData2 (c := c)) (fun _ => rfl) (fun _ => rfl) rest _ hc.2
        simpa [toPData2, PData.PD.nTime, PD.len, hc.1] using this
      · intro _ p hp
        simp only [List.mem_map] at hp
        obtain ⟨d, hd', rfl⟩ := hp
        simp [toPData2, hr d hd', hb]
      · intro _ p hp
        simp only [List.mem_map] at hp
        obtain ⟨d, hd', rfl⟩ := hp
        simp [toPData2, hr d hd', hb]
    · intro p hp
      simp only [List.mem_map] at hp
      obtain ⟨d, _, rfl⟩ := hp
      simp [toPData2, PData.PD.ndim, PData.Dim.k]

end Psi.Stages
