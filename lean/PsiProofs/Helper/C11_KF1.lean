import PsiProofs.Helper.C11_Data
/-! `x[eIt, cIt, ts]` on a 3-D array: annotations are selected per axis (`getitem_ecs`); NumPy keeps one axis per entry
unless two entries are lists/masks (`npOfSels_single`, `npOfSels_two`) — the boundary of finding C11-KF1. -/
set_option linter.unusedSimpArgs false
namespace Psi.PData

/-- entries that may address the channel / epoch axis inside an indexing tuple: int, slice, int list, bool list
(ndarrays inside a tuple are refused by `normalize_index`). -/
def Item.simple : Item → Prop
  | .int _ | .slice _ | .ilist _ | .blist _ => True
  | _ => False

/-- the normalised entry. -/
def Item.toN : Item → NItem
  | .int i => .int i
  | .slice s => .slice s
  | .ilist l => .ilist l
  | .blist l => .blist l
  | _ => .newaxis

theorem listGet_ok {α} (l : List α) (i : Int) (p : Nat) (h : wrapIndex i l.length = .ok p) (d : α) :
    listGet l i = .ok (l.getD p d) := by
  have hlt := wrapIndex_lt h
  simp [listGet, h, List.getElem?_eq_getElem hlt, List.getD]

theorem fixChannel_sel (obj : PD) (l : List Label) (hc : obj.channel = .many l) (it : Item) (hs : it.simple)
    (sel : Sel) (h : itemSel it l.length = .ok sel) :
    fixChannel true obj (some it.toN) = .ok { obj with channel := selChan l sel } := by
  cases it with
  | newaxis => exact absurd hs (by simp [Item.simple])
  | ellipsis => exact absurd hs (by simp [Item.simple])
  | iarr _ => exact absurd hs (by simp [Item.simple])
  | barr _ => exact absurd hs (by simp [Item.simple])
  | int i =>
    simp only [itemSel, Except.map] at h
    split at h
    · cases h
    · rename_i p hp; cases h
      simp [fixChannel, Item.toN, hc, listGet_ok l i p hp none, selChan]
  | slice s =>
    simp only [itemSel, Except.map] at h
    split at h
    · cases h
    · rename_i ps hp; cases h
      simp [fixChannel, Item.toN, hc, listSlice, hp, selChan, listTake]
  | ilist idx =>
    simp only [itemSel] at h
    split at h
    · rename_i he; cases h
      have : idx = [] := by simpa using he
      subst this
      have hw : wrapAll [] l.length = .ok [] := rfl
      simp [fixChannel, Item.toN, hc, selChan, listTake, hw]
    · simp only [Except.map] at h
      split at h
      · cases h
      · rename_i ps hp; cases h
        simp [fixChannel, Item.toN, hc, selChan, hp]
  | blist m =>
    simp only [itemSel] at h
    split at h
    · rename_i he; cases h
      simp [fixChannel, Item.toN, hc, selChan, listTake, he]
    · rename_i he
      simp only [Except.map] at h
      split at h
      · cases h
      · rename_i ps hp; cases h
        simp [fixChannel, Item.toN, hc, selChan, hp, he]

theorem fixEpoch_sel (obj : PD) (l : List Md) (hc : obj.metadata = .many l) (it : Item) (hs : it.simple)
    (sel : Sel) (h : itemSel it l.length = .ok sel) :
    fixEpoch obj (some it.toN) = .ok { obj with metadata := selMeta l sel } := by
  cases it with
  | newaxis => exact absurd hs (by simp [Item.simple])
  | ellipsis => exact absurd hs (by simp [Item.simple])
  | iarr _ => exact absurd hs (by simp [Item.simple])
  | barr _ => exact absurd hs (by simp [Item.simple])
  | int i =>
    simp only [itemSel, Except.map] at h
    split at h
    · cases h
    · rename_i p hp; cases h
      simp [fixEpoch, Item.toN, hc, listGet_ok l i p hp 0, selMeta]
  | slice s =>
    simp only [itemSel, Except.map] at h
    split at h
    · cases h
    · rename_i ps hp; cases h
      simp [fixEpoch, Item.toN, hc, listSlice, hp, selMeta, listTake]
  | ilist idx =>
    simp only [itemSel] at h
    split at h
    · rename_i he; cases h
      simp [fixEpoch, Item.toN, hc, selMeta, listTake, he]
    · rename_i he
      simp only [Except.map] at h
      split at h
      · cases h
      · rename_i ps hp; cases h
        simp [fixEpoch, Item.toN, hc, selMeta, hp, he]
  | blist m =>
    simp only [itemSel] at h
    split at h
    · rename_i he; cases h
      simp [fixEpoch, Item.toN, hc, selMeta, listTake, he]
    · rename_i he
      simp only [Except.map] at h
      split at h
      · cases h
      · rename_i ps hp; cases h
        simp [fixEpoch, Item.toN, hc, selMeta, hp, he]


theorem Item.simple_flags {it : Item} (h : it.simple) :
    it.isEllipsis = false ∧ it.consumes = true ∧ it.isNewaxis = false := by
  cases it <;> simp_all [Item.simple, Item.isEllipsis, Item.consumes, Item.isNewaxis]

theorem norm_ecs (eIt cIt : Item) (he : eIt.simple) (hc : cIt.simple) (ts : PySlice) :
    normalizeIndexG true (.tuple [eIt, cIt, .slice ts]) 3 = .ok [eIt.toN, cIt.toN, .slice ts] := by
  cases eIt <;> cases cIt <;> simp_all [Item.simple] <;>
    simp [normalizeIndexG, normTuple, normLoop, Item.isEllipsis, Item.isNewaxis, Item.toN, fullSlices, Except.map, List.filter]

theorem slicePositions_step {s : PySlice} {n : Nat} {ps : List Nat} (h : slicePositions s n = .ok ps) : s.step ≠ some 0 := by
  intro h0
  simp [slicePositions, sliceIndices, h0] at h

theorem fixTime_slice_ok (a obj : PD) (ts : PySlice) (h : ts.step ≠ some 0) :
    ∃ S F, fixTime true a obj (.slice ts) = .ok { obj with s0 := S, fs := F } := by
  obtain ⟨st, sp, step⟩ := ts
  cases step with
  | none => exact ⟨_, obj.fs, by simp only [fixTime]; rfl⟩
  | some st' =>
    have : st' ≠ 0 := by rintro rfl; exact h rfl
    exact ⟨_, _, by simp only [fixTime, this, ↓reduceIte]; rfl⟩


/-- `x[eIt, cIt, ts]` on a 3-D array: the annotations are selected per axis, whatever NumPy does with the data. -/
theorem getitem_ecs (e c n : Nat) (data : List Nat) (s0 : Int) (fs : Rat) (l : List Label) (ms : List Md)
    (hl : l.length = c) (hm : ms.length = e) (eIt cIt : Item) (he : eIt.simple) (hc : cIt.simple) (ts : PySlice)
    (selE selC : Sel) (tps : List Nat) (hE : itemSel eIt e = .ok selE) (hC : itemSel cIt c = .ok selC)
    (hT : slicePositions ts n = .ok tps) (sel : NPSel)
    (hnp : npGetitem [e, c, n] [eIt, cIt, .slice ts] = .ok sel) :
    ∃ S F, getitem ⟨[e, c, n], data, s0, fs, .many l, .many ms⟩ (.tuple [eIt, cIt, .slice ts]) =
      .ok (.arr ⟨sel.shape, pick data sel.offsets, S, F, selChan l selC, selMeta ms selE⟩) := by
  subst hl hm
  let a : PD := ⟨[ms.length, l.length, n], data, s0, fs, .many l, .many ms⟩
  let obj : PD := ⟨sel.shape, List.map (fun o => data.getD o 0) sel.offsets, s0, fs, .many l, .many ms⟩
  obtain ⟨S, F, hft⟩ := fixTime_slice_ok a obj ts (slicePositions_step hT)
  have hfc := fixChannel_sel { obj with s0 := S, fs := F } l rfl cIt hc selC hC
  have hfe := fixEpoch_sel { obj with s0 := S, fs := F, channel := selChan l selC } ms rfl eIt he selE hE
  refine ⟨S, F, ?_⟩
  have hsc : isScalarResult [ms.length, l.length, n] [eIt, cIt, .slice ts] = false := by
    simp [isScalarResult]
  simp only [getitem, getitemG, Index.items, hnp, hsc, Bool.false_eq_true, ↓reduceIte, PD.ndim, List.length_cons,
    List.length_nil, Fixes.all, norm_ecs eIt cIt he hc ts, fixups, splitNorm, finalize]
  simp only [a, obj] at hft hfc hfe
  simp only [hft, hfc, hfe, Except.map, pick]


theorem itemsAdjacent_ecs (eIt cIt : Item) (he : eIt.simple) (hc : cIt.simple) (ts : PySlice) :
    itemsAdjacent [eIt, cIt, .slice ts] = true := by
  cases eIt <;> cases cIt <;> simp_all [Item.simple] <;> rfl

theorem itemSel_ne_new {it : Item} (h : it.simple) {n : Nat} {sel : Sel} (hs : itemSel it n = .ok sel) : sel ≠ .new := by
  cases it <;> simp_all [Item.simple, itemSel, Except.map] <;> (try split at hs) <;> (try split at hs) <;> simp_all <;>
    (subst hs; simp)

/-- NumPy's result once every entry has been paired with its axis (advanced entries adjacent). -/
def npOfSels (sels : List (Sel × Nat)) : Except Err NPSel :=
  if sels.any (fun e => e.1.isFancy) then
    match broadcastLen sels with
    | .error e => .error e
    | .ok none => .error .indexError
    | .ok (some k) => .ok ⟨0, axesInPlace ((List.range k).map fun j => advOffset j sels) false sels, sels⟩
  else .ok ⟨advOffset 0 sels, sels.filterMap plainAxis, sels⟩

theorem npGetitem_ecs (e c n : Nat) (eIt cIt : Item) (he : eIt.simple) (hc : cIt.simple) (ts : PySlice)
    (selE selC : Sel) (tps : List Nat) (hE : itemSel eIt e = .ok selE) (hC : itemSel cIt c = .ok selC)
    (hT : slicePositions ts n = .ok tps) :
    npGetitem [e, c, n] [eIt, cIt, .slice ts] = npOfSels [(selE, c * n), (selC, n), (.basic tps, 1)] := by
  have fe := Item.simple_flags he
  have fc := Item.simple_flags hc
  have f1 : (Item.slice ts).isEllipsis = false := rfl
  have f2 : (Item.slice ts).consumes = true := rfl
  have f3 : itemSel (.slice ts) n = .ok (.basic tps) := by simp [itemSel, hT, Except.map]
  simp [npGetitem, npOfSels, List.filter, fe, fc, f1, f2, f3, assignAxes, strides, hE, hC,
    Except.map, itemsAdjacent_ecs eIt cIt he hc ts]
  generalize broadcastLen _ = b
  rcases b with _ | _ | _ <;> rfl

/-- at most one list/mask entry: every entry keeps its own axis. -/
theorem npOfSels_single (selE selC : Sel) (tps : List Nat) (se sc : Nat) (hne : selE ≠ .new) (hnc : selC ≠ .new)
    (h1 : ¬ (selE.isFancy = true ∧ selC.isFancy = true)) :
    ∃ sel, npOfSels [(selE, se), (selC, sc), (.basic tps, 1)] = .ok sel ∧
      sel.shape = selShape selE ++ selShape selC ++ [tps.length] := by
  cases selE <;> cases selC <;> simp_all [Sel.isFancy] <;>
    simp [npOfSels, Sel.isFancy, broadcastLen, axesInPlace, plainAxis, advOffset, NPSel.shape, selShape, List.filterMap]

/-- two list/mask entries: NumPy pairs them element-wise, their axes merge into one of the broadcast length. -/
theorem npOfSels_two (pe pc tps : List Nat) (se sc : Nat) (sel : NPSel)
    (h : npOfSels [(.fancy pe, se), (.fancy pc, sc), (.basic tps, 1)] = .ok sel) :
    ∃ k, sel.shape = [k, tps.length] ∧ (pe.length = k ∧ pc.length = k ↔ pe.length = pc.length) := by
  simp only [npOfSels, Sel.isFancy, List.any_cons, Bool.true_or, ↓reduceIte, broadcastLen] at h
  split at h
  · cases h
  · cases h
  · rename_i k hk
    cases h
    refine ⟨k, by simp [axesInPlace, plainAxis, NPSel.shape], ?_⟩
    split at hk
    · cases hk; omega
    · split at hk
      · cases hk; omega
      · split at hk
        · cases hk; omega
        · cases hk

/-- the two-entry spelling `x[eIt, cIt]` is the three-entry one with a full time slice. -/
theorem getitem_ec_eq (e c n : Nat) (data : List Nat) (s0 : Int) (fs : Rat) (ch : Chan) (md : Meta)
    (eIt cIt : Item) (he : eIt.simple) (hc : cIt.simple) :
    getitem ⟨[e, c, n], data, s0, fs, ch, md⟩ (.tuple [eIt, cIt]) =
      getitem ⟨[e, c, n], data, s0, fs, ch, md⟩ (.tuple [eIt, cIt, .slice .all]) := by
  have fe := Item.simple_flags he
  have fc := Item.simple_flags hc
  have hnp : npGetitem [e, c, n] [eIt, cIt] = npGetitem [e, c, n] [eIt, cIt, .slice .all] := by
    have hadj : itemsAdjacent [eIt, cIt] = true := by
      cases eIt <;> cases cIt <;> simp_all [Item.simple] <;> rfl
    have f1 : (Item.slice .all).isEllipsis = false := rfl
    have f2 : (Item.slice .all).consumes = true := rfl
    simp [npGetitem, List.filter, fe, fc, f1, f2, hadj, itemsAdjacent_ecs eIt cIt he hc .all]
  have hnorm : normalizeIndexG true (.tuple [eIt, cIt]) 3 = normalizeIndexG true (.tuple [eIt, cIt, .slice .all]) 3 := by
    rw [norm_ecs eIt cIt he hc]
    cases eIt <;> cases cIt <;> simp_all [Item.simple] <;>
      simp [normalizeIndexG, normTuple, normLoop, Item.isEllipsis, Item.isNewaxis, Item.toN, fullSlices, Except.map,
        List.filter]
  have hs1 : isScalarResult [e, c, n] [eIt, cIt] = false := by simp [isScalarResult]
  have hs2 : isScalarResult [e, c, n] [eIt, cIt, .slice .all] = false := by simp [isScalarResult]
  simp only [getitem, getitemG, Index.items, hnp, hs1, hs2, PD.ndim, List.length_cons, List.length_nil, Fixes.all, hnorm]

end Psi.PData
