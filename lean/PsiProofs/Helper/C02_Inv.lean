import PsiProofs.Helper.C02_Render
/-! `tick` / `runTicks` preserve WF and advance the clock by one per sample. -/
namespace Psi.Queue

theorem emitSrc_WF {s : QState} {src : Src} (hw : WF s) (hs : s.source = some src) (hlt : src.off < src.len) :
    WF (emitSrc s src).2 := by
  refine ⟨by simpa [emitSrc, bump] using hw.data, ?_⟩
  intro src' h'
  simp only [emitSrc, bump] at h'
  obtain ⟨hl, _, _⟩ := hw.src src hs
  split at h'
  · simp at h'
  · rename_i hc
    simp only [Option.some.injEq] at h'
    subst h'
    simp only [Bool.and_eq_true, decide_eq_true_eq, not_and] at hc
    exact ⟨hl, by simp only; omega, fun hg => by have := hc hg; simp only; omega⟩

theorem tick_WF {s s' : QState} {c : Cell} (hw : WF s) (h : tick s = .ok (c, s')) : WF s' := by
  cases tick_cases h with
  | paused _ _ hs => subst hs; exact ⟨by simpa [bump] using hw.data, by simpa [bump] using hw.src⟩
  | play src _ hsrc hlt he =>
    have := emitSrc_WF hw hsrc hlt
    rw [← he] at this; exact this
  | gap _ _ _ _ hs => subst hs; exact ⟨by simpa [bump, dropSrc] using hw.data, by simp [bump, dropSrc]⟩
  | dry _ _ _ _ _ hs => subst hs; exact ⟨by simpa [bump, dropSrc] using hw.data, by simp [bump, dropSrc]⟩
  | start s1 src _ _ _ hn hsrc hlt he =>
    have hwd : WF (dropSrc s) := ⟨by simpa [dropSrc] using hw.data, by simp [dropSrc]⟩
    have hw1 := (nextTrial_WF hwd hn).1
    have := emitSrc_WF hw1 hsrc hlt
    rw [← he] at this; exact this

theorem tick_samples {s s' : QState} {c : Cell} (h : tick s = .ok (c, s')) : s'.samples = s.samples + 1 := by
  cases tick_cases h with
  | paused _ _ hs => subst hs; simp [bump]
  | play src _ _ _ he =>
    have := (emitSrc_fields s src).2.2.1
    rw [← he] at this; exact this
  | gap _ _ _ _ hs => subst hs; simp [bump, dropSrc]
  | dry _ _ _ _ _ hs => subst hs; simp [bump, dropSrc]
  | start s1 src _ _ _ hn _ _ he =>
    obtain ⟨_, _, _, _, _, _, _, _, _, hsm, _⟩ := nextTrial_obs hn
    have := (emitSrc_fields s1 src).2.2.1
    rw [← he] at this; rw [this, hsm]; simp [dropSrc]

theorem runTicks_inv (n : Nat) {s s' : QState} {cs : List Cell} (hw : WF s)
    (h : runTicks n s = .ok (cs, s')) : WF s' ∧ s'.samples = s.samples + (n : Nat) ∧ cs.length = n := by
  induction n generalizing s cs with
  | zero => simp [runTicks] at h; obtain ⟨rfl, rfl⟩ := h; exact ⟨hw, by simp, rfl⟩
  | succ n ih =>
    rw [runTicks] at h
    cases ht : tick s with
    | error e => simp [ht] at h
    | ok r =>
      obtain ⟨c, s1⟩ := r
      simp only [ht] at h
      cases hr : runTicks n s1 with
      | error e => simp [hr] at h
      | ok r2 =>
        obtain ⟨cs2, s2⟩ := r2
        simp only [hr, Except.ok.injEq, Prod.mk.injEq] at h
        obtain ⟨rfl, rfl⟩ := h
        obtain ⟨a, b, c'⟩ := ih (tick_WF hw ht) hr
        refine ⟨a, ?_, by simp [c']⟩
        rw [b, tick_samples ht]; push_cast; omega

theorem slack_le (s : QState) : slack s ≤ 3 := by
  unfold slack; split <;> (try split) <;> (try split) <;> omega

end Psi.Queue
