import PsiModel.Edges
import PsiProofs.Helper.C13_Window
/-!
C13, stream level: the windows seen by successive steps are infixes of `replicate m init ++ stream`;
every block is a filter of the stream's transition list.
-/
set_option linter.unusedSimpArgs false
namespace Psi.Edges
open Psi.Epochs

/-- the precondition: any two transitions of the stream (the first sample is compared with the
initial state) are more than `m` samples apart, i.e. every run between two transitions exceeds `m`.
The run before the first and the run after the last transition are unconstrained. -/
def Clean (m : Nat) (i0 : Bool) (x : List Bool) : Prop :=
  (edgesOf i0 0 x).Pairwise (Gap m)

/-- block `j` as the specification sees it: the transitions selected by `sel`, span `[s0, s0 + n)` -/
def specBlocks (det : Detect) (m : Nat) (G : List Event) : Int → List (List Bool) → List Block
  | _, [] => []
  | s0, c :: cs =>
    ⟨G.filter (sel det m s0 c.length), s0, s0 + c.length⟩ :: specBlocks det m G (s0 + c.length) cs

theorem edgesOf_shift (d : Int) : ∀ (xs : List Bool) (prev : Bool) (pos : Int),
    edgesOf prev (pos + d) xs = (edgesOf prev pos xs).map (fun e => ⟨e.kind, e.sample + d⟩) := by
  intro xs
  induction xs with
  | nil => intro _ _; rfl
  | cons b xs ih =>
    intro prev pos
    simp only [edgesOf, List.map_append]
    have : pos + d + 1 = pos + 1 + d := by omega
    rw [this, ih b (pos + 1)]
    split <;> simp

theorem edgesOf_append : ∀ (xs ys : List Bool) (prev : Bool) (pos : Int),
    edgesOf prev pos (xs ++ ys)
      = edgesOf prev pos xs ++ edgesOf (final prev xs) (pos + xs.length) ys := by
  intro xs
  induction xs with
  | nil => intro ys prev pos; simp [edgesOf, final]
  | cons b xs ih =>
    intro ys prev pos
    simp only [List.cons_append, edgesOf, final, ih, List.append_assoc, List.length_cons]
    have : pos + 1 + (xs.length : Int) = pos + ((xs.length + 1 : Nat) : Int) := by omega
    rw [this]

theorem edgesOf_bounds : ∀ (xs : List Bool) (prev : Bool) (pos : Int),
    ∀ e ∈ edgesOf prev pos xs, pos ≤ e.sample ∧ e.sample < pos + xs.length := by
  intro xs
  induction xs with
  | nil => intro _ _ e h; simp [edgesOf] at h
  | cons b xs ih =>
    intro prev pos e h
    simp only [edgesOf, List.mem_append] at h
    rcases h with h | h
    · split at h
      · simp at h; subst h; simp; omega
      · simp at h
    · have := ih b (pos + 1) e h
      simp only [List.length_cons]; omega

theorem edgesOf_replicate (b : Bool) : ∀ (k : Nat) (pos : Int),
    edgesOf b pos (List.replicate k b) = [] ∧ final b (List.replicate k b) = b := by
  intro k
  induction k with
  | zero => intro pos; simp [edgesOf, final]
  | succ k ih =>
    intro pos
    simp [List.replicate_succ, edgesOf, final, ih (pos + 1)]

theorem clean_at {m : Nat} {i0 : Bool} {x : List Bool} (h : Clean m i0 x) (s : Int) :
    (edgesOf i0 s x).Pairwise (Gap m) := by
  have := edgesOf_shift s x i0 0
  rw [Int.zero_add] at this
  rw [this, List.pairwise_map]
  refine List.Pairwise.imp ?_ h
  intro a b hab
  simp only [Gap] at hab ⊢
  omega

/-- a window `W` (`m + n` samples, first sample at absolute index `s0`) inside a longer stream:
the transitions of the stream selected by `sel … s0 n` are those of the window, and the window's
transitions inherit the spacing. -/
theorem window_of_stream (i0 : Bool) (base : Int) (front W rest : List Bool) (m n : Nat)
    (det : Detect) (hm : 1 ≤ m) (hW : W.length = m + n) :
    ((edgesOf i0 base (front ++ W ++ rest)).filter (sel det m (base + front.length) n)
        = (wEdges (base + front.length) W).filter (sel det m (base + front.length) n)) ∧
    ((edgesOf i0 base (front ++ W ++ rest)).Pairwise (Gap m) →
        (wEdges (base + front.length) W).Pairwise (Gap m)) := by
  cases W with
  | nil => simp at hW; omega
  | cons b w =>
    have hlen : ((b :: w).length : Int) = (m : Int) + n := by rw [hW]; omega
    rw [List.append_assoc, edgesOf_append, edgesOf_append]
    generalize final i0 front = f1
    generalize final f1 (b :: w) = f2
    simp only [edgesOf, wEdges]
    generalize hs0 : base + (front.length : Int) = s0
    have hA := edgesOf_bounds front i0 base
    have hB := edgesOf_bounds rest f2 (s0 + ((b :: w).length : Int))
    constructor
    · simp only [List.filter_append]
      have e1 : (edgesOf i0 base front).filter (sel det m s0 n) = [] := by
        rw [List.filter_eq_nil_iff]
        intro e he
        have := hA e he
        cases hk : e.kind <;> simp [sel, hk] <;> intros <;> omega
      have e2 : (if (b != f1) = true then [Event.mk (if b = true then Kind.rising else Kind.falling) s0]
          else []).filter (sel det m s0 n) = [] := by
        split
        · cases b <;> simp [sel] <;> intros <;> omega
        · rfl
      have e3 : (edgesOf f2 (s0 + ((b :: w).length : Int)) rest).filter (sel det m s0 n) = [] := by
        rw [List.filter_eq_nil_iff]
        intro e he
        have := hB e he
        cases hk : e.kind <;> simp [sel, hk] <;> intros <;> omega
      rw [e1, e2, e3]; simp
    · intro hp
      have h1 := (List.pairwise_append.mp hp).2.1
      have h2 := (List.pairwise_append.mp h1).1
      exact (List.pairwise_append.mp h2).2.1

/-- invariant of `run`: before a chunk, the state holds the last `m` samples of
`replicate m i0 ++ (samples consumed so far)` and the absolute index of the first of them. -/
theorem run_spec_aux (m : Nat) (det : Detect) (i0 : Bool) (base : Int) (hm : 1 ≤ m) :
    ∀ (cs : List (List Bool)) (pre : List Bool),
    (edgesOf i0 base (List.replicate m i0 ++ pre ++ cs.flatten)).Pairwise (Gap m) →
    run m det ⟨(List.replicate m i0 ++ pre).drop pre.length, base + pre.length⟩ cs
      = .ok (⟨(List.replicate m i0 ++ pre ++ cs.flatten).drop (pre ++ cs.flatten).length,
              base + (pre ++ cs.flatten).length⟩,
             specBlocks det m (edgesOf i0 base (List.replicate m i0 ++ pre ++ cs.flatten))
               (base + pre.length) cs) := by
  intro cs
  induction cs with
  | nil => intro pre _; simp [run, specBlocks]
  | cons c cs ih =>
    intro pre hG
    -- split `replicate ++ pre` into what has left the window and the carried samples
    have hsplit := List.take_append_drop pre.length (List.replicate m i0 ++ pre)
    generalize hfront : (List.replicate m i0 ++ pre).take pre.length = front at hsplit
    generalize hprior : (List.replicate m i0 ++ pre).drop pre.length = prior at hsplit
    have hfl : front.length = pre.length := by
      rw [← hfront, List.length_take]; simp
    have hpl : prior.length = m := by
      rw [← hprior, List.length_drop]; simp
    have hfull : List.replicate m i0 ++ pre ++ (c :: cs).flatten
        = front ++ (prior ++ c) ++ cs.flatten := by
      rw [← hsplit]; simp
    have hfull' : List.replicate m i0 ++ (pre ++ c) ++ cs.flatten
        = List.replicate m i0 ++ pre ++ (c :: cs).flatten := by simp
    obtain ⟨hfilt, hgap⟩ := window_of_stream i0 base front (prior ++ c) cs.flatten m c.length det hm
      (by simp [hpl])
    rw [← hfull, hfl] at hfilt hgap
    have hstep := step_events m c.length det ⟨prior, base + pre.length⟩ c hpl rfl (hgap hG)
    simp only at hstep
    have hih := ih (pre ++ c) (by rw [hfull']; exact hG)
    rw [hfull'] at hih
    have hprior' : (List.replicate m i0 ++ (pre ++ c)).drop (pre ++ c).length
        = (prior ++ c).drop ((prior ++ c).length - m) := by
      have : List.replicate m i0 ++ (pre ++ c) = front ++ (prior ++ c) := by
        rw [← List.append_assoc, ← List.append_assoc, hsplit]
      rw [this, List.drop_append, List.drop_eq_nil_of_le (by simp; omega)]
      simp [hfl, hpl]
    have hs0 : base + ((pre ++ c).length : Int) = base + (pre.length : Int) + (c.length : Int) := by
      simp; omega
    rw [hprior', hs0] at hih
    simp only [run, hstep, hih, specBlocks, hfilt]
    have e1 : (pre ++ c ++ cs.flatten).length = (pre ++ (c :: cs).flatten).length := by simp
    rw [e1]

end Psi.Edges
