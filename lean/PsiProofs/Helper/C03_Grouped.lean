import PsiProofs.Helper.C03_Policy
/-! Grouped FIFO (and Blocked FIFO = one group): groups of `g` consecutive stimuli are worked off one
after the other; inside a group the cursor advances round-robin over all its members until none of
them has a positive counter. -/
namespace Psi.Queue

theorem take_range' (a n k : Nat) : (List.range' a n).take k = List.range' a (min k n) := by
  induction k generalizing a n with
  | zero => simp
  | succ k ih =>
    cases n with
    | zero => simp
    | succ n =>
      rw [List.range'_succ, List.take_succ_cons, ih, Nat.succ_min_succ, List.range'_succ]

theorem all_range'_iff (a m : Nat) (p : Nat → Bool) :
    (List.range' a m).all p = true ↔ ∀ k, a ≤ k → k < a + m → p k = true := by
  rw [List.all_eq_true]
  constructor
  · intro h k h1 h2; exact h k (List.mem_range'_1.mpr ⟨h1, h2⟩)
  · intro h k hk; obtain ⟨h1, h2⟩ := List.mem_range'_1.mp hk; exact h k h1 h2

/-- cursor implied by the key log: offset of the last key inside its group, −1 before the first trial -/
def lastMod (g : Nat) (L : List Nat) : Int :=
  match L.getLast? with
  | some k => ((k % g : Nat) : Int)
  | none => -1

theorem lastMod_snoc (g : Nat) (L : List Nat) (k : Nat) : lastMod g (L ++ [k]) = ((k % g : Nat) : Int) := by
  simp [lastMod]

/-- `k` is a legitimate next key of a grouped queue with group size `g` after the trials `P`:
every earlier group is satisfied, the group of `k` is not, and `k` sits one place after the
previous key's offset (cyclically within the group of `k`, which has `min g (n − g·c)` members). -/
def GroupPick (n : Nat) (req : Nat → Int) (g : Nat) (P : List Nat) (k : Nat) : Prop :=
  (∀ k', k' < g * (k / g) → k' < n → req k' ≤ ((P.count k' : Nat) : Int)) ∧
  (∃ k', g * (k / g) ≤ k' ∧ k' < g * (k / g) + g ∧ k' < n ∧ ((P.count k' : Nat) : Int) < req k') ∧
  ((k % g : Nat) : Int) = (lastMod g P + 1) % ((min g (n - g * (k / g)) : Nat) : Int)

structure GroupInv (n : Nat) (req : Nat → Int) (g : Nat) (v : PView) : Prop where
  base : Base n req v
  kind : v.kind = .grouped
  gs : v.gsize = g
  gpos : 1 ≤ g
  cur : v.cursor = lastMod g v.keys
  grp : ∃ c, v.ordering = List.range' (g * c) (n - g * c) ∧
    (∀ k, k < g * c → k < n → trv v.data k ≤ 0) ∧
    (g * c < n → ∃ k, g * c ≤ k ∧ k < g * c + g ∧ k < n ∧ 0 < trv v.data k) ∧
    (∀ k, g * c + g ≤ k → k < n → 0 < trv v.data k) ∧
    (∀ k ∈ v.keys, k < g * c + g)
  order : ∀ j (h : j < v.keys.length), GroupPick n req g (v.keys.take j) v.keys[j]

theorem GroupInv_init {s : QState} (h : Loaded s) (hk : s.kind = .grouped) :
    GroupInv s.data.length (fun k => trialsOf s k) s.gsize (view s) := by
  refine ⟨Base_init h, hk, rfl, h.gsize hk, by simp [view, h.cursor, h.added, lastMod], ?_, ?_⟩
  · refine ⟨0, by simp [view, h.ordering, List.range_eq_range'], by intro k hk'; omega, ?_, ?_,
      by simp [view, h.added]⟩
    · intro hn
      have := h.gsize hk
      exact ⟨0, by omega, by omega, h.pos,
        by have := h.trials h.pos; rw [trialsOf_eq] at this; simp only [view]; omega⟩
    · intro k _ hk'
      have := h.trials hk'; rw [trialsOf_eq] at this; simp only [view]; omega
  · intro m hm; simp [view, h.added] at hm

theorem nextKey_grouped {s : QState} {a m : Nat} (hkind : s.kind = .grouped) (hg : 1 ≤ s.gsize)
    (ho : s.ordering = List.range' a m) (hm : 0 < m) :
    ∃ o : Nat, o < min s.gsize m ∧ (o : Int) = (s.cursor + 1) % ((min s.gsize m : Nat) : Int) ∧
      nextKey s = .ok (some (a + o, { s with cursor := (o : Int) })) := by
  have hmin : 0 < min s.gsize m := by omega
  refine ⟨((s.cursor + 1) % ((min s.gsize m : Nat) : Int)).toNat, idx_lt' hmin _, idx_cast' hmin _, ?_⟩
  unfold nextKey
  have hl : s.ordering.length = m := by simp [ho]
  have hl0 : ¬ m = 0 := by omega
  have hg0 : ¬ min s.gsize m = 0 := by omega
  simp only [hkind, hl, hl0, if_false, hg0]
  rw [ho, List.getElem?_range' (by have := idx_lt' hmin (s.cursor + 1); omega)]
  simp only [Nat.one_mul, idx_cast' hmin]
where
  idx_lt' {n : Nat} (hn : 0 < n) (x : Int) : (x % (n : Int)).toNat < n := by
    have h1 : 0 ≤ x % (n : Int) := Int.emod_nonneg _ (by omega)
    have h2 : x % (n : Int) < n := Int.emod_lt_of_pos _ (by omega)
    omega
  idx_cast' {n : Nat} (hn : 0 < n) (x : Int) : (((x % (n : Int)).toNat : Nat) : Int) = x % (n : Int) :=
    Int.toNat_of_nonneg (Int.emod_nonneg _ (by omega))

theorem GroupInv_step {n : Nat} {req : Nat → Int} {g : Nat} (s : QState)
    (hi : GroupInv n req g (view s)) :
    nextTrial s = .ok none ∨ ∃ s1, nextTrial s = .ok (some s1) ∧ GroupInv n req g (view s1) := by
  have hlen : s.data.length = n := hi.base.len
  have hkind : s.kind = .grouped := hi.kind
  have hgs : s.gsize = g := hi.gs
  have hg := hi.gpos
  have hcur : s.cursor = lastMod g (view s).keys := hi.cur
  obtain ⟨c, hord, hcompl, hopen, hlater, hbound⟩ := hi.grp
  have hord' : s.ordering = List.range' (g * c) (n - g * c) := hord
  by_cases hdone : n ≤ g * c
  · left
    apply nextTrial_none_of
    rw [nextKey_none_iff]
    have : n - g * c = 0 := by omega
    simp [Done, hkind, hord', this]
  · right
    have hm : 0 < n - g * c := by omega
    obtain ⟨o, holt, hoc, hkey⟩ := nextKey_grouped hkind (by omega) hord' hm
    rw [hgs] at holt hoc
    generalize hkdef : g * c + o = k at hkey
    have hkl : k < n := by omega
    have hkdiv : k / g = c := by
      rw [← hkdef, Nat.mul_add_div (by omega), Nat.div_eq_of_lt (by omega)]; omega
    have hkmod : k % g = o := by
      rw [← hkdef, Nat.mul_add_mod, Nat.mod_eq_of_lt (by omega)]
    have hmem : k ∈ ({ s with cursor := (o : Int) } : QState).ordering := by
      show k ∈ s.ordering
      rw [hord', List.mem_range'_1]; omega
    have hdec := decrementKey_grouped (s := { s with cursor := (o : Int) }) hkind hmem
    obtain ⟨s1, hs1, hv⟩ := nextTrial_ok hkey hdec (by rw [hlen]; exact hkl) hi.base.delays
    refine ⟨s1, hs1, ?_⟩
    have hb1 : Base n req (view s1) := Base_step hi.base hkl (by rw [hv]; rfl) (by rw [hv])
    have hkeys : (view s1).keys = (view s).keys ++ [k] := by rw [hv]
    have hdata : (view s1).data = dataStep s.data k := by rw [hv]
    have htrv : ∀ k', trv (view s1).data k' = if k' = k then trv s.data k' - 1 else trv s.data k' := by
      intro k'; rw [hdata, trv_dataStep _ _ _ (by rw [hlen]; exact hkl)]
    have hnd : s.ordering.Nodup := by rw [hord']; exact List.nodup_range' 1
    have hord1 : (view s1).ordering =
        if (List.range' (g * c) (min g (n - g * c))).all
            (fun k' => decide (trv (setTrials s.data k (· - 1)) k' ≤ 0))
        then List.range' (g * c + g) (n - g * c - g) else List.range' (g * c) (n - g * c) := by
      rw [hv]
      show (if (s.ordering.take s.gsize).all (fun k' => decide (trv (setTrials s.data k (· - 1)) k' ≤ 0))
            then (s.ordering.take s.gsize).foldl (fun o k => o.erase k) s.ordering else s.ordering) = _
      rw [foldl_erase_take _ _ hnd, hgs, hord', take_range', List.drop_range', Nat.mul_one]
    have hcur1 : (view s1).cursor = lastMod g (view s1).keys := by
      rw [hkeys, lastMod_snoc, hkmod, hv]
    -- the new log entry is a legitimate pick
    have horder1 : ∀ j (h : j < (view s1).keys.length),
        GroupPick n req g ((view s1).keys.take j) (view s1).keys[j] := by
      intro j hj
      simp only [hkeys] at hj ⊢
      rw [List.length_append] at hj
      simp only [List.length_singleton] at hj
      by_cases hjl : j < (view s).keys.length
      · rw [List.getElem_append_left hjl, List.take_append_of_le_length (by omega)]
        exact hi.order j hjl
      · have : j = (view s).keys.length := by omega
        subst this
        rw [List.getElem_append_right (Nat.le_refl _), List.take_append_of_le_length (Nat.le_refl _),
          List.take_of_length_le (Nat.le_refl _)]
        simp only [Nat.sub_self, List.getElem_cons_zero]
        refine ⟨?_, ?_, ?_⟩
        · intro k' h1 h2
          rw [hkdiv] at h1
          have := hcompl k' h1 h2
          rw [hi.base.led k' h2] at this
          omega
        · obtain ⟨k', h1, h2, h3, h4⟩ := hopen (by omega)
          rw [hkdiv]
          exact ⟨k', h1, h2, h3, (hi.base.unsat_iff h3).mp h4⟩
        · rw [hkmod, hkdiv, ← hcur]; exact hoc
    by_cases hall : (List.range' (g * c) (min g (n - g * c))).all
        (fun k' => decide (trv (setTrials s.data k (· - 1)) k' ≤ 0)) = true
    · -- the group is complete: move on to the next one
      rw [if_pos hall] at hord1
      rw [all_range'_iff] at hall
      have hmul : g * (c + 1) = g * c + g := Nat.mul_succ g c
      refine ⟨hb1, by rw [hv]; exact hkind, by rw [hv]; exact hgs, hg, hcur1, ⟨c + 1, ?_, ?_, ?_, ?_, ?_⟩, horder1⟩
      · rw [hord1, hmul]; congr 1; omega
      · intro k' h1 h2
        rw [hmul] at h1
        by_cases hlt : k' < g * c
        · rw [htrv]
          have := hcompl k' hlt h2
          simp only [view] at this
          split <;> omega
        · have := hall k' (by omega) (by omega)
          rw [trv_setTrials_eq_dataStep _ _ _ (by rw [hlen]; exact hkl), ← hdata] at this
          simpa using this
      · intro hlt
        rw [hmul] at hlt
        refine ⟨g * (c + 1), Nat.le_refl _, by omega, by omega, ?_⟩
        rw [htrv]
        have := hlater (g * (c + 1)) (by omega) (by omega)
        simp only [view] at this
        have hne : ¬ g * (c + 1) = k := by omega
        simp only [hne, if_false]; exact this
      · intro k' h1 h2
        rw [hmul] at h1
        rw [htrv]
        have := hlater k' (by omega) h2
        simp only [view] at this
        have hne : ¬ k' = k := by omega
        simp only [hne, if_false]; exact this
      · intro k' hk'
        rw [hkeys] at hk'
        rw [hmul]
        rcases List.mem_append.mp hk' with h | h
        · have := hbound k' h; omega
        · simp only [List.mem_singleton] at h; omega
    · -- the group goes on
      rw [if_neg hall] at hord1
      have hex : ∃ k', g * c ≤ k' ∧ k' < g * c + min g (n - g * c) ∧
          0 < trv (setTrials s.data k (· - 1)) k' := by
        apply Classical.byContradiction
        intro hne
        apply hall
        rw [all_range'_iff]
        intro k' h1 h2
        have : ¬ 0 < trv (setTrials s.data k (· - 1)) k' := fun h => hne ⟨k', h1, h2, h⟩
        simpa using Int.not_lt.mp this
      refine ⟨hb1, by rw [hv]; exact hkind, by rw [hv]; exact hgs, hg, hcur1, ⟨c, hord1, ?_, ?_, ?_, ?_⟩, horder1⟩
      · intro k' h1 h2
        rw [htrv]
        have := hcompl k' h1 h2
        simp only [view] at this
        split <;> omega
      · intro _
        obtain ⟨k', h1, h2, h3⟩ := hex
        refine ⟨k', h1, by omega, by omega, ?_⟩
        rw [hdata, ← trv_setTrials_eq_dataStep _ _ _ (by rw [hlen]; exact hkl)]; exact h3
      · intro k' h1 h2
        rw [htrv]
        have := hlater k' h1 h2
        simp only [view] at this
        have hne : ¬ k' = k := by omega
        simp only [hne, if_false]; exact this
      · intro k' hk'
        rw [hkeys] at hk'
        rcases List.mem_append.mp hk' with h | h
        · exact hbound k' h
        · simp only [List.mem_singleton] at h; omega

end Psi.Queue
