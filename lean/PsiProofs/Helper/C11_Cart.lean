import PsiProofs.Helper.C11_Concat
/-! Algebra of the NumPy layer: `cart` (offsets of an indexing result), `blocks`/`interleave`
(`np.concatenate`), used by the general split + concat theorems. -/
set_option linter.unusedSimpArgs false
namespace Psi.PData

theorem prod_foldl (a : Nat) (l : List Nat) : l.foldl (· * ·) a = a * l.foldl (· * ·) 1 := by
  induction l generalizing a with
  | nil => simp
  | cons x xs ih => simp only [List.foldl_cons]; rw [ih (a * x), ih (1 * x)]; simp [Nat.mul_assoc]

theorem prod_nil : prod [] = 1 := rfl
theorem prod_cons (x : Nat) (l : List Nat) : prod (x :: l) = x * prod l := by
  simp only [prod, List.foldl_cons]; rw [prod_foldl]; simp

theorem cart_cons (X : List Nat) (Q : List (List Nat)) :
    cart (X :: Q) = X.flatMap fun o => (cart Q).map (o + ·) := rfl

theorem cart_flatMap_axis {α} (l : List α) (f : α → List Nat) (Q : List (List Nat)) :
    cart ((l.flatMap f) :: Q) = l.flatMap fun x => cart (f x :: Q) := by
  simp [cart, List.flatMap_assoc]

theorem cart_append (P R : List (List Nat)) :
    cart (P ++ R) = (cart P).flatMap fun o => (cart R).map (o + ·) := by
  induction P with
  | nil => simp [cart]
  | cons X P ih =>
    simp only [List.cons_append, cart, ih, List.map_flatMap, List.flatMap_assoc, List.flatMap_map, List.map_map]
    congr 1; funext x; congr 1; funext o; congr 1; funext r
    simp [Nat.add_assoc]

theorem length_flatMap_const {α β} (l : List α) (f : α → List β) (L : Nat) (h : ∀ x ∈ l, (f x).length = L) :
    (l.flatMap f).length = l.length * L := by
  induction l with
  | nil => simp
  | cons x xs ih =>
    simp only [List.flatMap_cons, List.length_append, List.length_cons, h x (by simp),
      ih (fun y hy => h y (by simp [hy])), Nat.succ_mul]
    omega

theorem cart_length (axes : List (List Nat)) : (cart axes).length = prod (axes.map List.length) := by
  induction axes with
  | nil => rfl
  | cons X Q ih =>
    rw [cart_cons, length_flatMap_const _ _ (cart Q).length (by intro x _; simp), List.map_cons, prod_cons, ih]

/-- `np.concatenate` cuts each piece into `outer` blocks. -/
theorem blocks_flatMap {α} (l : List α) (f : α → List Nat) (L : Nat) (h : ∀ x ∈ l, (f x).length = L) :
    blocks L l.length (l.flatMap f) = l.map f := by
  induction l with
  | nil => rfl
  | cons x xs ih =>
    have hx := h x (by simp)
    have ih' := ih (fun y hy => h y (by simp [hy]))
    simp only [List.length_cons, blocks, List.flatMap_cons, List.map_cons]
    split
    · rename_i h0
      subst h0
      have e1 : f x = [] := List.eq_nil_of_length_eq_zero hx
      have e2 : ∀ y ∈ xs, f y = [] := fun y hy => List.eq_nil_of_length_eq_zero (h y (by simp [hy]))
      rw [e1, List.replicate_succ]
      congr 1
      symm
      rw [List.eq_replicate_iff]
      refine ⟨by simp, ?_⟩
      intro b hb
      simp only [List.mem_map] at hb
      obtain ⟨y, hy, rfl⟩ := hb
      exact e2 y hy
    · rw [List.take_left' hx, List.drop_left' hx, ih']

theorem blocks_map (g : Nat → Nat) (L fuel : Nat) (l : List Nat) :
    blocks L fuel (l.map g) = (blocks L fuel l).map (List.map g) := by
  induction fuel generalizing l with
  | zero => rfl
  | succ k ih =>
    simp only [blocks]
    split
    · simp
    · simp [← List.map_take, ← List.map_drop, ih]

/-- … and emits, for every outer index, the blocks of all pieces in turn. -/
theorem interleave_map {α β} (pcs : List β) (l : List α) (g : β → α → List Nat) :
    interleave (pcs.map fun p => l.map (g p)) l.length = l.flatMap fun x => pcs.flatMap fun p => g p x := by
  induction l with
  | nil => rfl
  | cons x xs ih =>
    simp only [List.length_cons, interleave, List.map_cons, List.flatMap_cons, List.map_map]
    congr 1
    simp [List.flatMap_map]

theorem range_flatMap_block (a b : Nat) :
    (List.range a).flatMap (fun i => (List.range b).map (i * b + ·)) = List.range (a * b) := by
  induction a with
  | zero => simp
  | succ k ih =>
    rw [List.range_succ, List.flatMap_append, ih, Nat.succ_mul, List.range_add]
    simp

theorem map_getD_range (data : List Nat) : (List.range data.length).map (fun o => data.getD o 0) = data := by
  apply List.ext_getElem
  · simp
  · intro i h1 h2; simp at h1 ⊢; simp [List.getElem?_eq_getElem h1]

end Psi.PData
