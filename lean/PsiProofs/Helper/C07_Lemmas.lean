import PsiProofs.Helper.C07_Real
/-! Lemmas for C07: `Res` plumbing and the dB algebra over ℝ. -/
namespace Psi.Db

@[simp] theorem Res.map_val {α β} (f : α → β) (a : α) : (Res.val a).map f = .val (f a) := rfl
@[simp] theorem Res.map_nan {α β} (f : α → β) : (Res.nan : Res α).map f = .nan := rfl
@[simp] theorem Res.map_calErr {α β} (f : α → β) : (Res.calErr : Res α).map f = .calErr := rfl
@[simp] theorem Res.map_valErr {α β} (f : α → β) : (Res.valErr : Res α).map f = .valErr := rfl

theorem Res.map_eq_val {α β} {f : α → β} {r : Res α} {b : β} (h : r.map f = .val b) :
    ∃ a, r = .val a ∧ f a = b := by
  cases r <;> simp [Res.map] at h
  exact ⟨_, rfl, h⟩

theorem Res.map_eq_nan {α β} {f : α → β} {r : Res α} : r.map f = .nan ↔ r = .nan := by
  cases r <;> simp [Res.map]

theorem Res.map_eq_calErr {α β} {f : α → β} {r : Res α} : r.map f = .calErr ↔ r = .calErr := by
  cases r <;> simp [Res.map]

theorem Res.map_eq_valErr {α β} {f : α → β} {r : Res α} : r.map f = .valErr ↔ r = .valErr := by
  cases r <;> simp [Res.map]

/-- `db1 (sfOf S L A) + S = L + A` -/
theorem db1_sfOf (S L A : ℝ) : db1 (sfOf S L A) + S = L + A := by
  rw [db1_real, sfOf_real, log10_exp10]; ring

theorem sfOf_db1 (S v : ℝ) (hv : 0 < v) : sfOf S (db1 v + S) 0 = v := by
  rw [sfOf_real, db1_real]
  have : (20 * Real.logb 10 v + S - S + 0) / 20 = Real.logb 10 v := by ring
  rw [this, exp10_log10 hv]

theorem sfOf_add_level (S L A d : ℝ) : sfOf S (L + d) A = (10 : ℝ) ^ (d / 20) * sfOf S L A := by
  rw [sfOf_real, sfOf_real, ← Real.rpow_add ten_pos]; congr 1; ring

theorem sfOf_add_att (S L A d : ℝ) : sfOf S L (A + d) = (10 : ℝ) ^ (d / 20) * sfOf S L A := by
  rw [sfOf_real, sfOf_real, ← Real.rpow_add ten_pos]; congr 1; ring

theorem sfOf_sub_gain (S L A d : ℝ) : sfOf (S - d) L A = (10 : ℝ) ^ (d / 20) * sfOf S L A := by
  rw [sfOf_real, sfOf_real, ← Real.rpow_add ten_pos]; congr 1; ring

theorem exp10_one : (10 : ℝ) ^ ((20 : ℝ) / 20) = 10 := by
  rw [div_self (by norm_num : (20 : ℝ) ≠ 0), Real.rpow_one]

theorem sfOf_pos (S L A : ℝ) : 0 < sfOf S L A := by rw [sfOf_real]; exact exp10_pos _

theorem pRef_pos : (0 : ℝ) < pRef := by rw [pRef_real]; norm_num

theorem db1_mul {x y : ℝ} (hx : 0 < x) (hy : 0 < y) : db1 (x * y) = db1 x + db1 y := by
  rw [db1_real, db1_real, db1_real, Real.logb_mul hx.ne' hy.ne']; ring

theorem db1_div {x y : ℝ} (hx : 0 < x) (hy : 0 < y) : db1 (x / y) = db1 x - db1 y := by
  rw [db1_real, db1_real, db1_real, Real.logb_div hx.ne' hy.ne']; ring

theorem db1_exp10 (d : ℝ) : db1 ((10 : ℝ) ^ (d / 20)) = d := by
  rw [db1_real, log10_exp10]; ring

theorem db1_one : db1 (1 : ℝ) = 0 := by rw [db1_real]; simp

end Psi.Db
