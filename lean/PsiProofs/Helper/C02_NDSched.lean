import PsiProofs.Helper.C02_NDTimeline
/-! Connecting the generic development to the model (`popLoop`, `popLoopND`) and to the flag-indexed
specification (`tickD`, `runSched`); invariants of a whole decrement schedule. -/
namespace Psi.Queue

/-! ### the model's loops are instances of the generic loop -/

theorem popIter_eq_G (n : Nat) (s : QState) : popIter n s = popIterG nextTrial n s := rfl

theorem popIterND_eq_G (n : Nat) (s : QState) : popIterND n s = popIterG nextTrialND n s := by
  unfold popIterND
  by_cases hp : s.paused = true
  · rw [if_pos hp]; simp only [popIter, popIterG, hp, if_true]
  · rw [if_neg hp]
    cases hs : s.source with
    | some src => simp only [popIter, popIterG, hp, hs]
    | none =>
      simp only
      by_cases hd : s.delaySamples > 0
      · rw [if_pos hd]; simp only [popIter, popIterG, hp, hs, hd, if_true]
      · rw [if_neg hd]
        simp only [popIterG, hp, hs, hd, if_false, Bool.false_eq_true]; rfl

theorem popLoop_eq_G (fuel n : Nat) (s : QState) : popLoop fuel n s = popLoopG nextTrial fuel n s := by
  induction fuel generalizing n s with
  | zero => cases n <;> rfl
  | succ fuel ih =>
    cases n with
    | zero => rfl
    | succ n =>
      rw [popLoop, popLoopG, popIter_eq_G]
      cases popIterG nextTrial (n + 1) s with
      | error e => rfl
      | ok r => obtain ⟨w, s'⟩ := r; simp only [ih]; rfl

theorem popLoopND_eq_G (fuel n : Nat) (s : QState) :
    popLoopND fuel n s = popLoopG nextTrialND fuel n s := by
  induction fuel generalizing n s with
  | zero => cases n <;> rfl
  | succ fuel ih =>
    cases n with
    | zero => rfl
    | succ n =>
      rw [popLoopND, popLoopG, popIterND_eq_G]
      cases popIterG nextTrialND (n + 1) s with
      | error e => rfl
      | ok r => obtain ⟨w, s'⟩ := r; simp only [ih]; rfl

/-! ### the flag-indexed specification is an instance of the generic step -/

theorem tickD_eq_G (d : Bool) (s : QState) : tickD d s = tickG (nextTrialD d) s := rfl

theorem tickD_true (s : QState) : tickD true s = tick s := rfl

theorem tickG_nextTrial (s : QState) : tickG nextTrial s = tick s := rfl

theorem tickD_false (s : QState) : tickD false s = tickG nextTrialND s := rfl

theorem runTicksG_nextTrial (n : Nat) (s : QState) : runTicksG nextTrial n s = runTicks n s := by
  induction n generalizing s with
  | zero => rfl
  | succ n ih =>
    rw [runTicksG, runTicks, tickG_nextTrial]
    cases tick s with
    | error e => rfl
    | ok r => obtain ⟨c, s'⟩ := r; simp only [ih]; rfl

theorem runTicksD_eq_G (d : Bool) (n : Nat) (s : QState) :
    runTicksD d n s = runTicksG (nextTrialD d) n s := by
  unfold runTicksD
  induction n generalizing s with
  | zero => rfl
  | succ n ih =>
    rw [List.replicate_succ, runSched, runTicksG, tickD_eq_G]
    cases tickG (nextTrialD d) s with
    | error e => rfl
    | ok r => obtain ⟨c, s'⟩ := r; simp only [ih]; rfl

theorem runTicksD_true (n : Nat) (s : QState) : runTicksD true n s = runTicks n s := by
  rw [runTicksD_eq_G]; exact runTicksG_nextTrial n s

theorem runSched_append (a b : List Bool) (s : QState) :
    runSched (a ++ b) s =
      match runSched a s with
      | .error e => .error e
      | .ok (c1, s1) =>
        match runSched b s1 with
        | .error e => .error e
        | .ok (c2, s2) => .ok (c1 ++ c2, s2) := by
  induction a generalizing s with
  | nil =>
    simp only [List.nil_append, runSched]
    cases runSched b s with
    | error e => rfl
    | ok r => cases r; simp
  | cons d a ih =>
    simp only [List.cons_append, runSched]
    cases tickD d s with
    | error e => rfl
    | ok r =>
      obtain ⟨c, s1⟩ := r
      simp only [ih s1]
      cases runSched a s1 with
      | error e => rfl
      | ok r =>
        obtain ⟨c1, s2⟩ := r
        simp only
        cases runSched b s2 with
        | error e => rfl
        | ok r => obtain ⟨c2, s3⟩ := r; simp

/-! ### invariants of a schedule -/

theorem tickD_WF {d : Bool} {s s' : QState} {c : Cell} (hw : WF s) (h : tickD d s = .ok (c, s')) :
    WF s' := tickG_WF (NTOK_nextTrialD d) hw h

theorem tickD_samples {d : Bool} {s s' : QState} {c : Cell} (h : tickD d s = .ok (c, s')) :
    s'.samples = s.samples + 1 := tickG_samples (NTOK_nextTrialD d) h

theorem runSched_inv (l : List Bool) {s s' : QState} {cs : List Cell} (hw : WF s)
    (h : runSched l s = .ok (cs, s')) :
    WF s' ∧ s'.samples = s.samples + (l.length : Nat) ∧ cs.length = l.length := by
  induction l generalizing s cs with
  | nil => simp [runSched] at h; obtain ⟨rfl, rfl⟩ := h; exact ⟨hw, by simp, rfl⟩
  | cons d l ih =>
    rw [runSched] at h
    cases ht : tickD d s with
    | error e => simp [ht] at h
    | ok r =>
      obtain ⟨c, s1⟩ := r
      simp only [ht] at h
      cases hr : runSched l s1 with
      | error e => simp [hr] at h
      | ok r2 =>
        obtain ⟨cs2, s2⟩ := r2
        simp only [hr, Except.ok.injEq, Prod.mk.injEq] at h
        obtain ⟨rfl, rfl⟩ := h
        obtain ⟨a, b, c'⟩ := ih (tickD_WF hw ht) hr
        refine ⟨a, ?_, by simp [c']⟩
        rw [b, tickD_samples ht]; simp only [List.length_cons]; push_cast; omega

theorem TL_runSched {s0 : QState} (l : List Bool) {s s' : QState} {out cs : List Cell}
    (inv : TL s0 out s) (h : runSched l s = .ok (cs, s')) : TL s0 (out ++ cs) s' := by
  induction l generalizing s out cs with
  | nil => simp [runSched] at h; obtain ⟨rfl, rfl⟩ := h; simpa using inv
  | cons d l ih =>
    rw [runSched] at h
    cases ht : tickD d s with
    | error e => simp [ht] at h
    | ok r =>
      obtain ⟨c, s1⟩ := r
      simp only [ht] at h
      cases hr : runSched l s1 with
      | error e => simp [hr] at h
      | ok r2 =>
        obtain ⟨cs2, s2⟩ := r2
        simp only [hr, Except.ok.injEq, Prod.mk.injEq] at h
        obtain ⟨rfl, rfl⟩ := h
        have := ih (TL_stepG (NTOK_nextTrialD d) inv ht) hr
        simpa using this

/-! ### `decrement=False`: no counter changes, no key leaves the ordering -/

/-- the part of the state that only `decrement_key` writes -/
def SameCounters (s s' : QState) : Prop :=
  s'.ordering = s.ordering ∧ s'.complete = s.complete ∧ ∀ k, trialsOf s' k = trialsOf s k

theorem SameCounters.refl (s : QState) : SameCounters s s := ⟨rfl, rfl, fun _ => rfl⟩

theorem SameCounters.trans {a b c : QState} (h1 : SameCounters a b) (h2 : SameCounters b c) :
    SameCounters a c :=
  ⟨h2.1.trans h1.1, h2.2.1.trans h1.2.1, fun k => (h2.2.2 k).trans (h1.2.2 k)⟩

theorem emitSrc_counters (s : QState) (src : Src) : SameCounters s (emitSrc s src).2 :=
  ⟨rfl, rfl, fun _ => rfl⟩

theorem tickND_counters {s s' : QState} {c : Cell} (h : tickD false s = .ok (c, s')) :
    SameCounters s s' := by
  rw [tickD_false] at h
  cases tickG_cases NTOK_nextTrialND h with
  | paused _ _ hs => subst hs; exact ⟨rfl, rfl, fun _ => rfl⟩
  | play src _ _ _ he =>
    have := emitSrc_counters s src
    rw [← he] at this; exact this
  | gap _ _ _ _ hs => subst hs; exact ⟨rfl, rfl, fun _ => rfl⟩
  | dry _ _ _ _ _ hs => subst hs; exact ⟨rfl, rfl, fun _ => rfl⟩
  | start s1 src _ _ _ hn _ _ he =>
    have h1 : SameCounters (dropSrc s) s1 := nextTrialND_counters hn
    have h0 : SameCounters s (dropSrc s) := ⟨rfl, rfl, fun _ => rfl⟩
    have h2 := emitSrc_counters s1 src
    rw [← he] at h2
    exact (h0.trans h1).trans h2

theorem runSchedND_counters (l : List Bool) (hl : ∀ d ∈ l, d = false) {s s' : QState} {cs : List Cell}
    (h : runSched l s = .ok (cs, s')) : SameCounters s s' := by
  induction l generalizing s cs with
  | nil => simp [runSched] at h; obtain ⟨_, rfl⟩ := h; exact SameCounters.refl _
  | cons d l ih =>
    have hd : d = false := hl d (by simp)
    subst hd
    rw [runSched] at h
    cases ht : tickD false s with
    | error e => simp [ht] at h
    | ok r =>
      obtain ⟨c, s1⟩ := r
      simp only [ht] at h
      cases hr : runSched l s1 with
      | error e => simp [hr] at h
      | ok r2 =>
        obtain ⟨cs2, s2⟩ := r2
        simp only [hr, Except.ok.injEq, Prod.mk.injEq] at h
        obtain ⟨_, rfl⟩ := h
        exact (tickND_counters ht).trans (ih (fun d hd => hl d (by simp [hd])) hr)

/-! the same directly on the code's loop (no well-formedness needed) -/

theorem popIterND_counters {n : Nat} {s s' : QState} {w : List Cell}
    (h : popIterND n s = .ok (w, s')) : SameCounters s s' := by
  rw [popIterND_eq_G] at h
  unfold popIterG at h
  have triv : ∀ {t : QState}, t.ordering = s.ordering → t.complete = s.complete → t.data = s.data →
      SameCounters s t := fun h1 h2 h3 => ⟨h1, h2, fun k => by simp only [trialsOf, h3]⟩
  split at h
  · simp only [Except.ok.injEq, Prod.mk.injEq] at h; obtain ⟨_, rfl⟩ := h; exact triv rfl rfl rfl
  · split at h
    · split at h
      · simp only [Except.ok.injEq, Prod.mk.injEq] at h; obtain ⟨_, rfl⟩ := h; exact triv rfl rfl rfl
      · dsimp only at h
        split at h <;>
          (simp only [Except.ok.injEq, Prod.mk.injEq] at h; obtain ⟨_, rfl⟩ := h; exact triv rfl rfl rfl)
    · split at h
      · simp only [Except.ok.injEq, Prod.mk.injEq] at h; obtain ⟨_, rfl⟩ := h; exact triv rfl rfl rfl
      · split at h
        · simp at h
        · simp only [Except.ok.injEq, Prod.mk.injEq] at h; obtain ⟨_, rfl⟩ := h; exact triv rfl rfl rfl
        · rename_i s1 hn
          simp only [Except.ok.injEq, Prod.mk.injEq] at h
          obtain ⟨_, rfl⟩ := h
          exact nextTrialND_counters hn

theorem popLoopND_counters (fuel n : Nat) {s s' : QState} {out : List Cell}
    (h : popLoopND fuel n s = .ok (out, s')) : SameCounters s s' := by
  induction fuel generalizing n s out with
  | zero =>
    cases n with
    | zero => simp [popLoopND] at h; obtain ⟨_, rfl⟩ := h; exact SameCounters.refl _
    | succ n => simp [popLoopND] at h
  | succ fuel ih =>
    cases n with
    | zero => simp [popLoopND] at h; obtain ⟨_, rfl⟩ := h; exact SameCounters.refl _
    | succ n =>
      rw [popLoopND] at h
      cases h1 : popIterND (n + 1) s with
      | error e => simp [h1] at h
      | ok r =>
        obtain ⟨w, s1⟩ := r
        simp only [h1] at h
        cases h2 : popLoopND fuel (n + 1 - w.length) s1 with
        | error e => simp [h2] at h
        | ok r2 =>
          obtain ⟨ws, s2⟩ := r2
          simp only [h2, Except.ok.injEq, Prod.mk.injEq] at h
          obtain ⟨_, rfl⟩ := h
          exact (popIterND_counters h1).trans (ih _ h2)

end Psi.Queue
