import PsiProofs.Helper.C03_Hist
/-!
FIFO across pauses. `requeue` walks the cancelled trials latest first and puts every key that has
left the ordering back at its front; "un-popping" the cancelled trials one by one, latest first,
restores exactly the sequence that was still to come when they were started.
-/
namespace Psi.Queue

/-- the sequence still to come, read off an ordering and a data table (`remSeq` of a state) -/
def rs (o : List Nat) (d : List Entry) : List Nat :=
  o.flatMap (fun k => List.replicate (trv d k).toNat k)

theorem remSeq_eq_rs (s : QState) : remSeq s = rs s.ordering s.data := rfl

/-- what `requeue` does for one cancelled trial of `k` -/
def unpop (p : List Nat × List Entry) (k : Nat) : List Nat × List Entry :=
  (if p.1.contains k then p.1 else k :: p.1, setTrials p.2 k (· + 1))

theorem requeue_unpop (keys : List Nat) (o : List Nat) (d : List Entry) :
    (insertFront o keys, keys.foldl (fun d k => setTrials d k (· + 1)) d) = keys.foldl unpop (o, d) := by
  induction keys generalizing o d with
  | nil => rfl
  | cons k ks ih =>
    simp only [insertFront, List.foldl_cons, unpop]
    exact ih _ _

theorem trv_setTrials_add (d : List Entry) (k k' : Nat) (hk : k < d.length) :
    trv (setTrials d k (· + 1)) k' = if k' = k then trv d k' + 1 else trv d k' := by
  unfold trv
  rw [setTrials_get]
  by_cases h : k = k'
  · subst h
    simp [List.getElem?_eq_getElem hk]
  · have : ¬ k' = k := fun h' => h h'.symm
    simp [h, this]

theorem rs_congr {d d' : List Entry} (o : List Nat) (h : ∀ k ∈ o, trv d' k = trv d k) : rs o d' = rs o d := by
  induction o with
  | nil => rfl
  | cons a l ih =>
    simp only [rs, List.flatMap_cons]
    rw [h a (by simp)]
    congr 1
    exact ih (fun k hk => h k (by simp [hk]))

/-- the facts about ordering and counters that FIFO maintains -/
structure PF (n : Nat) (o : List Nat) (d : List Entry) : Prop where
  len : d.length = n
  nodup : o.Nodup
  pos : ∀ k ∈ o, k < n ∧ 0 < trv d k
  done : ∀ k, k < n → k ∉ o → trv d k = 0

theorem unpop_PF {n : Nat} {o : List Nat} {d : List Entry} {k : Nat} (h : PF n o d) (hk : k < n) :
    PF n (unpop (o, d) k).1 (unpop (o, d) k).2 := by
  have hkd : k < d.length := by rw [h.len]; exact hk
  simp only [unpop]
  by_cases hm : k ∈ o
  · have hc : o.contains k = true := by simpa using hm
    simp only [hc, if_true]
    refine ⟨by rw [setTrials_length, h.len], h.nodup, ?_, ?_⟩
    · intro k' hk'
      refine ⟨(h.pos k' hk').1, ?_⟩
      rw [trv_setTrials_add _ _ _ hkd]
      have := (h.pos k' hk').2
      split <;> omega
    · intro k' hk' hni
      rw [trv_setTrials_add _ _ _ hkd]
      have : ¬ k' = k := fun e => hni (e ▸ hm)
      simp only [this, if_false]
      exact h.done k' hk' hni
  · have hc : o.contains k = false := by simpa using hm
    simp only [hc, Bool.false_eq_true, if_false]
    refine ⟨by rw [setTrials_length, h.len], List.nodup_cons.mpr ⟨hm, h.nodup⟩, ?_, ?_⟩
    · intro k' hk'
      rw [trv_setTrials_add _ _ _ hkd]
      rcases List.mem_cons.mp hk' with e | hk''
      · subst e
        simp only [if_true]
        have := h.done k' hk hm
        exact ⟨hk, by omega⟩
      · have : ¬ k' = k := fun e => hm (e ▸ hk'')
        simp only [this, if_false]
        exact h.pos k' hk''
    · intro k' hk' hni
      rw [trv_setTrials_add _ _ _ hkd]
      have hne : ¬ k' = k := fun e => hni (by simp [e])
      simp only [hne, if_false]
      exact h.done k' hk' (fun hmem => hni (List.mem_cons_of_mem _ hmem))

theorem fold_unpop_PF {n : Nat} (l : List Nat) {o : List Nat} {d : List Entry} (h : PF n o d)
    (hl : ∀ k ∈ l, k < n) : PF n (l.foldl unpop (o, d)).1 (l.foldl unpop (o, d)).2 := by
  induction l generalizing o d with
  | nil => exact h
  | cons x l ih =>
    simp only [List.foldl_cons]
    exact ih (unpop_PF h (hl x (by simp))) (fun k hk => hl k (by simp [hk]))

/-- un-popping a key that is not after any key of a sorted ordering puts it in front of the
sequence to come -/
theorem unpop_rs {n : Nat} {o : List Nat} {d : List Entry} {k : Nat} (h : PF n o d)
    (hs : o.Pairwise (· < ·)) (hk : k < n) (hle : ∀ k' ∈ o, k ≤ k') :
    (unpop (o, d) k).1.Pairwise (· < ·) ∧ rs (unpop (o, d) k).1 (unpop (o, d) k).2 = k :: rs o d := by
  have hkd : k < d.length := by rw [h.len]; exact hk
  simp only [unpop]
  by_cases hm : k ∈ o
  · have hc : o.contains k = true := by simpa using hm
    simp only [hc, if_true]
    refine ⟨hs, ?_⟩
    cases o with
    | nil => simp at hm
    | cons a rest =>
      rw [List.pairwise_cons] at hs
      have hka : k = a := by
        rcases List.mem_cons.mp hm with e | hr
        · exact e
        · have := hs.1 k hr
          have := hle a (by simp)
          omega
      subst hka
      have hnr : k ∉ rest := (List.nodup_cons.mp h.nodup).1
      have hp := (h.pos k (by simp)).2
      simp only [rs, List.flatMap_cons]
      rw [trv_setTrials_add _ _ _ hkd]
      simp only [if_true]
      have e1 : (trv d k + 1).toNat = (trv d k).toNat + 1 := by omega
      rw [e1, List.replicate_succ, List.cons_append]
      congr 2
      apply rs_congr
      intro k' hk'
      rw [trv_setTrials_add _ _ _ hkd]
      have : ¬ k' = k := fun e => hnr (e ▸ hk')
      simp [this]
  · have hc : o.contains k = false := by simpa using hm
    simp only [hc, Bool.false_eq_true, if_false]
    refine ⟨?_, ?_⟩
    · rw [List.pairwise_cons]
      refine ⟨?_, hs⟩
      intro k' hk'
      have := hle k' hk'
      have : k ≠ k' := fun e => hm (e ▸ hk')
      omega
    · simp only [rs, List.flatMap_cons]
      rw [trv_setTrials_add _ _ _ hkd]
      simp only [if_true]
      have := h.done k hk hm
      rw [this]
      simp only [Int.zero_add, Int.toNat_one, List.replicate_one, List.cons_append, List.nil_append]
      congr 1
      apply rs_congr
      intro k' hk'
      rw [trv_setTrials_add _ _ _ hkd]
      have : ¬ k' = k := fun e => hm (e ▸ hk')
      simp [this]

theorem mem_rs_of_pos {o : List Nat} {d : List Entry} {k : Nat} (hk : k ∈ o) (hp : 0 < trv d k) :
    k ∈ rs o d := by
  simp only [rs, List.mem_flatMap]
  refine ⟨k, hk, ?_⟩
  simp only [List.mem_replicate, and_true]
  omega

/-- **Re-queueing restores the sequence.** Un-popping the keys `l` (latest cancelled trial first), when
`l` reversed followed by the sequence to come is in insertion order, gives exactly that sequence. -/
theorem fold_unpop_rs {n : Nat} (l : List Nat) {o : List Nat} {d : List Entry} (h : PF n o d)
    (hs : o.Pairwise (· < ·)) (hl : ∀ k ∈ l, k < n) (hsort : (l.reverse ++ rs o d).Pairwise (· ≤ ·)) :
    PF n (l.foldl unpop (o, d)).1 (l.foldl unpop (o, d)).2 ∧
    (l.foldl unpop (o, d)).1.Pairwise (· < ·) ∧
    rs (l.foldl unpop (o, d)).1 (l.foldl unpop (o, d)).2 = l.reverse ++ rs o d := by
  induction l generalizing o d with
  | nil => exact ⟨h, hs, by simp⟩
  | cons x l ih =>
    simp only [List.foldl_cons]
    have hx : x < n := hl x (by simp)
    have hle : ∀ k' ∈ o, x ≤ k' := by
      intro k' hk'
      have hmem := mem_rs_of_pos hk' (h.pos k' hk').2
      rw [List.reverse_cons, List.append_assoc, List.pairwise_append] at hsort
      have := hsort.2.1
      simp only [List.singleton_append, List.pairwise_cons] at this
      exact this.1 k' hmem
    obtain ⟨hs1, hr1⟩ := unpop_rs h hs hx hle
    have h1 := unpop_PF h hx
    obtain ⟨a, b, c⟩ := ih h1 hs1 (fun k hk => hl k (by simp [hk])) (by
      rw [hr1]
      rw [List.reverse_cons, List.append_assoc] at hsort
      simpa using hsort)
    refine ⟨a, b, ?_⟩
    rw [c, hr1, List.reverse_cons, List.append_assoc]
    rfl

/-! ### FIFO states -/

theorem PF_of_FifoInv {s : QState} {n : Nat} (hi : FifoInv s) (hl : s.data.length = n) :
    PF n s.ordering s.data := by
  refine ⟨hl, hi.nodup, ?_, ?_⟩
  · intro k hk
    obtain ⟨e, he, hp⟩ := hi.valid k hk
    obtain ⟨hlt, _⟩ := List.getElem?_eq_some_iff.mp he
    exact ⟨by omega, by simp [trv, he, hp]⟩
  · intro k hk hni
    have he : s.data[k]? = some s.data[k] := List.getElem?_eq_getElem (by omega)
    have := hi.done k _ he hni
    simp [trv, he, this]

theorem FifoInv_of_PF {s : QState} {n : Nat} (hk : s.kind = .fifo) (hd : DelaysOK s.data)
    (h : PF n s.ordering s.data) : FifoInv s := by
  refine ⟨hk, h.nodup, ?_, hd, ?_⟩
  · intro k hk'
    obtain ⟨hlt, hp⟩ := h.pos k hk'
    have hkd : k < s.data.length := by rw [h.len]; exact hlt
    have he : s.data[k]? = some s.data[k] := List.getElem?_eq_getElem hkd
    exact ⟨_, he, by simpa [trv, he] using hp⟩
  · intro i e he hni
    obtain ⟨hlt, _⟩ := List.getElem?_eq_some_iff.mp he
    have := h.done i (by rw [← h.len]; exact hlt) hni
    simpa [trv, he] using this

theorem DelaysOK_requeue {d : List Entry} (keys : List Nat) (h : DelaysOK d) :
    DelaysOK (keys.foldl (fun d k => setTrials d k (· + 1)) d) := by
  intro i e he
  rw [foldl_setTrials_get] at he
  cases h0 : d[i]? with
  | none => simp [h0] at he
  | some e0 =>
    simp only [h0, Option.map_some, Option.some.injEq] at he
    subst he
    exact h i e0 h0

theorem requeue_policy (m : Int) (s : QState) :
    (requeue m s).ordering = insertFront s.ordering (toRequeue m s) ∧
    (requeue m s).keep = s.keep ∧ (requeue m s).gsize = s.gsize ∧ (requeue m s).cursor = s.cursor ∧
    (requeue m s).block = s.block ∧ (requeue m s).perms = s.perms ∧ (requeue m s).draws = s.draws ∧
    (requeue m s).auto = s.auto := by
  unfold requeue toRequeue
  simp only
  split <;> (try split) <;> simp

theorem pause_some_eq (m : Int) (s : QState) :
    ∃ x, (pause (some m) s).1 = { requeue m (cancel m { s with paused := true }) with samples := x } := by
  unfold pause
  simp only
  split
  · exact ⟨_, rfl⟩
  · exact ⟨m, rfl⟩

/-- what `pause(m)` does to the policy state (whether or not the position is accepted) -/
theorem pause_policy (m : Int) (s : QState) :
    (pause (some m) s).1.ordering = insertFront s.ordering (toRequeue m s) ∧
    (pause (some m) s).1.data = (toRequeue m s).foldl (fun d k => setTrials d k (· + 1)) s.data ∧
    (pause (some m) s).1.generated = s.generated.filter (fun i => !endsAfter m i) ∧
    (pause (some m) s).1.kind = s.kind ∧ (pause (some m) s).1.keep = s.keep ∧
    (pause (some m) s).1.gsize = s.gsize ∧ (pause (some m) s).1.cursor = s.cursor ∧
    (pause (some m) s).1.block = s.block ∧ (pause (some m) s).1.perms = s.perms ∧
    (pause (some m) s).1.draws = s.draws ∧ (pause (some m) s).1.added = s.added := by
  obtain ⟨x, e⟩ := pause_some_eq m s
  obtain ⟨hd, hg, _, ha, _, _, _, _, hk⟩ := requeue_fields m (cancel m { s with paused := true })
  obtain ⟨ho, h1, h2, h3, h4, h5, h6, _⟩ := requeue_policy m (cancel m { s with paused := true })
  have ht : toRequeue m (cancel m { s with paused := true }) = toRequeue m s := rfl
  rw [e]
  simp only [hd, hg, ha, hk, ho, h1, h2, h3, h4, h5, h6, ht]
  simp [cancel]

/-- the keys `requeue` restores, oldest first, are the keys of the cancelled trials -/
theorem toRequeue_reverse (m : Int) (s : QState) :
    (toRequeue m s).reverse = (s.generated.filter (endsAfter m)).map (·.key) := by
  simp [toRequeue, List.filter_reverse, List.map_reverse]

/-- FIFO facts that hold after every history -/
structure FifoH (n : Nat) (s : QState) : Prop where
  fi : FifoInv s
  len : s.data.length = n
  gk : ∀ i ∈ s.generated, i.key < n

/-- insertion-order schedule of a FIFO queue: stimulus 0 `req 0` times, then stimulus 1, … -/
def schedule (n : Nat) (req : Nat → Int) : List Nat :=
  (List.range n).flatMap (fun k => List.replicate (req k).toNat k)

/-- FIFO facts that hold after every history in which time never runs backwards -/
structure FifoSched (n : Nat) (req : Nat → Int) (s : QState) : Prop where
  h : FifoH n s
  sorted : s.ordering.Pairwise (· < ·)
  sched : s.generated.map (·.key) ++ remSeq s = schedule n req

theorem schedule_sorted (n : Nat) (req : Nat → Int) : (schedule n req).Pairwise (· ≤ ·) := by
  unfold schedule
  rw [List.pairwise_flatMap]
  refine ⟨?_, ?_⟩
  · intro a _
    rw [List.pairwise_replicate]
    right; exact Nat.le_refl a
  · refine (List.pairwise_lt_range (n := n)).imp ?_
    intro a b hab x hx y hy
    simp only [List.mem_replicate] at hx hy
    omega

theorem fifo_nextTrial_full {s : QState} (hi : FifoInv s) {k : Nat} {rest : List Nat}
    (ho : s.ordering = k :: rest) :
    ∃ s1 info, nextTrial s = .ok (some s1) ∧ FifoInv s1 ∧ s1.generated = s.generated ++ [info] ∧
      info.key = k ∧ remSeq s = k :: remSeq s1 ∧ s1.ordering.Sublist s.ordering ∧
      s1.data.length = s.data.length := by
  obtain ⟨s1, hs1, hi1, hadd, hseq⟩ := fifo_nextTrial_cons hi ho
  obtain ⟨info, e0, _, _, _, _, _, hg, ha, _⟩ := nextTrial_info hs1
  have hkey : info.key = k := by
    rw [ha] at hadd
    simpa using hadd
  refine ⟨s1, info, hs1, hi1, hg, hkey, hseq, ?_, ?_⟩
  · obtain ⟨key, sa, sb, e, d, hk, hd, _, _, _, rfl⟩ := nextTrial_some hs1
    have hk' : nextKey s = .ok (some (k, s)) := by simp [nextKey, hi.kind, ho]
    rw [hk'] at hk
    simp only [Except.ok.injEq, Option.some.injEq, Prod.mk.injEq] at hk
    obtain ⟨rfl, rfl⟩ := hk
    rw [decrementKey_fifo hi.kind (by simp [ho])] at hd
    simp only [Except.ok.injEq] at hd
    subst hd
    simp only
    split
    · exact List.erase_sublist
    · exact List.Sublist.refl _
  · obtain ⟨key, sa, sb, e, d, hk, hd, _, _, _, rfl⟩ := nextTrial_some hs1
    have f1 := nextKey_frame hk
    have f2 := decrementKey_frame hd
    simp only [List.length_modify]
    rw [f2]; simp only [setTrials, List.length_modify]; rw [f1]

/-- one tick of a FIFO queue either leaves ordering, counters and log alone or starts a trial of the
head of the ordering -/
theorem fifo_tick_full {s s' : QState} {c : Cell} (hi : FifoInv s) (h : tick s = .ok (c, s')) :
    (s'.ordering = s.ordering ∧ s'.data = s.data ∧ s'.generated = s.generated ∧ FifoInv s') ∨
    (∃ k rest info, s.ordering = k :: rest ∧ FifoInv s' ∧ s'.generated = s.generated ++ [info] ∧
      info.key = k ∧ remSeq s = k :: remSeq s' ∧ s'.ordering.Sublist s.ordering ∧
      s'.data.length = s.data.length) := by
  cases tick_cases h with
  | paused _ _ hs => subst hs; exact Or.inl ⟨rfl, rfl, rfl, FifoInv_of_same hi rfl rfl rfl⟩
  | play src _ _ _ he =>
    have h1 := emitSrc_same s src
    have h2 := emitSrc_same' s src
    rw [← he] at h1 h2
    exact Or.inl ⟨h2.2, h1.1, h1.2.1, FifoInv_of_same hi h2.1 h2.2 h1.1⟩
  | gap _ _ _ _ hs => subst hs; exact Or.inl ⟨rfl, rfl, rfl, FifoInv_of_same hi rfl rfl rfl⟩
  | dry _ _ _ _ _ hs => subst hs; exact Or.inl ⟨rfl, rfl, rfl, FifoInv_of_same hi rfl rfl rfl⟩
  | start s1 src _ _ _ hn _ _ he =>
    right
    have hid : FifoInv (dropSrc s) := FifoInv_of_same hi rfl rfl rfl
    cases ho : (dropSrc s).ordering with
    | nil =>
      rw [nextTrial_none_of (fifo_nextTrial_nil hid ho)] at hn
      simp at hn
    | cons k rest =>
      obtain ⟨s1', info, hs1, hi1, hg, hkey, hseq, hsub, hlen⟩ := fifo_nextTrial_full hid ho
      rw [hn] at hs1
      simp only [Except.ok.injEq, Option.some.injEq] at hs1
      subst hs1
      have h1 := emitSrc_same s1 src
      have h2 := emitSrc_same' s1 src
      rw [← he] at h1 h2
      refine ⟨k, rest, info, ho, FifoInv_of_same hi1 h2.1 h2.2 h1.1, by rw [h1.2.1, hg]; rfl, hkey, ?_,
        by rw [h2.2]; exact hsub, by rw [h1.1, hlen]; rfl⟩
      rw [remSeq_of_same h2.2 h1.1]
      have : remSeq s = remSeq (dropSrc s) := (remSeq_of_same rfl rfl).symm
      rw [this, hseq]

theorem FifoH_tick {n : Nat} {s s' : QState} {c : Cell} (hi : FifoH n s) (h : tick s = .ok (c, s')) :
    FifoH n s' := by
  rcases fifo_tick_full hi.fi h with ⟨_, hd, hg, hf⟩ | ⟨k, rest, info, ho, hf, hg, hkey, _, _, hlen⟩
  · exact ⟨hf, by rw [hd]; exact hi.len, by rw [hg]; exact hi.gk⟩
  · refine ⟨hf, by rw [hlen]; exact hi.len, ?_⟩
    intro i hi'
    rw [hg] at hi'
    rcases List.mem_append.mp hi' with h' | h'
    · exact hi.gk i h'
    · simp only [List.mem_singleton] at h'; subst h'
      rw [hkey]
      exact ((PF_of_FifoInv hi.fi hi.len).pos k (by simp [ho])).1

theorem FifoSched_tick {n : Nat} {req : Nat → Int} {s s' : QState} {c : Cell} (hi : FifoSched n req s)
    (h : tick s = .ok (c, s')) : FifoSched n req s' := by
  refine ⟨FifoH_tick hi.h h, ?_, ?_⟩
  · rcases fifo_tick_full hi.h.fi h with ⟨ho, _⟩ | ⟨_, _, _, _, _, _, _, _, hsub, _⟩
    · rw [ho]; exact hi.sorted
    · exact hi.sorted.sublist hsub
  · rcases fifo_tick_full hi.h.fi h with ⟨ho, hd, hg, _⟩ | ⟨k, rest, info, _, _, hg, hkey, hseq, _, _⟩
    · rw [hg, remSeq_of_same ho hd]; exact hi.sched
    · rw [hg, ← hi.sched, hseq]
      simp [hkey]

theorem FifoH_pause {n : Nat} (m : Option Int) {s : QState} (hi : FifoH n s) : FifoH n (pause m s).1 := by
  cases m with
  | none => exact ⟨FifoInv_of_same (s := s) hi.fi rfl rfl rfl, hi.len, hi.gk⟩
  | some m =>
    obtain ⟨ho, hd, hg, hk, _⟩ := pause_policy m s
    have hkeys : ∀ k ∈ toRequeue m s, k < n := by
      intro k hk'
      simp only [toRequeue, List.mem_map, List.mem_filter, List.mem_reverse] at hk'
      obtain ⟨i, ⟨hi', _⟩, rfl⟩ := hk'
      exact hi.gk i hi'
    have hpf := fold_unpop_PF (toRequeue m s) (PF_of_FifoInv hi.fi hi.len) hkeys
    rw [← requeue_unpop] at hpf
    simp only at hpf
    refine ⟨FifoInv_of_PF (n := n) (by rw [hk]; exact hi.fi.kind) (by rw [hd]; exact DelaysOK_requeue _ hi.fi.delays)
      (by rw [ho, hd]; exact hpf), by rw [hd]; exact hpf.len, ?_⟩
    intro i hi'
    rw [hg] at hi'
    exact hi.gk i (List.mem_filter.mp hi').1

theorem FifoH_resume {n : Nat} (m : Option Int) {s : QState} (hi : FifoH n s) : FifoH n (resume m s) := by
  cases m <;> exact ⟨FifoInv_of_same (s := s) hi.fi rfl rfl rfl, hi.len, hi.gk⟩

theorem FifoSched_pause {n : Nat} {req : Nat → Int} (m : Option Int) {s : QState} (ht : TimeInv s)
    (hi : FifoSched n req s) : FifoSched n req (pause m s).1 := by
  cases m with
  | none => exact ⟨FifoH_pause none hi.h, hi.sorted, by rw [← hi.sched]; rfl⟩
  | some m =>
    obtain ⟨ho, hd, hg, _⟩ := pause_policy m s
    have hkeys : ∀ k ∈ toRequeue m s, k < n := by
      intro k hk'
      simp only [toRequeue, List.mem_map, List.mem_filter, List.mem_reverse] at hk'
      obtain ⟨i, ⟨hi', _⟩, rfl⟩ := hk'
      exact hi.h.gk i hi'
    have hsplit := cancelled_suffix ht m
    have hsched := hi.sched
    rw [hsplit, List.map_append, List.append_assoc, remSeq_eq_rs] at hsched
    have hsort : ((toRequeue m s).reverse ++ rs s.ordering s.data).Pairwise (· ≤ ·) := by
      rw [toRequeue_reverse]
      have := schedule_sorted n req
      rw [← hsched] at this
      exact this.sublist (List.sublist_append_right _ _)
    obtain ⟨_, hsorted, hrs⟩ := fold_unpop_rs (toRequeue m s) (PF_of_FifoInv hi.h.fi hi.h.len) hi.sorted hkeys hsort
    rw [← requeue_unpop] at hsorted hrs
    simp only at hsorted hrs
    refine ⟨FifoH_pause (some m) hi.h, by rw [ho]; exact hsorted, ?_⟩
    rw [remSeq_eq_rs, ho, hd, hrs, hg, toRequeue_reverse, ← hsched]

theorem FifoSched_resume {n : Nat} {req : Nat → Int} (m : Option Int) {s : QState}
    (hi : FifoSched n req s) : FifoSched n req (resume m s) := by
  cases m <;> exact ⟨FifoH_resume _ hi.h, hi.sorted, by rw [← hi.sched]; rfl⟩

end Psi.Queue
