import PsiProofs.Helper.C12_Lists
/-! Running a stage over a stream: what "emits `x`, contiguously, with annotations `a`" means. -/
namespace Psi.Stages
variable {α β ρ χ μ S τ σ I O : Type}

/-- concatenation (along time) of everything passed to `target` -/
def outData (bs : List (PD β ρ χ μ)) : List β := (bs.map (·.data)).flatten

/-- the first block starts at `t`; every block starts where the previous one ended
(`u` = `s0` units per emitted sample: 1, except `rms` whose `s0` field is a numerator over `n`) -/
def Contig (u : Int) : Int → List (PD β ρ χ μ) → Prop
  | _, [] => True
  | t, b :: bs => b.s0 = t ∧ Contig u (t + u * b.len) bs

/-- `bs` carries exactly the samples `x`, contiguously from `t`, every block annotated `a` -/
structure Emits (bs : List (PD β ρ χ μ)) (x : List β) (u t : Int) (a : Ann ρ χ μ) : Prop where
  data : outData bs = x
  contig : Contig u t bs
  ann : ∀ b ∈ bs, b.ann = a

/-- everything passed to `target`, forgetting the final state -/
def outputs (r : Except Err (List O × σ)) : Except Err (List O) :=
  match r with
  | .ok p => .ok p.1
  | .error e => .error e

theorem Emits.nil (u t : Int) (a : Ann ρ χ μ) : Emits ([] : List (PD β ρ χ μ)) [] u t a :=
  ⟨rfl, trivial, by simp⟩

theorem Emits.cons {bs : List (PD β ρ χ μ)} {x x' : List β} {u t t' : Int} {a : Ann ρ χ μ}
    (b : PD β ρ χ μ) (h : Emits bs x' u t' a) (hs : b.s0 = t) (ha : b.ann = a)
    (ht : t' = t + u * b.len) (hx : x = b.data ++ x') : Emits (b :: bs) x u t a := by
  subst ht hx
  refine ⟨?_, ⟨hs, h.contig⟩, ?_⟩
  · simp [outData, ← h.data]
  · intro c hc
    rcases List.mem_cons.mp hc with rfl | hc
    · exact ha
    · exact h.ann c hc

theorem outputs_nil (step : σ → I → Except Err (List O × σ)) (s : σ) :
    outputs (runStage step s []) = .ok [] := rfl

/-- one chunk consumed without emitting -/
theorem run_emit_none {step : σ → I → Except Err (List (PD β ρ χ μ) × σ)} {s s' : σ} {c : I} {cs : List I}
    {x : List β} {u t : Int} {a : Ann ρ χ μ}
    (hstep : step s c = .ok ([], s'))
    (ih : ∃ bs, outputs (runStage step s' cs) = .ok bs ∧ Emits bs x u t a) :
    ∃ bs, outputs (runStage step s (c :: cs)) = .ok bs ∧ Emits bs x u t a := by
  obtain ⟨bs, hr, he⟩ := ih
  refine ⟨bs, ?_, he⟩
  simp only [runStage, hstep]
  cases hrun : runStage step s' cs with
  | error e => simp [hrun, outputs] at hr
  | ok p => obtain ⟨os, s''⟩ := p; simp [hrun, outputs] at hr ⊢; exact hr

/-- one chunk consumed, one block emitted -/
theorem run_emit_one {step : σ → I → Except Err (List (PD β ρ χ μ) × σ)} {s s' : σ} {c : I} {cs : List I}
    {x x' : List β} {u t t' : Int} {a : Ann ρ χ μ} (b : PD β ρ χ μ)
    (hstep : step s c = .ok ([b], s'))
    (ih : ∃ bs, outputs (runStage step s' cs) = .ok bs ∧ Emits bs x' u t' a)
    (hs : b.s0 = t) (ha : b.ann = a) (ht : t' = t + u * b.len) (hx : x = b.data ++ x') :
    ∃ bs, outputs (runStage step s (c :: cs)) = .ok bs ∧ Emits bs x u t a := by
  obtain ⟨bs, hr, he⟩ := ih
  refine ⟨b :: bs, ?_, Emits.cons b he hs ha ht hx⟩
  simp only [runStage, hstep]
  cases hrun : runStage step s' cs with
  | error e => simp [hrun, outputs] at hr
  | ok p => obtain ⟨os, s''⟩ := p; simp [hrun, outputs] at hr ⊢; exact hr

/-- a well-annotated contiguous list of blocks can be concatenated, and the result is the
whole output annotated with the first `s0` (`concat` never raises on what a stage emits) -/
theorem Emits.catAll_ok {bs : List (PD β ρ χ μ)} {x : List β} {t : Int} {a : Ann ρ χ μ}
    (h : Emits bs x 1 t a) (hne : bs ≠ []) : catAll bs = .ok { data := x, s0 := t, ann := a } := by
  obtain ⟨hd, hc, ha⟩ := h
  cases bs with
  | nil => exact absurd rfl hne
  | cons b bs =>
    simp only [catAll]
    obtain ⟨hb0, hc⟩ := hc
    have hba := ha b (by simp)
    have key : ∀ (l : List (PD β ρ χ μ)) (acc : PD β ρ χ μ), Contig 1 (acc.s0 + acc.len) l →
        (∀ c ∈ l, c.ann = a) →
        l.foldlM cat acc = .ok { acc with data := acc.data ++ outData l } := by
      intro l
      induction l with
      | nil => intro acc _ _; simp [outData, List.foldlM]; rfl
      | cons c l ih =>
        intro acc hc hann
        obtain ⟨hc0, hc⟩ := hc
        have hcat : cat acc c = .ok { acc with data := acc.data ++ c.data } := by
          simp [cat, hc0]
        simp only [List.foldlM, hcat, bind, Except.bind]
        have := ih { acc with data := acc.data ++ c.data } (by
          simp only [PD.len, List.length_append] at hc ⊢
          have e : acc.s0 + ((acc.data.length + c.data.length : Nat) : Int)
              = acc.s0 + (acc.data.length : Nat) + 1 * (c.data.length : Nat) := by omega
          rw [e]; exact hc) (fun d hd => hann d (by simp [hd]))
        rw [this]
        simp [outData, List.append_assoc]
    rw [key bs b (by simpa [hb0] using hc) (fun c hc' => ha c (by simp [hc']))]
    congr 1
    cases b
    simp only [outData, List.map_cons, List.flatten_cons] at hd
    simp_all [outData]

end Psi.Stages
