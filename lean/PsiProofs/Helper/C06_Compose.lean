import PsiProofs.C04
import PsiProofs.C05
/-!
# C06 — the composed system: queue model ∘ playback device ∘ extractor model

Nothing here is abstract: the queue is `PsiModel/Queue.lean` (`popBuffer`, `pause`, `resume`), the
extractor is `PsiModel/Extract.lean` (`run`), and the glue is what `harness/c06.py: simulate` does
with the real classes:

* the **played timeline** `tl` (absolute sample positions; the acquisition started `K0` samples
  before the queue, so queue sample `k` sits at position `K0 + k`): every `pop n` appends the
  queue's output, `pause(m)` truncates it at the pause position (what was generated but not yet
  played is discarded, as a playback device would), a `resume(m₂)` later than the clock pads the
  silence in between;
* the **notifications**: the `added` log entries produced by a `pop` and the `removed` entries
  produced by a `pause(m)` are issued at that moment (generation time) into one FIFO `pend`;
* an **acquisition call** `acq n vis complete` hands the next `n` played samples to the extractor
  together with the next `vis` pending notifications (any `vis`: every order-preserving delay of
  the notifications is a schedule; `vis ≥ pend.length` is the code's deque semantics).

A history on which `jrun` is not `.ok` is outside the property's quantifier; the seven reasons are
the constructors of `JErr` (each documented).  Core Lean only.
-/
namespace Psi.E2E
open Psi.Queue Psi.Extract

/-- configuration of the loop (all in samples) -/
structure Cfg where
  K0 : Nat                 -- acquisition started `K0` samples before queue sample 0 (queue t0 = K0/fs)
  P : Nat                  -- pre-stimulus samples, `round(prestim_time·fs)`
  L : Nat                  -- epoch length `round((size+post+pre)·fs)`: one per extractor
  B : Nat                  -- the extractor's look-back `buffer_samples`
  enc : Int → Nat → Nat    -- the dictionary key `(info['t0'], info['key'])` as a number

/-- The request the extractor derives from an `added` notification (pipeline.py 812-818):
start sample `s = K − P` with `K = K0 + k` — this equation is the seconds↔samples link,
discharged separately by `seconds_samples_roundtrip_binary64`. -/
def reqOf (c : Cfg) (i : Info) : Request :=
  { key := c.enc i.k i.key, s := (c.K0 : Int) + i.k - (c.P : Int), len := c.L, tag := i.key }

/-- a notification of the queue: the `info` of an `added` / `removed` callback -/
inductive Note
  | add (i : Info)
  | rem (i : Info)
  deriving DecidableEq

def Note.req? (c : Cfg) : Note → Option Request
  | .add i => some (reqOf c i)
  | .rem _ => none

def Note.rem? (c : Cfg) : Note → Option Nat
  | .rem i => some (reqOf c i).key
  | .add _ => none

/-- one event of the joint history -/
inductive Ev
  | q (op : Queue.Op)                          -- pop n / pause m / pause() / resume m / resume()
  | acq (n vis : Nat) (complete : Bool)        -- one `send` to `extract_epochs`

/-- why a joint history is outside the quantifier -/
inductive JErr
  | queue (e : Err)      -- the queue itself raised
  | rejected             -- `pause(m)` after the clock: ValueError of `rewind_samples`
  | unplayable           -- `pause(m)` before what has already been acquired: samples cannot be taken back
  | interrupts           -- `pause()` / a jumping `resume(m₂)` while a waveform is being played: it would be cut in two
  | backwards            -- `resume(m₂)` before the clock
  | starved              -- acquisition of samples that have not been played yet
  | lateRequest          -- an `added` notification made visible after its first sample left the look-back window
  | lateRemoval          -- a `removed` notification still invisible when the stream reaches the last sample of its epoch

/-- no waveform sample is left to play from the current source -/
def idle (s : QState) : Bool :=
  match s.source with
  | some src => decide (¬ src.off < src.len)
  | none => true

structure JState where
  q : QState
  tl : List Cell                       -- played timeline, position = absolute sample
  acq : Nat                            -- samples acquired so far
  pend : List Note                     -- issued, not yet visible to the extractor (FIFO)
  eops : List (Extract.Op Cell)        -- the extractor's history so far

/-- acquisition starts `K0` samples (of silence) before the queue -/
def JState.init (c : Cfg) (q0 : QState) : JState :=
  { q := q0, tl := zeros c.K0, acq := 0, pend := [], eops := [] }

def lateRemovalOk (c : Cfg) (total : Nat) : Note → Bool
  | .rem i => decide (total < (reqOf c i).s.toNat + c.L)
  | .add _ => true

def jstep (c : Cfg) (J : JState) : Ev → Except JErr JState
  | .q (.pop n) =>
    match popBuffer n J.q with
    | .error e => .error (.queue e)
    | .ok (out, q') =>
      .ok { J with q := q', tl := J.tl ++ out,
                   pend := J.pend ++ (q'.added.drop J.q.added.length).map Note.add }
  | .q (.pause none) =>
    if idle J.q then .ok { J with q := (pause none J.q).1 } else .error .interrupts
  | .q (.pause (some m)) =>
    if m > J.q.samples then .error .rejected
    else if (c.K0 : Int) + m < (J.acq : Int) then .error .unplayable
    else
      .ok { J with q := (pause (some m) J.q).1, tl := J.tl.take ((c.K0 : Int) + m).toNat,
                   pend := J.pend ++ ((J.q.generated.reverse.filter (endsAfter m)).map Note.rem) }
  | .q (.resume none) => .ok { J with q := resume none J.q }
  | .q (.resume (some m)) =>
    if m < J.q.samples then .error .backwards
    else if m ≠ J.q.samples ∧ idle J.q = false then .error .interrupts
    else .ok { J with q := resume (some m) J.q, tl := J.tl ++ zeros (m - J.q.samples).toNat }
  | .acq n vis complete =>
    if J.tl.length < J.acq + n then .error .starved
    else
      let now := J.pend.take vis
      let later := J.pend.drop vis
      let reqs := now.filterMap (Note.req? c)
      if reqs.all (fun r => decide ((lookbackStart c.B J.eops : Int) ≤ r.s)) = false then .error .lateRequest
      else if later.all (lateRemovalOk c (J.acq + n)) = false then .error .lateRemoval
      else
        .ok { J with acq := J.acq + n, pend := later,
                     eops := J.eops ++ [{ chunk := (J.tl.drop J.acq).take n, reqs := reqs,
                                          rems := now.filterMap (Note.rem? c), complete := complete }] }

def jrun (c : Cfg) : List Ev → JState → Except JErr JState
  | [], J => .ok J
  | ev :: evs, J =>
    match jstep c J ev with
    | .error e => .error e
    | .ok J' => jrun c evs J'

end Psi.E2E
