import PsiModel.EpochsExt
import Mathlib.Data.Int.Bitwise
/-! EXT18 helper lemmas: `bitOf` = `Int.testBit`, little-endian round trip. -/
namespace Psi.EpochsExt

theorem bitOf_zero (n : Int) : bitOf n 0 = (n % 2).toNat := by
  simp [bitOf]

theorem bitOf_succ (n : Int) (k : Nat) : bitOf n (k + 1) = bitOf (n / 2) k := by
  unfold bitOf
  rw [show k + 1 = 1 + k by omega, Int.shiftRight_add, Int.shiftRight_eq_div_pow n 1]
  rfl

theorem bitOf_le_one (n : Int) (k : Nat) : bitOf n k ≤ 1 := by
  unfold bitOf
  omega

theorem testBit_zero' (n : Int) : n.testBit 0 = n.bodd := by
  conv_lhs => rw [← Int.bit_decomp n]
  exact Int.testBit_bit_zero _ _

theorem testBit_succ' (n : Int) (k : Nat) : n.testBit (k + 1) = (n / 2).testBit k := by
  conv_lhs => rw [← Int.bit_decomp n]
  rw [Int.testBit_bit_succ, Int.div2_val]

theorem emod_two_eq_bodd (n : Int) : n % 2 = if n.bodd then 1 else 0 := by
  have h := Int.bodd_add_div2 n
  rw [Int.div2_val] at h
  cases hb : n.bodd <;> simp [hb] at h ⊢ <;> omega

theorem bitOf_eq_testBit (n : Int) (k : Nat) : bitOf n k = if n.testBit k then 1 else 0 := by
  induction k generalizing n with
  | zero =>
    rw [bitOf_zero, testBit_zero', emod_two_eq_bodd]
    cases n.bodd <;> simp
  | succ k ih => rw [bitOf_succ, testBit_succ', ih]

/-- the first `w` bits -/
def bitsN (n : Int) (w : Nat) : List Nat := (List.range w).map (bitOf n)

theorem binArray_eq (n w : Int) : binArray n w = bitsN n w.toNat := rfl

theorem bitsN_succ (n : Int) (w : Nat) : bitsN n (w + 1) = bitOf n 0 :: bitsN (n / 2) w := by
  simp only [bitsN, List.range_succ_eq_map, List.map_cons, List.map_map]
  congr 1
  apply List.map_congr_left
  intro k _
  simp [Function.comp, bitOf_succ]

theorem emod_two_mul (n m : Int) (hm : 0 < m) : n % (2 * m) = n % 2 + 2 * ((n / 2) % m) := by
  have h1 := Int.emod_add_mul_ediv (n / 2) m
  have h2 := Int.emod_nonneg (n / 2) (by omega : m ≠ 0)
  have h3 := Int.emod_lt_of_pos (n / 2) hm
  have key : (n / (2 * m) = (n / 2) / m ∧ n % (2 * m) = n % 2 + 2 * ((n / 2) % m)) := by
    rw [Int.ediv_emod_unique (by omega)]
    refine ⟨?_, by omega, by omega⟩
    rw [Int.mul_assoc]
    omega
  exact key.2

theorem fromBits_bitsN (n : Int) (w : Nat) : fromBits (bitsN n w) = n % 2 ^ w := by
  induction w generalizing n with
  | zero => simp [bitsN, fromBits, Int.emod_one]
  | succ w ih =>
    rw [bitsN_succ, fromBits, ih, bitOf_zero, Int.pow_succ, Int.mul_comm (2 ^ w) 2,
      emod_two_mul n (2 ^ w) (Int.pow_pos (by omega))]
    have := Int.emod_nonneg n (by omega : (2 : Int) ≠ 0)
    omega

end Psi.EpochsExt
