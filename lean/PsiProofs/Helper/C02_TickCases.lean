import PsiProofs.Helper.C02_Refine
/-! The five things one `tick` can do. -/
namespace Psi.Queue

/-- no sample of the current source is left to play -/
def srcDone (s : QState) : Prop := ∀ src, s.source = some src → ¬ src.off < src.len

/-- the state with an exhausted source dropped -/
def dropSrc (s : QState) : QState := { s with source := none }

inductive TickCase (s : QState) (c : Cell) (s' : QState) : Prop
  | paused (hp : s.paused = true) (hc : c = .Z) (hs : s' = bump s)
  | play (src : Src) (hp : s.paused = false) (hsrc : s.source = some src) (hlt : src.off < src.len)
      (he : (c, s') = emitSrc s src)
  | gap (hp : s.paused = false) (hdone : srcDone s) (hd : s.delaySamples > 0) (hc : c = .Z)
      (hs : s' = bump { dropSrc s with delaySamples := s.delaySamples - 1 })
  | dry (hp : s.paused = false) (hdone : srcDone s) (hd : s.delaySamples ≤ 0)
      (hk : nextKey (dropSrc s) = .ok none) (hc : c = .Z)
      (hs : s' = bump { dropSrc s with empty := true })
  | start (s1 : QState) (src : Src) (hp : s.paused = false) (hdone : srcDone s) (hd : s.delaySamples ≤ 0)
      (hn : nextTrial (dropSrc s) = .ok (some s1)) (hsrc : s1.source = some src) (hlt : src.off < src.len)
      (he : (c, s') = emitSrc s1 src)

theorem afterSource_cases {s : QState} {c : Cell} {s' : QState} (hp : s.paused = false)
    (hsn : s.source = none) (h : afterSource s = .ok (c, s')) : TickCase s c s' := by
  have hdone : srcDone s := by intro src h; simp [hsn] at h
  have hds : dropSrc s = s := by cases s; simp_all [dropSrc]
  unfold afterSource at h
  split at h
  · rename_i hd
    simp only [Except.ok.injEq, Prod.mk.injEq] at h
    exact .gap hp hdone hd h.1.symm (by rw [hds]; exact h.2.symm)
  · rename_i hd
    split at h
    · simp at h
    · rename_i hn
      simp only [Except.ok.injEq, Prod.mk.injEq] at h
      exact .dry hp hdone (by omega) (by rw [hds]; exact nextTrial_none hn) h.1.symm (by rw [hds]; exact h.2.symm)
    · rename_i s1 hn
      split at h
      · rename_i src hsrc
        split at h
        · rename_i hlt
          simp only [Except.ok.injEq] at h
          exact .start s1 src hp hdone (by omega) (by rw [hds]; exact hn) hsrc hlt h.symm
        · simp at h
      · simp at h

theorem tick_cases {s : QState} {c : Cell} {s' : QState} (h : tick s = .ok (c, s')) : TickCase s c s' := by
  unfold tick at h
  split at h
  · rename_i hp
    simp only [Except.ok.injEq, Prod.mk.injEq] at h
    exact .paused hp h.1.symm h.2.symm
  · rename_i hp
    have hp' : s.paused = false := by simpa using hp
    split at h
    · rename_i src hsrc
      split at h
      · rename_i hlt
        simp only [Except.ok.injEq] at h
        exact .play src hp' hsrc hlt h.symm
      · rename_i hx
        have hdone : srcDone s := by
          intro src' h'; rw [hsrc] at h'; simp only [Option.some.injEq] at h'; subst h'; exact hx
        have := afterSource_cases (s := { s with source := none }) (by simpa using hp') rfl h
        -- transport from the dropped state to `s`
        cases this with
        | paused hp2 _ _ => simp [hp'] at hp2
        | play src2 _ hs2 _ _ => simp at hs2
        | gap _ _ hd hc hs => exact .gap hp' hdone hd hc hs
        | dry _ _ hd hk hc hs => exact .dry hp' hdone hd hk hc hs
        | start s1 src2 _ _ hd hn hs2 hlt he => exact .start s1 src2 hp' hdone hd hn hs2 hlt he
    · rename_i hsn
      exact afterSource_cases hp' hsn h

end Psi.Queue
