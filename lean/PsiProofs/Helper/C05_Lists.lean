import PsiProofs.Helper.C05_Capture
/-! Helper lemmas for C05: the three loops of `extract_epochs` as filters / filterMaps. -/
namespace Psi.Extract

/-! ### requests are carried unchanged by the coroutine -/

theorem feed_req_more {α} (c c' : Capture α) (T : Nat) (ch : List α) (h : c.feed T ch = .more c') :
    c'.req = c.req := by
  unfold Capture.feed at h
  split at h
  · cases h
  · split at h
    · dsimp only at h
      split at h
      · cases h
      · cases h; rfl
    · cases h; rfl

theorem feed_req_stop {α} (c : Capture α) (e : Epoch α) (T : Nat) (ch : List α) (h : c.feed T ch = .stop e) :
    e.req = c.req := by
  unfold Capture.feed at h
  split at h
  · cases h; rfl
  · split at h
    · dsimp only at h
      split at h
      · cases h; rfl
      · cases h
    · cases h

theorem replay_req_more {α} (c c' : Capture α) (prior : List (Nat × List α)) (h : replay c prior = .more c') :
    c'.req = c.req := by
  induction prior generalizing c with
  | nil => simp only [replay] at h; cases h; rfl
  | cons x xs ih =>
    obtain ⟨st, ch⟩ := x
    simp only [replay] at h
    split at h
    · cases h
    · rename_i c1 hf
      rw [ih c1 h, feed_req_more c c1 st ch hf]

theorem replay_req_stop {α} (c : Capture α) (e : Epoch α) (prior : List (Nat × List α)) (h : replay c prior = .stop e) :
    e.req = c.req := by
  induction prior generalizing c with
  | nil => simp only [replay] at h; cases h
  | cons x xs ih =>
    obtain ⟨st, ch⟩ := x
    simp only [replay] at h
    split at h
    · rename_i e1 hf
      cases h
      exact feed_req_stop c e st ch hf
    · rename_i c1 hf
      rw [ih c1 h, feed_req_more c c1 st ch hf]

/-! ### removal loop -/

theorem hasKey_false_iff {α} (p : Pending α) (k : Nat) :
    hasKey p k = false ↔ ∀ c ∈ p, c.req.key ≠ k := by
  simp [hasKey]

theorem removeAll_pending {α} (p : Pending α) (rems : List Nat) :
    (removeAll p rems).1 = p.filter (fun c => !rems.contains c.req.key) := by
  induction rems generalizing p with
  | nil => simp only [removeAll]; exact (List.filter_eq_self.2 (fun _ _ => rfl)).symm
  | cons k ks ih =>
    simp only [removeAll]
    split
    · rw [ih, List.filter_filter]
      apply List.filter_congr
      intro c _
      simp only [List.contains_cons, Bool.not_or, bne, Bool.and_comm]
    · rename_i h
      have h' : ∀ c ∈ p, c.req.key ≠ k := (hasKey_false_iff p k).1 (by simpa using h)
      simp only [ih]
      apply List.filter_congr
      intro c hc
      have hk : c.req.key ≠ k := h' c hc
      simp [List.contains_cons, hk]

theorem removeAll_skip_sub {α} (p : Pending α) (rems : List Nat) :
    ∀ k ∈ (removeAll p rems).2, k ∈ rems := by
  induction rems generalizing p with
  | nil => simp [removeAll]
  | cons k ks ih =>
    intro x hx
    simp only [removeAll] at hx
    split at hx
    · exact List.mem_cons_of_mem _ (ih _ x hx)
    · simp only [List.mem_cons] at hx ⊢
      rcases hx with h | h
      · exact Or.inl h
      · exact Or.inr (ih _ x h)

theorem removeAll_skip_mem {α} (p : Pending α) (rems : List Nat) (k : Nat)
    (hk : k ∈ rems) (hp : hasKey p k = false) : k ∈ (removeAll p rems).2 := by
  induction rems generalizing p with
  | nil => cases hk
  | cons a as ih =>
    simp only [removeAll]
    split
    · rename_i ha
      have hne : a ≠ k := by
        intro h; subst h; rw [hp] at ha; cases ha
      have hk' : k ∈ as := by
        rcases List.mem_cons.1 hk with h | h
        · exact absurd h.symm hne
        · exact h
      apply ih _ hk'
      rw [hasKey_false_iff] at hp ⊢
      intro c hc
      exact hp c (List.mem_filter.1 hc).1
    · rcases List.mem_cons.1 hk with h | h
      · subst h; exact List.mem_cons_self
      · exact List.mem_cons_of_mem _ (ih p h hp)

/-! ### feed loop -/

def feedMore {α} (T : Nat) (ch : List α) (c : Capture α) : Option (Capture α) :=
  match c.feed T ch with
  | .more c' => some c'
  | .stop _ => none

def feedStop {α} (T : Nat) (ch : List α) (c : Capture α) : Option (Epoch α) :=
  match c.feed T ch with
  | .more _ => none
  | .stop e => some e

theorem feedAll_eq {α} (p : Pending α) (T : Nat) (ch : List α) :
    feedAll p T ch = (p.filterMap (feedMore T ch), p.filterMap (feedStop T ch)) := by
  induction p with
  | nil => rfl
  | cons c rest ih =>
    simp only [feedAll, ih, List.filterMap_cons, feedMore, feedStop]
    cases c.feed T ch <;> rfl

/-! ### intake loop -/

def intakeMore {α} (prior : List (Nat × List α)) (r : Request) : Option (Capture α) :=
  match replay (Capture.new r) prior with
  | .more c => some c
  | .stop _ => none

def intakeStop {α} (prior : List (Nat × List α)) (r : Request) : Option (Epoch α) :=
  match replay (Capture.new r) prior with
  | .more _ => none
  | .stop e => some e

theorem contains_erase_of_ne (l : List Nat) (a b : Nat) (h : b ≠ a) :
    (l.erase a).contains b = l.contains b := by
  have : b ∈ l.erase a ↔ b ∈ l := List.mem_erase_of_ne h
  by_cases hb : b ∈ l
  · have h1 : b ∈ l.erase a := this.2 hb
    simp [List.contains_iff_mem, hb, h1]
  · have h1 : ¬ b ∈ l.erase a := fun h => hb (this.1 h)
    simp [List.contains_iff_mem, hb, h1]

theorem intakeAll_eq {α} (prior : List (Nat × List α)) (p : Pending α) (skip : List Nat) (reqs : List Request)
    (hnd : (reqs.map (·.key)).Nodup) (hfresh : ∀ r ∈ reqs, hasKey p r.key = false) :
    intakeAll prior p skip reqs =
      some (p ++ (reqs.filter (fun r => !skip.contains r.key)).filterMap (intakeMore prior),
            (reqs.filter (fun r => !skip.contains r.key)).filterMap (intakeStop prior)) := by
  induction reqs generalizing p skip with
  | nil => simp [intakeAll]
  | cons r rs ih =>
    simp only [List.map_cons, List.nodup_cons] at hnd
    have hrs : ∀ r' ∈ rs, r'.key ≠ r.key := by
      intro r' hr' h
      exact hnd.1 (h ▸ List.mem_map_of_mem hr')
    have hfr : ∀ r' ∈ rs, hasKey p r'.key = false := fun r' hr' => hfresh r' (List.mem_cons_of_mem _ hr')
    simp only [intakeAll]
    by_cases hs : skip.contains r.key = true
    · simp only [hs, if_true]
      rw [ih p (skip.erase r.key) hnd.2 hfr]
      have hcong : rs.filter (fun r' => !(skip.erase r.key).contains r'.key) =
          rs.filter (fun r' => !skip.contains r'.key) := by
        apply List.filter_congr
        intro r' hr'
        rw [contains_erase_of_ne skip r.key r'.key (hrs r' hr')]
      rw [hcong, List.filter_cons_of_neg (by rw [hs]; simp)]
    · have hs' : skip.contains r.key = false := by simpa using hs
      simp only [hs', Bool.false_eq_true, if_false]
      rw [List.filter_cons_of_pos (by rw [hs']; rfl)]
      simp only [List.filterMap_cons]
      cases hrep : replay (Capture.new r) prior with
      | stop e =>
        simp only [ih p skip hnd.2 hfr, intakeMore, intakeStop, hrep]
      | more c =>
        have hp : hasKey p r.key = false := hfresh r List.mem_cons_self
        simp only [hp, Bool.false_eq_true, if_false, intakeMore, intakeStop, hrep]
        have hcreq : c.req = r := by
          have := replay_req_more _ _ _ hrep
          simpa [Capture.new] using this
        rw [ih (p ++ [c]) skip hnd.2]
        · simp [List.append_assoc]
        · intro r' hr'
          rw [hasKey_false_iff]
          intro c' hc'
          rcases List.mem_append.1 hc' with h | h
          · exact (hasKey_false_iff p r'.key).1 (hfr r' hr') c' h
          · simp only [List.mem_singleton] at h
            subst h
            rw [hcreq]
            exact fun h => hrs r' hr' h.symm

/-! ### projecting on one key -/

theorem filter_key_filterMap {β γ} (l : List β) (g : β → Option γ) (kb : β → Nat) (kc : γ → Nat) (k : Nat)
    (h : ∀ x ∈ l, ∀ y, g x = some y → kc y = kb x) :
    (l.filterMap g).filter (fun y => kc y == k) = (l.filter (fun x => kb x == k)).filterMap g := by
  induction l with
  | nil => rfl
  | cons x xs ih =>
    have ih' := ih (fun x hx => h x (List.mem_cons_of_mem _ hx))
    simp only [List.filterMap_cons, List.filter_cons]
    cases hg : g x with
    | none =>
      by_cases hk : kb x == k <;> simp [hk, hg, ih']
    | some y =>
      have hy := h x List.mem_cons_self y hg
      by_cases hk : kb x == k
      · have : (kc y == k) = true := by rw [hy]; exact hk
        simp [hk, hg, ih', this]
      · have : (kc y == k) = false := by rw [hy]; simpa using hk
        simp [hk, hg, ih', this]

theorem filter_key_unique {β} (l : List β) (kb : β → Nat) (x : β)
    (hnd : (l.map kb).Nodup) (hx : x ∈ l) : l.filter (fun y => kb y == kb x) = [x] := by
  induction l with
  | nil => cases hx
  | cons y ys ih =>
    simp only [List.map_cons, List.nodup_cons] at hnd
    rcases List.mem_cons.1 hx with h | h
    · subst h
      have : ys.filter (fun y => kb y == kb x) = [] := by
        rw [List.filter_eq_nil_iff]
        intro z hz hzk
        exact hnd.1 (by rw [← beq_iff_eq.1 hzk]; exact List.mem_map_of_mem hz)
      simp [List.filter_cons, this]
    · have hne : (kb y == kb x) = false := by
        apply Bool.eq_false_iff.2
        intro hyx
        exact hnd.1 (by rw [beq_iff_eq.1 hyx]; exact List.mem_map_of_mem h)
      simp [List.filter_cons, hne, ih hnd.2 h]

theorem filter_key_none {β} (l : List β) (kb : β → Nat) (k : Nat)
    (h : ∀ x ∈ l, kb x ≠ k) : l.filter (fun y => kb y == k) = [] := by
  rw [List.filter_eq_nil_iff]
  intro x hx hk
  exact h x hx (beq_iff_eq.1 hk)

end Psi.Extract
