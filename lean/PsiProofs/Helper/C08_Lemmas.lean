import PsiProofs.Helper.C08_Superpose
import PsiProofs.Helper.C16_DftThms
/-! Small lemmas used by the property theorems of `PsiProofs/C08.lean`. -/
namespace Psi.Db

theorem samPart_scale (g pol sfi fs fi phi : ℝ) (off j : ℕ) :
    samPart pol (g * sfi) fs fi phi off j = g * samPart pol sfi fs fi phi off j := by
  simp only [samPart]; ring


theorem uniform_scale (g low high u : ℝ) : uniform (g * low) (g * high) u = g * uniform low high u := by
  simp only [uniform]; ring


theorem ladd_split (g : ℝ) (l : List ℝ) : ladd (l.map (g * ·)) (l.map ((1 - g) * ·)) = l := by
  induction l with
  | nil => rfl
  | cons a t ih =>
    simp only [ladd, List.map_cons, List.zipWith_cons_cons] at ih ⊢
    rw [ih]; congr 1; ring

theorem ladd_zero_input (g : ℝ) (x : List ℝ) :
    ladd (x.map (g * ·)) ((x.map fun _ => (0 : ℝ)).map ((1 - g) * ·)) = x.map (g * ·) := by
  induction x with
  | nil => rfl
  | cons a t ih =>
    simp only [ladd, List.map_cons, List.zipWith_cons_cons] at ih ⊢
    rw [ih]; congr 1; ring


/-- (C07 `getDb_getSf`, restated here so that this file does not import another property file) -/
theorem getDb_getSf_C08 (c : Cal ℝ) (f L v : ℝ) (h : getSf c f L 0 = .val v) : getDb c f v = .val L := by
  obtain ⟨S, hS, hv⟩ := Res.map_eq_val h
  subst hv
  simp only [getDb, hS, Res.map_val]
  congr 1
  have := db1_sfOf S L 0
  linarith


/-- `stim.tone` at polarity +1, offset 0 and a whole-cycle frequency `f = k·fs/n` is the sinusoid of RMS amplitude `sf`. -/
theorem tone_eq_toneSig (n k : ℕ) (sf fs ph : ℝ) (hfs : fs ≠ 0) (hn : 0 < n) (j : ℕ) :
    tone (nat 1) sf fs (k * fs / n) ph 0 j = toneSig n k sf ph j := by
  rw [toneSig_eq]
  simp only [tone, nat_real, sqrt_real, cos_real, pi_real, Nat.cast_one, Nat.cast_ofNat, Nat.add_zero, one_mul]
  rw [toneConv_angle n k j fs hfs hn]
  ring


section Polarity
variable {α : Type} [TrigField α] [SignSymm α]

theorem samPart_polarity (sfi fs fi phi : α) (off j : ℕ) :
    samPart (-(nat 1)) sfi fs fi phi off j = -(samPart (nat 1) sfi fs fi phi off j) := by
  simp only [samPart, SignSymm.neg_mul]


end Polarity

end Psi.Db
