import PsiModel.Epochs
import PsiProofs.Helper.C18_Sort
/-! `debounce_epochs` on a run list that is sorted in both columns. -/
namespace Psi.Epochs

/-- both columns of the interval list are (weakly) increasing -/
def ColSorted (e : List (Int × Int)) : Prop :=
  (e.map (·.1)).Pairwise (· ≤ ·) ∧ (e.map (·.2)).Pairwise (· ≤ ·)

/-- what `epochs` returns: non-empty runs, strictly separated, in order -/
def SortedDisjoint (e : List (Int × Int)) : Prop :=
  (∀ p ∈ e, p.1 < p.2) ∧ e.Pairwise (fun p q => p.2 < q.1)

theorem SortedDisjoint.colSorted {e : List (Int × Int)} (h : SortedDisjoint e) : ColSorted e := by
  obtain ⟨h1, h2⟩ := h
  induction e with
  | nil => simp [ColSorted]
  | cons p ps ih =>
    have hp := List.pairwise_cons.mp h2
    obtain ⟨i1, i2⟩ := ih (fun q hq => h1 q (List.mem_cons_of_mem _ hq)) hp.2
    refine ⟨?_, ?_⟩
    · simp only [List.map_cons]
      refine List.pairwise_cons.mpr ⟨?_, i1⟩
      intro x hx
      obtain ⟨q, hq, rfl⟩ := List.mem_map.mp hx
      have := hp.1 q hq
      have := h1 p List.mem_cons_self
      omega
    · simp only [List.map_cons]
      refine List.pairwise_cons.mpr ⟨?_, i2⟩
      intro x hx
      obtain ⟨q, hq, rfl⟩ := List.mem_map.mp hx
      have := hp.1 q hq
      have := h1 q (List.mem_cons_of_mem _ hq)
      omega

theorem zip_map_fst_snd {α β} (l : List (α × β)) : (l.map (·.1)).zip (l.map (·.2)) = l := by
  induction l with
  | nil => rfl
  | cons p ps ih => simp [ih]

/-- on column-sorted input the two column sorts do nothing -/
theorem smoothEpochs_of_colSorted {e : List (Int × Int)} (h : ColSorted e) :
    smoothEpochs e = sweep e := by
  unfold smoothEpochs
  rw [sortInts_id h.1, sortInts_id h.2, zip_map_fst_snd]

theorem sweepGo_pad (d : Int) : ∀ (rest : List (Int × Int)) (lb ub : Int),
    (sweepGo lb (ub + d) (rest.map (fun r => (r.1, r.2 + d)))).map (fun r => (r.1, r.2 - d))
      = joinGo d lb ub rest := by
  intro rest
  induction rest with
  | nil => intro lb ub; simp [sweepGo, joinGo]
  | cons p ps ih =>
    intro lb ub
    obtain ⟨a, b⟩ := p
    simp only [List.map_cons, sweepGo, joinGo]
    by_cases h : a - ub ≤ d
    · have h' : ub + d ≥ a := by omega
      simp only [h, h', if_true]
      exact ih lb b
    · have h' : ¬ (ub + d ≥ a) := by omega
      simp only [h, h', if_false, List.map_cons]
      rw [ih a b]
      simp

theorem sweep_pad (d : Int) (k : List (Int × Int)) :
    (sweep (k.map (fun r => (r.1, r.2 + d)))).map (fun r => (r.1, r.2 - d)) = joinGaps d k := by
  cases k with
  | nil => rfl
  | cons p ps =>
    obtain ⟨a, b⟩ := p
    simp only [List.map_cons, sweep, joinGaps]
    exact sweepGo_pad d ps a b

theorem debounce_of_colSorted {e : List (Int × Int)} (d : Int) (h : ColSorted e) :
    debounceEpochs e d = debounceSpec e d := by
  unfold debounceEpochs debounceSpec
  simp only
  rw [smoothEpochs_of_colSorted, sweep_pad]
  obtain ⟨h1, h2⟩ := h
  constructor
  · simp only [List.map_map]
    have : ((fun r : Int × Int => r.1) ∘ fun r : Int × Int => (r.1, r.2 + d)) = (·.1) := rfl
    rw [this]
    exact List.Pairwise.sublist ((List.filter_sublist).map _) h1
  · simp only [List.map_map]
    have : ((fun r : Int × Int => r.2) ∘ fun r : Int × Int => (r.1, r.2 + d))
        = (fun x => x + d) ∘ (·.2) := rfl
    rw [this, ← List.map_map]
    have h3 : (List.map (·.2) (e.filter (fun r => decide (r.2 - r.1 ≥ d)))).Pairwise (· ≤ ·) :=
      List.Pairwise.sublist ((List.filter_sublist).map _) h2
    exact List.Pairwise.map _ (fun a b (hab : a ≤ b) => (by omega : a + d ≤ b + d)) h3

end Psi.Epochs
