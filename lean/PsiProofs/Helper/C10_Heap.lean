import PsiModel.Cache
/-! Heap lemmas and the invariant of the copy-on-return memo wrapper (C10 a). -/
namespace Psi.Cache

theorem lookup_mem {κ β} [DecidableEq κ] {c : List (κ × β)} {k : κ} {v : β}
    (h : lookup c k = some v) : (k, v) ∈ c := by
  induction c with
  | nil => simp [lookup] at h
  | cons p c ih =>
    obtain ⟨k', v'⟩ := p
    simp only [lookup] at h
    split at h
    · cases h; subst_vars; exact List.mem_cons_self
    · exact List.mem_cons_of_mem _ (ih h)

variable {α : Type}

theorem readAll_lt {heap : List (List α)} {as : List Nat} {vs : List (List α)}
    (h : readAll heap as = some vs) : ∀ a ∈ as, a < heap.length := by
  induction as generalizing vs with
  | nil => intro a ha; cases ha
  | cons a as ih =>
    simp only [readAll] at h
    split at h
    · rename_i v vs' hv hvs
      intro b hb
      rcases List.mem_cons.mp hb with rfl | hb
      · exact (List.getElem?_eq_some_iff.mp hv).1
      · exact ih hvs b hb
    · cases h

theorem readAll_append {heap : List (List α)} {as : List Nat} {vs : List (List α)} (x : List (List α))
    (h : readAll heap as = some vs) : readAll (heap ++ x) as = some vs := by
  induction as generalizing vs with
  | nil => simpa [readAll] using h
  | cons a as ih =>
    have hlt := readAll_lt h a List.mem_cons_self
    simp only [readAll] at h ⊢
    rw [List.getElem?_append_left hlt]
    split at h
    · rename_i v vs' hv hvs
      rw [hv, ih hvs]; exact h
    · cases h

theorem readAll_fresh (heap vs : List (List α)) :
    readAll (heap ++ vs) (List.range' heap.length vs.length) = some vs := by
  induction vs generalizing heap with
  | nil => simp [readAll]
  | cons v vs ih =>
    have h1 : (heap ++ v :: vs)[heap.length]? = some v := by simp
    have h2 := ih (heap ++ [v])
    simp only [List.length_append, List.length_cons, List.length_nil, List.append_assoc,
      List.cons_append, List.nil_append] at h2
    simp only [List.length_cons, List.range'_succ, readAll, h1, h2]

theorem readAll_set_ne {heap : List (List α)} {as : List Nat} {a : Nat} (x : List α)
    (h : a ∉ as) : readAll (heap.set a x) as = readAll heap as := by
  induction as with
  | nil => simp [readAll]
  | cons b as ih =>
    have hb : a ≠ b := fun e => h (e ▸ List.mem_cons_self)
    have ha : a ∉ as := fun e => h (List.mem_cons_of_mem _ e)
    simp only [readAll, List.getElem?_set_ne hb, ih ha]

theorem setCell_length (heap : List (List α)) (a i : Nat) (x : α) :
    (setCell heap a i x).length = heap.length := by
  unfold setCell; split <;> simp

theorem fillCell_length (heap : List (List α)) (a : Nat) (x : α) :
    (fillCell heap a x).length = heap.length := by
  unfold fillCell; split <;> simp

theorem readAll_setCell {heap : List (List α)} {as : List Nat} {a : Nat} (i : Nat) (x : α)
    (h : a ∉ as) : readAll (setCell heap a i x) as = readAll heap as := by
  unfold setCell; split
  · exact readAll_set_ne _ h
  · rfl

theorem readAll_fillCell {heap : List (List α)} {as : List Nat} {a : Nat} (x : α)
    (h : a ∉ as) : readAll (fillCell heap a x) as = readAll heap as := by
  unfold fillCell; split
  · exact readAll_set_ne _ h
  · rfl

end Psi.Cache
