import PsiProofs.Helper.C19_Spec
/-!
# C19 — the package checker decides the specification

`PackageOK p ex`: the property for a whole package, with a list `ex` of excused loads.
`checkEx_iff : checkEx p ex = true ↔ PackageOK p ex` (for every package — proved once).
-/
namespace Psi.Scope

/-- The property for one scope `s` (index `i`) of module number `mi` with scope list `m`. -/
def ScopeOK (p : Package) (ex : List (Nat × Nat × Nat)) (mi : Nat) (m : List Scope) (i : Nat) (s : Scope) : Prop :=
  (∀ l ∈ s.loads, Resolves p.builtins m i l.1 ∨ (mi, i, l.1) ∈ ex) ∧
  (∀ c ∈ s.chains, ∀ w mo, BoundAt p.builtins m i c.base w →
      importedModule m i c.base w = some mo → AttrExists p.modobjs mo c.path)

def ModuleOK (p : Package) (ex : List (Nat × Nat × Nat)) (mi : Nat) (m : Module) : Prop :=
  WF m.scopes ∧
  (∀ (i : Nat) (s : Scope), m.scopes[i]? = some s → ScopeOK p ex mi m.scopes i s) ∧
  (∀ f ∈ m.fromImports, AttrExists p.modobjs f.1 [f.2.1])

/-- No code path can fail on an unresolved name: every load of every scope of every module resolves
    (or is excused), every attribute chain off a module import exists, every `from M import a` exists. -/
def PackageOK (p : Package) (ex : List (Nat × Nat × Nat)) : Prop :=
  ∀ (mi : Nat) (m : Module), p.modules[mi]? = some m → ModuleOK p ex mi m

theorem allIdx_iff {α} (f : Nat → α → Bool) : ∀ (l : List α) (k : Nat),
    allIdx f k l = true ↔ ∀ (i : Nat) (a : α), l[i]? = some a → f (k + i) a = true := by
  intro l
  induction l with
  | nil => intro k; simp [allIdx]
  | cons x xs ih =>
    intro k
    simp only [allIdx, Bool.and_eq_true, ih]
    constructor
    · rintro ⟨h0, h1⟩ i a hi
      cases i with
      | zero => simp at hi; subst hi; simpa using h0
      | succ i =>
        simp at hi
        have := h1 i a hi
        rwa [show k + 1 + i = k + (i + 1) by omega] at this
    · intro h
      refine ⟨by simpa using h 0 x (by simp), ?_⟩
      intro i a hi
      have := h (i + 1) a (by simpa using hi)
      rwa [show k + (i + 1) = k + 1 + i by omega] at this

theorem chainOk_iff {mods : List ModObj} : ∀ (path : List Nat) (mo : Nat),
    chainOk mods mo path = true ↔ AttrExists mods mo path := by
  intro path
  induction path with
  | nil => intro mo; simp [chainOk]; exact .nil
  | cons a rest ih =>
    intro mo
    constructor
    · intro h
      unfold chainOk at h
      split at h
      · cases h
      · rename_i M hM
        simp only [Bool.and_eq_true] at h
        obtain ⟨ha, hr⟩ := h
        split at hr
        · rename_i mo' hl; exact .sub hM (mem_iff.1 ha) hl ((ih mo').1 hr)
        · rename_i hl; exact .leaf hM (mem_iff.1 ha) hl
    · intro h
      cases h with
      | leaf hM ha hl => simp [chainOk, hM, mem_iff.2 ha, hl]
      | sub hM ha hl hr => simp [chainOk, hM, mem_iff.2 ha, hl, (ih _).2 hr]

theorem excusedMem_iff {e : Nat × Nat × Nat} {ex : List (Nat × Nat × Nat)} :
    excusedMem e ex = true ↔ e ∈ ex := by
  induction ex with
  | nil => simp [excusedMem]
  | cons x xs ih =>
    obtain ⟨a, b, c⟩ := x
    obtain ⟨e1, e2, e3⟩ := e
    simp only [excusedMem, Bool.or_eq_true, Bool.and_eq_true, ih, List.mem_cons, Prod.mk.injEq]
    constructor
    · rintro (⟨⟨h1, h2⟩, h3⟩ | h)
      · exact Or.inl ⟨Nat.eq_of_beq_eq_true h1, Nat.eq_of_beq_eq_true h2, Nat.eq_of_beq_eq_true h3⟩
      · exact Or.inr h
    · rintro (⟨h1, h2, h3⟩ | h)
      · subst h1 h2 h3; exact Or.inl ⟨⟨Nat.beq_refl _, Nat.beq_refl _⟩, Nat.beq_refl _⟩
      · exact Or.inr h

theorem wfScope_iff {i : Nat} {s : Scope} : wfScope i s = true ↔ (s.kind ≠ .module → s.parent < i) := by
  unfold wfScope
  cases hk : s.kind <;> simp [Kind.isModule, Nat.blt_eq]

theorem resolves_iff {bi m i n} (wf : WF m) : (resolve bi m i n).isSome = true ↔ Resolves bi m i n := by
  constructor
  · intro h
    cases hr : resolve bi m i n with
    | none => rw [hr] at h; cases h
    | some w => exact ⟨w, resolve_sound hr⟩
  · rintro ⟨w, hw⟩
    rw [resolve_complete wf hw]; rfl

theorem chainCheck_iff {p : Package} {m : List Scope} {i : Nat} {c : Chain} (wf : WF m) :
    chainCheck p m i c = true ↔
      ∀ w mo, BoundAt p.builtins m i c.base w → importedModule m i c.base w = some mo →
        AttrExists p.modobjs mo c.path := by
  unfold chainCheck
  constructor
  · intro h w mo hw him
    rw [resolve_complete wf hw] at h
    simp only [him] at h
    exact (chainOk_iff _ _).1 h
  · intro h
    split
    · rfl
    · rename_i w hr
      split
      · rfl
      · rename_i mo him
        exact (chainOk_iff _ _).2 (h w mo (resolve_sound hr) him)

/-- Well-formedness of a scope list is what `wfScope` checks entry by entry. -/
theorem wf_iff {m : List Scope} :
    (∀ (i : Nat) (s : Scope), m[i]? = some s → wfScope i s = true) ↔ WF m := by
  constructor
  · intro h j s hs; exact wfScope_iff.1 (h j s hs)
  · intro h i s hs; exact wfScope_iff.2 (h i s hs)

theorem wf_of_allIdx {m : List Scope} (h : allIdx wfScope 0 m = true) : WF m :=
  wf_iff.1 (by simpa [allIdx_iff] using h)

theorem checkScope_iff {p ex mi m i s} (wf : WF m) :
    checkScope p ex mi m i s = true ↔ (wfScope i s = true ∧ ScopeOK p ex mi m i s) := by
  unfold checkScope ScopeOK
  simp only [Bool.and_eq_true, List.all_eq_true, Bool.or_eq_true, resolves_iff wf, excusedMem_iff,
    chainCheck_iff wf, and_assoc]

theorem checkModule_iff {p ex mi} {m : Module} :
    checkModule p ex mi m = true ↔ ModuleOK p ex mi m := by
  unfold checkModule ModuleOK
  simp only [Bool.and_eq_true, allIdx_iff, Nat.zero_add, List.all_eq_true, chainOk_iff]
  constructor
  · rintro ⟨h1, h2⟩
    have wf : WF m.scopes := wf_iff.1 (fun i s hs => by
      have := h1 i s hs
      unfold checkScope at this
      simp only [Bool.and_eq_true] at this
      exact this.1.1)
    exact ⟨wf, fun i s hs => ((checkScope_iff wf).1 (h1 i s hs)).2, h2⟩
  · rintro ⟨wf, h1, h2⟩
    exact ⟨fun i s hs => (checkScope_iff wf).2 ⟨wf_iff.2 wf i s hs, h1 i s hs⟩, h2⟩

/-- **The checker is sound and complete**, for every package and excused list. -/
theorem checkEx_iff (p : Package) (ex : List (Nat × Nat × Nat)) :
    checkEx p ex = true ↔ PackageOK p ex := by
  unfold checkEx PackageOK
  simp only [allIdx_iff, Nat.zero_add, checkModule_iff]

end Psi.Scope
