import PsiModel.EpochsExt
/-! EXT18 helper lemmas for `epochs(x, pad)`: edge membership, discrete intermediate value, slices. -/
namespace Psi.EpochsExt
open Psi.Epochs

theorem mem_risingIdx (xs : List Bool) (pos : Nat) (prev : Bool) (s : Nat) :
    s ∈ risingIdx pos prev xs ↔
      pos ≤ s ∧ (prev :: xs)[s - pos + 1]? = some true ∧ (prev :: xs)[s - pos]? = some false := by
  induction xs generalizing pos prev with
  | nil => simp [risingIdx]
  | cons b xs ih =>
    simp only [risingIdx, List.mem_append, ih]
    by_cases hs : s = pos
    · subst hs
      have : ¬ (s + 1 ≤ s) := by omega
      cases b <;> cases prev <;> simp [this]
    · by_cases hlt : s < pos
      · have h1 : ¬ (pos ≤ s) := by omega
        have h2 : ¬ (pos + 1 ≤ s) := by omega
        cases b <;> cases prev <;> simp [h1, h2, hs]
      · obtain ⟨d, rfl⟩ : ∃ d, s = pos + 1 + d := ⟨s - pos - 1, by omega⟩
        have h1 : pos + 1 + d - pos = d + 1 := by omega
        have h2 : pos + 1 + d - (pos + 1) = d := by omega
        have h3 : pos ≤ pos + 1 + d := by omega
        have h4 : pos + 1 ≤ pos + 1 + d := by omega
        rw [h1, h2]
        cases b <;> cases prev <;> simp [hs, h3, h4]

theorem mem_fallingIdx (xs : List Bool) (pos : Nat) (prev : Bool) (s : Nat) :
    s ∈ fallingIdx pos prev xs ↔
      pos ≤ s ∧ (prev :: xs)[s - pos + 1]? = some false ∧ (prev :: xs)[s - pos]? = some true := by
  induction xs generalizing pos prev with
  | nil => simp [fallingIdx]
  | cons b xs ih =>
    simp only [fallingIdx, List.mem_append, ih]
    by_cases hs : s = pos
    · subst hs
      have : ¬ (s + 1 ≤ s) := by omega
      cases b <;> cases prev <;> simp [this]
    · by_cases hlt : s < pos
      · have h1 : ¬ (pos ≤ s) := by omega
        have h2 : ¬ (pos + 1 ≤ s) := by omega
        cases b <;> cases prev <;> simp [h1, h2, hs]
      · obtain ⟨d, rfl⟩ : ∃ d, s = pos + 1 + d := ⟨s - pos - 1, by omega⟩
        have h1 : pos + 1 + d - pos = d + 1 := by omega
        have h2 : pos + 1 + d - (pos + 1) = d := by omega
        have h3 : pos ≤ pos + 1 + d := by omega
        have h4 : pos + 1 ≤ pos + 1 + d := by omega
        rw [h1, h2]
        cases b <;> cases prev <;> simp [hs, h3, h4]

/-- `s` is a rising edge: a high sample whose predecessor is low (index 0 is never an edge). -/
theorem mem_tsRising (x : List Bool) (s : Nat) :
    s ∈ tsRising x ↔ 1 ≤ s ∧ x[s]? = some true ∧ x[s - 1]? = some false := by
  cases x with
  | nil => simp [tsRising]
  | cons b xs =>
    simp only [tsRising, mem_risingIdx]
    constructor
    · rintro ⟨h1, h2, h3⟩
      rw [show s - 1 + 1 = s by omega] at h2
      exact ⟨h1, h2, h3⟩
    · rintro ⟨h1, h2, h3⟩
      rw [show s - 1 + 1 = s by omega]
      exact ⟨h1, h2, h3⟩

theorem mem_tsFalling (x : List Bool) (s : Nat) :
    s ∈ tsFalling x ↔ 1 ≤ s ∧ x[s]? = some false ∧ x[s - 1]? = some true := by
  cases x with
  | nil => simp [tsFalling]
  | cons b xs =>
    simp only [tsFalling, mem_fallingIdx]
    constructor
    · rintro ⟨h1, h2, h3⟩
      rw [show s - 1 + 1 = s by omega] at h2
      exact ⟨h1, h2, h3⟩
    · rintro ⟨h1, h2, h3⟩
      rw [show s - 1 + 1 = s by omega]
      exact ⟨h1, h2, h3⟩

/-- between a low sample and a later high sample there is a rising edge -/
theorem exists_rising_between (x : List Bool) (i : Nat) : ∀ (d j : Nat), j = i + d + 1 →
    x[i]? = some false → x[j]? = some true →
    ∃ s, i < s ∧ s ≤ j ∧ x[s]? = some true ∧ x[s - 1]? = some false := by
  intro d
  induction d with
  | zero =>
    intro j hj hi hjt
    subst hj
    exact ⟨i + 1, by omega, by omega, hjt, by simpa using hi⟩
  | succ d ih =>
    intro j hj hi hjt
    have hlen : j < x.length := by
      rcases Nat.lt_or_ge j x.length with h | h
      · exact h
      · rw [List.getElem?_eq_none h] at hjt; cases hjt
    have hprev : x[j - 1]? = some (x[j - 1]'(by omega)) := List.getElem?_eq_getElem (by omega)
    cases hb : x[j - 1]'(by omega) with
    | false => exact ⟨j, by omega, by omega, hjt, by rw [hprev, hb]⟩
    | true =>
      obtain ⟨s, h1, h2, h3, h4⟩ := ih (j - 1) (by omega) hi (by rw [hprev, hb])
      exact ⟨s, h1, by omega, h3, h4⟩

/-- between a high sample and a later low sample there is a falling edge -/
theorem exists_falling_between (x : List Bool) (j : Nat) : ∀ (d i : Nat), i = j + d + 1 →
    x[j]? = some true → x[i]? = some false →
    ∃ e, j < e ∧ e ≤ i ∧ x[e]? = some false ∧ x[e - 1]? = some true := by
  intro d
  induction d with
  | zero =>
    intro i hi hj hif
    subst hi
    exact ⟨j + 1, by omega, by omega, hif, by simpa using hj⟩
  | succ d ih =>
    intro i hi hj hif
    have hlen : i < x.length := by
      rcases Nat.lt_or_ge i x.length with h | h
      · exact h
      · rw [List.getElem?_eq_none h] at hif; cases hif
    have hprev : x[i - 1]? = some (x[i - 1]'(by omega)) := List.getElem?_eq_getElem (by omega)
    cases hb : x[i - 1]'(by omega) with
    | true => exact ⟨i, by omega, by omega, hif, by rw [hprev, hb]⟩
    | false =>
      obtain ⟨e, h1, h2, h3, h4⟩ := ih (i - 1) (by omega) hj (by rw [hprev, hb])
      exact ⟨e, h1, by omega, h3, h4⟩

/-- the slice before a rising edge at distance ≥ pad from the array start -/
theorem pySlice_before (n s p : Nat) (hs : s < n) (hp : p ≤ s) :
    pySlice n ((s : Int) - (p : Int)) (s : Int) = (s - p, s) := by
  simp only [pySlice, adjust]
  have h1 : ¬ ((s : Int) - (p : Int) < 0) := by omega
  have h2 : ¬ ((s : Int) - (p : Int) ≥ (n : Int)) := by omega
  have h3 : ¬ ((s : Int) < 0) := by omega
  have h4 : ¬ ((s : Int) ≥ (n : Int)) := by omega
  simp only [h1, h2, h3, h4, if_false]
  congr 1 <;> omega

/-- the slice after a falling edge: clipped at the end of the array -/
theorem pySlice_after (n e p : Nat) (he : e < n) :
    pySlice n (e : Int) ((e : Int) + (p : Int)) = (e, min (e + p) n) := by
  simp only [pySlice, adjust]
  have h1 : ¬ ((e : Int) < 0) := by omega
  have h2 : ¬ ((e : Int) ≥ (n : Int)) := by omega
  have h3 : ¬ ((e : Int) + (p : Int) < 0) := by omega
  simp only [h1, h2, h3, if_false]
  by_cases h : (e : Int) + (p : Int) ≥ (n : Int)
  · simp only [h, if_true]; congr 1 <;> omega
  · simp only [h, if_false]; congr 1 <;> omega

end Psi.EpochsExt

namespace Psi.EpochsExt
open Psi.Epochs

theorem lt_length_of_getElem? {α} {l : List α} {i : Nat} {a : α} (h : l[i]? = some a) : i < l.length := by
  rcases Nat.lt_or_ge i l.length with h' | h'
  · exact h'
  · rw [List.getElem?_eq_none h'] at h; cases h

/-- which samples the two padding loops write, when no slice start is negative -/
theorem inSlices_iff (x : List Bool) (p i : Nat) (hi : i < x.length)
    (guard : ∀ s ∈ tsRising x, p ≤ s) :
    inSlices (padSlices x (p : Int)) i = true ↔
      (∃ s ∈ tsRising x, s - p ≤ i ∧ i < s) ∨ (∃ e ∈ tsFalling x, e ≤ i ∧ i < e + p) := by
  simp only [inSlices, List.any_eq_true, padSlices, List.mem_append, List.mem_map, Bool.and_eq_true,
    decide_eq_true_eq]
  constructor
  · rintro ⟨sl, (⟨s, hs, rfl⟩ | ⟨e, he, rfl⟩), h1, h2⟩
    · have hsn : s < x.length := lt_length_of_getElem? ((mem_tsRising x s).mp hs).2.1
      rw [pySlice_before _ _ _ hsn (guard s hs)] at h1 h2
      exact Or.inl ⟨s, hs, h1, h2⟩
    · have hen : e < x.length := lt_length_of_getElem? ((mem_tsFalling x e).mp he).2.1
      rw [pySlice_after _ _ _ hen] at h1 h2
      exact Or.inr ⟨e, he, h1, by simp only at h2; omega⟩
  · rintro (⟨s, hs, h1, h2⟩ | ⟨e, he, h1, h2⟩)
    · have hsn : s < x.length := lt_length_of_getElem? ((mem_tsRising x s).mp hs).2.1
      refine ⟨_, Or.inl ⟨s, hs, rfl⟩, ?_⟩
      rw [pySlice_before _ _ _ hsn (guard s hs)]
      exact ⟨h1, h2⟩
    · have hen : e < x.length := lt_length_of_getElem? ((mem_tsFalling x e).mp he).2.1
      refine ⟨_, Or.inr ⟨e, he, rfl⟩, ?_⟩
      rw [pySlice_after _ _ _ hen]
      exact ⟨h1, by simp only; omega⟩

/-- "high, or within `p` before a rising edge, or within `p` after a falling edge" is dilation by `p` -/
theorem edges_iff_dilation (x : List Bool) (p i : Nat) (hi : i < x.length) :
    (x[i] = true ∨ (∃ s ∈ tsRising x, s - p ≤ i ∧ i < s) ∨ (∃ e ∈ tsFalling x, e ≤ i ∧ i < e + p)) ↔
      ∃ j, x[j]? = some true ∧ i ≤ j + p ∧ j ≤ i + p := by
  constructor
  · rintro (h | ⟨s, hs, h1, h2⟩ | ⟨e, he, h1, h2⟩)
    · exact ⟨i, by rw [List.getElem?_eq_getElem hi, h], by omega, by omega⟩
    · have := (mem_tsRising x s).mp hs
      exact ⟨s, this.2.1, by omega, by omega⟩
    · have := (mem_tsFalling x e).mp he
      exact ⟨e - 1, this.2.2, by omega, by omega⟩
  · rintro ⟨j, hj, h1, h2⟩
    cases hb : x[i] with
    | true => exact Or.inl rfl
    | false =>
      have hif : x[i]? = some false := by rw [List.getElem?_eq_getElem hi, hb]
      right
      rcases Nat.lt_trichotomy i j with hlt | heq | hgt
      · obtain ⟨s, a1, a2, a3, a4⟩ := exists_rising_between x i (j - i - 1) j (by omega) hif hj
        exact Or.inl ⟨s, (mem_tsRising x s).mpr ⟨by omega, a3, a4⟩, by omega, a1⟩
      · subst heq; rw [hif] at hj; cases hj
      · obtain ⟨e, a1, a2, a3, a4⟩ := exists_falling_between x j (i - j - 1) i (by omega) hj hif
        exact Or.inr ⟨e, (mem_tsFalling x e).mpr ⟨by omega, a3, a4⟩, a2, by omega⟩

theorem dilate_length (x : List Bool) (p : Nat) : (dilate x p).length = x.length := by
  simp [dilate]

theorem dilate_getElem_iff (x : List Bool) (p i : Nat) (hi : i < (dilate x p).length) :
    (dilate x p)[i] = true ↔ ∃ j, x[j]? = some true ∧ i ≤ j + p ∧ j ≤ i + p := by
  simp only [dilate, List.getElem_mapIdx, List.any_eq_true, List.mem_range, Bool.and_eq_true,
    beq_iff_eq, decide_eq_true_eq]
  constructor
  · rintro ⟨j, _, ⟨h1, h2⟩, h3⟩
    exact ⟨j, h1, h2, h3⟩
  · rintro ⟨j, h1, h2, h3⟩
    exact ⟨j, lt_length_of_getElem? h1, ⟨h1, h2⟩, h3⟩

theorem padded_eq_dilate (x : List Bool) (p : Nat) (guard : ∀ s ∈ tsRising x, p ≤ s) :
    padded x (p : Int) = dilate x p := by
  apply List.ext_getElem
  · unfold padded
    split <;> simp [dilate_length]
  · intro i h1 h2
    have hi : i < x.length := by rw [dilate_length] at h2; exact h2
    rw [Bool.eq_iff_iff, dilate_getElem_iff, ← edges_iff_dilation x p i hi]
    by_cases hp : (p : Int) = 0
    · have hp0 : p = 0 := by omega
      subst hp0
      simp only [padded, hp, if_true]
      constructor
      · exact Or.inl
      · rintro (h | ⟨s, _, a1, a2⟩ | ⟨e, _, a1, a2⟩)
        · exact h
        · omega
        · omega
    · simp only [padded, hp, if_false, List.getElem_mapIdx, Bool.or_eq_true]
      rw [inSlices_iff x p i hi guard]

end Psi.EpochsExt

namespace Psi.EpochsExt
open Psi.Epochs

/-- repaired code: the slice before a rising edge is clipped at the array start, for every `p` -/
theorem pySlice_before_fixed (n s p : Nat) (hs : s < n) :
    pySlice n (max ((s : Int) - (p : Int)) 0) (s : Int) = (s - p, s) := by
  simp only [pySlice, adjust]
  have h1 : ¬ (max ((s : Int) - (p : Int)) 0 < 0) := by omega
  have h2 : ¬ (max ((s : Int) - (p : Int)) 0 ≥ (n : Int)) := by omega
  have h3 : ¬ ((s : Int) < 0) := by omega
  have h4 : ¬ ((s : Int) ≥ (n : Int)) := by omega
  simp only [h1, h2, h3, h4, if_false]
  congr 1 <;> omega

theorem inSlicesFixed_iff (x : List Bool) (p i : Nat) (hi : i < x.length) :
    inSlices (padSlicesFixed x (p : Int)) i = true ↔
      (∃ s ∈ tsRising x, s - p ≤ i ∧ i < s) ∨ (∃ e ∈ tsFalling x, e ≤ i ∧ i < e + p) := by
  simp only [inSlices, List.any_eq_true, padSlicesFixed, List.mem_append, List.mem_map, Bool.and_eq_true,
    decide_eq_true_eq]
  constructor
  · rintro ⟨sl, (⟨s, hs, rfl⟩ | ⟨e, he, rfl⟩), h1, h2⟩
    · have hsn : s < x.length := lt_length_of_getElem? ((mem_tsRising x s).mp hs).2.1
      rw [pySlice_before_fixed _ _ _ hsn] at h1 h2
      exact Or.inl ⟨s, hs, h1, h2⟩
    · have hen : e < x.length := lt_length_of_getElem? ((mem_tsFalling x e).mp he).2.1
      rw [pySlice_after _ _ _ hen] at h1 h2
      exact Or.inr ⟨e, he, h1, by simp only at h2; omega⟩
  · rintro (⟨s, hs, h1, h2⟩ | ⟨e, he, h1, h2⟩)
    · have hsn : s < x.length := lt_length_of_getElem? ((mem_tsRising x s).mp hs).2.1
      refine ⟨_, Or.inl ⟨s, hs, rfl⟩, ?_⟩
      rw [pySlice_before_fixed _ _ _ hsn]
      exact ⟨h1, h2⟩
    · have hen : e < x.length := lt_length_of_getElem? ((mem_tsFalling x e).mp he).2.1
      refine ⟨_, Or.inr ⟨e, he, rfl⟩, ?_⟩
      rw [pySlice_after _ _ _ hen]
      exact ⟨h1, by simp only; omega⟩

theorem paddedFixed_eq_dilate (x : List Bool) (p : Nat) : paddedFixed x (p : Int) = dilate x p := by
  apply List.ext_getElem
  · unfold paddedFixed
    split <;> simp [dilate_length]
  · intro i h1 h2
    have hi : i < x.length := by rw [dilate_length] at h2; exact h2
    rw [Bool.eq_iff_iff, dilate_getElem_iff, ← edges_iff_dilation x p i hi]
    by_cases hp : (p : Int) = 0
    · have hp0 : p = 0 := by omega
      subst hp0
      simp only [paddedFixed, hp, if_true]
      constructor
      · exact Or.inl
      · rintro (h | ⟨s, _, a1, a2⟩ | ⟨e, _, a1, a2⟩)
        · exact h
        · omega
        · omega
    · simp only [paddedFixed, hp, if_false, List.getElem_mapIdx, Bool.or_eq_true]
      rw [inSlicesFixed_iff x p i hi]

end Psi.EpochsExt
