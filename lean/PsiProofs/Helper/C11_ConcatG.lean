import PsiProofs.Helper.C11_Slice
/-! Evaluation of `concat` on a list of well-formed arrays of one dimensionality. -/
set_option linter.unusedSimpArgs false
namespace Psi.PData

/-- labels of an array with a channel axis. -/
def chanList (a : PD) : List Label := match a.channel with | .many l => l | .one _ => []
/-- metadata entries of an array with an epoch axis. -/
def metaList (a : PD) : List Md := match a.metadata with | .many l => l | .one _ => []

theorem WF.chan_many {a : PD} (h : WF a) (h2 : 2 ≤ a.ndim) : a.channel = .many (chanList a) ∧ (chanList a).length = shapeM2 a.shape := by
  cases h with
  | d1 => simp [PD.ndim] at h2
  | d2 c n data s0 fs l m hd hl => simp [chanList, shapeM2, hl]
  | d3 e c n data s0 fs l ms hd hl hm => simp [chanList, shapeM2, hl]

theorem WF.meta_many {a : PD} (h : WF a) (h3 : 3 ≤ a.ndim) : a.metadata = .many (metaList a) ∧ (metaList a).length = shapeM3 a.shape := by
  cases h with
  | d1 => simp [PD.ndim] at h3
  | d2 => simp [PD.ndim] at h3
  | d3 e c n data s0 fs l ms hd hl hm => simp [metaList, shapeM3, hm]

theorem mapM_chan (f : PD → Except Err (List Label)) : ∀ (arrs : List PD), (∀ a ∈ arrs, WF a ∧ 2 ≤ a.ndim) →
    (∀ a, WF a → 2 ≤ a.ndim → f a = .ok (chanList a)) → arrs.mapM f = .ok (arrs.map chanList)
  | [], _, _ => rfl
  | a :: rest, h, hf => by
    rw [List.mapM_cons, mapM_chan f rest (fun b hb => h b (by simp [hb])) hf, hf a (h a (by simp)).1 (h a (by simp)).2]
    rfl

/-- channel annotation of the result of `concat`. -/
def joinChan (dim : Dim) (base : PD) (arrs : List PD) : Chan :=
  if dim = .channel then .many (arrs.map chanList).flatten else base.channel

/-- metadata annotation of the result of `concat`. -/
def joinMeta (dim : Dim) (base : PD) (arrs : List PD) : Meta :=
  if dim = .epoch then .many (arrs.map metaList).flatten else base.metadata

theorem flatMap_meta3 (f : PD → List Md) : ∀ (arrs : List PD), (∀ a ∈ arrs, WF a ∧ 3 ≤ a.ndim) →
    (∀ a, WF a → 3 ≤ a.ndim → f a = metaList a) → arrs.flatMap f = (arrs.map metaList).flatten
  | [], _, _ => rfl
  | a :: rest, h, hf => by
    rw [List.flatMap_cons, flatMap_meta3 f rest (fun b hb => h b (by simp [hb])) hf, hf a (h a (by simp)).1 (h a (by simp)).2]
    simp

/-- the acceptance conditions of `concat` on the annotations. -/
structure Joinable (dim : Dim) (base : PD) (rest : List PD) : Prop where
  fs : ∀ a ∈ rest, a.fs = base.fs
  s0 : dim = .time → checkS0 (base.s0 + base.nTime) rest = true
  chan : dim ≠ .channel → ∀ a ∈ rest, a.channel = base.channel
  md : dim ≠ .epoch → ∀ a ∈ rest, a.metadata = base.metadata

theorem concat_eval (dim : Dim) (base : PD) (rest : List PD) (d : Nat)
    (hwf : ∀ a ∈ base :: rest, WF a) (hnd : ∀ a ∈ base :: rest, a.ndim = d) (hk : dim.k ≤ d)
    (hj : Joinable dim base rest) (shape data : List Nat)
    (hnp : npConcat ((base :: rest).map fun a => (a.shape, a.data)) dim.k = .ok (shape, data)) :
    concat (base :: rest) dim =
      construct shape data base.fs base.s0 (joinChan dim base (base :: rest)) (joinMeta dim base (base :: rest)) := by
  simp only [List.map_cons] at hnp
  have hd3 : d ≤ 3 := by have := (hwf base (by simp)).ndim_le; have := hnd base (by simp); omega
  have hbd : base.ndim = d := hnd base (by simp)
  have h1 : (rest.any fun a => a.ndim != d) = false := by
    simp only [List.any_eq_false, bne_iff_ne, ne_eq, Decidable.not_not]
    intro a ha; rw [hnd a (by simp [ha])]
  have h2 : (rest.any fun a => a.fs != base.fs) = false := by
    simp only [List.any_eq_false, bne_iff_ne, ne_eq, Decidable.not_not]
    exact hj.fs
  have hch : dim ≠ .channel → (rest.any fun a => a.channel != base.channel) = false := by
    intro hdc
    simp only [List.any_eq_false, bne_iff_ne, ne_eq, Decidable.not_not]
    exact hj.chan hdc
  have hmd : dim ≠ .epoch → (rest.any fun a => a.metadata != base.metadata) = false := by
    intro hde
    simp only [List.any_eq_false, bne_iff_ne, ne_eq, Decidable.not_not]
    exact hj.md hde
  simp only [concat, concatG, hbd, ensureIndex_all d dim hk hd3, mapM_getArr_all _ hwf, h1, h2,
    Bool.false_eq_true, ↓reduceIte]
  cases dim with
  | time =>
    have := hj.s0 rfl
    simp [this, hch, hmd, joinChan, joinMeta, hnp]
  | channel =>
    rw [mapM_chan _ (base :: rest) (fun a ha => ⟨hwf a ha, by rw [hnd a ha]; exact hk⟩)
      (fun a hw h2 => by rw [(hw.chan_many h2).1])]
    simp [hmd, joinChan, joinMeta, Except.map, hnp]
  | epoch =>
    rw [flatMap_meta3 _ (base :: rest) (fun a ha => ⟨hwf a ha, by rw [hnd a ha]; exact hk⟩)
      (fun a hw h3 => by rw [(hw.meta_many h3).1]; simp [h3])]
    simp [hch, joinChan, joinMeta, hnp]

/-- a failed acceptance condition makes `concat` raise `ValueError`. -/
theorem concat_not_joinable (dim : Dim) (base : PD) (rest : List PD) (d : Nat)
    (hwf : ∀ a ∈ base :: rest, WF a) (hnd : ∀ a ∈ base :: rest, a.ndim = d) (hk : dim.k ≤ d)
    (hbad : (∃ a ∈ rest, a.fs ≠ base.fs) ∨ (dim = .time ∧ checkS0 (base.s0 + base.nTime) rest = false) ∨
      (dim ≠ .channel ∧ ∃ a ∈ rest, a.channel ≠ base.channel) ∨
      (dim ≠ .epoch ∧ ∃ a ∈ rest, a.metadata ≠ base.metadata)) :
    concat (base :: rest) dim = .error .valueError := by
  have hd3 : d ≤ 3 := by have := (hwf base (by simp)).ndim_le; have := hnd base (by simp); omega
  have hbd : base.ndim = d := hnd base (by simp)
  have h1 : (rest.any fun a => a.ndim != d) = false := by
    simp only [List.any_eq_false, bne_iff_ne, ne_eq, Decidable.not_not]
    intro a ha; rw [hnd a (by simp [ha])]
  simp only [concat, concatG, hbd, ensureIndex_all d dim hk hd3, mapM_getArr_all _ hwf, h1,
    Bool.false_eq_true, ↓reduceIte]
  by_cases b1 : (rest.any fun a => a.fs != base.fs) = true
  · simp [b1]
  by_cases b2 : (dim == Dim.time && !checkS0 (base.s0 + ↑base.nTime) rest) = true
  · simp [b1, b2]
  simp only [b1, b2, Bool.false_eq_true, ↓reduceIte]
  have hfs : ¬ ∃ a ∈ rest, a.fs ≠ base.fs := by
    simpa only [List.any_eq_true, bne_iff_ne, ne_eq] using b1
  cases dim with
  | time =>
    have hs0 : checkS0 (base.s0 + ↑base.nTime) rest = true := by simpa using b2
    rcases hbad with h | ⟨_, h⟩ | ⟨_, a, ha, h⟩ | ⟨_, a, ha, h⟩
    · exact absurd h hfs
    · simp [hs0] at h
    · have : (rest.any fun a => a.channel != base.channel) = true := by
        simp only [List.any_eq_true, bne_iff_ne, ne_eq]; exact ⟨a, ha, h⟩
      simp [this]
    · have : (rest.any fun a => a.metadata != base.metadata) = true := by
        simp only [List.any_eq_true, bne_iff_ne, ne_eq]; exact ⟨a, ha, h⟩
      by_cases b3 : (rest.any fun a => a.channel != base.channel) = true <;> simp [this, b3]
  | channel =>
    rw [mapM_chan _ (base :: rest) (fun a ha => ⟨hwf a ha, by rw [hnd a ha]; exact hk⟩)
      (fun a hw h2 => by rw [(hw.chan_many h2).1])]
    rcases hbad with h | ⟨h, _⟩ | ⟨h, _⟩ | ⟨_, a, ha, h⟩
    · exact absurd h hfs
    · cases h
    · exact absurd rfl h
    · have : (rest.any fun a => a.metadata != base.metadata) = true := by
        simp only [List.any_eq_true, bne_iff_ne, ne_eq]; exact ⟨a, ha, h⟩
      simp [this, Except.map]
  | epoch =>
    rcases hbad with h | ⟨h, _⟩ | ⟨_, a, ha, h⟩ | ⟨h, _⟩
    · exact absurd h hfs
    · cases h
    · have : (rest.any fun a => a.channel != base.channel) = true := by
        simp only [List.any_eq_true, bne_iff_ne, ne_eq]; exact ⟨a, ha, h⟩
      simp [this]
    · exact absurd rfl h

theorem checkS0_iff : ∀ (l : List PD) (cur : Int), checkS0 cur l = true ↔
    ∀ (i : Nat) (h : i < l.length), l[i].s0 = cur + ((l.take i).map fun a => (a.nTime : Int)).sum
  | [], cur => by simp [checkS0]
  | a :: rest, cur => by
    simp only [checkS0, Bool.and_eq_true, beq_iff_eq, checkS0_iff rest]
    constructor
    · rintro ⟨h0, hr⟩ i hi
      cases i with
      | zero => simp [h0]
      | succ j =>
        have := hr j (by simpa using hi)
        simp only [List.getElem_cons_succ, List.take_succ_cons, List.map_cons, List.sum_cons, this]
        omega
    · intro h
      refine ⟨by have := h 0 (by simp); simpa only [List.getElem_cons_zero, List.take_zero, List.map_nil, List.sum_nil, Int.add_zero] using this, fun i hi => ?_⟩
      have := h (i + 1) (by simpa using hi)
      simp only [List.getElem_cons_succ, List.take_succ_cons, List.map_cons, List.sum_cons] at this
      rw [this]; omega

theorem foldl_add_sum (l : List Nat) (a : Nat) : l.foldl (· + ·) a = a + l.sum := by
  induction l generalizing a with
  | nil => simp
  | cons x xs ih => simp [ih]; omega

/-- `np.concatenate` of slabs `cart (P ++ X :: Q)` along the cut axis is the slab of the joined axis. -/
theorem npConcat_slabs (pre post : List Nat) (P Q : List (List Nat)) (hP : P.map List.length = pre)
    (hQ : Q.map List.length = post) (g : Nat → Nat) (X0 : List Nat) (Xr : List (List Nat)) :
    npConcat ((X0 :: Xr).map fun X => (pre ++ [X.length] ++ post, (cart (P ++ X :: Q)).map g)) (post.length + 1) =
      .ok (pre ++ [((X0 :: Xr).map List.length).sum] ++ post, (cart (P ++ (X0 :: Xr).flatten :: Q)).map g) := by
  have hblk : ∀ X : List Nat, blocks (prod (X.length :: post)) (prod pre) ((cart (P ++ X :: Q)).map g) =
      (cart P).map fun o => ((cart (X :: Q)).map (o + ·)).map g := by
    intro X
    rw [cart_append, List.map_flatMap]
    have hlen : (cart P).length = prod pre := by rw [cart_length, hP]
    rw [← hlen]
    apply blocks_flatMap
    intro o _
    simp only [List.length_map, cart_length, List.map_cons, hQ]
  have hax : ∀ m : Nat, (pre ++ [m] ++ post).drop pre.length = m :: post := by intro m; simp
  have ht : ∀ m : Nat, (pre ++ [m] ++ post).take pre.length = pre := by intro m; simp
  have hd1 : ∀ m : Nat, (pre ++ [m] ++ post).drop (pre.length + 1) = post := by
    intro m; rw [List.append_assoc, List.drop_append]; simp
  have hg : ∀ m : Nat, (pre ++ [m] ++ post).getD pre.length 0 = m := by intro m; simp
  have e1 : (pre ++ [X0.length] ++ post).length - (post.length + 1) = pre.length := by simp
  have e0 : ¬ ((pre ++ [X0.length] ++ post).length < post.length + 1) := by simp
  simp only [npConcat, List.map_cons, e0, ↓reduceIte, e1, ht, hd1, hax, hg, List.all_cons, List.all_map, List.map_map,
    Function.comp_def, hblk, foldl_add_sum]
  rw [if_neg (by simp)]
  have hlenP : prod pre = (cart P).length := by rw [cart_length, hP]
  have hint := interleave_map (X0 :: Xr) (cart P) (fun X o => List.map (fun x => g (o + x)) (cart (X :: Q)))
  simp only [List.map_cons] at hint
  simp only [hlenP, hint, Nat.zero_add]
  congr 2
  rw [cart_append, List.map_flatMap]
  congr 1; funext o
  rw [← List.flatMap_id, cart_flatMap_axis, List.map_flatMap, List.map_flatMap]
  simp [Function.comp_def]

end Psi.PData
