import PsiModel.Stim
import PsiProofs.Helper.C01_Chunk
import Mathlib.Data.Rat.Floor
import Mathlib.Tactic.Linarith
import Mathlib.Tactic.Ring
import Mathlib.Tactic.NormNum
import Mathlib.Tactic.Positivity
/-! `square_wave` (with fix 4): the rational-period stride loop returns the
`[offset, offset+samples)` slice of `squareAt`, for every positive rational period, every
duty length, every offset and sample count.  Exact rational arithmetic throughout. -/
namespace Psi.Stim
open Psi.Chunk

variable {α : Type}

/-! ### Python round-half-even -/

theorem rhe_bounds (x : Rat) : (x - 1 / 2 ≤ (roundHalfEven x : Rat)) ∧ ((roundHalfEven x : Rat) ≤ x + 1 / 2) := by
  have h1 : ((x.floor : Int) : Rat) ≤ x := Int.floor_le x
  have h2 : x < ((x.floor : Int) : Rat) + 1 := Int.lt_floor_add_one x
  unfold roundHalfEven
  simp only []
  split
  · constructor <;> linarith
  · split
    · constructor <;> (push_cast; linarith)
    · have hd : x - (x.floor : Rat) = 1 / 2 := by
        rename_i a b
        exact le_antisymm (not_lt.mp b) (not_lt.mp a)
      split
      · constructor <;> linarith
      · constructor <;> (push_cast; linarith)

theorem rhe_mono {x y : Rat} (h : x ≤ y) : roundHalfEven x ≤ roundHalfEven y := by
  by_contra hc
  have hc' : roundHalfEven y + 1 ≤ roundHalfEven x := by omega
  have hq : ((roundHalfEven y + 1 : Int) : Rat) ≤ (roundHalfEven x : Rat) := by exact_mod_cast hc'
  push_cast at hq
  have bx := (rhe_bounds x).2
  have b_y := (rhe_bounds y).1
  have : x = y := le_antisymm h (by linarith)
  subst this
  omega

/-- `x < z + 1/2 → round(x) ≤ z`. -/
theorem rhe_le_of_lt (x : Rat) (z : Int) (h : x < (z : Rat) + 1 / 2) : roundHalfEven x ≤ z := by
  have b := (rhe_bounds x).1
  have b2 := (rhe_bounds x).2
  have : (roundHalfEven x : Rat) < ((z + 1 : Int) : Rat) := by push_cast; linarith
  have : roundHalfEven x < z + 1 := by exact_mod_cast this
  omega

/-- `z + 1/2 < x → z < round(x)`. -/
theorem lt_rhe_of_lt (x : Rat) (z : Int) (h : (z : Rat) + 1 / 2 < x) : z < roundHalfEven x := by
  have b := (rhe_bounds x).1
  have : (z : Rat) < (roundHalfEven x : Rat) := by linarith
  exact_mod_cast this

/-- `round(x) ≤ z → x ≤ z + 1/2`. -/
theorem le_of_rhe_le (x : Rat) (z : Int) (h : roundHalfEven x ≤ z) : x ≤ (z : Rat) + 1 / 2 := by
  have b := (rhe_bounds x).1
  have : (roundHalfEven x : Rat) ≤ (z : Rat) := by exact_mod_cast h
  linarith

theorem rhe_intCast (z : Int) : roundHalfEven (z : Rat) = z := by
  have h1 := rhe_le_of_lt (z : Rat) z (by linarith)
  have h2 := lt_rhe_of_lt (z : Rat) (z - 1) (by push_cast; linarith)
  omega

/-! ### Rounded period starts -/

theorem startOf_mono (p : SqP) (hp : 0 ≤ p.period) {i j : Int} (h : i ≤ j) : p.startOf i ≤ p.startOf j := by
  unfold SqP.startOf
  apply rhe_mono
  have : (i : Rat) ≤ (j : Rat) := by exact_mod_cast h
  exact mul_le_mul_of_nonneg_left this hp

/-- Contrapositive of monotonicity: a strictly earlier start is an earlier period. -/
theorem lt_of_startOf_lt (p : SqP) (hp : 0 ≤ p.period) {i j : Int} (h : p.startOf i < p.startOf j) : i < j := by
  by_contra hc
  have := startOf_mono p hp (show j ≤ i by omega)
  omega

/-- `periodAt k` is the period in progress at `k`. -/
theorem periodAt_spec (p : SqP) (hp : 0 < p.period) (k : Nat) :
    p.startOf (p.periodAt k) ≤ (k : Int) ∧ (k : Int) < p.startOf (p.periodAt k + 1) := by
  have hm1 : (((((k : Rat) + 1 / 2) / p.period).floor : Int) : Rat) ≤ ((k : Rat) + 1 / 2) / p.period :=
    Int.floor_le _
  have hm2 : ((k : Rat) + 1 / 2) / p.period < (((((k : Rat) + 1 / 2) / p.period).floor : Int) : Rat) + 1 :=
    Int.lt_floor_add_one _
  rw [le_div_iff₀ hp] at hm1
  rw [div_lt_iff₀ hp] at hm2
  unfold SqP.periodAt
  simp only []
  generalize (((k : Rat) + 1 / 2) / p.period).floor = m at hm1 hm2
  have hnext : (k : Int) < p.startOf (m + 1) := by
    unfold SqP.startOf
    apply lt_rhe_of_lt
    push_cast
    linarith
  split
  · rename_i h
    exact ⟨h, hnext⟩
  · rename_i h
    have hs : (k : Int) < p.startOf m := by omega
    have hhalf : p.period * (m : Rat) = (k : Rat) + 1 / 2 := by
      apply le_antisymm (by linarith)
      by_contra hc
      have := rhe_le_of_lt (p.period * (m : Rat)) (k : Int) (by push_cast; linarith)
      unfold SqP.startOf at hs
      omega
    constructor
    · unfold SqP.startOf
      apply rhe_le_of_lt
      push_cast
      nlinarith
    · have : m - 1 + 1 = m := by omega
      rw [this]; exact hs

/-- The period in progress is unique. -/
theorem periodAt_unique (p : SqP) (hp : 0 < p.period) (k : Nat) (i : Int)
    (h1 : p.startOf i ≤ (k : Int)) (h2 : (k : Int) < p.startOf (i + 1)) : i = p.periodAt k := by
  have hs := periodAt_spec p hp k
  have a := lt_of_startOf_lt p (le_of_lt hp) (show p.startOf i < p.startOf (p.periodAt k + 1) by omega)
  have b := lt_of_startOf_lt p (le_of_lt hp) (show p.startOf (p.periodAt k) < p.startOf (i + 1) by omega)
  omega

/-! ### One pass of the stride loop -/

theorem setSlice_length (l : List α) (a : Nat) (v : List α) (h : a + v.length ≤ l.length) :
    (setSlice l a v).length = l.length := by
  simp [setSlice]; omega

theorem setSlice_getElem? (l : List α) (a : Nat) (v : List α) (h : a + v.length ≤ l.length) (j : Nat) :
    (setSlice l a v)[j]? = if a ≤ j ∧ j < a + v.length then v[j - a]? else l[j]? := by
  unfold setSlice
  by_cases h1 : j < a
  · rw [if_neg (by omega), List.append_assoc, List.getElem?_append_left (by simp; omega),
      List.getElem?_take, if_pos h1]
  · by_cases h2 : j < a + v.length
    · rw [if_pos ⟨by omega, h2⟩, List.append_assoc, List.getElem?_append_right (by simp; omega),
        List.getElem?_append_left (by simp; omega)]
      congr 1
      simp; omega
    · rw [if_neg (by omega), List.getElem?_append_right (by simp; omega), List.getElem?_drop]
      congr 1
      simp; omega

theorem tbl_getElem? (tukey : Nat → α) (D a m t : Nat) :
    ((((List.range D).map tukey).drop a).take m)[t]? = if t < m ∧ a + t < D then some (tukey (a + t)) else none := by
  by_cases h1 : t < m
  · by_cases h2 : a + t < D
    · simp [List.getElem?_drop, h1, h2]
    · simp [List.getElem?_drop, h1, h2]
  · simp [h1]

theorem tbl_length (tukey : Nat → α) (D a m : Nat) :
    ((((List.range D).map tukey).drop a).take m).length = min m (D - a) := by simp

theorem squareStep_length (tukey : Nat → α) (p : SqP) (off n : Nat) (env : List α) (henv : env.length = n)
    (i : Int) : (squareStep ((List.range p.duty).map tukey) p off n env i).length = n := by
  unfold squareStep
  simp only []
  generalize p.startOf i = S
  split
  · split
    · rw [setSlice_length _ _ _ (by rw [tbl_length]; unfold clip; omega), henv]
    · exact henv
  · rw [← List.drop_zero (l := List.map tukey (List.range p.duty)),
      setSlice_length _ _ _ (by rw [tbl_length]; unfold clip; omega), henv]

/-- Period `i` paints the chunk samples inside `[start, start + duty)` with the Tukey table read
at the distance from the period start, and leaves every other sample as it was. -/
theorem squareStep_getElem? (tukey : Nat → α) (p : SqP) (off n : Nat) (env : List α) (henv : env.length = n)
    (i : Int) (j : Nat) (hj : j < n) :
    (squareStep ((List.range p.duty).map tukey) p off n env i)[j]? =
      if p.startOf i ≤ (off : Int) + j ∧ (off : Int) + j < p.startOf i + p.duty then
        some (tukey ((off : Int) + j - p.startOf i).toNat)
      else env[j]? := by
  unfold squareStep
  simp only []
  generalize p.startOf i = S
  split
  · rename_i hs
    split
    · rename_i hr
      rw [setSlice_getElem? _ _ _ (by rw [tbl_length]; unfold clip; omega), tbl_length]
      by_cases hc : (off : Int) + j < S + p.duty
      · rw [if_pos (by unfold clip; omega), if_pos ⟨by omega, hc⟩, tbl_getElem?,
          if_pos (by unfold clip; omega)]
        congr 2
        omega
      · rw [if_neg (by unfold clip; omega), if_neg (by omega)]
    · rw [if_neg (by omega)]
  · rename_i hs
    rw [← List.drop_zero (l := List.map tukey (List.range p.duty)),
      setSlice_getElem? _ _ _ (by rw [tbl_length]; unfold clip; omega), tbl_length]
    by_cases hc : S ≤ (off : Int) + j ∧ (off : Int) + j < S + p.duty
    · rw [if_pos (by unfold clip; omega), if_pos hc, tbl_getElem?, if_pos (by unfold clip; omega)]
      congr 2
      unfold clip; omega
    · rw [if_neg (by unfold clip; omega), if_neg hc]

/-! ### The `while True` loop -/

theorem squareLoop_length (tukey : Nat → α) (p : SqP) (off n : Nat) :
    ∀ (fuel : Nat) (i : Int) (env : List α), env.length = n →
      (squareLoop ((List.range p.duty).map tukey) p off n fuel i env).length = n := by
  intro fuel
  induction fuel with
  | zero => intro i env h; exact h
  | succ fuel ih =>
    intro i env h
    simp only [squareLoop]
    split
    · exact squareStep_length tukey p off n env h i
    · exact ih _ _ (squareStep_length tukey p off n env h i)

/-- Periods that start after sample `j` of the chunk do not touch it. -/
theorem squareLoop_later (tukey : Nat → α) (p : SqP) (hp : 0 ≤ p.period) (off n j : Nat) (hj : j < n) :
    ∀ (fuel : Nat) (i : Int) (env : List α), env.length = n → (off : Int) + j < p.startOf i →
      (squareLoop ((List.range p.duty).map tukey) p off n fuel i env)[j]? = env[j]? := by
  intro fuel
  induction fuel with
  | zero => intro i env _ _; rfl
  | succ fuel ih =>
    intro i env h hs
    have hstep : (squareStep ((List.range p.duty).map tukey) p off n env i)[j]? = env[j]? := by
      rw [squareStep_getElem? tukey p off n env h i j hj, if_neg (by omega)]
    simp only [squareLoop]
    split
    · exact hstep
    · rw [ih _ _ (squareStep_length tukey p off n env h i)
        (by have := startOf_mono p hp (show i ≤ i + 1 by omega); omega), hstep]

/-- A period that starts at or before an absolute sample `k < offset + samples` is still
inside the loop range: the break test `fm_samples * i - offset > samples` is false for it. -/
theorem no_break_of_startOf_le (p : SqP) (off n j : Nat) (hj : j < n) (m : Int)
    (hm : p.startOf m ≤ (off : Int) + j) : ¬ (p.period * (m : Rat) - (off : Rat) > (n : Rat)) := by
  have h := le_of_rhe_le _ _ hm
  have hjn : ((j : Rat) + 1 ≤ (n : Rat)) := by exact_mod_cast hj
  push_cast at h
  intro hc
  linarith

/-- Main loop invariant.  Started at a period `i ≤ m`, where `m` is the period in progress at
sample `j` of the chunk, with enough fuel to reach the break test, the loop leaves at `j` what
period `m` paints there (and the old value when `j` is past the duty part of period `m`). -/
theorem squareLoop_getElem? (tukey : Nat → α) (p : SqP) (hp : 0 ≤ p.period) (off n j : Nat) (hj : j < n)
    (m : Int) (hm1 : p.startOf m ≤ (off : Int) + j) (hm2 : (off : Int) + j < p.startOf (m + 1)) :
    ∀ (fuel : Nat) (i : Int) (env : List α), env.length = n → i ≤ m →
      p.period * ((i + (fuel : Int) : Int) : Rat) - (off : Rat) > (n : Rat) →
      (squareLoop ((List.range p.duty).map tukey) p off n fuel i env)[j]? =
        if (off : Int) + j < p.startOf m + p.duty then some (tukey ((off : Int) + j - p.startOf m).toNat)
        else env[j]? := by
  intro fuel
  induction fuel with
  | zero =>
    intro i env _ him hf
    exfalso
    have hnb := no_break_of_startOf_le p off n j hj m hm1
    have : (i : Rat) ≤ (m : Rat) := by exact_mod_cast him
    have := mul_le_mul_of_nonneg_left this hp
    simp only [Nat.cast_zero, add_zero] at hf
    apply hnb
    linarith
  | succ fuel ih =>
    intro i env h him hf
    have hlen := squareStep_length tukey p off n env h i
    have hstep := squareStep_getElem? tukey p off n env h i j hj
    simp only [squareLoop]
    by_cases hi : i = m
    · subst hi
      have hstep' : (squareStep ((List.range p.duty).map tukey) p off n env i)[j]? =
          if (off : Int) + j < p.startOf i + p.duty then some (tukey ((off : Int) + j - p.startOf i).toNat)
          else env[j]? := by
        rw [hstep]
        by_cases hc : (off : Int) + j < p.startOf i + p.duty
        · rw [if_pos ⟨hm1, hc⟩, if_pos hc]
        · rw [if_neg (by omega), if_neg hc]
      split
      · exact hstep'
      · rw [squareLoop_later tukey p hp off n j hj fuel (i + 1) _ hlen hm2, hstep']
    · have him' : i + 1 ≤ m := by omega
      have hnb := no_break_of_startOf_le p off n j hj m hm1
      have hle : p.period * ((i + 1 : Int) : Rat) ≤ p.period * (m : Rat) :=
        mul_le_mul_of_nonneg_left (by exact_mod_cast him') hp
      rw [if_neg (by intro hc; apply hnb; linarith)]
      rw [ih (i + 1) _ hlen him' (by
        have : i + 1 + (fuel : Int) = i + ((fuel + 1 : Nat) : Int) := by push_cast; omega
        rw [this]; exact hf)]
      by_cases hc : (off : Int) + j < p.startOf m + p.duty
      · rw [if_pos hc, if_pos hc]
      · rw [if_neg hc, if_neg hc, hstep, if_neg]
        have := startOf_mono p hp (show i ≤ m by omega)
        omega

/-! ### Loop range and fuel -/

/-- The first period visited, `offset // fm_samples`, starts at or before `offset`. -/
theorem startOf_first_le (p : SqP) (hp : 0 < p.period) (off : Nat) :
    p.startOf (((off : Rat) / p.period).floor) ≤ (off : Int) := by
  have h1 : ((((off : Rat) / p.period).floor : Int) : Rat) ≤ (off : Rat) / p.period := Int.floor_le _
  rw [le_div_iff₀ hp] at h1
  unfold SqP.startOf
  have := rhe_mono (show p.period * ((((off : Rat) / p.period).floor : Int) : Rat) ≤ ((off : Int) : Rat) by
    push_cast; linarith)
  rw [rhe_intCast] at this
  exact this

/-- **Termination**: `squareFuel` passes always reach the break test
`fm_samples * i_period - offset > samples` (needs `fm_samples > 0` only). -/
theorem squareFuel_sufficient (p : SqP) (hp : 0 < p.period) (off n : Nat) :
    p.period * (((((off : Rat) / p.period).floor + (squareFuel p n : Int) : Int)) : Rat) - (off : Rat) > (n : Rat) := by
  have h1 : (off : Rat) / p.period < ((((off : Rat) / p.period).floor : Int) : Rat) + 1 := Int.lt_floor_add_one _
  have h2 : ((n : Rat) + 1) / p.period < ((((( n : Rat) + 1) / p.period).floor : Int) : Rat) + 1 :=
    Int.lt_floor_add_one _
  rw [div_lt_iff₀ hp] at h1 h2
  have h3 : 0 ≤ (((n : Rat) + 1) / p.period).floor := by
    show 0 ≤ ⌊((n : Rat) + 1) / p.period⌋
    apply Int.floor_nonneg.mpr
    positivity
  unfold squareFuel
  generalize ((off : Rat) / p.period).floor = a at h1
  generalize (((n : Rat) + 1) / p.period).floor = b at h2 h3
  have hb : ((b.toNat + 3 : Nat) : Int) = b + 3 := by omega
  rw [hb]
  push_cast
  nlinarith

/-- **Fragment theorem for `square_wave`** (exact rational arithmetic): for every positive period,
every duty length, offset and sample count, the array returned is the `[offset, offset+samples)`
slice of `squareAt`. -/
theorem squareWave_eq_slice (tukey : Nat → α) (low : α) (p : SqP) (hp : 0 < p.period) (off n : Nat) :
    squareWave tukey low p off n = slice (squareAt tukey low p) off n := by
  apply List.ext_getElem?
  intro j
  rw [slice_getElem?]
  unfold squareWave
  simp only []
  by_cases hj : j < n
  · have hspec := periodAt_spec p hp (off + j)
    rw [Nat.cast_add] at hspec
    have hfirst := startOf_first_le p hp off
    have hi0 : ((off : Rat) / p.period).floor ≤ p.periodAt (off + j) := by
      have := lt_of_startOf_lt p (le_of_lt hp)
        (show p.startOf (((off : Rat) / p.period).floor) < p.startOf (p.periodAt (off + j) + 1) by omega)
      omega
    rw [squareLoop_getElem? tukey p (le_of_lt hp) off n j hj (p.periodAt (off + j)) hspec.1 hspec.2
      (squareFuel p n) _ _ (by simp) hi0 (squareFuel_sufficient p hp off n)]
    rw [if_pos hj]
    unfold squareAt
    simp only [Nat.cast_add]
    by_cases hc : (off : Int) + j < p.startOf (p.periodAt (off + j)) + p.duty
    · rw [if_pos hc, if_pos (by omega)]
    · rw [if_neg hc, if_neg (by omega)]
      simp [hj]
  · rw [if_neg hj]
    apply List.getElem?_eq_none
    rw [squareLoop_length tukey p off n _ _ _ (by simp)]
    omega

/-- Once the break test is reached within `fuel` passes, more fuel changes nothing: the fuel-bounded
loop is the `while True` loop. -/
theorem squareLoop_extra_fuel (tbl : List α) (p : SqP) (off n : Nat) (extra : Nat) :
    ∀ (fuel : Nat) (i : Int) (env : List α), 1 ≤ fuel →
      p.period * ((i + (fuel : Int) : Int) : Rat) - (off : Rat) > (n : Rat) →
      squareLoop tbl p off n (fuel + extra) i env = squareLoop tbl p off n fuel i env := by
  intro fuel
  induction fuel with
  | zero => intro i env h; omega
  | succ fuel ih =>
    intro i env _ hf
    rw [show fuel + 1 + extra = (fuel + extra) + 1 by omega]
    simp only [squareLoop]
    split
    · rfl
    · rename_i hnb
      cases fuel with
      | zero =>
        exfalso; apply hnb
        simpa using hf
      | succ f =>
        apply ih _ _ (by omega)
        have : i + 1 + ((f + 1 : Nat) : Int) = i + ((f + 1 + 1 : Nat) : Int) := by push_cast; omega
        rw [this]; exact hf

/-- Without the (unwritten) guard `fm_samples > 0` the break test is never true: for a negative
period every `fm_samples * i_period - offset` after the first pass is negative. -/
theorem no_break_of_neg_period (p : SqP) (hp : p.period < 0) (off n : Nat) (t : Nat) (ht : 1 ≤ t) :
    ¬ (p.period * (((((off : Rat) / p.period).floor + (t : Int) : Int)) : Rat) - (off : Rat) > (n : Rat)) := by
  have h1 : (off : Rat) / p.period < ((((off : Rat) / p.period).floor : Int) : Rat) + 1 := Int.lt_floor_add_one _
  rw [div_lt_iff_of_neg hp] at h1
  generalize ((off : Rat) / p.period).floor = a at h1
  have ht' : (1 : Rat) ≤ (t : Rat) := by exact_mod_cast ht
  have hn : (0 : Rat) ≤ (n : Rat) := by positivity
  push_cast
  intro hc
  nlinarith

end Psi.Stim
