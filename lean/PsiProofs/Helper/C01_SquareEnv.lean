import PsiModel.Stim
import PsiProofs.Helper.C01_Chunk
import Mathlib.Data.Rat.Floor
import Mathlib.Tactic.Linarith
import Mathlib.Tactic.Ring
import Mathlib.Tactic.NormNum
import Mathlib.Tactic.Positivity
/-! `square_wave` (with fix 4): the rational-period stride loop returns the
`[offset, offset+samples)` slice of `squareAt`, for every positive rational period, every
duty length, every offset and sample count.  Exact rational arithmetic throughout. -/
namespace Psi.Stim
open Psi.Chunk

variable {α : Type}

/-! ### Python round-half-even -/

theorem rhe_bounds (x : Rat) : (x - 1 / 2 ≤ (roundHalfEven x : Rat)) ∧ ((roundHalfEven x : Rat) ≤ x + 1 / 2) := by
  have h1 : ((x.floor : Int) : Rat) ≤ x := Int.floor_le x
  have h2 : x < ((x.floor : Int) : Rat) + 1 := Int.lt_floor_add_one x
  unfold roundHalfEven
  simp only []
  split
  · constructor <;> linarith
  · split
    · constructor <;> (push_cast; linarith)
    · have hd : x - (x.floor : Rat) = 1 / 2 := by
        rename_i a b
        exact le_antisymm (not_lt.mp b) (not_lt.mp a)
      split
      · constructor <;> linarith
      · constructor <;> (push_cast; linarith)

theorem rhe_mono {x y : Rat} (h : x ≤ y) : roundHalfEven x ≤ roundHalfEven y := by
  by_contra hc
  have hc' : roundHalfEven y + 1 ≤ roundHalfEven x := by omega
  have hq : ((roundHalfEven y + 1 : Int) : Rat) ≤ (roundHalfEven x : Rat) := by exact_mod_cast hc'
  push_cast at hq
  have bx := (rhe_bounds x).2
  have b_y := (rhe_bounds y).1
  have : x = y := le_antisymm h (by linarith)
  subst this
  omega

/-- `x < z + 1/2 → round(x) ≤ z`. -/
theorem rhe_le_of_lt (x : Rat) (z : Int) (h : x < (z : Rat) + 1 / 2) : roundHalfEven x ≤ z := by
  have b := (rhe_bounds x).1
  have b2 := (rhe_bounds x).2
  have : (roundHalfEven x : Rat) < ((z + 1 : Int) : Rat) := by push_cast; linarith
  have : roundHalfEven x < z + 1 := by exact_mod_cast this
  omega

/-- `z + 1/2 < x → z < round(x)`. -/
theorem lt_rhe_of_lt (x : Rat) (z : Int) (h : (z : Rat) + 1 / 2 < x) : z < roundHalfEven x := by
  have b := (rhe_bounds x).1
  have : (z : Rat) < (roundHalfEven x : Rat) := by linarith
  exact_mod_cast this

/-- `round(x) ≤ z → x ≤ z + 1/2`. -/
theorem le_of_rhe_le (x : Rat) (z : Int) (h : roundHalfEven x ≤ z) : x ≤ (z : Rat) + 1 / 2 := by
  have b := (rhe_bounds x).1
  have : (roundHalfEven x : Rat) ≤ (z : Rat) := by exact_mod_cast h
  linarith

theorem rhe_intCast (z : Int) : roundHalfEven (z : Rat) = z := by
  have h1 := rhe_le_of_lt (z : Rat) z (by linarith)
  have h2 := lt_rhe_of_lt (z : Rat) (z - 1) (by push_cast; linarith)
  omega

/-! ### Rounded period starts -/

theorem startOf_mono (p : SqP) (hp : 0 ≤ p.period) {i j : Int} (h : i ≤ j) : p.startOf i ≤ p.startOf j := by
  unfold SqP.startOf
  apply rhe_mono
  have : (i : Rat) ≤ (j : Rat) := by exact_mod_cast h
  exact mul_le_mul_of_nonneg_left this hp

/-- Contrapositive of monotonicity: a strictly earlier start is an earlier period. -/
theorem lt_of_startOf_lt (p : SqP) (hp : 0 ≤ p.period) {i j : Int} (h : p.startOf i < p.startOf j) : i < j := by
  by_contra hc
  have := startOf_mono p hp (show j ≤ i by omega)
  omega

/-- `periodAt k` is the period in progress at `k`. -/
theorem periodAt_spec (p : SqP) (hp : 0 < p.period) (k : Nat) :
    p.startOf (p.periodAt k) ≤ (k : Int) ∧ (k : Int) < p.startOf (p.periodAt k + 1) := by
  have hm1 : (((((k : Rat) + 1 / 2) / p.period).floor : Int) : Rat) ≤ ((k : Rat) + 1 / 2) / p.period :=
    Int.floor_le _
  have hm2 : ((k : Rat) + 1 / 2) / p.period < (((((k : Rat) + 1 / 2) / p.period).floor : Int) : Rat) + 1 :=
    Int.lt_floor_add_one _
  rw [le_div_iff₀ hp] at hm1
  rw [div_lt_iff₀ hp] at hm2
  unfold SqP.periodAt
  simp only []
  generalize (((k : Rat) + 1 / 2) / p.period).floor = m at hm1 hm2
  have hnext : (k : Int) < p.startOf (m + 1) := by
    unfold SqP.startOf
    apply lt_rhe_of_lt
    push_cast
    linarith
  split
  · rename_i h
    exact ⟨h, hnext⟩
  · rename_i h
    have hs : (k : Int) < p.startOf m := by omega
    have hhalf : p.period * (m : Rat) = (k : Rat) + 1 / 2 := by
      apply le_antisymm (by linarith)
      by_contra hc
      have := rhe_le_of_lt (p.period * (m : Rat)) (k : Int) (by push_cast; linarith)
      unfold SqP.startOf at hs
      omega
    constructor
    · unfold SqP.startOf
      apply rhe_le_of_lt
      push_cast
      nlinarith
    · have : m - 1 + 1 = m := by omega
      rw [this]; exact hs

end Psi.Stim
