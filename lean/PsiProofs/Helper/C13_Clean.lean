import PsiModel.Edges
import PsiProofs.Helper.C13_Stream
/-!
The hypothesis `Clean` of the C13 theorems covers every stream of the property's quantifier:
a stream assembled from alternating runs, all but the last longer than `m`, is clean — whatever the
initial state.
-/
set_option linter.unusedSimpArgs false
namespace Psi.Edges
open Psi.Epochs

/-- the stream with run lengths `ls`, alternating, starting with value `v` -/
def ofRuns : Bool → List Nat → List Bool
  | _, [] => []
  | v, l :: ls => List.replicate l v ++ ofRuns (!v) ls

theorem edgesOf_replicate_append (v : Bool) (l : Nat) (pos : Int) (ys : List Bool) :
    edgesOf v pos (List.replicate l v ++ ys) = edgesOf v (pos + l) ys := by
  rw [edgesOf_append, (edgesOf_replicate v l pos).1, (edgesOf_replicate v l 0).2]
  simp

theorem gap_ofRuns (m : Nat) : ∀ (ls : List Nat) (v prev : Bool) (pos : Int),
    (∀ l ∈ ls, 1 ≤ l) → (∀ l ∈ ls.dropLast, m < l) →
    (edgesOf prev pos (ofRuns v ls)).Pairwise (Gap m) := by
  intro ls
  induction ls with
  | nil => intro v prev pos _ _; simp [ofRuns, edgesOf]
  | cons l ls ih =>
    intro v prev pos h1 h2
    have hl : 1 ≤ l := h1 l List.mem_cons_self
    have ih' := ih (!v) v (pos + l) (fun x hx => h1 x (List.mem_cons_of_mem _ hx))
      (fun x hx => h2 x (by
        cases ls with
        | nil => simp at hx
        | cons a as => simp only [List.dropLast_cons_cons]; exact List.mem_cons_of_mem _ hx))
    by_cases hv : v = prev
    · subst hv
      simp only [ofRuns]
      rw [edgesOf_replicate_append]
      exact ih'
    · obtain ⟨k, rfl⟩ : ∃ k, l = k + 1 := ⟨l - 1, by omega⟩
      simp only [ofRuns, List.replicate_succ, List.cons_append, edgesOf]
      rw [edgesOf_replicate_append]
      have hne : (v != prev) = true := by simpa using hv
      have hpos : pos + 1 + (k : Int) = pos + ((k + 1 : Nat) : Int) := by omega
      simp only [hne, if_true, List.singleton_append, hpos]
      refine List.pairwise_cons.mpr ⟨?_, ih'⟩
      intro e he
      cases ls with
      | nil => simp [ofRuns, edgesOf] at he
      | cons a as =>
        have hm : m < k + 1 := h2 (k + 1) (by simp [List.dropLast_cons_cons])
        have := (edgesOf_bounds _ _ _ e he).1
        simp only [Gap]
        omega

end Psi.Edges
