import PsiModel.QueueSpec
/-! Frame lemmas: which fields `nextKey` / `decrementKey` / `nextTrial` touch. -/
namespace Psi.Queue

/-- split every `match`/`if` in hypothesis `h`, simplify, repeat -/
macro "crack" h:ident : tactic =>
  `(tactic| ((repeat' split at $h:ident) <;> (try simp at $h:ident) <;>
             (repeat' split at $h:ident) <;> (try simp at $h:ident) <;>
             (repeat' split at $h:ident) <;> (try simp at $h:ident)))

theorem nextKey_frame {s s1 : QState} {k : Nat} (h : nextKey s = .ok (some (k, s1))) :
    s1 = { s with cursor := s1.cursor, draws := s1.draws, block := s1.block, perms := s1.perms } := by
  unfold nextKey at h
  crack h
  all_goals (obtain ⟨_, rfl⟩ := h; rfl)

theorem decrementKey_frame {s s2 : QState} {key : Nat} (h : decrementKey s key = .ok s2) :
    s2 = { s with data := setTrials s.data key (· - 1), ordering := s2.ordering, complete := s2.complete } := by
  unfold decrementKey at h
  crack h
  all_goals (subst h; rfl)


/-- the `Info` record `next_trial` logs -/
def mkInfo (s : QState) (key : Nat) (e : Entry) (d : Int) : Info :=
  { uid := s.added.length, key := key, k := s.samples, dur := e.dur, len := e.len, delay := d }

theorem nextTrial_some {s s' : QState} (h : nextTrial s = .ok (some s')) :
    ∃ key s1 s2 e d, nextKey s = .ok (some (key, s1)) ∧ decrementKey s1 key = .ok s2 ∧
      s2.data[key]? = some e ∧ 0 ≤ d ∧ e.delays[e.dpos % e.delays.length]? = some d ∧
      s' = { s2 with data := s2.data.modify key (fun e => { e with dpos := e.dpos + 1 }),
                     source := some { key := key, off := 0, len := e.len, gen := e.gen },
                     delaySamples := d,
                     generated := s2.generated ++ [mkInfo s2 key e d],
                     added := s2.added ++ [mkInfo s2 key e d] } := by
  unfold nextTrial at h
  split at h
  · simp at h
  · simp at h
  · rename_i key s1 hk
    split at h
    · simp at h
    · split at h
      · simp at h
      · rename_i s2 hd
        split at h
        · simp at h
        · rename_i e he
          split at h
          · simp at h
          · split at h
            · simp at h
            · rename_i d hdl
              split at h
              · simp at h
              · rename_i hneg
                simp only [Except.ok.injEq, Option.some.injEq] at h
                exact ⟨key, s1, s2, e, d, hk, hd, he, by omega, hdl, h.symm⟩

theorem nextTrial_none {s : QState} (h : nextTrial s = .ok none) : nextKey s = .ok none := by
  unfold nextTrial at h
  crack h
  assumption

theorem nextTrial_none_of {s : QState} (h : nextKey s = .ok none) : nextTrial s = .ok none := by
  unfold nextTrial; rw [h]


/-- everything an observer needs to know about a successful `next_trial` -/
theorem nextTrial_obs {s s1 : QState} (h : nextTrial s = .ok (some s1)) :
    ∃ info : Info, ∃ g : Bool, s1.added = s.added ++ [info] ∧ s1.generated = s.generated ++ [info] ∧
      info.k = s.samples ∧ info.uid = s.added.length ∧
      s1.source = some { key := info.key, off := 0, len := info.len, gen := g } ∧
      s1.delaySamples = info.delay ∧ 0 ≤ info.delay ∧ s1.samples = s.samples ∧
      s1.paused = s.paused ∧ s1.empty = s.empty ∧ s1.removed = s.removed ∧ s1.kind = s.kind := by
  obtain ⟨key, sa, sb, e, d, hk, hd, he, hd0, _, rfl⟩ := nextTrial_some h
  have f1 := nextKey_frame hk
  have f2 := decrementKey_frame hd
  refine ⟨mkInfo sb key e d, e.gen, ?_, ?_, ?_, ?_, rfl, rfl, hd0, ?_, ?_, ?_, ?_, ?_⟩ <;>
    simp only [mkInfo] <;> rw [f2] <;> simp only <;> rw [f1]

end Psi.Queue
