import PsiProofs.Helper.C02_TickCases
/-! The output of a pause-free run is the rendering of the notified trials. -/
namespace Psi.Queue

/-- what is already committed to be played from state `s`: rest of the waveform, then its delay -/
def rest (s : QState) : List Cell :=
  (match s.source with
   | some src => wave src.key src.off (src.len - src.off)
   | none => []) ++ zeros s.delaySamples.toNat

/-- the timeline of a list of notified trials: each waveform in full, then its delay in zeros -/
def render (infos : List Info) : List Cell :=
  infos.flatMap (fun i => wave i.key 0 i.len ++ zeros i.delay.toNat)

theorem render_append (a b : List Info) : render (a ++ b) = render a ++ render b := by
  simp [render]

/-- nothing pending and nothing left to start -/
def Dry (s : QState) : Prop := s.source = none ∧ s.delaySamples ≤ 0 ∧ nextKey s = .ok none

/-- trial `j` starts right after everything rendered before it -/
def PosOK (base : Int) (infos : List Info) : Prop :=
  ∀ j (h : j < infos.length), infos[j].k = base + ((render (infos.take j)).length : Nat)

structure TL (s0 : QState) (out : List Cell) (s : QState) : Prop where
  np : s.paused = false
  clock : s.samples = s0.samples + (out.length : Nat)
  ext : ∃ new z, s.added = s0.added ++ new ∧
        out ++ rest s = rest s0 ++ render new ++ zeros z ∧ (0 < z → Dry s) ∧
        PosOK (s0.samples + ((rest s0).length : Nat)) new

theorem TL_init (s0 : QState) (hp : s0.paused = false) : TL s0 [] s0 :=
  ⟨hp, by simp, [], 0, by simp, by simp [render], by simp, by intro j h; simp at h⟩

theorem rest_emit (s : QState) (src : Src) (hs : s.source = some src) (hlt : src.off < src.len) :
    rest s = Cell.W src.key src.off :: rest (emitSrc s src).2 := by
  have h1 : src.len - src.off = (src.len - (src.off + 1)) + 1 := by omega
  simp only [rest, hs, emitSrc, bump]
  rw [h1, wave_succ]
  by_cases hc : (src.gen && decide (src.off + 1 ≥ src.len)) = true
  · simp only [hc, if_true]
    simp only [Bool.and_eq_true, decide_eq_true_eq] at hc
    have : src.len - (src.off + 1) = 0 := by omega
    simp [this]
  · simp only [hc, if_false, Bool.false_eq_true]
    simp

theorem rest_dropSrc (s : QState) (hd : srcDone s) : rest (dropSrc s) = rest s := by
  simp only [rest, dropSrc]
  cases hs : s.source with
  | none => rfl
  | some src =>
    have := hd src hs
    have : src.len - src.off = 0 := by omega
    simp [this]


theorem zeros_succ' (n : Nat) : zeros (n + 1) = zeros n ++ [Cell.Z] := by
  simp [zeros, List.replicate_succ']

theorem emitSrc_fields (s : QState) (src : Src) :
    (emitSrc s src).1 = Cell.W src.key src.off ∧ (emitSrc s src).2.paused = s.paused ∧
    (emitSrc s src).2.samples = s.samples + 1 ∧ (emitSrc s src).2.added = s.added ∧
    (emitSrc s src).2.delaySamples = s.delaySamples := by
  simp [emitSrc, bump]

theorem PosOK_snoc {base : Int} {new : List Info} {info : Info} (h : PosOK base new)
    (hk : info.k = base + ((render new).length : Nat)) : PosOK base (new ++ [info]) := by
  intro j hj
  by_cases hlt : j < new.length
  · have := h j hlt
    simp only [List.getElem_append_left hlt]
    rw [List.take_append_of_le_length (by omega)]
    exact this
  · have hj' : j = new.length := by simp at hj; omega
    subst hj'
    simp [hk]

theorem TL_step {s0 s s' : QState} {out : List Cell} {c : Cell} (inv : TL s0 out s)
    (h : tick s = .ok (c, s')) : TL s0 (out ++ [c]) s' := by
  obtain ⟨np, clock, new, z, hadd, heq, hdry, hpos⟩ := inv
  cases tick_cases h with
  | paused hp _ _ => simp [np] at hp
  | play src _ hsrc hlt he =>
    have hf := emitSrc_fields s src
    rw [← he] at hf
    simp only at hf
    obtain ⟨hc, h1, h2, h3, _⟩ := hf
    have hr := rest_emit s src hsrc hlt
    rw [← he] at hr
    simp only at hr
    refine ⟨by rw [h1, np], by rw [h2, clock]; simp; omega, new, z, by rw [h3, hadd], ?_, ?_, hpos⟩
    · rw [← heq, hr, hc]; simp
    · intro hz; have := (hdry hz).1; simp [hsrc] at this
  | gap _ hdone hd hc hs =>
    subst hs hc
    have hr : rest s = Cell.Z :: zeros (s.delaySamples - 1).toNat := by
      rw [← rest_dropSrc s hdone]
      simp only [rest, dropSrc, List.nil_append]
      have : s.delaySamples.toNat = (s.delaySamples - 1).toNat + 1 := by omega
      rw [this, zeros_succ]
    refine ⟨by simp [bump, dropSrc, np], by simp [bump, dropSrc, clock]; omega, new, z,
      by simp [bump, dropSrc, hadd], ?_, ?_, hpos⟩
    · rw [← heq, hr]; simp [rest, bump, dropSrc]
    · intro hz; have := (hdry hz).2.1; omega
  | dry _ hdone hd hk hc hs =>
    subst hs hc
    have hr : rest s = [] := by
      rw [← rest_dropSrc s hdone]
      have : s.delaySamples.toNat = 0 := by omega
      simp [rest, dropSrc, this]
    refine ⟨by simp [bump, dropSrc, np], by simp [bump, dropSrc, clock]; omega, new, z + 1,
      by simp [bump, dropSrc, hadd], ?_, ?_, hpos⟩
    · rw [hr] at heq
      have : s.delaySamples.toNat = 0 := by omega
      have hrs : rest (bump { dropSrc s with empty := true }) = [] := by
        simp [rest, bump, dropSrc, this]
      simp only [List.append_nil] at heq
      rw [hrs, heq, zeros_succ']; simp
    · intro _
      refine ⟨by simp [bump, dropSrc], by simp [bump, dropSrc]; omega, ?_⟩
      have := nextKey_none_indep true (s.samples + 1) hk
      simpa [bump, dropSrc] using this
  | start s1 src _ hdone hd hn hsrc hlt he =>
    have hz : z = 0 := by
      rcases Nat.eq_zero_or_pos z with hz | hz
      · exact hz
      · obtain ⟨hsn, _, hkn⟩ := hdry hz
        have : dropSrc s = s := by cases s; simp_all [dropSrc]
        rw [this, nextTrial_none_of hkn] at hn
        simp at hn
    subst hz
    have hr : rest s = [] := by
      rw [← rest_dropSrc s hdone]
      have : s.delaySamples.toNat = 0 := by omega
      simp [rest, dropSrc, this]
    obtain ⟨info, g, ha, _, hk, _, hs1, hdl, hd0, hsm, hpa, _, _, _⟩ := nextTrial_obs hn
    simp only [dropSrc] at ha hk hsm hpa
    rw [hs1] at hsrc
    simp only [Option.some.injEq] at hsrc
    subst hsrc
    have hf := emitSrc_fields s1 { key := info.key, off := 0, len := info.len, gen := g }
    rw [← he] at hf
    simp only at hf
    obtain ⟨hc, h1, h2, h3, _⟩ := hf
    have hr1 := rest_emit s1 _ hs1 hlt
    rw [← he] at hr1
    simp only at hr1
    have hrs1 : rest s1 = wave info.key 0 info.len ++ zeros info.delay.toNat := by
      simp [rest, hs1, hdl]
    rw [hr] at heq
    simp only [List.append_nil, zeros_zero] at heq
    refine ⟨by rw [h1, hpa, np], by rw [h2, hsm, clock]; simp; omega, new ++ [info], 0,
      by rw [h3, ha, hadd]; simp, ?_, by simp, ?_⟩
    · have : out ++ [c] ++ rest s' = out ++ rest s1 := by rw [hr1, hc]; simp
      rw [this, hrs1, heq, render_append]
      simp [render]
    · apply PosOK_snoc hpos
      rw [hk, clock, heq]
      simp; omega

theorem TL_run {s0 : QState} (n : Nat) {s s' : QState} {out cs : List Cell} (inv : TL s0 out s)
    (h : runTicks n s = .ok (cs, s')) : TL s0 (out ++ cs) s' := by
  induction n generalizing s out cs with
  | zero => simp [runTicks] at h; obtain ⟨rfl, rfl⟩ := h; simpa using inv
  | succ n ih =>
    rw [runTicks] at h
    cases ht : tick s with
    | error e => simp [ht] at h
    | ok r =>
      obtain ⟨c, s1⟩ := r
      simp only [ht] at h
      cases hr : runTicks n s1 with
      | error e => simp [hr] at h
      | ok r2 =>
        obtain ⟨cs2, s2⟩ := r2
        simp only [hr, Except.ok.injEq, Prod.mk.injEq] at h
        obtain ⟨rfl, rfl⟩ := h
        have := ih (TL_step inv ht) hr
        simpa using this

end Psi.Queue
