import PsiProofs.Helper.C03_Policy
/-! FIFO and Random queues (a key leaves the ordering when its counter reaches 0): the ordering is
always the list of stimuli not yet satisfied; FIFO takes its head, Random the oracle's pick. -/
namespace Psi.Queue

/-- stimuli (in insertion order) presented fewer times than requested, given the trials `P` so far -/
def unsatList (n : Nat) (req : Nat → Int) (P : List Nat) : List Nat :=
  (List.range n).filter (fun k => decide (((P.count k : Nat) : Int) < req k))

theorem mem_unsatList {n : Nat} {req : Nat → Int} {P : List Nat} {k : Nat} :
    k ∈ unsatList n req P ↔ k < n ∧ ((P.count k : Nat) : Int) < req k := by
  simp [unsatList]

theorem unsatList_nodup (n : Nat) (req : Nat → Int) (P : List Nat) : (unsatList n req P).Nodup :=
  List.Nodup.sublist List.filter_sublist List.nodup_range

/-- logging one more trial of `k`: `k` leaves the list iff it is now satisfied -/
theorem unsatList_snoc (n : Nat) (req : Nat → Int) (P : List Nat) (k : Nat) :
    unsatList n req (P ++ [k]) =
      if ((P.count k : Nat) : Int) + 1 < req k then unsatList n req P else (unsatList n req P).erase k := by
  split
  · rename_i h
    unfold unsatList
    apply List.filter_congr
    intro x _
    rw [List.count_append, List.count_singleton]
    by_cases hx : k = x
    · subst hx
      have h1 : ((P.count k : Nat) : Int) < req k := by omega
      simp [h, h1]
    · simp [hx]
  · rename_i h
    rw [(unsatList_nodup n req P).erase_eq_filter]
    unfold unsatList
    rw [List.filter_filter]
    apply List.filter_congr
    intro x _
    rw [List.count_append, List.count_singleton]
    by_cases hx : k = x
    · subst hx
      simp [h]
    · have : x ≠ k := fun h' => hx h'.symm
      simp [hx, this]

/-- What FIFO and Random share: the ordering is the list of unsatisfied stimuli. -/
structure EraseCore (n : Nat) (req : Nat → Int) (v : PView) : Prop where
  base : Base n req v
  kind : v.kind = .fifo ∨ v.kind = .random
  ord : v.ordering = unsatList n req v.keys
  nonneg : ∀ k, k < n → 0 ≤ trv v.data k

theorem EraseCore_init {s : QState} (h : Loaded s) (hk : s.kind = .fifo ∨ s.kind = .random) :
    EraseCore s.data.length (fun k => trialsOf s k) (view s) := by
  refine ⟨Base_init h, hk, ?_, ?_⟩
  · simp only [view, h.ordering, h.added, List.map_nil, unsatList, List.count_nil]
    symm
    rw [List.filter_eq_self]
    intro k hk'
    have := h.trials (List.mem_range.mp hk')
    simp; omega
  · intro k hk'; have := h.trials hk'; rw [trialsOf_eq] at this; simp only [view]; omega

/-- one trial of a key `k` of the ordering, whatever way `next_key` chose it -/
theorem EraseCore_after {n : Nat} {req : Nat → Int} {s sa : QState} {k : Nat}
    (hi : EraseCore n req (view s)) (hkey : nextKey s = .ok (some (k, sa))) (hmem : k ∈ s.ordering) :
    ∃ s1, nextTrial s = .ok (some s1) ∧ EraseCore n req (view s1) ∧
      (view s1).keys = (view s).keys ++ [k] ∧ (view s1).draws = sa.draws ∧ (view s1).kind = s.kind := by
  have hlen : s.data.length = n := hi.base.len
  have hkind : s.kind = .fifo ∨ s.kind = .random := hi.kind
  have hord : s.ordering = unsatList n req (view s).keys := hi.ord
  have f1 := nextKey_frame hkey
  have hsak : sa.kind = s.kind := by rw [f1]
  have hsao : sa.ordering = s.ordering := by rw [f1]
  have hsad : sa.data = s.data := by rw [f1]
  have hmem' := hmem
  rw [hord, mem_unsatList] at hmem'
  obtain ⟨hkl, hunsat⟩ := hmem'
  have hdec := decrementKey_erase (s := sa) (by rw [hsak]; exact hkind) (by rw [hsao]; exact hmem)
  obtain ⟨s1, hs1, hv⟩ := nextTrial_ok hkey hdec (by rw [hlen]; exact hkl) hi.base.delays
  refine ⟨s1, hs1, ?_, by rw [hv], by rw [hv], by rw [hv]; rfl⟩
  have hb1 : Base n req (view s1) := Base_step hi.base hkl (by rw [hv]; rfl) (by rw [hv])
  have hkeys : (view s1).keys = (view s).keys ++ [k] := by rw [hv]
  have hdata : (view s1).data = dataStep s.data k := by rw [hv]
  have hled := hi.base.led k hkl
  simp only [view] at hled
  refine ⟨hb1, by rw [hv]; exact hkind, ?_, ?_⟩
  · have : (view s1).ordering =
        if trv (setTrials s.data k (· - 1)) k ≤ 0 then s.ordering.erase k else s.ordering := by
      rw [hv]; simp only [hsad, hsao]
    rw [this, hkeys, unsatList_snoc, trv_setTrials _ _ _ (by rw [hlen]; exact hkl), hord]
    simp only [if_true, view]
    by_cases hc : trv s.data k - 1 ≤ 0
    · have : ¬ ((((s.added.map (·.key)).count k : Nat) : Int) + 1 < req k) := by omega
      simp only [hc, this, if_true, if_false]
    · have : ((((s.added.map (·.key)).count k : Nat) : Int) + 1 < req k) := by omega
      simp only [hc, this, if_true, if_false]
  · intro k' hk'
    rw [hdata, trv_dataStep _ _ _ (by rw [hlen]; exact hkl)]
    have h0 := hi.nonneg k' hk'
    simp only [view] at h0 hunsat
    split
    · rename_i h; subst h; omega
    · exact h0

/-- once the ordering is empty every stimulus was presented exactly as often as requested -/
theorem EraseCore.exact {n : Nat} {req : Nat → Int} {v : PView} (hi : EraseCore n req v) :
    (∀ k, k < n → ((v.keys.count k : Nat) : Int) ≤ req k) ∧
    (v.ordering = [] → ∀ k, k < n → ((v.keys.count k : Nat) : Int) = req k) := by
  refine ⟨?_, ?_⟩
  · intro k hk
    have := hi.nonneg k hk
    rw [hi.base.led k hk] at this; omega
  · intro ho k hk
    have h0 := hi.nonneg k hk
    rw [hi.base.led k hk] at h0
    have : k ∉ unsatList n req v.keys := by rw [← hi.ord, ho]; simp
    rw [mem_unsatList] at this
    have : ¬ ((v.keys.count k : Nat) : Int) < req k := fun h => this ⟨hk, h⟩
    omega

/-! ### FIFO: the head of the unsatisfied list -/

structure FifoNew (n : Nat) (req : Nat → Int) (v : PView) : Prop where
  core : EraseCore n req v
  kind : v.kind = .fifo
  pick : ∀ j (h : j < v.keys.length), (unsatList n req (v.keys.take j)).head? = some v.keys[j]

theorem FifoNew_init {s : QState} (h : Loaded s) (hk : s.kind = .fifo) :
    FifoNew s.data.length (fun k => trialsOf s k) (view s) :=
  ⟨EraseCore_init h (Or.inl hk), hk, by intro j hj; simp [view, h.added] at hj⟩

theorem FifoNew_step {n : Nat} {req : Nat → Int} (s : QState) (hi : FifoNew n req (view s)) :
    nextTrial s = .ok none ∨ ∃ s1, nextTrial s = .ok (some s1) ∧ FifoNew n req (view s1) := by
  have hkind : s.kind = .fifo := hi.kind
  have hord : s.ordering = unsatList n req (view s).keys := hi.core.ord
  cases ho : s.ordering with
  | nil =>
    left
    apply nextTrial_none_of
    rw [nextKey_none_iff]
    simp [Done, hkind, ho]
  | cons k rest =>
    right
    have hkey : nextKey s = .ok (some (k, s)) := by simp [nextKey, hkind, ho]
    obtain ⟨s1, hs1, hc1, hkeys, _, hk1⟩ := EraseCore_after hi.core hkey (by simp [ho])
    refine ⟨s1, hs1, hc1, by rw [hk1]; exact hkind, ?_⟩
    intro j hj
    simp only [hkeys] at hj ⊢
    rw [List.length_append] at hj
    simp only [List.length_singleton] at hj
    by_cases hjl : j < (view s).keys.length
    · rw [List.getElem_append_left hjl, List.take_append_of_le_length (by omega)]
      exact hi.pick j hjl
    · have : j = (view s).keys.length := by omega
      subst this
      rw [List.getElem_append_right (Nat.le_refl _), List.take_append_of_le_length (Nat.le_refl _),
        List.take_of_length_le (Nat.le_refl _), ← hord, ho]
      simp

/-! ### Random: the oracle's pick -/

/-- Random policy, `n` stimuli with requested counts `req`, oracle stream `D0` at load time,
`m` draws still guaranteed. -/
structure RandInv (n : Nat) (req : Nat → Int) (D0 : List Nat) (m : Nat) (v : PView) : Prop where
  core : EraseCore n req v
  kind : v.kind = .random
  draws : v.draws = D0.drop v.keys.length
  budget : m ≤ v.draws.length
  pick : ∀ j (h : j < v.keys.length), ∃ d, D0[j]? = some d ∧
    (unsatList n req (v.keys.take j))[d % (unsatList n req (v.keys.take j)).length]? = some v.keys[j]

theorem RandInv_init {s : QState} (h : Loaded s) (hk : s.kind = .random) :
    RandInv s.data.length (fun k => trialsOf s k) s.draws s.draws.length (view s) :=
  ⟨EraseCore_init h (Or.inr hk), hk, by simp [view, h.added], Nat.le_refl _,
   by intro j hj; simp [view, h.added] at hj⟩

theorem RandInv_mono {n : Nat} {req : Nat → Int} {D0 : List Nat} (m : Nat) (v : PView)
    (h : RandInv n req D0 (m + 1) v) : RandInv n req D0 m v :=
  ⟨h.core, h.kind, h.draws, by have := h.budget; omega, h.pick⟩

theorem nextKey_random {s : QState} {d : Nat} {ds : List Nat} (hkind : s.kind = .random)
    (ho : s.ordering ≠ []) (hd : s.draws = d :: ds) :
    ∃ k, s.ordering[d % s.ordering.length]? = some k ∧
      nextKey s = .ok (some (k, { s with draws := ds })) := by
  have hl : 0 < s.ordering.length := List.length_pos_iff.mpr ho
  have hlt : d % s.ordering.length < s.ordering.length := Nat.mod_lt _ hl
  refine ⟨s.ordering[d % s.ordering.length], List.getElem?_eq_getElem hlt, ?_⟩
  unfold nextKey
  have hl0 : ¬ s.ordering.length = 0 := by omega
  simp only [hkind, hl0, if_false, hd, List.getElem?_eq_getElem hlt]

theorem RandInv_step {n : Nat} {req : Nat → Int} {D0 : List Nat} (m : Nat) (s : QState)
    (hi : RandInv n req D0 (m + 1) (view s)) :
    nextTrial s = .ok none ∨ ∃ s1, nextTrial s = .ok (some s1) ∧ RandInv n req D0 m (view s1) := by
  have hkind : s.kind = .random := hi.kind
  by_cases ho : s.ordering = []
  · left
    apply nextTrial_none_of
    rw [nextKey_none_iff]
    simp [Done, hkind, ho]
  · right
    have hbud : m + 1 ≤ s.draws.length := hi.budget
    have hdr : s.draws = D0.drop (view s).keys.length := hi.draws
    have hord : s.ordering = unsatList n req (view s).keys := hi.core.ord
    cases hds : s.draws with
    | nil => rw [hds] at hbud; simp at hbud
    | cons d ds =>
      obtain ⟨k, hget, hkey⟩ := nextKey_random hkind ho hds
      obtain ⟨s1, hs1, hc1, hkeys, hdraws, hk1⟩ := EraseCore_after hi.core hkey (List.mem_of_getElem? hget)
      have hdraws' : (view s1).draws = ds := hdraws
      refine ⟨s1, hs1, hc1, by rw [hk1]; exact hkind, ?_, ?_, ?_⟩
      · rw [hdraws', hkeys, List.length_append, List.length_singleton, List.drop_add_one_eq_tail_drop,
          ← hdr, hds]
        rfl
      · rw [hdraws']
        rw [hds] at hbud
        simp only [List.length_cons] at hbud
        omega
      · intro j hj
        simp only [hkeys] at hj ⊢
        rw [List.length_append] at hj
        simp only [List.length_singleton] at hj
        by_cases hjl : j < (view s).keys.length
        · rw [List.getElem_append_left hjl, List.take_append_of_le_length (by omega)]
          exact hi.pick j hjl
        · have : j = (view s).keys.length := by omega
          subst this
          rw [List.getElem_append_right (Nat.le_refl _), List.take_append_of_le_length (Nat.le_refl _),
            List.take_of_length_le (Nat.le_refl _)]
          simp only [Nat.sub_self, List.getElem_cons_zero]
          refine ⟨d, ?_, by rw [← hord]; exact hget⟩
          have := List.getElem?_drop (xs := D0) (i := (view s).keys.length) (j := 0)
          rw [← hdr, hds] at this
          simpa using this.symm

end Psi.Queue
