import PsiProofs.Helper.C03_Interleaved
/-! Interleaved FIFO, `keep_complete_waveforms=False`: round-robin that skips satisfied stimuli. -/
namespace Psi.Queue

theorem idx_lt {n : Nat} (hn : 0 < n) (x : Int) : (x % (n : Int)).toNat < n := by
  have h1 : 0 ≤ x % (n : Int) := Int.emod_nonneg _ (by omega)
  have h2 : x % (n : Int) < n := Int.emod_lt_of_pos _ (by omega)
  omega

theorem idx_cast {n : Nat} (hn : 0 < n) (x : Int) : (((x % (n : Int)).toNat : Nat) : Int) = x % (n : Int) :=
  Int.toNat_of_nonneg (Int.emod_nonneg _ (by omega))

/-- what the `while True` loop of `Interleaved.next_key` returns when completed stimuli are dropped:
the first position after `i` (cyclically) whose counter is positive -/
theorem scan_nokeep {s : QState} {n : Nat} (hn : 0 < n) (hk : s.keep = false)
    (ho : s.ordering = List.range n) :
    ∀ (fuel : Nat) (i : Int),
      (∃ t : Nat, 1 ≤ t ∧ t ≤ fuel ∧ 0 < trv s.data ((i + (t : Int)) % (n : Int)).toNat) →
      ∃ d : Nat, 1 ≤ d ∧ d ≤ fuel ∧
        interleavedScan s fuel i = .ok (((i + (d : Int)) % (n : Int)).toNat, (i + (d : Int)) % (n : Int)) ∧
        0 < trv s.data ((i + (d : Int)) % (n : Int)).toNat ∧
        ∀ t : Nat, 1 ≤ t → t < d → trv s.data ((i + (t : Int)) % (n : Int)).toNat ≤ 0 := by
  intro fuel
  induction fuel with
  | zero => intro i ⟨t, h1, h2, _⟩; omega
  | succ fuel ih =>
    intro i ⟨t, ht1, ht2, htp⟩
    by_cases hp : 0 < trv s.data ((i + 1) % (n : Int)).toNat
    · refine ⟨1, Nat.le_refl _, by omega, ?_, by simpa using hp, by intro t h1 h2; omega⟩
      unfold interleavedScan
      simp only [ho, List.length_range, probe_range hn, hk, Bool.false_eq_true, if_false, trialsOf_eq]
      simp [hp]
    · have ht : t ≠ 1 := by
        intro h; subst h; exact hp (by simpa using htp)
      have e : ∀ x : Int, ((i + 1) % (n : Int) + x) % (n : Int) = (i + (1 + x)) % (n : Int) := by
        intro x; rw [Int.emod_add_emod, Int.add_assoc]
      obtain ⟨d, hd1, hd2, hscan, hdp, hdz⟩ := ih ((i + 1) % (n : Int)) ⟨t - 1, by omega, by omega, by
        rw [e]
        have : (1 : Int) + ((t - 1 : Nat) : Int) = (t : Int) := by omega
        rw [this]; exact htp⟩
      have hc : (1 : Int) + (d : Int) = ((d + 1 : Nat) : Int) := by omega
      rw [e, hc] at hscan hdp
      refine ⟨d + 1, by omega, by omega, ?_, hdp, ?_⟩
      · rw [← hscan]
        conv => lhs; unfold interleavedScan
        simp only [ho, List.length_range, probe_range hn, hk, Bool.false_eq_true, if_false, trialsOf_eq]
        simp [hp]
      · intro t' h1 h2
        by_cases h : t' = 1
        · subst h; have := Int.not_lt.mp hp; simpa using this
        · have := hdz (t' - 1) (by omega) (by omega)
          rw [e] at this
          have hc' : (1 : Int) + ((t' - 1 : Nat) : Int) = (t' : Int) := by omega
          rw [hc'] at this; exact this

/-- some position within one full turn after `i` hits a given key `k < n` -/
theorem reach {n : Nat} (hn : 0 < n) (i : Int) {k : Nat} (hk : k < n) :
    ∃ t : Nat, 1 ≤ t ∧ t ≤ n ∧ ((i + (t : Int)) % (n : Int)).toNat = k := by
  refine ⟨(((k : Int) - i - 1) % (n : Int)).toNat + 1, by omega, by have := idx_lt hn ((k : Int) - i - 1); omega, ?_⟩
  push_cast
  rw [idx_cast hn]
  have : i + (((k : Int) - i - 1) % (n : Int) + 1) = (i + 1) + ((k : Int) - i - 1) % (n : Int) := by omega
  rw [this, Int.add_emod_emod]
  have : i + 1 + ((k : Int) - i - 1) = (k : Int) := by omega
  rw [this, Int.emod_eq_of_lt (by omega) (by omega)]
  simp

theorem nextKey_interleaved_nokeep {s : QState} {n : Nat} (hn : 0 < n) (hkind : s.kind = .interleaved)
    (hk : s.keep = false) (ho : s.ordering = List.range n) (hc : s.complete = false)
    (hex : ∃ k, k < n ∧ 0 < trv s.data k) :
    ∃ d : Nat, 1 ≤ d ∧ d ≤ n ∧
      nextKey s = .ok (some (((s.cursor + (d : Int)) % (n : Int)).toNat,
        { s with cursor := (s.cursor + (d : Int)) % (n : Int) })) ∧
      0 < trv s.data ((s.cursor + (d : Int)) % (n : Int)).toNat ∧
      ∀ t : Nat, 1 ≤ t → t < d → trv s.data ((s.cursor + (t : Int)) % (n : Int)).toNat ≤ 0 := by
  obtain ⟨k, hkn, hkp⟩ := hex
  obtain ⟨t, ht1, ht2, htk⟩ := reach hn s.cursor hkn
  obtain ⟨d, hd1, hd2, hscan, hdp, hdz⟩ := scan_nokeep hn hk ho n s.cursor ⟨t, ht1, ht2, by rw [htk]; exact hkp⟩
  refine ⟨d, hd1, hd2, ?_, hdp, hdz⟩
  unfold nextKey
  have hl : s.ordering.length = n := by simp [ho]
  have hl0 : ¬ n = 0 := by omega
  simp only [hkind, hc, Bool.false_eq_true, if_false, hl, hl0, hscan]

/-- cursor value implied by the key log: the last key, −1 before the first trial -/
def lastOr (L : List Nat) : Int :=
  match L.getLast? with
  | some k => (k : Int)
  | none => -1

/-- `k` is the next unsatisfied stimulus after position `prev` in cyclic order, given the trials
`P` presented so far: `k` is `d` places further, is unsatisfied, and every stimulus passed over is
satisfied. -/
def NextUnsat (n : Nat) (req : Nat → Int) (prev : Int) (P : List Nat) (k : Nat) : Prop :=
  ∃ d : Nat, 1 ≤ d ∧ d ≤ n ∧ (k : Int) = (prev + (d : Int)) % (n : Int) ∧
    ((P.count k : Nat) : Int) < req k ∧
    ∀ t : Nat, 1 ≤ t → t < d →
      req ((prev + (t : Int)) % (n : Int)).toNat ≤ ((P.count ((prev + (t : Int)) % (n : Int)).toNat : Nat) : Int)

structure SkipInv (n : Nat) (req : Nat → Int) (v : PView) : Prop where
  base : Base n req v
  kind : v.kind = .interleaved
  keep : v.keep = false
  ord : v.ordering = List.range n
  cur : v.cursor = lastOr v.keys
  nonneg : ∀ k, k < n → 0 ≤ trv v.data k
  open_ : v.complete = false → ∃ k, k < n ∧ 0 < trv v.data k
  closed : v.complete = true → ∀ k, k < n → trv v.data k ≤ 0
  order : ∀ j (h : j < v.keys.length), NextUnsat n req (lastOr (v.keys.take j)) (v.keys.take j) v.keys[j]

theorem SkipInv_init {s : QState} (h : Loaded s) (hk : s.kind = .interleaved) (hkeep : s.keep = false) :
    SkipInv s.data.length (fun k => trialsOf s k) (view s) := by
  refine ⟨Base_init h, hk, hkeep, h.ordering, ?_, ?_, ?_, ?_, ?_⟩
  · simp [view, h.cursor, h.added, lastOr]
  · intro k hk'; have := h.trials hk'; rw [trialsOf_eq] at this; simp only [view]; omega
  · intro _
    exact ⟨0, h.pos, by have := h.trials h.pos; rw [trialsOf_eq] at this; simp only [view]; omega⟩
  · intro hc; simp [view, h.complete] at hc
  · intro m hm; simp [view, h.added] at hm

theorem lastOr_snoc (L : List Nat) (k : Nat) : lastOr (L ++ [k]) = (k : Int) := by
  simp [lastOr]

theorem SkipInv_step {n : Nat} {req : Nat → Int} (s : QState) (hi : SkipInv n req (view s)) :
    nextTrial s = .ok none ∨ ∃ s1, nextTrial s = .ok (some s1) ∧ SkipInv n req (view s1) := by
  have hn := hi.base.npos
  have hlen : s.data.length = n := hi.base.len
  cases hc : s.complete with
  | true =>
    left
    apply nextTrial_none_of
    rw [nextKey_none_iff]
    have hk : s.kind = .interleaved := hi.kind
    simp [Done, hk, hc]
  | false =>
    right
    have hkind : s.kind = .interleaved := hi.kind
    have hord : s.ordering = List.range n := hi.ord
    obtain ⟨d, hd1, hd2, hkey, hdp, hdz⟩ :=
      nextKey_interleaved_nokeep hn hkind hi.keep hord hc (hi.open_ hc)
    generalize hkdef : ((s.cursor + (d : Int)) % (n : Int)).toNat = k at hkey hdp
    have hkl : k < n := by rw [← hkdef]; exact idx_lt hn _
    have hkc : ((k : Nat) : Int) = (s.cursor + (d : Int)) % (n : Int) := by rw [← hkdef]; exact idx_cast hn _
    have hmem : k ∈ ({ s with cursor := (s.cursor + (d : Int)) % (n : Int) } : QState).ordering := by
      simp [hord, hkl]
    have hdec := decrementKey_complete (s := { s with cursor := (s.cursor + (d : Int)) % (n : Int) })
      (Or.inl hkind) hmem
    obtain ⟨s1, hs1, hv⟩ := nextTrial_ok hkey hdec (by rw [hlen]; exact hkl) hi.base.delays
    refine ⟨s1, hs1, ?_⟩
    have hb1 : Base n req (view s1) := Base_step hi.base hkl (by rw [hv]; rfl) (by rw [hv])
    have hkeys : (view s1).keys = (view s).keys ++ [k] := by rw [hv]
    have hdata : (view s1).data = dataStep s.data k := by rw [hv]
    have hcomp : (view s1).complete =
        if (setTrials s.data k (· - 1)).all (fun e => decide (e.trials ≤ 0)) then true
        else s.complete := by rw [hv]
    have hcur : s.cursor = lastOr (view s).keys := hi.cur
    refine ⟨hb1, by rw [hv]; exact hkind, by rw [hv]; exact hi.keep, by rw [hv]; exact hord,
      ?_, ?_, ?_, ?_, ?_⟩
    · have : (view s1).cursor = (s.cursor + (d : Int)) % (n : Int) := by rw [hv]
      rw [this, hkeys, lastOr_snoc, hkc]
    · intro k' hk'
      rw [hdata, trv_dataStep _ _ _ (by rw [hlen]; exact hkl)]
      have h0 := hi.nonneg k' hk'
      simp only [view] at h0
      split
      · rename_i h; subst h; omega
      · exact h0
    · intro hcf
      rw [hcomp] at hcf
      split at hcf
      · simp at hcf
      · rename_i hall
        rw [all_le_iff] at hall
        have : ∃ k', k' < n ∧ 0 < trv (setTrials s.data k (· - 1)) k' := by
          apply Classical.byContradiction
          intro hne
          apply hall
          intro k' hk'
          rw [setTrials_length, hlen] at hk'
          exact Int.not_lt.mp (fun h => hne ⟨k', hk', h⟩)
        obtain ⟨k', hk', hp⟩ := this
        exact ⟨k', hk', by rw [hdata, ← trv_setTrials_eq_dataStep _ _ _ (by rw [hlen]; exact hkl)]; exact hp⟩
    · intro hct k' hk'
      rw [hcomp] at hct
      split at hct
      · rename_i hall
        rw [all_le_iff] at hall
        have := hall k' (by rw [setTrials_length, hlen]; exact hk')
        rw [hdata, ← trv_setTrials_eq_dataStep _ _ _ (by rw [hlen]; exact hkl)]; exact this
      · rw [hc] at hct; simp at hct
    · intro j hj
      simp only [hkeys] at hj ⊢
      rw [List.length_append] at hj
      simp only [List.length_singleton] at hj
      by_cases hjl : j < (view s).keys.length
      · rw [List.getElem_append_left hjl, List.take_append_of_le_length (by omega)]
        exact hi.order j hjl
      · have : j = (view s).keys.length := by omega
        subst this
        rw [List.getElem_append_right (Nat.le_refl _), List.take_append_of_le_length (Nat.le_refl _),
          List.take_of_length_le (Nat.le_refl _)]
        simp only [Nat.sub_self, List.getElem_cons_zero]
        refine ⟨d, hd1, hd2, by rw [← hcur]; exact hkc, (hi.base.unsat_iff hkl).mp hdp, ?_⟩
        intro t ht1 ht2
        rw [← hcur]
        have hz := hdz t ht1 ht2
        have hlt := idx_lt hn (s.cursor + (t : Int))
        have := hi.base.led _ hlt
        simp only [view] at this
        rw [this] at hz
        simp only [view]
        omega

end Psi.Queue
