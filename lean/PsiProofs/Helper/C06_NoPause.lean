import PsiProofs.Helper.C06_Run
/-!
Helper for C06 (composition): histories without `pause(m)`.  Nothing is ever cancelled, every
notified trial stays logged, and its whole inter-trial gap is silence on the timeline.
Also: locating a request in the extractor's history and reading an epoch off the timeline.
-/
namespace Psi.E2E
open Psi.Queue Psi.Extract

structure GapOK (K0 : Int) (gen : List Info) (V : List Cell) : Prop where
  full : ∀ i ∈ gen, K0 + i.k + (i.len : Int) + (i.delay.toNat : Int) ≤ (V.length : Int)
  gap : ∀ i ∈ gen, ∀ p : Nat, K0 + i.k + (i.len : Int) ≤ (p : Int) →
    (p : Int) < K0 + i.k + (i.len : Int) + (i.delay.toNat : Int) → V[p]? = some Cell.Z

theorem GapOK_zeros {K0 : Int} {gen : List Info} {V : List Cell} (h : GapOK K0 gen V) (z : Nat) :
    GapOK K0 gen (V ++ zeros z) := by
  refine ⟨?_, ?_⟩
  · intro i hi
    have := h.full i hi
    simp only [List.length_append]; push_cast; omega
  · intro i hi p h1 h2
    have := h.full i hi
    rw [List.getElem?_append_left (by omega)]
    exact h.gap i hi p h1 h2

theorem GapOK_start {K0 : Int} {gen : List Info} {V : List Cell} (h : GapOK K0 gen V) (info : Info)
    (hk : K0 + info.k = (V.length : Int)) :
    GapOK K0 (gen ++ [info]) (V ++ (wave info.key 0 info.len ++ zeros info.delay.toNat)) := by
  have hwl : (wave info.key 0 info.len).length = info.len := by simp [wave]
  have hzl : (zeros info.delay.toNat).length = info.delay.toNat := by simp [zeros]
  refine ⟨?_, ?_⟩
  · intro i hi
    simp only [List.length_append, hwl, hzl]
    rcases List.mem_append.1 hi with hi | hi
    · have := h.full i hi; push_cast; omega
    · simp only [List.mem_singleton] at hi; subst hi; push_cast; omega
  · intro i hi p h1 h2
    rcases List.mem_append.1 hi with hi | hi
    · have := h.full i hi
      rw [List.getElem?_append_left (by omega)]
      exact h.gap i hi p h1 h2
    · simp only [List.mem_singleton] at hi; subst hi
      rw [List.getElem?_append_right (by omega), List.getElem?_append_right (by rw [hwl]; omega)]
      apply zeros_getElem?
      rw [hwl]; omega

structure NPInv (K0 : Int) (q : QState) (tl : List Cell) : Prop where
  norem : q.removed = []
  all : q.generated = q.added
  gap : GapOK K0 q.generated (tl ++ rest q)

theorem NPInv_tick {K0 : Int} {q q' : QState} {tl : List Cell} {c : Cell} (inv : QInv K0 q tl)
    (np : NPInv K0 q tl) (h : tick q = .ok (c, q')) : NPInv K0 q' (tl ++ [c]) := by
  obtain ⟨tv, hrm, _⟩ := tick_view inv.len inv.idle h
  cases tv with
  | quiet z hg ha hv =>
    exact ⟨by rw [hrm]; exact np.norem, by rw [hg, ha]; exact np.all, by rw [hv, hg]; exact GapOK_zeros np.gap z⟩
  | start info hg ha hk hl hu hv =>
    exact ⟨by rw [hrm]; exact np.norem, by rw [hg, ha, np.all],
      by rw [hv, hg]; exact GapOK_start np.gap info hk⟩

theorem NPInv_runTicks {K0 : Int} (n : Nat) {q q' : QState} {tl cs : List Cell} (inv : QInv K0 q tl)
    (np : NPInv K0 q tl) (h : runTicks n q = .ok (cs, q')) : NPInv K0 q' (tl ++ cs) := by
  induction n generalizing q tl cs with
  | zero =>
    simp [runTicks] at h; obtain ⟨rfl, rfl⟩ := h
    simpa using np
  | succ n ih =>
    rw [runTicks] at h
    cases ht : tick q with
    | error e => simp [ht] at h
    | ok r =>
      obtain ⟨c, s1⟩ := r
      simp only [ht] at h
      cases hr : runTicks n s1 with
      | error e => simp [hr] at h
      | ok r2 =>
        obtain ⟨cs2, s2⟩ := r2
        simp only [hr, Except.ok.injEq, Prod.mk.injEq] at h
        obtain ⟨rfl, rfl⟩ := h
        have := ih (QInv_tick inv ht).1 (NPInv_tick inv np ht) hr
        simpa using this

theorem NPInv_pop {K0 : Int} {n : Nat} {q q' : QState} {tl out : List Cell} (inv : QInv K0 q tl)
    (np : NPInv K0 q tl) (h : popBuffer n q = .ok (out, q')) : NPInv K0 q' (tl ++ out) := by
  have hn : 0 < n := by
    rcases Nat.eq_zero_or_pos n with h0 | h0
    · subst h0; simp [popBuffer] at h
    · exact h0
  rw [popBuffer_refines inv.wf hn] at h
  exact NPInv_runTicks n inv np h

theorem NP_step (c : Cfg) {J J' : JState} (ev : Ev) (inv : JInv c J) (np : NPInv c.K0 J.q J.tl)
    (hnp : isPause ev = false) (h : jstep c J ev = .ok J') : NPInv c.K0 J'.q J'.tl := by
  cases ev with
  | q op =>
    cases op with
    | pop n =>
      simp only [jstep] at h
      split at h
      · cases h
      · rename_i out q' hp
        simp only [Except.ok.injEq] at h; subst h
        exact NPInv_pop inv.q np hp
    | pause m =>
      cases m with
      | none =>
        simp only [jstep] at h
        split at h
        · simp only [Except.ok.injEq] at h; subst h
          exact ⟨by simpa [pause] using np.norem, by simpa [pause] using np.all,
            by simpa [pause, rest] using np.gap⟩
        · cases h
      | some m => simp [isPause] at hnp
    | resume m =>
      cases m with
      | none =>
        simp only [jstep, Except.ok.injEq] at h; subst h
        exact ⟨by simpa [resume] using np.norem, by simpa [resume] using np.all,
          by simpa [resume, rest] using np.gap⟩
      | some m =>
        simp only [jstep] at h
        split at h
        · cases h
        · split at h
          · cases h
          · rename_i hm hg
            simp only [Except.ok.injEq] at h; subst h
            have hi : m = J.q.samples ∨ idle J.q = true := by
              by_cases he : m = J.q.samples
              · exact Or.inl he
              · right
                cases hid : idle J.q with
                | true => rfl
                | false => exact absurd ⟨he, hid⟩ hg
            have hrest : rest (resume (some m) J.q) = rest J.q := by simp [rest, resume]
            have hview : J.tl ++ zeros (m - J.q.samples).toNat ++ rest (resume (some m) J.q) =
                (J.tl ++ rest J.q) ++ zeros (m - J.q.samples).toNat := by
              rw [hrest]
              rcases hi with hi | hi
              · have : (m - J.q.samples).toNat = 0 := by omega
                simp [this, zeros]
              · rw [rest_of_srcDone ((idle_iff J.q).1 hi), List.append_assoc, List.append_assoc, zeros_comm]
            refine ⟨by simpa [resume] using np.norem, by simpa [resume] using np.all, ?_⟩
            simp only
            rw [hview]
            simpa [resume] using GapOK_zeros np.gap _
  | acq n vis complete =>
    simp only [jstep] at h
    split at h
    · cases h
    · split at h
      · cases h
      · split at h
        · cases h
        · simp only [Except.ok.injEq] at h; subst h
          exact np

theorem NPInv_init (c : Cfg) (q0 : QState) (h : Start q0) :
    NPInv c.K0 (JState.init c q0).q (JState.init c q0).tl := by
  refine ⟨h.removed, by simp [JState.init, h.generated, h.added], ?_, ?_⟩
  · intro i hi; simp [JState.init, h.generated] at hi
  · intro i hi; simp [JState.init, h.generated] at hi

theorem JNP_run (c : Cfg) (evs : List Ev) {J J' : JState} (henc : EncInj c)
    (inv : JInv c J) (np : NPInv c.K0 J.q J.tl) (hnp : ∀ ev ∈ evs, isPause ev = false)
    (h : jrun c evs J = .ok J') : JInv c J' ∧ NPInv c.K0 J'.q J'.tl := by
  induction evs generalizing J with
  | nil => simp only [jrun, Except.ok.injEq] at h; subst h; exact ⟨inv, np⟩
  | cons ev evs ih =>
    simp only [jrun] at h
    split at h
    · cases h
    · rename_i J1 hs
      have hev := hnp ev List.mem_cons_self
      have inv1 : JInv c J1 := JInv_step c henc ev inv hs (fun hp => by rw [hev] at hp; cases hp)
      exact ih inv1 (NP_step c ev inv np hev hs) (fun e he => hnp e (List.mem_cons_of_mem _ he)) h

/-! ### locating a request, reading an epoch off the timeline -/

/-- a notified trial whose `added` notification is no longer pending has been handed to the
extractor: its request is in the history, its start sample is not negative -/
theorem locate (c : Cfg) {J : JState} (inv : JInv c J) {seen : List Note} (g : GInv c J seen) (i : Info)
    (hia : i ∈ J.q.added) (hseen : Note.add i ∉ J.pend) :
    Note.add i ∈ seen ∧ reqOf c i ∈ allReqs J.eops ∧ 0 ≤ (reqOf c i).s := by
  have h1 : Note.add i ∈ seen := by
    have : Note.add i ∈ seen ++ J.pend := mem_add?.1 (by rw [g.adds]; exact hia)
    rcases List.mem_append.1 this with h | h
    · exact h
    · exact absurd h hseen
  have h2 : reqOf c i ∈ allReqs J.eops := by
    rw [g.seenReqs]; exact List.mem_filterMap.2 ⟨Note.add i, h1, rfl⟩
  refine ⟨h1, h2, ?_⟩
  obtain ⟨o0, ho, hr⟩ := List.mem_flatMap.1 h2
  obtain ⟨pre, rest, heq⟩ := List.append_of_mem ho
  have hv := inv.n.valid
  rw [heq] at hv
  have h3 := ((allValidSeq_append c.B c.L [] pre (o0 :: rest)).1 hv).2
  simp only [AllValidSeq] at h3
  have := h3.1.visible _ hr
  omega

/-- **a kept trial is delivered exactly once under its key**: still logged, its notification handed
over, its epoch reached ⇒ it is the outstanding trial of its key, every earlier trial with that key
was cancelled in time, and the one epoch under the key is `stream[s, s+L)` of its own request -/
theorem kept_delivered (c : Cfg) {J : JState} (inv : JInv c J) (i : Info) (hi : i ∈ J.q.generated)
    (hseen : Note.add i ∉ J.pend)
    (hreached : (c.K0 : Int) + i.k - (c.P : Int) + (c.L : Int) ≤ (J.acq : Int)) :
    (deliveries c.B J.eops (reqOf c i).key).flatten = [epochOf (streamOf J.eops) (reqOf c i)] ∧
      (reqOf c i).s.toNat + (reqOf c i).len ≤ J.acq := by
  obtain ⟨seen, g⟩ := inv.g
  have hia := inv.q.emb.gensub i hi
  obtain ⟨h1, _, hs0⟩ := locate c inv g i hia hseen
  have hsv : (reqOf c i).s = (c.K0 : Int) + i.k - (c.P : Int) := rfl
  have hlv : (reqOf c i).len = c.L := rfl
  have hacq : (reqOf c i).s.toNat + (reqOf c i).len ≤ J.acq := by rw [hlv]; omega
  have hnorem : Note.rem i ∉ seen ++ J.pend := by
    intro h
    exact (Once_nodup inv.q.once).2.2.1 _ (g.rems i h) (List.mem_map.2 ⟨i, hi, rfl⟩)
  have halt : AltM none (onKey c (reqOf c i).key seen) := by
    have := g.alt (reqOf c i).key
    rw [onKey_append, AltM_append] at this
    exact this.1
  have hout : altEnd none (onKey c (reqOf c i).key seen) = some i := by
    rcases AltM_add_mem halt (mem_onKey.2 ⟨h1, rfl⟩) with h | h
    · exact absurd (List.mem_append_left _ (mem_onKey.1 h).1) hnorem
    · exact h
  have hd : doneAt (reqOf c i) J.acq = true := by simpa [doneAt] using hacq
  rw [deliveries_key c inv g, hout]
  simp [Option.filter, hd, hacq]

theorem slice_getElem? {α} (S : List α) (a n x : Nat) (hx : x < n) : (slice S a n)[x]? = S[a + x]? := by
  simp only [slice]
  rw [List.getElem?_take_of_lt hx, List.getElem?_drop]

/-- sample `x` of an epoch inside the acquired stream is the timeline at `s + x` -/
theorem epoch_view (c : Cfg) {J : JState} (inv : JInv c J) (r : Request)
    (h : r.s.toNat + r.len ≤ J.acq) (x : Nat) (hx : x < r.len) :
    (epochOf (streamOf J.eops) r).data[x]? = (J.tl ++ rest J.q)[r.s.toNat + x]? := by
  have := inv.acq
  simp only [epochOf]
  rw [slice_getElem? _ _ _ _ hx, inv.stream, List.getElem?_take_of_lt (by omega),
    List.getElem?_append_left (by omega)]

theorem epoch_length (c : Cfg) {J : JState} (inv : JInv c J) (r : Request)
    (h : r.s.toNat + r.len ≤ J.acq) : (epochOf (streamOf J.eops) r).data.length = r.len := by
  have := inv.acq
  simp only [epochOf]
  apply slice_length
  rw [inv.stream, List.length_take]
  omega

end Psi.E2E
