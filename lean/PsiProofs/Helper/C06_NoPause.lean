import PsiProofs.Helper.C06_Run
/-!
Helper for C06 (composition): histories without `pause(m)`.  Nothing is ever cancelled, every
notified trial stays logged, its whole inter-trial gap is silence on the timeline, and the start
positions increase strictly — so the dictionary keys `(t0, key)` are distinct by themselves.
Also: locating a request in the extractor's history and reading an epoch off the timeline.
-/
namespace Psi.E2E
open Psi.Queue Psi.Extract

structure GapOK (K0 : Int) (gen : List Info) (V : List Cell) : Prop where
  full : ∀ i ∈ gen, K0 + i.k + (i.len : Int) + (i.delay.toNat : Int) ≤ (V.length : Int)
  gap : ∀ i ∈ gen, ∀ p : Nat, K0 + i.k + (i.len : Int) ≤ (p : Int) →
    (p : Int) < K0 + i.k + (i.len : Int) + (i.delay.toNat : Int) → V[p]? = some Cell.Z

theorem GapOK_zeros {K0 : Int} {gen : List Info} {V : List Cell} (h : GapOK K0 gen V) (z : Nat) :
    GapOK K0 gen (V ++ zeros z) := by
  refine ⟨?_, ?_⟩
  · intro i hi
    have := h.full i hi
    simp only [List.length_append]; push_cast; omega
  · intro i hi p h1 h2
    have := h.full i hi
    rw [List.getElem?_append_left (by omega)]
    exact h.gap i hi p h1 h2

theorem GapOK_start {K0 : Int} {gen : List Info} {V : List Cell} (h : GapOK K0 gen V) (info : Info)
    (hk : K0 + info.k = (V.length : Int)) :
    GapOK K0 (gen ++ [info]) (V ++ (wave info.key 0 info.len ++ zeros info.delay.toNat)) := by
  have hwl : (wave info.key 0 info.len).length = info.len := by simp [wave]
  have hzl : (zeros info.delay.toNat).length = info.delay.toNat := by simp [zeros]
  refine ⟨?_, ?_⟩
  · intro i hi
    simp only [List.length_append, hwl, hzl]
    rcases List.mem_append.1 hi with hi | hi
    · have := h.full i hi; push_cast; omega
    · simp only [List.mem_singleton] at hi; subst hi; push_cast; omega
  · intro i hi p h1 h2
    rcases List.mem_append.1 hi with hi | hi
    · have := h.full i hi
      rw [List.getElem?_append_left (by omega)]
      exact h.gap i hi p h1 h2
    · simp only [List.mem_singleton] at hi; subst hi
      rw [List.getElem?_append_right (by omega), List.getElem?_append_right (by rw [hwl]; omega)]
      apply zeros_getElem?
      rw [hwl]; omega

structure NPInv (K0 : Int) (q : QState) (tl : List Cell) : Prop where
  norem : q.removed = []
  all : q.generated = q.added
  gap : GapOK K0 q.generated (tl ++ rest q)

theorem NPInv_tick {K0 : Int} {q q' : QState} {tl : List Cell} {c : Cell} (inv : QInv K0 q tl)
    (np : NPInv K0 q tl) (h : tick q = .ok (c, q')) : NPInv K0 q' (tl ++ [c]) := by
  obtain ⟨tv, hrm, _⟩ := tick_view inv.len inv.idle h
  cases tv with
  | quiet z hg ha hv =>
    exact ⟨by rw [hrm]; exact np.norem, by rw [hg, ha]; exact np.all, by rw [hv, hg]; exact GapOK_zeros np.gap z⟩
  | start info hg ha hk hl hu hv =>
    exact ⟨by rw [hrm]; exact np.norem, by rw [hg, ha, np.all],
      by rw [hv, hg]; exact GapOK_start np.gap info hk⟩

theorem NPInv_runTicks {K0 : Int} (n : Nat) {q q' : QState} {tl cs : List Cell} (inv : QInv K0 q tl)
    (np : NPInv K0 q tl) (h : runTicks n q = .ok (cs, q')) : NPInv K0 q' (tl ++ cs) := by
  induction n generalizing q tl cs with
  | zero =>
    simp [runTicks] at h; obtain ⟨rfl, rfl⟩ := h
    simpa using np
  | succ n ih =>
    rw [runTicks] at h
    cases ht : tick q with
    | error e => simp [ht] at h
    | ok r =>
      obtain ⟨c, s1⟩ := r
      simp only [ht] at h
      cases hr : runTicks n s1 with
      | error e => simp [hr] at h
      | ok r2 =>
        obtain ⟨cs2, s2⟩ := r2
        simp only [hr, Except.ok.injEq, Prod.mk.injEq] at h
        obtain ⟨rfl, rfl⟩ := h
        have := ih (QInv_tick inv ht).1 (NPInv_tick inv np ht) hr
        simpa using this

theorem NPInv_pop {K0 : Int} {n : Nat} {q q' : QState} {tl out : List Cell} (inv : QInv K0 q tl)
    (np : NPInv K0 q tl) (h : popBuffer n q = .ok (out, q')) : NPInv K0 q' (tl ++ out) := by
  have hn : 0 < n := by
    rcases Nat.eq_zero_or_pos n with h0 | h0
    · subst h0; simp [popBuffer] at h
    · exact h0
  rw [popBuffer_refines inv.wf hn] at h
  exact NPInv_runTicks n inv np h

theorem NP_step (c : Cfg) {J J' : JState} (ev : Ev) (inv : JInv c J) (np : NPInv c.K0 J.q J.tl)
    (hnp : isPause ev = false) (h : jstep c J ev = .ok J') : NPInv c.K0 J'.q J'.tl := by
  cases ev with
  | q op =>
    cases op with
    | pop n =>
      simp only [jstep] at h
      split at h
      · cases h
      · rename_i out q' hp
        simp only [Except.ok.injEq] at h; subst h
        exact NPInv_pop inv.q np hp
    | pause m =>
      cases m with
      | none =>
        simp only [jstep] at h
        split at h
        · simp only [Except.ok.injEq] at h; subst h
          exact ⟨by simpa [pause] using np.norem, by simpa [pause] using np.all,
            by simpa [pause, rest] using np.gap⟩
        · cases h
      | some m => simp [isPause] at hnp
    | resume m =>
      cases m with
      | none =>
        simp only [jstep, Except.ok.injEq] at h; subst h
        exact ⟨by simpa [resume] using np.norem, by simpa [resume] using np.all,
          by simpa [resume, rest] using np.gap⟩
      | some m =>
        simp only [jstep] at h
        split at h
        · cases h
        · split at h
          · cases h
          · rename_i hm hg
            simp only [Except.ok.injEq] at h; subst h
            have hi : m = J.q.samples ∨ idle J.q = true := by
              by_cases he : m = J.q.samples
              · exact Or.inl he
              · right
                cases hid : idle J.q with
                | true => rfl
                | false => exact absurd ⟨he, hid⟩ hg
            have hrest : rest (resume (some m) J.q) = rest J.q := by simp [rest, resume]
            have hview : J.tl ++ zeros (m - J.q.samples).toNat ++ rest (resume (some m) J.q) =
                (J.tl ++ rest J.q) ++ zeros (m - J.q.samples).toNat := by
              rw [hrest]
              rcases hi with hi | hi
              · have : (m - J.q.samples).toNat = 0 := by omega
                simp [this, zeros]
              · rw [rest_of_srcDone ((idle_iff J.q).1 hi), List.append_assoc, List.append_assoc, zeros_comm]
            refine ⟨by simpa [resume] using np.norem, by simpa [resume] using np.all, ?_⟩
            simp only
            rw [hview]
            simpa [resume] using GapOK_zeros np.gap _
  | acq n vis complete =>
    simp only [jstep] at h
    split at h
    · cases h
    · split at h
      · cases h
      · split at h
        · cases h
        · simp only [Except.ok.injEq] at h; subst h
          exact np

/-- strictly increasing starts give distinct dictionary keys -/
theorem KeysOK_of_sorted (c : Cfg) (added : List Info)
    (henc : ∀ a b a' b', c.enc a b = c.enc a' b' → a = a' ∧ b = b')
    (hs : added.Pairwise (fun a b => a.k < b.k)) : KeysOK c added := by
  unfold KeysOK List.Nodup
  rw [List.pairwise_map, List.pairwise_map]
  refine hs.imp ?_
  intro a b hlt he
  have := (henc _ _ _ _ he).1
  omega

theorem NPInv_init (c : Cfg) (q0 : QState) (h : Start q0) :
    NPInv c.K0 (JState.init c q0).q (JState.init c q0).tl := by
  refine ⟨h.removed, by simp [JState.init, h.generated, h.added], ?_, ?_⟩
  · intro i hi; simp [JState.init, h.generated] at hi
  · intro i hi; simp [JState.init, h.generated] at hi

theorem JNP_run (c : Cfg) (evs : List Ev) {J J' : JState}
    (henc : ∀ a b a' b', c.enc a b = c.enc a' b' → a = a' ∧ b = b')
    (inv : JInv c J) (np : NPInv c.K0 J.q J.tl) (hnp : ∀ ev ∈ evs, isPause ev = false)
    (h : jrun c evs J = .ok J') : JInv c J' ∧ NPInv c.K0 J'.q J'.tl := by
  induction evs generalizing J with
  | nil => simp only [jrun, Except.ok.injEq] at h; subst h; exact ⟨inv, np⟩
  | cons ev evs ih =>
    simp only [jrun] at h
    split at h
    · cases h
    · rename_i J1 hs
      have hev := hnp ev List.mem_cons_self
      have hk : KeysOK c J.q.added := KeysOK_of_sorted c _ henc (np.all ▸ inv.q.sorted)
      have inv1 : JInv c J1 := JInv_step c ev inv hs (fun hp => by rw [hev] at hp; cases hp) hk
      exact ih inv1 (NP_step c ev inv np hev hs) (fun e he => hnp e (List.mem_cons_of_mem _ he)) h

/-! ### locating a request, reading an epoch off the timeline -/

theorem KeysOK_inj {c : Cfg} {added : List Info} (hk : KeysOK c added) {a b : Info} (ha : a ∈ added)
    (hb : b ∈ added) (he : (reqOf c a).key = (reqOf c b).key) : a = b := by
  have h2 := (nodup_of_map _ _ hk).2 (reqOf c a) (List.mem_map.2 ⟨a, ha, rfl⟩) (reqOf c b)
    (List.mem_map.2 ⟨b, hb, rfl⟩) he
  exact (nodup_of_map _ _ (nodup_of_map _ _ hk).1).2 a ha b hb h2

/-- a notified trial whose `added` notification is no longer pending became visible in some call;
its start sample is not negative, and if the stream has reached its last sample the calls from
there on contain it -/
theorem locate (c : Cfg) {J : JState} (inv : JInv c J) (hk : KeysOK c J.q.added) (i : Info)
    (hia : i ∈ J.q.added) (hseen : Note.add i ∉ J.pend) :
    ∃ pre opj rest, J.eops = pre ++ opj :: rest ∧ reqOf c i ∈ opj.reqs ∧ 0 ≤ (reqOf c i).s := by
  have hmem : reqOf c i ∈ allReqs J.eops ++ J.pend.filterMap (Note.req? c) := by
    rw [inv.n.reqs]; exact List.mem_map.2 ⟨i, hia, rfl⟩
  rcases List.mem_append.1 hmem with h1 | h1
  · obtain ⟨pre, opj, rest, heq, hr⟩ := ReqSeen_of_mem h1
    refine ⟨pre, opj, rest, heq, hr, ?_⟩
    have hv := inv.n.valid
    rw [heq] at hv
    have h2 := ((allValid_append c.B c.L [] pre (opj :: rest)).1 hv).2
    simp only [AllValid] at h2
    have := h2.1.visible _ hr
    omega
  · obtain ⟨nt, hnt, he⟩ := List.mem_filterMap.1 h1
    cases nt with
    | rem r => simp [Note.req?] at he
    | add i' =>
      simp only [Note.req?, Option.some.injEq] at he
      have : i' = i := KeysOK_inj hk (inv.n.addsPend i' hnt) hia (by rw [he])
      subst this
      exact absurd hnt hseen

theorem slice_getElem? {α} (S : List α) (a n x : Nat) (hx : x < n) : (slice S a n)[x]? = S[a + x]? := by
  simp only [slice]
  rw [List.getElem?_take_of_lt hx, List.getElem?_drop]

/-- sample `x` of an epoch inside the acquired stream is the timeline at `s + x` -/
theorem epoch_view (c : Cfg) {J : JState} (inv : JInv c J) (r : Request)
    (h : r.s.toNat + r.len ≤ J.acq) (x : Nat) (hx : x < r.len) :
    (epochOf (streamOf J.eops) r).data[x]? = (J.tl ++ rest J.q)[r.s.toNat + x]? := by
  have := inv.acq
  simp only [epochOf]
  rw [slice_getElem? _ _ _ _ hx, inv.stream, List.getElem?_take_of_lt (by omega),
    List.getElem?_append_left (by omega)]

theorem epoch_length (c : Cfg) {J : JState} (inv : JInv c J) (r : Request)
    (h : r.s.toNat + r.len ≤ J.acq) : (epochOf (streamOf J.eops) r).data.length = r.len := by
  have := inv.acq
  simp only [epochOf]
  apply slice_length
  rw [inv.stream, List.length_take]
  omega

end Psi.E2E
