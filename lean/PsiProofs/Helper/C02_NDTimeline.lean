import PsiProofs.Helper.C02_NDTicks
/-! The development of `C02_TickCases` / `C02_Timeline` / `C02_Inv` for any `next_trial` variant `nt`
meeting `NTOK`. The timeline invariant `TL` (with `rest`, `render`, `PosOK`, `Dry`) is the one of the
`decrement=True` development, unchanged: it does not mention the step function. -/
namespace Psi.Queue

variable {nt : NT}

inductive TickCaseG (nt : NT) (s : QState) (c : Cell) (s' : QState) : Prop
  | paused (hp : s.paused = true) (hc : c = .Z) (hs : s' = bump s)
  | play (src : Src) (hp : s.paused = false) (hsrc : s.source = some src) (hlt : src.off < src.len)
      (he : (c, s') = emitSrc s src)
  | gap (hp : s.paused = false) (hdone : srcDone s) (hd : s.delaySamples > 0) (hc : c = .Z)
      (hs : s' = bump { dropSrc s with delaySamples := s.delaySamples - 1 })
  | dry (hp : s.paused = false) (hdone : srcDone s) (hd : s.delaySamples ≤ 0)
      (hk : nextKey (dropSrc s) = .ok none) (hc : c = .Z)
      (hs : s' = bump { dropSrc s with empty := true })
  | start (s1 : QState) (src : Src) (hp : s.paused = false) (hdone : srcDone s) (hd : s.delaySamples ≤ 0)
      (hn : nt (dropSrc s) = .ok (some s1)) (hsrc : s1.source = some src) (hlt : src.off < src.len)
      (he : (c, s') = emitSrc s1 src)

theorem afterSourceG_cases (H : NTOK nt) {s : QState} {c : Cell} {s' : QState} (hp : s.paused = false)
    (hsn : s.source = none) (h : afterSourceG nt s = .ok (c, s')) : TickCaseG nt s c s' := by
  have hdone : srcDone s := by intro src h; simp [hsn] at h
  have hds : dropSrc s = s := by cases s; simp_all [dropSrc]
  unfold afterSourceG at h
  split at h
  · rename_i hd
    simp only [Except.ok.injEq, Prod.mk.injEq] at h
    exact .gap hp hdone hd h.1.symm (by rw [hds]; exact h.2.symm)
  · rename_i hd
    split at h
    · simp at h
    · rename_i hn
      simp only [Except.ok.injEq, Prod.mk.injEq] at h
      exact .dry hp hdone (by omega) (by rw [hds]; exact H.none_iff.1 hn) h.1.symm (by rw [hds]; exact h.2.symm)
    · rename_i s1 hn
      split at h
      · rename_i src hsrc
        split at h
        · rename_i hlt
          simp only [Except.ok.injEq] at h
          exact .start s1 src hp hdone (by omega) (by rw [hds]; exact hn) hsrc hlt h.symm
        · simp at h
      · simp at h

theorem tickG_cases (H : NTOK nt) {s : QState} {c : Cell} {s' : QState} (h : tickG nt s = .ok (c, s')) : TickCaseG nt s c s' := by
  unfold tickG at h
  split at h
  · rename_i hp
    simp only [Except.ok.injEq, Prod.mk.injEq] at h
    exact .paused hp h.1.symm h.2.symm
  · rename_i hp
    have hp' : s.paused = false := by simpa using hp
    split at h
    · rename_i src hsrc
      split at h
      · rename_i hlt
        simp only [Except.ok.injEq] at h
        exact .play src hp' hsrc hlt h.symm
      · rename_i hx
        have hdone : srcDone s := by
          intro src' h'; rw [hsrc] at h'; simp only [Option.some.injEq] at h'; subst h'; exact hx
        have := afterSourceG_cases H (s := { s with source := none }) (by simpa using hp') rfl h
        -- transport from the dropped state to `s`
        cases this with
        | paused hp2 _ _ => simp [hp'] at hp2
        | play src2 _ hs2 _ _ => simp at hs2
        | gap _ _ hd hc hs => exact .gap hp' hdone hd hc hs
        | dry _ _ hd hk hc hs => exact .dry hp' hdone hd hk hc hs
        | start s1 src2 _ _ hd hn hs2 hlt he => exact .start s1 src2 hp' hdone hd hn hs2 hlt he
    · rename_i hsn
      exact afterSourceG_cases H hp' hsn h

theorem TL_stepG (H : NTOK nt) {s0 s s' : QState} {out : List Cell} {c : Cell} (inv : TL s0 out s)
    (h : tickG nt s = .ok (c, s')) : TL s0 (out ++ [c]) s' := by
  obtain ⟨np, clock, new, z, hadd, heq, hdry, hpos⟩ := inv
  cases tickG_cases H h with
  | paused hp _ _ => simp [np] at hp
  | play src _ hsrc hlt he =>
    have hf := emitSrc_fields s src
    rw [← he] at hf
    simp only at hf
    obtain ⟨hc, h1, h2, h3, _⟩ := hf
    have hr := rest_emit s src hsrc hlt
    rw [← he] at hr
    simp only at hr
    refine ⟨by rw [h1, np], by rw [h2, clock]; simp; omega, new, z, by rw [h3, hadd], ?_, ?_, hpos⟩
    · rw [← heq, hr, hc]; simp
    · intro hz; have := (hdry hz).1; simp [hsrc] at this
  | gap _ hdone hd hc hs =>
    subst hs hc
    have hr : rest s = Cell.Z :: zeros (s.delaySamples - 1).toNat := by
      rw [← rest_dropSrc s hdone]
      simp only [rest, dropSrc, List.nil_append]
      have : s.delaySamples.toNat = (s.delaySamples - 1).toNat + 1 := by omega
      rw [this, zeros_succ]
    refine ⟨by simp [bump, dropSrc, np], by simp [bump, dropSrc, clock]; omega, new, z,
      by simp [bump, dropSrc, hadd], ?_, ?_, hpos⟩
    · rw [← heq, hr]; simp [rest, bump, dropSrc]
    · intro hz; have := (hdry hz).2.1; omega
  | dry _ hdone hd hk hc hs =>
    subst hs hc
    have hr : rest s = [] := by
      rw [← rest_dropSrc s hdone]
      have : s.delaySamples.toNat = 0 := by omega
      simp [rest, dropSrc, this]
    refine ⟨by simp [bump, dropSrc, np], by simp [bump, dropSrc, clock]; omega, new, z + 1,
      by simp [bump, dropSrc, hadd], ?_, ?_, hpos⟩
    · rw [hr] at heq
      have : s.delaySamples.toNat = 0 := by omega
      have hrs : rest (bump { dropSrc s with empty := true }) = [] := by
        simp [rest, bump, dropSrc, this]
      simp only [List.append_nil] at heq
      rw [hrs, heq, zeros_succ']; simp
    · intro _
      refine ⟨by simp [bump, dropSrc], by simp [bump, dropSrc]; omega, ?_⟩
      have := nextKey_none_indep true (s.samples + 1) hk
      simpa [bump, dropSrc] using this
  | start s1 src _ hdone hd hn hsrc hlt he =>
    have hz : z = 0 := by
      rcases Nat.eq_zero_or_pos z with hz | hz
      · exact hz
      · obtain ⟨hsn, _, hkn⟩ := hdry hz
        have : dropSrc s = s := by cases s; simp_all [dropSrc]
        rw [this, H.none_iff.2 hkn] at hn
        simp at hn
    subst hz
    have hr : rest s = [] := by
      rw [← rest_dropSrc s hdone]
      have : s.delaySamples.toNat = 0 := by omega
      simp [rest, dropSrc, this]
    obtain ⟨info, g, ha, _, hk, _, hs1, hdl, hd0, hsm, hpa, _, _, _⟩ := H.obs hn
    simp only [dropSrc] at ha hk hsm hpa
    rw [hs1] at hsrc
    simp only [Option.some.injEq] at hsrc
    subst hsrc
    have hf := emitSrc_fields s1 { key := info.key, off := 0, len := info.len, gen := g }
    rw [← he] at hf
    simp only at hf
    obtain ⟨hc, h1, h2, h3, _⟩ := hf
    have hr1 := rest_emit s1 _ hs1 hlt
    rw [← he] at hr1
    simp only at hr1
    have hrs1 : rest s1 = wave info.key 0 info.len ++ zeros info.delay.toNat := by
      simp [rest, hs1, hdl]
    rw [hr] at heq
    simp only [List.append_nil, zeros_zero] at heq
    refine ⟨by rw [h1, hpa, np], by rw [h2, hsm, clock]; simp; omega, new ++ [info], 0,
      by rw [h3, ha, hadd]; simp, ?_, by simp, ?_⟩
    · have : out ++ [c] ++ rest s' = out ++ rest s1 := by rw [hr1, hc]; simp
      rw [this, hrs1, heq, render_append]
      simp [render]
    · apply PosOK_snoc hpos
      rw [hk, clock, heq]
      simp; omega

theorem tickG_WF (H : NTOK nt) {s s' : QState} {c : Cell} (hw : WF s) (h : tickG nt s = .ok (c, s')) : WF s' := by
  cases tickG_cases H h with
  | paused _ _ hs => subst hs; exact ⟨by simpa [bump] using hw.data, by simpa [bump] using hw.src⟩
  | play src _ hsrc hlt he =>
    have := emitSrc_WF hw hsrc hlt
    rw [← he] at this; exact this
  | gap _ _ _ _ hs => subst hs; exact ⟨by simpa [bump, dropSrc] using hw.data, by simp [bump, dropSrc]⟩
  | dry _ _ _ _ _ hs => subst hs; exact ⟨by simpa [bump, dropSrc] using hw.data, by simp [bump, dropSrc]⟩
  | start s1 src _ _ _ hn hsrc hlt he =>
    have hwd : WF (dropSrc s) := ⟨by simpa [dropSrc] using hw.data, by simp [dropSrc]⟩
    have hw1 := (H.wf hwd hn).1
    have := emitSrc_WF hw1 hsrc hlt
    rw [← he] at this; exact this

theorem tickG_samples (H : NTOK nt) {s s' : QState} {c : Cell} (h : tickG nt s = .ok (c, s')) : s'.samples = s.samples + 1 := by
  cases tickG_cases H h with
  | paused _ _ hs => subst hs; simp [bump]
  | play src _ _ _ he =>
    have := (emitSrc_fields s src).2.2.1
    rw [← he] at this; exact this
  | gap _ _ _ _ hs => subst hs; simp [bump, dropSrc]
  | dry _ _ _ _ _ hs => subst hs; simp [bump, dropSrc]
  | start s1 src _ _ _ hn _ _ he =>
    obtain ⟨_, _, _, _, _, _, _, _, _, hsm, _⟩ := H.obs hn
    have := (emitSrc_fields s1 src).2.2.1
    rw [← he] at this; rw [this, hsm]; simp [dropSrc]

end Psi.Queue
