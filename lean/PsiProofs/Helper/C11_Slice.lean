import PsiProofs.Helper.C11_Cart
/-! `getitem` for a unit-step slice of any one axis of a one-, two- or three-dimensional array, with the data spelled out:
the result's samples are those at the offsets `cart (P ++ [positions · stride] ++ Q)`. -/
set_option linter.unusedSimpArgs false
namespace Psi.PData

macro "eval_slice" : tactic => `(tactic|
  simp [getitem, getitemG, Index.items, npGetitem, Item.isEllipsis, Item.consumes, expandEllipsis, assignAxes,
    strides, itemSel, slicePositions_all, Sel.isFancy, advOffset, plainAxis, Except.map, List.filter,
    isScalarResult, normalizeIndexG, normTuple, normLoop, Item.isNewaxis, fullSlices, PD.ndim, fixups, splitNorm,
    Fixes.all, finalize, NPSel.shape, NPSel.offsets, fixTime_all, *])

/-- the samples of `data` at the given offsets. -/
def pick (data : List Nat) (offs : List Nat) : List Nat := offs.map fun o => data.getD o 0

/-- offset axis of `n` rows with the given stride. -/
def axis (n st : Nat) : List Nat := (List.range n).map (· * st)

section
variable (data : List Nat) (s0 : Int) (fs : Rat) (s : PySlice) (ps : List Nat)

theorem slice_t1 (n : Nat) (lab : Label) (m : Md) (hs : s.step = none) (h : slicePositions s n = .ok ps) :
    getitem ⟨[n], data, s0, fs, .one lab, .one m⟩ (.tuple [.ellipsis, .slice s]) =
      .ok (.arr ⟨[ps.length], pick data (cart ([] ++ ps.map (· * 1) :: [])), timeS0 s0 s n, fs, .one lab, .one m⟩) := by
  have hs' : s.step.getD 1 = 1 := by simp [hs]
  have hfs : timeFs fs s = fs := by simp [timeFs, hs]
  eval_slice
  cases lab <;> simp [fixTime_pos (k := 1) (hk := by omega) (hs := hs'), fixChannel, fixEpoch, PD.nTime, hfs, pick]

theorem slice_t1_bare (n : Nat) (lab : Label) (m : Md) (hs : s.step = none) (h : slicePositions s n = .ok ps) :
    getitem ⟨[n], data, s0, fs, .one lab, .one m⟩ (.one (.slice s)) =
      .ok (.arr ⟨[ps.length], pick data (cart ([] ++ ps.map (· * 1) :: [])), timeS0 s0 s n, fs, .one lab, .one m⟩) := by
  have hs' : s.step.getD 1 = 1 := by simp [hs]
  have hfs : timeFs fs s = fs := by simp [timeFs, hs]
  eval_slice
  cases lab <;> simp [fixTime_pos (k := 1) (hk := by omega) (hs := hs'), fixChannel, fixEpoch, PD.nTime, hfs, pick]

theorem slice_t2 (c n : Nat) (l : List Label) (m : Md) (hs : s.step = none) (h : slicePositions s n = .ok ps) :
    getitem ⟨[c, n], data, s0, fs, .many l, .one m⟩ (.tuple [.ellipsis, .slice s]) =
      .ok (.arr ⟨[c, ps.length], pick data (cart ([axis c n] ++ ps.map (· * 1) :: [])), timeS0 s0 s n, fs,
        .many l, .one m⟩) := by
  have hs' : s.step.getD 1 = 1 := by simp [hs]
  have hfs : timeFs fs s = fs := by simp [timeFs, hs]
  eval_slice
  simp [fixTime_pos (k := 1) (hk := by omega) (hs := hs'), fixChannel, fixEpoch, PD.nTime, hfs, pick, listSlice_all, axis]

theorem slice_t3 (e c n : Nat) (l : List Label) (ms : List Md) (hs : s.step = none) (h : slicePositions s n = .ok ps) :
    getitem ⟨[e, c, n], data, s0, fs, .many l, .many ms⟩ (.tuple [.ellipsis, .slice s]) =
      .ok (.arr ⟨[e, c, ps.length], pick data (cart ([axis e (c * n), axis c n] ++ ps.map (· * 1) :: [])),
        timeS0 s0 s n, fs, .many l, .many ms⟩) := by
  have hs' : s.step.getD 1 = 1 := by simp [hs]
  have hfs : timeFs fs s = fs := by simp [timeFs, hs]
  eval_slice
  simp [fixTime_pos (k := 1) (hk := by omega) (hs := hs'), fixChannel, fixEpoch, PD.nTime, hfs, pick, listSlice_all, axis]

theorem slice_c2 (c n : Nat) (l : List Label) (m : Md) (hl : l.length = c) (h : slicePositions s c = .ok ps) :
    getitem ⟨[c, n], data, s0, fs, .many l, .one m⟩ (.one (.slice s)) =
      .ok (.arr ⟨[ps.length, n], pick data (cart ([] ++ ps.map (· * n) :: [axis n 1])), s0, fs,
        .many (listTake l ps), .one m⟩) := by
  subst hl
  eval_slice
  simp [fixChannel, fixEpoch, listSlice, listTake, h, pick, axis]

theorem slice_c3 (e c n : Nat) (l : List Label) (ms : List Md) (hl : l.length = c) (h : slicePositions s c = .ok ps) :
    getitem ⟨[e, c, n], data, s0, fs, .many l, .many ms⟩ (.tuple [.slice .all, .slice s]) =
      .ok (.arr ⟨[e, ps.length, n], pick data (cart ([axis e (c * n)] ++ ps.map (· * n) :: [axis n 1])), s0, fs,
        .many (listTake l ps), .many ms⟩) := by
  subst hl
  eval_slice
  simp [fixChannel, fixEpoch, listSlice, listTake, h, pick, axis, slicePositions_all, filterMap_getElem_range]

theorem slice_e3 (e c n : Nat) (l : List Label) (ms : List Md) (hm : ms.length = e) (h : slicePositions s e = .ok ps) :
    getitem ⟨[e, c, n], data, s0, fs, .many l, .many ms⟩ (.one (.slice s)) =
      .ok (.arr ⟨[ps.length, c, n], pick data (cart ([] ++ ps.map (· * (c * n)) :: [axis c n, axis n 1])), s0, fs,
        .many l, .many (listTake ms ps)⟩) := by
  subst hm
  eval_slice
  simp [fixChannel, fixEpoch, listSlice, listTake, h, pick, axis, slicePositions_all, filterMap_getElem_range]
end



theorem axis_one (n : Nat) : axis n 1 = List.range n := by simp [axis]
theorem axis_length (n st : Nat) : (axis n st).length = n := by simp [axis]

theorem cart_std1 (n : Nat) : cart [axis n 1] = List.range n := by rw [cart_single, axis_one]

theorem cart_std2 (c n : Nat) : cart [axis c n, axis n 1] = List.range (c * n) := by
  rw [cart_cons, cart_std1]
  simp only [axis, List.flatMap_map]
  exact range_flatMap_block c n

theorem cart_std3 (e c n : Nat) : cart [axis e (c * n), axis c n, axis n 1] = List.range (e * (c * n)) := by
  rw [cart_cons, cart_std2]
  simp only [axis, List.flatMap_map]
  exact range_flatMap_block e (c * n)

theorem pick_range (data : List Nat) (N : Nat) (h : data.length = N) : pick data (List.range N) = data := by
  subst h; exact map_getD_range data

theorem map_mul_range (n st : Nat) : (List.range n).map (· * st) = axis n st := rfl

/-- `x[:]` of a well-formed array is the array itself. -/
theorem getArr_all {a : PD} (hwf : WF a) : getArr Fixes.all a (.one (.slice .all)) = .ok a := by
  cases hwf with
  | d1 n data s0 fs lab m hd => exact getArr_all_1d n data s0 fs lab m hd
  | d2 c n data s0 fs l m hd hl =>
    have h := slice_c2 data s0 fs .all _ c n l m hl (slicePositions_all c)
    simp only [getitem] at h
    simp only [getArr, h, List.nil_append, map_mul_range, cart_std2, pick_range data _ hd, List.length_range]
    rw [← hl, listTake_range]
  | d3 e c n data s0 fs l ms hd hl hm =>
    have h := slice_e3 data s0 fs .all _ e c n l ms hm (slicePositions_all e)
    simp only [getitem] at h
    simp only [getArr, h, List.nil_append, map_mul_range, cart_std3, pick_range data _ hd, List.length_range]
    rw [← hm, listTake_range]

theorem mapM_getArr_all : ∀ (arrs : List PD), (∀ a ∈ arrs, WF a) →
    arrs.mapM (fun a => getArr Fixes.all a (.one (.slice .all))) = .ok arrs
  | [], _ => rfl
  | a :: rest, h => by
    rw [List.mapM_cons, getArr_all (h a (by simp)), mapM_getArr_all rest (fun b hb => h b (by simp [hb]))]
    rfl

theorem WF.ndim_le {a : PD} (h : WF a) : 1 ≤ a.ndim ∧ a.ndim ≤ 3 := by cases h <;> simp [PD.ndim]

theorem ensureIndex_all (d : Nat) (dim : Dim) (hk : dim.k ≤ d) (hd : d ≤ 3) : ensureIndex d dim = .one (.slice .all) := by
  cases dim <;> simp only [Dim.k] at hk
  · rfl
  · match d, hk, hd with
    | 2, _, _ => rfl
    | 3, _, _ => rfl
  · match d, hk, hd with
    | 3, _, _ => rfl

end Psi.PData
