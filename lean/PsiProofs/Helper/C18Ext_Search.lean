import PsiModel.EpochsExt
/-! EXT18 helper lemmas: counting identities behind `epochs_contain` / `epochs_overlap`. -/
namespace Psi.EpochsExt

theorem countLt_map_fst (e : List (Int × Int)) (s : Int) :
    countLt (e.map (·.1)) s = e.countP (fun p => decide (p.1 < s)) := by
  simp [countLt, List.countP_map, Function.comp_def]

theorem countLt_map_snd (e : List (Int × Int)) (t : Int) :
    countLt (e.map (·.2)) t = e.countP (fun p => decide (p.2 < t)) := by
  simp [countLt, List.countP_map, Function.comp_def]

/-- `|A| + |B \ A| = |B| + |A \ B|` for `A = {p | p.1 < s}`, `B = {p | p.2 < t}`. -/
theorem count_identity (e : List (Int × Int)) (s t : Int) :
    countLt (e.map (·.1)) s + e.countP (fun p => decide (s ≤ p.1) && decide (p.2 < t))
      = countLt (e.map (·.2)) t + e.countP (fun p => decide (p.1 < s) && decide (t ≤ p.2)) := by
  rw [countLt_map_fst, countLt_map_snd]
  induction e with
  | nil => simp
  | cons p ps ih =>
    simp only [List.countP_cons]
    by_cases h1 : p.1 < s <;> by_cases h2 : p.2 < t <;>
      simp [h1, h2, Int.not_lt.mp, Int.not_le.mpr] <;> omega

theorem countP_zero_of_forall {α} (l : List α) (p : α → Bool) (h : ∀ a ∈ l, p a = false) :
    l.countP p = 0 := by
  rw [List.countP_eq_zero]
  intro a ha
  simp [h a ha]

/-- two members of a list that is pairwise `R`-related are equal or related one way or the other -/
theorem pairwise_mem_cases {α} {R : α → α → Prop} {l : List α} (h : l.Pairwise R) {a b : α}
    (ha : a ∈ l) (hb : b ∈ l) : a = b ∨ R a b ∨ R b a := by
  induction l with
  | nil => cases ha
  | cons c cs ih =>
    rw [List.pairwise_cons] at h
    rcases List.mem_cons.mp ha with rfl | ha' <;> rcases List.mem_cons.mp hb with rfl | hb'
    · exact Or.inl rfl
    · exact Or.inr (Or.inl (h.1 b hb'))
    · exact Or.inr (Or.inr (h.1 a ha'))
    · exact ih h.2 ha' hb'

end Psi.EpochsExt
