import PsiModel.Cache
/-! Lemmas about generators (C10 b) and the world of objects (C10 c). -/
namespace Psi.Cache

section gen
variable {P S O : Type}

theorem Gen.params_runAll {g : Gen P S O} (hl : g.Lawful) (s : S) (ns : List Nat) :
    g.params (g.runAll s ns) = g.params s := by
  induction ns generalizing s with
  | nil => rfl
  | cons n ns ih => simp only [Gen.runAll]; rw [ih, hl.params_next]

theorem Gen.runAll_append (g : Gen P S O) (s : S) (a b : List Nat) :
    g.runAll s (a ++ b) = g.runAll (g.runAll s a) b := by
  induction a generalizing s with
  | nil => rfl
  | cons n a ih => simp only [List.cons_append, Gen.runAll]; exact ih _

theorem Gen.reset_runAll {g : Gen P S O} (hl : g.Lawful) (s : S) (ns : List Nat) :
    g.reset (g.runAll s ns) = g.init (g.params s) := by
  rw [hl.reset_eq, Gen.params_runAll hl]

end gen

section kern
variable {P R F O : Type}

theorem Kern.params_next (k : Kern P R F O) (s : GState P R F) (n : Nat) :
    (k.next s n).1.params = s.params := rfl

theorem Kern.params_reset (k : Kern P R F O) (s : GState P R F) :
    (k.reset s).params = s.params := by
  unfold Kern.reset
  split <;> rfl

/-- `reset` overwrites offset, rng and filter state: what it returns depends on the parameters only. -/
theorem Kern.reset_eq_init (k : Kern P R F O) (s : GState P R F) : k.reset s = k.init s.params := by
  unfold Kern.init Kern.reset
  rfl

theorem Kern.lawful (k : Kern P R F O) : k.gen.Lawful :=
  ⟨fun s => k.reset_eq_init s, fun s n => k.params_next s n,
   fun p => by show (k.reset _).params = p; rw [Kern.params_reset]⟩

end kern

section tkern
variable {P F O PI S : Type}

theorem TKern.lawful (t : TKern P F O) {g : Gen PI S O} (hl : g.Lawful) : (t.gen g).Lawful := by
  refine ⟨?_, ?_, ?_⟩
  · intro s
    show t.reset g s = t.init g (s.params, g.params s.input)
    unfold TKern.reset TKern.init
    simp only [hl.reset_eq]
  · intro s n
    show ((t.next g s n).1.params, g.params (t.next g s n).1.input) = (s.params, g.params s.input)
    unfold TKern.next
    simp only [hl.params_next]
  · intro p
    show ((t.init g p).params, g.params (t.init g p).input) = p
    unfold TKern.init
    simp only [hl.params_init]

end tkern

theorem freeGen_lawful : freeGen.Lawful := ⟨fun _ => rfl, fun _ _ => rfl, fun _ => rfl⟩

theorem freeGen_runAll (l : Lin) (ns : List Nat) :
    freeGen.runAll l ns = { spec := l.spec, chunks := l.chunks ++ ns } := by
  induction ns generalizing l with
  | nil => simp [Gen.runAll]
  | cons n ns ih =>
    simp only [Gen.runAll]
    rw [ih]
    simp [freeGen]

/-! world -/

theorem wstep_length_le (w : World) (op : WOp) : w.objs.length ≤ (wstep w op).1.objs.length := by
  cases op <;> simp only [wstep] <;> repeat' split
  all_goals simp

theorem wstep_frame (w : World) (op : WOp) (j : Nat) (hj : j < w.objs.length)
    (ht : op.target ≠ some j) : (wstep w op).1.objs[j]? = w.objs[j]? := by
  cases op <;> simp only [wstep] <;> repeat' split
  all_goals first
    | rfl
    | exact List.getElem?_append_left hj
    | (simp only [WOp.target, ne_eq, Option.some.injEq] at ht
       exact List.getElem?_set_ne ht)

theorem wrun_length_le (ops : List WOp) (w : World) : w.objs.length ≤ (wrun ops w).objs.length := by
  induction ops generalizing w with
  | nil => exact Nat.le_refl _
  | cons op ops ih =>
    unfold wrun; rw [List.foldl_cons]
    exact Nat.le_trans (wstep_length_le w op) (ih _)

theorem wrun_frame (ops : List WOp) (w : World) (j : Nat) (hj : j < w.objs.length)
    (ht : ∀ op ∈ ops, op.target ≠ some j) : (wrun ops w).objs[j]? = w.objs[j]? := by
  induction ops generalizing w with
  | nil => rfl
  | cons op ops ih =>
    unfold wrun; rw [List.foldl_cons]
    have h1 := wstep_frame w op j hj (ht op List.mem_cons_self)
    have h2 := ih (wstep w op).1 (Nat.lt_of_lt_of_le hj (wstep_length_le w op))
      (fun o ho => ht o (List.mem_cons_of_mem _ ho))
    exact h2.trans h1

end Psi.Cache
