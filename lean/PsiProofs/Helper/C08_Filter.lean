import PsiProofs.Helper.C07_Lemmas
/-! `lfilter` (direct form II transposed) is linear in (state, input) over ℝ, and odd under a
sign-symmetric arithmetic. -/
namespace Psi.Db

/-! ## scaling over ℝ -/

theorem zipStep_scale (c x y : ℝ) (zs bs as : List ℝ) :
    zipStep (c * x) (c * y) (zs.map (c * ·)) bs as = (zipStep x y zs bs as).map (c * ·) := by
  induction zs generalizing bs as with
  | nil => simp [zipStep]
  | cons z zs ih =>
    cases bs with
    | nil => simp [zipStep]
    | cons b bs =>
      cases as with
      | nil => simp [zipStep]
      | cons a as =>
        simp only [List.map_cons, zipStep, ih]
        congr 1; ring

theorem shiftState_scale (c : ℝ) (z : List ℝ) : shiftState (z.map (c * ·)) = (shiftState z).map (c * ·) := by
  simp [shiftState]

/-- the state's contribution to the current output sample -/
def stateHead {α : Type} [DbField α] (z : List α) (x : α) : α :=
  match z with
  | [] => nat 0 * x
  | z0 :: _ => z0

theorem lfilterStep_eq {α : Type} [DbField α] (b0 : α) (bt atl z : List α) (x : α) :
    lfilterStep b0 bt atl z x =
      (stateHead z x + b0 * x, zipStep x (stateHead z x + b0 * x) (shiftState z) bt atl) := by
  cases z <;> rfl

theorem stateHead_scale (c : ℝ) (z : List ℝ) (x : ℝ) :
    stateHead (z.map (c * ·)) (c * x) = c * stateHead z x := by
  cases z with
  | nil => simp [stateHead]
  | cons z0 zt => simp [stateHead]

theorem lfilterStep_scale (c b0 : ℝ) (bt atl z : List ℝ) (x : ℝ) :
    lfilterStep b0 bt atl (z.map (c * ·)) (c * x) =
      (c * (lfilterStep b0 bt atl z x).1, (lfilterStep b0 bt atl z x).2.map (c * ·)) := by
  have hy : stateHead (z.map (c * ·)) (c * x) + b0 * (c * x) = c * (stateHead z x + b0 * x) := by
    rw [stateHead_scale]; ring
  simp only [lfilterStep_eq, hy, shiftState_scale, zipStep_scale]

/-- scaling the initial state and the input by `c` scales every output sample and the final state by `c` -/
theorem lfilter_scale (c b0 : ℝ) (bt atl : List ℝ) (z xs : List ℝ) :
    lfilter b0 bt atl (z.map (c * ·)) (xs.map (c * ·)) =
      ((lfilter b0 bt atl z xs).1.map (c * ·), (lfilter b0 bt atl z xs).2.map (c * ·)) := by
  induction xs generalizing z with
  | nil => simp [lfilter]
  | cons x xs ih =>
    simp only [List.map_cons, lfilter, lfilterStep_scale, ih]

theorem zeroState_scale (c : ℝ) (n : ℕ) : (zeroState n : List ℝ).map (c * ·) = zeroState n := by
  simp [zeroState]

/-! ## sign symmetry over an abstract arithmetic -/

/-- What exact polarity needs from the arithmetic: negation commutes with `*`, `+`, `-` and fixes zero.
IEEE-754 round-to-nearest arithmetic satisfies these laws (values compared numerically, i.e. `-0 = 0`). -/
class SignSymm (α : Type) [DbField α] : Prop where
  neg_mul : ∀ a b : α, (-a) * b = -(a * b)
  mul_neg : ∀ a b : α, a * (-b) = -(a * b)
  neg_add : ∀ a b : α, (-a) + (-b) = -(a + b)
  neg_sub : ∀ a b : α, (-a) - (-b) = -(a - b)
  neg_zero : -(nat 0 : α) = nat 0
  one_mul : ∀ a : α, nat 1 * a = a
  mul_one : ∀ a : α, a * nat 1 = a

instance : SignSymm ℝ where
  neg_mul a b := by ring
  mul_neg a b := by ring
  neg_add a b := by ring
  neg_sub a b := by ring
  neg_zero := by simp
  one_mul a := by simp
  mul_one a := by simp

section Sign
variable {α : Type} [DbField α] [SignSymm α]

theorem zipStep_neg (x y : α) (zs bs as : List α) :
    zipStep (-x) (-y) (zs.map (- ·)) bs as = (zipStep x y zs bs as).map (- ·) := by
  induction zs generalizing bs as with
  | nil => simp [zipStep]
  | cons z zs ih =>
    cases bs with
    | nil => simp [zipStep]
    | cons b bs =>
      cases as with
      | nil => simp [zipStep]
      | cons a as =>
        simp only [List.map_cons, zipStep, ih]
        congr 1
        rw [SignSymm.mul_neg, SignSymm.mul_neg, SignSymm.neg_add, SignSymm.neg_sub]

theorem shiftState_neg (z : List α) : shiftState (z.map (- ·)) = (shiftState z).map (- ·) := by
  simp [shiftState, SignSymm.neg_zero]

theorem stateHead_neg (z : List α) (x : α) : stateHead (z.map (- ·)) (-x) = -(stateHead z x) := by
  cases z with
  | nil => simp only [stateHead, List.map_nil]; rw [SignSymm.mul_neg]
  | cons z0 zt => simp [stateHead]

theorem lfilterStep_neg (b0 : α) (bt atl z : List α) (x : α) :
    lfilterStep b0 bt atl (z.map (- ·)) (-x) =
      (-(lfilterStep b0 bt atl z x).1, (lfilterStep b0 bt atl z x).2.map (- ·)) := by
  have hy : stateHead (z.map (- ·)) (-x) + b0 * (-x) = -(stateHead z x + b0 * x) := by
    rw [stateHead_neg, SignSymm.mul_neg, SignSymm.neg_add]
  simp only [lfilterStep_eq, hy, shiftState_neg, zipStep_neg]

/-- negating the initial state and the input negates every output sample and the final state -/
theorem lfilter_neg (b0 : α) (bt atl : List α) (z xs : List α) :
    lfilter b0 bt atl (z.map (- ·)) (xs.map (- ·)) =
      ((lfilter b0 bt atl z xs).1.map (- ·), (lfilter b0 bt atl z xs).2.map (- ·)) := by
  induction xs generalizing z with
  | nil => simp [lfilter]
  | cons x xs ih =>
    simp only [List.map_cons, lfilter, lfilterStep_neg, ih]

theorem zeroState_neg (n : ℕ) : (zeroState n : List α).map (- ·) = zeroState n := by
  simp [zeroState, SignSymm.neg_zero]

end Sign
end Psi.Db
