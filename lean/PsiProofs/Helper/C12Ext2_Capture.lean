import PsiModel.StagesExt2
import PsiProofs.Helper.C12Ext_Lemmas
import PsiProofs.Helper.C12_Stages1
/-! Run lemmas for `capture` (EXT12, second extension). -/
namespace Psi.StagesExt2
open Psi.Stages Psi.StagesExt
variable {α β ρ χ μ τ κ ι : Type}

/-- the inputs of `capture` when nothing is in the queue: annotated chunks, `popleft()` raising `IndexError` -/
def quiet (ys : List (PD α ρ χ μ)) : List (Option (Cmd τ) × Arr α ρ χ μ) := ys.map fun y => (none, .pd y)

/-- a segment of the history: the queue entry `cmd` is taken when the first chunk arrives, nothing afterwards -/
def segment (cmd : Cmd τ) : List (PD α ρ χ μ) → List (Option (Cmd τ) × Arr α ρ χ μ)
  | [] => []
  | y :: ys => (some cmd, .pd y) :: quiet ys

/-- the metadata of the forwarded blocks -/
def capAnn (addCap : Option τ → μ → μ) (t : Option τ) (ann : Ann ρ χ μ) : Ann ρ χ μ :=
  { ann with metadata := addCap t ann.metadata }

def dataBlocks (bs : List (PD α ρ χ μ)) : List (Sig (Arr α ρ χ μ)) := bs.map fun b => .data (.pd b)

/-- a request taken with a chunk: `Ellipsis`, then as if the request had been in force before -/
theorem core_start (addCap : Option τ → μ → μ) (st : CapSt τ) (t : τ) (r : Int) (d : Arr α ρ χ μ) :
    captureCore addCap st (some (.start t r), d)
      = (match captureCore addCap { s0 := st.s0, tStart := some t, sNext := some r } (none, d) with
         | .ok (o, s') => .ok (.restart :: o, s')
         | .error e => .error e) := by
  unfold captureCore
  simp only
  split
  · cases d <;> simp
  · simp

theorem core_stop (addCap : Option τ → μ → μ) (st : CapSt τ) (d : Arr α ρ χ μ) :
    captureCore addCap st (some .stop, d)
      = .ok ([], { s0 := st.s0 + d.data.length, tStart := st.tStart, sNext := none }) := by
  unfold captureCore
  simp

/-- no request in force: nothing is forwarded, the samples are counted -/
theorem quiet_idle (addCap : Option τ → μ → μ) : ∀ (ys : List (PD α ρ χ μ)) (o : Nat) (t : Option τ),
    run (captureCore addCap) { s0 := o, tStart := t, sNext := none } (quiet ys)
      = .ok ([], { s0 := o + (outData ys).length, tStart := t, sNext := none }) := by
  intro ys
  induction ys with
  | nil => intro o t; simp [quiet, run, outData]
  | cons y ys ih =>
    intro o t
    have h := ih (o + y.data.length) t
    simp only [quiet, List.map_cons] at h ⊢
    simp only [run, captureCore, Arr.data, h]
    simp [outData, Nat.add_assoc]

/-- a request whose start sample went by (`r < s0`): nothing is forwarded any more -/
theorem quiet_late (addCap : Option τ → μ → μ) : ∀ (ys : List (PD α ρ χ μ)) (o : Nat) (t : Option τ) (r : Int),
    r < (o : Int) →
    run (captureCore addCap) { s0 := o, tStart := t, sNext := some r } (quiet ys)
      = .ok ([], { s0 := o + (outData ys).length, tStart := t, sNext := some r }) := by
  intro ys
  induction ys with
  | nil => intro o t r _; simp [quiet, run, outData]
  | cons y ys ih =>
    intro o t r hr
    have h := ih (o + y.data.length) t r (by omega)
    simp only [quiet, List.map_cons] at h ⊢
    have hn : ¬ ((o : Int) ≤ r ∧ r - (o : Int) < (y.data.length : Int)) := by omega
    simp only [run, captureCore, Arr.data, hn, if_false, h]
    simp [outData, Nat.add_assoc]

/-- a request in force whose start sample is `k` samples ahead: the stream from there on, contiguously -/
theorem quiet_active (addCap : Option τ → μ → μ) (ann : Ann ρ χ μ) (t : Option τ) :
    ∀ (cs : List (List α)) (o k : Nat) (s : Int),
    ∃ bs st', run (captureCore addCap) { s0 := o, tStart := t, sNext := some ((o : Int) + k) } (quiet (stream ann s cs))
        = .ok (dataBlocks bs, st')
      ∧ Emits bs (cs.flatten.drop k) 1 (s + k) (capAnn addCap t ann)
      ∧ (∀ b ∈ bs, b.data ≠ [])
      ∧ st'.s0 = o + cs.flatten.length := by
  intro cs
  induction cs with
  | nil =>
    intro o k s
    exact ⟨[], _, rfl, by simpa using Emits.nil _ _ _, by simp, by simp⟩
  | cons c cs ih =>
    intro o k s
    by_cases hk : k < c.length
    · -- the start sample lies in this chunk: `c[k:]` goes out, from now on everything does
      obtain ⟨bs, st', hrun, hem, hne, hs0⟩ := ih (o + c.length) 0 (s + c.length)
      let d : PD α ρ χ μ := { data := c.drop k, s0 := s + k, ann := capAnn addCap t ann }
      refine ⟨d :: bs, st', ?_, ?_, ?_, ?_⟩
      · simp only [stream_cons, quiet, List.map_cons, run]
        have hc : ((o : Int) ≤ (o : Int) + k ∧ (o : Int) + k - (o : Int) < (c.length : Int)) := by omega
        have hi : ((o : Int) + (k : Int) - (o : Int)).toNat = k := by omega
        have hnext : (o : Int) + (k : Int) + ((c.length - k : Nat) : Int) = ((o + c.length : Nat) : Int) + ((0 : Nat) : Int) := by omega
        simp only [captureCore, Arr.data, hc, and_self, if_true, hi, hnext]
        simp only [quiet] at hrun
        rw [hrun]
        simp [dataBlocks, d, capAnn]
      · refine Emits.cons d (by simpa using hem) rfl rfl ?_ ?_
        · simp only [d, PD.len, List.length_drop]; omega
        · simp only [d, List.flatten_cons]
          rw [List.drop_append_of_le_length (by omega)]
      · intro b hb
        rcases List.mem_cons.mp hb with rfl | hb
        · simp only [d, ne_eq, List.drop_eq_nil_iff, Nat.not_le]; exact hk
        · exact hne b hb
      · simp only [hs0, List.flatten_cons, List.length_append]; omega
    · -- not yet reached: nothing goes out
      obtain ⟨bs, st', hrun, hem, hne, hs0⟩ := ih (o + c.length) (k - c.length) (s + c.length)
      refine ⟨bs, st', ?_, ?_, hne, ?_⟩
      · simp only [stream_cons, quiet, List.map_cons, run]
        have hc : ¬ ((o : Int) ≤ (o : Int) + k ∧ (o : Int) + k - (o : Int) < (c.length : Int)) := by omega
        have hnext : (o : Int) + (k : Int) = ((o + c.length : Nat) : Int) + ((k - c.length : Nat) : Int) := by omega
        simp only [captureCore, Arr.data, hc, if_false]
        simp only [quiet] at hrun
        rw [hnext, hrun]
        simp
      · have e1 : (c :: cs).flatten.drop k = cs.flatten.drop (k - c.length) := by
          simp only [List.flatten_cons]
          rw [List.drop_append, List.drop_eq_nil_of_le (by omega)]
          simp
        have e2 : s + (k : Int) = s + (c.length : Int) + ((k - c.length : Nat) : Int) := by omega
        rw [e1, e2]; exact hem
      · simp only [hs0, List.flatten_cons, List.length_append]; omega

/-- the stage counts the samples it receives, whatever the requests -/
theorem core_counts (addCap : Option τ → μ → μ) (st st' : CapSt τ) (inp : Option (Cmd τ) × Arr α ρ χ μ)
    (o : List (Sig (Arr α ρ χ μ))) (h : captureCore addCap st inp = .ok (o, st')) :
    st'.s0 = st.s0 + inp.2.data.length := by
  unfold captureCore at h
  simp only at h
  split at h
  · simp only [Except.ok.injEq, Prod.mk.injEq] at h; rw [← h.2]
  · split at h
    · split at h
      · simp at h
      · simp only [Except.ok.injEq, Prod.mk.injEq] at h; rw [← h.2]
    · simp only [Except.ok.injEq, Prod.mk.injEq] at h; rw [← h.2]

theorem run_counts (addCap : Option τ → μ → μ) : ∀ (h : List (Option (Cmd τ) × Arr α ρ χ μ)) (st st' : CapSt τ)
    (o : List (Sig (Arr α ρ χ μ))), run (captureCore addCap) st h = .ok (o, st') →
    st'.s0 = st.s0 + ((h.map fun i => i.2.data).flatten).length := by
  intro h
  induction h with
  | nil => intro st st' o hr; simp only [run, Except.ok.injEq, Prod.mk.injEq] at hr; simp [← hr.2]
  | cons i h ih =>
    intro st st' o hr
    simp only [run] at hr
    cases h1 : captureCore addCap st i with
    | error e => simp [h1] at hr
    | ok p =>
      obtain ⟨o1, s1⟩ := p
      simp only [h1] at hr
      cases h2 : run (captureCore addCap) s1 h with
      | error e => simp [h2] at hr
      | ok q =>
        obtain ⟨o2, s2⟩ := q
        simp only [h2, Except.ok.injEq, Prod.mk.injEq] at hr
        rw [← hr.2, ih s1 s2 o2 h2, core_counts addCap st s1 i o1 h1]
        simp [Nat.add_assoc]

end Psi.StagesExt2
