import PsiModel.Edges
import PsiProofs.Helper.C13_Stream
/-!
C13: the per-chunk selections tile — concatenating the blocks gives each transition exactly once,
in order.  Also the block spans and the `Events` container laws.
-/
set_option linter.unusedSimpArgs false
namespace Psi.Edges
open Psi.Epochs

theorem filter_or_split {α} (P Q : α → Bool) : ∀ (L : List α),
    (∀ a ∈ L, ¬ (P a = true ∧ Q a = true)) →
    L.Pairwise (fun a b => ¬ (Q a = true ∧ P b = true)) →
    L.filter (fun a => P a || Q a) = L.filter P ++ L.filter Q := by
  intro L
  induction L with
  | nil => intro _ _; rfl
  | cons h t ih =>
    intro hd hp
    have hp' := List.pairwise_cons.mp hp
    have iht := ih (fun a ha => hd a (List.mem_cons_of_mem _ ha)) hp'.2
    by_cases hP : P h = true
    · have hQ : Q h = false := by
        have := hd h List.mem_cons_self
        cases hq : Q h
        · rfl
        · exact absurd ⟨hP, hq⟩ this
      simp [List.filter_cons, hP, hQ, iht]
    · by_cases hQ : Q h = true
      · have : t.filter P = [] := by
          rw [List.filter_eq_nil_iff]
          intro a ha hPa
          exact hp'.1 a ha ⟨hQ, hPa⟩
        have hP' : P h = false := by simpa using hP
        simp [List.filter_cons, hP', hQ, iht, this]
      · have hP' : P h = false := by simpa using hP
        have hQ' : Q h = false := by simpa using hQ
        simp [List.filter_cons, hP', hQ', iht]

theorem sel_iff (det : Detect) (m : Nat) (s0 : Int) (n : Nat) (ev : Event) :
    sel det m s0 n ev = true ↔ det.wants ev.kind = true ∧
      ((ev.kind = .rising ∧ s0 < ev.sample ∧ ev.sample ≤ s0 + n) ∨
       (ev.kind = .falling ∧ s0 + m ≤ ev.sample ∧ ev.sample < s0 + m + n)) := by
  cases hk : ev.kind <;> simp [sel, hk]

theorem sel_add (det : Detect) (m : Nat) (s0 : Int) (n1 n2 : Nat) (ev : Event) :
    sel det m s0 (n1 + n2) ev = (sel det m s0 n1 ev || sel det m (s0 + n1) n2 ev) := by
  rw [Bool.eq_iff_iff, Bool.or_eq_true, sel_iff, sel_iff, sel_iff]
  have : ((n1 + n2 : Nat) : Int) = (n1 : Int) + n2 := by omega
  rw [this]
  generalize det.wants ev.kind = w
  cases w <;> cases ev.kind <;>
    simp only [true_and, false_and, or_false, false_or, reduceCtorEq, or_self,
      Bool.false_eq_true] <;> omega

/-- total number of samples in a list of chunks -/
def total : List (List Bool) → Nat
  | [] => 0
  | c :: cs => c.length + total cs

theorem total_eq_length_flatten : ∀ cs : List (List Bool), total cs = cs.flatten.length := by
  intro cs
  induction cs with
  | nil => rfl
  | cons c cs ih => simp [total, ih]

/-- concatenating the blocks of consecutive chunks = one selection over the whole span -/
theorem specBlocks_flat (det : Detect) (m : Nat) (hm : 1 ≤ m) (G : List Event)
    (hG : G.Pairwise (Gap m)) : ∀ (cs : List (List Bool)) (s0 : Int),
    (specBlocks det m G s0 cs).flatMap (·.events) = G.filter (sel det m s0 (total cs)) := by
  intro cs
  induction cs with
  | nil =>
    intro s0
    simp only [specBlocks, List.flatMap_nil, total]
    symm
    rw [List.filter_eq_nil_iff]
    intro ev _
    cases hk : ev.kind <;> simp [sel, hk] <;> intros <;> omega
  | cons c cs ih =>
    intro s0
    simp only [specBlocks, List.flatMap_cons, total, ih]
    have hfun : sel det m s0 (c.length + total cs)
        = fun ev => sel det m s0 c.length ev || sel det m (s0 + c.length) (total cs) ev := by
      funext ev; exact sel_add det m s0 c.length (total cs) ev
    rw [hfun]
    symm
    apply filter_or_split
    · intro a _ ⟨h1, h2⟩
      cases hk : a.kind <;> simp [sel, hk] at h1 h2 <;> omega
    · refine List.Pairwise.imp ?_ hG
      intro a b hab ⟨h1, h2⟩
      simp only [Gap] at hab
      cases hka : a.kind <;> cases hkb : b.kind <;> simp [sel, hka, hkb] at h1 h2 <;> omega

theorem specBlocks_mem (det : Detect) (m : Nat) (G : List Event) :
    ∀ (cs : List (List Bool)) (s0 : Int) (b : Block), b ∈ specBlocks det m G s0 cs →
    ∃ n : Nat, b.stop = b.start + n ∧ b.events = G.filter (sel det m b.start n) := by
  intro cs
  induction cs with
  | nil => intro s0 b h; simp [specBlocks] at h
  | cons c cs ih =>
    intro s0 b h
    simp only [specBlocks, List.mem_cons] at h
    rcases h with h | h
    · subst h; exact ⟨c.length, rfl, rfl⟩
    · exact ih _ b h

theorem specBlocks_append (det : Detect) (m : Nat) (G : List Event) :
    ∀ (cs1 cs2 : List (List Bool)) (s0 : Int),
    specBlocks det m G s0 (cs1 ++ cs2)
      = specBlocks det m G s0 cs1 ++ specBlocks det m G (s0 + total cs1) cs2 := by
  intro cs1
  induction cs1 with
  | nil => intro cs2 s0; simp [specBlocks, total]
  | cons c cs ih =>
    intro cs2 s0
    simp only [List.cons_append, specBlocks, total, ih]
    have : s0 + (c.length : Int) + (total cs : Int) = s0 + ((c.length + total cs : Nat) : Int) := by
      omega
    rw [this]

theorem specBlocks_length (det : Detect) (m : Nat) (G : List Event) :
    ∀ (cs : List (List Bool)) (s0 : Int), (specBlocks det m G s0 cs).length = cs.length := by
  intro cs
  induction cs with
  | nil => intro _; rfl
  | cons c cs ih => intro s0; simp [specBlocks, ih]

/-- the spans a detector started at `s0` must declare for the chunks `cs` -/
def spans : Int → List (List Bool) → List (Int × Int)
  | _, [] => []
  | s0, c :: cs => (s0, s0 + c.length) :: spans (s0 + c.length) cs

theorem adjacent_of_spans : ∀ (cs : List (List Bool)) (s0 : Int) (bs : List Block),
    bs.map (fun b => (b.start, b.stop)) = spans s0 cs → adjacent s0 bs = true := by
  intro cs
  induction cs with
  | nil =>
    intro s0 bs h
    cases bs with
    | nil => rfl
    | cons b bs => simp [spans] at h
  | cons c cs ih =>
    intro s0 bs h
    cases bs with
    | nil => simp [spans] at h
    | cons b bs =>
      simp only [List.map_cons, spans, List.cons.injEq, Prod.mk.injEq] at h
      obtain ⟨⟨h1, h2⟩, h3⟩ := h
      simp only [adjacent, h1, bne_self_eq_false, Bool.false_eq_true, if_false]
      rw [h2]; exact ih _ bs h3

/-- `run` never raises, emits one block per chunk, and the blocks' declared spans tile the timeline
from the initial `s0` — for EVERY input (no run-length precondition). -/
theorem run_spans (m : Nat) (det : Detect) : ∀ (cs : List (List Bool)) (st : State),
    ∃ st' bs, run m det st cs = .ok (st', bs) ∧
      bs.map (fun b => (b.start, b.stop)) = spans st.s0 cs ∧
      st'.s0 = st.s0 + total cs := by
  intro cs
  induction cs with
  | nil => intro st; exact ⟨st, [], rfl, rfl, by simp [total]⟩
  | cons c cs ih =>
    intro st
    have hstep : ∃ st1 b, step m det st c = .ok (st1, b) ∧ b.start = st.s0 ∧
        b.stop = st.s0 + c.length ∧ st1.s0 = st.s0 + c.length := by
      unfold step
      simp only [epochs_eq_runs]
      exact ⟨_, _, rfl, rfl, rfl, rfl⟩
    obtain ⟨st1, b, h1, h2, h3, h4⟩ := hstep
    obtain ⟨st', bs, g1, g2, g3⟩ := ih st1
    refine ⟨st', b :: bs, by simp [run, h1, g1], ?_, ?_⟩
    · simp [spans, h2, h3, g2, h4]
    · rw [g3, h4]; simp only [total]; omega

theorem edges_pad (i0 : Bool) (s0in : Int) (m : Nat) (x : List Bool) :
    edgesOf i0 (s0in - m) (List.replicate m i0 ++ x) = edgesOf i0 s0in x := by
  rw [edgesOf_append, (edgesOf_replicate i0 m _).1, (edgesOf_replicate i0 m 0).2]
  simp only [List.nil_append, List.length_replicate]
  have : s0in - (m : Int) + (m : Int) = s0in := by omega
  rw [this]

theorem spans_length : ∀ (cs : List (List Bool)) (s : Int), (spans s cs).length = cs.length := by
  intro cs
  induction cs with
  | nil => intro _; rfl
  | cons c cs ih => intro s; simp [spans, ih]

theorem adjacent_false_of_gap (b1 b2 : Block) (post : List Block) (h : b1.stop ≠ b2.start) :
    ∀ (pre : List Block) (s0 : Int), adjacent s0 (pre ++ b1 :: b2 :: post) = false := by
  intro pre
  induction pre with
  | nil => intro s0; simp [adjacent, Ne.symm h]
  | cons p pre ih => intro s0; simp [adjacent, ih]

end Psi.Edges
