import PsiProofs.Helper.C05_Step
/-! Helper for C05: following one request key through a valid history. -/
namespace Psi.Extract

/-- captures pending for key `k` -/
def pendK {α} (st : State α) (k : Nat) : Pending α := st.pending.filter (fun c => c.req.key == k)

/-- epochs delivered for key `k` by one call -/
def delivK {α} (k : Nat) : Outcome α → List (Epoch α)
  | .ok batch _ => batch.filter (fun e => e.req.key == k)
  | _ => []

theorem feedMore_req {α} (T : Nat) (ch : List α) (c c' : Capture α) (h : feedMore T ch c = some c') :
    c'.req = c.req := by
  unfold feedMore at h
  split at h
  · rename_i hf; cases h; exact feed_req_more _ _ _ _ hf
  · cases h

theorem feedStop_req {α} (T : Nat) (ch : List α) (c : Capture α) (e : Epoch α) (h : feedStop T ch c = some e) :
    e.req = c.req := by
  unfold feedStop at h
  split at h
  · cases h
  · rename_i hf; cases h; exact feed_req_stop _ _ _ _ hf

theorem intakeMore_req {α} (prior : List (Nat × List α)) (r : Request) (c' : Capture α)
    (h : intakeMore prior r = some c') : c'.req = r := by
  unfold intakeMore at h
  split at h
  · rename_i hf; cases h; exact replay_req_more _ _ _ hf
  · cases h

theorem intakeStop_req {α} (prior : List (Nat × List α)) (r : Request) (e : Epoch α)
    (h : intakeStop (α := α) prior r = some e) : e.req = r := by
  unfold intakeStop at h
  split at h
  · cases h
  · rename_i hf; cases h; exact replay_req_stop _ _ _ hf

theorem filter_filter_key {β} (l : List β) (kb : β → Nat) (f : Nat → Bool) (k : Nat) :
    (l.filter (fun x => f (kb x))).filter (fun x => kb x == k) =
      if f k then l.filter (fun x => kb x == k) else [] := by
  rw [List.filter_filter]
  split
  · rename_i hf
    apply List.filter_congr
    intro x _
    by_cases hx : kb x = k
    · simp [hx, hf]
    · simp [hx]
  · rename_i hf
    rw [List.filter_eq_nil_iff]
    intro x _
    by_cases hx : kb x = k
    · simp [hx, hf]
    · simp [hx]

theorem intake_facts {α} (S : List α) (B L : Nat) (hist : List (Op α)) (st : State α) (op : Op α)
    (hinv : Inv S B L hist st) (hv : OpValid B L hist op)
    (hch : op.chunk = slice S (total hist) op.chunk.length) :
    ∀ r ∈ op.reqs,
      (r.s.toNat + r.len ≤ total hist + op.chunk.length →
        intakeStop (prior1Of st op) r = some (epochOf S r) ∧ intakeMore (prior1Of st op) r = none) ∧
      (total hist + op.chunk.length < r.s.toNat + r.len →
        intakeStop (prior1Of st op) r = none ∧ ∃ c', intakeMore (prior1Of st op) r = some c' ∧ c'.req = r) := by
  have hT := hinv.tlb
  have hcontig0 : Contig S (lookbackStart B hist) st.prior (total hist) := by
    rw [hinv.prior]
    have := contig_withStarts S 0 hist hinv.chunks
    simp only [Nat.zero_add] at this
    exact contig_dropWhile S 0 (total hist) _ _ this
  have hcontig : Contig S (lookbackStart B hist) (prior1Of st op) (total hist + op.chunk.length) := by
    apply contig_append S _ (total hist) _ _ _ hcontig0
    simp only [Contig, hT]
    exact ⟨trivial, hch, trivial⟩
  have hne : prior1Of st op ≠ [] := by simp [prior1Of]
  intro r hr
  have hvis := hv.visible r hr
  have hs : r.s = ((r.s.toNat : Nat) : Int) := by omega
  have hle : lookbackStart B hist ≤ r.s.toNat := by omega
  constructor
  · intro h
    exact intake_done S _ _ _ r _ hne hcontig hs hle h
  · intro h
    obtain ⟨h1, c', h2, h3, _⟩ := intake_cont S _ _ _ r _ hcontig hs hle h
    exact ⟨h1, c', h2, h3⟩

/-- `r` is the request that key `r.key` stands for during the call `op`: either a capture for
it is pending, or it becomes visible in this very call. -/
def Live {α} (st : State α) (op : Op α) (r : Request) : Prop :=
  (∃ c, pendK st r.key = [c] ∧ c.req = r) ∨ (pendK st r.key = [] ∧ r ∈ op.reqs)

theorem step_live {α} (S : List α) (B L : Nat) (hist : List (Op α)) (st : State α) (op : Op α) (r : Request)
    (hinv : Inv S B L hist st) (hv : OpValid B L hist op)
    (hch : op.chunk = slice S (total hist) op.chunk.length)
    (hbound : total hist + op.chunk.length ≤ S.length)
    (hlive : Live st op r) :
    (r.key ∈ op.rems → delivK r.key (step st op).2 = [] ∧ pendK (step st op).1 r.key = []) ∧
    (r.key ∉ op.rems → r.s.toNat + r.len ≤ total hist + op.chunk.length →
        delivK r.key (step st op).2 = [epochOf S r] ∧ pendK (step st op).1 r.key = []) ∧
    (r.key ∉ op.rems → total hist + op.chunk.length < r.s.toNat + r.len →
        delivK r.key (step st op).2 = [] ∧ ∃ c', pendK (step st op).1 r.key = [c'] ∧ c'.req = r) := by
  obtain ⟨hstep, _, _⟩ := step_spec S B L hist st op hinv hv hch hbound
  rw [hstep]
  simp only [delivK, pendK, nextState, pendingOf, batchOf, List.filter_append]
  -- project the four filterMaps on the key
  have e1 : ((keptOf st op).filterMap (feedMore st.tlb op.chunk)).filter (fun c => c.req.key == r.key) =
      ((keptOf st op).filter (fun c => c.req.key == r.key)).filterMap (feedMore st.tlb op.chunk) :=
    filter_key_filterMap _ _ (fun c : Capture α => c.req.key) (fun c : Capture α => c.req.key) _
      (fun c _ c' hf => by rw [feedMore_req _ _ _ _ hf])
  have e2 : ((keptOf st op).filterMap (feedStop st.tlb op.chunk)).filter (fun e => e.req.key == r.key) =
      ((keptOf st op).filter (fun c => c.req.key == r.key)).filterMap (feedStop st.tlb op.chunk) :=
    filter_key_filterMap _ _ (fun c : Capture α => c.req.key) (fun e : Epoch α => e.req.key) _
      (fun c _ e hf => by rw [feedStop_req _ _ _ _ hf])
  have e3 : ((takenOf st op).filterMap (intakeMore (prior1Of st op))).filter (fun c => c.req.key == r.key) =
      ((takenOf st op).filter (fun q => q.key == r.key)).filterMap (intakeMore (prior1Of st op)) :=
    filter_key_filterMap _ _ (fun q : Request => q.key) (fun c : Capture α => c.req.key) _
      (fun q _ c' hf => by rw [intakeMore_req _ _ _ hf])
  have e4 : ((takenOf st op).filterMap (intakeStop (prior1Of st op))).filter (fun e => e.req.key == r.key) =
      ((takenOf st op).filter (fun q => q.key == r.key)).filterMap (intakeStop (prior1Of st op)) :=
    filter_key_filterMap _ _ (fun q : Request => q.key) (fun e : Epoch α => e.req.key) _
      (fun q _ e hf => by rw [intakeStop_req _ _ _ hf])
  have k1 : (keptOf st op).filter (fun c => c.req.key == r.key) =
      if (!op.rems.contains r.key) then pendK st r.key else [] :=
    filter_filter_key st.pending (fun c : Capture α => c.req.key) (fun k => !op.rems.contains k) r.key
  have k2 : (takenOf st op).filter (fun q => q.key == r.key) =
      if (!(skipOf st op).contains r.key) then op.reqs.filter (fun q => q.key == r.key) else [] :=
    filter_filter_key op.reqs (fun q : Request => q.key) (fun k => !(skipOf st op).contains k) r.key
  rw [e1, e2, e3, e4, k1, k2]
  rcases hlive with ⟨c, hpk, hcr⟩ | ⟨hpk, hr⟩
  · -- a capture is pending: no request of this call has the key
    have hcmem : c ∈ st.pending := by
      have : c ∈ pendK st r.key := by rw [hpk]; exact List.mem_singleton_self c
      exact (List.mem_filter.1 this).1
    have hcap := hinv.caps c hcmem
    have hnoreq : op.reqs.filter (fun q => q.key == r.key) = [] := by
      apply filter_key_none
      intro q hq heq
      exact hv.fresh q hq c.req hcap.2.2 (by rw [hcr, heq])
    simp only [hnoreq, ite_self, List.filterMap_nil, List.append_nil, hpk]
    have hcs : c.req.s.toNat + c.req.len = r.s.toNat + r.len := by rw [hcr]
    refine ⟨?_, ?_, ?_⟩
    · intro hk
      have : (!op.rems.contains r.key) = false := by simpa using hk
      simp only [this, Bool.false_eq_true, if_false, List.filterMap_nil]
      exact ⟨trivial, trivial⟩
    · intro hk hle
      have : (!op.rems.contains r.key) = true := by simpa using hk
      have hd := feedStop_done S (total hist) _ op.chunk c hch rfl hcap.1 (by omega)
      simp only [this, if_true, List.filterMap_cons, List.filterMap_nil, hinv.tlb, hd.1, hd.2, hcr]
      exact ⟨trivial, trivial⟩
    · intro hk hlt
      have : (!op.rems.contains r.key) = true := by simpa using hk
      obtain ⟨h1, c', h2, h3, _⟩ := feedMore_cont S (total hist) _ op.chunk c hch rfl hcap.1 (by omega)
      simp only [this, if_true, List.filterMap_cons, List.filterMap_nil, hinv.tlb, h1, h2]
      exact ⟨trivial, c', rfl, by rw [h3, hcr]⟩
  · -- the request arrives in this call
    have hreq : op.reqs.filter (fun q => q.key == r.key) = [r] :=
      filter_key_unique op.reqs (fun q : Request => q.key) r hv.nodup hr
    have hnokey : hasKey st.pending r.key = false := by
      rw [hasKey_false_iff]
      intro c hc heq
      have : c ∈ pendK st r.key := List.mem_filter.2 ⟨hc, by simpa using heq⟩
      rw [hpk] at this; cases this
    have hfacts := intake_facts S B L hist st op hinv hv hch r hr
    simp only [hpk, ite_self, List.filterMap_nil, List.nil_append, hreq]
    refine ⟨?_, ?_, ?_⟩
    · intro hk
      have : (!(skipOf st op).contains r.key) = false := by
        have : r.key ∈ skipOf st op := removeAll_skip_mem st.pending op.rems r.key hk hnokey
        simpa using this
      simp only [this, Bool.false_eq_true, if_false, List.filterMap_nil]
      exact ⟨trivial, trivial⟩
    · intro hk hle
      have : (!(skipOf st op).contains r.key) = true := by
        have : r.key ∉ skipOf st op := fun h => hk (removeAll_skip_sub st.pending op.rems r.key h)
        simpa using this
      obtain ⟨h1, h2⟩ := hfacts.1 hle
      simp only [this, if_true, List.filterMap_cons, List.filterMap_nil, h1, h2]
      exact ⟨trivial, trivial⟩
    · intro hk hlt
      have : (!(skipOf st op).contains r.key) = true := by
        have : r.key ∉ skipOf st op := fun h => hk (removeAll_skip_sub st.pending op.rems r.key h)
        simpa using this
      obtain ⟨h1, c', h2, h3⟩ := hfacts.2 hlt
      simp only [this, if_true, List.filterMap_cons, List.filterMap_nil, h1, h2]
      exact ⟨trivial, c', rfl, h3⟩

/-- a key that is neither pending nor requested produces nothing and stays absent -/
theorem step_idle {α} (S : List α) (B L : Nat) (hist : List (Op α)) (st : State α) (op : Op α) (k : Nat)
    (hinv : Inv S B L hist st) (hv : OpValid B L hist op)
    (hch : op.chunk = slice S (total hist) op.chunk.length)
    (hbound : total hist + op.chunk.length ≤ S.length)
    (hpk : pendK st k = []) (hnoreq : ∀ q ∈ op.reqs, q.key ≠ k) :
    delivK k (step st op).2 = [] ∧ pendK (step st op).1 k = [] := by
  obtain ⟨hstep, _, _⟩ := step_spec S B L hist st op hinv hv hch hbound
  rw [hstep]
  simp only [delivK, pendK, nextState, pendingOf, batchOf, List.filter_append]
  have e1 : ((keptOf st op).filterMap (feedMore st.tlb op.chunk)).filter (fun c => c.req.key == k) =
      ((keptOf st op).filter (fun c => c.req.key == k)).filterMap (feedMore st.tlb op.chunk) :=
    filter_key_filterMap _ _ (fun c : Capture α => c.req.key) (fun c : Capture α => c.req.key) _
      (fun c _ c' hf => by rw [feedMore_req _ _ _ _ hf])
  have e2 : ((keptOf st op).filterMap (feedStop st.tlb op.chunk)).filter (fun e => e.req.key == k) =
      ((keptOf st op).filter (fun c => c.req.key == k)).filterMap (feedStop st.tlb op.chunk) :=
    filter_key_filterMap _ _ (fun c : Capture α => c.req.key) (fun e : Epoch α => e.req.key) _
      (fun c _ e hf => by rw [feedStop_req _ _ _ _ hf])
  have e3 : ((takenOf st op).filterMap (intakeMore (prior1Of st op))).filter (fun c => c.req.key == k) =
      ((takenOf st op).filter (fun q => q.key == k)).filterMap (intakeMore (prior1Of st op)) :=
    filter_key_filterMap _ _ (fun q : Request => q.key) (fun c : Capture α => c.req.key) _
      (fun q _ c' hf => by rw [intakeMore_req _ _ _ hf])
  have e4 : ((takenOf st op).filterMap (intakeStop (prior1Of st op))).filter (fun e => e.req.key == k) =
      ((takenOf st op).filter (fun q => q.key == k)).filterMap (intakeStop (prior1Of st op)) :=
    filter_key_filterMap _ _ (fun q : Request => q.key) (fun e : Epoch α => e.req.key) _
      (fun q _ e hf => by rw [intakeStop_req _ _ _ hf])
  have k1 : (keptOf st op).filter (fun c => c.req.key == k) =
      if (!op.rems.contains k) then pendK st k else [] :=
    filter_filter_key st.pending (fun c : Capture α => c.req.key) (fun k => !op.rems.contains k) k
  have k2 : (takenOf st op).filter (fun q => q.key == k) =
      if (!(skipOf st op).contains k) then op.reqs.filter (fun q => q.key == k) else [] :=
    filter_filter_key op.reqs (fun q : Request => q.key) (fun k => !(skipOf st op).contains k) k
  have hnr : op.reqs.filter (fun q => q.key == k) = [] := filter_key_none _ _ _ hnoreq
  rw [e1, e2, e3, e4, k1, k2, hpk, hnr]
  simp

end Psi.Extract
