import PsiProofs.Helper.C03_Policy
/-! Blocked random queue: the log is the concatenation of the oracle's shuffles (each consumed from
its end, as `list.pop()` does), cut at the first moment every stimulus is satisfied. -/
namespace Psi.Queue

theorem nextKey_blocked_refill {s : QState} {n : Nat} (hkind : s.kind = .blockedRandom)
    (ho : s.ordering = List.range n) (hc : s.complete = false) (hb : s.block = [])
    {ys : List Nat} {pss : List (List Nat)} {i : Nat} (hp : s.perms = (ys ++ [i]) :: pss) (hi : i < n) :
    nextKey s = .ok (some (i, { s with block := ys, perms := pss })) := by
  unfold nextKey
  simp [hkind, hc, hb, hp, ho, List.getElem?_range hi]

theorem nextKey_blocked_pop {s : QState} {n : Nat} (hkind : s.kind = .blockedRandom)
    (ho : s.ordering = List.range n) (hc : s.complete = false)
    {ys : List Nat} {i : Nat} (hb : s.block = ys ++ [i]) (hi : i < n) :
    nextKey s = .ok (some (i, { s with block := ys })) := by
  unfold nextKey
  simp [hkind, hc, hb, ho, List.getElem?_range hi]

/-- Blocked random, `n` stimuli, requested `req`, shuffle stream `P0` at load time, `m` shuffles
still guaranteed. -/
structure BlockInv (n : Nat) (req : Nat → Int) (P0 : List (List Nat)) (m : Nat) (v : PView) : Prop where
  base : Base n req v
  kind : v.kind = .blockedRandom
  ord : v.ordering = List.range n
  permsOK : ∀ p ∈ P0, p.Perm (List.range n)
  blocks : ∃ b, b ≤ P0.length ∧ v.perms = P0.drop b ∧
    v.keys ++ v.block.reverse = (P0.take b).flatMap List.reverse
  blockLt : v.block.length < n ∧ ∀ i ∈ v.block, i < n
  budget : m ≤ v.perms.length
  open_ : v.complete = false → ∃ k, k < n ∧ 0 < trv v.data k
  closed : v.complete = true → ∀ k, k < n → trv v.data k ≤ 0
  first : ∀ j, j < v.keys.length → ∃ k, k < n ∧ (((v.keys.take j).count k : Nat) : Int) < req k

theorem BlockInv_init {s : QState} (h : Loaded s) (hk : s.kind = .blockedRandom)
    (hp : ∀ p ∈ s.perms, p.Perm (List.range s.data.length)) :
    BlockInv s.data.length (fun k => trialsOf s k) s.perms s.perms.length (view s) := by
  refine ⟨Base_init h, hk, h.ordering, hp, ⟨0, Nat.zero_le _, by simp [view], by simp [view, h.added, h.block]⟩,
    ⟨by simp [view, h.block, h.pos], by simp [view, h.block]⟩, Nat.le_refl _, ?_, ?_, ?_⟩
  · intro _
    exact ⟨0, h.pos, by have := h.trials h.pos; rw [trialsOf_eq] at this; simp only [view]; omega⟩
  · intro hc; simp [view, h.complete] at hc
  · intro m hm; simp [view, h.added] at hm

theorem BlockInv_mono {n : Nat} {req : Nat → Int} {P0 : List (List Nat)} (m : Nat) (v : PView)
    (h : BlockInv n req P0 (m + 1) v) : BlockInv n req P0 m v :=
  ⟨h.base, h.kind, h.ord, h.permsOK, h.blocks, h.blockLt, by have := h.budget; omega, h.open_, h.closed,
   h.first⟩

/-- the part of the step that does not depend on where the index came from -/
theorem BlockInv_after {n : Nat} {req : Nat → Int} {P0 : List (List Nat)} {m : Nat} {s sa : QState}
    {i : Nat} (hi : BlockInv n req P0 (m + 1) (view s)) (hc : s.complete = false) (hil : i < n)
    (hkey : nextKey s = .ok (some (i, sa)))
    (hblocks : ∃ b, b ≤ P0.length ∧ sa.perms = P0.drop b ∧
      ((view s).keys ++ [i]) ++ sa.block.reverse = (P0.take b).flatMap List.reverse)
    (hblt : sa.block.length < n ∧ ∀ x ∈ sa.block, x < n) (hbud : m ≤ sa.perms.length) :
    ∃ s1, nextTrial s = .ok (some s1) ∧ BlockInv n req P0 m (view s1) := by
  have hlen : s.data.length = n := hi.base.len
  have hkind : s.kind = .blockedRandom := hi.kind
  have hord : s.ordering = List.range n := hi.ord
  have f1 := nextKey_frame hkey
  have hsak : sa.kind = .blockedRandom := by rw [f1]; exact hkind
  have hsao : sa.ordering = List.range n := by rw [f1]; exact hord
  have hsad : sa.data = s.data := by rw [f1]
  have hsac : sa.complete = s.complete := by rw [f1]
  have hmem : i ∈ sa.ordering := by simp [hsao, hil]
  have hdec := decrementKey_complete (Or.inr hsak) hmem
  obtain ⟨s1, hs1, hv⟩ := nextTrial_ok hkey hdec (by rw [hlen]; exact hil) hi.base.delays
  refine ⟨s1, hs1, ?_⟩
  have hb1 : Base n req (view s1) := Base_step hi.base hil (by rw [hv]; rfl) (by rw [hv])
  have hkeys : (view s1).keys = (view s).keys ++ [i] := by rw [hv]
  have hdata : (view s1).data = dataStep s.data i := by rw [hv]
  have hcomp : (view s1).complete =
      if (setTrials s.data i (· - 1)).all (fun e => decide (e.trials ≤ 0)) then true
      else s.complete := by rw [hv]; simp only [hsad, hsac]
  refine ⟨hb1, by rw [hv]; exact hkind, by rw [hv]; exact hsao, hi.permsOK, ?_, ?_, ?_, ?_, ?_, ?_⟩
  · obtain ⟨b, hb, hp, hcat⟩ := hblocks
    exact ⟨b, hb, by rw [hv]; exact hp, by rw [hkeys]; rw [hv]; exact hcat⟩
  · rw [hv]; exact hblt
  · rw [hv]; exact hbud
  · intro hcf
    rw [hcomp] at hcf
    split at hcf
    · simp at hcf
    · rename_i hall
      rw [all_le_iff] at hall
      have : ∃ k', k' < n ∧ 0 < trv (setTrials s.data i (· - 1)) k' := by
        apply Classical.byContradiction
        intro hne
        apply hall
        intro k' hk'
        rw [setTrials_length, hlen] at hk'
        exact Int.not_lt.mp (fun h => hne ⟨k', hk', h⟩)
      obtain ⟨k', hk', hp⟩ := this
      exact ⟨k', hk', by rw [hdata, ← trv_setTrials_eq_dataStep _ _ _ (by rw [hlen]; exact hil)]; exact hp⟩
  · intro hct k' hk'
    rw [hcomp] at hct
    split at hct
    · rename_i hall
      rw [all_le_iff] at hall
      have := hall k' (by rw [setTrials_length, hlen]; exact hk')
      rw [hdata, ← trv_setTrials_eq_dataStep _ _ _ (by rw [hlen]; exact hil)]; exact this
    · rw [hc] at hct; simp at hct
  · intro j hj
    rw [hkeys] at hj ⊢
    rw [List.length_append] at hj
    simp only [List.length_singleton] at hj
    by_cases hjl : j < (view s).keys.length
    · rw [List.take_append_of_le_length (by omega)]
      exact hi.first j hjl
    · have : j = (view s).keys.length := by omega
      subst this
      rw [List.take_append_of_le_length (Nat.le_refl _), List.take_of_length_le (Nat.le_refl _)]
      obtain ⟨k, hk, hp⟩ := hi.open_ hc
      exact ⟨k, hk, (hi.base.unsat_iff hk).mp hp⟩

theorem BlockInv_step {n : Nat} {req : Nat → Int} {P0 : List (List Nat)} (m : Nat) (s : QState)
    (hi : BlockInv n req P0 (m + 1) (view s)) :
    nextTrial s = .ok none ∨ ∃ s1, nextTrial s = .ok (some s1) ∧ BlockInv n req P0 m (view s1) := by
  have hn := hi.base.npos
  have hkind : s.kind = .blockedRandom := hi.kind
  have hord : s.ordering = List.range n := hi.ord
  cases hc : s.complete with
  | true =>
    left
    apply nextTrial_none_of
    rw [nextKey_none_iff]
    simp [Done, hkind, hc]
  | false =>
    right
    obtain ⟨b, hbl, hperms, hcat⟩ := hi.blocks
    simp only [view] at hperms hcat
    have hbud : m + 1 ≤ s.perms.length := hi.budget
    obtain ⟨hblen, hbmem⟩ := hi.blockLt
    simp only [view] at hblen hbmem
    cases hblk : s.block.getLast? with
    | none =>
      -- the block is used up: take the oracle's next shuffle
      have hb : s.block = [] := List.getLast?_eq_none_iff.mp hblk
      cases hps : s.perms with
      | nil => rw [hps] at hbud; simp at hbud
      | cons p pss =>
        have hpget : P0[b]? = some p := by
          have := List.getElem?_drop (xs := P0) (i := b) (j := 0)
          rw [← hperms, hps] at this
          simpa using this.symm
        have hpmem : p ∈ P0 := List.mem_of_getElem? hpget
        have hpp := hi.permsOK p hpmem
        have hplen : p.length = n := by rw [hpp.length_eq]; simp
        have hpne : p ≠ [] := by intro h; rw [h] at hplen; simp at hplen; omega
        obtain ⟨ys, hys⟩ := List.getLast?_eq_some_iff.mp (List.getLast?_eq_some_getLast hpne)
        generalize p.getLast hpne = i at hys
        have hil : i < n := by
          have : i ∈ p := by rw [hys]; simp
          exact List.mem_range.mp ((hpp.mem_iff).mp this)
        have hkey := nextKey_blocked_refill (pss := pss) hkind hord hc hb (by rw [hps, hys]) hil
        have hb1 : b < P0.length := by
          obtain ⟨h, _⟩ := List.getElem?_eq_some_iff.mp hpget; exact h
        refine BlockInv_after hi hc hil hkey ⟨b + 1, hb1, ?_, ?_⟩ ⟨?_, ?_⟩ ?_
        · show pss = P0.drop (b + 1)
          rw [List.drop_add_one_eq_tail_drop, ← hperms, hps]; rfl
        · show (s.added.map (·.key) ++ [i]) ++ ys.reverse = _
          rw [List.take_add_one, hpget, List.flatMap_append, ← hcat, hb, hys]
          simp
        · show ys.length < n
          rw [← hplen, hys]; simp
        · intro x hx
          have : x ∈ p := by rw [hys]; exact List.mem_append_left _ hx
          exact List.mem_range.mp ((hpp.mem_iff).mp this)
        · show m ≤ pss.length
          rw [hps] at hbud; simp only [List.length_cons] at hbud; omega
    | some i =>
      obtain ⟨ys, hys⟩ := List.getLast?_eq_some_iff.mp hblk
      have hil : i < n := hbmem i (by rw [hys]; simp)
      have hkey := nextKey_blocked_pop hkind hord hc hys hil
      refine BlockInv_after hi hc hil hkey ⟨b, hbl, hperms, ?_⟩ ⟨?_, ?_⟩ ?_
      · show (s.added.map (·.key) ++ [i]) ++ ys.reverse = _
        rw [← hcat, hys]; simp
      · show ys.length < n
        rw [hys] at hblen; simp at hblen; omega
      · intro x hx
        exact hbmem x (by rw [hys]; exact List.mem_append_left _ hx)
      · show m ≤ s.perms.length
        omega

end Psi.Queue
