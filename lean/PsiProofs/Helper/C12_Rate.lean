import PsiProofs.Helper.C12_Run
/-! `event_rate`: time base of the emitted blocks (the window counts themselves are checked by the
differential run and the oracle only — see notes/C12.md). -/
namespace Psi.Stages
variable {σ I O : Type}

/-- blocks `(2·s0, counts)`: the first starts at `t/2`, each starts where the previous ended -/
def ContigRate : Nat → List (Nat × List Nat) → Prop
  | _, [] => True
  | t, b :: bs => b.1 = t ∧ ContigRate (t + 2 * b.2.length) bs

theorem outputs_cons_ok {step : σ → I → Except Err (List O × σ)} {s : σ} {c : I} {cs : List I} {bs : List O}
    (h : outputs (runStage step s (c :: cs)) = .ok bs) :
    ∃ o s' bs', step s c = .ok (o, s') ∧ outputs (runStage step s' cs) = .ok bs' ∧ bs = o ++ bs' := by
  simp only [runStage] at h
  cases hs : step s c with
  | error e => simp [hs, outputs] at h
  | ok p =>
    obtain ⟨o, s'⟩ := p
    simp only [hs] at h
    cases hr : runStage step s' cs with
    | error e => simp [hr, outputs] at h
    | ok p' =>
      obtain ⟨os, s''⟩ := p'
      simp only [hr, outputs] at h
      refine ⟨o, s', os, rfl, by simp [outputs, hr], ?_⟩
      injection h with h; exact h.symm

theorem eventRate_contig (size step : Nat) : ∀ (es : List Ev) (st : RateSt) (bs : List (Nat × List Nat)),
    outputs (runStage (eventRateStep size step) (some st) es) = .ok bs → ContigRate st.s0x2 bs := by
  intro es
  induction es with
  | nil =>
    intro st bs h
    simp only [runStage, outputs] at h
    injection h with h; subst h; trivial
  | cons e es ih =>
    intro st bs h
    obtain ⟨o, s', bs', hstep, hrest, rfl⟩ := outputs_cons_ok h
    unfold eventRateStep at hstep
    split at hstep
    · cases hstep
    · simp only at hstep
      split at hstep
      · cases hstep
      · split at hstep
        · injection hstep with hstep
          injection hstep with h1 h2
          subst h1 h2
          have h3 := ih _ _ hrest
          exact h3
        · injection hstep with hstep
          injection hstep with h1 h2
          subst h1 h2
          have h3 := ih _ _ hrest
          exact ⟨rfl, h3⟩

end Psi.Stages
