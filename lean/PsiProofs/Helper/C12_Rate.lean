import PsiProofs.Helper.C12_Run
/-! `event_rate`: the whole-stream definition (`rateSpec`), the inner loop (`rateLoop_spec`) and the
run over an arbitrary chunking of a well-formed event stream (`eventRate_run`). -/
namespace Psi.Stages
variable {σ I O ρ χ μ : Type}

/-! ### the whole-stream definition -/

/-- is the event at sample `x` inside the window `[lo, lo + size)` -/
def inWin (size lo x : Nat) : Bool := lo ≤ x && x < lo + size

/-- number of windows `[a + j·step, a + j·step + size)` that the loop condition
`events.range_samples > block_size` completes when the known span is `[a, b)`:
`⌈(b - a - size) / step⌉`, see `nWindows_spec` -/
def nWindows (size step a b : Nat) : Nat := (b - (a + size) + (step - 1)) / step

/-- the event counts of the completed windows, computed from the whole stream: `all` lists every
event of the stream (in any order), `[a, b)` is its span -/
def rateSpec (size step a b : Nat) (all : List Nat) : List Nat :=
  (List.range (nWindows size step a b)).map fun j => all.countP (inWin size (a + j * step))

/-- exactly the windows with `start + size < end` (the `while` condition) are completed -/
theorem nWindows_spec {size step a b : Nat} (hs : 0 < step) (j : Nat) :
    j < nWindows size step a b ↔ a + j * step + size < b := by
  unfold nWindows
  rw [Nat.lt_iff_add_one_le, Nat.le_div_iff_mul_le hs, Nat.add_mul, Nat.one_mul]
  omega

theorem nWindows_unique {size step a b n : Nat} (hs : 0 < step)
    (h : ∀ j, j < n ↔ a + j * step + size < b) : n = nWindows size step a b := by
  have h1 := (not_congr (h n)).mp (Nat.lt_irrefl n)
  have h2 := (not_congr (nWindows_spec (size := size) (a := a) (b := b) hs (nWindows size step a b))).mp
    (Nat.lt_irrefl _)
  have h3 := (not_congr (nWindows_spec (size := size) (a := a) (b := b) hs n)).mpr h1
  have h4 := (not_congr (h (nWindows size step a b))).mpr h2
  omega

theorem nWindows_zero {size step a b : Nat} (hs : 0 < step) (h : ¬ a + size < b) :
    nWindows size step a b = 0 := by
  refine (nWindows_unique hs ?_).symm
  intro j
  have : 0 ≤ j * step := Nat.zero_le _
  constructor
  · intro h0; omega
  · intro h1; omega

theorem nWindows_succ {size step a b : Nat} (hs : 0 < step) (h : a + size < b) :
    nWindows size step a b = nWindows size step (a + step) b + 1 := by
  refine (nWindows_unique hs ?_).symm
  intro j
  cases j with
  | zero => simp; omega
  | succ j =>
    rw [Nat.add_lt_add_iff_right, nWindows_spec hs, Nat.add_mul, Nat.one_mul]
    omega

/-- more of the stream known: the windows completed before stay, new ones follow -/
theorem nWindows_split {size step a b c : Nat} (hs : 0 < step) (hbc : b ≤ c) :
    nWindows size step a c
      = nWindows size step a b + nWindows size step (a + nWindows size step a b * step) c := by
  refine (nWindows_unique hs ?_).symm
  intro j
  by_cases hj : j < nWindows size step a b
  · have := (nWindows_spec (size := size) (a := a) (b := b) hs j).mp hj
    constructor
    · intro _; omega
    · intro _; omega
  · have hj' : nWindows size step a b ≤ j := Nat.le_of_not_lt hj
    obtain ⟨k, rfl⟩ := Nat.exists_eq_add_of_le hj'
    rw [Nat.add_lt_add_iff_left, nWindows_spec hs, Nat.add_mul]
    omega

theorem nWindows_le {size step a b : Nat} (hs : 0 < step) : nWindows size step a b ≤ b - a := by
  apply Nat.le_of_not_lt
  intro h
  have h1 := (nWindows_spec (size := size) (a := a) (b := b) hs (b - a)).mp h
  have : b - a ≤ (b - a) * step := Nat.le_mul_of_pos_right _ hs
  omega

theorem rateSpec_split {size step a b c : Nat} (hs : 0 < step) (hbc : b ≤ c) (all : List Nat) :
    rateSpec size step a c all
      = (List.range (nWindows size step a b)).map (fun j => all.countP (inWin size (a + j * step)))
        ++ rateSpec size step (a + nWindows size step a b * step) c all := by
  unfold rateSpec
  rw [nWindows_split hs hbc, List.range_add, List.map_append, List.map_map]
  congr 1
  apply List.map_congr_left
  intro j _
  simp only [Function.comp, Nat.add_mul, Nat.add_assoc]

/-! ### the inner loop -/

theorem countP_congr' {p q : Nat → Bool} {l : List Nat} (h : ∀ x ∈ l, p x = q x) :
    l.countP p = l.countP q := by
  induction l with
  | nil => rfl
  | cons x l ih =>
    have hx := h x (by simp)
    have := ih (fun y hy => h y (by simp [hy]))
    simp only [List.countP_cons, hx, this]

/-- The loop completes exactly `nWindows` windows; the count of window `j` is the number of buffered
events inside it (in whatever order they are listed); the events that are kept are all that can fall
into a later window. -/
theorem rateLoop_spec (size step : Nat) (hs : 0 < step) (fs : ρ) :
    ∀ (fuel : Nat) (evs : List Nat) (a b : Nat), nWindows size step a b ≤ fuel → (∀ x ∈ evs, x < b) →
      ∃ evs', rateLoop size step fuel ⟨evs, a, b, fs⟩
          = ((List.range (nWindows size step a b)).map (fun j => evs.countP (inWin size (a + j * step))),
             ⟨evs', a + nWindows size step a b * step, b, fs⟩)
        ∧ (∀ x ∈ evs', x < b)
        ∧ (∀ lo, a + nWindows size step a b * step ≤ lo →
            evs'.countP (inWin size lo) = evs.countP (inWin size lo)) := by
  intro fuel
  induction fuel with
  | zero =>
    intro evs a b hf hlt
    have h0 : nWindows size step a b = 0 := Nat.le_zero.mp hf
    exact ⟨evs, by simp [rateLoop, h0], hlt, fun _ _ => rfl⟩
  | succ fuel ih =>
    intro evs a b hf hlt
    by_cases hc : a + size < b
    · have hn := nWindows_succ hs hc
      have hlt2 : ∀ x ∈ evs.filter (fun s => a + step ≤ s && s < b), x < b :=
        fun x hx => hlt x (List.mem_filter.mp hx).1
      obtain ⟨evs', hrun, hlt', hkeep⟩ := ih (evs.filter (fun s => a + step ≤ s && s < b)) (a + step) b
        (by omega) hlt2
      refine ⟨evs', ?_, hlt', ?_⟩
      · simp only [rateLoop, hc, if_true, Ev.range, hrun, hn, List.range_succ_eq_map, List.map_cons,
          List.map_map]
        congr 1
        · congr 1
          · rw [List.countP_eq_length_filter, Nat.zero_mul, Nat.add_zero]
            rfl
          · apply List.map_congr_left
            intro j _
            simp only [Function.comp, List.countP_filter]
            apply countP_congr'
            intro x hx
            have := hlt x hx
            simp only [inWin, Nat.succ_eq_add_one, Nat.add_mul, Nat.one_mul]
            have e : a + step + j * step = a + (j * step + step) := by omega
            rw [e]
            by_cases h1 : a + (j * step + step) ≤ x
            · have : a + step ≤ x := by omega
              simp [*]
            · simp [h1]
        · congr 1
          rw [Nat.add_mul, Nat.one_mul]; omega
      · intro lo hlo
        have hlo' : a + step + nWindows size step (a + step) b * step ≤ lo := by
          rw [hn, Nat.add_mul, Nat.one_mul] at hlo; omega
        rw [hkeep lo hlo', List.countP_filter]
        apply countP_congr'
        intro x hx
        have := hlt x hx
        simp only [inWin]
        by_cases h1 : lo ≤ x
        · have : a + step ≤ x := by omega
          simp [*]
        · simp [h1]
    · have h0 := nWindows_zero (size := size) (a := a) (b := b) hs hc
      exact ⟨evs, by simp [rateLoop, hc, h0], hlt, fun _ _ => rfl⟩

/-! ### well-formed event streams and their chunkings -/

/-- A chunking of an event stream: adjacent `Events` objects starting at `t` (empty spans allowed), all
with sampling rate `fs`, every event inside the span of the object that carries it.  The events of an
object may be listed in any order. -/
def WFEvents (fs : ρ) : Nat → List (Ev ρ) → Prop
  | _, [] => True
  | t, e :: es => e.start = t ∧ e.start ≤ e.stop ∧ e.fs = fs ∧ (∀ x ∈ e.events, e.start ≤ x ∧ x < e.stop)
      ∧ WFEvents fs e.stop es

/-- end of the stream -/
def endOf : Nat → List (Ev ρ) → Nat
  | t, [] => t
  | _, e :: es => endOf e.stop es

/-- every event of the stream (chunk after chunk, each in its listed order) -/
def allEvents (es : List (Ev ρ)) : List Nat := (es.map (·.events)).flatten

theorem WFEvents.le_endOf {fs : ρ} : ∀ {es : List (Ev ρ)} {t : Nat}, WFEvents fs t es → t ≤ endOf t es
  | [], _, _ => Nat.le_refl _
  | e :: es, t, h => by
    obtain ⟨h1, h2, _, _, h5⟩ := h
    have := WFEvents.le_endOf h5
    simp only [endOf]; omega

theorem WFEvents.ge_start {fs : ρ} : ∀ {es : List (Ev ρ)} {t : Nat}, WFEvents fs t es →
    ∀ x ∈ allEvents es, t ≤ x
  | [], _, _ => by simp [allEvents]
  | e :: es, t, h => by
    obtain ⟨h1, h2, _, h4, h5⟩ := h
    intro x hx
    simp only [allEvents, List.map_cons, List.flatten_cons, List.mem_append] at hx
    rcases hx with hx | hx
    · have := (h4 x hx).1; omega
    · have := WFEvents.ge_start h5 x hx; omega

theorem WFEvents.lt_endOf {fs : ρ} : ∀ {es : List (Ev ρ)} {t : Nat}, WFEvents fs t es →
    ∀ x ∈ allEvents es, x < endOf t es
  | [], _, _ => by simp [allEvents]
  | e :: es, t, h => by
    obtain ⟨h1, h2, _, h4, h5⟩ := h
    intro x hx
    simp only [allEvents, List.map_cons, List.flatten_cons, List.mem_append] at hx
    simp only [endOf]
    rcases hx with hx | hx
    · have := (h4 x hx).2
      have := WFEvents.le_endOf h5
      omega
    · exact WFEvents.lt_endOf h5 x hx

theorem countP_inWin_zero {size lo : Nat} {l : List Nat} (h : ∀ x ∈ l, lo + size ≤ x) :
    l.countP (inWin size lo) = 0 := by
  rw [List.countP_eq_zero]
  intro x hx
  have := h x hx
  simp [inWin]; omega

/-! ### the run -/

variable [DecidableEq ρ]

/-- one `send` in the running state -/
theorem eventRateStep_some (divFs : ρ → Nat → ρ) (chDef : χ) (mdEmpty : μ) (size step : Nat) (hs : 0 < step)
    (fs ofs : ρ) (evs : List Nat) (a b t : Nat) (e : Ev ρ) (hb : ∀ x ∈ evs, x < b)
    (he0 : e.start = b) (he1 : e.start ≤ e.stop) (hefs : e.fs = fs) (he2 : ∀ x ∈ e.events, x < e.stop) :
    ∃ evs', eventRateStep divFs chDef mdEmpty size step (some ⟨⟨evs, a, b, fs⟩, t, ofs⟩) e
        = .ok (if nWindows size step a e.stop = 0 then [] else
                [{ data := (List.range (nWindows size step a e.stop)).map
                      (fun j => (evs ++ e.events).countP (inWin size (a + j * step)))
                   s0 := (t : Int), ann := ⟨ofs, chDef, mdEmpty⟩ }],
               some ⟨⟨evs', a + nWindows size step a e.stop * step, e.stop, fs⟩,
                 t + 2 * nWindows size step a e.stop, ofs⟩)
      ∧ (∀ x ∈ evs', x < e.stop)
      ∧ (∀ lo, a + nWindows size step a e.stop * step ≤ lo →
          evs'.countP (inWin size lo) = (evs ++ e.events).countP (inWin size lo)) := by
  have hall : ∀ x ∈ evs ++ e.events, x < e.stop := by
    intro x hx
    rcases List.mem_append.mp hx with hx | hx
    · have := hb x hx; omega
    · exact he2 x hx
  obtain ⟨evs', hrun, hlt, hkeep⟩ := rateLoop_spec size step hs fs (e.stop - a) (evs ++ e.events) a e.stop
    (nWindows_le hs) hall
  refine ⟨evs', ?_, hlt, hkeep⟩
  have h0 : step ≠ 0 := Nat.ne_of_gt hs
  simp only [eventRateStep, h0, if_false, he0, hefs, ne_eq, not_true_eq_false, hrun, List.isEmpty_iff,
    List.map_eq_nil_iff, List.range_eq_nil, List.length_map, List.length_range]
  by_cases hz : nWindows size step a e.stop = 0
  · simp [hz]
  · simp [hz]

/-- The run from any running state over any well-formed continuation: what is emitted is the whole-stream
computation over the buffered events and everything that follows; blocks contiguous; annotations constant. -/
theorem eventRate_run (divFs : ρ → Nat → ρ) (chDef : χ) (mdEmpty : μ) (size step : Nat) (hs : 0 < step)
    (fs ofs : ρ) : ∀ (es : List (Ev ρ)) (evs : List Nat) (a b t : Nat), WFEvents fs b es →
      (∀ x ∈ evs, x < b) → (es = [] → ¬ a + size < b) →
      ∃ bs, outputs (runStage (eventRateStep divFs chDef mdEmpty size step) (some ⟨⟨evs, a, b, fs⟩, t, ofs⟩) es)
            = .ok bs
        ∧ Emits bs (rateSpec size step a (endOf b es) (evs ++ allEvents es)) 2 t ⟨ofs, chDef, mdEmpty⟩ := by
  intro es
  induction es with
  | nil =>
    intro evs a b t _ _ hdone
    refine ⟨[], rfl, ?_⟩
    have : rateSpec size step a (endOf b ([] : List (Ev ρ))) (evs ++ allEvents ([] : List (Ev ρ))) = [] := by
      simp [rateSpec, endOf, nWindows_zero hs (hdone rfl)]
    rw [this]; exact Emits.nil _ _ _
  | cons e es ih =>
    intro evs a b t hwf hb _
    obtain ⟨he0, he1, hefs, he2, hwf'⟩ := hwf
    obtain ⟨evs', hstep, hlt, hkeep⟩ := eventRateStep_some divFs chDef mdEmpty size step hs fs ofs evs a b t e hb
      he0 he1 hefs (fun x hx => (he2 x hx).2)
    have hdone' : es = [] → ¬ a + nWindows size step a e.stop * step + size < e.stop := by
      intro _ h
      have := (nWindows_spec (size := size) (a := a) (b := e.stop) hs (nWindows size step a e.stop)).mpr h
      omega
    have ih' := ih evs' (a + nWindows size step a e.stop * step) e.stop (t + 2 * nWindows size step a e.stop)
      hwf' hlt hdone'
    -- the whole-stream value splits into the windows completed now and the later ones
    have hle : e.stop ≤ endOf e.stop es := WFEvents.le_endOf hwf'
    have hspec : rateSpec size step a (endOf b (e :: es)) (evs ++ allEvents (e :: es))
        = (List.range (nWindows size step a e.stop)).map
            (fun j => (evs ++ e.events).countP (inWin size (a + j * step)))
          ++ rateSpec size step (a + nWindows size step a e.stop * step) (endOf e.stop es)
              (evs' ++ allEvents es) := by
      have hall : evs ++ allEvents (e :: es) = (evs ++ e.events) ++ allEvents es := by
        simp [allEvents]
      simp only [endOf]
      rw [rateSpec_split hs hle, hall]
      congr 1
      · apply List.map_congr_left
        intro j hj
        have hj' := (nWindows_spec (size := size) (a := a) (b := e.stop) hs j).mp (List.mem_range.mp hj)
        rw [List.countP_append, countP_inWin_zero (l := allEvents es), Nat.add_zero]
        intro x hx
        have := WFEvents.ge_start hwf' x hx
        omega
      · unfold rateSpec
        apply List.map_congr_left
        intro j _
        have hlo : a + nWindows size step a e.stop * step
            ≤ a + nWindows size step a e.stop * step + j * step := Nat.le_add_right _ _
        simp only [List.countP_append]
        rw [hkeep _ hlo, List.countP_append]
    rw [hspec]
    by_cases hz : nWindows size step a e.stop = 0
    · simp only [hz, if_true, Nat.mul_zero, Nat.add_zero, Nat.zero_mul] at hstep
      simp only [hz, List.range_zero, List.map_nil, List.nil_append, Nat.mul_zero, Nat.add_zero,
        Nat.zero_mul] at ih' ⊢
      exact run_emit_none hstep ih'
    · simp only [hz, if_false] at hstep
      refine run_emit_one _ hstep ih' rfl rfl ?_ rfl
      simp [PD.len]

/-! ### time base and annotations on any stream (well-formed or not) -/

theorem outputs_cons_ok {step : σ → I → Except Err (List O × σ)} {s : σ} {c : I} {cs : List I} {bs : List O}
    (h : outputs (runStage step s (c :: cs)) = .ok bs) :
    ∃ o s' bs', step s c = .ok (o, s') ∧ outputs (runStage step s' cs) = .ok bs' ∧ bs = o ++ bs' := by
  simp only [runStage] at h
  cases hs : step s c with
  | error e => simp [hs, outputs] at h
  | ok p =>
    obtain ⟨o, s'⟩ := p
    simp only [hs] at h
    cases hr : runStage step s' cs with
    | error e => simp [hr, outputs] at h
    | ok p' =>
      obtain ⟨os, s''⟩ := p'
      simp only [hr, outputs] at h
      refine ⟨o, s', os, rfl, by simp [outputs, hr], ?_⟩
      injection h with h; exact h.symm

theorem eventRate_contig (divFs : ρ → Nat → ρ) (chDef : χ) (mdEmpty : μ) (size step : Nat) :
    ∀ (es : List (Ev ρ)) (st : RateSt ρ) (bs : List (PD Nat ρ χ μ)),
    outputs (runStage (eventRateStep divFs chDef mdEmpty size step) (some st) es) = .ok bs →
      Contig 2 st.s0x2 bs ∧ ∀ b ∈ bs, b.ann = ⟨st.fs, chDef, mdEmpty⟩ := by
  intro es
  induction es with
  | nil =>
    intro st bs h
    simp only [runStage, outputs] at h
    injection h with h; subst h; exact ⟨trivial, by simp⟩
  | cons e es ih =>
    intro st bs h
    obtain ⟨o, s', bs', hstep, hrest, rfl⟩ := outputs_cons_ok h
    unfold eventRateStep at hstep
    split at hstep
    · cases hstep
    · simp only at hstep
      split at hstep
      · cases hstep
      · split at hstep
        · cases hstep
        · split at hstep
          · injection hstep with hstep
            injection hstep with h1 h2
            subst h1 h2
            have h3 := ih _ _ hrest
            exact h3
          · injection hstep with hstep
            injection hstep with h1 h2
            subst h1 h2
            obtain ⟨h3, h4⟩ := ih _ _ hrest
            refine ⟨⟨rfl, ?_⟩, ?_⟩
            · simpa [PD.len, Int.natCast_add, Int.natCast_mul] using h3
            · intro b hb
              rcases List.mem_cons.mp hb with rfl | hb
              · rfl
              · exact h4 b hb

end Psi.Stages
