import PsiModel.Stim
import PsiProofs.Helper.C01_Env
/-! Fragment theorems for `GateFactory.next`, `FixedWaveform.next`, `_sam_envelope`. -/
namespace Psi.Stim
open Psi.Chunk

variable {α : Type}

theorem zeroPrefix_getElem? [Sample α] (k : Nat) (l : List α) (i : Nat) :
    (zeroPrefix k l)[i]? = (l[i]?).map fun x => if i < k then Sample.zero else x := by
  unfold zeroPrefix
  by_cases hi : i < l.length
  · rw [List.getElem?_eq_getElem hi]
    by_cases hk : i < k
    · rw [List.getElem?_append_left (by simp; omega)]
      rw [List.getElem?_replicate, if_pos (by omega)]
      simp [hk]
    · rw [List.getElem?_append_right (by simp; omega)]
      simp only [List.length_replicate, List.getElem?_drop, Option.map_some, hk, if_false]
      have : k + (i - min k l.length) = i := by omega
      rw [this, List.getElem?_eq_getElem hi]
  · rw [List.getElem?_eq_none (by omega : l.length ≤ i)]
    apply List.getElem?_eq_none
    simp; omega

theorem zeroFrom_getElem? [Sample α] (k : Nat) (l : List α) (i : Nat) :
    (zeroFrom k l)[i]? = (l[i]?).map fun x => if i < k then x else Sample.zero := by
  unfold zeroFrom
  by_cases hi : i < l.length
  · rw [List.getElem?_eq_getElem hi]
    by_cases hk : i < k
    · rw [List.getElem?_append_left (by simp; omega)]
      simp [hk, hi]
    · rw [List.getElem?_append_right (by simp; omega)]
      simp only [List.getElem?_replicate, Option.map_some, hk, if_false]
      rw [if_pos (by simp; omega)]
  · rw [List.getElem?_eq_none (by omega : l.length ≤ i)]
    apply List.getElem?_eq_none
    simp; omega

theorem zeroPrefix_length [Sample α] (k : Nat) (l : List α) : (zeroPrefix k l).length = l.length := by
  simp [zeroPrefix]; omega

/-- **Fragment theorem for `GateFactory.next`**: sample `k` of the stream passes iff
`start ≤ k < start + dur`, whatever the chunking. -/
theorem gateMask_eq_applyAt [Sample α] (start dur off : Nat) (tok : List α) :
    gateMask start dur off tok = applyAt (gateAt start dur) off tok := by
  apply List.ext_getElem?
  intro i
  rw [applyAt_getElem?]
  unfold gateMask
  simp only []
  by_cases hub : (start : Int) - off + dur > 0
  · rw [if_pos hub, zeroFrom_getElem?]
    by_cases hlb : (start : Int) - off ≥ 0
    · rw [if_pos hlb, zeroPrefix_getElem?]
      cases tok[i]? with
      | none => rfl
      | some x =>
        simp only [Option.map_some, gateAt]
        by_cases c1 : i < ((start : Int) - off).toNat <;>
          by_cases c2 : i < ((start : Int) - off + dur).toNat <;>
          by_cases c3 : (start ≤ off + i ∧ off + i < start + dur) <;>
          simp only [c1, c2, c3, if_true, if_false] <;> first | rfl | (exfalso; omega)
    · rw [if_neg hlb]
      cases tok[i]? with
      | none => rfl
      | some x =>
        simp only [Option.map_some, gateAt]
        by_cases c2 : i < ((start : Int) - off + dur).toNat <;>
          by_cases c3 : (start ≤ off + i ∧ off + i < start + dur) <;>
          simp only [c2, c3, if_true, if_false] <;> first | rfl | (exfalso; omega)
  · rw [if_neg hub, List.getElem?_replicate]
    by_cases hlb : (start : Int) - off ≥ 0
    · rw [if_pos hlb, zeroPrefix_length]
      by_cases hi : i < tok.length
      · rw [if_pos hi, List.getElem?_eq_getElem hi]
        simp only [Option.map_some, gateAt]
        rw [if_neg (by omega)]
      · rw [if_neg hi, List.getElem?_eq_none (by omega)]; rfl
    · rw [if_neg hlb]
      by_cases hi : i < tok.length
      · rw [if_pos hi, List.getElem?_eq_getElem hi]
        simp only [Option.map_some, gateAt]
        rw [if_neg (by omega)]
      · rw [if_neg hi, List.getElem?_eq_none (by omega)]; rfl

/-- **Fragment theorem for `FixedWaveform.next`** (chunks past the end included). -/
theorem fixedNext_eq_slice [Sample α] (w : List α) (off n : Nat) :
    fixedNext w off n = slice (fixedAt w) off n := by
  have hw : (w.take (off + n)).drop off = seg w off n := by
    simp only [seg, Int.toNat_natCast]
    rw [List.drop_take]
    congr 1
    omega
  have hlen := seg_length w (off : Int) n
  simp only [Int.toNat_natCast] at hlen
  have key := window_pad_eq_slice w (Sample.zero : α) (fixedAt w)
    (by intro k hk; simp [fixedAt, List.getElem?_eq_getElem hk])
    (by intro k hk; simp [fixedAt, List.getElem?_eq_none hk]) off n
  unfold fixedNext
  simp only []
  rw [hw]
  split
  · exact key
  · rename_i hlt
    rw [← key]
    have : n - (seg w (off : Int) n).length = 0 := by omega
    rw [this]
    simp

/-- **Fragment theorem for `_sam_envelope`** (with fix 2): one during the delay, then the
modulator evaluated at the time since the modulation onset. -/
theorem samEnvelope_eq_slice [Sample α] (sam : Int → α) (delay off n : Nat) :
    samEnvelope sam delay off n = slice (samAt sam delay) off n := by
  apply List.ext_getElem?
  intro i
  rw [slice_getElem?]
  unfold samEnvelope
  simp only []
  have hclip : clip ((delay : Int) - off) 0 n = ((min n (delay - off) : Nat) : Int) := by
    unfold clip; omega
  rw [hclip]
  simp only [Int.toNat_natCast]
  have hs : ((n : Int) - ((min n (delay - off) : Nat) : Int)).toNat = n - min n (delay - off) := by omega
  rw [hs]
  by_cases hi : i < n
  · rw [if_pos hi]
    by_cases hd : i < min n (delay - off)
    · rw [List.getElem?_append_left (by simpa using hd)]
      simp only [List.getElem?_replicate, hd, if_true, samAt]
      rw [if_pos (by omega)]
    · rw [List.getElem?_append_right (by simpa using hd)]
      simp only [List.length_replicate, List.getElem?_map]
      have : i - min n (delay - off) < n - min n (delay - off) := by omega
      rw [List.getElem?_range this]
      simp only [Option.map_some, samAt]
      rw [if_neg (by omega)]
      congr 2
      omega
  · rw [if_neg hi]
    apply List.getElem?_eq_none
    simp; omega

end Psi.Stim
