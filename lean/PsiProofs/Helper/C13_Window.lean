import PsiModel.Edges
import PsiProofs.C18
/-!
C13, window level: what one `step` emits on the joined array `W = prior ++ chunk`, expressed through
the transitions of `W` — under the hypothesis that these transitions are more than `m` apart.
-/
set_option linter.unusedSimpArgs false
namespace Psi.Edges
open Psi.Epochs

/-- transitions strictly inside a window (the first sample has no predecessor in the window) -/
def wEdges (s0 : Int) : List Bool → List Event
  | [] => []
  | b :: xs => edgesOf b (s0 + 1) xs

/-- "more than `m` samples apart, in order" -/
def Gap (m : Nat) (a b : Event) : Prop := a.sample + m < b.sample

theorem runs_events_aux : ∀ (xs : List Bool) (pos len : Nat) (s0 : Int),
    1 ≤ pos → len = pos + xs.length →
    ((toIntPairs (runsAux pos none xs)).flatMap (evOfRun .both s0 len)
        = edgesOf false (pos + s0) xs) ∧
    (∀ s : Nat, (toIntPairs (runsAux pos (some s) xs)).flatMap (evOfRun .both s0 len)
        = (if 0 < s then [Event.mk .rising (s + s0)] else []) ++ edgesOf true (pos + s0) xs) := by
  intro xs
  induction xs with
  | nil =>
    intro pos len s0 hpos hlen
    simp only [List.length_nil, Nat.add_zero] at hlen
    subst hlen
    refine ⟨by simp [runsAux, toIntPairs, edgesOf], ?_⟩
    intro s
    simp [runsAux, toIntPairs, edgesOf, evOfRun, Detect.wantsRising, Detect.wantsFalling]
  | cons b xs ih =>
    intro pos len s0 hpos hlen
    have hlen' : len = (pos + 1) + xs.length := by simp at hlen; omega
    obtain ⟨ih1, ih2⟩ := ih (pos + 1) len s0 (by omega) hlen'
    have hc : ((pos + 1 : Nat) : Int) + s0 = (pos : Int) + s0 + 1 := by omega
    rw [hc] at ih1 ih2
    cases b
    · refine ⟨?_, ?_⟩
      · simp only [runsAux, edgesOf]
        rw [ih1]; simp
      · intro s
        have hlt : (pos : Int) < (len : Int) := by omega
        simp only [runsAux, edgesOf, toIntPairs, List.map_cons, List.flatMap_cons]
        have := ih1
        simp only [toIntPairs] at this
        rw [this]
        simp [evOfRun, Detect.wantsRising, Detect.wantsFalling, hlt]
    · refine ⟨?_, ?_⟩
      · simp only [runsAux, edgesOf]
        rw [ih2 pos]
        have : 0 < pos := by omega
        simp [this]
      · intro s
        simp only [runsAux, edgesOf]
        rw [ih2 s]; simp

/-- the borders-suppressed edge list of all runs of a window = the transitions inside the window -/
theorem runs_events (W : List Bool) (s0 : Int) :
    (toIntPairs (maximalRuns W)).flatMap (evOfRun .both s0 W.length) = wEdges s0 W := by
  cases W with
  | nil => rfl
  | cons b xs =>
    obtain ⟨h1, h2⟩ := runs_events_aux xs 1 (b :: xs).length s0 (by omega) (by simp; omega)
    have hc : ((1 : Nat) : Int) + s0 = s0 + 1 := by omega
    rw [hc] at h1 h2
    cases b
    · simpa [maximalRuns, runsAux, wEdges] using h1
    · simpa [maximalRuns, runsAux, wEdges] using h2 0

theorem flatMap_congr_mem {α β} {l : List α} {f g : α → List β} (h : ∀ a ∈ l, f a = g a) :
    l.flatMap f = l.flatMap g := by
  induction l with
  | nil => rfl
  | cons a as ih =>
    simp only [List.flatMap_cons]
    rw [h a List.mem_cons_self, ih (fun b hb => h b (List.mem_cons_of_mem _ hb))]

theorem flatMap_filter_eq {α β} (p : α → Bool) (f : α → List β) (l : List α) :
    (l.filter p).flatMap f = l.flatMap (fun a => if p a then f a else []) := by
  induction l with
  | nil => rfl
  | cons a as ih =>
    by_cases h : p a <;> simp [h, ih]

/-- joining gaps `≤ d` does nothing when all gaps exceed `d` -/
theorem joinGo_id (d : Int) : ∀ (rest : List (Int × Int)) (lb ub : Int),
    ((lb, ub) :: rest).Pairwise (fun p q => p.2 + d < q.1) →
    joinGo d lb ub rest = (lb, ub) :: rest := by
  intro rest
  induction rest with
  | nil => intro lb ub _; rfl
  | cons p ps ih =>
    intro lb ub h
    obtain ⟨a, b⟩ := p
    have h1 := List.pairwise_cons.mp h
    have hab : ub + d < a := h1.1 (a, b) List.mem_cons_self
    have : ¬ (a - ub ≤ d) := by omega
    simp only [joinGo, this, if_false]
    rw [ih a b h1.2]

theorem joinGaps_id (d : Int) (k : List (Int × Int))
    (h : k.Pairwise (fun p q => p.2 + d < q.1)) : joinGaps d k = k := by
  cases k with
  | nil => rfl
  | cons p ps => obtain ⟨a, b⟩ := p; exact joinGo_id d ps a b h

/-- bounds of the runs of a window, as integer pairs -/
theorem runs_bounds (W : List Bool) : ∀ r ∈ toIntPairs (maximalRuns W),
    0 ≤ r.1 ∧ r.1 < r.2 ∧ r.2 ≤ (W.length : Int) := by
  intro r hr
  obtain ⟨q, hq, rfl⟩ := List.mem_map.mp hr
  obtain ⟨h1, h2, _⟩ := maximalRuns_sound W q hq
  simp only; omega

/-- the selection made by chunk `(s0, n)`: a rising edge at `p` is reported iff `s0 < p ≤ s0 + n`,
a falling edge iff `s0 + m ≤ p < s0 + m + n` (and the detect mode wants it). -/
def sel (det : Detect) (m : Nat) (s0 : Int) (n : Nat) (ev : Event) : Bool :=
  det.wants ev.kind &&
  match ev.kind with
  | .rising => decide (s0 < ev.sample) && decide (ev.sample ≤ s0 + n)
  | .falling => decide (s0 + m ≤ ev.sample) && decide (ev.sample < s0 + m + n)

theorem evOfRun_sel (det : Detect) (m n len : Nat) (s0 : Int) (r : Int × Int)
    (hlen : len = m + n) (h0 : 0 ≤ r.1) (h1 : r.1 < r.2) (h2 : r.2 ≤ (len : Int))
    (hint : 0 < r.1 → r.2 < (len : Int) → r.1 + m < r.2) :
    (if decide (r.2 - r.1 ≥ (m : Int)) then evOfRun det s0 len r else [])
      = (evOfRun .both s0 len r).filter (sel det m s0 n) := by
  subst hlen
  obtain ⟨a, b⟩ := r
  simp only at h0 h1 h2 hint ⊢
  by_cases hk : b - a ≥ (m : Int)
  · by_cases ha : a > 0 <;> by_cases hb : b < (m : Int) + (n : Int)
    · have e1 : decide (a + s0 ≤ s0 + (n : Int)) = true := by simp; omega
      have e2 : decide (s0 < a + s0) = true := by simp; omega
      have e3 : decide (s0 + (m : Int) ≤ b + s0) = true := by simp; omega
      have e4 : decide (b + s0 < s0 + (m : Int) + (n : Int)) = true := by simp; omega
      cases det <;>
        simp [evOfRun, sel, hk, ha, hb, Detect.wantsRising, Detect.wantsFalling, Detect.wants,
          e1, e2, e3, e4]
    · have e1 : decide (a + s0 ≤ s0 + (n : Int)) = true := by simp; omega
      have e2 : decide (s0 < a + s0) = true := by simp; omega
      cases det <;>
        simp [evOfRun, sel, hk, ha, hb, Detect.wantsRising, Detect.wantsFalling, Detect.wants,
          e1, e2]
    · have e3 : decide (s0 + (m : Int) ≤ b + s0) = true := by simp; omega
      have e4 : decide (b + s0 < s0 + (m : Int) + (n : Int)) = true := by simp; omega
      cases det <;>
        simp [evOfRun, sel, hk, ha, hb, Detect.wantsRising, Detect.wantsFalling, Detect.wants,
          e3, e4]
    · cases det <;>
        simp [evOfRun, sel, hk, ha, hb, Detect.wantsRising, Detect.wantsFalling, Detect.wants]
  · by_cases ha : a > 0 <;> by_cases hb : b < (m : Int) + (n : Int)
    · exfalso; have := hint ha (by omega); omega
    · have e1 : decide (a + s0 ≤ s0 + (n : Int)) = false := by simp; omega
      cases det <;>
        simp [evOfRun, sel, hk, ha, hb, Detect.wantsRising, Detect.wantsFalling, Detect.wants, e1]
    · have e3 : decide (s0 + (m : Int) ≤ b + s0) = false := by simp; omega
      cases det <;>
        simp [evOfRun, sel, hk, ha, hb, Detect.wantsRising, Detect.wantsFalling, Detect.wants, e3]
    · simp [evOfRun, hk, ha, hb]

/-- consequences of "transitions of the window are more than `m` apart" for its runs -/
theorem runs_gaps (W : List Bool) (s0 : Int) (m : Nat)
    (H : (wEdges s0 W).Pairwise (Gap m)) :
    (toIntPairs (maximalRuns W)).Pairwise (fun p q => p.2 + (m : Int) < q.1) ∧
    (∀ r ∈ toIntPairs (maximalRuns W), 0 < r.1 → r.2 < (W.length : Int) → r.1 + m < r.2) := by
  rw [← runs_events W s0, List.pairwise_flatMap] at H
  obtain ⟨Hin, Hcross⟩ := H
  have hb := runs_bounds W
  have hsd := (maximalRuns_sortedDisjoint W).2
  refine ⟨?_, ?_⟩
  · refine List.Pairwise.imp_of_mem ?_ (Hcross.and hsd)
    intro p q hp hq ⟨hx, hlt⟩
    have bp := hb p hp
    have bq := hb q hq
    have h1 : Event.mk .falling (p.2 + s0) ∈ evOfRun .both s0 W.length p := by
      have : p.2 < (W.length : Int) := by omega
      simp [evOfRun, Detect.wantsFalling, this]
    have h2 : Event.mk .rising (q.1 + s0) ∈ evOfRun .both s0 W.length q := by
      have : q.1 > 0 := by omega
      simp [evOfRun, Detect.wantsRising, this]
    have := hx _ h1 _ h2
    simp only [Gap] at this
    omega
  · intro r hr h1 h2
    have := Hin r hr
    have h1' : r.1 > 0 := h1
    simp [evOfRun, Detect.wantsRising, Detect.wantsFalling, h1', h2, Gap] at this
    omega

/-- **One step of the detector**, when the transitions inside the joined array are more than `m`
apart: it never raises, carries the last `m` samples, and emits exactly the transitions of the
joined array selected by `sel` (rising: `s0 < p ≤ s0 + n`; falling: `s0 + m ≤ p < s0 + m + n`). -/
theorem step_events (m n : Nat) (det : Detect) (st : State) (chunk : List Bool)
    (hm : st.prior.length = m) (hn : chunk.length = n)
    (H : (wEdges st.s0 (st.prior ++ chunk)).Pairwise (Gap m)) :
    step m det st chunk = .ok
      (⟨(st.prior ++ chunk).drop ((st.prior ++ chunk).length - m), st.s0 + n⟩,
       ⟨(wEdges st.s0 (st.prior ++ chunk)).filter (sel det m st.s0 n), st.s0, st.s0 + n⟩) := by
  have hlen : (st.prior ++ chunk).length = m + n := by simp [hm, hn]
  obtain ⟨H1, H2⟩ := runs_gaps _ _ _ H
  have hdeb : debounceEpochs (toIntPairs (maximalRuns (st.prior ++ chunk))) (m : Int)
      = (toIntPairs (maximalRuns (st.prior ++ chunk))).filter
          (fun r => decide (r.2 - r.1 ≥ (m : Int))) := by
    have hsd : SortedDisjoint (toIntPairs (maximalRuns (st.prior ++ chunk))) :=
      maximalRuns_sortedDisjoint _
    rw [debounce_spec _ (m : Int) hsd (Int.natCast_nonneg m)]
    exact joinGaps_id _ _ (H1.filter _)
  have hev : blockEvents det st.s0 (st.prior ++ chunk).length
      ((toIntPairs (maximalRuns (st.prior ++ chunk))).filter (fun r => decide (r.2 - r.1 ≥ (m : Int))))
      = (wEdges st.s0 (st.prior ++ chunk)).filter (sel det m st.s0 n) := by
    rw [← runs_events (st.prior ++ chunk) st.s0, List.filter_flatMap]
    unfold blockEvents
    rw [flatMap_filter_eq]
    apply flatMap_congr_mem
    intro r hr
    obtain ⟨b0, b1, b2⟩ := runs_bounds _ r hr
    exact evOfRun_sel det m n _ st.s0 r hlen b0 b1 b2 (H2 r hr)
  unfold step
  simp only [epochs_eq_runs, hdeb, hev, hn]

end Psi.Edges
