import PsiProofs.Helper.C16_DftThms
/-!
C16: the windowed tone law for **every cosine-sum window** (periodic form, as `scipy.signal.get_window`
returns it with its default `fftbins=True`), and `psd` with any averaging count and any number of
trimmed trailing samples.

`cosWin a (M+1) n j = Σ_{m ≤ M} a_m cos(m·fac_j)`, `fac_j = -π + 2πj/n`, i.e. `Σ_m (-1)^m a_m cos(2π m j/n)`.
Multiplying a tone of `k` whole cycles by `cos(2π m j/n)` gives half the tones of `k+m` and `k-m` cycles, none of
which falls on bin `k` unless `m = 0`; the mean of the window is `a_0`.  Only this structure is used: the
coefficient values do not matter except `a_0 ≠ 0`.
-/
open Finset

namespace Psi.Db

/-! ### the window as a trigonometric sum -/

theorem cosFac_eq (n j : ℕ) : (cosFac n j : ℝ) = 2 * Real.pi * j / n - Real.pi := by
  simp only [cosFac, nat_real, pi_real]
  ring

theorem cos_nat_mul_cosFac (n j m : ℕ) :
    Real.cos ((m : ℝ) * cosFac n j) = (-1) ^ m * Real.cos (2 * Real.pi * m * j / n) := by
  rw [cosFac_eq]
  have e : (m : ℝ) * (2 * Real.pi * j / n - Real.pi) = 2 * Real.pi * m * j / n - m * Real.pi := by ring
  rw [e, Real.cos_sub_nat_mul_pi]

/-- SciPy's `Σ a_m cos(m·fac)` is the textbook `Σ (-1)^m a_m cos(2π m j/n)` -/
theorem cosWin_eq (a : ℕ → ℝ) (T n j : ℕ) :
    cosWin a T n j = ∑ m ∈ range T, (-1) ^ m * a m * Real.cos (2 * Real.pi * m * j / n) := by
  simp only [cosWin, sumTo_eq, cos_real, nat_real, cos_nat_mul_cosFac]
  exact Finset.sum_congr rfl fun m _ => by ring

theorem sum_cos_nat (n m : ℕ) (hn : 0 < n) :
    ∑ j ∈ range n, Real.cos (2 * Real.pi * m * j / n) = if (n : ℤ) ∣ (m : ℤ) then (n : ℝ) else 0 := by
  have e : ∀ j : ℕ, Real.cos (2 * Real.pi * m * j / n)
      = Real.cos (2 * Real.pi * ((m : ℤ) : ℝ) * j / n + 0) := by
    intro j
    congr 1
    push_cast
    ring
  simp_rw [e]
  rw [C16.sum_cos_shift n hn]
  simp

/-- the mean of a cosine-sum window with fewer terms than samples is its constant coefficient -/
theorem cosWin_mean (a : ℕ → ℝ) (M n : ℕ) (hM : M < n) : meanTo n (cosWin a (M + 1) n) = a 0 := by
  have hn : 0 < n := by omega
  have hn' : (n : ℝ) ≠ 0 := Nat.cast_ne_zero.2 hn.ne'
  rw [meanTo_eq]
  simp_rw [cosWin_eq]
  rw [Finset.sum_comm]
  have h : ∀ m ∈ range (M + 1),
      ∑ j ∈ range n, (-1) ^ m * a m * Real.cos (2 * Real.pi * m * j / n)
        = if m = 0 then (n : ℝ) * a 0 else 0 := by
    intro m hm
    have hm' : m < M + 1 := Finset.mem_range.1 hm
    rw [← Finset.mul_sum, sum_cos_nat n m hn]
    by_cases h0 : m = 0
    · subst h0
      simp
      ring
    · have : ¬ (n : ℤ) ∣ (m : ℤ) :=
        C16.not_dvd_of_abs_lt n m (by exact_mod_cast h0) (by omega) (by omega)
      rw [if_neg this, if_neg h0, mul_zero]
  rw [Finset.sum_congr rfl h, Finset.sum_ite_eq' (range (M + 1)) 0, if_pos (Finset.mem_range.2 (by omega))]
  field_simp

/-! ### a windowed tone is a sum of shifted tones -/

theorem cos_mul_tone (n k m j : ℕ) (A p : ℝ) (hm : m ≤ k) :
    Real.cos (2 * Real.pi * m * j / n) * toneSig n k A p j
      = 1 / 2 * (toneSig n (k + m) A p j + toneSig n (k - m) A p j) := by
  rw [toneSig_eq, toneSig_eq, toneSig_eq, Nat.cast_sub hm, Nat.cast_add]
  have e1 : 2 * Real.pi * ((k : ℝ) + (m : ℝ)) * j / n + p
      = (2 * Real.pi * k * j / n + p) + 2 * Real.pi * m * j / n := by ring
  have e2 : 2 * Real.pi * ((k : ℝ) - (m : ℝ)) * j / n + p
      = (2 * Real.pi * k * j / n + p) - 2 * Real.pi * m * j / n := by ring
  rw [e1, e2]
  generalize 2 * Real.pi * k * j / n + p = x
  generalize 2 * Real.pi * m * j / n = y
  rw [Real.cos_add, Real.cos_sub]
  ring

/-- `w/w.mean()*s` for a cosine-sum window and a whole-cycle tone -/
theorem cosWin_tone (a : ℕ → ℝ) (M n k : ℕ) (A p : ℝ) (hM : M < n) (hk : M ≤ k) (j : ℕ) :
    applyWindow (meanTo n (cosWin a (M + 1) n)) (cosWin a (M + 1) n) (toneSig n k A p) j
      = ∑ m ∈ range (M + 1),
          ((-1) ^ m * a m / a 0 / 2) * (toneSig n (k + m) A p j + toneSig n (k - m) A p j) := by
  rw [applyWindow, cosWin_mean a M n hM, cosWin_eq, Finset.sum_div, Finset.sum_mul]
  refine Finset.sum_congr rfl fun m hm => ?_
  have hm' : m ≤ k := by have := Finset.mem_range.1 hm; omega
  have h := cos_mul_tone n k m j A p hm'
  calc (-1) ^ m * a m * Real.cos (2 * Real.pi * m * j / n) / a 0 * toneSig n k A p j
      = ((-1) ^ m * a m / a 0) * (Real.cos (2 * Real.pi * m * j / n) * toneSig n k A p j) := by ring
    _ = _ := by rw [h]; ring

/-! ### linearity of the DFT bin (through Mathlib's `ℂ`) -/

theorem toC_inj {z z' : Cx ℝ} (h : toC z = toC z') : z = z' := by
  cases z
  cases z'
  simp only [toC, Complex.mk.injEq] at h
  rw [h.1, h.2]

theorem toC_dftBin_sum (n T : ℕ) (f : ℕ → ℕ → ℝ) (k : ℕ) :
    toC (dftBin n (fun j => ∑ m ∈ range T, f m j) k) = ∑ m ∈ range T, toC (dftBin n (f m) k) := by
  simp only [toC_dftBin]
  rw [Finset.sum_comm]
  refine Finset.sum_congr rfl fun j _ => ?_
  rw [Complex.ofReal_sum, Finset.sum_mul]

theorem toC_dftBin_smul (n : ℕ) (c : ℝ) (s : ℕ → ℝ) (k : ℕ) :
    toC (dftBin n (fun j => c * s j) k) = (c : ℂ) * toC (dftBin n s k) := by
  simp only [toC_dftBin, Finset.mul_sum]
  refine Finset.sum_congr rfl fun j _ => ?_
  push_cast
  ring

theorem toC_dftBin_add (n : ℕ) (s t : ℕ → ℝ) (k : ℕ) :
    toC (dftBin n (fun j => s j + t j) k) = toC (dftBin n s k) + toC (dftBin n t k) := by
  simp only [toC_dftBin, ← Finset.sum_add_distrib]
  refine Finset.sum_congr rfl fun j _ => ?_
  push_cast
  ring

theorem toC_dftBin_tone_other (n k m : ℕ) (A p : ℝ) (hk : 0 < k) (hkn : 2 * k < n)
    (hm : 2 * m ≤ n) (hmk : m ≠ k) : toC (dftBin n (toneSig n k A p) m) = 0 := by
  obtain ⟨hre, him⟩ := dftBin_tone_other n k m A p hk hkn hm hmk
  apply Complex.ext
  · rw [toC_re, hre]; rfl
  · rw [toC_im, him]; rfl

/-- **The window does not change the reading at the tone's own bin**: the DFT bin `k` of the windowed,
mean-normalised tone equals the DFT bin `k` of the tone, for every cosine-sum window with `M + 1` coefficients,
`a_0 ≠ 0`, `M < k < n/2 - M`. -/
theorem dftBin_cosWin_tone (a : ℕ → ℝ) (M n k : ℕ) (A p : ℝ) (ha : a 0 ≠ 0) (hk : M < k)
    (hkn : 2 * (k + M) < n) :
    dftBin n (applyWindow (meanTo n (cosWin a (M + 1) n)) (cosWin a (M + 1) n) (toneSig n k A p)) k
      = dftBin n (toneSig n k A p) k := by
  have hM : M < n := by omega
  rw [dftBin_congr n _ _ k fun j _ => cosWin_tone a M n k A p hM hk.le j]
  apply toC_inj
  rw [toC_dftBin_sum]
  rw [Finset.sum_eq_single 0]
  · rw [toC_dftBin_smul, toC_dftBin_add]
    simp only [Nat.add_zero, Nat.sub_zero, pow_zero, one_mul]
    rw [div_self ha]
    push_cast
    ring
  · intro m hm h0
    have hm' : m < M + 1 := Finset.mem_range.1 hm
    rw [toC_dftBin_smul, toC_dftBin_add,
      toC_dftBin_tone_other n (k + m) k A p (by omega) (by omega) (by omega) (by omega),
      toC_dftBin_tone_other n (k - m) k A p (by omega) (by omega) (by omega) (by omega)]
    simp
  · intro h
    exact absurd (Finset.mem_range.2 (Nat.succ_pos M)) h

/-- `util.csd(s, window=w)` at the tone's bin equals `util.csd(s)` there -/
theorem csdW_cosWin_tone_eq (a : ℕ → ℝ) (M n k : ℕ) (A p : ℝ) (ha : a 0 ≠ 0) (hk : M < k)
    (hkn : 2 * (k + M) < n) :
    csdW n (cosWin a (M + 1) n) (toneSig n k A p) k = csd n (toneSig n k A p) k := by
  show csd n _ k = _
  rw [csd, csd, dftBin_cosWin_tone a M n k A p ha hk hkn]

theorem csdW_cosWin_tone_bin (a : ℕ → ℝ) (M n k : ℕ) (A p : ℝ) (ha : a 0 ≠ 0) (hk : M < k)
    (hkn : 2 * (k + M) < n) :
    (csdW n (cosWin a (M + 1) n) (toneSig n k A p) k).re = A * Real.cos p
    ∧ (csdW n (cosWin a (M + 1) n) (toneSig n k A p) k).im = A * Real.sin p := by
  rw [csdW_cosWin_tone_eq a M n k A p ha hk hkn]
  exact csd_tone_bin n k A p (by omega) (by omega)

/-- `util.tone_conv(s, fs, k·fs/n, window=w)` of a whole-cycle tone equals the unwindowed estimator -/
theorem toneConvW_cosWin_tone_eq (a : ℕ → ℝ) (M n k : ℕ) (A p fs : ℝ) (hfs : fs ≠ 0) (ha : a 0 ≠ 0)
    (hk : M < k) (hkn : 2 * (k + M) < n) :
    toneConvW n (cosWin a (M + 1) n) (toneSig n k A p) fs (k * fs / n)
      = toneConv n (toneSig n k A p) fs (k * fs / n) := by
  have hn : 0 < n := by omega
  have hre : (toneConvW n (cosWin a (M + 1) n) (toneSig n k A p) fs (k * fs / n)).re
      = (toneConv n (toneSig n k A p) fs (k * fs / n)).re := by
    rw [toneConvW, toneConv_re_eq n k _ fs hfs hn, toneConv_re_eq n k _ fs hfs hn,
      dftBin_cosWin_tone a M n k A p ha hk hkn]
  have him : (toneConvW n (cosWin a (M + 1) n) (toneSig n k A p) fs (k * fs / n)).im
      = (toneConv n (toneSig n k A p) fs (k * fs / n)).im := by
    rw [toneConvW, toneConv_im_eq n k _ fs hfs hn, toneConv_im_eq n k _ fs hfs hn,
      dftBin_cosWin_tone a M n k A p ha hk hkn]
  cases hx : toneConvW n (cosWin a (M + 1) n) (toneSig n k A p) fs (k * fs / n)
  cases hy : toneConv n (toneSig n k A p) fs (k * fs / n)
  rw [hx, hy] at hre him
  simp only at hre him
  rw [hre, him]

/-! ### SciPy's windows -/

theorem CosWindow.terms_pos (w : CosWindow) : w.terms = (w.terms - 1) + 1 := by
  cases w <;> rfl

theorem CosWindow.coef_zero_ne (w : CosWindow) : (w.coef 0 : ℝ) ≠ 0 := by
  cases w <;> simp [CosWindow.coef, genHammingCoef]

theorem CosWindow.window_eq (w : CosWindow) (n : ℕ) :
    (w.window n : ℕ → ℝ) = cosWin w.coef ((w.terms - 1) + 1) n := by
  rw [CosWindow.window, ← w.terms_pos]

/-- SciPy's periodic Hann window is the `1/2 - 1/2 cos(2πj/n)` of `csd_hann_tone` -/
theorem hann_window_eq (n j : ℕ) : (CosWindow.hann.window n : ℕ → ℝ) j = hannW n j := by
  rw [CosWindow.window, cosWin_eq, hannW_apply]
  simp [CosWindow.terms, CosWindow.coef, genHammingCoef, Finset.sum_range_succ]
  ring_nf

/-- SciPy's periodic Hamming window: `0.54 - 0.46 cos(2πj/n)` -/
theorem hamming_window_eq (n j : ℕ) :
    (CosWindow.hamming.window n : ℕ → ℝ) j = 54 / 100 - 46 / 100 * Real.cos (2 * Real.pi * j / n) := by
  rw [CosWindow.window, cosWin_eq]
  simp [CosWindow.terms, CosWindow.coef, genHammingCoef, Finset.sum_range_succ]
  ring_nf

/-- SciPy's periodic Blackman window: `0.42 - 0.5 cos(2πj/n) + 0.08 cos(4πj/n)` -/
theorem blackman_window_eq (n j : ℕ) :
    (CosWindow.blackman.window n : ℕ → ℝ) j
      = 42 / 100 - 50 / 100 * Real.cos (2 * Real.pi * j / n)
        + 8 / 100 * Real.cos (2 * Real.pi * 2 * j / n) := by
  rw [CosWindow.window, cosWin_eq]
  simp [CosWindow.terms, CosWindow.coef, Finset.sum_range_succ]
  ring_nf

/-! ### `psd`: any averaging count, any number of trimmed trailing samples -/

theorem trimLen_div (n avg e : ℕ) (he : e < avg) : trimLen (avg * n + e) avg / avg = n := by
  have havg : 0 < avg := by omega
  have h1 : (avg * n + e) / avg = n := by
    rw [Nat.mul_add_div havg, Nat.div_eq_of_lt he, Nat.add_zero]
  rw [trimLen, h1, Nat.mul_div_cancel n havg]

/-- what is trimmed is exactly the `N mod avg` trailing samples -/
theorem trimLen_eq (N avg : ℕ) : trimLen N avg = N - N % avg := by
  have := Nat.div_add_mod N avg
  rw [trimLen, Nat.mul_comm]
  omega

/-- `psd` looks only at the kept samples `i < trimLen N avg` (no window) -/
theorem psd_congr (N avg : ℕ) (s s' : ℕ → ℝ) (k : ℕ) (h : ∀ i, i < trimLen N avg → s i = s' i) :
    psd N avg s k = psd N avg s' k := by
  unfold psd
  simp only
  rw [meanTo_eq, meanTo_eq]
  congr 1
  refine Finset.sum_congr rfl fun r hr => ?_
  have hr' : r < avg := Finset.mem_range.1 hr
  rw [csd_congr _ _ (fun j => s' (r * (trimLen N avg / avg) + j)) k]
  intro j hj
  apply h
  have h1 : trimLen N avg / avg * avg = trimLen N avg := by
    rw [trimLen, Nat.mul_div_cancel _ (by omega : 0 < avg)]
  calc r * (trimLen N avg / avg) + j < r * (trimLen N avg / avg) + (trimLen N avg / avg) := by omega
    _ = (r + 1) * (trimLen N avg / avg) := by ring
    _ ≤ avg * (trimLen N avg / avg) := Nat.mul_le_mul_right _ hr'
    _ = trimLen N avg := by rw [Nat.mul_comm, h1]

theorem psdW_congr (N avg : ℕ) (w s s' : ℕ → ℝ) (k : ℕ) (h : ∀ i, i < trimLen N avg → s i = s' i) :
    psdW N avg w s k = psdW N avg w s' k := by
  unfold psdW
  simp only
  rw [meanTo_eq, meanTo_eq]
  congr 1
  refine Finset.sum_congr rfl fun r hr => ?_
  have hr' : r < avg := Finset.mem_range.1 hr
  show (csd _ _ k).abs = (csd _ _ k).abs
  rw [csd_congr _ _ (applyWindow (meanTo (trimLen N avg / avg) w) w
    (fun j => s' (r * (trimLen N avg / avg) + j))) k]
  intro j hj
  simp only [applyWindow]
  congr 1
  apply h
  have h1 : trimLen N avg / avg * avg = trimLen N avg := by
    rw [trimLen, Nat.mul_div_cancel _ (by omega : 0 < avg)]
  calc r * (trimLen N avg / avg) + j < r * (trimLen N avg / avg) + (trimLen N avg / avg) := by omega
    _ = (r + 1) * (trimLen N avg / avg) := by ring
    _ ≤ avg * (trimLen N avg / avg) := Nat.mul_le_mul_right _ hr'
    _ = trimLen N avg := by rw [Nat.mul_comm, h1]

/-- `psd` of `avg` repetitions of a whole-cycle tone followed by `e < avg` arbitrary trailing samples -/
theorem psd_tone_trim (n k avg e : ℕ) (A p : ℝ) (he : e < avg) (hk : 0 < k) (hkn : 2 * k < n) (s : ℕ → ℝ)
    (hs : ∀ r j, r < avg → j < n → s (r * n + j) = toneSig n k A p j) :
    psd (avg * n + e) avg s k = |A| := by
  have havg : 0 < avg := by omega
  have havg' : (avg : ℝ) ≠ 0 := Nat.cast_ne_zero.2 havg.ne'
  unfold psd
  simp only [trimLen_div n avg e he]
  rw [meanTo_eq]
  have h : ∀ r ∈ range avg, (csd n (fun j => s (r * n + j)) k).abs = |A| := by
    intro r hr
    rw [csd_congr n _ (toneSig n k A p) k (fun j hj => hs r j (Finset.mem_range.1 hr) hj)]
    exact csd_tone_abs n k A p hk hkn
  rw [Finset.sum_congr rfl h, Finset.sum_const, Finset.card_range, nsmul_eq_mul]
  field_simp

/-- the same through any cosine-sum window (the window is built for the segment length `n`) -/
theorem psdW_tone_trim (a : ℕ → ℝ) (M n k avg e : ℕ) (A p : ℝ) (ha : a 0 ≠ 0) (he : e < avg) (hk : M < k)
    (hkn : 2 * (k + M) < n) (s : ℕ → ℝ)
    (hs : ∀ r j, r < avg → j < n → s (r * n + j) = toneSig n k A p j) :
    psdW (avg * n + e) avg (cosWin a (M + 1) n) s k = |A| := by
  have havg : 0 < avg := by omega
  have havg' : (avg : ℝ) ≠ 0 := Nat.cast_ne_zero.2 havg.ne'
  unfold psdW
  simp only [trimLen_div n avg e he]
  rw [meanTo_eq]
  have h : ∀ r ∈ range avg, (csdW n (cosWin a (M + 1) n) (fun j => s (r * n + j)) k).abs = |A| := by
    intro r hr
    have e1 : csdW n (cosWin a (M + 1) n) (fun j => s (r * n + j)) k
        = csdW n (cosWin a (M + 1) n) (toneSig n k A p) k := by
      show csd n _ k = csd n _ k
      refine csd_congr n _ _ k fun j hj => ?_
      simp only [applyWindow]
      rw [hs r j (Finset.mem_range.1 hr) hj]
    rw [e1, csdW_cosWin_tone_eq a M n k A p ha hk hkn]
    exact csd_tone_abs n k A p (by omega) (by omega)
  rw [Finset.sum_congr rfl h, Finset.sum_const, Finset.card_range, nsmul_eq_mul]
  field_simp

end Psi.Db
