import PsiProofs.Helper.C03_Runs
import PsiProofs.C04
/-!
Histories over {pop n, pause m, pause(), resume m, resume()}: generic invariant lemmas, the
"time never runs backwards" side condition, and the time invariant of the log (`TimeInv`) from which
"a pause cancels exactly the most recent trials" follows.
-/
namespace Psi.Queue

/-- a history every step of which meets a side condition `C` (evaluated in the state it is applied to) -/
def HistOK (C : QState → Op → Prop) : List Op → QState → Prop
  | [], _ => True
  | op :: ops, s => C s op ∧ ∀ s', stepOp s op = .ok s' → HistOK C ops s'

/-- Accepted pauses, and resume positions that do not move the clock backwards: `pause(m)` with `m` not
after the clock (the property's own side condition), `resume(m₂)` with `m₂` not before the clock. -/
def OpMono (s : QState) : Op → Prop
  | .pause (some m) => m ≤ s.samples
  | .resume (some m) => s.samples ≤ m
  | _ => True

abbrev HistMono : List Op → QState → Prop := HistOK OpMono

theorem runTicks_induct {I : QState → Prop}
    (htick : ∀ s c s', WF s → I s → tick s = .ok (c, s') → I s')
    (n : Nat) {s s' : QState} {cs : List Cell} (hw : WF s) (hi : I s)
    (h : runTicks n s = .ok (cs, s')) : I s' := by
  induction n generalizing s cs with
  | zero => simp [runTicks] at h; obtain ⟨_, rfl⟩ := h; exact hi
  | succ n ih =>
    rw [runTicks] at h
    cases ht : tick s with
    | error e => simp [ht] at h
    | ok r =>
      obtain ⟨c, s1⟩ := r
      simp only [ht] at h
      cases hr : runTicks n s1 with
      | error e => simp [hr] at h
      | ok r2 =>
        obtain ⟨cs2, s2⟩ := r2
        simp only [hr, Except.ok.injEq, Prod.mk.injEq] at h
        obtain ⟨_, rfl⟩ := h
        exact ih (tick_WF hw ht) (htick s c s1 hw hi ht) hr

/-- **Generic history lemma.** An invariant of `tick` that `pause` / `resume` preserve whenever the
step meets the side condition `C` holds after every history all of whose steps meet `C`. -/
theorem hist_inv {I : QState → Prop} {C : QState → Op → Prop}
    (htick : ∀ s c s', WF s → I s → tick s = .ok (c, s') → I s')
    (hpause : ∀ m s, WF s → I s → C s (.pause m) → I (pause m s).1)
    (hresume : ∀ m s, WF s → I s → C s (.resume m) → I (resume m s))
    {ops : List Op} {s s' : QState} (hw : WF s) (hi : I s) (hc : HistOK C ops s)
    (h : runOps ops s = .ok s') : WF s' ∧ I s' := by
  induction ops generalizing s with
  | nil => simp [runOps] at h; subst h; exact ⟨hw, hi⟩
  | cons op ops ih =>
    simp only [runOps] at h
    cases hs : stepOp s op with
    | error e => simp [hs] at h
    | ok s1 =>
      simp only [hs] at h
      obtain ⟨hc0, hc1⟩ := hc
      have hc1' := hc1 s1 hs
      cases op with
      | pop n =>
        simp only [stepOp] at hs
        cases hp : popBuffer n s with
        | error e => simp [hp] at hs
        | ok r =>
          obtain ⟨out, s2⟩ := r
          simp only [hp, Except.ok.injEq] at hs
          subst hs
          have hn : 0 < n := by
            rcases Nat.eq_zero_or_pos n with h0 | h0
            · subst h0; simp [popBuffer] at hp
            · exact h0
          rw [popBuffer_refines hw hn] at hp
          exact ih (runTicks_inv n hw hp).1 (runTicks_induct htick n hw hi hp) hc1' h
      | pause m =>
        simp only [stepOp, Except.ok.injEq] at hs; subst hs
        exact ih (WF_pause m hw) (hpause m s hw hi hc0) hc1' h
      | resume m =>
        simp only [stepOp, Except.ok.injEq] at hs; subst hs
        exact ih (WF_resume m hw) (hresume m s hw hi hc0) hc1' h

theorem HistOK_true (ops : List Op) (s : QState) : HistOK (fun _ _ => True) ops s := by
  induction ops generalizing s with
  | nil => trivial
  | cons op ops ih => exact ⟨trivial, fun s' _ => ih s'⟩

/-- the unconditional form -/
theorem hist_inv' {I : QState → Prop}
    (htick : ∀ s c s', WF s → I s → tick s = .ok (c, s') → I s')
    (hpause : ∀ m s, WF s → I s → I (pause m s).1)
    (hresume : ∀ m s, WF s → I s → I (resume m s))
    {ops : List Op} {s s' : QState} (hw : WF s) (hi : I s)
    (h : runOps ops s = .ok s') : WF s' ∧ I s' :=
  hist_inv (C := fun _ _ => True) htick (fun m s hw hi _ => hpause m s hw hi)
    (fun m s hw hi _ => hresume m s hw hi) hw hi (HistOK_true ops s) h

/-- **No exception along a history**, given an invariant under which `n` ticks never raise. -/
theorem hist_ok {I : QState → Prop} {C : QState → Op → Prop}
    (htick : ∀ s c s', WF s → I s → tick s = .ok (c, s') → I s')
    (hpause : ∀ m s, WF s → I s → C s (.pause m) → I (pause m s).1)
    (hresume : ∀ m s, WF s → I s → C s (.resume m) → I (resume m s))
    (hrun : ∀ n s, WF s → I s → ∃ r, runTicks n s = .ok r)
    {ops : List Op} {s : QState} (hw : WF s) (hi : I s) (hc : HistOK C ops s)
    (hpos : ∀ n, Op.pop n ∈ ops → 0 < n) : ∃ s', runOps ops s = .ok s' := by
  induction ops generalizing s with
  | nil => exact ⟨s, rfl⟩
  | cons op ops ih =>
    obtain ⟨hc0, hc1⟩ := hc
    have hpos' : ∀ n, Op.pop n ∈ ops → 0 < n := fun n hn => hpos n (List.mem_cons_of_mem _ hn)
    cases op with
    | pop n =>
      have hn : 0 < n := hpos n (by simp)
      obtain ⟨⟨out, s1⟩, hr⟩ := hrun n s hw hi
      have hp : popBuffer n s = .ok (out, s1) := by rw [popBuffer_refines hw hn, hr]
      have hs : stepOp s (.pop n) = .ok s1 := by simp [stepOp, hp]
      obtain ⟨s', h'⟩ := ih (runTicks_inv n hw hr).1 (runTicks_induct htick n hw hi hr) (hc1 s1 hs) hpos'
      exact ⟨s', by simp only [runOps, hs]; exact h'⟩
    | pause m =>
      have hs : stepOp s (.pause m) = .ok (pause m s).1 := rfl
      obtain ⟨s', h'⟩ := ih (WF_pause m hw) (hpause m s hw hi hc0) (hc1 _ hs) hpos'
      exact ⟨s', by simp only [runOps, hs]; exact h'⟩
    | resume m =>
      have hs : stepOp s (.resume m) = .ok (resume m s) := rfl
      obtain ⟨s', h'⟩ := ih (WF_resume m hw) (hresume m s hw hi hc0) (hc1 _ hs) hpos'
      exact ⟨s', by simp only [runOps, hs]; exact h'⟩

/-! ### what a successful `next_trial` logs -/

theorem nextTrial_info {s s1 : QState} (h : nextTrial s = .ok (some s1)) :
    ∃ (info : Info) (e0 : Entry), s.data[info.key]? = some e0 ∧ info.delay ∈ e0.delays ∧
      info.dur = e0.dur ∧ info.len = e0.len ∧ info.k = s.samples ∧
      s1.generated = s.generated ++ [info] ∧ s1.added = s.added ++ [info] ∧
      s1.source = some { key := info.key, off := 0, len := info.len, gen := e0.gen } ∧
      s1.delaySamples = info.delay ∧ 0 ≤ info.delay ∧ s1.samples = s.samples := by
  obtain ⟨key, sa, sb, e, d, hk, hd, he, hd0, hdl, rfl⟩ := nextTrial_some h
  have f1 := nextKey_frame hk
  have f2 := decrementKey_frame hd
  have hsb : sb.data = setTrials s.data key (· - 1) := by rw [f2]; simp only; rw [f1]
  rw [hsb, setTrials_get] at he
  simp only [if_true] at he
  cases h0 : s.data[key]? with
  | none => simp [h0] at he
  | some e0 =>
    simp only [h0, Option.map_some, Option.some.injEq] at he
    subst he
    have g1 : sb.generated = s.generated := by rw [f2]; simp only; rw [f1]
    have g2 : sb.added = s.added := by rw [f2]; simp only; rw [f1]
    have g3 : sb.samples = s.samples := by rw [f2]; simp only; rw [f1]
    exact ⟨mkInfo sb key { e0 with trials := e0.trials - 1 } d, e0, h0, List.mem_of_getElem? hdl, rfl, rfl, by simp only [mkInfo, g3],
      by simp only [g1], by simp only [g2], rfl, rfl, hd0, g3⟩

/-! ### the time invariant of the log -/

/-- samples of the current waveform still to be played -/
def remSrc (s : QState) : Int :=
  match s.source with
  | some src => ((src.len - src.off : Nat) : Int)
  | none => 0

/-- earliest sample at which the next trial can start -/
def horizon (s : QState) : Int := s.samples + remSrc s + s.delaySamples

/-- every trial's declared duration fits between its start and the start of the next trial:
`round(duration·fs) ≤ waveform length + every inter-trial delay` (always so with the default
`duration`, which is the waveform's own) -/
def DurOK (d : List Entry) : Prop :=
  ∀ (i : Nat) (e : Entry), d[i]? = some e → 0 ≤ e.dur ∧ ∀ x ∈ e.delays, e.dur ≤ (e.len : Int) + x

/-- The non-cancelled log is ordered in time: every logged trial has ended (on the grid) before the
next one starts, and before the next trial to come can start. -/
structure TimeInv (s : QState) : Prop where
  chain : s.generated.Pairwise (fun a b => a.k + a.dur ≤ b.k)
  hor : ∀ i ∈ s.generated, i.k + i.dur ≤ horizon s
  durnn : ∀ i ∈ s.generated, 0 ≤ i.dur
  durOK : DurOK s.data

theorem TimeInv_of_same {s s' : QState} (h : TimeInv s) (hg : s'.generated = s.generated)
    (hd : s'.data = s.data) (hh : horizon s ≤ horizon s') : TimeInv s' :=
  ⟨by rw [hg]; exact h.chain, by rw [hg]; intro i hi; have := h.hor i hi; omega,
   by rw [hg]; exact h.durnn, by rw [hd]; exact h.durOK⟩

theorem horizon_emitSrc (s : QState) (src : Src) (hs : s.source = some src) (hlt : src.off < src.len) :
    horizon (emitSrc s src).2 = horizon s := by
  have e1 : remSrc s = ((src.len - src.off : Nat) : Int) := by simp [remSrc, hs]
  unfold horizon
  rw [e1]
  by_cases hc : (src.gen && decide (src.off + 1 ≥ src.len)) = true
  · have e2 : remSrc (emitSrc s src).2 = 0 := by simp [remSrc, emitSrc, bump, hc]
    rw [e2]
    simp only [Bool.and_eq_true, decide_eq_true_eq] at hc
    simp only [emitSrc, bump]
    omega
  · have e2 : remSrc (emitSrc s src).2 = ((src.len - (src.off + 1) : Nat) : Int) := by
      simp [remSrc, emitSrc, bump, hc]
    rw [e2]
    simp only [emitSrc, bump]
    omega

theorem DurOK_step {d d' : List Entry}
    (h : ∀ k' : Nat, d'[k']? = d[k']? ∨ ∃ e0 e1, d[k']? = some e0 ∧ d'[k']? = some e1 ∧
      e1.dur = e0.dur ∧ e1.delays = e0.delays ∧ e1.len = e0.len) (hd : DurOK d) : DurOK d' := by
  intro i e he
  rcases h i with h1 | ⟨e0, e1, h0, h1, a, b, c⟩
  · rw [h1] at he; exact hd i e he
  · rw [h1] at he
    simp only [Option.some.injEq] at he
    subst he
    rw [a, b, c]; exact hd i e0 h0

theorem TimeInv_tick {s s' : QState} {c : Cell} (hi : TimeInv s) (h : tick s = .ok (c, s')) :
    TimeInv s' := by
  cases tick_cases h with
  | paused _ _ hs => subst hs; exact TimeInv_of_same hi rfl rfl (by simp [horizon, remSrc, bump]; omega)
  | play src _ hsrc hlt he =>
    have h1 := emitSrc_same s src
    have h2 := horizon_emitSrc s src hsrc hlt
    rw [← he] at h1 h2
    exact TimeInv_of_same hi h1.2.1 h1.1 (by simp only at h2; omega)
  | gap _ hdone hd _ hs =>
    subst hs
    refine TimeInv_of_same hi rfl rfl ?_
    have : remSrc s = 0 := by
      unfold remSrc
      cases hs : s.source with
      | none => rfl
      | some src => have := hdone src hs; simp only; omega
    unfold horizon; rw [this]; simp only [remSrc, bump, dropSrc]; omega
  | dry _ hdone hd _ _ hs =>
    subst hs
    refine TimeInv_of_same hi rfl rfl ?_
    have : remSrc s = 0 := by
      unfold remSrc
      cases hs : s.source with
      | none => rfl
      | some src => have := hdone src hs; simp only; omega
    unfold horizon; rw [this]; simp only [remSrc, bump, dropSrc]; omega
  | start s1 src _ hdone hd hn hsrc hlt he =>
    have hrem : remSrc s = 0 := by
      unfold remSrc
      cases hs : s.source with
      | none => rfl
      | some src => have := hdone src hs; simp only; omega
    obtain ⟨info, e0, hd0, hdel, hdur, hlen, hk, hg, _, hs1, hdl, hd0', hsm⟩ := nextTrial_info hn
    obtain ⟨_, _, hdata⟩ := nextTrial_data hn
    simp only [dropSrc] at hd0 hk hg hsm hdata
    obtain ⟨hdnn, hdle⟩ := hi.durOK info.key e0 hd0
    have hle := hdle info.delay hdel
    have hh1 : horizon s1 = s.samples + (info.len : Int) + info.delay := by
      simp only [horizon, remSrc, hs1, hdl, hsm]; omega
    have hold : ∀ i ∈ s.generated, i.k + i.dur ≤ s.samples := by
      intro i hi'
      have := hi.hor i hi'
      simp only [horizon, hrem] at this; omega
    have ht1 : TimeInv s1 := by
      refine ⟨?_, ?_, ?_, ?_⟩
      · rw [hg, List.pairwise_append]
        refine ⟨hi.chain, by simp, ?_⟩
        intro a ha b hb
        simp only [List.mem_singleton] at hb; subst hb
        rw [hk]; exact hold a ha
      · intro i hi'
        rw [hg] at hi'
        rw [hh1]
        rcases List.mem_append.mp hi' with h' | h'
        · have := hold i h'; omega
        · simp only [List.mem_singleton] at h'; subst h'
          omega
      · intro i hi'
        rw [hg] at hi'
        rcases List.mem_append.mp hi' with h' | h'
        · exact hi.durnn i h'
        · simp only [List.mem_singleton] at h'; subst h'; rw [hdur]; exact hdnn
      · refine DurOK_step ?_ hi.durOK
        intro k'
        rw [hdata k']
        split
        · cases h0 : s.data[k']? with
          | none => left; simp
          | some e1 => right; exact ⟨e1, _, rfl, rfl, rfl, rfl, rfl⟩
        · left; rfl
    rw [hs1] at hsrc
    simp only [Option.some.injEq] at hsrc
    have h1 := emitSrc_same s1 src
    have h2 := horizon_emitSrc s1 src (by rw [hs1, hsrc]) hlt
    rw [← he] at h1 h2
    exact TimeInv_of_same ht1 h1.2.1 h1.1 (by simp only at h2; omega)

theorem DurOK_requeue {d : List Entry} (keys : List Nat) (h : DurOK d) :
    DurOK (keys.foldl (fun d k => setTrials d k (· + 1)) d) := by
  refine DurOK_step ?_ h
  intro k'
  rw [foldl_setTrials_get]
  cases h0 : d[k']? with
  | none => left; simp
  | some e1 => right; exact ⟨e1, _, rfl, rfl, rfl, rfl, rfl⟩

theorem TimeInv_pause (m : Option Int) {s : QState} (hi : TimeInv s) (hc : OpMono s (.pause m)) :
    TimeInv (pause m s).1 := by
  cases m with
  | none => exact TimeInv_of_same (s := s) hi rfl rfl (by simp [pause, horizon, remSrc])
  | some m =>
    have hm : m ≤ s.samples := hc
    obtain ⟨hd, hg, _, _, hs, hsrc, hdl, _⟩ := requeue_fields m (cancel m { s with paused := true })
    obtain ⟨cd, cg, _, _, cs, csrc, cdl, _⟩ := cancel_fields m { s with paused := true }
    have hsm : (requeue m (cancel m { s with paused := true })).samples = s.samples := by rw [hs, cs]
    have e : (pause (some m) s).1 = { requeue m (cancel m { s with paused := true }) with samples := m } := by
      unfold pause
      simp only [hsm]
      rw [if_neg (by omega)]
    rw [e]
    have hgen : (requeue m (cancel m { s with paused := true })).generated =
        s.generated.filter (fun i => !endsAfter m i) := by rw [hg, cg]
    refine ⟨?_, ?_, ?_, ?_⟩
    · simp only [hgen]
      exact hi.chain.sublist List.filter_sublist
    · intro i hi'
      simp only [hgen, List.mem_filter, endsAfter, Bool.not_eq_true', decide_eq_false_iff_not] at hi'
      simp only [horizon, remSrc, hsrc, csrc, hdl, cdl]
      omega
    · intro i hi'
      simp only [hgen, List.mem_filter] at hi'
      exact hi.durnn i hi'.1
    · simp only [hd, cd]
      exact DurOK_requeue _ hi.durOK

theorem TimeInv_resume (m : Option Int) {s : QState} (hi : TimeInv s) (hc : OpMono s (.resume m)) :
    TimeInv (resume m s) := by
  cases m with
  | none => exact TimeInv_of_same (s := s) hi rfl rfl (by simp [resume, horizon, remSrc])
  | some m =>
    have hm : s.samples ≤ m := hc
    exact TimeInv_of_same (s := s) hi rfl rfl (by simp only [resume, horizon, remSrc]; omega)

/-! ### a pause cancels a suffix of the log -/

theorem filter_split_of_mono {α : Type} (P : α → Bool) (l : List α)
    (h : l.Pairwise (fun a b => P a = true → P b = true)) :
    l = l.filter (fun a => !P a) ++ l.filter P := by
  induction l with
  | nil => rfl
  | cons a l ih =>
    rw [List.pairwise_cons] at h
    by_cases hp : P a = true
    · have hall : ∀ b ∈ l, P b = true := fun b hb => h.1 b hb hp
      have h1 : l.filter (fun a => !P a) = [] := by
        rw [List.filter_eq_nil_iff]; intro b hb; simp [hall b hb]
      have h2 : l.filter P = l := List.filter_eq_self.mpr hall
      simp [List.filter_cons, hp, h1, h2]
    · have hp' : P a = false := by simpa using hp
      simp only [List.filter_cons, hp', Bool.not_false, if_true, Bool.false_eq_true, if_false,
        List.cons_append]
      rw [← ih h.2]

/-- **The cancelled trials are the most recent ones.** Under the time invariant the logged trials
ending after `m` form a suffix of the log. -/
theorem cancelled_suffix {s : QState} (hi : TimeInv s) (m : Int) :
    s.generated = s.generated.filter (fun i => !endsAfter m i) ++ s.generated.filter (endsAfter m) := by
  apply filter_split_of_mono
  have : s.generated.Pairwise (fun a b => (a.k + a.dur ≤ b.k) ∧ 0 ≤ b.dur) := by
    have h1 := hi.chain
    have h2 : s.generated.Pairwise (fun _ b => 0 ≤ b.dur) := by
      rw [List.pairwise_iff_forall_sublist]
      intro a b hab
      exact hi.durnn b (hab.subset (by simp))
    exact h1.and h2
  refine this.imp ?_
  intro a b ⟨h1, h2⟩ ha
  simp only [endsAfter, decide_eq_true_eq] at ha ⊢
  omega

end Psi.Queue
