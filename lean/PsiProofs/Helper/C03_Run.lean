import PsiProofs.Helper.C03_Fifo
/-! FIFO through ticks: never an error, the invariant and the key sequence are preserved. -/
namespace Psi.Queue

def keySeq (s : QState) : List Nat := s.added.map (·.key) ++ remSeq s

theorem FifoInv_of_same {s s' : QState} (hi : FifoInv s) (hk : s'.kind = s.kind)
    (ho : s'.ordering = s.ordering) (hd : s'.data = s.data) : FifoInv s' :=
  ⟨by rw [hk, hi.kind], by rw [ho]; exact hi.nodup, by rw [ho, hd]; exact hi.valid,
   by rw [hd]; exact hi.delays, by rw [ho, hd]; exact hi.done⟩

theorem remSeq_of_same {s s' : QState} (ho : s'.ordering = s.ordering) (hd : s'.data = s.data) :
    remSeq s' = remSeq s := by
  unfold remSeq; rw [ho]
  apply remSeq_congr
  intro k _; simp [trialsOf, hd]

theorem emitSrc_same' (s : QState) (src : Src) :
    (emitSrc s src).2.kind = s.kind ∧ (emitSrc s src).2.ordering = s.ordering := by
  simp [emitSrc, bump]

theorem fifo_tick_ok {s : QState} (hw : WF s) (hi : FifoInv s) : ∃ r, tick s = .ok r := by
  unfold tick
  split
  · exact ⟨_, rfl⟩
  · rename_i hp
    have hid : FifoInv (dropSrc s) := FifoInv_of_same hi rfl rfl rfl
    have hwd : WF (dropSrc s) := ⟨by simpa [dropSrc] using hw.data, by simp [dropSrc]⟩
    have key : ∃ r, afterSource (dropSrc s) = .ok r := by
      unfold afterSource
      split
      · exact ⟨_, rfl⟩
      · cases ho : (dropSrc s).ordering with
        | nil =>
          rw [nextTrial_none_of (fifo_nextTrial_nil hid ho)]
          exact ⟨_, rfl⟩
        | cons k rest =>
          obtain ⟨s1, hs1, _⟩ := fifo_nextTrial_cons hid ho
          obtain ⟨_, _, src, hsrc, hoff, hlen⟩ := nextTrial_WF hwd hs1
          have : src.off < src.len := by omega
          simp only [hs1, hsrc, this, if_true]
          exact ⟨_, rfl⟩
    split
    · split
      · exact ⟨_, rfl⟩
      · exact key
    · rename_i hsn
      have : dropSrc s = s := by cases s; simp_all [dropSrc]
      rw [this] at key; exact key

theorem fifo_tick_inv {s s' : QState} {c : Cell} (hi : FifoInv s) (h : tick s = .ok (c, s')) :
    FifoInv s' ∧ keySeq s' = keySeq s := by
  unfold keySeq
  cases tick_cases h with
  | paused _ _ hs => subst hs; exact ⟨FifoInv_of_same hi rfl rfl rfl, by rw [remSeq_of_same rfl rfl]; rfl⟩
  | play src _ _ _ he =>
    have h1 := emitSrc_same s src
    have h2 := emitSrc_same' s src
    rw [← he] at h1 h2
    exact ⟨FifoInv_of_same hi h2.1 h2.2 h1.1, by rw [remSeq_of_same h2.2 h1.1, h1.2.2.2]⟩
  | gap _ _ _ _ hs => subst hs; exact ⟨FifoInv_of_same hi rfl rfl rfl, by rw [remSeq_of_same rfl rfl]; rfl⟩
  | dry _ _ _ _ _ hs => subst hs; exact ⟨FifoInv_of_same hi rfl rfl rfl, by rw [remSeq_of_same rfl rfl]; rfl⟩
  | start s1 src _ _ _ hn _ _ he =>
    have hid : FifoInv (dropSrc s) := FifoInv_of_same hi rfl rfl rfl
    cases ho : (dropSrc s).ordering with
    | nil =>
      rw [nextTrial_none_of (fifo_nextTrial_nil hid ho)] at hn
      simp at hn
    | cons k rest =>
      obtain ⟨s1', hs1, hi1, hadd, hseq⟩ := fifo_nextTrial_cons hid ho
      rw [hn] at hs1
      simp only [Except.ok.injEq, Option.some.injEq] at hs1
      subst hs1
      have h1 := emitSrc_same s1 src
      have h2 := emitSrc_same' s1 src
      rw [← he] at h1 h2
      refine ⟨FifoInv_of_same hi1 h2.1 h2.2 h1.1, ?_⟩
      rw [remSeq_of_same h2.2 h1.1, h1.2.2.2, hadd]
      have : remSeq s = remSeq (dropSrc s) := (remSeq_of_same rfl rfl).symm
      rw [this, hseq]
      simp [dropSrc]

theorem fifo_run (n : Nat) {s : QState} (hw : WF s) (hi : FifoInv s) :
    ∃ cs s', runTicks n s = .ok (cs, s') ∧ FifoInv s' ∧ keySeq s' = keySeq s := by
  induction n generalizing s with
  | zero => exact ⟨[], s, rfl, hi, rfl⟩
  | succ n ih =>
    obtain ⟨⟨c, s1⟩, ht⟩ := fifo_tick_ok hw hi
    obtain ⟨hi1, hk1⟩ := fifo_tick_inv hi ht
    obtain ⟨cs, s2, hr, hi2, hk2⟩ := ih (tick_WF hw ht) hi1
    exact ⟨c :: cs, s2, by simp [runTicks, ht, hr], hi2, by rw [hk2, hk1]⟩

end Psi.Queue
