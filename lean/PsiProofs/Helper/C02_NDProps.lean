import PsiProofs.Helper.C02_NDSched
/-! Consequences of the timeline equation alone (no step function involved): start positions, embedded
waveforms, zeros elsewhere. These are the arguments of `gap_exact` / `waveform_embedded` /
`uncovered_zero` of C02, with the conclusion of `timeline` and the output length as hypotheses. -/
namespace Psi.Queue

theorem gap_exact_of {base : Int} {new : List Info} (hp : PosOK base new) :
    (∀ h0 : 0 < new.length, new[0].k = base) ∧
    (∀ j (hj : j + 1 < new.length),
      new[j + 1].k = new[j].k + (new[j].len : Nat) + (new[j].delay.toNat : Nat)) := by
  refine ⟨?_, ?_⟩
  · intro h0; have := hp 0 h0; simpa [render] using this
  · intro j hj
    have h1 := hp (j + 1) hj
    have h2 := hp j (by omega)
    rw [h1, h2, List.take_succ_eq_append_getElem (by omega), render_append]
    simp [render]; omega

theorem waveform_embedded_of {n z : Nat} {base : Int} {out tail : List Cell} {new : List Info}
    (he : out ++ tail = render new ++ zeros z) (hp : PosOK base new) (hlen : out.length = n) :
    ∀ j (hj : j < new.length) (i : Nat), i < new[j].len →
      ∀ p : Nat, new[j].k + (i : Nat) = base + (p : Nat) → p < n →
        out[p]? = some (Cell.W new[j].key i) := by
  intro j hj i hi p hpe hpn
  have hk := hp j hj
  have hpp : p = (render (new.take j)).length + i := by omega
  have : out[p]? = (out ++ tail)[p]? := by rw [List.getElem?_append_left (by omega)]
  rw [this, he, List.getElem?_append_left, hpp]
  · exact render_wave new j hj i hi
  · have := render_wave new j hj i hi
    rw [hpp]
    rcases Nat.lt_or_ge ((render (new.take j)).length + i) (render new).length with hlt | hge
    · exact hlt
    · rw [List.getElem?_eq_none hge] at this
      simp at this

theorem uncovered_zero_of {n z : Nat} {base : Int} {out tail : List Cell} {new : List Info}
    (he : out ++ tail = render new ++ zeros z) (hp : PosOK base new) (hlen : out.length = n) :
    ∀ p : Nat, p < n → out[p]? = some Cell.Z ∨
      ∃ j, ∃ hj : j < new.length, ∃ i, i < new[j].len ∧ new[j].k + (i : Nat) = base + (p : Nat) ∧
        out[p]? = some (Cell.W new[j].key i) := by
  intro p hpn
  have : out[p]? = (out ++ tail)[p]? := by rw [List.getElem?_append_left (by omega)]
  rw [this, he]
  by_cases hin : p < (render new).length
  · rw [List.getElem?_append_left hin]
    rcases render_classify new p hin with hz | ⟨j, hj, i, hi, hpe, hw'⟩
    · left; exact hz
    · right
      refine ⟨j, hj, i, hi, ?_, hw'⟩
      rw [hp j hj, hpe]; push_cast; omega
  · left
    rw [List.getElem?_append_right (by omega)]
    apply zeros_getElem?
    have : (out ++ tail).length = (render new ++ zeros z).length := by rw [he]
    simp at this; omega

end Psi.Queue
