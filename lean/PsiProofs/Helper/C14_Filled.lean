import PsiProofs.Helper.C14_Reads
/-!
C14 helper: pointwise description of the specification of a filled read, and
naturality of every operation in the cell type (channels are independent columns).
-/
namespace Psi.Buffer

variable {α : Type}

/-- decidable equality of read results (for the closed examples / counterexamples) -/
instance instDecEqExcept {ε β : Type} [DecidableEq ε] [DecidableEq β] : DecidableEq (Except ε β)
  | .ok a, .ok b => if h : a = b then isTrue (by rw [h]) else isFalse (by intro e; cases e; exact h rfl)
  | .error a, .error b => if h : a = b then isTrue (by rw [h]) else isFalse (by intro e; cases e; exact h rfl)
  | .ok _, .error _ => isFalse (by intro e; cases e)
  | .error _, .ok _ => isFalse (by intro e; cases e)

theorem Spec.slice_length (sp : Spec α) (x y : Nat) (hy : y ≤ sp.stream.length) :
    (sp.slice x y).length = y - x := by
  simp only [Spec.slice, List.length_take, List.length_drop]; omega

theorem Spec.slice_getElem? (sp : Spec α) (x y k : Nat) (hk : k < y - x) :
    (sp.slice x y)[k]? = sp.stream[x + k]? := by
  simp only [Spec.slice, List.getElem?_take, hk, if_true, List.getElem?_drop]

theorem Spec.clip_le (sp : Spec α) (x : Int) : sp.clip x ≤ sp.stream.length := by
  simp only [Spec.clip, Spec.hi]; omega

/-- A filled read of `[a, b)` has exactly `b - a` cells. -/
theorem Spec.filled_length (sp : Spec α) (hlo : sp.lo ≤ sp.stream.length) (a b : Int) (fill : α)
    (hab : a ≤ b) : (sp.filled a b fill).length = (b - a).toNat := by
  simp only [Spec.filled, List.length_append, List.length_replicate,
    Spec.slice_length sp _ _ (Spec.clip_le sp b)]
  simp only [Spec.clip, Spec.hi]
  omega

/-- Cell `j` of a filled read of `[a, b)` is sample `a + j` of the logical stream when that
sample is retained … -/
theorem Spec.filled_getElem?_inside (sp : Spec α) (a b : Int) (fill : α) (j : Nat)
    (h1 : (sp.lo : Int) ≤ a + j) (h2 : a + j < sp.hi) (h3 : a + j < b) :
    (sp.filled a b fill)[j]? = sp.stream[(a + j).toNat]? := by
  have hL : (List.replicate (min (sp.lo : Int) b - a).toNat fill).length ≤ j := by
    simp only [List.length_replicate]; omega
  have hM : j - (min (sp.lo : Int) b - a).toNat < sp.clip b - sp.clip a := by
    simp only [Spec.clip]; omega
  have hLM : j < (List.replicate (min (sp.lo : Int) b - a).toNat fill
      ++ sp.slice (sp.clip a) (sp.clip b)).length := by
    simp only [List.length_append, List.length_replicate,
      Spec.slice_length sp _ _ (Spec.clip_le sp b)]
    simp only [Spec.clip]; omega
  unfold Spec.filled
  rw [List.getElem?_append_left hLM, List.getElem?_append_right hL, List.length_replicate,
    Spec.slice_getElem? sp _ _ _ hM]
  congr 1
  simp only [Spec.clip]; omega

/-- … and the fill value when it is not (before the window or after it). -/
theorem Spec.filled_getElem?_outside (sp : Spec α) (hlo : sp.lo ≤ sp.stream.length) (a b : Int)
    (fill : α) (j : Nat) (hj : a + j < b) (h : a + j < sp.lo ∨ (sp.hi : Int) ≤ a + j) :
    (sp.filled a b fill)[j]? = some fill := by
  unfold Spec.filled
  by_cases hb : a + j < sp.lo
  · have hL : j < (min (sp.lo : Int) b - a).toNat := by omega
    rw [List.append_assoc, List.getElem?_append_left (by simp only [List.length_replicate]; exact hL)]
    simp [hL]
  · have hh : (sp.hi : Int) ≤ a + j := by omega
    have hlen : (List.replicate (min (sp.lo : Int) b - a).toNat fill
        ++ sp.slice (sp.clip a) (sp.clip b)).length = (max (sp.hi : Int) a - a).toNat := by
      simp only [List.length_append, List.length_replicate,
        Spec.slice_length sp _ _ (Spec.clip_le sp b)]
      simp only [Spec.clip, Spec.hi] at hh ⊢; omega
    rw [List.getElem?_append_right (by rw [hlen]; omega), hlen]
    have : j - (max (sp.hi : Int) a - a).toNat < (b - max (sp.hi : Int) a).toNat := by omega
    simp [this]

end Psi.Buffer
