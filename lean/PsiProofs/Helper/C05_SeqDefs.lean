import PsiProofs.Helper.C05_Spec
/-!
Helper for C05, per-request form: a dictionary key may be **re-used** once the earlier request
carrying it is gone.

The extractor looks at a key `κ = (t0, key)` only through equality tests, so its behaviour under
one key is that of a tiny state machine whose state is the request currently being captured under
`κ` (`Option Request`).  One call first applies its removals, then feeds the chunk, then takes in
its requests (pipeline.py 768-833):

* `skipCount`: of the removals naming `κ`, one hits the capture pending under `κ` (if any), the
  others go to the per-call `skip` list and swallow the first requests of this call with key `κ`;
* `takenK`: the requests with key `κ` of this call that are not swallowed;
* `keptK`: the pending request, unless a removal of this call named `κ`.

`KeyOK` is the discipline "a key re-appears only after the earlier request with that key was
removed (in this call or before) or delivered (before)": at most one request per key is taken in
a call, and none while the earlier one is still being captured — the point where the real code
raises `ValueError('Duplicate epochs not supported')`.
-/
namespace Psi.Extract

/-- all samples of `r` are there once `T` samples have been acquired -/
def doneAt (r : Request) (T : Nat) : Bool := decide (r.s.toNat + r.len ≤ T)

/-- the requests of one call that carry key `κ`, in queue order -/
def addsK {α} (κ : Nat) (op : Op α) : List Request := op.reqs.filter (fun q => q.key == κ)

/-- how many requests with key `κ` the `skip` list of this call swallows -/
def skipCount {α} (κ : Nat) (live : Option Request) (op : Op α) : Nat :=
  op.rems.count κ - (if live.isSome then 1 else 0)

/-- the requests with key `κ` this call takes in -/
def takenK {α} (κ : Nat) (live : Option Request) (op : Op α) : List Request :=
  (addsK κ op).drop (skipCount κ live op)

/-- the request pending under `κ` after the removals of this call -/
def keptK {α} (κ : Nat) (live : Option Request) (op : Op α) : Option Request :=
  if κ ∈ op.rems then none else live

/-- **Key discipline of one call**, for key `κ` with `live` being captured before it. -/
def KeyOK {α} (κ : Nat) (live : Option Request) (op : Op α) : Prop :=
  (takenK κ live op).length ≤ 1 ∧ (takenK κ live op ≠ [] → keptK κ live op = none)

/-- the request being captured under `κ` after the call (`T` samples acquired before it) -/
def keyNext {α} (κ : Nat) (T : Nat) (live : Option Request) (op : Op α) : Option Request :=
  match takenK κ live op with
  | [] => (keptK κ live op).filter (fun r => !doneAt r (T + op.chunk.length))
  | r :: _ => if doneAt r (T + op.chunk.length) then none else some r

/-- the request whose epoch the call delivers under `κ` -/
def keyEmit {α} (κ : Nat) (T : Nat) (live : Option Request) (op : Op α) : Option Request :=
  match takenK κ live op with
  | [] => (keptK κ live op).filter (fun r => doneAt r (T + op.chunk.length))
  | r :: _ => if doneAt r (T + op.chunk.length) then some r else none

/-- **Spec.** the request being captured under `κ` after the calls `ops` -/
def openK {α} (κ : Nat) : Nat → Option Request → List (Op α) → Option Request
  | _, live, [] => live
  | T, live, op :: ops => openK κ (T + op.chunk.length) (keyNext κ T live op) ops

/-- **Spec.** the request being captured under `κ` after a whole history -/
def openAfter {α} (κ : Nat) (hist : List (Op α)) : Option Request := openK κ 0 none hist

/-- **Spec.** call by call: the request whose epoch is delivered under `κ` -/
def specReqs {α} (κ : Nat) : Nat → Option Request → List (Op α) → List (Option Request)
  | _, _, [] => []
  | T, live, op :: ops => keyEmit κ T live op :: specReqs κ (T + op.chunk.length) (keyNext κ T live op) ops

/-- What one call may bring, per-request form: the extractor's single epoch length, every
request inside the look-back window, and the key discipline for every key. -/
structure OpValidSeq {α} (B L : Nat) (hist : List (Op α)) (op : Op α) : Prop where
  len : ∀ r ∈ op.reqs, r.len = L
  visible : ∀ r ∈ op.reqs, ((lookbackStart B hist : Nat) : Int) ≤ r.s
  reuse : ∀ κ, KeyOK κ (openAfter κ hist) op

/-- `ops` is a valid continuation of `hist` (keys may be re-used). -/
def AllValidSeq {α} (B L : Nat) : List (Op α) → List (Op α) → Prop
  | _, [] => True
  | hist, op :: rest => OpValidSeq B L hist op ∧ AllValidSeq B L (hist ++ [op]) rest

theorem allValidSeq_append {α} (B L : Nat) (hist a b : List (Op α)) :
    AllValidSeq B L hist (a ++ b) ↔ AllValidSeq B L hist a ∧ AllValidSeq B L (hist ++ a) b := by
  induction a generalizing hist with
  | nil => simp [AllValidSeq]
  | cons op ops ih =>
    simp only [List.cons_append, AllValidSeq, ih, and_assoc]
    have : hist ++ [op] ++ ops = hist ++ op :: ops := by simp
    rw [this]

/-! ### the spec machine over concatenated histories -/

theorem openK_append {α} (κ T : Nat) (live : Option Request) (a b : List (Op α)) :
    openK κ T live (a ++ b) = openK κ (T + total a) (openK κ T live a) b := by
  induction a generalizing T live with
  | nil => simp [openK, total]
  | cons op ops ih =>
    simp only [List.cons_append, openK, ih]
    simp [total, Nat.add_assoc]

theorem openAfter_snoc {α} (κ : Nat) (hist : List (Op α)) (op : Op α) :
    openAfter κ (hist ++ [op]) = keyNext κ (total hist) (openAfter κ hist) op := by
  simp [openAfter, openK_append, openK]

theorem specReqs_append {α} (κ T : Nat) (live : Option Request) (a b : List (Op α)) :
    specReqs κ T live (a ++ b) = specReqs κ T live a ++ specReqs κ (T + total a) (openK κ T live a) b := by
  induction a generalizing T live with
  | nil => simp [specReqs, openK, total]
  | cons op ops ih =>
    simp only [List.cons_append, specReqs, openK, ih]
    simp [total, Nat.add_assoc]

theorem specReqs_snoc {α} (κ : Nat) (hist : List (Op α)) (op : Op α) :
    specReqs κ 0 none (hist ++ [op]) =
      specReqs κ 0 none hist ++ [keyEmit κ (total hist) (openAfter κ hist) op] := by
  simp [specReqs_append, specReqs, openAfter]

theorem specReqs_length {α} (κ T : Nat) (live : Option Request) (ops : List (Op α)) :
    (specReqs κ T live ops).length = ops.length := by
  induction ops generalizing T live with
  | nil => rfl
  | cons op ops ih => simp [specReqs, ih]

/-! ### where the spec's requests come from -/

theorem takenK_sub {α} (κ : Nat) (live : Option Request) (op : Op α) :
    ∀ r ∈ takenK κ live op, r ∈ op.reqs ∧ r.key = κ := by
  intro r hr
  have := List.mem_filter.1 (List.mem_of_mem_drop hr)
  exact ⟨this.1, by simpa using this.2⟩

theorem keptK_sub {α} (κ : Nat) (live : Option Request) (op : Op α) (r : Request)
    (h : keptK κ live op = some r) : live = some r ∧ κ ∉ op.rems := by
  unfold keptK at h
  split at h
  · cases h
  · rename_i hk; exact ⟨h, hk⟩

theorem keyNext_cases {α} (κ T : Nat) (live : Option Request) (op : Op α) (r : Request)
    (h : keyNext κ T live op = some r) :
    doneAt r (T + op.chunk.length) = false ∧
      ((live = some r ∧ κ ∉ op.rems ∧ takenK κ live op = []) ∨ r ∈ takenK κ live op) := by
  unfold keyNext at h
  split at h
  · rename_i ht
    cases hk : keptK κ live op with
    | none => simp [hk] at h
    | some q =>
      simp only [hk, Option.filter] at h
      split at h
      · rename_i hd
        have hq : q = r := Option.some.inj h
        subst hq
        obtain ⟨h1, h2⟩ := keptK_sub κ live op q hk
        exact ⟨by simpa using hd, Or.inl ⟨h1, h2, ht⟩⟩
      · cases h
  · rename_i q0 rest ht
    split at h
    · cases h
    · rename_i hd
      cases h
      exact ⟨by simpa using hd, Or.inr (by rw [ht]; exact List.mem_cons_self)⟩

theorem keyEmit_cases {α} (κ T : Nat) (live : Option Request) (op : Op α) (r : Request)
    (h : keyEmit κ T live op = some r) :
    doneAt r (T + op.chunk.length) = true ∧
      ((live = some r ∧ κ ∉ op.rems ∧ takenK κ live op = []) ∨ r ∈ takenK κ live op) := by
  unfold keyEmit at h
  split at h
  · rename_i ht
    cases hk : keptK κ live op with
    | none => simp [hk] at h
    | some q =>
      simp only [hk, Option.filter] at h
      split at h
      · rename_i hd
        have hq : q = r := Option.some.inj h
        subst hq
        obtain ⟨h1, h2⟩ := keptK_sub κ live op q hk
        exact ⟨hd, Or.inl ⟨h1, h2, ht⟩⟩
      · cases h
  · rename_i q0 rest ht
    split at h
    · rename_i hd
      cases h
      exact ⟨hd, Or.inr (by rw [ht]; exact List.mem_cons_self)⟩
    · cases h

/-- whatever is being captured under `κ` is a request of the history, and carries key `κ` -/
theorem openK_mem {α} (κ : Nat) (T : Nat) (live : Option Request) (ops : List (Op α)) (r : Request)
    (h : openK κ T live ops = some r) : live = some r ∨ (r ∈ allReqs ops ∧ r.key = κ) := by
  induction ops generalizing T live with
  | nil => exact Or.inl h
  | cons op ops ih =>
    simp only [openK] at h
    rcases ih _ _ h with h1 | h1
    · rcases (keyNext_cases κ T live op r h1).2 with h2 | h2
      · exact Or.inl h2.1
      · obtain ⟨h3, h4⟩ := takenK_sub κ live op r h2
        exact Or.inr ⟨by simp only [allReqs, List.flatMap_cons]; exact List.mem_append_left _ h3, h4⟩
    · exact Or.inr ⟨by simp only [allReqs, List.flatMap_cons] at h1 ⊢; exact List.mem_append_right _ h1.1, h1.2⟩

theorem openAfter_mem {α} (κ : Nat) (hist : List (Op α)) (r : Request)
    (h : openAfter κ hist = some r) : r ∈ allReqs hist ∧ r.key = κ := by
  rcases openK_mem κ 0 none hist r h with h1 | h1
  · cases h1
  · exact h1

/-! ### list facts behind the projection of one call on one key -/

/-- the requests the intake loop does not skip: each entry of the `skip` list swallows the first
request with its key (`skip.remove(key)`) -/
def takeSkip : List Nat → List Request → List Request
  | _, [] => []
  | skip, r :: rs =>
    if skip.contains r.key then takeSkip (skip.erase r.key) rs else r :: takeSkip skip rs

theorem takeSkip_sub (skip : List Nat) (reqs : List Request) :
    ∀ r ∈ takeSkip skip reqs, r ∈ reqs := by
  induction reqs generalizing skip with
  | nil => intro r hr; cases hr
  | cons q qs ih =>
    intro r hr
    simp only [takeSkip] at hr
    split at hr
    · exact List.mem_cons_of_mem _ (ih _ r hr)
    · rcases List.mem_cons.1 hr with h | h
      · rw [h]; exact List.mem_cons_self
      · exact List.mem_cons_of_mem _ (ih _ r h)

theorem takeSkip_filter (skip : List Nat) (reqs : List Request) (κ : Nat) :
    (takeSkip skip reqs).filter (fun q => q.key == κ) =
      (reqs.filter (fun q => q.key == κ)).drop (skip.count κ) := by
  induction reqs generalizing skip with
  | nil => simp [takeSkip]
  | cons r rs ih =>
    simp only [takeSkip]
    by_cases hs : skip.contains r.key = true
    · simp only [hs, if_true, ih]
      by_cases hk : r.key = κ
      · have hpos : 0 < skip.count r.key := by
          rw [List.count_pos_iff]; simpa using hs
        subst hk
        obtain ⟨m, hm⟩ : ∃ m, skip.count r.key = m + 1 := ⟨skip.count r.key - 1, by omega⟩
        simp [List.count_erase_self, hm]
      · have hbeq : (r.key == κ) = false := by simpa using hk
        simp only [List.filter_cons, hbeq, Bool.false_eq_true, if_false]
        rw [List.count_erase_of_ne (fun h => hk h.symm)]
    · have hs' : r.key ∉ skip := by simpa using hs
      have hsf : skip.contains r.key = false := by simpa using hs
      simp only [hsf, Bool.false_eq_true, if_false]
      by_cases hk : r.key = κ
      · subst hk
        have hz : skip.count r.key = 0 := by rw [List.count_eq_zero]; exact hs'
        simp [ih, hz]
      · have hbeq : (r.key == κ) = false := by simpa using hk
        simp only [List.filter_cons, hbeq, Bool.false_eq_true, if_false, ih]

/-- the `skip` list holds every removal of `κ` except the one that hit a pending capture -/
theorem hasKey_filter_ne {α} (p : Pending α) (k κ : Nat) (he : k ≠ κ) :
    hasKey (p.filter (fun c => c.req.key != k)) κ = hasKey p κ := by
  induction p with
  | nil => rfl
  | cons c cs ih =>
    simp only [List.filter_cons]
    by_cases hc : c.req.key = k
    · have h1 : (c.req.key != k) = false := by simp [hc]
      have h2 : (c.req.key == κ) = false := by simpa [hc] using he
      simp only [h1, Bool.false_eq_true, if_false, ih]
      simp [hasKey, h2]
    · have h1 : (c.req.key != k) = true := by simpa using hc
      simp only [h1, if_true]
      simp only [hasKey, List.any_cons] at ih ⊢
      rw [ih]

theorem removeAll_skip_count {α} (p : Pending α) (rems : List Nat) (κ : Nat) :
    (removeAll p rems).2.count κ = rems.count κ - (if hasKey p κ then 1 else 0) := by
  induction rems generalizing p with
  | nil => simp [removeAll]
  | cons k ks ih =>
    simp only [removeAll]
    by_cases hk : hasKey p k = true
    · simp only [hk, if_true, ih]
      by_cases he : k = κ
      · subst he
        have : hasKey (p.filter (fun c => c.req.key != k)) k = false := by
          rw [hasKey_false_iff]
          intro c hc
          have := (List.mem_filter.1 hc).2
          simpa using this
        simp [this, hk, List.count_cons_self]
      · rw [hasKey_filter_ne p k κ he, List.count_cons_of_ne he]
    · have hk' : hasKey p k = false := by simpa using hk
      simp only [hk', Bool.false_eq_true, if_false]
      by_cases he : k = κ
      · subst he
        rw [List.count_cons_self, List.count_cons_self, ih, hk']
        simp
      · rw [List.count_cons_of_ne he, List.count_cons_of_ne he, ih]

/-- generalisation of `intakeAll_eq` to request lists with repeated keys -/
theorem intakeAll_seq {α} (prior : List (Nat × List α)) (p : Pending α) (skip : List Nat)
    (reqs : List Request)
    (hnd : ((p ++ (takeSkip skip reqs).filterMap (intakeMore prior)).map (·.req.key)).Nodup) :
    intakeAll prior p skip reqs =
      some (p ++ (takeSkip skip reqs).filterMap (intakeMore prior),
            (takeSkip skip reqs).filterMap (intakeStop prior)) := by
  induction reqs generalizing p skip with
  | nil => simp [intakeAll, takeSkip]
  | cons r rs ih =>
    simp only [intakeAll, takeSkip] at hnd ⊢
    by_cases hs : skip.contains r.key = true
    · simp only [hs, if_true] at hnd ⊢
      exact ih p _ hnd
    · simp only [hs, if_false, Bool.false_eq_true] at hnd ⊢
      simp only [List.filterMap_cons] at hnd ⊢
      cases hrep : replay (Capture.new r) prior with
      | stop e =>
        have h1 : intakeMore prior r = none := by simp [intakeMore, hrep]
        have h2 : intakeStop prior r = some e := by simp [intakeStop, hrep]
        simp only [h1, h2] at hnd ⊢
        rw [ih p skip hnd]
      | more c =>
        have h1 : intakeMore prior r = some c := by simp [intakeMore, hrep]
        have h2 : intakeStop prior r = none := by simp [intakeStop, hrep]
        simp only [h1, h2] at hnd ⊢
        have hcreq : c.req = r := by
          have := replay_req_more _ _ _ hrep
          simpa [Capture.new] using this
        have hp : hasKey p r.key = false := by
          rw [hasKey_false_iff]
          intro c' hc' he
          simp only [List.map_append, List.map_cons] at hnd
          have := (List.nodup_append.1 hnd).2.2 c'.req.key (List.mem_map_of_mem hc') c.req.key
            List.mem_cons_self
          exact this (by rw [he, hcreq])
        simp only [hp, Bool.false_eq_true, if_false]
        have hnd' : ((p ++ [c] ++ (takeSkip skip rs).filterMap (intakeMore prior)).map (·.req.key)).Nodup := by
          simpa [List.append_assoc] using hnd
        rw [ih (p ++ [c]) skip hnd']
        simp [List.append_assoc]

/-- pairwise distinct keys, from "at most one entry per key" -/
theorem nodup_of_filter_le_one {β} (l : List β) (f : β → Nat)
    (h : ∀ κ, (l.filter (fun x => f x == κ)).length ≤ 1) : (l.map f).Nodup := by
  induction l with
  | nil => simp
  | cons x xs ih =>
    simp only [List.map_cons, List.nodup_cons]
    constructor
    · intro hx
      obtain ⟨y, hy, hxy⟩ := List.mem_map.1 hx
      have := h (f x)
      have hy' : y ∈ xs.filter (fun z => f z == f x) := List.mem_filter.2 ⟨hy, by simpa using hxy⟩
      have hpos : 0 < (xs.filter (fun z => f z == f x)).length := List.length_pos_of_mem hy'
      simp only [List.filter_cons, beq_self_eq_true, if_true, List.length_cons] at this
      omega
    · apply ih
      intro κ
      have := h κ
      simp only [List.filter_cons] at this
      split at this
      · simp only [List.length_cons] at this; omega
      · exact this

end Psi.Extract
