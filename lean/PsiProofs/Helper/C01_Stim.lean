import PsiModel.Stim
import PsiProofs.Helper.C01_Gate
import PsiProofs.Helper.C01_Square
import PsiProofs.Helper.C01_SquareEnv
/-! Every finite nesting of factories (`Stim`) is additive, hence chunk-invariant. -/
set_option linter.dupNamespace false
namespace Psi.Stim
open Psi.Chunk

/-- The fragment law of `square_wave` for one parameter set: the returned fragment is the slice
of one function of the absolute sample index. -/
def SquareSliceLaw (p : SqP) : Prop :=
  ∀ id : Nat, ∃ f : Nat → Cell, ∀ off n,
    squareWave (Cell.a .tukey id) (Cell.c .low id) p off n = slice f off n

/-- The law holds for every positive period (`squareWave_eq_slice`, exact rational arithmetic). -/
theorem squareSliceLaw_of_pos (p : SqP) (hp : 0 < p.period) : SquareSliceLaw p :=
  fun id => ⟨squareAt (Cell.a .tukey id) (Cell.c .low id) p,
    fun off n => squareWave_eq_slice (Cell.a .tukey id) (Cell.c .low id) p hp off n⟩

/-- `WF` plus the square-wave fragment law at every `sqenv` node. -/
def Stim.WFs : Stim → Prop
  | .leaf _ _ => True
  | .sqwave _ cycle _ _ => 0 < cycle
  | .fixed _ _ => True
  | .gate _ _ _ inner => inner.WFs
  | .env _ p _ inner => p.riseN * 2 ≤ p.dur ∧ inner.WFs
  | .sam _ _ _ inner => inner.WFs
  | .sqenv _ p _ inner => SquareSliceLaw p ∧ inner.WFs
  | .filt _ _ _ inner => inner.WFs

/-- The guard `WF` (what the constructors accept) already implies the law at every `sqenv` node. -/
theorem Stim.WF.wfs {g : Stim} (h : g.WF) : g.WFs := by
  induction g with
  | leaf => trivial
  | sqwave => exact h
  | fixed => trivial
  | gate _ _ _ inner ih => exact ih h
  | env _ _ _ inner ih => exact ⟨h.1, ih h.2⟩
  | sam _ _ _ inner ih => exact ih h
  | sqenv _ p _ inner ih => exact ⟨squareSliceLaw_of_pos p h.1, ih h.2⟩
  | filt _ _ _ inner ih => exact ih h

theorem filtRun_eq_applyAt (id j : Nat) (l : List Cell) :
    filtRun id j l = applyAt (fun k x => Cell.f id k x) j l := by
  induction l generalizing j with
  | nil => rfl
  | cons x xs ih => simp [filtRun, applyAt, ih]

theorem envelope_ok (ramp : Nat → Cell) (p : EnvP) (h : p.riseN * 2 ≤ p.dur) (off n : Nat) :
    envelope ramp p off n = .ok (slice (envAt ramp p.start p.dur p.riseN) off n) := by
  unfold envelope
  rw [if_neg (by omega), envelopeFrag_eq_slice ramp p.start p.dur p.riseN off n (by omega)]

/-- Modulation of a full-length token by a sliced envelope, in `applyAt` form. -/
theorem zipWith_slice (f : Nat → Cell) (off n : Nat) (tok : List Cell) (h : tok.length = n) :
    List.zipWith Cell.mul (slice f off n) tok = applyAt (fun k x => Cell.mul (f k) x) off tok := by
  subst h; exact zipWith_slice_eq_applyAt Cell.mul f off tok

theorem Stim.next_length (g : Stim) (h : g.WFs) (n : Nat) : (g.next n).1.length = n := by
  induction g generalizing n with
  | leaf id off => simp [Stim.next, slice_length]
  | sqwave id cycle on off =>
    simp only [Stim.next]
    rw [squareWaveNext_eq_slice cycle on h, slice_length]
  | fixed w off => simp only [Stim.next]; rw [fixedNext_eq_slice, slice_length]
  | gate start dur off inner ih =>
    simp only [Stim.next]
    rw [gateMask_eq_applyAt, applyAt_length, ih h]
  | env id p off inner ih =>
    simp only [Stim.next]
    rw [envelope_ok _ p h.1]
    simp only []
    rw [zipWith_slice _ _ _ _ (ih h.2 n), applyAt_length, ih h.2]
  | sam id delay off inner ih =>
    simp only [Stim.next]
    rw [samEnvelope_eq_slice, zipWith_slice _ _ _ _ rfl, applyAt_length, ih h]
  | sqenv id p off inner ih =>
    simp only [Stim.next]
    obtain ⟨f, hf⟩ := h.1 id
    rw [hf, zipWith_slice _ _ _ _ rfl, applyAt_length, ih h.2]
  | filt id j off inner ih =>
    simp only [Stim.next]
    rw [filtRun_eq_applyAt, applyAt_length, ih h]

theorem Stim.next_wfs (g : Stim) (h : g.WFs) (n : Nat) : (g.next n).2.WFs := by
  induction g generalizing n with
  | leaf id off => trivial
  | sqwave id cycle on off => exact h
  | fixed w off => trivial
  | gate start dur off inner ih => exact ih h n
  | env id p off inner ih =>
    simp only [Stim.next]
    rw [envelope_ok _ p h.1]
    exact ⟨h.1, ih h.2 n⟩
  | sam id delay off inner ih => exact ih h n
  | sqenv id p off inner ih => exact ⟨h.1, ih h.2 n⟩
  | filt id j off inner ih => exact ih h n

theorem Stim.next_add (g : Stim) (h : g.WFs) (m n : Nat) :
    g.next (m + n) = ((g.next m).1 ++ ((g.next m).2.next n).1, ((g.next m).2.next n).2) := by
  induction g generalizing m n with
  | leaf id off => simp [Stim.next, slice_add, Nat.add_assoc]
  | sqwave id cycle on off =>
    simp only [Stim.next]
    rw [squareWaveNext_eq_slice cycle on h, squareWaveNext_eq_slice cycle on h,
      squareWaveNext_eq_slice cycle on h, slice_add, Nat.add_assoc]
  | fixed w off =>
    simp only [Stim.next]
    rw [fixedNext_eq_slice, fixedNext_eq_slice, fixedNext_eq_slice, slice_add, Nat.add_assoc]
  | gate start dur off inner ih =>
    simp only [Stim.next]
    rw [ih h]
    simp only [gateMask_eq_applyAt, applyAt_append, Stim.next_length inner h m, Nat.add_assoc]
  | env id p off inner ih =>
    have l1 := Stim.next_length inner h.2 m
    have l2 := Stim.next_length (inner.next m).2 (Stim.next_wfs inner h.2 m) n
    have l3 := Stim.next_length inner h.2 (m + n)
    simp only [Stim.next]
    rw [envelope_ok _ p h.1, envelope_ok _ p h.1]
    simp only [Stim.next]
    rw [envelope_ok _ p h.1]
    simp only []
    rw [zipWith_slice _ _ _ _ l3, zipWith_slice _ _ _ _ l1, zipWith_slice _ _ _ _ l2]
    rw [ih h.2]
    simp only [applyAt_append, l1, Nat.add_assoc]
  | sam id delay off inner ih =>
    have l1 := Stim.next_length inner h m
    simp only [Stim.next, samEnvelope_eq_slice]
    rw [zipWith_slice _ _ _ _ rfl, zipWith_slice _ _ _ _ rfl, zipWith_slice _ _ _ _ rfl]
    rw [ih h]
    simp only [applyAt_append, List.length_append, l1, Nat.add_assoc]
  | sqenv id p off inner ih =>
    have l1 := Stim.next_length inner h.2 m
    obtain ⟨f, hf⟩ := h.1 id
    simp only [Stim.next, hf]
    rw [zipWith_slice _ _ _ _ rfl, zipWith_slice _ _ _ _ rfl, zipWith_slice _ _ _ _ rfl]
    rw [ih h.2]
    simp only [applyAt_append, List.length_append, l1, Nat.add_assoc]
  | filt id j off inner ih =>
    have l1 := Stim.next_length inner h m
    simp only [Stim.next, filtRun_eq_applyAt]
    rw [ih h]
    simp only [applyAt_append, List.length_append, l1, Nat.add_assoc]

/-- All histories from a well-formed factory tree, in any state. -/
theorem stim_drawAll (g : Stim) (h : g.WFs) (ns : List Nat) :
    drawAll stimGen g ns = (g.next ns.sum).1 := by
  induction ns generalizing g with
  | nil =>
    have := Stim.next_length g h 0
    simp only [drawAll, List.sum_nil]
    exact (List.eq_nil_of_length_eq_zero this).symm
  | cons n ns ih =>
    simp only [drawAll, List.sum_cons, stimGen]
    have := ih (g.next n).2 (Stim.next_wfs g h n)
    simp only [stimGen] at this
    rw [this, Stim.next_add g h]

theorem stim_stateAfter (g : Stim) (h : g.WFs) (ns : List Nat) (hns : ns ≠ []) :
    stateAfter stimGen g ns = (g.next ns.sum).2 := by
  induction ns generalizing g with
  | nil => exact absurd rfl hns
  | cons n ns ih =>
    simp only [stateAfter, List.sum_cons, stimGen]
    cases ns with
    | nil => simp [stateAfter]
    | cons k ks =>
      have := ih (g.next n).2 (Stim.next_wfs g h n) (by simp)
      simp only [stimGen] at this
      rw [this, Stim.next_add g h]

end Psi.Stim
