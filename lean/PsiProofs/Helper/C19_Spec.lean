import PsiModel.Scope
/-!
# C19 — declarative specification of Python name resolution, and `resolve` ⇔ spec

`BoundAt bi m i n w`: name `n`, read in scope `i` of the module whose scope list is `m`, is
bound at `w` (builtins `bi`).  The relation is fuel-free and does not mention `parent < j`;
it is the LEGB rule as a set of inference rules.  `resolve_sound` / `resolve_complete` show the
executable `resolve` computes exactly this relation on well-formed tables.
-/
namespace Psi.Scope

/-- Module globals, then builtins. -/
inductive GlobalAt (bi : List Nat) (m : List Scope) (n : Nat) : Binding → Prop
  | glob {g : Scope} : m[0]? = some g → n ∈ g.bound → GlobalAt bi m n .global
  | builtin {g : Scope} : m[0]? = some g → n ∉ g.bound → n ∈ bi → GlobalAt bi m n .builtin

/-- `EnclosingAt bi m n j w`: looking for `n` from enclosing scope `j` outwards finds it at `w`. -/
inductive EnclosingAt (bi : List Nat) (m : List Scope) (n : Nat) : Nat → Binding → Prop
  /-- the walk reached the module scope -/
  | module {s : Scope} {w : Binding} : m[0]? = some s → s.kind = .module → GlobalAt bi m n w → EnclosingAt bi m n 0 w
  /-- a class offers only its implicit cells (`__class__`) to nested functions… -/
  | cell {j : Nat} {s : Scope} : m[j]? = some s → s.kind = .class → n ∈ s.cells → EnclosingAt bi m n j (.cell j)
  /-- …its own bindings are skipped -/
  | classSkip {j : Nat} {s : Scope} {w : Binding} : m[j]? = some s → s.kind = .class → n ∉ s.cells →
      EnclosingAt bi m n s.parent w → EnclosingAt bi m n j w
  /-- a function-like scope that binds the name captures it -/
  | captured {j : Nat} {s : Scope} : m[j]? = some s → s.kind.functionLike = true → n ∈ s.bound →
      EnclosingAt bi m n j (.enclosing j)
  /-- a function-like scope that declares it `global` sends it to the module -/
  | declaredGlobal {j : Nat} {s : Scope} {w : Binding} : m[j]? = some s → s.kind.functionLike = true → n ∉ s.bound →
      n ∈ s.globals → GlobalAt bi m n w → EnclosingAt bi m n j w
  | outward {j : Nat} {s : Scope} {w : Binding} : m[j]? = some s → s.kind.functionLike = true → n ∉ s.bound →
      n ∉ s.globals → EnclosingAt bi m n s.parent w → EnclosingAt bi m n j w

inductive BoundAt (bi : List Nat) (m : List Scope) (i n : Nat) : Binding → Prop
  | declaredGlobal {s : Scope} {w : Binding} : m[i]? = some s → n ∈ s.globals → GlobalAt bi m n w → BoundAt bi m i n w
  | declaredNonlocal {s : Scope} {j : Nat} : m[i]? = some s → n ∉ s.globals → s.kind ≠ .module → n ∈ s.nonlocals →
      EnclosingAt bi m n s.parent (.enclosing j) → BoundAt bi m i n (.enclosing j)
  | moduleLevel {s : Scope} {w : Binding} : m[i]? = some s → n ∉ s.globals → s.kind = .module → i = 0 →
      GlobalAt bi m n w → BoundAt bi m i n w
  | «local» {s : Scope} : m[i]? = some s → n ∉ s.globals → n ∉ s.nonlocals → s.kind ≠ .module → n ∈ s.bound →
      BoundAt bi m i n .local
  | free {s : Scope} {w : Binding} : m[i]? = some s → n ∉ s.globals → n ∉ s.nonlocals → s.kind ≠ .module → n ∉ s.bound →
      EnclosingAt bi m n s.parent w → BoundAt bi m i n w

/-- The property for one load: the name is bound somewhere Python will look. -/
def Resolves (bi : List Nat) (m : List Scope) (i n : Nat) : Prop := ∃ w, BoundAt bi m i n w

/-- Every non-module scope's parent has a smaller index (scopes are listed in pre-order). -/
abbrev WF (m : List Scope) : Prop :=
  ∀ (j : Nat) (s : Scope), m[j]? = some s → s.kind ≠ .module → s.parent < j

/-- `mo.a₁.a₂…` exists, following sub-modules. -/
inductive AttrExists (mods : List ModObj) : Nat → List Nat → Prop
  | nil {mo : Nat} : AttrExists mods mo []
  | leaf {mo : Nat} {M : ModObj} {a : Nat} {rest : List Nat} : mods[mo]? = some M → a ∈ M.attrs → lookup a M.submods = none →
      AttrExists mods mo (a :: rest)
  | sub {mo : Nat} {M : ModObj} {a : Nat} {rest : List Nat} {mo' : Nat} : mods[mo]? = some M → a ∈ M.attrs → lookup a M.submods = some mo' →
      AttrExists mods mo' rest → AttrExists mods mo (a :: rest)

/-! ### basic facts -/

theorem mem_iff {n : Nat} {l : List Nat} : mem n l = true ↔ n ∈ l := by
  induction l with
  | nil => simp [mem]
  | cons a as ih =>
    simp only [mem, Bool.or_eq_true, ih, List.mem_cons]
    constructor
    · rintro (h | h)
      · exact Or.inl (Nat.eq_of_beq_eq_true h)
      · exact Or.inr h
    · rintro (h | h)
      · subst h; exact Or.inl (Nat.beq_refl n)
      · exact Or.inr h

theorem mem_false_iff {n : Nat} {l : List Nat} : mem n l = false ↔ n ∉ l := by
  rw [← mem_iff]; cases mem n l <;> simp

theorem kind_cases (k : Kind) : k = .module ∨ k = .class ∨ k.functionLike = true := by
  cases k <;> simp [Kind.functionLike]

/-! ### soundness: what `resolve` computes is derivable -/

theorem globalLookup_sound {bi m n w} (h : globalLookup bi m n = some w) : GlobalAt bi m n w := by
  unfold globalLookup at h
  split at h
  · cases h
  · rename_i g hg
    split at h
    · rename_i hb; cases h; exact .glob hg (mem_iff.1 hb)
    · rename_i hb
      split at h
      · rename_i hbi; cases h
        exact .builtin hg (fun hc => hb (mem_iff.2 hc)) (mem_iff.1 hbi)
      · cases h

theorem enclosing_sound {bi m n} : ∀ fuel j w, enclosing bi m n fuel j = some w → EnclosingAt bi m n j w := by
  intro fuel
  induction fuel with
  | zero => intro j w h; simp [enclosing] at h
  | succ fuel ih =>
    intro j w h
    unfold enclosing at h
    split at h
    · cases h
    · rename_i s hs
      split at h
      · rename_i hk
        split at h
        · rename_i hj; subst hj; exact .module hs hk (globalLookup_sound h)
        · cases h
      · rename_i hk
        split at h
        · rename_i hc; cases h; exact .cell hs hk (mem_iff.1 hc)
        · rename_i hc
          split at h
          · exact .classSkip hs hk (fun x => hc (mem_iff.2 x)) (ih _ _ h)
          · cases h
      · rename_i hnm hnc
        have hf : s.kind.functionLike = true := by
          rcases kind_cases s.kind with h1 | h1 | h1
          · exact absurd h1 hnm
          · exact absurd h1 hnc
          · exact h1
        split at h
        · rename_i hb; cases h; exact .captured hs hf (mem_iff.1 hb)
        · rename_i hb
          split at h
          · rename_i hg
            exact .declaredGlobal hs hf (fun x => hb (mem_iff.2 x)) (mem_iff.1 hg) (globalLookup_sound h)
          · rename_i hg
            split at h
            · exact .outward hs hf (fun x => hb (mem_iff.2 x)) (fun x => hg (mem_iff.2 x)) (ih _ _ h)
            · cases h

theorem resolve_sound {bi m i n w} (h : resolve bi m i n = some w) : BoundAt bi m i n w := by
  unfold resolve at h
  split at h
  · cases h
  · rename_i s hs
    split at h
    · rename_i hg; exact .declaredGlobal hs (mem_iff.1 hg) (globalLookup_sound h)
    · rename_i hg
      have hg' : n ∉ s.globals := fun x => hg (mem_iff.2 x)
      split at h
      · rename_i hk
        split at h
        · rename_i hi; exact .moduleLevel hs hg' hk hi (globalLookup_sound h)
        · cases h
      · rename_i hk
        have hk' : s.kind ≠ .module := by intro hc; exact hk hc
        split at h
        · rename_i hnl
          split at h
          · split at h
            · rename_i j he; cases h
              exact .declaredNonlocal hs hg' hk' (mem_iff.1 hnl) (enclosing_sound _ _ _ he)
            · cases h
          · cases h
        · rename_i hnl
          have hnl' : n ∉ s.nonlocals := fun x => hnl (mem_iff.2 x)
          split at h
          · rename_i hb; cases h; exact .local hs hg' hnl' hk' (mem_iff.1 hb)
          · rename_i hb
            split at h
            · exact .free hs hg' hnl' hk' (fun x => hb (mem_iff.2 x)) (enclosing_sound _ _ _ h)
            · cases h

/-! ### completeness (on well-formed tables): every derivation is what `resolve` computes -/

theorem globalLookup_complete {bi m n w} (h : GlobalAt bi m n w) : globalLookup bi m n = some w := by
  cases h with
  | glob hg hb => simp [globalLookup, hg, mem_iff.2 hb]
  | builtin hg hb hbi =>
    have : mem n _ = false := mem_false_iff.2 hb
    simp [globalLookup, hg, this, mem_iff.2 hbi]

theorem enclosing_complete {bi m n} (wf : WF m) {j w} (h : EnclosingAt bi m n j w) :
    ∀ fuel, j < fuel → enclosing bi m n fuel j = some w := by
  induction h with
  | module hs hk hg =>
    intro fuel hf
    obtain ⟨f, rfl⟩ : ∃ f, fuel = f + 1 := ⟨fuel - 1, by omega⟩
    simp [enclosing, hs, hk, globalLookup_complete hg]
  | @cell j s hs hk hc =>
    intro fuel hf
    obtain ⟨f, rfl⟩ : ∃ f, fuel = f + 1 := ⟨fuel - 1, by omega⟩
    simp [enclosing, hs, hk, mem_iff.2 hc]
  | @classSkip j s w hs hk hc _ ih =>
    intro fuel hf
    obtain ⟨f, rfl⟩ : ∃ f, fuel = f + 1 := ⟨fuel - 1, by omega⟩
    have hp : s.parent < j := wf j s hs (by rw [hk]; decide)
    have : mem n s.cells = false := mem_false_iff.2 hc
    simp [enclosing, hs, hk, this, hp, ih f (by omega)]
  | @captured j s hs hf' hb =>
    intro fuel hf
    obtain ⟨f, rfl⟩ : ∃ f, fuel = f + 1 := ⟨fuel - 1, by omega⟩
    unfold enclosing
    simp only [hs]
    cases hk : s.kind <;> simp_all [Kind.functionLike, mem_iff.2 hb]
  | @declaredGlobal j s w hs hf' hb hg hgl =>
    intro fuel hf
    obtain ⟨f, rfl⟩ : ∃ f, fuel = f + 1 := ⟨fuel - 1, by omega⟩
    have h1 : mem n s.bound = false := mem_false_iff.2 hb
    unfold enclosing
    simp only [hs]
    cases hk : s.kind <;> simp_all [Kind.functionLike, mem_iff.2 hg, globalLookup_complete hgl]
  | @outward j s w hs hf' hb hg _ ih =>
    intro fuel hf
    obtain ⟨f, rfl⟩ : ∃ f, fuel = f + 1 := ⟨fuel - 1, by omega⟩
    have h1 : mem n s.bound = false := mem_false_iff.2 hb
    have h2 : mem n s.globals = false := mem_false_iff.2 hg
    have hp : s.parent < j := wf j s hs (by intro hc; rw [hc] at hf'; simp [Kind.functionLike] at hf')
    have h3 := ih f (by omega)
    unfold enclosing
    simp only [hs]
    cases hk : s.kind <;> simp_all [Kind.functionLike]

theorem resolve_complete {bi m i n w} (wf : WF m) (h : BoundAt bi m i n w) : resolve bi m i n = some w := by
  cases h with
  | declaredGlobal hs hg hgl => simp [resolve, hs, mem_iff.2 hg, globalLookup_complete hgl]
  | @declaredNonlocal s j hs hg hk hnl he =>
    have h1 : mem n s.globals = false := mem_false_iff.2 hg
    have hp : s.parent < i := wf i s hs hk
    have h4 := enclosing_complete wf he i hp
    unfold resolve
    simp only [hs]
    cases hk' : s.kind <;> simp_all [mem_iff.2 hnl]
  | @moduleLevel s w hs hg hk hi hgl =>
    have h1 : mem n s.globals = false := mem_false_iff.2 hg
    subst hi
    simp [resolve, hs, h1, hk, globalLookup_complete hgl]
  | @«local» s hs hg hnl hk hb =>
    have h1 : mem n s.globals = false := mem_false_iff.2 hg
    have h2 : mem n s.nonlocals = false := mem_false_iff.2 hnl
    unfold resolve
    simp only [hs]
    cases hk' : s.kind <;> simp_all [mem_iff.2 hb]
  | @free s w hs hg hnl hk hb he =>
    have h1 : mem n s.globals = false := mem_false_iff.2 hg
    have h2 : mem n s.nonlocals = false := mem_false_iff.2 hnl
    have h3 : mem n s.bound = false := mem_false_iff.2 hb
    have hp : s.parent < i := wf i s hs hk
    have h4 := enclosing_complete wf he i hp
    unfold resolve
    simp only [hs]
    cases hk' : s.kind <;> simp_all

end Psi.Scope
