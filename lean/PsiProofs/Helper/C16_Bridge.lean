import PsiProofs.Helper.C07_Real
import PsiProofs.Helper.C16_RootSum
/-!
Bridge between the executable spectrum model (`Psi.Db.sumTo`, `csumTo`, `cis`, `ang`, `dftBin`,
`csd`, … of `PsiModel/DbField.lean`) at `α := ℝ` and Mathlib's `Finset.sum`, `Real.cos/sin`,
`Complex.exp`.
-/
open Finset

namespace Psi.Db

/-! ### sums -/

theorem sumTo_eq (n : ℕ) (f : ℕ → ℝ) : sumTo n f = ∑ j ∈ range n, f j := by
  induction n with
  | zero => simp [sumTo]
  | succ m ih => rw [sumTo, ih, Finset.sum_range_succ]

theorem csumTo_re (n : ℕ) (f : ℕ → Cx ℝ) : (csumTo n f).re = ∑ j ∈ range n, (f j).re := by
  induction n with
  | zero => simp [csumTo, Cx.zero]
  | succ m ih => rw [csumTo, Cx.add, ih, Finset.sum_range_succ]

theorem csumTo_im (n : ℕ) (f : ℕ → Cx ℝ) : (csumTo n f).im = ∑ j ∈ range n, (f j).im := by
  induction n with
  | zero => simp [csumTo, Cx.zero]
  | succ m ih => rw [csumTo, Cx.add, ih, Finset.sum_range_succ]

theorem meanTo_eq (n : ℕ) (f : ℕ → ℝ) : meanTo n f = (∑ j ∈ range n, f j) / n := by
  rw [meanTo, sumTo_eq, nat_real]

/-! ### angles -/

theorem ang_eq (n j k : ℕ) : (ang n j k : ℝ) = 2 * Real.pi * k * j / n := by
  simp only [ang, nat_real, pi_real]
  push_cast
  ring

theorem sqrt_two_mul_self : Real.sqrt 2 * Real.sqrt 2 = 2 :=
  Real.mul_self_sqrt (by norm_num)

theorem sqrt_two_ne_zero : Real.sqrt 2 ≠ 0 := by
  have : (0 : ℝ) < Real.sqrt 2 := Real.sqrt_pos.2 (by norm_num)
  exact this.ne'

theorem csdScale_eq (n : ℕ) : (csdScale n : ℝ) = 2 / n / Real.sqrt 2 := by
  simp [csdScale]

theorem csdScale_ne_zero (n : ℕ) (hn : 0 < n) : (csdScale n : ℝ) ≠ 0 := by
  rw [csdScale_eq]
  have : (n : ℝ) ≠ 0 := Nat.cast_ne_zero.2 hn.ne'
  have := sqrt_two_ne_zero
  positivity

/-! ### DFT bin, componentwise -/

theorem dftBin_re (n : ℕ) (s : ℕ → ℝ) (k : ℕ) :
    (dftBin n s k).re = ∑ j ∈ range n, s j * Real.cos (2 * Real.pi * k * j / n) := by
  rw [dftBin, csumTo_re]
  refine Finset.sum_congr rfl fun j _ => ?_
  simp only [Cx.smul, cis, cos_real, Real.cos_neg, ang_eq]

theorem dftBin_im (n : ℕ) (s : ℕ → ℝ) (k : ℕ) :
    (dftBin n s k).im = -∑ j ∈ range n, s j * Real.sin (2 * Real.pi * k * j / n) := by
  rw [dftBin, csumTo_im, ← Finset.sum_neg_distrib]
  refine Finset.sum_congr rfl fun j _ => ?_
  simp only [Cx.smul, cis, sin_real, Real.sin_neg, ang_eq, mul_neg]

theorem csd_re (n : ℕ) (s : ℕ → ℝ) (k : ℕ) :
    (csd n s k).re = 2 / n / Real.sqrt 2 * (dftBin n s k).re := by
  rw [csd, Cx.smul, csdScale_eq]

theorem csd_im (n : ℕ) (s : ℕ → ℝ) (k : ℕ) :
    (csd n s k).im = 2 / n / Real.sqrt 2 * (dftBin n s k).im := by
  rw [csd, Cx.smul, csdScale_eq]

/-- the DFT bin only looks at samples `j < n` -/
theorem dftBin_congr (n : ℕ) (s s' : ℕ → ℝ) (k : ℕ) (h : ∀ j, j < n → s j = s' j) :
    dftBin n s k = dftBin n s' k := by
  have hre : (dftBin n s k).re = (dftBin n s' k).re := by
    rw [dftBin_re, dftBin_re]
    exact Finset.sum_congr rfl fun j hj => by rw [h j (Finset.mem_range.1 hj)]
  have him : (dftBin n s k).im = (dftBin n s' k).im := by
    rw [dftBin_im, dftBin_im]
    congr 1
    exact Finset.sum_congr rfl fun j hj => by rw [h j (Finset.mem_range.1 hj)]
  cases hx : dftBin n s k
  cases hy : dftBin n s' k
  rw [hx, hy] at hre him
  simp only at hre him
  rw [hre, him]

theorem csd_congr (n : ℕ) (s s' : ℕ → ℝ) (k : ℕ) (h : ∀ j, j < n → s j = s' j) :
    csd n s k = csd n s' k := by
  rw [csd, csd, dftBin_congr n s s' k h]

theorem toneSig_eq (n k : ℕ) (A p : ℝ) (j : ℕ) :
    toneSig n k A p j = Real.sqrt 2 * A * Real.cos (2 * Real.pi * k * j / n + p) := by
  simp only [toneSig, sqrt_real, nat_real, cos_real, ang_eq, Nat.cast_ofNat]

/-! ### the model's `Cx ℝ` as Mathlib's `ℂ` -/

/-- the model's complex number as a Mathlib complex number -/
def toC (z : Cx ℝ) : ℂ := ⟨z.re, z.im⟩

@[simp] theorem toC_re (z : Cx ℝ) : (toC z).re = z.re := rfl
@[simp] theorem toC_im (z : Cx ℝ) : (toC z).im = z.im := rfl

theorem toC_csumTo (n : ℕ) (f : ℕ → Cx ℝ) : toC (csumTo n f) = ∑ j ∈ range n, toC (f j) := by
  apply Complex.ext
  · rw [toC_re, csumTo_re, Complex.re_sum]; rfl
  · rw [toC_im, csumTo_im, Complex.im_sum]; rfl

theorem toC_cis (θ : ℝ) : toC (cis θ) = Complex.exp (θ * Complex.I) := by
  apply Complex.ext
  · rw [Complex.exp_ofReal_mul_I_re]; rfl
  · rw [Complex.exp_ofReal_mul_I_im]; rfl

theorem toC_smul (c : ℝ) (z : Cx ℝ) : toC (Cx.smul c z) = (c : ℂ) * toC z := by
  apply Complex.ext
  · rw [Complex.re_ofReal_mul]; rfl
  · rw [Complex.im_ofReal_mul]; rfl

/-- `dftBin` is the discrete Fourier transform `Σ_j s_j e^{-2πi jk/n}` -/
theorem toC_dftBin (n : ℕ) (s : ℕ → ℝ) (k : ℕ) :
    toC (dftBin n s k)
      = ∑ j ∈ range n, (s j : ℂ) * Complex.exp (-(2 * Real.pi * Complex.I * (j * k) / n)) := by
  rw [dftBin, toC_csumTo]
  refine Finset.sum_congr rfl fun j _ => ?_
  rw [toC_smul, toC_cis]
  congr 2
  rw [ang_eq]
  push_cast
  ring

end Psi.Db
