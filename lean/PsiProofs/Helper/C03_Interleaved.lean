import PsiProofs.Helper.C03_Policy
/-! Interleaved FIFO, `keep_complete_waveforms=True`: strict round-robin until all are satisfied. -/
namespace Psi.Queue

/-- the probe `(i+1) % n` as an index into `range n` -/
theorem probe_range {n : Nat} (hn : 0 < n) (i : Int) :
    (List.range n)[((i + 1) % (n : Int)).toNat]? = some ((i + 1) % (n : Int)).toNat := by
  apply List.getElem?_range
  have h1 : 0 ≤ (i + 1) % (n : Int) := Int.emod_nonneg _ (by omega)
  have h2 : (i + 1) % (n : Int) < n := Int.emod_lt_of_pos _ (by omega)
  omega

theorem scan_keep {s : QState} {n : Nat} (hn : 0 < n) (hk : s.keep = true)
    (ho : s.ordering = List.range n) (fuel : Nat) (i : Int) :
    interleavedScan s (fuel + 1) i =
      .ok (((i + 1) % (n : Int)).toNat, (i + 1) % (n : Int)) := by
  unfold interleavedScan
  simp only [ho, List.length_range, probe_range hn, hk, if_true]

theorem nextKey_interleaved_keep {s : QState} {n : Nat} (hn : 0 < n) (hkind : s.kind = .interleaved)
    (hk : s.keep = true) (ho : s.ordering = List.range n) (hc : s.complete = false) :
    nextKey s = .ok (some (((s.cursor + 1) % (n : Int)).toNat,
      { s with cursor := (s.cursor + 1) % (n : Int) })) := by
  unfold nextKey
  have hl : s.ordering.length = n := by simp [ho]
  obtain ⟨m, rfl⟩ : ∃ m, n = m + 1 := ⟨n - 1, by omega⟩
  simp only [hkind, hc, Bool.false_eq_true, if_false, hl, scan_keep hn hk ho]
  rw [if_neg (Nat.succ_ne_zero m)]

/-- Interleaved with completed waveforms kept. `n` stimuli, requested counts `req`. -/
structure RRInv (n : Nat) (req : Nat → Int) (v : PView) : Prop where
  base : Base n req v
  kind : v.kind = .interleaved
  keep : v.keep = true
  ord : v.ordering = List.range n
  cur : (v.cursor + 1) % (n : Int) = ((v.keys.length % n : Nat) : Int)
  rr : ∀ j (h : j < v.keys.length), v.keys[j] = j % n
  open_ : v.complete = false → ∃ k, k < n ∧ 0 < trv v.data k
  closed : v.complete = true → ∀ k, k < n → trv v.data k ≤ 0
  first : ∀ m, m < v.keys.length → ∃ k, k < n ∧ (((v.keys.take m).count k : Nat) : Int) < req k

theorem RRInv_init {s : QState} (h : Loaded s) (hk : s.kind = .interleaved) (hkeep : s.keep = true) :
    RRInv s.data.length (fun k => trialsOf s k) (view s) := by
  refine ⟨Base_init h, hk, hkeep, h.ordering, ?_, ?_, ?_, ?_, ?_⟩
  · have := h.pos
    simp only [view, h.cursor, h.added, List.map_nil, List.length_nil, Nat.zero_mod]
    simp
  · intro j hj; simp [view, h.added] at hj
  · intro _
    exact ⟨0, h.pos, by have := h.trials h.pos; rw [trialsOf_eq] at this; simp only [view]; omega⟩
  · intro hc; simp [view, h.complete] at hc
  · intro m hm; simp [view, h.added] at hm

theorem RRInv_step {n : Nat} {req : Nat → Int} (s : QState) (hi : RRInv n req (view s)) :
    nextTrial s = .ok none ∨ ∃ s1, nextTrial s = .ok (some s1) ∧ RRInv n req (view s1) := by
  have hn := hi.base.npos
  have hlen : s.data.length = n := hi.base.len
  cases hc : s.complete with
  | true =>
    left
    apply nextTrial_none_of
    rw [nextKey_none_iff]
    have hk : s.kind = .interleaved := hi.kind
    simp [Done, hk, hc]
  | false =>
    right
    have hkind : s.kind = .interleaved := hi.kind
    have hord : s.ordering = List.range n := hi.ord
    have hkey := nextKey_interleaved_keep hn hkind hi.keep hord hc
    have hcur : (s.cursor + 1) % (n : Int) = (((s.added.map (·.key)).length % n : Nat) : Int) := hi.cur
    generalize hL : (s.added.map (·.key)).length = L at hcur
    have hkn : ((s.cursor + 1) % (n : Int)).toNat = L % n := by rw [hcur]; exact Int.toNat_natCast _
    rw [hkn, hcur] at hkey
    have hkl : L % n < n := Nat.mod_lt _ hn
    have hmem : L % n ∈ ({ s with cursor := ((L % n : Nat) : Int) } : QState).ordering := by
      simp [hord, hkl]
    have hdec := decrementKey_complete (s := { s with cursor := ((L % n : Nat) : Int) })
      (Or.inl hkind) hmem
    obtain ⟨s1, hs1, hv⟩ := nextTrial_ok hkey hdec (by rw [hlen]; exact hkl) hi.base.delays
    refine ⟨s1, hs1, ?_⟩
    have hb1 : Base n req (view s1) := Base_step hi.base hkl (by rw [hv]; rfl) (by rw [hv])
    have hkeys : (view s1).keys = (view s).keys ++ [L % n] := by rw [hv]
    have hklen : (view s).keys.length = L := hL
    have hdata : (view s1).data = dataStep s.data (L % n) := by rw [hv]
    have hcomp : (view s1).complete =
        if (setTrials s.data (L % n) (· - 1)).all (fun e => decide (e.trials ≤ 0)) then true
        else s.complete := by rw [hv]
    refine ⟨hb1, by rw [hv]; exact hkind, by rw [hv]; exact hi.keep, by rw [hv]; exact hord,
      ?_, ?_, ?_, ?_, ?_⟩
    · -- cursor
      have : (view s1).cursor = ((L % n : Nat) : Int) := by rw [hv]
      rw [this, hkeys, List.length_append, hklen]
      simp only [List.length_singleton]
      rw [← Nat.mod_add_mod]
      push_cast
      rfl
    · -- round robin
      intro j hj
      simp only [hkeys] at hj ⊢
      rw [List.length_append, hklen] at hj
      simp only [List.length_singleton] at hj
      by_cases hjl : j < L
      · rw [List.getElem_append_left (by rw [hklen]; exact hjl)]
        exact hi.rr j (by rw [hklen]; exact hjl)
      · have : j = L := by omega
        subst this
        rw [List.getElem_append_right (by rw [hklen]; exact Nat.le_refl _)]
        simp [hklen]
    · -- still open: some counter positive
      intro hcf
      rw [hcomp] at hcf
      split at hcf
      · simp at hcf
      · rename_i hall
        rw [all_le_iff] at hall
        have : ∃ k, k < n ∧ 0 < trv (setTrials s.data (L % n) (· - 1)) k := by
          apply Classical.byContradiction
          intro hne
          apply hall
          intro k hk
          rw [setTrials_length, hlen] at hk
          exact Int.not_lt.mp (fun h => hne ⟨k, hk, h⟩)
        obtain ⟨k, hk, hp⟩ := this
        exact ⟨k, hk, by rw [hdata, ← trv_setTrials_eq_dataStep _ _ _ (by rw [hlen]; exact hkl)]; exact hp⟩
    · -- closed: all counters ≤ 0
      intro hct k hk
      rw [hcomp] at hct
      split at hct
      · rename_i hall
        rw [all_le_iff] at hall
        have := hall k (by rw [setTrials_length, hlen]; exact hk)
        rw [hdata, ← trv_setTrials_eq_dataStep _ _ _ (by rw [hlen]; exact hkl)]; exact this
      · rw [hc] at hct; simp at hct
    · -- never started a trial when all were satisfied
      intro m hm
      rw [hkeys] at hm ⊢
      rw [List.length_append, hklen] at hm
      simp only [List.length_singleton] at hm
      by_cases hml : m < L
      · rw [List.take_append_of_le_length (by rw [hklen]; omega)]
        exact hi.first m (by rw [hklen]; exact hml)
      · have : m = L := by omega
        subst this
        rw [List.take_append_of_le_length (by rw [hklen]; exact Nat.le_refl _),
          List.take_of_length_le (by rw [hklen]; exact Nat.le_refl _)]
        obtain ⟨k, hk, hp⟩ := hi.open_ hc
        exact ⟨k, hk, (hi.base.unsat_iff hk).mp hp⟩

end Psi.Queue
