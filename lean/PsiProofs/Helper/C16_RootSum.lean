import Mathlib.RingTheory.RootsOfUnity.Complex
import Mathlib.Analysis.SpecialFunctions.Trigonometric.Basic
import Mathlib.Algebra.Field.GeomSum
/-!
Sums of `n`-th roots of unity (C16 helper).

`∑_{j<n} e^{2πi·t·j/n} = n` if `n ∣ t`, else `0`, and the real (cos / sin) corollaries with a
phase offset, which are what the DFT theorems of `C16_DftThms.lean` consume.
-/
open Finset

namespace Psi.Db.C16

open Complex in
theorem exp_int_mul_nat (n : ℕ) (t : ℤ) (j : ℕ) :
    Complex.exp (2 * Real.pi * I * (t * j) / n)
      = ((Complex.exp (2 * Real.pi * I / n)) ^ t) ^ j := by
  rw [← Complex.exp_int_mul, ← Complex.exp_nat_mul]
  congr 1
  ring

open Complex in
/-- orthogonality of the `n`-th roots of unity -/
theorem rootsum (n : ℕ) (hn : 0 < n) (t : ℤ) :
    ∑ j ∈ range n, Complex.exp (2 * Real.pi * I * (t * j) / n)
      = if (n : ℤ) ∣ t then (n : ℂ) else 0 := by
  have hζ := Complex.isPrimitiveRoot_exp n hn.ne'
  simp_rw [exp_int_mul_nat]
  split_ifs with h
  · have h1 : Complex.exp (2 * Real.pi * I / n) ^ t = 1 := (hζ.zpow_eq_one_iff_dvd t).2 h
    simp [h1]
  · have h1 : Complex.exp (2 * Real.pi * I / n) ^ t ≠ 1 :=
      fun e => h ((hζ.zpow_eq_one_iff_dvd t).1 e)
    have hn1 : (Complex.exp (2 * Real.pi * I / n) ^ t) ^ n = 1 := by
      rw [← zpow_natCast, zpow_comm, zpow_natCast, hζ.pow_eq_one, one_zpow]
    rw [geom_sum_eq h1, hn1, sub_self, zero_div]

open Complex in
theorem exp_shift (n : ℕ) (t : ℤ) (j : ℕ) (φ : ℝ) :
    Complex.exp (((2 * Real.pi * t * j / n + φ : ℝ) : ℂ) * I)
      = Complex.exp (φ * I) * Complex.exp (2 * Real.pi * I * (t * j) / n) := by
  rw [← Complex.exp_add]
  congr 1
  push_cast
  ring

open Complex in
theorem expsum_shift (n : ℕ) (hn : 0 < n) (t : ℤ) (φ : ℝ) :
    ∑ j ∈ range n, Complex.exp (((2 * Real.pi * t * j / n + φ : ℝ) : ℂ) * I)
      = if (n : ℤ) ∣ t then (n : ℂ) * Complex.exp (φ * I) else 0 := by
  simp_rw [exp_shift]
  rw [← Finset.mul_sum, rootsum n hn t]
  split_ifs <;> simp [mul_comm]

/-- `∑_{j<n} cos(2π t j/n + φ)` -/
theorem sum_cos_shift (n : ℕ) (hn : 0 < n) (t : ℤ) (φ : ℝ) :
    ∑ j ∈ range n, Real.cos (2 * Real.pi * t * j / n + φ)
      = if (n : ℤ) ∣ t then (n : ℝ) * Real.cos φ else 0 := by
  have h := congrArg Complex.re (expsum_shift n hn t φ)
  rw [Complex.re_sum] at h
  simp_rw [Complex.exp_ofReal_mul_I_re] at h
  rw [h]
  split_ifs
  · rw [← Complex.ofReal_natCast, Complex.re_ofReal_mul, Complex.exp_ofReal_mul_I_re]
  · simp

/-- `∑_{j<n} sin(2π t j/n + φ)` -/
theorem sum_sin_shift (n : ℕ) (hn : 0 < n) (t : ℤ) (φ : ℝ) :
    ∑ j ∈ range n, Real.sin (2 * Real.pi * t * j / n + φ)
      = if (n : ℤ) ∣ t then (n : ℝ) * Real.sin φ else 0 := by
  have h := congrArg Complex.im (expsum_shift n hn t φ)
  rw [Complex.im_sum] at h
  simp_rw [Complex.exp_ofReal_mul_I_im] at h
  rw [h]
  split_ifs
  · rw [← Complex.ofReal_natCast, Complex.im_ofReal_mul, Complex.exp_ofReal_mul_I_im]
  · simp

theorem sum_cos_shift_of_not_dvd (n : ℕ) (hn : 0 < n) (t : ℤ) (φ : ℝ) (h : ¬ (n : ℤ) ∣ t) :
    ∑ j ∈ range n, Real.cos (2 * Real.pi * t * j / n + φ) = 0 := by
  rw [sum_cos_shift n hn, if_neg h]

theorem sum_cos_shift_of_dvd (n : ℕ) (hn : 0 < n) (t : ℤ) (φ : ℝ) (h : (n : ℤ) ∣ t) :
    ∑ j ∈ range n, Real.cos (2 * Real.pi * t * j / n + φ) = n * Real.cos φ := by
  rw [sum_cos_shift n hn, if_pos h]

theorem sum_sin_shift_of_not_dvd (n : ℕ) (hn : 0 < n) (t : ℤ) (φ : ℝ) (h : ¬ (n : ℤ) ∣ t) :
    ∑ j ∈ range n, Real.sin (2 * Real.pi * t * j / n + φ) = 0 := by
  rw [sum_sin_shift n hn, if_neg h]

theorem sum_sin_shift_of_dvd (n : ℕ) (hn : 0 < n) (t : ℤ) (φ : ℝ) (h : (n : ℤ) ∣ t) :
    ∑ j ∈ range n, Real.sin (2 * Real.pi * t * j / n + φ) = n * Real.sin φ := by
  rw [sum_sin_shift n hn, if_pos h]

/-- an integer strictly between `-n` and `n` that is a multiple of `n` is `0` -/
theorem not_dvd_of_abs_lt (n : ℕ) (t : ℤ) (h0 : t ≠ 0) (h1 : -(n : ℤ) < t) (h2 : t < n) :
    ¬ (n : ℤ) ∣ t := by
  rintro ⟨c, rfl⟩
  have hn : (0 : ℤ) < n := by omega
  have hc : c ≠ 0 := by rintro rfl; simp at h0
  rcases lt_or_gt_of_ne hc with hc | hc
  · have : (n : ℤ) * c ≤ n * (-1) := mul_le_mul_of_nonneg_left (by omega) hn.le
    omega
  · have : (n : ℤ) * 1 ≤ n * c := mul_le_mul_of_nonneg_left (by omega) hn.le
    omega

end Psi.Db.C16
