import PsiProofs.Helper.C08_Filter
/-! Superposition for `lfilter` over ℝ: response to (state, input) sums = sum of responses. -/
namespace Psi.Db

/-- pointwise sum of two lists -/
def ladd (a b : List ℝ) : List ℝ := List.zipWith (· + ·) a b

theorem zipStep_add (x1 x2 y1 y2 : ℝ) (zs1 zs2 bs as : List ℝ) :
    zipStep (x1 + x2) (y1 + y2) (ladd zs1 zs2) bs as
      = ladd (zipStep x1 y1 zs1 bs as) (zipStep x2 y2 zs2 bs as) := by
  induction zs1 generalizing zs2 bs as with
  | nil => simp [ladd, zipStep]
  | cons z1 zs1 ih =>
    cases zs2 with
    | nil => cases bs <;> cases as <;> simp [ladd, zipStep]
    | cons z2 zs2 =>
      cases bs with
      | nil => simp [ladd, zipStep]
      | cons b bs =>
        cases as with
        | nil => simp [ladd, zipStep]
        | cons a as =>
          have := ih zs2 bs as
          simp only [ladd, List.zipWith_cons_cons, zipStep] at this ⊢
          rw [this]; congr 1; ring

theorem shiftState_add (z1 z2 : List ℝ) (h : z1.length = z2.length) :
    shiftState (ladd z1 z2) = ladd (shiftState z1) (shiftState z2) := by
  simp only [shiftState, ladd, List.drop_zipWith]
  rw [List.zipWith_append (by simp [h])]
  simp

theorem stateHead_add (z1 z2 : List ℝ) (x1 x2 : ℝ) (h : z1.length = z2.length) :
    stateHead (ladd z1 z2) (x1 + x2) = stateHead z1 x1 + stateHead z2 x2 := by
  cases z1 with
  | nil =>
    cases z2 with
    | nil => simp [ladd, stateHead]
    | cons _ _ => simp at h
  | cons a z1 =>
    cases z2 with
    | nil => simp at h
    | cons b z2 => simp [ladd, stateHead]

theorem zipStep_length (x y : ℝ) (zs bs as : List ℝ) :
    (zipStep x y zs bs as).length = min zs.length (min bs.length as.length) := by
  induction zs generalizing bs as with
  | nil => simp [zipStep]
  | cons z zs ih =>
    cases bs with
    | nil => simp [zipStep]
    | cons b bs =>
      cases as with
      | nil => simp [zipStep]
      | cons a as => simp only [zipStep, List.length_cons, ih]; omega

theorem shiftState_length (z : List ℝ) : (shiftState z).length = (z.length - 1) + 1 := by
  simp [shiftState]

theorem lfilter_add (b0 : ℝ) (bt atl : List ℝ) (z1 z2 x1 x2 : List ℝ) (hz : z1.length = z2.length)
    (hx : x1.length = x2.length) :
    lfilter b0 bt atl (ladd z1 z2) (ladd x1 x2)
      = (ladd (lfilter b0 bt atl z1 x1).1 (lfilter b0 bt atl z2 x2).1,
         ladd (lfilter b0 bt atl z1 x1).2 (lfilter b0 bt atl z2 x2).2) := by
  induction x1 generalizing x2 z1 z2 with
  | nil =>
    cases x2 with
    | nil => simp [ladd, lfilter]
    | cons _ _ => simp at hx
  | cons a x1 ih =>
    cases x2 with
    | nil => simp at hx
    | cons b x2 =>
      have hx' : x1.length = x2.length := by simpa using hx
      have hlen : (lfilterStep b0 bt atl z1 a).2.length = (lfilterStep b0 bt atl z2 b).2.length := by
        simp only [lfilterStep_eq, zipStep_length, shiftState_length, hz]
      have hstep : lfilterStep b0 bt atl (ladd z1 z2) (a + b)
          = ((lfilterStep b0 bt atl z1 a).1 + (lfilterStep b0 bt atl z2 b).1,
             ladd (lfilterStep b0 bt atl z1 a).2 (lfilterStep b0 bt atl z2 b).2) := by
        simp only [lfilterStep_eq, stateHead_add z1 z2 a b hz, shiftState_add z1 z2 hz]
        have e : stateHead z1 a + stateHead z2 b + b0 * (a + b)
            = (stateHead z1 a + b0 * a) + (stateHead z2 b + b0 * b) := by ring
        rw [e, zipStep_add]
      have hl : ladd (a :: x1) (b :: x2) = (a + b) :: ladd x1 x2 := by simp [ladd]
      rw [hl]
      simp only [lfilter, hstep, ih _ _ _ hlen hx']
      simp [ladd]

end Psi.Db
